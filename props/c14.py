ID = "C14"
SPEC_RECHECK_RUNS = 12  # forward picks its first upstream at random: a failure may need several runs to show again
COQ_PROPS = "Properties/C14.v"
JUDGE = "Judge.C14"
DRIVER = "c14"
SHARD = 150


def driver_args(tier, seed, phase):
    if phase == "search":
        return ["-n", "900" if tier == "quick" else "20000"]
    return []


RULE = ("catalogue (every concurrency setting -5..1000 x list lengths 1..5; every rcode 0..6 as first and as last arrival "
        "at concurrency 1..3; hand-written arrival orders of good/NXDOMAIN/SERVFAIL/REFUSED/error/4 kinds of garbage/"
        "header-only replies on lists of 3, 2 (wrapping) and 1; context cancelled before the call and after 0..c arrivals; "
        "silent upstreams; tag subsets incl. repeats, reversed, blank and unknown tags; all-at-once races; one exchange ended "
        "by the upstream's own 5 s deadline) + seeded random scripts over Forward.Exec / QuickConfigureExec on in-memory "
        "upstreams (list 1..5, concurrency in {-1,0,1,2,3,4,9}, random release order, partial release, cancellation with and "
        "without cause, 3/4 one-at-a-time and 1/4 all-at-once) + NewForward over loopback UDP servers + late-helper cases "
        "(run alone on one processor with Exec called synchronously: the context has already ended, or the first upstream "
        "reached answers NOERROR at once, so Exec returns before some helper goroutines have started; the driver then packs "
        "six other queries of the same size through pool.PackBuffer, recycling the released query buffer, and only then "
        "lets the late helpers reach their upstreams; concurrency 1,2,3,9 x lists of 1,2,4) + query sizes: "
        "queries padded (EDNS0 padding in qCtx.QOpt()) to exactly 4096, 8189..8193 (pool.PackBuffer's 8191 byte scratch "
        "buffer holds a message of at most 8190 bytes, larger ones are packed into a fresh slice), 9000, 16383, 16384, "
        "20000, 32768, 65534 and 65535 bytes on the wire, in the catalogue at concurrency 1, 3 and through a tag subset, "
        "in 1/25 of the random scripts and 1/6 of the late-helper cases + caller contexts: cancel-only, or with a deadline "
        "5 s, 6 s, 30 s or 1 h after the start of the call (catalogue: alone, next to silent upstreams, with cancellation, "
        "all-at-once; 1/3 of the random and late-helper scripts), 1 s and already expired only where the script ends the "
        "context before the call; the one exchange that really runs into the upstream deadline has a caller deadline of "
        "30 s; the deadline of the context every upstream call received is read and compared (floor of its distance from "
        "before the call >= 5 s, ceil of its distance from inside the upstream <= 5 s, both exact inequalities, no "
        "waiting); in every case the bytes each "
        "upstream call received are compared with this call's packed query and must sit in a buffer of their own; "
        "a case is non-trivial "
        "when at least two upstreams are queried and a bad outcome arrives before a good one or the context is cancelled "
        "among the events, or when the selection wraps around a list shorter than the concurrency, or when the packed query is longer "
        "than 8190 bytes; distinct = distinct Gallina literal")
ASSUMPTIONS = [
    "Go channel semantics: an unbuffered send completes only when received; close(done) releases every select on it; "
    "a deferred cancel() runs when the worker goroutine ends (this is how the driver orders arrivals)",
    "an upstream honours the context it is given (then 'exchange still running' always ends within the 5 s deadline "
    "that the driver reads from that context)",
    "the reference bytes of a query are miekg/dns Msg.Pack() of qCtx.Q(), taken by the driver without the byte pool",
    "miekg/dns Unpack decides parsable / unparsable; rcodes 0 and 3 are dns.RcodeSuccess / dns.RcodeNameError",
    "math/rand/v2 IntN(n) returns a value in [0, n); its distribution is not claimed",
    "late-helper cases rely on the Go scheduler only to PRODUCE the schedule (one P: goroutines started by Exec do not "
    "run before the calling goroutine blocks); if it preempts anyway the case degrades to an ordinary one, the verdict "
    "on correct code does not depend on it",
]
TRUSTED_BASE = [
    "hand-written model coq/Model/Forward.v tied to plugin/executable/forward/forward.go by differential execution "
    "(Judge.C14) and by the regenerated constants forward_max_concurrent / forward_query_timeout in Gen/Constants.v",
    "the goroutine protocol (workers, unbuffered result channel, done, caller context) is a hand transcription into "
    "Model.Forward.step; the driver checks its consequences (results, every worker ends) but not the transcription itself",
    "verif-only constructor plugin/executable/forward/zz_verif_export.go (VerifNewForward)",
]
LEVEL_TEXT = ("Theorems in coq/Properties/C14.v: for every configured concurrency the clamp is in 1..3; for every caller deadline the "
              "context handed to an upstream expires queryTimeout = 5 s after its creation (c14_upstream_deadline_bound); for every start, count and "
              "list length the queried positions are the c cyclically consecutive ones (distinct if c <= n, repeating with period n "
              "otherwise) and each gets the query bytes unchanged; for EVERY arrival order and every mix of outcomes the collection "
              "loop returns the first NOERROR/NXDOMAIN reply, else the last exchange's reply whatever its rcode or the all-failed "
              "error, else the context's error if that comes first, never a bad answer when a good one is among the first c arrivals, "
              "and equals the property's one-line reading (first decisive event, else last); for c = 1..3 workers ALL interleavings "
              "of the worker/collector/context protocol (kernel-checked exhaustive exploration) terminate, never leave a worker "
              "blocked, and compute exactly that loop on the receive order. The model is run inside Coq on every script the Go "
              "driver executed on the real Forward (Judge.C14.agree), and the property's own oracle is applied to the observation "
              "(Judge.C14.spec).")
LEVEL_NOTE = ("Trusted: Coq kernel + vm_compute; hand-written model and protocol transcription tied to the code by the differential "
              "run and Gen/Constants.v; Go channel/defer semantics; upstreams honour their context. No axioms. Uniformity of the "
              "random start is not claimed; the start is existentially quantified in the comparison.")
