ID = "C08"
COQ_PROPS = "Properties/C08.v"
JUDGE = "Judge.C08"
DRIVER = "c08"
SHARD = 300


def driver_args(tier, seed, phase):
    if phase == "search":
        return ["-n", "600" if tier == "quick" else "6000"]
    return []


RULE = ("catalogue: sequential streams against servers whose every connection dies after k replies in three ways (EOF right behind the reply, write "
        "succeeds then the read side resets, the next write fails), pools of 1-5 connections that all died while idle followed by fresh queries, dial "
        "error, hanging dial + cancel, silent pooled connection + cancel, transport Close with a query in flight, for both transports + seeded "
        "random connection plans with 1-5 concurrent workers; one case per query; non-trivial = the query made at least 2 passes or a pass failed; "
        "distinct = distinct Gallina literal")
ASSUMPTIONS = [
    "the schedule points <t>.attempt / <t>.conn.created fire on the caller's goroutine (attribution by goroutine id)",
    "a cancelled context is the cause of the failure it accompanies (scenarios cancel only blocked calls)",
    "which pooled connection is tried next is the pool's free choice (not modelled)",
]
TRUSTED_BASE = [
    "hand-written loop model coq/Model/Retry.v tied to pipeline.go / reuse.go by (i) Gen/RetryFacts.v + Gen/Constants.v regenerated from the "
    "source (comparison operator, ctx check, !isNewConn guard, maxRetry) and (ii) the per-query differential run on the real transports",
    "harness/poolx (fake connections with scripted deaths, goroutine attribution), verif hooks in /repo",
]
LEVEL_TEXT = ("Theorems for EVERY environment script (any sequence of per-attempt outcomes): at most 4 passes/transmissions per query, an exchange "
              "failure is reported only after an attempt on a connection opened for the call, or with the budget exhausted, or (pipeline) with "
              "the context ended; failures on pooled connections within the budget are retried and a working fresh connection then yields success. "
              "The loop model is re-derived from the source's retry condition on every run and replayed per query against both real transports.")
LEVEL_NOTE = ("Partial: the pool (which connection is handed out, removal of dead ones) is environment in the model; 'opened for this call' is "
              "observed through schedule points. No axioms.")
