ID = "C09"
COQ_PROPS = "Properties/C09.v"
JUDGE = "Judge.C09"
DRIVER = "c09"
SHARD = 60
SEARCH_ROUNDS = 2

# a panic in mosdns code (not in the harness) during the scripted runs is a failing history of this property
CRASH_VIOLATION = [
    (r"panic: [^\n]*\n(?:[^\n]*\n){0,60}?[^\n]*IrineSistiana/mosdns/v5/pkg/upstream", "the code under test panicked (the property says no counter underflows or panics)"),
]


def driver_args(tier, seed, phase):
    a = []
    if phase == "search":
        a += ["-n", "300" if tier == "quick" else "6000"]
    return a


ASSUMPTIONS = [
    "one label of Model.Tdc per shared-state access of conn_traditional.go is the right atomicity (Go memory model, mutex/channel/atomic semantics)",
    "the harness realises an action list deterministically through a fake NetConn (gated Write, fed Read) and the verif schedule point tdc.exchange.written",
    "net.Conn honours Close by failing a pending Read",
]
TRUSTED_BASE = [
    "hand-written LTS coq/Model/Tdc.v tied to pkg/upstream/transport/conn_traditional.go by scripted schedules run on the real connection "
    "and replayed label by label on the model (Judge.Tdc.agree), incl. wire ids, every call's outcome, the reserved/queued counters and the closed flag; "
    "qid_tries regenerated from the source into Gen/Constants.v",
    "harness/tdcx (fake NetConn, script executor, generator), verif hooks in /repo (pkg/verifhook, zz_verif_export.go)",
]
RULE = ("(established connection) catalogue (limit 1, limit 2 with withdraw, release by cancel/error, closed connection refuses, reservation outliving a close) + seeded random "
        "schedules with more calls than the limit (limits 1,2,3,4,8); non-trivial = some reservation was refused or at least limit-many reservations "
        "were attempted; distinct = distinct Gallina literal")
LEVEL_TEXT = ("Theorems for ALL label lists: the reserved counter and the waiter-table size are exact counts of calls in those phases, their sum never "
              "exceeds the limit, nothing leaks when all calls have ended (state equals a fresh connection), a live connection below its limit admits, "
              "a connection at its limit refuses without counting; the same for the dialing phase (queue limit, wait group) incl. that callers queued while dialing are served first and not refused with equal limits. Replayed against the real connection incl. its internal counters on every run.")
LEVEL_NOTE = ("Covers the established connection (TraditionalDnsConn, Model.Tdc) and the dialing phase (lazyDnsConn, Model.Lazy: queue limit, exact "
              "early-reservation accounting, early callers served first with equal limits). The real connection behind the lazy wrapper is abstracted "
              "to its capacity counter. Which connection the transport picks and the limit 1 of the non-pipelined transport are observed by the C08 "
              "pool driver, not modelled here. No axioms.")
