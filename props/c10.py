ID = "C10"
COQ_PROPS = "Properties/C10.v"
JUDGE = "Judge.C10"
DRIVER = "c10"
SHARD = 100

# a panic inside the cache plugin (e.g. while it copies a message a caller is rewriting) is a failing history:
# the property says callers' mutations and the stored copies never meet
CRASH_VIOLATION = [
    (r"(panic: |fatal error: concurrent map)[^\n]*\n(?:[^\n]*\n){0,60}?[^\n]*IrineSistiana/mosdns/v5/plugin/executable/cache",
     "the cache plugin crashed while a caller was working on a message it had been handed (shared memory between the cache and a caller)"),
]


def driver_args(tier, seed, phase):
    if phase == "search":
        return ["-n", "1500" if tier == "quick" else "40000"]
    return []


RULE = ("catalogue (per record type A/AAAA/TXT/NSEC/OPT and per shape of the sections, lazy cache off and on): store, write "
        "to every kind of field of the stored message, hit, write to every kind of field of the hit, three more hits with "
        "ids 0/65535 and an aged item; a rewritten stored message and a rewritten hit handed back to the cache; shared "
        "record pointers and shared rdata slices inside one client followed by writes through them; replaced, refused "
        "(truncated, wrong question, TTL 0) answers and /flush; expiry (lazy path with its background update, or a miss). "
        "The cache's own dump and load: two and three different entries in one dump block, hits before and after GET /dump (repeated names, Compress on and off), writes, /flush, POST /load_dump, hits on every key of the block, a second load; seeded dump-load histories of 8..18 steps (answers that survive the wire, lookups, writes, dumps, loads, /flush over 3 keys; after every load the stored messages are read). "
        "Seeded random histories of 6..16 steps on one real Cache over 3 keys and 3 clients: Cache.Exec with a scripted "
        "rest-of-chain (new answer / nothing / an already held message), writes of 14 kinds to any held message (in and out "
        "of range), item clock moves, expiry, /flush. A case is non-trivial when a held message of key k is written to and a "
        "later execution for k is served from the cache; distinct = distinct Gallina literal")
ASSUMPTIONS = [
    "miekg/dns Msg.Copy and dns.Copy allocate a new message, new section arrays, a new struct per record and new rdata "
    "slices (modelled by copy_msg_gen/copy_rec; exercised on A, AAAA, TXT, NSEC and OPT by in-place writes to the bytes "
    "behind net.IP, the elements of Txt and TypeBitMap and the Data of EDNS0 options); Go strings are immutable",
    "object granularity: one array object per (message, section); appends, truncations and deletions are modelled in place "
    "on it; sharing one section backing array between two caller messages is not modelled",
    "a holder can only store references it can reach: a link mutation takes its source from a message of the same client "
    "(clients do not pass references to each other)",
    "miekg/dns Pack/Unpack round-trips the answers used in dump-load histories (A, AAAA, TXT, OPT; that is property C19); Msg.Compress is not on the wire, a loaded message has it clear; Load takes the list of unpacked values as input",
    "which TTL rewriting a lookup applies (age, or the lazy path) and whether an entry is still there are inputs of the "
    "model (timing is property C05, the key is property C04); Go memory-model data races are not modelled",
]
TRUSTED_BASE = [
    "hand-written model coq/Model/CacheIso.v tied to plugin/executable/cache/utils.go (copyNoOpt, saveRespToCache, "
    "getRespFromCache), cache.go (Exec, doLazyUpdate), pkg/dnsutils/msg.go (SubtractTTL, SetTTL, GetMinimalTTL) and "
    "pkg/query_context (SetResponse/popOpt) by differential execution (Judge.C10: per execution the value handed to the rest "
    "of the chain, at the end the value of every message the driver holds) and by the regenerated constants "
    "cache_expired_msg_ttl / cache_max_empty_answer_ttl in Gen/Constants.v",
    "zz_verif_export_c10.go (build tag verif): moves the clock of one stored item, waits for a lazy update",
]
LEVEL_TEXT = ("Theorems in coq/Properties/C10.v, for every history of stores, lookups, removals and arbitrary in-place writes "
              "(every scalar field, rdata bytes, new rdata, appended records/OPT, truncation, deletion, shared record and rdata "
              "pointers) by any number of clients: the cache's copies share no object with any message ever handed out or "
              "passed in; messages of different clients share no object; every hit is made of new objects; no operation of "
              "another client changes the value of a held message; no write changes what the cache holds; a hit returns exactly "
              "what was stored (value at store time, OPT stripped, TTLs rewritten) with the query's id; the sequence of served "
              "values is the same with and without the writes; a dump changes no stored object (the state is identical, every later hit "
              "equals the hit before); every item a load creates is made of new objects, disjoint from every other item and every held "
              "message, and holds exactly its own entry (round trip: the value at dump time). The model is run inside Coq on every history the Go driver "
              "executed on the real plugin.")
LEVEL_NOTE = ("Trusted: Coq kernel + vm_compute; hand-written aliasing model tied to the code by the differential run; miekg Copy "
              "depth as assumed contract (tested for five record types); no data-race reasoning. No axioms.")
