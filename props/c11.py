ID = "C11"
COQ_PROPS = "Properties/C11.v"
JUDGE = "Judge.C11"
DRIVER = "c11"
SHARD = 60
# the property says the store's operations do not race on memory: the Go runtime detecting an
# unsynchronised map access in the driver's concurrent phases is a failing history, not a broken harness
CRASH_VIOLATION = [
    (r"fatal error: concurrent map (read and map write|writes|iteration and map write)",
     "the Go runtime aborted the concurrent store run with an unsynchronised map access (memory race in the store)"),
]


def driver_args(tier, seed, phase):
    if phase == "search":
        return ["-n", "400" if tier == "quick" else "12000"]
    return []


RULE = ("catalogue (fills around the capacity of 18 configured sizes from -5 to 2000; for each of them the script 'fill beyond "
        "capacity, flush, fill again, flush, fill, sweep everything, fill, sweep nothing, close the cleaner, fill, flush, fill' with "
        "Len after every step; hand-written boundary scripts: expired Store, overwrite, flush, sweep exactly at / one second after "
        "an expiry, 17th key of a shard, overwrite in a full shard; a lookup parked at the schedule point cache.get.loaded while "
        "the entry is swept / flushed / overwritten; expiry 40 ms ahead: store, wait until the clock has passed it without a sweep, "
        "lookup must miss; expiry 3 s ahead with lookups before and after) + seeded sequential scripts of "
        "Store/Get/Flush/Len/Range/gc over keys colliding in one shard with the evicted keys observed by Range, + seeded fill "
        "scripts where Flush / gc / Close at arbitrary points precede long runs of distinct keys around and beyond the capacity, "
        "+ seeded expiry-around-now lookups (1-6 keys, near and far expiries, repeated lookups), + concurrent histories of 2-4 "
        "goroutines (12-36 calls, 2-3 keys or a shard-overfilling key set) ordered by a global atomic counter, + Len sampled under "
        "concurrent writers, with and without a concurrent flusher/sweeper and an overfill after the last Flush, and with every shard "
        "full while 4-12 goroutines store keys of ONE shard from a pool slightly larger than its limit (overwrites of present keys "
        "racing with insertions that evict them), Len read after the stores and by a sampler; + pkg/concurrent_lru.ShardedLRU "
        "over pkg/lru: hand-written and seeded sequential scripts of Add/Get/Del/Clean/Len/Flush (1-4 shards, 1-8 entries per shard, "
        "repeated keys with changing values, the key touched last re-stored) with the onEvict pairs observed, replayed exactly on "
        "the recency-list model, and concurrent Add/Get/Flush/Len/Clean histories judged by the same history predicate; "
        "a case is non-trivial when the size is below 1024 or not a multiple of 64, a Store evicted a key, a fill script contains "
        "Flush/gc/Close, time passes an expiry, an LRU script overwrites a key or evicts, or two calls of different goroutines on the same key overlap in time; "
        "distinct = distinct Gallina literal")
ASSUMPTIONS = [
    "each shard method is one atomic step: justified by the lock table regenerated from the source "
    "(c11_lock_table_sound + c11_lock_discipline) and sync.RWMutex behaving as writers-exclusive/readers-shared",
    "key.Sum() only selects the shard (the theorems hold for every hash function); Go map get/set/delete/len/range "
    "behave as a finite map, range visiting each remaining key once in an arbitrary order",
    "the clock is monotone (time.Now); in the differential run an expiry is either at least an hour away from the wall clock, "
    "or seconds away with every clock reading at least two seconds off it (case dropped otherwise), or milliseconds ahead with "
    "the Stores verified to have happened before it and the lookups started only after the clock was seen past it "
    "(waiting longer cannot change the verdict)",
    "the global atomic counter of the driver orders invocations and responses consistently with real time",
]
TRUSTED_BASE = [
    "hand-written model coq/Model/CacheStore.v tied to pkg/concurrent_map/map.go and pkg/cache/cache.go by differential "
    "execution (Judge.C11: exact replay of sequential scripts with the observed eviction choices; the proved history "
    "predicate and capacity bound on concurrent histories) and by Gen/Constants.v (cache_min_size, map_shard_size)",
    "tools/gofacts/gen_locks.go: syntactic extraction into Gen/LockFacts.v of (table) lock calls and map accesses per method of "
    "the lock-owning structs and (callers) the number of lock-taking calls on one path of every function above them "
    "(Map.Set, ShardedLRU.Add, ...)",
    "pkg/cache/zz_verif_export_c11.go (build tag verif): VerifGC(now) = c.gc(now)",
]
LEVEL_TEXT = ("Theorems in coq/Properties/C11.v, for every operation list / every interleaving (label list) of "
              "Get/Store/Flush/Len/Range/gc, every eviction choice, every configured size and every hash function: the entry "
              "count and every Len() result are at most 64*(max(size,1024)/64) <= max(size,1024); a sequential lookup returns "
              "nothing or exactly the abstract map's unexpired value; in every concurrent history a returned value was stored "
              "under exactly that key by a Store that began before the lookup ended, was unexpired when the lookup began, and "
              "was not overwritten or flushed by a call that completed before the lookup began after that Store had returned; "
              "the lock table regenerated from the source puts every map write under Lock and every read under RLock/Lock, "
              "which excludes overlapping conflicting accesses under every schedule, and every Map-level operation takes a shard lock at "
              "most once (no check-then-act over two critical sections); the ShardedLRU/LRU model never exceeds maxSize per shard and "
              "its Get returns the latest Add's value or nothing. The model is run inside Coq on every "
              "case the Go driver observed on the real pkg/cache.Cache.")
LEVEL_NOTE = ("Trusted: Coq kernel + vm_compute; hand-written model tied to the code by the differential run, Gen/Constants.v and "
              "Gen/LockFacts.v (gofacts is syntactic, best effort); atomicity of a locked shard method and Go's memory model are "
              "assumed, not derived; concurrent histories are checked against the proved predicate, not linearised; the Go race "
              "detector is not run by this check; plugin-level defaults (Args.init) and concurrent_lru are outside the store "
              "modelled here; pkg/lru and concurrent_lru have a sequential model with theorems (bounded, latest value) and an exact "
              "differential replay, their concurrent histories are judged by the cache's history predicate without an LRU transition "
              "system behind it. No axioms.")
