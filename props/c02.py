ID = "C02"
COQ_PROPS = "Properties/C02.v"
JUDGE = "Judge.C02"
DRIVER = "c02"
SHARD = 60


def driver_args(tier, seed, phase):
    a = []
    if phase == "search":
        a += ["-n", "300" if tier == "quick" else "6000"]
    return a


ASSUMPTIONS = [
    "one label of Model.Tdc per shared-state access of conn_traditional.go is the right atomicity (Go memory model, mutex/channel/atomic semantics)",
    "the harness realises an action list deterministically through a fake NetConn (gated Write, fed Read) and the verif schedule point tdc.exchange.written",
    "net.Conn honours Close by failing a pending Read; a Read that has taken bytes off the socket returns them even if the socket is closed before the goroutine runs again",
]
TRUSTED_BASE = [
    "hand-written LTS coq/Model/Tdc.v tied to pkg/upstream/transport/conn_traditional.go by scripted schedules run on the real connection "
    "and replayed label by label on the model (Judge.Tdc.agree), incl. wire ids, every call's outcome, the reserved/queued counters and the closed flag; "
    "qid_tries regenerated from the source into Gen/Constants.v",
    "harness/tdcx (fake NetConn, script executor, generator), verif hooks in /repo (pkg/verifhook, zz_verif_export.go)",
]
RULE = ("(ID-multiplexed connection) catalogue of the windows the property names (reply during Write, between Write and wait via the schedule point, while waiting, "
        "followed by EOF / Close / cancel / another caller's write error, two callers; the reader descheduled inside Read or between its waiter lookup and the hand-over while the connection is closed under it by Close or a sibling's failing Write) x TCP/UDP framing, each repeated because Go's select "
        "is random, + seeded random schedules biased to holds and faults right after replies; non-trivial = a caller was parked before its wait "
        "or a fault/cancel occurs in the schedule; distinct = distinct Gallina literal. (non-pipelined transport) the same windows on the real ReuseConnTransport "
        "(reply during Write, before the wait, followed by EOF / cancel / transport Close, on fresh and on pooled connections; the reply read while the caller's Write is failing, "
        "the caller descheduled inside the socket's Close until the reader has handed it over) + seeded random schedules")
LEVEL_TEXT = ("Theorems for ALL label lists: once the reader has handed a reply to a call, the only thing that call can return is that reply "
              "(whatever follows: EOF, read/write error, Close, context expiry); the first hand-off cannot fail wherever the caller is; a call "
              "that holds a reply is not blocked and both its wait and its error exits return it. Replayed against the real connection on every run.")
LEVEL_NOTE = ("'Received' is the reader's hand-off step; a context that ends between the socket read and the hand-off is counted as the deadline "
              "having passed first. Covers the pipelined/UDP connection (Model.Tdc) and the non-pipelined transport (Model.Reuse). No axioms.")
