ID = "C20"
COQ_PROPS = "Properties/C20.v"
JUDGE = "Judge.C20"
DRIVER = "c20"
SHARD = 150


def driver_args(tier, seed, phase):
    if phase == "search":
        return ["-n", "600" if tier == "quick" else "12000"]
    return []


RULE = ("the real fallback plugin, built as the loader builds it (args map -> utils.WeakDecode -> fallback.Init over scripted "
        "primary/secondary executables), under 24 schedules enforced "
        "through the verif schedule points (primary parked at 'mid', secondary parked at 'ready'/'send', executables released "
        "on recorded events, threshold 60 s = cannot fire or 20 ms = may fire any time, caller cancel, 40 ms deadline) x all "
        "3x3 outcomes x always_standby on/off x repeats, then seeded random picks biased to both-answer; what the property says must "
        "not matter is varied systematically across the repeats and is NOT in the literal (see desc): 'no answer' produced by "
        "never setting a response or by setting one and removing it with the real drop_resp plugin, 'error' with or without a "
        "response attached, a fresh query context or one back-dated to twice the threshold (an earlier slow step); the configuration path: "
        "threshold unset/0/negative/1/50/100/499/500/501/800/60000 ms (+ random values) x always_standby, observed = the duration "
        "the threshold timer is armed with and the standby flag in the constructed plugin; two coarse end-to-end timing cases "
        "(threshold 50 ms configured, secondary started/released within 400 ms, best of three); six two-call sequences that first "
        "let a pooled threshold timer expire unreceived and then check a within-threshold call; 32 sequences on ONE instance "
        "(threshold 50 ms): 1 or 3 calls abandoned by their callers before the threshold with their workers kept parked, then "
        "directly a call with a slow primary and a fast secondary / both failing / primary answering after the secondary started, "
        "always_standby on/off (CSeq, judged by the single-call model: calls are independent); observed in scheduled calls: which "
        "worker's answer / ErrFailed / context error came back and which schedule points had been reached at that moment; "
        "a case is non-trivial when always_standby is on with both workers answering, the threshold is short, or the "
        "caller's context ends, or a positive threshold is configured; distinct = distinct Gallina literal (repeats with the same "
        "observation collapse)")
ASSUMPTIONS = [
    "query_context.Context.SetResponse/R behave as a plain cell (SetResponse(nil) removes the response); exercised through the real drop_resp plugin",
    "Go channel semantics as modelled: buffered FIFO channel, close is seen by every receiver, select takes any ready case",
    "the primary and secondary executables return (they run under a deadline context); their outcome is a parameter",
    "time.Timer fires no earlier than its duration (the 60 s threshold does not fire during a case); a timer from pkg/pool behaves like a fresh timer "
    "(exercised by the pooled-timer sequences of the driver, not proved)",
    "merging a goroutine-local step (Exec returning, reading alwaysStandby / r) with the following shared statement loses no interleaving",
]
TRUSTED_BASE = [
    "hand-written model coq/Model/Fallback.v tied to plugin/executable/sequence/fallback/fallback.go doFallback by "
    "(a) Gen/FallbackFacts.v regenerated from the AST on every run: order of respChan<-r / close(primDone), order of "
    "close(primFailed) / respChan<-nil, capacity of respChan, collection rounds, cases of the secondary's two selects, the "
    "argument of pool.GetTimer in the secondary goroutine (must be the configured field itself), timer ownership "
    "(fallback_timer_owned_by_secondary: Get and deferred Release inside the secondary goroutine, no other pool use in doFallback; "
    "Model.Fallback.timer_private / call_model and theorem c20_calls_independent depend on it), the "
    "statements of newFallbackPlugin that compute fastFallbackDuration from args.Threshold translated into the Gallina function "
    "fallback_effective_threshold (proved equal to Model.Fallback.effective_threshold), the source of alwaysStandby, and "
    "(b) differential execution under enforced schedules (Judge.C20.agree explores the same gated transition system the theorems are about)",
    "goroutine identification in the driver via runtime.Stack (maps a schedule point to its case); reflection to read the "
    "unexported fields fastFallbackDuration / alwaysStandby of the constructed plugin, and reflect+unsafe to back-date "
    "query_context.Context.startTime (the driver exits 2 if that field disappears)",
]
LEVEL_TEXT = ("Theorems in coq/Properties/C20.v, for all 3x3 worker outcomes, always_standby on/off, timer/deadline/context may-or-may-not "
              "fire, and ALL interleavings of primary, secondary, collector and those events (finite state space: 2 workers, channel "
              "capacity 2; kernel-checked closure of the computed reachable set): primary's answer whenever it is produced within the "
              "threshold; secondary's answer only if the primary failed or threshold/deadline passed first; the first queued answer wins; "
              "ErrFailed iff both fail; no-standby secondary not started before primFailed/timer; standby secondary released only by a "
              "signal and discarded when the primary is in time; context error only/at once when the context ended; no deadlock, finite "
              "runs, workers finish, channel never blocks. The threshold the timer is armed with is the configured number of milliseconds "
              "whenever that is positive and the 500 ms default otherwise (function regenerated from newFallbackPlugin's statements). "
              "A call of a sequence on one instance is described by the single-call model whatever earlier calls did "
              "(c20_calls_independent, resting on the regenerated timer-ownership fact). "
              "The original statement order is refuted (F8, fixed).")
LEVEL_NOTE = ("Trusted: Coq kernel + vm_compute; hand-written model tied to the code by Gen/FallbackFacts.v and the scheduled differential "
              "run; Go channel/select/timer semantics as modelled; executables return. The workers' deadline context (makeDdlCtx) also "
              "releases a standby secondary: 'slower than the threshold' is proved as 'threshold timer or workers' deadline fired before "
              "the primary signalled'. No axioms.")
