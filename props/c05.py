ID = "C05"
COQ_PROPS = "Properties/C05.v"
JUDGE = "Judge.C05"
DRIVER = "c05"
SHARD = 200
DRIVER_TIMEOUT = {"quick": 300, "thorough": 7200}


def driver_args(tier, seed, phase):
    if phase == "search":
        return ["-n", "700" if tier == "quick" else "20000"]
    return []


RULE = ("histories on the real cache plugin (Cache.Exec with a scripted rest-of-chain, POST /load_dump with entries whose "
        "stored/expiry times are 'now - age' in whole seconds, GET /dump, lazy_hit_total): a hand-written catalogue (every second "
        "around message expiry and cache expiry, lazy off/on/switched off, TTL 0/1/2/2^32-1, ages up to and beyond 2^32 s and beyond "
        "what a time.Duration can express, stored-in-the-future, OPT in every section, every rcode class x TC x empty/non-empty answer "
        "x zero TTL, lazy_cache_ttl overflowing int64 ns, overwrite/ignored-load/two-key histories, a stale hit whose background "
        "refresh is answered by every kind of reply that must not be stored (TC with any rcode, zero TTL in any section, no record / "
        "OPT only, rcodes 1,4,5,9,15,16,4095) and by every kind that may (answer, empty answer around 300 s, NXDOMAIN, SERVFAIL), "
        "followed by a dump and two more queries; the same reply on a fresh / dead / lazy-off entry (no refresh); a refused refresh "
        "followed by an accepted one; entries that expire while in the map (real waiting)) followed by seeded random cases: 40% "
        "load+look-up with the age drawn within +-2 s of an expiry instant, 20% store+dump+look-up, 20% load + stale hit with a "
        "scripted refresh reply (half of them unstorable) + dump + look-up, 20% mixed histories over two questions (the driver joins "
        "every refresh through VerifC10LazyWait before it looks at the store); plus the exact-instant time arithmetic of getRespFromCache "
        "(time.Unix(..).Sub(..).Seconds() -> uint32, incl. the float64 rounding windows), the dnsutils TTL helpers with arbitrary "
        "deltas, and bursts of 1-64 concurrent stale hits on 1-3 questions with the refresh held on a channel. Every case runs inside "
        "one wall-clock second (re-run otherwise) so no comparison with an expiry instant depends on scheduling. A case is non-trivial "
        "when an age is within 2 s of an expiry instant, a stale (lazy) hit occurs, a TTL is 0, 1 or 2^32-1, a lifetime rule other than "
        "'smallest TTL' applies, a refresh reply is truncated / not NOERROR / has an edge TTL, real waiting is involved, the time arithmetic is at a second boundary or beyond 2^24 s, or it is a "
        "concurrent burst; distinct = distinct Gallina literal")
ASSUMPTIONS = [
    "one clock: time.Time is modelled as nanoseconds on a single clock (monotonic-clock readings of time.Time are not modelled)",
    "uint32(float64) for values outside the uint32 range keeps the low 32 bits of the int64 truncation (Go on amd64; checked by the CElapsed cases)",
    "secs_go (IEEE binary64 evaluation of Duration.Seconds via Coq's SpecFloat) equals the whole-second count for ages below 2^24 s: "
    "checked on every observed case, not proved",
    "x/sync/singleflight DoChan/doCall/Forget behave as modelled by Model.CacheTTL.sf_step (checked by the burst cases)",
    "cache.VerifC10LazyWait (verif export added for C10) returns only after the refresh started by the preceding Exec has finished",
    "miekg/dns Pack/Unpack preserve section, type and TTL of every record (used only to inject and read back dump entries)",
]
TRUSTED_BASE = [
    "hand-written model coq/Model/CacheTTL.v tied to plugin/executable/cache/{utils,cache}.go, pkg/dnsutils/msg.go, pkg/cache/cache.go "
    "by differential execution (Judge.C05) and by the regenerated constants cache_expired_msg_ttl / cache_max_empty_answer_ttl in "
    "Gen/Constants.v (the NXDOMAIN 30 s and SERVFAIL 5 s lifetimes are literals in the Go source and in the model)",
]
LEVEL_TEXT = ("Theorems in coq/Properties/C05.v, for every message, every TTL (unbounded N, so 0..2^32-1 included), every instant and "
              "every lazy_cache_ttl: a fresh hit ages each non-OPT TTL to 'ttl - e if positive else 1' with e the elapsed seconds "
              "(= floor of the age for whole-second arithmetic), never below 1 and never above ttl - e; without lazy caching an entry "
              "is served iff now < message expiry and not cache expiry < now; with lazy caching an expired message in a live entry is "
              "served with TTL 5 and flagged for refresh; for every schedule at most one refresh per question is in flight and a stale "
              "hit always leaves exactly one; admission (no TC, rcode 0/2/3, positive smallest TTL) and the exact lifetimes "
              "(30 s / 5 s / min(300 s, smallest TTL) / smallest TTL), the same decision for the reply of a background refresh (a reply that "
              "must not be stored never replaces the stale entry nor adds one; a storable one replaces it); OPT untouched; for every history of loads, queries, dumps, waits "
              "and sweeps deletion of expired entries is unobservable (with evictions only extra misses). The model is run inside Coq "
              "(bit-exact float64 seconds) on every case the Go driver observed on the real plugin (Judge.C05.agree) and the property's "
              "own arithmetic oracle is applied to the observations (Judge.C05.spec).")
LEVEL_NOTE = ("Trusted: Coq kernel + vm_compute; hand-written model tied to the code by the differential run and Gen/Constants.v; "
              "single-clock reading of time.Time; float64 seconds = whole seconds below 2^24 s is tested, not proved; the exact "
              "instant now == expiry is covered by the theorems only (the driver cannot hit a nanosecond). No axioms.")
