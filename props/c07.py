ID = "C07"
COQ_PROPS = "Properties/C07.v"
JUDGE = "Judge.C07"
DRIVER = "c07"
SHARD = 60


def driver_args(tier, seed, phase):
    a = []
    if phase == "search":
        a += ["-n", "1500" if tier == "quick" else "20000"]
    return a


ASSUMPTIONS = [
    "one label of Model.Tdc per shared-state access of conn_traditional.go is the right atomicity (Go memory model, mutex/channel/atomic semantics)",
    "the harness realises an action list deterministically through a fake NetConn (gated Write, fed Read) and the verif schedule point tdc.exchange.written",
    "net.Conn honours Close by failing a pending Read",
]
TRUSTED_BASE = [
    "hand-written LTS coq/Model/Tdc.v tied to pkg/upstream/transport/conn_traditional.go by scripted schedules run on the real connection "
    "and replayed label by label on the model (Judge.Tdc.agree), incl. wire ids, every call's outcome, the reserved/queued counters and the closed flag; "
    "qid_tries regenerated from the source into Gen/Constants.v",
    "harness/tdcx (fake NetConn, script executor, generator), verif hooks in /repo (pkg/verifhook, zz_verif_export.go)",
]
HAS_RELAXED = True
RULE = ("(established connection) catalogue of fault schedules on the real connection (EOF / write error / Close / cancel with 1-3 callers at every phase: in Write, parked "
        "before the wait, waiting; silence = the armed read deadline expires, with the kind of deadline that was armed recorded; reservations after "
        "faults) for TCP and UDP framing + seeded random schedules biased to faults; non-trivial = a fault/cancel/expiry occurs after some query "
        "was written; distinct = distinct Gallina literal")
LEVEL_TEXT = ("PARTIAL (safety core of termination, connection level). Theorems for ALL label lists of the connection LTS: faults close the connection "
              "once and for good, a closed connection wakes every waiter and refuses later calls, every waiting call can always be woken by the reader "
              "alone (its read deadline is always armed), error exits complete. The LTS incl. the exact sequence of SetReadDeadline calls is replayed "
              "against the real TraditionalDnsConn; the spec checks on the real code that cancelled/closed calls return and which deadline covers silence.")
LEVEL_NOTE = ("Partial: real-time liveness needs the Go scheduler and net.Conn deadlines (trusted); goroutine release after transport Close and the "
              "dial/pool level (lazy connection, pipeline and reuse transports) are checked by the pool drivers when built, not proved here. "
              "Known finding F10 (idle deadline re-armed while queries are outstanding) is listed in known_findings.json. No axioms.")
