ID = "C01"
COQ_PROPS = "Properties/C01.v"
JUDGE = "Judge.C01"
DRIVER = "c01"
SHARD = 60


def driver_args(tier, seed, phase):
    a = []
    if phase == "search":
        a += ["-n", "300" if tier == "quick" else "6000"]
    return a


ASSUMPTIONS = [
    "one label of Model.Tdc per shared-state access of conn_traditional.go is the right atomicity (Go memory model, mutex/channel/atomic semantics)",
    "the harness realises an action list deterministically through a fake NetConn (gated Write, fed Read) and the verif schedule point tdc.exchange.written",
    "net.Conn honours Close by failing a pending Read",
]
TRUSTED_BASE = [
    "hand-written LTS coq/Model/Tdc.v tied to pkg/upstream/transport/conn_traditional.go by scripted schedules run on the real connection "
    "and replayed label by label on the model (Judge.Tdc.agree), incl. wire ids, every call's outcome, the reserved/queued counters and the closed flag; "
    "qid_tries regenerated from the source into Gen/Constants.v",
    "harness/tdcx (fake NetConn, script executor, generator), verif hooks in /repo (pkg/verifhook, zz_verif_export.go)",
]
RULE = ("(ID-multiplexed connection) catalogue of hand-written schedules (permuted/duplicated/stray replies, colliding caller ids 0/0xFFFF, wire-id wrap at 65535, "
        "forced skipping of taken ids, late replies to cancelled/finished calls) for TCP and UDP framing + seeded random schedules of "
        "reserve/start/write-end/hold/release/feed/stray/EOF/close/cancel over 2-13 calls that respect the property's environment clause; "
        "non-trivial = at least 2 calls started and at least 2 frames fed; distinct = distinct Gallina literal (script + observation). (non-pipelined transport) catalogue + seeded random schedules on the real ReuseConnTransport over fake connections: scripted dials, gated writes, replies/surplus frames/EOF per connection, cancels, holds before the wait, retries onto pooled or fresh connections, transport Close")
LEVEL_TEXT = ("Theorems for ALL label lists (all schedules of callers, reader, server, faults, cancellation) of the connection LTS: "
              "a successful call returns a reply produced for that very call with the caller's id restored (under the property's scope clause), "
              "wire ids of simultaneously registered calls differ, the allocation loop hands out a free id and only wraps after 2^16, "
              "strays and duplicates change no call. The LTS is replayed against the real TraditionalDnsConn on every run.")
LEVEL_NOTE = ("Covers the ID-multiplexed connection (UDP, pipelined TCP/DoT; Model.Tdc) and the non-pipelined transport (Model.Reuse, under the one-reply-per-query "
              "assumption the property states for it). DoH and DoQ put id 0 on the wire and restore the caller's id; their request/stream pairing is net/http / quic-go "
              "(trusted, not modelled). No axioms.")
