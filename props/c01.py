ID = "C01"
COQ_PROPS = "Properties/C01.v"
JUDGE = "Judge.C01"
DRIVER = "c01"
SHARD = 60


def driver_args(tier, seed, phase):
    a = []
    if phase == "search":
        a += ["-n", "300" if tier == "quick" else "6000"]
    return a


ASSUMPTIONS = [
    "one label of Model.Tdc per shared-state access of conn_traditional.go is the right atomicity (Go memory model, mutex/channel/atomic semantics)",
    "the harness realises an action list deterministically through a fake NetConn (gated Write, fed Read) and the verif schedule point tdc.exchange.written",
    "net.Conn honours Close by failing a pending Read",
    "the DoQ write-fault cases see quic-go only through harness/quicx (Write delivers or fails, Close is the FIN, the fake server answers on each stream "
    "the query that arrived on that stream); they run with GOMAXPROCS(1) and the collector off (both restored afterwards) so that sync.Pool hands "
    "buffers out in a fixed order, and the client calls stream.SetDeadline between building its payload and writing it (the schedule point the harness uses)",
]
TRUSTED_BASE = [
    "hand-written LTS coq/Model/Tdc.v tied to pkg/upstream/transport/conn_traditional.go by scripted schedules run on the real connection "
    "and replayed label by label on the model (Judge.Tdc.agree), incl. wire ids, every call's outcome, the reserved/queued counters and the closed flag; "
    "qid_tries regenerated from the source into Gen/Constants.v",
    "harness/tdcx (fake NetConn, script executor, generator), verif hooks in /repo (pkg/verifhook, zz_verif_export.go)",
]
RULE = ("(ID-multiplexed connection) catalogue of hand-written schedules (permuted/duplicated/stray replies, colliding caller ids 0/0xFFFF, wire-id wrap at 65535, "
        "forced skipping of taken ids, late replies to cancelled/finished calls) for TCP and UDP framing + seeded random schedules of "
        "reserve/start/write-end/hold/release/feed/stray/EOF/close/cancel over 2-13 calls that respect the property's environment clause; "
        "non-trivial = at least 2 calls started and at least 2 frames fed; distinct = distinct Gallina literal (script + observation). (non-pipelined transport) catalogue + seeded random schedules on the real ReuseConnTransport over fake connections: scripted dials, gated writes, replies/surplus frames/EOF per connection, cancels, holds before the wait, retries onto pooled or fresh connections, transport Close. "
        "(DoH / DoQ id handling) single exchanges, batches of 2-6 concurrent exchanges on one upstream / one QUIC connection, replies held by the caller, and "
        "(DoQ write fault, ids idw:N) on one fake QUIC connection (harness/quicx) 0-2 exchanges whose stream.Write fails (reset by the peer, write deadline, connection lost) followed by "
        "2-3 concurrent exchanges that all build their payload before the first one writes it (every payload of a case in one size class of the byte pool, "
        "random write order), the fake server answering per stream what arrived on it; non-trivial = at least one failed write and at least 2 concurrent calls")
LEVEL_TEXT = ("Theorems for ALL label lists (all schedules of callers, reader, server, faults, cancellation) of the connection LTS: "
              "a successful call returns a reply produced for that very call with the caller's id restored (under the property's scope clause), "
              "wire ids of simultaneously registered calls differ, the allocation loop hands out a free id and only wraps after 2^16, "
              "strays and duplicates change no call. The LTS is replayed against the real TraditionalDnsConn on every run. "
              "The DoQ client is not modelled as an LTS; it is run on sampled scenarios (incl. a failed stream write followed by exchanges with interleaved payload building) "
              "and every successful call must have sent its own question with id 0 and got the answer to it back under its own id (Judge.IdZero.w_spec).")
LEVEL_NOTE = ("Covers the ID-multiplexed connection (UDP, pipelined TCP/DoT; Model.Tdc) and the non-pipelined transport (Model.Reuse, under the one-reply-per-query "
              "assumption the property states for it). DoH and DoQ put id 0 on the wire and restore the caller's id; their request/stream pairing is net/http / quic-go "
              "(trusted, not modelled); that a fault in one DoQ exchange (a failed stream write) does not leak a buffer into later exchanges is checked by test on the "
              "write-fault cases only, with harness/quicx standing in for quic-go. No axioms.")
