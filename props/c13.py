ID = "C13"
COQ_PROPS = "Properties/C13.v"
JUDGE = "Judge.C13"
DRIVER = "c13"
SHARD = 120


def driver_args(tier, seed, phase):
    if phase == "search":
        return ["-n", "1200" if tier == "quick" else "30000"]
    return []


RULE = ("catalogue (one prefix of every length 0..32 / 0..128 with host bits set, equal base address with different "
        "lengths in both load orders, nested runs with a probe in the gap behind the inner prefix, adjacent blocks, "
        "duplicates, /0 of each family, v4 rule vs mapped query and back, ::/::ffff... extremes, zoned and invalid "
        "addresses, 1..9 disjoint prefixes probed at every index, malformed loader lines) + seeded random prefix "
        "multisets grown from a few v4/v6/v4-mapped seeds by split/descend/ancestor/sibling/neighbour/same-base/duplicate "
        "steps, rendered in a random family with random host bits and spellings, loaded through List.Append (single and "
        "variadic), LoadFromReader (comments, blank lines, CRLF), LoadFromText, ip_set.NewIPSet (ips, files) and re-sorted after a second load; "
        "compositions of ip_set plugins built bottom-up through the real constructor and coremain test plumbing (own ips/files "
        "+ 1..3 referenced sets, each referencing up to 2-3 further sets, sometimes a third level; every member with prefixes "
        "of its own v4/v6/mapped region plus occasional shared ones; probes at first/last/inner address of and just outside "
        "prefixes of every member, asked through the top set's MatcherGroup.Match); probes = lo-1, lo, hi, hi+1 of the loaded prefixes as IPv4 or IPv6 "
        "plus random ones; a case is non-trivial when two loaded prefixes are duplicates, nested or adjacent AND a probe "
        "is within 1 of a prefix boundary; distinct = distinct Gallina literal")
ASSUMPTIONS = [
    "sort.Sort leaves the slice a permutation of its input, sorted by List.Less (address order); nothing is assumed "
    "about the order of equal addresses",
    "netip: Prefix.Masked clears the host bits, Prefix.Contains compares the leading bits and rejects zoned addresses, "
    "Addr.Compare/Less order IPv6 addresses numerically, AddrFrom16(As16()) maps IPv4 to ::ffff:a.b.c.d "
    "(as modelled in Model/Netlist.v; checked by the differential run)",
    "netip.ParsePrefix/ParseAddr (text to prefix) are not modelled; the differential run feeds the loaders the "
    "textual form and compares against the numeric entry",
]
TRUSTED_BASE = [
    "hand-written model coq/Model/Netlist.v tied to pkg/matcher/netlist/list.go, load_helper.go and "
    "plugin/data_provider/ip_set/ip_set.go by differential execution (Judge.C13: Len() after Sort and every probe)",
]
LEVEL_TEXT = ("Theorems in coq/Properties/C13.v, for every finite list of IPv4/IPv6 prefixes and bare addresses (any length, "
              "host bits set or not, nested, adjacent, duplicated, any load order), for EVERY permutation the unstable sort "
              "may produce that is ordered by address, and for every address: the binary search of Contains terminates and "
              "answers yes exactly when one of the loaded prefixes covers the address; the answer depends only on the set of "
              "loaded entries; re-sorting after further loads behaves the same; an ip_set composed of own ips/files and "
              "referenced sets, to any depth of referencing, matches exactly the union of everything loaded below it; an IPv4 "
              "rule/query and its IPv4-mapped IPv6 form are identical, an IPv4 rule covers no other IPv6 address, a bare "
              "address covers itself only. The model is run inside Coq on every case the Go driver observed on the real "
              "List, text loaders and ip_set plugin (Judge.C13.agree) and an independent interval oracle judges the "
              "observations (Judge.C13.spec).")
LEVEL_NOTE = ("Trusted: Coq kernel + vm_compute; hand-written model tied to the code by the differential run; sort.Sort "
              "contract (permutation, sorted by address); netip semantics as modelled; text parsing only by differential run. "
              "No axioms.")
