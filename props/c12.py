ID = "C12"
COQ_PROPS = "Properties/C12.v"
JUDGE = "Judge.C12"
DRIVER = "c12"
SHARD = 150


def driver_args(tier, seed, phase):
    if phase == "search":
        return ["-n", "1500" if tier == "quick" else "40000"]
    return []


RULE = ("hand-written catalogue (label boundary at depth, longest rule / insertion order / overwrite, missing child keeps the value "
        "found so far, precedence between types with different values, case and dots on both sides, first-colon split, default type, "
        "unknown types, regexps that do not compile, empty and malformed patterns, loader lines with comments / CRLF / broken lines; "
        "an exhaustive case sweep: for each of the 26 letters and for the range neighbours '@'/'`' and '['/'{' a rule and a name that differ "
        "only in that one byte, both directions, every rule type, through MixMatcher, the single matchers, hosts and domain_set; "
        "single-type rule sets (full only / domain only / regexp only / keyword only, exps only / file only) through domain_set.NewDomainSet "
        "and the qname matcher; sets of sets built with coremain.NewTestMosdnsWithPlugins (own rules + referenced sets, two referenced sets, "
        "nested and shared references, a dropped own matcher) consumed through GetDomainMatcher().Match and through qname '$tag'; full/domain "
        "pairs covering the same name with different values in every insertion order through MixMatcher, hosts and redirect (entries / file / "
        "both); case-sensitive rule text (regexps A and ^\\D, type prefixes FULL: / Domain:) through every loader; "
        "rule texts with a line of 65534 / 65535 / 65536 / 65537 / 70000 bytes (a comment, a line carrying a rule, a last line without end "
        "of line) between ordinary rules through every loader, and a reader failing after k bytes for the raw loader; "
        "label lengths 1, 2, 62, 63 (the DNS maximum) and 64 octets leftmost / in the middle / rightmost in rules and in names, chains of "
        "nested domain rules through a 63-octet label in both insertion orders (longest-match value), full / keyword / regexp rules next to "
        "them, the same through domain_set, hosts, redirect and qname, and names of 253 / 255 octets made of four labels at the limit) "
        "followed by seeded random rule sets over the label alphabet {a, b, ab} plus boundary labels (z, zz, az, m, y, a@, a`, a[, a{) "
        "(depth <= 5, all four types, default type, duplicates with other case / dot / value, nested suffixes; case flips per letter, "
        "independently, mostly a single letter and preferably a boundary letter) x names derived from the rules (itself, subdomain, glued "
        "string suffix, parent, case-flipped, '@'<->'`' / '['<->'{' confused) "
        "through MixMatcher.Add/Match, the four single matchers, domain.Load/LoadFromTextReader, domain_set.NewDomainSet (exps + file), "
        "qname.QuickSetup -> base_domain.NewMatcher (exps + &file), plugin hosts.NewHosts + Response and redirect.NewRedirect + Exec, "
        "half of the provider cases with rule sets of one type only; random compositions of 2..6 domain_set plugins referencing earlier ones "
        "(0..3 references each, nesting, members optionally marked with a label of their own) with one query name derived from every reachable "
        "member, consumed via GetDomainMatcher, qname '$tag' and qname 'exps $tag'; full/domain counterpart rules with other values; random texts with one line around bufio's 64 KiB token limit "
        "(up to 128 KiB) followed by more rules, queried with names of the rule after the long line, and random read faults at or inside "
        "line boundaries: the oracle demands 'the load fails, or every rule of the text is in the set'; "
        "label length as a dimension: one label in 90 everywhere, and one in three in a dedicated stream (2 cases in 26), is 61..64 octets "
        "long (mostly 63), at any position of rules and names, through the valued mix matcher, the domain matcher and all loaders; plus a separate malformed stream (empty labels, '..', bad type "
        "names, no default). A case is non-trivial when for some query at least two rules describe the name or a domain rule is a string "
        "suffix of the name without being a label suffix; distinct = distinct Gallina literal")
ASSUMPTIONS = [
    "strings are ASCII (bytes < 128): Go's strings.ToLower/TrimSpace/Fields then work byte-wise as modelled",
    "Go's regexp package is trusted: the theorems hold for every (re_valid, re_match); the differential run uses the observed "
    "regexp.MatchString results on a fixed menu of expressions as the oracle",
    "names with empty labels are outside the property; the model still reproduces what the code does on them (checked by Judge.C12.agree), "
    "the property's own oracle (spec) is applied only to rule sets and names without empty labels",
    "IP address syntax (hosts) and YAML decoding of plugin arguments are outside the model",
    "the matchers and loaders place no limit on label or name length (no guard in the Go code), so neither does the model: labels of 64 "
    "octets and names over 255 octets are matched like any other",
    "bufio.Scanner with its default buffer gives up (ErrTooLong) exactly on a line of >= 65536 bytes before its newline, and after a read "
    "error hands out what it has read before reporting the error: modelled by Model.Domain.scan_lines / Judge CLoadX and checked at the "
    "boundary by the differential run",
    "a set whose only rules are root-domain rules ('domain:' / '.') has Len() == 0 and is dropped by domain_set / base_domain: the model "
    "reproduces this (Judge.C12.loaded_view); such patterns have an empty label and are outside the property's oracle",
]
TRUSTED_BASE = [
    "hand-written model coq/Model/Domain.v tied to pkg/matcher/domain/{matcher,utils,load_helper}.go, pkg/utils/strings.go and the "
    "loaders of plugin/data_provider/domain_set, plugin/matcher/base_domain (via qname), plugin/executable/hosts, "
    "plugin/executable/redirect by differential execution (Judge.C12)",
]
LEVEL_TEXT = ("Theorems in coq/Properties/C12.v, for all rule lists, all default types, all names and every regexp engine: the mix matcher "
              "matches iff some accepted rule describes the name (c12_mix_iff); full = equal normalised strings, last add wins (c12_full_iff); "
              "domain = the rule with the most labels that is a label suffix of the name, last added among equals (c12_domain_iff), which for "
              "valid names is 'equal or ends with \".\"+pattern' and never a mere string suffix (c12_domain_label_boundary, "
              "c12_domain_never_string_suffix); keyword = substring (c12_keyword_iff); regexp on the normalised name with the expression as "
              "written (c12_regexp_iff); value precedence full > domain > regexp > keyword (c12_mix_value_precedence); normalisation, the "
              "index-level reverse scanner (c12_scanner_general, no fuel exhaustion), first-colon split and default type, the text loader, and "
              "Len() > 0 for every set with one accepted rule of any type other than the root domain, so domain_set / base_domain keep it "
              "(c12_nonempty_set_is_kept); a set assembled from members matches iff some rule of some member describes the name "
              "(c12_group_iff, c12_set_of_sets); a text load either reports an error or has loaded every rule line of the whole text "
              "(c12_loader_complete, with the scanner's 64 KiB line limit modelled: c12_loader_lines, c12_scanner_delivers_all, "
              "c12_scanner_short_text). "
              "The same model functions are run inside Coq on every observation of the real matchers, loaders and plugin constructors.")
LEVEL_NOTE = ("Trusted: Coq kernel + vm_compute; hand-written model tied to the code by the differential run; Go's regexp as an arbitrary "
              "function; ASCII input. Keyword and regexp matchers iterate over Go maps, so with several matching rules of that type the "
              "returned value is checked for membership in the set the model allows. No axioms.")
