ID = "C19"
COQ_PROPS = "Properties/C19.v"
JUDGE = "Judge.C19"
DRIVER = "c19"
SHARD = 120
DRIVER_TIMEOUT = {"quick": 300, "thorough": 7200}


def driver_args(tier, seed, phase):
    return []


RULE = ("(round) catalogue of cache sizes around the 128-entry block (0,1,2,127..129,256,257), entries expiring before the "
        "dump / between dump and load, lazy entries, messages of 10-60 KB incl. the 128 x 10 KB cache of finding F11 and "
        "two ~512 KB entries whose size bound is exactly at / one below / one above the 1 MiB limit, single large answers "
        "(entries of 40, 60, 70, 100, 200, 300 KiB, alone and among ordinary ones before and after; the oracle demands that every "
        "live entry reloads without error whatever the block constant is), the 0-entries cache through the real callers with an "
        "earlier dump on disk (dump_file: Close -> [restart] -> GET /flush -> Close -> restart must load nothing; same instance or "
        "restarted, extra empty restarts, items stored after the flush), the lazy_cache_ttl setting of the dumping and of the "
        "loading cache as a dimension (off/on, on/on, on/off, different values; items shaped like saveRespToCache's NXDOMAIN 30 s, "
        "SERVFAIL 5 s and empty-answer entries whose cache expiry is NOT stored + lazy ttl, lazy-style positive entries, plain "
        "ones): every entry must come back with the dumped cache expiry, message expiry and stored time, dumps whose COMPRESSED "
        "size exceeds 1 MiB (36 x 50 KB and 330 x 5 KB random, hardly compressible answers, 2-3 blocks, ~1.5 MB files) through "
        "GET /dump -> POST /load_dump and through the dump_file route (the per-block limit must not bound the whole upload), "
        "via the direct calls, "
        "the /dump + /load_dump handlers and Args.DumpFile (Close -> file -> NewCache), then seeded random caches of 0-300 "
        "items with random ages, expiries and whole-second / last-nanosecond boundaries; "
        "(load) hand-described plaintexts (valid, empty, expired, undecodable blocks, bad DNS messages, announced lengths at "
        "limit, limit+1, 2^32, 2^40, 2^63, 2^64-1, short headers and bodies, wrong header names) whole and with the last "
        "byte cut, every one of the first and last 40 bytes plus sampled cut points of two real multi-block dumps (cut after "
        "compression) and cuts of the plaintext (around every block boundary) recompressed, seeded random described "
        "plaintexts cut or not; (fuzz) bit flips, overwritten spans, random files, gzip header + random deflate data, "
        "appended garbage, concatenated dumps, gzip of random plaintext, other header names - each loaded in a worker "
        "process under a 30 s watchdog with the allocation measured; (serve) questions asked through Exec to the first "
        "cache and to the one reloaded through the HTTP handlers, one 60-110 KB answer per cache. "
        "Non-trivial: a round trip that loads something, has several blocks or drops items; a load of more than one "
        "segment or of a cut file; every fuzz case; a serve case answered from the reloaded cache. "
        "distinct = distinct Gallina literal")
ASSUMPTIONS = [
    "miekg/dns: Unpack(Pack(m)) is m as far as served answers can tell (premise Hpack; every round-trip and serve case compares the reloaded message with the original)",
    "protobuf-go: Unmarshal(Marshal(block)) = block (premise Hproto) and len(Marshal(block)) <= sum over entries of proto.Size(entry)+16 (premise Hsize; checked on every block of every real dump)",
    "klauspost gzip: a complete file decompresses to its header name and plaintext and ends with io.EOF (premise Hgz); a strict prefix either fails in NewReader or yields a prefix of the plaintext followed by an error that is not io.EOF (premise Hcut; checked on every cut case: pfx_ok and the observed end status)",
    "io.ReadFull as modelled by Model.Dump.read_block: io.EOF only when nothing was read and the stream ended cleanly",
    "every dumped entry alone fits a block: proto.Size(entry)+16 <= dumpMaximumBlockLength = 1 MiB (premise Hfit). writeDump only splits a non-empty block, so a single larger entry is still written as a block the loader refuses. An entry is the message packed WITHOUT name compression + key + times, so it can exceed the 64 KiB wire size (230-record TXT RRset: 62 KB -> 73.5 KB; round trips with entries up to 300 KiB are in the run); only a pathological answer (thousands of records under a ~255-byte owner name) reaches 1 MiB",
    "the loader's configuration (lazy_cache_ttl) is not an input of the model's readDump: the three times are taken from the dump alone (c19_reload_faithful: reload_item keeps cache expiry, message expiry and stored time cut to the second); load cases and round trips run the loading cache with lazy_cache_ttl 0 / 30 / 300 / 3600 / 86400 and compare all three times per entry",
    "one clock reading per dump and per load (the code calls time.Now() per entry in Store; outcomes differ only for entries expiring while the load runs); the target cache has room for all entries (eviction is C11's subject); stored <= now and ages below 2^32 s (uint32 conversion, float64 seconds exact below about 4e6 s)",
    "absence of panics, hangs and unbounded allocation inside gzip / protobuf / miekg on arbitrary bytes is observed by the fuzz cases (worker process, watchdog, runtime.MemStats), not proved; the model proves termination and the 1 MiB bound of the block reader's own allocations",
]
TRUSTED_BASE = [
    "hand-written model coq/Model/Dump.v tied to plugin/executable/cache/cache.go (writeDump, readDump), pkg/cache/cache.go (Store, Get, Range) and utils.go (getRespFromCache) by differential execution (Judge.C19) and by the regenerated constants cache_dump_block_size / cache_dump_max_block_len in Gen/Constants.v; the gzip header name is a literal in the model (Model.Dump.dump_header) compared with the name found in every real dump",
    "/repo/plugin/executable/cache/zz_verif_export_c19.go (verif build tag): VerifStore / VerifItems / VerifWriteDump / VerifReadDump wrappers without logic",
]
LEVEL_TEXT = ("Theorems in coq/Properties/C19.v, for every cache content, every clock reading and every cut point: dump then load "
              "admits exactly the unexpired items with key, message and the three times cut to whole seconds (t' <= t < t'+1s), "
              "every block the repaired writer emits fits the loader's limit, served TTLs after reload equal the original or are "
              "one less, every strict prefix of a dump file reports an error and admits only a prefix of the intact load, an "
              "announced length above the limit is refused before allocation, and on arbitrary input the block reader terminates "
              "and never asks for more than 1 MiB. The model is run inside Coq on every observation of the real plugin "
              "(Judge.C19.agree: block grouping, headers, limit check, read loop, expiry filters, error class, entry counts, "
              "served TTLs), with gzip's measured behaviour and protobuf's measured lengths as inputs.")
LEVEL_NOTE = ("Trusted: Coq kernel + vm_compute; hand-written model tied to the code by the differential run and Gen/Constants.v; "
              "contracts of klauspost gzip, protobuf-go and miekg Pack/Unpack as premises (exercised on every case); robustness of "
              "those libraries on arbitrary bytes observed only. No axioms.")
