ID = "C17"
COQ_PROPS = "Properties/C17.v"
JUDGE = "Judge.C17"
DRIVER = "c17"
SHARD = 160


def driver_args(tier, seed, phase):
    if phase == "search":
        return ["-n", "400" if tier == "quick" else "8000"]
    return []


RULE = ("(a) upstream.VerifMsgTruncated on all 256 values of byte 2 at lengths 3 and 12 (thorough: 3,4,11,12,13,512), a dozen "
        "flag bytes at lengths 0,1,2,4,11,13,512, seeded random (length, byte 2); random headers packed by miekg dns.Msg.Pack "
        "compared byte for byte with Model.UdpTc.encode_header; "
        "(b) sessions of 1-5 sequential queries on one upstream from NewUpstream(\"udp://127.0.0.1:port\") against a harness UDP "
        "server and a TCP server (or a bound, non-listening socket = connection refused) on the same port: catalogue = every "
        "value of byte 2 of the UDP reply, TCP side answering / answering then closing / dying after the query / dying on accept "
        "/ sending half a frame / refusing, on new and reused connections, stray short and foreign-id datagrams with TC set, "
        "silent UDP server, 12/13 byte and 65535 byte TCP replies, UDP replies of 4094..4096 bytes; then seeded random sessions; "
        "(c) 'the same server': NewUpstream(url, Opt{DialAddr}) with three harness servers (UDP+TCP each) at 127.0.0.1:P, decoy:P and "
        "decoy:P2 (decoy = 127.0.0.2, 127.0.0.3, ::1; skipped if it cannot be bound), url naming one of them as udp://host:port, "
        "host:port, udp://host, host (or a host name), DialAddr naming another or absent: which server got the UDP query, which "
        "got the TCP query, whose answer the caller got; catalogue of all forms x TC/no TC plus seeded random combinations; "
        "(d) real time, run in the background of the rest: UDP server sending the TC reply after d1 and TCP server answering after d2 "
        "with (d1, d2) = (0, 3.5 s), (2.6 s, 1 s), (1.2 s, 2.5 s), caller deadline 15 s (oracle: the caller got the TCP reply, no "
        "upper time bound); query A whose caller gives up (100-200 ms) during a 400-500 ms TCP retry followed at once by query B "
        "(5 s) on the same upstream, TCP answers derived from the query (oracle: B gets B's id, question and answer); "
        "(e) k = 1..4 (thorough 1..6) queries at the same time, all TC, held by the TCP server until k connections carry one each, "
        "so k fallback connections go idle; then one more TC query while the server reads a query on an old connection and "
        "closes it but answers new connections (oracle: for k <= reuse maxRetry + 1 the caller gets the TCP reply from one new "
        "connection; the server only ever reads the caller's query); "
        "(f) after 0-2 ordinary exchanges, a query whose first 1-2 datagrams the UDP server ignores; it answers the transport's "
        "re-send (1 s later each) under the id that datagram carries, flag byte random with TC set or clear, caller ids 4..65535 "
        "(oracle: same outcome as for an answered first datagram; observed ids/checksums of all datagrams equal the first). "
        "(g) as (e) for k = 1..6 but the server closes the k idle connections WHILE idle and the driver waits until the upstream "
        "reported k close events (oracle: for any k the caller gets the TCP reply from one new connection). "
        "Errors are classed: ORefused = ECONNREFUSED reported in less than half of the exchange deadline, OErr = anything else "
        "(caller's deadline, EOF, read error, late refusal); a refusing TCP port must give ORefused. "
        "Every exchange the driver starts has a deadline (6 s, 400 ms once three exchanges have run into it), so a lost reply is "
        "an observed error, never a hang. "
        "A case is non-trivial when TC is set or the flag byte is not 0x80/0x81, or it has stray datagrams / a silent UDP "
        "server / fewer than 4 bytes / DialAddr set / delayed replies / an abandoned retry / dead idle connections / an ignored first datagram; distinct = distinct Gallina literal (dial cases contain the ephemeral ports)")
ASSUMPTIONS = [
    "loopback UDP delivers the datagrams of one sender socket in order, and a bound non-listening TCP socket refuses connections (Linux)",
    "the TCP transport is used for one query at a time (sessions are sequential); concurrent fallbacks are C03/C15 territory",
    "miekg/dns Pack is the reference layout of the header flag bits",
    "timed cases: time.Sleep / time.AfterFunc delay at least the nominal time; a 3.5 s TCP answer stays inside the 6 s reuseConnQueryTimeout",
    "the retry loop of ReuseConnTransport.ExchangeContext as modelled by coq/Model/Retry.v (loop, reuse_cfg from Gen/RetryFacts.v), "
    "imported by Model/UdpTc.reuse_stale",
    "url parsing / parseDialAddr as modelled by the C18 model coq/Model/Addr.v (new_upstream), imported by Model/UdpTc.udp_upstream_dials",
]
TRUSTED_BASE = [
    "hand-written model coq/Model/UdpTc.v tied to pkg/upstream/utils.go msgTruncated, pkg/upstream/upstream.go "
    "udpWithFallback / NewUpstream, transport readMsgUdp / TraditionalDnsConn id rewrite / ReuseConnTransport by "
    "differential execution (Judge.C17) and the regenerated constants tr_dns_header_len, min_frame_len in Gen/Constants.v; "
    "the 4095 byte UDP receive buffer is a literal in the model (checked by the 4094/4095/4096 byte cases); "
    "udp_upstream_dials (both transports dial the one dialAddr) tied to NewUpstream by the DialAddr / decoy-server cases",
]
LEVEL_TEXT = ("Theorems in coq/Properties/C17.v: for every header and body msgTruncated(encode_header h ++ rest) = TC flag of h "
              "(it is bit 1 of byte 2; slices under 3 bytes panic, which the 12 byte minimum of the UDP reader excludes); for every "
              "UDP outcome and every TCP outcome udpWithFallback uses TCP iff the UDP reply exists and has TC, hands TCP the caller's "
              "query unchanged, returns the TCP result (reply or error) when TC and the UDP reply untouched otherwise, and propagates "
              "UDP errors; for every sequence of queries on one upstream with arbitrary servers each step satisfies this, opens no TCP "
              "connection without TC and at most one with TC; for every upstream string and DialAddr the TCP retry dials the address the UDP "
              "query went to (c17_retry_same_server, over the C18 address model); with times, only the caller's deadline (and the TCP "
              "connection deadline) bound the retry (c17_late_tcp_reply_is_returned); over all sequences of waiting / abandoned retries and "
              "late replies no retry receives another query's reply (c17_no_crossed_replies); with k <= maxRetry + 1 idle connections that die "
              "mid-exchange the retry loop (Model/Retry.v loop reuse_cfg, shape and constant regenerated from reuse.go) still reaches a fresh "
              "connection and the caller gets the TCP reply (c17_stale_conns_then_fresh, c17_fallback_over_stale_conns); every datagram of an exchange, first or re-sent, is the same bytes "
              "under the same wire id, so an answer to any of them is taken (c17_resend_same_datagram, c17_answer_to_any_send_accepted); idle connections the client saw die are in no pool, so any number of "
              "them still ends in the TCP reply from a fresh connection (c17_dead_idle_conns_are_harmless). The model is run inside Coq on every case the Go driver observed on the "
              "real code (Judge.C17.agree) and the property's own reading of the observation is checked (Judge.C17.spec).")
LEVEL_NOTE = ("Trusted: Coq kernel + vm_compute; hand-written model tied to the code by the differential run and Gen/Constants.v; "
              "loopback ordering; miekg Pack as reference bit layout. Sequential use of one upstream only. No axioms.")
