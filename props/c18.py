ID = "C18"
COQ_PROPS = "Properties/C18.v"
JUDGE = "Judge.C18"
DRIVER = "c18"
SHARD = 300


def driver_args(tier, seed, phase):
    if phase == "search":
        return ["-n", "2000" if tier == "quick" else "40000"]
    return []


DRIVER_TIMEOUT = {"quick": 300, "thorough": 3600}

RULE = ("catalogue (about 40 malformed strings: stray/unbalanced brackets, empty port, port 0/65536/99999, trailing colon, "
        "zone; every good and bad port text x name / IPv4 / [IPv6]; every scheme incl. unknown ones x host forms) "
        "followed by seeded random strings of the grammar {scheme} x {name, IPv4, IPv6 bare/bracketed, compressed/full/"
        "mapped, random hex-and-colon text} x {no port, good port, bad port} x {no dial_addr, dial_addr of every form} "
        "x {path} and a separate malformed stream over the alphabet '[]:.0159af'; each string goes to the exported "
        "helpers (tryTrimIpv6Brackets, trySplitHostPort, tryRemovePort, parseDialAddr), to the library functions the "
        "model transcribes (net.SplitHostPort, strconv.ParseUint, netip.ParseAddr, url.Parse) and to NewUpstream "
        "(created or refused); about 65 addresses per run go to the network: tcp/tls/https(+pipeline) through a harness "
        "SOCKS5 proxy (CONNECT destination, SNI, Host header, certificate issued for one chosen name accepted or not), "
        "udp/quic/doq/h3 to loopback sockets on 127.0.0.1-3 and ::1 x {url port, dial_addr port, default port} (which "
        "socket receives the first datagram), and about 25 of them with Opt.Bootstrap pointing at a harness DNS server that answers every name "
        "with a chosen loopback address (tls/https/quic/doq/h3 with hostname URL host and/or hostname dial_addr, with and without port: the "
        "connection must arrive at <answered address>:<port written or scheme default>, the server must have been asked for exactly the host "
        "written, IP literals must not be resolved; tcp/udp with a hostname must still be refused); Opt.Bootstrap strings of every form go to "
        "NewUpstream (created or refused); and about 20 plain udp / no-scheme addresses (url with/without port x dial_addr with/without "
        "port, other host / other port / same port) run against loopback servers that answer every UDP query truncated (TC=1) with TCP "
        "listeners on every candidate address x port: the TCP retry must arrive exactly where the UDP datagram went, the configured "
        "address, and be answered; and about 18 sequences of 2..4 upstreams (tls, tls+pipeline, https, h3, quic, doq mixed, different "
        "hosts, names and IP literals) created one after another from ONE shared Opt.TLSConfig (ServerName empty, or preset as control) and "
        "then used in order: per upstream the SNI seen by a harness TLS server behind the proxy resp. a harness QUIC listener given as "
        "dial_addr, whether the certificate issued for its own URL host is accepted, and afterwards ServerName and len(NextProtos) of the "
        "caller's config. A case is non-trivial when an IPv6 form, a dial_addr or an omitted port "
        "is involved; distinct = distinct Gallina literal")
ASSUMPTIONS = [
    "net/url.Parse decides Scheme and Host as transcribed in Model.Addr.url_parse for strings over letters, digits and . - _ + : [ ] / "
    "(no userinfo, query, fragment, escapes); outside that alphabet nothing is claimed",
    "net.SplitHostPort, strconv.ParseUint(s,10,16), netip.ParseAddr as transcribed from Go 1.23 (each compared with the real function on every generated string)",
    "Opt.TLSConfig.ServerName is empty; without Opt.Bootstrap the resolution of hostnames is the system resolver's (not observed); "
    "with Opt.Bootstrap the bootstrap package is trusted to return <first A/AAAA answer>:<port it was given> (observed end to end on the bootstrap cases)",
    "the dialled address is net.JoinHostPort(host, port) of the pair the model computes: observed through SOCKS5 / loopback sockets "
    "on the few dozen network cases, not proved",
    "for quic/doq/h3 the destination of the first datagram is observed, and the SNI of the ClientHello in the sequence cases "
    "(hostnames); certificate verification against an IP literal is not observed for them",
]
TRUSTED_BASE = [
    "hand-written model coq/Model/Addr.v tied to pkg/upstream/utils.go and pkg/upstream/upstream.go (NewUpstream) by differential "
    "execution (Judge.C18: helpers, NewUpstream created/refused, destination/SNI/Host/certificate name on the network cases)",
    "default ports 53/853/443 and the scheme names are literals in the model, checked by the differential run only",
]
LEVEL_TEXT = ("Theorems in coq/Properties/C18.v, for ALL strings of the grammar (any length; hostname/IPv4, IPv6 text bare, "
              "bracketed, bracketed with port; any decimal port 1..65535; any of the 9 schemes or none; any dial_addr; any path): "
              "NewUpstream's model dials exactly the host of dial_addr if given else of the URL, on the port written next to it "
              "else the scheme default, with the URL host as TLS name; refusals (non-IP where an IP is needed, port text that is "
              "not a 16 bit decimal, unknown scheme, bare IPv6 with a non-decimal last group) happen at creation; with Opt.Bootstrap the "
              "host handed to the resolver and the port are the same ones (c18_bootstrap_keeps_port); both dial sites of the plain udp "
              "upstream (UDP socket, TCP retry after a truncated reply) use that one target (c18_udp_both_dial_sites); a sequence of calls gives "
              "the upstreams of the single calls, so each TLS name is the own URL host whatever was created before "
              "(c18_calls_independent, c18_tls_name_in_any_sequence — trivial over the stateless model, checked against the code on "
              "sequences sharing one tls.Config); and for ALL "
              "strings whatsoever an accepted (host, port) is literally what the string says (reject_or_exact). The model is run "
              "inside Coq on every case the Go driver observed on the real helpers, on NewUpstream and on the network.")
LEVEL_NOTE = ("Trusted: Coq kernel + vm_compute; hand-written model tied to the code by the differential run; transcriptions of "
              "net.SplitHostPort / ParseUint / netip.ParseAddr / url.Parse (differentially checked); final net.Dial of the computed "
              "pair observed on a few dozen cases. No axioms.")
