ID = "C15"
COQ_PROPS = "Properties/C15.v"
JUDGE = "Judge.C15"
DRIVER = "c15"
SHARD = 100


def driver_args(tier, seed, phase):
    if phase == "search":
        return ["-n", "800" if tier == "quick" else "20000"]
    return []


RULE = ("hand-written catalogue (no forwarding plugin; ecs_handler forward / preset / send / twice / class CH; "
        "forward_edns0opt per code, all, none; cache storing with and serving without OPT and the reverse, inside and "
        "outside a forwarder; ttl fix/min/max next to OPT; UDP truncation at sizes 0..4096 with a forwarded cookie; "
        "upstream without OPT, failing, BADVERS; no upstream at all; prefer_ipv4/prefer_ipv6 in front of and behind "
        "forwarders and caches with distinct cookies on the reference and the served reply, pass and block; fallback "
        "with forwarders inside both branches and around it, primary answering / failing / SERVFAIL, standing by or not) "
        "+ lazy-cache cases: [forwarders?] cache(lazy_cache_ttl 3600/86400) [forwarders?] rendezvous forward [ttl?]: a priming "
        "query stores, VerifC10Backdate expires every stored message (entries retained), then an overlapping PAIR of "
        "stale hits by two clients with OPTs (the first passes the cache, both wait at a rendezvous executable behind it, "
        "the upstream is held so the one lazy update stays in flight and then fails), a client without OPT, further "
        "single and paired stale hits whose refresh fails or succeeds, fresh hits after a refresh; after every step the "
        "message the cache holds under the key (VerifC10Item) is observed "
        "+ function-level cases on structures with OPT records anywhere: the five TTL helpers, copyNoOpt, NewContext, "
        "SetResponse, and Context.Copy followed by plugin-style writes (RespOpt options, query OPT options, in-place TTL "
        "rewrite, SetResponse) to the copy or to the original with both observed afterwards + seeded random chains of the REAL cache, ttl, "
        "ecs_handler (6 modes, masks), forward_edns0opt (subsets of 5 codes), forward over 1-2 scripted in-memory "
        "upstreams, in any order incl. repeated instances and jump/goto splits, every fourth case a program around one "
        "dual_selector or one fallback (two sub-sequences) with forwarders and caches before, inside and after it, loaded from rule text by "
        "sequence.NewSequence ($tag or quick-setup form) and entered through EntryHandler.Handle (UDP/TCP framing, "
        "client address) on 2-5 client queries per program (no OPT / OPT with sizes 0..65535, DO, version, extended "
        "rcode bits, 0-3 options of 5 kinds; repeated questions so caches are hit). Non-trivial: the program has one of "
        "cache/ttl/ecs_handler/forward_edns0opt and some query carrying client options or meeting upstream options "
        "reached an upstream and got a reply; distinct = distinct Gallina literal")
ASSUMPTIONS = [
    "upstream replies carry at most one OPT, in the additional section (hypothesis of the client-side theorems; "
    "the upstream-side theorem and the cache invariant need no hypothesis)",
    "miekg Msg.Truncate satisfies the relation Model.Handler.trunc_rel (checked on every observed UDP reply)",
    "a record has type 41 exactly when miekg represents it as *dns.OPT (representation invariant of Model/Msg.v)",
    "lazy cache: the background refresh (a goroutine running the rest of the chain on a copy) is modelled in sequence "
    "before the foreground continuation; overlapping hits are arranged so that this is an equivalent order (first query "
    "at the rendezvous before the second starts, upstreams held until both replies are out, refresh fails); staleness is "
    "produced with VerifC10Backdate, not by waiting",
    "fallback and dual_selector: the concurrent sub-runs on context copies are modelled in sequence (reference before "
    "original, primary before secondary) and their timers are left out; the drivers configure fallback's threshold "
    "to 60 s, give a standing-by secondary no cache shared with the primary, use each selector instance once, join "
    "the goroutines Handle started before observing, and accept the order in which upstreams were reached as free",
    "one program run takes less than 0.4 s of wall time (the driver repeats slower runs on fresh plugins), so no "
    "cache entry expires, no whole second passes between store and hit and dual_selector's 500 ms grace period never "
    "runs out; the theorems hold for any clock",
]
TRUSTED_BASE = [
    "hand-written models coq/Model/Msg.v, Handler.v, Plugins.v (+ Model/Sequence.v of C06, key_of of C04) tied to "
    "pkg/query_context/context.go, pkg/server_handler/entry_handler.go, pkg/dnsutils/msg.go and the plugin sources by "
    "differential execution (Judge.C15.agree compares, per query, every message an upstream received, what the chain "
    "left in the context and the reply) and by the regenerated constants edns0_size, cache_max_empty_answer_ttl",
    "harness/msgx: dns.Msg -> abstract message printer (option data and rdata are reduced to tags), scripted upstream "
    "(answers as a function of the message it receives) plugged into the real forward plugin via VerifNewForward",
]
LEVEL_TEXT = ("Theorems in coq/Properties/C15.v for every sequence program over the modelled plugins (cache, redirect, "
              "ecs_handler, forward_edns0opt, the cache incl. its lazy mode, dual_selector, fallback over sub-programs nested to any depth, hosts, "
              "black_hole, arbitrary, ttl, forward, drop_resp, reject, any matchers), every client query, every upstream behaviour and every cache timing: each message handed to an upstream has "
              "exactly one fresh OPT (size edns0Size, DO clear, version 0) whose options were put there by an ecs_handler / "
              "forward_edns0opt of the table; the reply has one OPT iff the client sent one, DO mirrored, options only from "
              "upstream OPTs through a plugin forwarding their code; the TTL helpers leave OPT records in place; cache "
              "contents and R() never hold an OPT in the additional section; any truncation allowed by Msg.Truncate's "
              "contract keeps the OPT; a context copy is a value of its own, fallback returns nothing but a response and "
              "dual_selector ends with the response OPT of the one sub-run it adopts. The model is run inside Coq on every case the Go driver observed on the real "
              "plugins behind the real EntryHandler.Handle (Judge.C15.agree), and Judge.C15.spec states the property on "
              "the observations alone (every option of an upstream query is a client option a plugin is configured to forward "
              "or exactly the subnet an ecs_handler is configured to make; reply options must all come from ONE upstream "
              "reply given while the query was handled; what a cache holds has no OPT).")
LEVEL_NOTE = ("Trusted: Coq kernel + vm_compute; hand-written model tied to the code by the differential run and "
              "Gen/Constants.v; contract of miekg Truncate/Pack; upstream replies with at most one OPT. Observation: the "
              "extended-rcode byte of the client's OPT travels to the upstream inside the fresh OPT (miekg Pack copies "
              "Rcode>>4 into it); modelled by Model.Msg.wire, outside the property's wording. No axioms.")
