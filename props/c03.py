ID = "C03"
COQ_PROPS = "Properties/C03.v"
JUDGE = "Judge.C03"
DRIVER = "c03"
SHARD = 100


def driver_args(tier, seed, phase):
    if phase == "search":
        return ["-n", "1000" if tier == "quick" else "20000"]
    return []


RULE = ("hand-written catalogue (the shape of defect F9 [hosts; redirect; cache] with and without a forward, redirect plain / "
        "chained / cyclic / class CH / with an error below, cache outside and inside a redirect, the three outcomes "
        "answer / error / nothing, reject with rcodes incl. 15, 16, 4095, drop_resp, hosts A/AAAA/empty/other types/mixed "
        "case, black_hole, arbitrary, cache id rewrite and case-different names and opcode != 0, the cache admission "
        "rules, a 255-octet name, every kind of malformed query, advertised UDP sizes 0/511/512/513 and around the exact "
        "reply length, replies of exactly 512 and 513 bytes, upstream TC and extended rcode, jump/return around wrappers) "
        "+ every fourth random case a program around one dual_selector (prefer_ipv4/6, pass and block, known names) or "
        "one fallback over two sub-sequences (answering / failing / empty branches, standing by or not) with caches, "
        "redirects and forwarders around and inside "
        "+ lazy-cache cases (shared with C15): priming query, VerifC10Backdate, an overlapping pair of stale hits behind a "
        "rendezvous with the refresh held and failing, clients with other ids with and without OPT, refreshes that fail "
        "or succeed, fresh hits afterwards - every stale hit must carry its own id "
        "+ copying-plugin cases now regularly with extended rcodes 16..23 and 4095 from the upstream under dual_selector "
        "and fallback with a client OPT "
        "+ the REAL servers of pkg/server in front of EntryHandler over the stateless chain [hosts; forward]: ServeUDP on a "
        "loopback socket, ServeTCP on a loopback listener (a connection per query, and all pipelined queries of a case "
        "back to back on one connection, replies matched by id), the DoH handler behind a loopback HTTP server by GET and "
        "POST; one boundary case (root name . NS/DNSKEY/SOA without OPT = the 17-byte query, root with OPT, one-label, "
        "mixed-case and 255-octet names over all five transports; ~63 kB answers over the stream transports and over UDP "
        "with advertised 65535 / 4096 / none; each of the 7 malformations over TCP, DoH GET/POST and half of them over UDP) "
        "and 7 seeded random cases (6-12 valid queries of all shapes incl. root and one-label names over random "
        "transports, advertised UDP sizes around the exact reply length); observed per query: the reply bytes re-parsed, "
        "or none (connection closed / HTTP error / nothing within the wait) "
        "+ pipelined-TCP rounds on the real ServeTCP (one case of 6 rounds x 48 queries, further cases of 3 rounds x 8-32): "
        "k queries of mixed reply lengths written back to back on one connection, a barrier executable at the end of the "
        "chain holds every one until all k have arrived and releases them together, so the k replies are written at the "
        "same moment; when the handler goroutines have ended the client reads frame by frame and matches frames to queries "
        "by id - every query must get exactly one well-framed reply with its own id and question "
        "+ seeded random programs (1-3 sequences, 1-6 rules, matchers has_resp/qtype/_true/_false with '!', all action "
        "kinds) over pools of the REAL cache, redirect, hosts, black_hole, arbitrary, ttl, ecs_handler, forward_edns0opt, "
        "drop_resp and forward plugins (forward over scripted in-memory upstreams echoing id+question with any rcode, "
        "flags, 0-30 records, OPT with options), loaded from rule text by sequence.NewSequence and entered through "
        "EntryHandler.Handle with FromUDP on/off and both pack functions, each on 3-6 queries (ids 0/1/0xFFFF/random, "
        "mixed-case and long names, 10 types, 4 classes, all flag bits, opcodes, OPT with any size/DO/version/options, "
        "1/7 malformed; repeated questions so caches are hit). Non-trivial: the program has at least two of cache / "
        "redirect / local-answer plugin / forward and a query was answered by the plugins; distinct = distinct literal")
ASSUMPTIONS = [
    "upstreams echo id and question with QR set (hypothesis ups_echo; the scripted upstreams do)",
    "miekg Msg.Truncate satisfies Model.Handler.trunc_rel and packs to at most max(512,size) bytes (checked on every "
    "observed UDP reply); responses carrying TSIG are outside that contract and outside the generator",
    "the pack function succeeds on a message of at most 65535 bytes unless its rcode is extended and it has no OPT",
    "Qtype and Qclass are 16 bit values; a record has type 41 exactly when miekg represents it as *dns.OPT",
    "lazy cache: the background refresh is modelled in sequence before the foreground continuation (the driver makes "
    "overlapping hits meet at a rendezvous with the upstream held, so that this is an equivalent order); staleness is "
    "produced with VerifC10Backdate",
    "the transports are transparent: the model of a query arriving through ServeUDP / ServeTCP / the DoH handler is "
    "Handle on the unpacked message with FromUDP set for UDP only (checked on the real servers for a sample of queries "
    "per run; DoT/DoQ/HTTP3 listeners share these code paths and are not run). A UDP query that must stay unanswered is "
    "watched for 300 ms; an expected reply is waited for up to 20 s, a closed connection or an HTTP error is an event",
    "pipelined rounds: frames are read after all handler goroutines of the round have ended (everything is in the socket "
    "then); a 2 s per-frame deadline only ends a read on a stream that is out of step or finished",
    "fallback and dual_selector: the concurrent sub-runs on context copies are modelled in sequence and their timers "
    "are left out (threshold 60 s in the driver, reference query within its 500 ms grace period); the driver joins the "
    "goroutines Handle started (every case starts from the idle process, the goroutine count right after building the "
    "plugins is the reference) before observing, and accepts any order of the upstream messages of one query",
    "one program run takes less than 0.4 s of wall time (slower runs are repeated on fresh plugins): no cache entry "
    "expires and no grace period runs out within a run; the theorems hold for any clock",
]
TRUSTED_BASE = [
    "hand-written models coq/Model/Msg.v, Handler.v, Plugins.v (+ Model/Sequence.v of C06, key_of of C04) tied to "
    "pkg/server_handler/entry_handler.go, pkg/query_context/context.go, the plugin sources and miekg SetReply by "
    "differential execution: Judge.C03.agree = Judge.C15.agree compares per query every message an upstream received, "
    "what the chain left in the context (observed at EntryHandlerOpts.Entry) and the reply (UDP: through the Truncate "
    "contract); for the server cases (CNet) the reply that came back over the socket is compared with the model's",
    "harness/msgx: dns.Msg -> abstract message printer (rdata and option data reduced to tags), scripted upstreams "
    "plugged into the real forward plugin via VerifNewForward",
]
LEVEL_TEXT = ("Theorems in coq/Properties/C03.v for EVERY sequence program (any nesting of jump/goto/return/accept/reject, "
              "any matchers) over the modelled plugins cache, redirect, hosts, black_hole, arbitrary, reject, ttl, "
              "ecs_handler, forward_edns0opt, the dual-stack selector, fallback (sub-programs nested to any depth), "
              "drop_resp and forward in front of upstreams that echo the question, every "
              "query, every cache timing: malformed queries get no reply; a well-formed query gets exactly one reply with "
              "its own ID and question (proved with an invariant relative to the stack of names pushed by enclosing "
              "redirects — relaxed inside dual_selector's reference query, whose result is discarded —, and a "
              "cache-consistency invariant that needs the guard of commit 8cf695f), QR and RA set; it is "
              "SERVFAIL on error, REFUSED on no answer, else the plugins' answer with RA forced and the response OPT "
              "appended; over UDP it is a truncation of that allowed by Msg.Truncate's contract, never longer than "
              "max(512, advertised) and with TC = TC || dropped. The model is run inside Coq on every case the Go driver "
              "observed on the real plugins behind the real EntryHandler.Handle, and Judge.C03.spec states the property "
              "on the observations alone (for the server cases: a well-formed query gets exactly one reply with its id and "
              "question, QR and RA set, over UDP within max(512, advertised); a malformed one gets none — whatever the "
              "transport of arrival).")
LEVEL_NOTE = ("Trusted: Coq kernel + vm_compute; hand-written model tied to the code by the differential run; contracts of "
              "miekg Truncate/Pack; upstreams echo the question. Not covered: the timers of fallback/dual_selector "
              "and real interleavings of the lazy refresh other than the arranged ones; DoT/DoQ/HTTP3 listeners. No axioms.")
