ID = "C16"
COQ_PROPS = "Properties/C16.v"
JUDGE = "Judge.C16"
DRIVER = "c16"
SHARD = 150


def driver_args(tier, seed, phase):
    if phase == "search":
        return ["-n", "800" if tier == "quick" else "20000"]
    return []


RULE = ("catalogue of boundary lengths x chunkings + seeded random streams of frames/garbage/injected read errors "
        "cut into random chunk sizes (incl. 0- and 1-byte reads), the two raw writers and PackTCPBuffer on lengths "
        "around 65535, and ServeTCP answering 16-64 concurrent queries of mixed sizes on one connection; "
        "a case is non-trivial when it has more than one segment, a 0/1-byte chunking, a boundary length "
        "(0,1,11..14,65534..65536) or concurrent replies; distinct = distinct Gallina literal")
ASSUMPTIONS = [
    "one net.Conn.Write call is delivered contiguously (Go runtime / kernel)",
    "io.ReadFull semantics as modelled by Model.Framing.read_full_aux (checked by the differential run)",
    "miekg/dns Pack is the reference packing for PackTCPBuffer cases",
]
TRUSTED_BASE = [
    "hand-written model coq/Model/Framing.v tied to pkg/dnsutils/net_io.go, pkg/pool/msg_buf.go, "
    "pkg/upstream/transport/utils.go by differential execution (Judge.C16) and by the regenerated constants "
    "min_frame_len / max_msg_size* in Gen/Constants.v",
]
LEVEL_TEXT = ("Theorems in coq/Properties/C16.v, for every message, every stream and every way of cutting it into reads: "
              "a framed message of 13..65535 bytes is read back byte-for-byte, the reader returns nothing but the announced "
              "bytes, oversize is refused, truncated/short/small frames are errors, whole frames in any order decode to the same "
              "messages. The model (Model/Framing.v) is run inside Coq on every case the Go driver observed on the real "
              "readers/writers and the TCP server (Judge.C16.agree), and the size constants are regenerated from the source.")
LEVEL_NOTE = ("Trusted: Coq kernel + vm_compute; hand-written model tied to the code by the differential run and Gen/Constants.v; "
              "atomicity of one net.Conn.Write; io.ReadFull as modelled; miekg Pack as reference packing. No axioms.")
