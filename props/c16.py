ID = "C16"
COQ_PROPS = "Properties/C16.v"
JUDGE = "Judge.C16"
DRIVER = "c16"
SHARD = 150


def driver_args(tier, seed, phase):
    if phase == "search":
        return ["-n", "800" if tier == "quick" else "20000"]
    return []


RULE = ("catalogue of boundary lengths x chunkings + seeded random streams of frames/garbage/injected read errors "
        "cut into random chunk sizes (incl. 0- and 1-byte reads), the two raw writers and PackTCPBuffer on lengths "
        "around 65535, and ServeTCP answering 16-64 concurrent queries of mixed sizes on one connection; "
        "the DoQ client (transport.NewQuicDnsConn over an in-memory quic connection, harness/quicx), one exchange per case (ids doq:...): "
        "a catalogue of malformed reply streams (FIN without data, one header byte, header only, every announced length 0..12, "
        "body shorter than announced, garbage, stream reset or read timeout before / inside the header / inside the body / after a whole frame) "
        "and whole frames of 13, 14, 512, 4096, 65534, 65535 bytes, served whole, 1 byte per read and with 0-byte reads, "
        "+ seeded random reply streams (frames, garbage, frames cut short, injected failures; random read sizes); "
        "a panic of the client is recovered per case and reported as a violation under the case id; "
        "ServeTCP after a failed reply write (ids tcpr:N): on one server a slow query followed by one the handler rejects (the server closes the connection "
        "and the slow reply is written to the closed connection), or a connection whose Write returns an error; then on a second connection 1-3 rounds of 2-6 queries "
        "whose replies, all in the byte-pool size class of the failed one, are packed before any of them is written (barrier handler; one P and no GC while the case runs): "
        "every query of a round gets exactly one intact frame with its own id and answer, one Write per frame; "
        "ServeDoQ behind a real quic-go listener on loopback (ids doqs:N): 2-4 streams on one connection, each opened once the previous query is inside its handler, "
        "handlers released in random order, all at once or one reply at a time: every stream carries exactly one frame, the answer to the query sent on it, then FIN; "
        "a case is non-trivial when it has more than one segment, a 0/1-byte chunking, a boundary length "
        "(0,1,11..14,65534..65536) or concurrent replies (a DoQ case: anything but one whole frame of an ordinary size read in large pieces); distinct = distinct Gallina literal")
# a panic inside one of pkg/server's own goroutines (e.g. a handler that finds its stream gone) kills the driver: that is a
# failing observation of "never a panic", not a harness error
CRASH_VIOLATION = [
    (r"(panic: |fatal error: )[^\n]*\n(?:[^\n]*\n){0,60}?[^\n]*IrineSistiana/mosdns/v5/pkg/(server|dnsutils|pool)\b",
     "the server (pkg/server) or the framing code crashed while serving the driver's connections"),
]

ASSUMPTIONS = [
    "one net.Conn.Write call is delivered contiguously (Go runtime / kernel)",
    "io.ReadFull semantics as modelled by Model.Framing.read_full_aux (checked by the differential run)",
    "miekg/dns Pack is the reference packing for PackTCPBuffer cases",
    "the DoQ cases see quic-go only through harness/quicx: Write delivers the bytes or fails, Close is the FIN of the send side, "
    "Read blocks until the peer answered and ends with io.EOF, a reset or a deadline is a non-EOF read error, CancelRead unblocks Read",
    "the ServeTCP round cases run with GOMAXPROCS(1) and the collector off (both restored afterwards) so that sync.Pool hands buffers out in a fixed order; "
    "the handler's barrier (all replies of a round packed before one is returned to the server) is the schedule the harness forces",
    "the ServeDoQ cases use quic-go itself (listener and client on 127.0.0.1, self-signed certificate from pkg/utils): stream delivery, FIN and deadlines are quic-go's",
]
TRUSTED_BASE = [
    "hand-written model coq/Model/Framing.v tied to pkg/dnsutils/net_io.go, pkg/pool/msg_buf.go, "
    "pkg/upstream/transport/utils.go by differential execution (Judge.C16) and by the regenerated constants "
    "min_frame_len / max_msg_size* in Gen/Constants.v",
    "harness/quicx (in-memory quic.Connection / quic.Stream); the DoQ client pkg/upstream/transport/conn_quic.go is judged by the same "
    "reader model: an error exactly when Model.Framing.read_frame fails on the reply stream, otherwise that frame with the caller's id put back",
]
LEVEL_TEXT = ("Theorems in coq/Properties/C16.v, for every message, every stream and every way of cutting it into reads: "
              "a framed message of 13..65535 bytes is read back byte-for-byte, the reader returns nothing but the announced "
              "bytes, oversize is refused, truncated/short/small frames are errors, whole frames in any order decode to the same "
              "messages. The model (Model/Framing.v) is run inside Coq on every case the Go driver observed on the real "
              "readers/writers, the TCP server and the DoQ client (Judge.C16.agree), and the size constants are regenerated from the source. "
              "For the DoQ client the run also checks, case by case, that a damaged or truncated reply stream comes back as an error and not as a panic. "
              "For the servers (ServeTCP, ServeDoQ) the run checks on sampled scenarios that every query gets exactly one frame, the unchanged packing of its own answer "
              "(after a failed reply write and with overlapping handlers); the servers' goroutine structure is not modelled.")
LEVEL_NOTE = ("Trusted: Coq kernel + vm_compute; hand-written model tied to the code by the differential run and Gen/Constants.v; "
              "atomicity of one net.Conn.Write; io.ReadFull as modelled; miekg Pack as reference packing; quic-go streams as faked by harness/quicx "
              "(the DoQ client is tested against the model on sampled streams, it is not itself modelled beyond 'first frame of the stream, id restored'). No axioms.")
