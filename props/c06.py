ID = "C06"
COQ_PROPS = "Properties/C06.v"
JUDGE = "Judge.C06"
DRIVER = "c06"
SHARD = 200


def driver_args(tier, seed, phase):
    if phase == "search":
        return ["-n", "1500" if tier == "quick" else "30000"]
    return []


RULE = ("hand-written catalogue (the 7 programs of sequence_test.go, matcher short-circuit/negation/error orders, "
        "accept/reject/return/goto/errors below 1-2 levels of jump, wrappers running their continuation 0/1/2 times "
        "in place, on copies and concurrently incl. with pending jump returns, sequences used as plain actions ($seq) with "
        "failing matchers/actions inside at depth 1-3, below jump/goto and under wrappers, return through exhausted callers "
        "(2-3 levels of jumps that are the LAST rule of the middle sequences, also under wrappers, below goto and in $seq "
        "callees), wrappers that KEEP their continuation and run it once/twice after the top-level Exec has returned and "
        "an unrelated jump-heavy program has run in between (on copies of the kept context or on it), reject rcode bounds, "
        "self/forward "
        "references, name shadowing), each in 3 seeded renderings (failing plugins return: their plain marker error / an "
        "error of the context.Canceled family / a value drawn from the menu), + seeded random programs (1-4 sequences, "
        "0-5 rules, 0-3 matchers from a 18-symbol alphabet incl. response-dependent and failing ones, all 8 action kinds "
        "incl. $seq calls, the error VALUE of every failing plugin drawn per run from a 15-entry menu: marker type, "
        "errors.New, context.Canceled, context.DeadlineExceeded, io.EOF, single and double %w wrappings, a custom type with "
        "Is/Unwrap, errors.Join; the returned error is identified through wrapping with the plugin that made it; every 4th random "
        "case is a 'chain' program main -> mid.. -> inner with tail jumps, an executed explicit return innermost, rules "
        "behind the outermost jump, wrappers incl. keeping ones at any level, goto/$seq at a middle level; 1/4 of random "
        "wrappers keep their continuation; a worker process that dies on a case (fatal stack overflow) is reported as "
        "that case observed with error 9999, "
        "$tag / quick-setup type / quick-configured forms, surplus blanks) of which 1/12 carry one injected build defect, "
        "all loaded from rule text by sequence.NewSequence and executed; + parseMatch/parseExec on fixed and random "
        "ASCII strings. Non-trivial: the executed program has a return/goto inside a jumped or gone-to sequence or a "
        "wrapper running its continuation twice or keeping it for later (return/goto inside a $seq callee counts); rule text with '!' or surplus blanks; distinct = distinct Gallina literal")
ASSUMPTIONS = [
    "a wrapping plugin uses its continuation only by running it (wrappers_extensional; proved for the harness wrappers)",
    "plugins are deterministic functions of the query context as far as the sequence is concerned (oracles match_o/exec_o/wrap_o)",
    "error values are opaque to the sequence (model: a code passed through unchanged); checked by the differential run on "
    "sentinel, wrapped, joined and custom-Is error values",
    "strings.TrimSpace / strings.Cut as modelled on ASCII by trim_space / cut_space (checked by the differential run)",
]
TRUSTED_BASE = [
    "hand-written model coq/Model/Sequence.v (machine = ChainWalker.ExecNext + built_in.go, build_all = NewSequence/"
    "buildChain/newExec/setupJump/setupGoto/setupReject, parse_match/parse_exec = config.go) tied to "
    "plugin/executable/sequence/*.go by differential execution (Judge.C06)",
    "the recording plugins of harness/cmd/c06 behave as Model.Sequence.harness_env says (same id conventions)",
]
LEVEL_TEXT = ("Theorems in coq/Properties/C06.v for every program tree (any number of sequences referring to earlier ones, any "
              "length and nesting), every kind of query context and all plugins (matchers true/false/error depending on the "
              "context, failing executables, wrappers that are arbitrary functions of their continuation): the walker machine "
              "transcribed from ChainWalker.ExecNext and the built-in actions computes exactly the trace, context and error of "
              "the big-step reading of the property (rules in order, matchers left to right with '!', accept/reject stop, "
              "return, jump, goto, sequences used as plain actions, errors); one theorem per clause stated on the machine for an arbitrary jump-back stack; the "
              "continuation given to a wrapper is the walker on the remaining rules plus pending jump returns, n runs on copies give n identical sub-traces, and a "
              "continuation that is kept and run later (after the jump that was on the stack has returned) does exactly what "
              "the run in place does; parse(render) round-trip for rule text with arbitrary blanks. The model is run "
              "inside Coq on every program the Go driver loaded from rule text with the real sequence.NewSequence and executed "
              "with recording plugins (Judge.C06.agree: machine, Judge.C06.spec: big-step interpreter).")
LEVEL_NOTE = ("Trusted: Coq kernel + vm_compute; hand-written model tied to the code by the differential run; wrappers assumed "
              "extensional (proved for the harness family); YAML decoding of the rule list (mapstructure) is outside; real "
              "concurrency of continuation runs is exercised by the driver (wrapper mode 2), not modelled; late runs of kept continuations "
              "(wrappers 18-21) are made by the driver after the top-level Exec and an interfering program, and predicted by "
              "the model at the moment the continuation is kept. No axioms.")
