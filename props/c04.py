ID = "C04"
COQ_PROPS = "Properties/C04.v"
JUDGE = "Judge.C04"
DRIVER = "c04"
SHARD = 200


def driver_args(tier, seed, phase):
    if phase == "search":
        return ["-n", "2500" if tier == "quick" else "60000"]
    return []


RULE = ("catalogue of pairs of queries that differ in one component (types 1/257, 1/256, 0/256, 255/256, 255/65535, "
        "65534/65535..., the same for classes, type and class bytes exchanged, all 36 pairs of AD/CD/DO combinations, "
        "16 shapes of the additional section deciding where DO is read from, names differing in case / one byte / a "
        "trailing dot, names that are prefixes of one another and names whose lengths are equal modulo 256 for lengths "
        "1..1020, every bypass reason) run through getMsgKey directly, through Pack/Unpack + getMsgKey, and through "
        "Cache.Exec on real query contexts in both store-then-lookup orders; seeded random pairs (one component mutated, "
        "identical, unrelated, irrelevant parts changed), random histories of 3..9 executions on one Cache with scripted "
        "downstream answers (good, none, truncated, wrong name/type/class, no question, replacing a cached answer) and "
        "/flush, random client messages through NewContext; sweeps of the real key over all 65536 types, all 65536 "
        "classes, the 8 flag combinations and names of length 1..300; the chain [real redirect plugin; real Cache; fake "
        "upstream] with lazy_cache_ttl > 0 and = 0, 0..4 redirect rules (several aliases per target, a target that is "
        "itself redirected, no rule as control): store, back-date the entry past its message TTL, ask aliases and "
        "targets, join every lazy update, and record question / owner names / address of every reply and what the "
        "store holds under the key of every name; the chain [a plugin that has already put a response into the context; "
        "real dual_selector prefer_ipv4 / prefer_ipv6 or none; real Cache; fake upstream] with and without lazy mode: the "
        "response present on entry answers the same name with another type (AAAA first, then A, and the reverse), "
        "another class, another name or the query itself, on a miss, a fresh hit and a stale hit (the lazy update works on "
        "it), the selector's reference sub-query carrying it to the cache under the rewritten type; every execution of "
        "the cache and every lazy update is joined, then the question and (owner, rrtype) of the records of every reply "
        "and of whatever the store holds under the key of every (name, A/AAAA/TXT, IN/CH) are recorded; histories also "
        "record name/type/class of the question section of every served cached answer; histories with dump and reload "
        "through the real GET /dump and POST /load_dump handlers (several different questions stored, dump, reload into "
        "the same Cache, after a flush, on top of newer entries or into a new Cache = restart, then every question asked "
        "again; optionally a second generation); redirect + lazy runs in which the background refresh of a stale hit "
        "does not land (upstream error, no response, truncated reply) and the target and another alias are asked "
        "afterwards in both orders; [real Cache (lazy or not); flag-sensitive upstream]: queries (name, AD/CD/DO) whose "
        "answer the upstream computes from the FULL query it receives (the address encodes the name and the flags it "
        "saw), all 8 flag combinations stored, back-dated, refreshed by a stale hit and asked again, recording per "
        "reply the flags its answer was computed for, per background refresh the (name, flags) that reached the "
        "upstream, and what is held under the key of every (name, flags). A pair is non-trivial when both queries are "
        "cacheable and differ in exactly one of name/type/class/AD/CD/DO; a history when it has a hit and at least two "
        "cacheable non-hits; a redirect+lazy run when a background update followed a redirected stale hit and a "
        "query came after it; a chain run when a response was present on entry or the selector ran its reference "
        "sub-query and a plain query came last; a flag run when a background refresh ran for a query with AD or CD set "
        "and a query came after it; distinct = distinct Gallina literal")
ASSUMPTIONS = [
    "\"the query\" is the message Cache.Exec reads (qCtx.Q()): NewContext replaces the client's OPT by a fresh one, so DO "
    "is part of the key only as far as a plugin in front of the cache sets it on qCtx.QOpt() "
    "(theorem c04_ctx_query_do_clear; NewContext's OPT swap is checked differentially)",
    "Qtype and Qclass are uint16 (hypothesis wf_qmsg: < 65536); names are arbitrary byte strings of any length, compared "
    "byte for byte (no case folding: a. and A. are different questions for the cache)",
    "the store compares keys by Go string equality (concurrent_map: map[key]V per shard; maphash only selects the shard); "
    "expiry, gc and eviction only remove entries (modelled as arbitrary Drop steps; timing is property C05)",
    "saveRespToCache's admission decision is abstracted to one boolean per response (r_ok); lazy cache is off in the "
    "pair/history cases; the redirect+lazy cases run with lazy_cache_ttl = 86400, back-date entries through the verif "
    "export VerifC10Backdate and join background updates with VerifC10LazyWait (one P while they run, so the update's "
    "goroutine starts after the caller has returned through redirect)",
]
TRUSTED_BASE = [
    "hand-written model coq/Model/CacheKey.v tied to plugin/executable/cache/utils.go (getMsgKey, answersQuestion), "
    "cache.go (Exec), pkg/query_context (NewContext) by differential execution (Judge.C04: raw key bytes, hit/miss "
    "through Cache.Exec, histories, /flush) and by the regenerated key bit constants cache_key_{ad,cd,do}_bit in "
    "Gen/Constants.v",
    "miekg/dns Msg.IsEdns0 / OPT.Do as modelled by is_edns0 / opt_do (last OPT of the additional section, bit 15 of the TTL "
    "field; checked by the differential run on 16 section shapes)",
]
LEVEL_TEXT = ("Theorems in coq/Properties/C04.v: the key built by getMsgKey is injective over all types and classes < 65536, "
              "all 8 AD/CD/DO combinations and all names of any length and content (the length byte's wrap is harmless because "
              "the six leading bytes have fixed width); it is empty exactly for QR / opcode != QUERY / != 1 question and such a "
              "query never touches the store; for every history of executions, removals and flushes a served cached answer was "
              "stored by an earlier execution whose query has the same name, type, class, AD, CD and DO, and carries the "
              "query's own question; whatever the store holds under a key answers a query with that key (a lazy background update "
              "is the step Query q r r for the query it was started for, and Judge.C04.lazy_run runs redirect + lazy cache "
              "that way, and Judge.C04.chain_run runs a response already present in the context and the dual_selector's "
              "sub-queries as such steps); loading a dump yields under a key only what the dump or the cache held under that key "
              "(Judge.C04.hist_run runs dump / reload steps that way); Judge.C04.flag_run runs the refresh of a stale hit as an "
              "execution of the same query with the same AD/CD/DO, and spec requires every held or served answer to be the "
              "downstream's answer to exactly the key's question and flags; the same question is served the stored answer; the Judge's oracle same_qf_b is proved "
              "equivalent to the theorems' notion. The model is run inside Coq on every case the Go driver observed.")
LEVEL_NOTE = ("Trusted: Coq kernel + vm_compute; hand-written model tied to the code by the differential run and Gen/Constants.v; "
              "Go string equality of map keys; IsEdns0/Do as modelled. No axioms. Kept refutations show the pre-repair key "
              "(F3, fixed by 70156c0) collided for A/CAA and IN/CH.")
