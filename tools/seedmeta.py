#!/usr/bin/env python3
"""tools/seedmeta.py Cxx_mK 'what' 'needs' — fill the one-line summary fields of a seeded change's meta.json."""
import sys, json
p = "/verif/seeded/%s/meta.json" % sys.argv[1]
m = json.load(open(p)); m["what"] = sys.argv[2]; m["needs"] = sys.argv[3]
json.dump(m, open(p, "w"), indent=1)
