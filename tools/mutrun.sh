#!/bin/bash
# tools/mutrun.sh <name> <driver> [driver args...]   (reads a patch on stdin, or "REVERT <commit>" / "NONE" as first line)
# Builds <driver> against a scratch worktree of /repo with the patch applied and runs it,
# writing cases to /verif/.work/mut/<name>.jsonl. Does not touch /repo's working tree.
set -e
export GOFLAGS=-mod=mod GOPROXY=off GOSUMDB=off GOTOOLCHAIN=local
name=$1; driver=$2; shift 2
WT=/tmp/mutwt_$name
H=/verif/.work/mut/h_$name
rm -rf "$WT" "$H"; git -C /repo worktree prune
git -C /repo worktree add -q --detach "$WT" HEAD
cp /repo/plugin/executable/cache/zz_verif_export_c*.go "$WT/plugin/executable/cache/" 2>/dev/null || true
for f in $(git -C /repo ls-files --others --exclude-standard); do mkdir -p "$WT/$(dirname $f)"; cp "/repo/$f" "$WT/$f"; done
patch=$(cat)
if [[ "$patch" == NONE* ]]; then
  : # the unchanged HEAD (a clean reference run that does not depend on /repo's working tree)
elif [[ "$patch" == REVERT* ]]; then
  c=$(echo "$patch" | awk '{print $2}')
  git -C "$WT" show "$c" | git -C "$WT" apply -R
else
  echo "$patch" | git -C "$WT" apply
fi
mkdir -p "$H"; rsync -a --exclude bin /verif/harness/ "$H/"
sed -i "s#=> /repo#=> $WT#" "$H/go.mod"
(cd "$H" && go build -tags verif -o bin/$driver ./cmd/$driver)
mkdir -p /verif/.work/mut
(cd "$H" && timeout -s QUIT 900 ./bin/$driver "$@" -out /verif/.work/mut/$name.jsonl) || echo "driver exit $?"
git -C /repo worktree remove --force "$WT"; rm -rf "$H"
echo "cases in /verif/.work/mut/$name.jsonl"
