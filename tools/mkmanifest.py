#!/usr/bin/env python3
"""Regenerate MANIFEST.json from props/*.py (one module per claimed property)."""
import json, os, glob, importlib.util, subprocess
ROOT = os.path.dirname(os.path.dirname(os.path.abspath(__file__)))
props = {}
for p in sorted(glob.glob(os.path.join(ROOT, "props", "c*.py"))):
    spec = importlib.util.spec_from_file_location("p", p)
    m = importlib.util.module_from_spec(spec); spec.loader.exec_module(m)
    props[m.ID] = m
all_ids = [json.loads(l)["id"] for l in open(os.path.join(ROOT, "properties.jsonl"))]
claimed = set(open(os.path.join(ROOT, "tools", "claimed.txt")).read().split())
props = {k: v for k, v in props.items() if k in claimed}
try:
    hooks = subprocess.check_output(["git", "-C", "/repo", "log", "--format=%H %s"], text=True).splitlines()
    hook_commits = [l.split()[0] for l in hooks if l.split(" ", 1)[1].startswith("verif:")]
except Exception:
    hook_commits = []
checks = []
for pid in all_ids:
    if pid not in props:
        continue
    m = props[pid]
    checks.append(dict(
        property_id=pid,
        quick_cmd="bin/check %s --tier quick" % pid,
        thorough_cmd="bin/check %s --tier thorough" % pid,
        evidence_file="evidence/%s.json" % pid,
        replay_cmd_template="bin/check %s --replay {path}" % pid,
        engine="coq+harness",
        level_claimed=dict(category="proof", text=m.LEVEL_TEXT, design_ref=getattr(m, "DESIGN_REF", "DESIGN.md §5 " + pid)),
        level_note=m.LEVEL_NOTE,
        technique=getattr(m, "TECHNIQUE", "machine-checked proof in Coq 8.16.1 about an executable Gallina model + differential correspondence check of the model against the Go code"),
    ))
na = []
na_reasons = {}
try:
    na_reasons = json.load(open(os.path.join(ROOT, "tools", "not_applicable.json")))
except FileNotFoundError:
    pass
for pid in all_ids:
    if pid not in props:
        na.append(dict(property_id=pid, reason=na_reasons.get(pid, "check not built yet (planned, see DESIGN.md §5); not claimed until its theorem and correspondence run exist")))
man = dict(
    version=1,
    setup_cmd="bin/setup",
    hooks=dict(guard="verif", enable="go build -tags verif (harness module with replace => /repo)",
               baseline_off_cmd="cd /repo && go build ./... && go test -vet=off -count=1 -timeout 25m ./...",
               source_commits=hook_commits, add_only=True),
    engines=[
        dict(name="coq", path="coq/", serves_properties=sorted(props), kind_free_text="Rocq/Coq 8.16.1 development: Model/ (executable models), Proofs/, Properties/ (theorems + Print Assumptions), Judge/ (agree/spec evaluated by vm_compute on the cases the Go drivers observed), Gen/ (regenerated from the Go source by tools/gofacts)"),
        dict(name="harness", path="harness/", serves_properties=sorted(props), kind_free_text="Go drivers built with -tags verif against /repo's working tree; print the implementation's observations as Gallina literals"),
        dict(name="gofacts", path="tools/gofacts/", serves_properties=sorted(props), kind_free_text="Go AST -> Gen/*.v translator for constants and structural facts the theorems depend on"),
    ],
    checks=checks,
    not_applicable=na,
    notes="All checks: bin/check Cxx --tier quick|thorough (python orchestrator lib/vcheck.py). VERIF_SEED seeds the case generators. Known findings: known_findings.json.",
)
json.dump(man, open(os.path.join(ROOT, "MANIFEST.json"), "w"), indent=1)
print("claimed:", " ".join(sorted(props)), "| not claimed:", " ".join(x["property_id"] for x in na))
