#!/bin/bash
# tools/seedwave.sh <wave> <Cxx> <mA> <mB> : save /tmp/seed<wave>_Cxx_out/{m1,m2} as seeded/Cxx_<mA>, Cxx_<mB> and preview both
export GOFLAGS=-mod=mod GOPROXY=off GOSUMDB=off GOTOOLCHAIN=local
cd /verif
w=$1; id=$2; a=$3; b=$4
python3 tools/seedsave.py $id m1 $a $w >/dev/null; python3 tools/seedsave.py $id m2 $b $w >/dev/null; rm -rf /tmp/seed${w}_${id}_out
drv=$(echo $id | tr 'C' 'c')
for m in $a $b; do
  n=${id}_$m
  git -C /repo apply --check /verif/seeded/$n/patch.diff || echo "$n: patch does not apply"
  tools/mutrun.sh $n $drv -seed 1 < seeded/$n/patch.diff > .work/mut/$n.log 2>&1
  echo "== $n: $(python3 tools/judgefile.py Judge.$id .work/mut/$n.jsonl 2>&1 | grep '^cases\|Error\|error' | head -2) exit:$(grep -c 'driver exit' .work/mut/$n.log) viol:$(grep -c '"violation"' .work/mut/$n.jsonl 2>/dev/null)"
done
