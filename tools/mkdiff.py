#!/usr/bin/env python3
"""tools/mkdiff.py <repo-relative-path> <old> <new> [count] — print a unified diff replacing old by new (exactly count occurrences, default 1) in /repo's file."""
import sys, difflib
path, old, new = sys.argv[1], sys.argv[2], sys.argv[3]
cnt = int(sys.argv[4]) if len(sys.argv) > 4 else 1
old = old.encode().decode('unicode_escape'); new = new.encode().decode('unicode_escape')
s = open('/repo/' + path).read()
assert s.count(old) >= cnt and cnt >= 1, "old text found %d times" % s.count(old)
t = s.replace(old, new, cnt)
sys.stdout.writelines(difflib.unified_diff(s.splitlines(True), t.splitlines(True), 'a/' + path, 'b/' + path))
