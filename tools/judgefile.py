#!/usr/bin/env python3
"""tools/judgefile.py Judge.Cxx cases.jsonl — judge a cases file inside Coq and print the verdict (debug aid)."""
import sys, os, types, shutil
sys.path.insert(0, os.path.join(os.path.dirname(os.path.abspath(__file__)), "..", "lib"))
import vcheck
prop = types.SimpleNamespace(JUDGE=sys.argv[1])
cases, summ = vcheck.load_cases(sys.argv[2])
viol = [c for c in cases if c.get("violation")]
cases = [c for c in cases if not c.get("violation")]
wd = "/verif/.work/judge.%d" % os.getpid()
os.makedirs(wd, exist_ok=True)
try:
    r = vcheck.judge_cases(prop, cases, wd, shard_size=int(os.environ.get("SHARD", "100")))
finally:
    shutil.rmtree(wd, ignore_errors=True)
print("cases=%d nontrivial=%d bad_agree=%d bad_spec=%d harness_violations=%d error=%s" % (len(cases), r["nontrivial"], len(r["bad_agree"]), len(r["bad_spec"]) + len(viol), len(viol), (r["error"] or "")[:2000]))
for k in ("bad_spec", "bad_agree"):
    for i in r[k][:int(os.environ.get("SHOW", "3"))]:
        print(k, cases[i]["id"], cases[i].get("desc"))
