#!/usr/bin/env python3
"""tools/seedsave.py Cxx mK [preview-line] — copy a seeded change from /tmp/seed_Cxx_out/mK into /verif/seeded/Cxx_mK/ and start its meta.json."""
import sys, os, shutil, json, glob
# usage: seedsave.py Cxx mK            (wave 1: /tmp/seed_Cxx_out/mK -> seeded/Cxx_mK)
#        seedsave.py Cxx mK mJ 2       (wave 2: /tmp/seed2_Cxx_out/mK -> seeded/Cxx_mJ)
pid, m = sys.argv[1], sys.argv[2]
mdst = sys.argv[3] if len(sys.argv) > 3 else m
wave = sys.argv[4] if len(sys.argv) > 4 else ""
src = "/tmp/seed%s_%s_out/%s" % (wave, pid, m)
dst = "/verif/seeded/%s_%s" % (pid, mdst)
m = mdst
os.makedirs(dst, exist_ok=True)
for f in glob.glob(src + "/*"):
    if os.path.isdir(f):
        shutil.copytree(f, os.path.join(dst, os.path.basename(f)), dirs_exist_ok=True)
    else:
        shutil.copy(f, dst)
readme = open(os.path.join(dst, "README.txt")).read() if os.path.exists(os.path.join(dst, "README.txt")) else ""
meta = {"property": pid, "id": "%s_%s" % (pid, m), "source": "fresh sub-agent given only the property text and a scratch worktree",
        "what_it_needs_to_manifest": "see README.txt", "readme_head": readme[:1500]}
mp = os.path.join(dst, "meta.json")
if os.path.exists(mp):
    old = json.load(open(mp)); old.update(meta); meta = old
json.dump(meta, open(mp, "w"), indent=1)
print(dst)
