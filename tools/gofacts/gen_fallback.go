package main

import (
	"fmt"
	"go/ast"
	"go/token"
	"math/big"
	"path/filepath"
	"strings"
)

// Structural facts about plugin/executable/sequence/fallback/fallback.go
// doFallback that Model/Fallback.v depends on (property C20):
//   - the order of the primary goroutine's two statements on success
//     (respChan <- r relative to close(primDone)),
//   - the capacity of respChan and the number of collection rounds,
//   - the channel operands of the secondary goroutine's two selects.
func init() {
	register(generator{file: "FallbackFacts.v", title: "Statement order, channel capacity and select cases of fallback.doFallback.", run: genFallback})
}

func genFallback(o *out) {
	const file = "plugin/executable/sequence/fallback/fallback.go"
	names := []string{"fallback_send_before_done", "fallback_fail_close_before_send", "fallback_chan_cap",
		"fallback_collect_rounds", "fallback_timer_owned_by_secondary", "fallback_timer_arg", "fallback_wait_cases", "fallback_hold_cases"}
	fail := func(why string) {
		for _, n := range names {
			o.missing(n, why)
		}
	}
	pf, err := parseFile(filepath.Join(repo, file))
	if err != nil {
		fail(err.Error())
		return
	}
	genFallbackThreshold(o, pf, file)
	fd := funcDeclRecv(pf, "fallback", "doFallback")
	if fd == nil {
		fail("func doFallback not found in " + file)
		return
	}

	// the goroutines started directly by doFallback, in source order
	var gos []*ast.FuncLit
	for _, st := range fd.Body.List {
		if g, ok := st.(*ast.GoStmt); ok {
			if fl, ok := g.Call.Fun.(*ast.FuncLit); ok {
				gos = append(gos, fl)
			}
		}
	}
	if len(gos) != 2 {
		fail(fmt.Sprintf("expected 2 goroutines in doFallback, found %d", len(gos)))
		return
	}
	prim, sec := gos[0], gos[1]

	isClose := func(s ast.Stmt, ch string) bool {
		es, ok := s.(*ast.ExprStmt)
		if !ok {
			return false
		}
		ce, ok := es.X.(*ast.CallExpr)
		if !ok || exprString(ce.Fun) != "close" || len(ce.Args) != 1 {
			return false
		}
		return exprString(ce.Args[0]) == ch
	}
	isSend := func(s ast.Stmt, ch string, wantNil bool) bool {
		ss, ok := s.(*ast.SendStmt)
		if !ok || exprString(ss.Chan) != ch {
			return false
		}
		return (exprString(ss.Value) == "nil") == wantNil
	}
	// position of the first statement in blk satisfying f (-1 = absent)
	find := func(blk *ast.BlockStmt, f func(ast.Stmt) bool) int {
		for i, s := range blk.List {
			if f(s) {
				return i
			}
		}
		return -1
	}

	// primary: the if/else that signals the result
	var sig *ast.IfStmt
	for _, s := range prim.Body.List {
		if is, ok := s.(*ast.IfStmt); ok {
			if eb, ok := is.Else.(*ast.BlockStmt); ok {
				if find(eb, func(s ast.Stmt) bool { return isClose(s, "primDone") }) >= 0 {
					sig = is
				}
			}
		}
	}
	if sig == nil {
		o.missing("fallback_send_before_done", "primary goroutine: if/else closing primDone not found")
		o.missing("fallback_fail_close_before_send", "primary goroutine: if/else closing primDone not found")
	} else {
		eb := sig.Else.(*ast.BlockStmt)
		iSend := find(eb, func(s ast.Stmt) bool { return isSend(s, "respChan", false) })
		iDone := find(eb, func(s ast.Stmt) bool { return isClose(s, "primDone") })
		if iSend < 0 || iDone < 0 {
			o.missing("fallback_send_before_done", "success branch: respChan <- r or close(primDone) not found")
		} else {
			fmt.Fprintf(&o.buf, "Definition fallback_send_before_done : bool := %v. (* %s doFallback primary: respChan <- r is statement %d, close(primDone) statement %d of the success branch *)\n",
				iSend < iDone, file, iSend, iDone)
		}
		iNil := find(sig.Body, func(s ast.Stmt) bool { return isSend(s, "respChan", true) })
		iFail := find(sig.Body, func(s ast.Stmt) bool { return isClose(s, "primFailed") })
		if iNil < 0 || iFail < 0 {
			o.missing("fallback_fail_close_before_send", "failure branch: respChan <- nil or close(primFailed) not found")
		} else {
			fmt.Fprintf(&o.buf, "Definition fallback_fail_close_before_send : bool := %v. (* %s doFallback primary: failure branch *)\n",
				iFail < iNil, file)
		}
	}

	// respChan := make(chan *dns.Msg, N)
	func() {
		var val *big.Int
		for _, s := range fd.Body.List {
			as, ok := s.(*ast.AssignStmt)
			if !ok || len(as.Lhs) != 1 || len(as.Rhs) != 1 || exprString(as.Lhs[0]) != "respChan" {
				continue
			}
			ce, ok := as.Rhs[0].(*ast.CallExpr)
			if !ok || exprString(ce.Fun) != "make" {
				continue
			}
			if len(ce.Args) == 1 {
				val = big.NewInt(0)
			} else if len(ce.Args) == 2 {
				c := &evalCtx{pf: pf, files: parseDir(filepath.Dir(pf.path)), scope: "doFallback"}
				if v, err := eval(c, ce.Args[1], 0); err == nil {
					val = v
				}
			}
		}
		if val == nil {
			o.missing("fallback_chan_cap", "respChan := make(chan, n) not found")
			return
		}
		o.defN("fallback_chan_cap", val, file+" doFallback: capacity of respChan")
	}()

	// for i := 0; i < N; i++ { select ... }
	func() {
		var val *big.Int
		for _, s := range fd.Body.List {
			fs, ok := s.(*ast.ForStmt)
			if !ok {
				continue
			}
			be, ok := fs.Cond.(*ast.BinaryExpr)
			if !ok || be.Op != token.LSS {
				continue
			}
			c := &evalCtx{pf: pf, files: parseDir(filepath.Dir(pf.path)), scope: "doFallback"}
			if v, err := eval(c, be.Y, 0); err == nil {
				val = v
			}
		}
		if val == nil {
			o.missing("fallback_collect_rounds", "collection loop bound not found")
			return
		}
		o.defN("fallback_collect_rounds", val, file+" doFallback: rounds of the collection loop")
	}()

	// secondary: the two selects, their receive operands in source order
	var sels []*ast.SelectStmt
	ast.Inspect(sec.Body, func(n ast.Node) bool {
		if s, ok := n.(*ast.SelectStmt); ok {
			sels = append(sels, s)
		}
		return true
	})
	cases := func(s *ast.SelectStmt) string {
		var it []string
		for _, c := range s.Body.List {
			cc := c.(*ast.CommClause)
			op := "default"
			if cc.Comm != nil {
				op = "?"
				switch x := cc.Comm.(type) {
				case *ast.ExprStmt:
					if u, ok := x.X.(*ast.UnaryExpr); ok && u.Op == token.ARROW {
						op = exprString(u.X)
					}
				case *ast.AssignStmt:
					if len(x.Rhs) == 1 {
						if u, ok := x.Rhs[0].(*ast.UnaryExpr); ok && u.Op == token.ARROW {
							op = exprString(u.X)
						}
					}
				case *ast.SendStmt:
					op = "send " + exprString(x.Chan)
				}
			}
			// does the case leave the goroutine?
			for _, b := range cc.Body {
				if _, ok := b.(*ast.ReturnStmt); ok {
					op += " return"
				}
			}
			it = append(it, "\""+strings.ReplaceAll(op, "\"", "")+"\"%string")
		}
		return "[" + strings.Join(it, "; ") + "]"
	}
	// the expression the secondary goroutine arms its threshold timer with:
	// timer := pool.GetTimer(<arg>)
	func() {
		var args []string
		ast.Inspect(sec.Body, func(n ast.Node) bool {
			if ce, ok := n.(*ast.CallExpr); ok && exprString(ce.Fun) == "pool.GetTimer" && len(ce.Args) == 1 {
				args = append(args, exprString(ce.Args[0]))
			}
			return true
		})
		// Ownership: the timer is taken by the secondary goroutine itself and
		// given back by a defer of that same goroutine, and nowhere else in
		// doFallback -- so no goroutine can still wait on a timer that is
		// back in the pool, and calls share no state through it.
		total := 0
		ast.Inspect(fd.Body, func(n ast.Node) bool {
			if ce, ok := n.(*ast.CallExpr); ok {
				if f := exprString(ce.Fun); f == "pool.GetTimer" || f == "pool.ReleaseTimer" {
					total++
				}
			}
			return true
		})
		deferred := 0
		for _, st := range sec.Body.List {
			if ds, ok := st.(*ast.DeferStmt); ok && exprString(ds.Call.Fun) == "pool.ReleaseTimer" {
				deferred++
			}
		}
		fmt.Fprintf(&o.buf, "Definition fallback_timer_owned_by_secondary : bool := %v. (* %s doFallback: pool.GetTimer and a deferred pool.ReleaseTimer inside the secondary goroutine and no other use of the pool in doFallback *)\n",
			len(args) == 1 && deferred == 1 && total == 2, file)
		if len(args) != 1 {
			o.missing("fallback_timer_arg", fmt.Sprintf("expected 1 pool.GetTimer call in the secondary goroutine, found %d", len(args)))
			return
		}
		fmt.Fprintf(&o.buf, "Definition fallback_timer_arg : string := \"%s\"%%string. (* %s doFallback secondary: argument of pool.GetTimer *)\n",
			strings.ReplaceAll(args[0], "\"", ""), file)
	}()
	if len(sels) != 2 {
		o.missing("fallback_wait_cases", fmt.Sprintf("expected 2 selects in the secondary goroutine, found %d", len(sels)))
		o.missing("fallback_hold_cases", fmt.Sprintf("expected 2 selects in the secondary goroutine, found %d", len(sels)))
		return
	}
	fmt.Fprintf(&o.buf, "Definition fallback_wait_cases : list string := %s. (* %s doFallback secondary: first select *)\n", cases(sels[0]), file)
	fmt.Fprintf(&o.buf, "Definition fallback_hold_cases : list string := %s. (* %s doFallback secondary: standby select *)\n", cases(sels[1]), file)
}

// genFallbackThreshold translates the statements of newFallbackPlugin that
// compute the value stored in fallback.fastFallbackDuration into a Gallina
// function of the configured args.Threshold (in Z, nanoseconds):
//
//	Definition fallback_effective_threshold (cfg : Z) : Z := (let threshold := ... in ... threshold)%Z.
//
// Understood: "x := e" / "x = e" at the top level of the function, and
// "if [t := e;] a OP b { x = e } [else { x = e }]"; expressions over
// args.Threshold, local variables, constants, conversions, + - *.
// Anything else is reported as MISSING (and the theorems that need the
// function no longer compile).
func genFallbackThreshold(o *out, pf *pfile, file string) {
	const coq = "fallback_effective_threshold"
	fd := funcDecl(pf, "newFallbackPlugin")
	if fd == nil {
		o.missing(coq, "func newFallbackPlugin not found in "+file)
		o.missing("fallback_standby_field_from", "func newFallbackPlugin not found in "+file)
		return
	}
	// the composite literal &fallback{...}: which expressions feed the two fields
	var thrExpr, sbExpr ast.Expr
	ast.Inspect(fd.Body, func(n ast.Node) bool {
		cl, ok := n.(*ast.CompositeLit)
		if !ok || exprString(cl.Type) != "fallback" {
			return true
		}
		for _, el := range cl.Elts {
			if kv, ok := el.(*ast.KeyValueExpr); ok {
				switch exprString(kv.Key) {
				case "fastFallbackDuration":
					thrExpr = kv.Value
				case "alwaysStandby":
					sbExpr = kv.Value
				}
			}
		}
		return false
	})
	if sbExpr == nil {
		o.missing("fallback_standby_field_from", "fallback{alwaysStandby: ...} not found")
	} else {
		fmt.Fprintf(&o.buf, "Definition fallback_standby_field_from : string := \"%s\"%%string. (* %s newFallbackPlugin: source of fallback.alwaysStandby *)\n", exprString(sbExpr), file)
	}
	if thrExpr == nil {
		o.missing(coq, "fallback{fastFallbackDuration: ...} not found")
		return
	}

	locals := map[string]bool{}
	var bad string
	fail := func(why string) string {
		if bad == "" {
			bad = why
		}
		return "0"
	}
	var tr func(e ast.Expr) string
	tr = func(e ast.Expr) string {
		c := &evalCtx{pf: pf, files: parseDir(filepath.Dir(pf.path)), scope: "newFallbackPlugin"}
		if id, ok := e.(*ast.Ident); ok && locals[id.Name] {
			return id.Name
		}
		if v, err := eval(c, e, 0); err == nil {
			if v.Sign() < 0 {
				return "(" + v.String() + ")"
			}
			return v.String()
		}
		switch x := e.(type) {
		case *ast.ParenExpr:
			return tr(x.X)
		case *ast.SelectorExpr:
			if exprString(x) == "args.Threshold" {
				return "cfg"
			}
			return fail("unsupported operand " + exprString(x))
		case *ast.CallExpr: // conversion
			if len(x.Args) == 1 {
				switch exprString(x.Fun) {
				case "time.Duration", "int64", "int":
					return tr(x.Args[0])
				}
			}
			return fail("unsupported call " + exprString(x))
		case *ast.BinaryExpr:
			op := map[token.Token]string{token.ADD: "+", token.SUB: "-", token.MUL: "*"}[x.Op]
			if op == "" {
				return fail("unsupported operator " + x.Op.String())
			}
			return "(" + tr(x.X) + " " + op + " " + tr(x.Y) + ")"
		case *ast.UnaryExpr:
			if x.Op == token.SUB {
				return "(- " + tr(x.X) + ")"
			}
		}
		return fail("unsupported expression " + exprString(e))
	}
	cond := func(e ast.Expr) string {
		be, ok := e.(*ast.BinaryExpr)
		if !ok {
			return fail("unsupported condition " + exprString(e))
		}
		a, b := tr(be.X), tr(be.Y)
		switch be.Op {
		case token.LEQ:
			return "(" + a + " <=? " + b + ")"
		case token.LSS:
			return "(" + a + " <? " + b + ")"
		case token.GTR:
			return "(" + a + " >? " + b + ")"
		case token.GEQ:
			return "(" + a + " >=? " + b + ")"
		case token.EQL:
			return "(" + a + " =? " + b + ")"
		case token.NEQ:
			return "(negb (" + a + " =? " + b + "))"
		}
		return fail("unsupported comparison " + be.Op.String())
	}
	// x := e / x = e with a single plain identifier on the left
	assign := func(s ast.Stmt) (string, ast.Expr, bool) {
		as, ok := s.(*ast.AssignStmt)
		if !ok || len(as.Lhs) != 1 || len(as.Rhs) != 1 || (as.Tok != token.DEFINE && as.Tok != token.ASSIGN) {
			return "", nil, false
		}
		id, ok := as.Lhs[0].(*ast.Ident)
		if !ok {
			return "", nil, false
		}
		return id.Name, as.Rhs[0], true
	}
	// which variable ends up in the field
	target, ok := thrExpr.(*ast.Ident)
	if !ok {
		o.missing(coq, "fastFallbackDuration is not set from a local variable: "+exprString(thrExpr))
		return
	}
	// variables the target depends on, found by one backward pass over the function's statements
	relevant := map[string]bool{target.Name: true}
	mentions := func(n ast.Node) {
		ast.Inspect(n, func(m ast.Node) bool {
			if id, ok := m.(*ast.Ident); ok {
				relevant[id.Name] = true
			}
			return true
		})
	}
	writes := func(s ast.Stmt) []string {
		var out []string
		if name, _, ok := assign(s); ok {
			out = append(out, name)
		}
		if is, ok := s.(*ast.IfStmt); ok {
			for _, b := range is.Body.List {
				if name, _, ok := assign(b); ok {
					out = append(out, name)
				}
			}
			if eb, ok := is.Else.(*ast.BlockStmt); ok {
				for _, b := range eb.List {
					if name, _, ok := assign(b); ok {
						out = append(out, name)
					}
				}
			}
		}
		return out
	}
	var keep []ast.Stmt
	for i := len(fd.Body.List) - 1; i >= 0; i-- {
		s := fd.Body.List[i]
		hit := false
		for _, w := range writes(s) {
			if relevant[w] && w != "err" {
				hit = true
			}
		}
		if hit {
			keep = append([]ast.Stmt{s}, keep...)
			mentions(s)
		}
	}
	var lets []string
	for _, s := range keep {
		if name, rhs, ok := assign(s); ok {
			lets = append(lets, fmt.Sprintf("let %s := %s in", name, tr(rhs)))
			locals[name] = true
			continue
		}
		is := s.(*ast.IfStmt)
		if is.Init != nil {
			name, rhs, ok := assign(is.Init)
			if !ok {
				fail("unsupported if-initialiser")
				continue
			}
			lets = append(lets, fmt.Sprintf("let %s := %s in", name, tr(rhs)))
			locals[name] = true
		}
		c := cond(is.Cond)
		branch := func(blk *ast.BlockStmt) (string, string) {
			if blk == nil || len(blk.List) != 1 {
				fail("if-branch is not a single assignment")
				return "", "0"
			}
			name, rhs, ok := assign(blk.List[0])
			if !ok {
				fail("if-branch is not a single assignment")
				return "", "0"
			}
			return name, tr(rhs)
		}
		name, thenV := branch(is.Body)
		elseV := name
		if is.Else != nil {
			eb, ok := is.Else.(*ast.BlockStmt)
			if !ok {
				fail("else-if is not supported")
				continue
			}
			n2, v2 := branch(eb)
			if n2 != name {
				fail("if/else assign different variables")
			}
			elseV = v2
		}
		if !locals[name] {
			fail("assignment to " + name + " before its definition")
		}
		lets = append(lets, fmt.Sprintf("let %s := if %s then %s else %s in", name, c, thenV, elseV))
	}
	if !locals[target.Name] {
		fail("no definition of " + target.Name + " found")
	}
	if bad != "" {
		o.missing(coq, bad)
		return
	}
	fmt.Fprintf(&o.buf, "Definition %s (cfg : Z) : Z := (%s %s)%%Z. (* %s newFallbackPlugin: fallback.fastFallbackDuration in ns as a function of args.Threshold *)\n",
		coq, strings.Join(lets, " "), target.Name, file)
}
