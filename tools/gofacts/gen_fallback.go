package main

import (
	"fmt"
	"go/ast"
	"go/token"
	"math/big"
	"path/filepath"
	"strings"
)

// Structural facts about plugin/executable/sequence/fallback/fallback.go
// doFallback that Model/Fallback.v depends on (property C20):
//   - the order of the primary goroutine's two statements on success
//     (respChan <- r relative to close(primDone)),
//   - the capacity of respChan and the number of collection rounds,
//   - the channel operands of the secondary goroutine's two selects.
func init() {
	register(generator{file: "FallbackFacts.v", title: "Statement order, channel capacity and select cases of fallback.doFallback.", run: genFallback})
}

func genFallback(o *out) {
	const file = "plugin/executable/sequence/fallback/fallback.go"
	names := []string{"fallback_send_before_done", "fallback_fail_close_before_send", "fallback_chan_cap",
		"fallback_collect_rounds", "fallback_wait_cases", "fallback_hold_cases"}
	fail := func(why string) {
		for _, n := range names {
			o.missing(n, why)
		}
	}
	pf, err := parseFile(filepath.Join(repo, file))
	if err != nil {
		fail(err.Error())
		return
	}
	fd := funcDeclRecv(pf, "fallback", "doFallback")
	if fd == nil {
		fail("func doFallback not found in " + file)
		return
	}

	// the goroutines started directly by doFallback, in source order
	var gos []*ast.FuncLit
	for _, st := range fd.Body.List {
		if g, ok := st.(*ast.GoStmt); ok {
			if fl, ok := g.Call.Fun.(*ast.FuncLit); ok {
				gos = append(gos, fl)
			}
		}
	}
	if len(gos) != 2 {
		fail(fmt.Sprintf("expected 2 goroutines in doFallback, found %d", len(gos)))
		return
	}
	prim, sec := gos[0], gos[1]

	isClose := func(s ast.Stmt, ch string) bool {
		es, ok := s.(*ast.ExprStmt)
		if !ok {
			return false
		}
		ce, ok := es.X.(*ast.CallExpr)
		if !ok || exprString(ce.Fun) != "close" || len(ce.Args) != 1 {
			return false
		}
		return exprString(ce.Args[0]) == ch
	}
	isSend := func(s ast.Stmt, ch string, wantNil bool) bool {
		ss, ok := s.(*ast.SendStmt)
		if !ok || exprString(ss.Chan) != ch {
			return false
		}
		return (exprString(ss.Value) == "nil") == wantNil
	}
	// position of the first statement in blk satisfying f (-1 = absent)
	find := func(blk *ast.BlockStmt, f func(ast.Stmt) bool) int {
		for i, s := range blk.List {
			if f(s) {
				return i
			}
		}
		return -1
	}

	// primary: the if/else that signals the result
	var sig *ast.IfStmt
	for _, s := range prim.Body.List {
		if is, ok := s.(*ast.IfStmt); ok {
			if eb, ok := is.Else.(*ast.BlockStmt); ok {
				if find(eb, func(s ast.Stmt) bool { return isClose(s, "primDone") }) >= 0 {
					sig = is
				}
			}
		}
	}
	if sig == nil {
		o.missing("fallback_send_before_done", "primary goroutine: if/else closing primDone not found")
		o.missing("fallback_fail_close_before_send", "primary goroutine: if/else closing primDone not found")
	} else {
		eb := sig.Else.(*ast.BlockStmt)
		iSend := find(eb, func(s ast.Stmt) bool { return isSend(s, "respChan", false) })
		iDone := find(eb, func(s ast.Stmt) bool { return isClose(s, "primDone") })
		if iSend < 0 || iDone < 0 {
			o.missing("fallback_send_before_done", "success branch: respChan <- r or close(primDone) not found")
		} else {
			fmt.Fprintf(&o.buf, "Definition fallback_send_before_done : bool := %v. (* %s doFallback primary: respChan <- r is statement %d, close(primDone) statement %d of the success branch *)\n",
				iSend < iDone, file, iSend, iDone)
		}
		iNil := find(sig.Body, func(s ast.Stmt) bool { return isSend(s, "respChan", true) })
		iFail := find(sig.Body, func(s ast.Stmt) bool { return isClose(s, "primFailed") })
		if iNil < 0 || iFail < 0 {
			o.missing("fallback_fail_close_before_send", "failure branch: respChan <- nil or close(primFailed) not found")
		} else {
			fmt.Fprintf(&o.buf, "Definition fallback_fail_close_before_send : bool := %v. (* %s doFallback primary: failure branch *)\n",
				iFail < iNil, file)
		}
	}

	// respChan := make(chan *dns.Msg, N)
	func() {
		var val *big.Int
		for _, s := range fd.Body.List {
			as, ok := s.(*ast.AssignStmt)
			if !ok || len(as.Lhs) != 1 || len(as.Rhs) != 1 || exprString(as.Lhs[0]) != "respChan" {
				continue
			}
			ce, ok := as.Rhs[0].(*ast.CallExpr)
			if !ok || exprString(ce.Fun) != "make" {
				continue
			}
			if len(ce.Args) == 1 {
				val = big.NewInt(0)
			} else if len(ce.Args) == 2 {
				c := &evalCtx{pf: pf, files: parseDir(filepath.Dir(pf.path)), scope: "doFallback"}
				if v, err := eval(c, ce.Args[1], 0); err == nil {
					val = v
				}
			}
		}
		if val == nil {
			o.missing("fallback_chan_cap", "respChan := make(chan, n) not found")
			return
		}
		o.defN("fallback_chan_cap", val, file+" doFallback: capacity of respChan")
	}()

	// for i := 0; i < N; i++ { select ... }
	func() {
		var val *big.Int
		for _, s := range fd.Body.List {
			fs, ok := s.(*ast.ForStmt)
			if !ok {
				continue
			}
			be, ok := fs.Cond.(*ast.BinaryExpr)
			if !ok || be.Op != token.LSS {
				continue
			}
			c := &evalCtx{pf: pf, files: parseDir(filepath.Dir(pf.path)), scope: "doFallback"}
			if v, err := eval(c, be.Y, 0); err == nil {
				val = v
			}
		}
		if val == nil {
			o.missing("fallback_collect_rounds", "collection loop bound not found")
			return
		}
		o.defN("fallback_collect_rounds", val, file+" doFallback: rounds of the collection loop")
	}()

	// secondary: the two selects, their receive operands in source order
	var sels []*ast.SelectStmt
	ast.Inspect(sec.Body, func(n ast.Node) bool {
		if s, ok := n.(*ast.SelectStmt); ok {
			sels = append(sels, s)
		}
		return true
	})
	cases := func(s *ast.SelectStmt) string {
		var it []string
		for _, c := range s.Body.List {
			cc := c.(*ast.CommClause)
			op := "default"
			if cc.Comm != nil {
				op = "?"
				switch x := cc.Comm.(type) {
				case *ast.ExprStmt:
					if u, ok := x.X.(*ast.UnaryExpr); ok && u.Op == token.ARROW {
						op = exprString(u.X)
					}
				case *ast.AssignStmt:
					if len(x.Rhs) == 1 {
						if u, ok := x.Rhs[0].(*ast.UnaryExpr); ok && u.Op == token.ARROW {
							op = exprString(u.X)
						}
					}
				case *ast.SendStmt:
					op = "send " + exprString(x.Chan)
				}
			}
			// does the case leave the goroutine?
			for _, b := range cc.Body {
				if _, ok := b.(*ast.ReturnStmt); ok {
					op += " return"
				}
			}
			it = append(it, "\""+strings.ReplaceAll(op, "\"", "")+"\"%string")
		}
		return "[" + strings.Join(it, "; ") + "]"
	}
	if len(sels) != 2 {
		o.missing("fallback_wait_cases", fmt.Sprintf("expected 2 selects in the secondary goroutine, found %d", len(sels)))
		o.missing("fallback_hold_cases", fmt.Sprintf("expected 2 selects in the secondary goroutine, found %d", len(sels)))
		return
	}
	fmt.Fprintf(&o.buf, "Definition fallback_wait_cases : list string := %s. (* %s doFallback secondary: first select *)\n", cases(sels[0]), file)
	fmt.Fprintf(&o.buf, "Definition fallback_hold_cases : list string := %s. (* %s doFallback secondary: standby select *)\n", cases(sels[1]), file)
}
