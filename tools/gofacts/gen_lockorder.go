package main

import (
	"fmt"
	"go/ast"
	"go/token"
	"path/filepath"
	"sort"
	"strconv"
	"strings"
)

// Lock ORDER (nesting) table of pkg/upstream/transport -> Gen/LockOrderFacts.v
//
// Purely syntactic, conservative and deterministic. Input: every non-test .go
// file of the directory that is not guarded by a "//go:build ... verif ..."
// line and whose name does not start with zz_verif.
//
// 1. Lock classes. Every struct field of the package whose type is sync.Mutex,
//    sync.RWMutex or sync.Once is a class "Struct.field" (an embedded one is
//    "Struct.Mutex" etc.). A type defined from another type of the package
//    ("type tdcOneTimeExchanger TraditionalDnsConn") shares the classes of the
//    struct it is defined from. A local variable of such a type is the class
//    "Func.var", a package variable "global.var", an element of a slice / map
//    of locks "<class>[]"; those are added to lock_classes when they are used.
//
// 2. Every function / method body is walked in statement order with the set
//    of HELD classes:
//
//    X.Lock() X.RLock() (also TryLock / TryRLock)
//        edge (h, K, site) for every held h; K becomes held
//    X.Unlock() X.RUnlock()
//        K is no longer held
//    defer X.Unlock()
//        K stays held to the end of the body
//    X.Do(func(){BODY}), X a sync.Once class K
//        edges (h, K); BODY is walked with held + {K}; held is unchanged
//        afterwards. X.Do(f) with f a function or method of the package: as a
//        call of f with held + {K}
//    if / for / range / switch / select / block
//        init, condition, tag and range expressions are walked with held
//        itself; every branch / body with a COPY; afterwards held is what it
//        was before the branches (branches are assumed balanced or
//        terminating, e.g. "if closed { mu.Unlock(); return }")
//    go f(args) / go func(){..}()
//        operands with held; the literal's body with EMPTY held; the call is
//        not followed and does not enter the enclosing function's summary
//    defer func(){..}() / func(){..}()
//        body walked with a copy of held
//    f := func(){..}; ...; f()
//        the literal is walked at the call with a copy of held
//    any other function literal (assigned, passed, returned)
//        walked once where it is written, with EMPTY held; what it acquires
//        enters the enclosing function's summary
//    R.meth(args), fn(args) resolved to a declaration of the package
//        edge (h, L, "caller>callee") for every held h and every class L in
//        the callee's MAY-ACQUIRE summary. Summaries are the least fixpoint
//        of: classes locked in the body (outside go statements) + summaries
//        of resolved calls. The callee's inner edges come from walking the
//        callee itself.
//    call through an interface-typed expression (interface declared in the
//    package, or one of the standard interfaces in loStdIfaces)
//        as a call of that method on EVERY non-interface type of the package
//        whose method names include all methods of the interface (embedded
//        interfaces of other packages that are not in loStdIfaces: the
//        explicitly listed methods plus the called one). Sites of such
//        edges, and of edges that reach L only through such a dispatch
//        further down the call chain, end in "~iface".
//    calls of anything else (other packages, function-typed fields / params)
//        are ignored.
//
// 3. Types are resolved syntactically: receiver, parameters, named results,
//    struct field chains (also promoted through embedded structs), "x := e",
//    "var x T", "x, y := f()" (declared results of package functions, methods,
//    interface methods, function-typed fields, literals), conversions T(x) /
//    (*T)(x), &T{..}, T{..}, make/new/append, index, slice, <-ch, x.(T), type
//    switches, "for k, v := range X" over maps / slices / channels, package
//    variables, function-local type declarations. Pointers are stripped.
//    Scopes are lexical. Anything else is unknown.
//
// 4. lock_unresolved lists "file:func:expr" for
//    - Lock/RLock/TryLock/TryRLock/Unlock/RUnlock() calls with no argument
//      whose receiver has a sync type that cannot be named as a class, or
//      whose receiver's type is unknown altogether;
//    - X.Do(func(){..}) whose receiver's type is unknown;
//    - "file:func:returns holding K": the straight-line path of a body ends
//      with K locked and no deferred unlock (a lock handed to the caller
//      would make the caller's held set wrong).
//
// Output: sorted, without positions. Edges are unique per (outer, inner); the
// site kept is the alphabetically first one NOT ending in "~iface" if there is
// one, else the alphabetically first. Self edges (K, K) are kept.
//
// Not covered: sync.Cond, sync.WaitGroup.Wait, channel operations; locks of
// other packages; a function literal passed as an argument is not assumed to
// be run by the callee under the caller's locks.
//
// (This comment is deliberately detached from the declaration below so that
// gofmt leaves its layout alone.)

func init() {
	register(generator{file: "LockOrderFacts.v", title: "Lock order (which lock may be acquired while which is held) of pkg/upstream/transport.", run: genLockOrder})
}

const loPkgDir = "pkg/upstream/transport"

var loSyncTypes = map[string]bool{"sync.Mutex": true, "sync.RWMutex": true, "sync.Once": true}

// Method sets of interfaces of other packages that may be embedded in, or used
// beside, the package's own interfaces.
var loStdIfaces = map[string][]string{
	"io.Reader":          {"Read"},
	"io.Writer":          {"Write"},
	"io.Closer":          {"Close"},
	"io.ReadWriter":      {"Read", "Write"},
	"io.ReadCloser":      {"Read", "Close"},
	"io.WriteCloser":     {"Write", "Close"},
	"io.ReadWriteCloser": {"Read", "Write", "Close"},
	"net.Conn":           {"Read", "Write", "Close", "LocalAddr", "RemoteAddr", "SetDeadline", "SetReadDeadline", "SetWriteDeadline"},
	"net.PacketConn":     {"ReadFrom", "WriteTo", "Close", "LocalAddr", "SetDeadline", "SetReadDeadline", "SetWriteDeadline"},
	"context.Context":    {"Deadline", "Done", "Err", "Value"},
	"fmt.Stringer":       {"String"},
}

// ---------- types ----------

type loKind int

const (
	loNamed  loKind = iota // type declared in the package or locally in a function
	loSync                 // sync.Mutex / sync.RWMutex / sync.Once
	loExt                  // pkg.Name of another package
	loMap                  // key, elem
	loSlice                // elem (slices, arrays, variadic parameters)
	loChan                 // elem
	loFunc                 // fn
	loStruct               // anonymous struct, st
)

type loType struct {
	kind      loKind
	name      string
	spec      *ast.TypeSpec   // loNamed
	sc        *loScope        // scope in which inner type expressions are resolved (nil = package)
	key, elem *loType         // loMap / loSlice / loChan
	fn        *ast.FuncType   // loFunc
	st        *ast.StructType // loStruct
}

// ---------- lexical scopes ----------

type loClosure struct {
	lit *ast.FuncLit
	sc  *loScope
}

type loVar struct {
	t    *loType // nil = unknown
	lits []loClosure
}

type loScope struct {
	parent *loScope
	vars   map[string]*loVar
	types  map[string]*ast.TypeSpec
}

func (s *loScope) child() *loScope {
	return &loScope{parent: s, vars: map[string]*loVar{}, types: map[string]*ast.TypeSpec{}}
}

func (s *loScope) lookupVar(name string) *loVar {
	for ; s != nil; s = s.parent {
		if v, ok := s.vars[name]; ok {
			return v
		}
	}
	return nil
}

func (s *loScope) lookupType(name string) (*ast.TypeSpec, *loScope) {
	for ; s != nil; s = s.parent {
		if t, ok := s.types[name]; ok {
			return t, s
		}
	}
	return nil, nil
}

// define declares name in s. ":=" on a name of the same scope is an assignment.
func (s *loScope) define(name string, t *loType) *loVar {
	if name == "_" || name == "" {
		return &loVar{}
	}
	if v, ok := s.vars[name]; ok {
		return v
	}
	v := &loVar{t: t}
	s.vars[name] = v
	return v
}

// ---------- package model ----------

type loFn struct {
	name string // "Recv.method" or "func"
	file string
	decl *ast.FuncDecl
	acq  map[string]int // may-acquire summary: 2 = on a path without interface dispatch, 1 = only through one
}

type loAnalysis struct {
	types      map[string]*ast.TypeSpec
	funcs      map[string]*loFn
	methods    map[string]map[string]*loFn
	globals    map[string]*ast.ValueSpec
	globalBusy map[string]bool
	imports    map[string]bool
	all        []*loFn

	classes    map[string]bool
	edges      map[[2]string]string
	unresolved map[string]bool
}

func loUnparen(e ast.Expr) ast.Expr {
	for {
		p, ok := e.(*ast.ParenExpr)
		if !ok {
			return e
		}
		e = p.X
	}
}

// loBaseName is the field name of an embedded field of type e.
func loBaseName(e ast.Expr) string {
	switch x := e.(type) {
	case *ast.Ident:
		return x.Name
	case *ast.StarExpr:
		return loBaseName(x.X)
	case *ast.ParenExpr:
		return loBaseName(x.X)
	case *ast.SelectorExpr:
		return x.Sel.Name
	case *ast.IndexExpr:
		return loBaseName(x.X)
	case *ast.IndexListExpr:
		return loBaseName(x.X)
	}
	return ""
}

func (a *loAnalysis) resolveType(e ast.Expr, sc *loScope) *loType {
	switch x := e.(type) {
	case *ast.ParenExpr:
		return a.resolveType(x.X, sc)
	case *ast.StarExpr:
		return a.resolveType(x.X, sc)
	case *ast.Ident:
		if ts, dsc := sc.lookupType(x.Name); ts != nil {
			return &loType{kind: loNamed, name: x.Name, spec: ts, sc: dsc}
		}
		if ts := a.types[x.Name]; ts != nil {
			return &loType{kind: loNamed, name: x.Name, spec: ts}
		}
	case *ast.SelectorExpr:
		s := exprString(x)
		if loSyncTypes[s] {
			return &loType{kind: loSync, name: s}
		}
		return &loType{kind: loExt, name: s}
	case *ast.MapType:
		return &loType{kind: loMap, key: a.resolveType(x.Key, sc), elem: a.resolveType(x.Value, sc)}
	case *ast.ArrayType:
		return &loType{kind: loSlice, elem: a.resolveType(x.Elt, sc)}
	case *ast.Ellipsis:
		return &loType{kind: loSlice, elem: a.resolveType(x.Elt, sc)}
	case *ast.ChanType:
		return &loType{kind: loChan, elem: a.resolveType(x.Value, sc)}
	case *ast.FuncType:
		return &loType{kind: loFunc, fn: x, sc: sc}
	case *ast.StructType:
		return &loType{kind: loStruct, st: x, sc: sc}
	case *ast.IndexExpr: // generic instantiation
		return a.resolveType(x.X, sc)
	case *ast.IndexListExpr:
		return a.resolveType(x.X, sc)
	}
	return nil
}

// under follows "type A B" definitions down to a struct, an interface or a
// composite type. For "type A B" with B a struct type of the package the
// result is B (so A's lock fields are B's classes).
func (a *loAnalysis) under(t *loType) *loType {
	for i := 0; t != nil && t.kind == loNamed && i < 20; i++ {
		switch t.spec.Type.(type) {
		case *ast.StructType, *ast.InterfaceType:
			return t
		}
		t = a.resolveType(t.spec.Type, t.sc)
	}
	return t
}

func (a *loAnalysis) structOf(t *loType) (owner string, st *ast.StructType, sc *loScope) {
	u := a.under(t)
	if u == nil {
		return "", nil, nil
	}
	switch u.kind {
	case loNamed:
		if s, ok := u.spec.Type.(*ast.StructType); ok {
			return u.name, s, u.sc
		}
	case loStruct:
		return "", u.st, u.sc
	}
	return "", nil, nil
}

func (a *loAnalysis) ifaceOf(t *loType) (*loType, *ast.InterfaceType) {
	u := a.under(t)
	if u != nil && u.kind == loNamed {
		if it, ok := u.spec.Type.(*ast.InterfaceType); ok {
			return u, it
		}
	}
	return nil, nil
}

// fieldOf finds field name of struct type t (also promoted through embedded
// structs). owner is the name of the struct that declares the field.
func (a *loAnalysis) fieldOf(t *loType, name string, depth int) (ft *loType, owner string, ok bool) {
	owner, st, sc := a.structOf(t)
	if st == nil || depth > 4 {
		return nil, "", false
	}
	for _, f := range st.Fields.List {
		if len(f.Names) == 0 && loBaseName(f.Type) == name {
			return a.resolveType(f.Type, sc), owner, true
		}
		for _, n := range f.Names {
			if n.Name == name {
				return a.resolveType(f.Type, sc), owner, true
			}
		}
	}
	for _, f := range st.Fields.List {
		if len(f.Names) == 0 {
			if ft, o, ok := a.fieldOf(a.resolveType(f.Type, sc), name, depth+1); ok {
				return ft, o, true
			}
		}
	}
	return nil, "", false
}

// embeddedSync finds an embedded sync.Mutex / RWMutex / Once of struct type t.
func (a *loAnalysis) embeddedSync(t *loType, depth int) string {
	owner, st, sc := a.structOf(t)
	if st == nil || depth > 4 {
		return ""
	}
	for _, f := range st.Fields.List {
		if len(f.Names) == 0 && loSyncTypes[exprString(f.Type)] && owner != "" {
			return owner + "." + loBaseName(f.Type)
		}
	}
	for _, f := range st.Fields.List {
		if len(f.Names) == 0 {
			if c := a.embeddedSync(a.resolveType(f.Type, sc), depth+1); c != "" {
				return c
			}
		}
	}
	return ""
}

// ifaceMethods enumerates the methods of interface type t. complete is false
// when an embedded interface could not be enumerated.
func (a *loAnalysis) ifaceMethods(t *loType, depth int) (ms map[string]*loType, complete bool) {
	ms = map[string]*loType{}
	if t == nil || depth > 6 {
		return ms, false
	}
	if t.kind == loExt {
		names, ok := loStdIfaces[t.name]
		for _, n := range names {
			ms[n] = nil
		}
		return ms, ok
	}
	u, it := a.ifaceOf(t)
	if it == nil {
		return ms, false
	}
	complete = true
	for _, f := range it.Methods.List {
		if len(f.Names) > 0 {
			for _, n := range f.Names {
				ms[n.Name] = a.resolveType(f.Type, u.sc) // loFunc
			}
			continue
		}
		switch x := f.Type.(type) {
		case *ast.Ident:
			if x.Name == "error" {
				ms["Error"] = nil
				continue
			}
			if x.Name == "any" || x.Name == "comparable" {
				continue
			}
		case *ast.BinaryExpr, *ast.UnaryExpr: // type sets of constraints
			continue
		}
		sub, c := a.ifaceMethods(a.resolveType(f.Type, u.sc), depth+1)
		for n, ft := range sub {
			ms[n] = ft
		}
		complete = complete && c
	}
	return ms, complete
}

func (a *loAnalysis) isIface(t *loType) bool {
	if t == nil {
		return false
	}
	if t.kind == loExt {
		_, ok := loStdIfaces[t.name]
		return ok
	}
	_, it := a.ifaceOf(t)
	return it != nil
}

// methodNames: declared methods of named type tn plus those promoted from
// embedded struct types of the package.
func (a *loAnalysis) methodNames(tn string, depth int, into map[string]bool) {
	for n := range a.methods[tn] {
		into[n] = true
	}
	ts := a.types[tn]
	if ts == nil || depth > 4 {
		return
	}
	_, st, _ := a.structOf(&loType{kind: loNamed, name: tn, spec: ts})
	if st == nil {
		return
	}
	for _, f := range st.Fields.List {
		if len(f.Names) == 0 {
			if et := a.resolveType(f.Type, nil); et != nil && et.kind == loNamed {
				a.methodNames(et.name, depth+1, into)
			}
		}
	}
}

type loTarget struct {
	fn    *loFn
	iface bool
}

// concreteMethod: method name of non-interface type t (declared, or promoted
// through embedded fields of the underlying struct).
func (a *loAnalysis) concreteMethod(t *loType, name string, depth int) []loTarget {
	if t == nil || t.kind != loNamed || depth > 4 {
		return nil
	}
	if t.sc == nil {
		if m := a.methods[t.name][name]; m != nil {
			return []loTarget{{fn: m}}
		}
	}
	_, st, sc := a.structOf(t)
	if st == nil {
		return nil
	}
	for _, f := range st.Fields.List {
		if len(f.Names) == 0 {
			if r := a.callTargets(a.resolveType(f.Type, sc), name, depth+1); len(r) > 0 {
				return r
			}
		}
	}
	return nil
}

// callTargets: the declarations t.name(...) may run.
func (a *loAnalysis) callTargets(t *loType, name string, depth int) []loTarget {
	if t == nil {
		return nil
	}
	if !a.isIface(t) {
		return a.concreteMethod(t, name, depth)
	}
	ms, _ := a.ifaceMethods(t, 0) // incomplete: listed methods + the called one
	need := map[string]bool{name: true}
	for n := range ms {
		need[n] = true
	}
	var tns []string
	for tn := range a.types {
		tns = append(tns, tn)
	}
	sort.Strings(tns)
	var out []loTarget
	for _, tn := range tns {
		ct := &loType{kind: loNamed, name: tn, spec: a.types[tn]}
		if a.isIface(ct) {
			continue
		}
		have := map[string]bool{}
		a.methodNames(tn, 0, have)
		ok := true
		for n := range need {
			ok = ok && have[n]
		}
		if !ok {
			continue
		}
		for _, r := range a.concreteMethod(ct, name, 0) {
			out = append(out, loTarget{fn: r.fn, iface: true})
		}
	}
	return out
}

func (a *loAnalysis) funcResults(ft *ast.FuncType, sc *loScope) []*loType {
	var out []*loType
	if ft == nil || ft.Results == nil {
		return nil
	}
	for _, f := range ft.Results.List {
		n := len(f.Names)
		if n == 0 {
			n = 1
		}
		for i := 0; i < n; i++ {
			out = append(out, a.resolveType(f.Type, sc))
		}
	}
	return out
}

func (a *loAnalysis) globalType(name string) *loType {
	vs := a.globals[name]
	if vs == nil || a.globalBusy[name] {
		return nil
	}
	a.globalBusy[name] = true
	defer delete(a.globalBusy, name)
	if vs.Type != nil {
		return a.resolveType(vs.Type, nil)
	}
	for i, n := range vs.Names {
		if n.Name == name && len(vs.Values) == len(vs.Names) {
			return a.typeOf(vs.Values[i], nil)
		}
	}
	return nil
}

// isPkgName: id is the name of an imported package (not a variable).
func (a *loAnalysis) isPkgName(id *ast.Ident, sc *loScope) bool {
	return a.imports[id.Name] && sc.lookupVar(id.Name) == nil && a.globals[id.Name] == nil
}

// isTypeExpr: e in call position is a conversion's type.
func (a *loAnalysis) isTypeExpr(e ast.Expr, sc *loScope) bool {
	switch x := loUnparen(e).(type) {
	case *ast.StarExpr:
		return a.isTypeExpr(x.X, sc)
	case *ast.Ident:
		if sc.lookupVar(x.Name) != nil {
			return false
		}
		if ts, _ := sc.lookupType(x.Name); ts != nil {
			return true
		}
		return a.types[x.Name] != nil
	case *ast.ArrayType, *ast.MapType, *ast.ChanType, *ast.FuncType, *ast.InterfaceType, *ast.StructType:
		return true
	}
	return false
}

// typesOfCall: the result types of a call (or the type of a conversion).
func (a *loAnalysis) typesOfCall(c *ast.CallExpr, sc *loScope) []*loType {
	fun := loUnparen(c.Fun)
	if a.isTypeExpr(fun, sc) {
		return []*loType{a.resolveType(fun, sc)}
	}
	if ix, ok := fun.(*ast.IndexExpr); ok { // f[T](..)
		if _, isId := ix.X.(*ast.Ident); isId {
			fun = ix.X
		}
	}
	switch x := fun.(type) {
	case *ast.Ident:
		if v := sc.lookupVar(x.Name); v != nil {
			if v.t != nil && v.t.kind == loFunc {
				return a.funcResults(v.t.fn, v.t.sc)
			}
			return nil
		}
		if f := a.funcs[x.Name]; f != nil {
			return a.funcResults(f.decl.Type, nil)
		}
		switch x.Name {
		case "make", "new":
			if len(c.Args) > 0 {
				return []*loType{a.resolveType(c.Args[0], sc)}
			}
		case "append":
			if len(c.Args) > 0 {
				return []*loType{a.typeOf(c.Args[0], sc)}
			}
		}
		if t := a.globalType(x.Name); t != nil && t.kind == loFunc {
			return a.funcResults(t.fn, t.sc)
		}
	case *ast.SelectorExpr:
		if id, ok := x.X.(*ast.Ident); ok && a.isPkgName(id, sc) {
			return nil
		}
		t := a.typeOf(x.X, sc)
		if t == nil {
			return nil
		}
		if a.isIface(t) {
			ms, _ := a.ifaceMethods(t, 0)
			if ft := ms[x.Sel.Name]; ft != nil && ft.kind == loFunc {
				return a.funcResults(ft.fn, ft.sc)
			}
			return nil
		}
		if r := a.concreteMethod(t, x.Sel.Name, 0); len(r) > 0 {
			return a.funcResults(r[0].fn.decl.Type, nil)
		}
		if ft, _, ok := a.fieldOf(t, x.Sel.Name, 0); ok && ft != nil && ft.kind == loFunc {
			return a.funcResults(ft.fn, ft.sc)
		}
	case *ast.FuncLit:
		return a.funcResults(x.Type, sc)
	}
	return nil
}

// typeOf: syntactic type of a single-valued expression; nil = unknown.
func (a *loAnalysis) typeOf(e ast.Expr, sc *loScope) *loType {
	switch x := e.(type) {
	case *ast.Ident:
		if v := sc.lookupVar(x.Name); v != nil {
			return v.t
		}
		return a.globalType(x.Name)
	case *ast.ParenExpr:
		return a.typeOf(x.X, sc)
	case *ast.StarExpr:
		return a.typeOf(x.X, sc)
	case *ast.UnaryExpr:
		switch x.Op {
		case token.AND:
			return a.typeOf(x.X, sc)
		case token.ARROW:
			if t := a.under(a.typeOf(x.X, sc)); t != nil && t.kind == loChan {
				return t.elem
			}
		}
	case *ast.SelectorExpr:
		if id, ok := x.X.(*ast.Ident); ok && a.isPkgName(id, sc) {
			return nil
		}
		if ft, _, ok := a.fieldOf(a.typeOf(x.X, sc), x.Sel.Name, 0); ok {
			return ft
		}
	case *ast.CallExpr:
		if r := a.typesOfCall(x, sc); len(r) == 1 {
			return r[0]
		}
	case *ast.CompositeLit:
		if x.Type != nil {
			return a.resolveType(x.Type, sc)
		}
	case *ast.IndexExpr:
		if t := a.under(a.typeOf(x.X, sc)); t != nil && (t.kind == loMap || t.kind == loSlice) {
			return t.elem
		}
	case *ast.SliceExpr:
		return a.typeOf(x.X, sc)
	case *ast.TypeAssertExpr:
		if x.Type != nil {
			return a.resolveType(x.Type, sc)
		}
	case *ast.FuncLit:
		return &loType{kind: loFunc, fn: x.Type, sc: sc}
	}
	return nil
}

// typesOfRhs: types for "a, b := rhs".
func (a *loAnalysis) typesOfRhs(lhs int, rhs []ast.Expr, sc *loScope) []*loType {
	out := make([]*loType, lhs)
	if len(rhs) == 1 && lhs > 1 {
		switch x := loUnparen(rhs[0]).(type) {
		case *ast.CallExpr:
			copy(out, a.typesOfCall(x, sc))
		default: // v, ok := m[k] / x.(T) / <-ch
			out[0] = a.typeOf(x, sc)
		}
		return out
	}
	for i := range out {
		if i < len(rhs) {
			out[i] = a.typeOf(rhs[i], sc)
		}
	}
	return out
}

// ---------- the walk ----------

// held: class -> true (locked, unlock still owed) / false (locked, unlock deferred)
type loHeld map[string]bool

func (h loHeld) copy() loHeld {
	c := loHeld{}
	for k, v := range h {
		c[k] = v
	}
	return c
}

func (h loHeld) sorted() []string {
	var ks []string
	for k := range h {
		ks = append(ks, k)
	}
	sort.Strings(ks)
	return ks
}

type loWalker struct {
	a    *loAnalysis
	fn   *loFn
	acq  map[string]int
	busy map[*ast.FuncLit]bool
}

func (a *loAnalysis) edge(outer, inner, site string) {
	k := [2]string{outer, inner}
	old, ok := a.edges[k]
	if !ok || loSiteLess(site, old) {
		a.edges[k] = site
	}
}

func loSiteLess(x, y string) bool {
	xi, yi := strings.HasSuffix(x, "~iface"), strings.HasSuffix(y, "~iface")
	if xi != yi {
		return yi
	}
	return x < y
}

func (w *loWalker) unresolved(what string) {
	w.a.unresolved[w.fn.file+":"+w.fn.name+":"+what] = true
}

func (w *loWalker) note(class string, level int, async bool) {
	if !async && w.acq[class] < level {
		w.acq[class] = level
	}
}

// acquire: class is locked here while held is held.
func (w *loWalker) acquire(class string, held loHeld, async bool) {
	w.a.classes[class] = true
	for _, h := range held.sorted() {
		w.a.edge(h, class, w.fn.name)
	}
	w.note(class, 2, async)
}

// apply: fn is called here while held is held.
func (w *loWalker) apply(t loTarget, held loHeld, async bool) {
	for class, level := range t.fn.acq {
		site := w.fn.name + ">" + t.fn.name
		if t.iface || level < 2 {
			site += "~iface"
			level = 1
		}
		for _, h := range held.sorted() {
			w.a.edge(h, class, site)
		}
		w.note(class, level, async)
	}
}

// className names the lock denoted by e (whose type is a sync type).
func (w *loWalker) className(e ast.Expr, sc *loScope) string {
	switch x := e.(type) {
	case *ast.ParenExpr:
		return w.className(x.X, sc)
	case *ast.StarExpr:
		return w.className(x.X, sc)
	case *ast.UnaryExpr:
		if x.Op == token.AND {
			return w.className(x.X, sc)
		}
	case *ast.IndexExpr:
		if c := w.className(x.X, sc); c != "" {
			return c + "[]"
		}
	case *ast.SelectorExpr:
		if id, ok := x.X.(*ast.Ident); ok && w.a.isPkgName(id, sc) {
			return ""
		}
		if _, owner, ok := w.a.fieldOf(w.a.typeOf(x.X, sc), x.Sel.Name, 0); ok && owner != "" {
			return owner + "." + x.Sel.Name
		}
	case *ast.Ident:
		if sc.lookupVar(x.Name) != nil {
			return w.fn.name + "." + x.Name
		}
		if w.a.globals[x.Name] != nil {
			return "global." + x.Name
		}
	}
	return ""
}

const (
	loNotLock    = iota // receiver is known not to be a sync lock
	loLockOK            // class resolved
	loLockUnres         // sync type (or unknown type), no class
	loLockUnknTy        // receiver's type unknown
)

// lockClass classifies the receiver x of x.meth() for meth a lock operation.
func (w *loWalker) lockClass(x ast.Expr, meth string, sc *loScope) (string, int) {
	if id, ok := x.(*ast.Ident); ok && w.a.isPkgName(id, sc) {
		return "", loNotLock
	}
	t := w.a.typeOf(x, sc)
	if t == nil {
		return "", loLockUnknTy
	}
	t = w.a.under(t)
	if t == nil {
		return "", loLockUnknTy
	}
	switch t.kind {
	case loSync:
		if c := w.className(x, sc); c != "" {
			return c, loLockOK
		}
		return "", loLockUnres
	case loExt:
		if strings.HasPrefix(t.name, "sync.") {
			return "", loLockUnres
		}
	case loNamed, loStruct:
		if len(w.a.callTargets(t, meth, 0)) == 0 && !w.a.isIface(t) {
			if c := w.a.embeddedSync(t, 0); c != "" {
				return c, loLockOK
			}
		}
	}
	return "", loNotLock
}

func (w *loWalker) bindFuncType(ft *ast.FuncType, sc *loScope) {
	bind := func(fl *ast.FieldList) {
		if fl == nil {
			return
		}
		for _, f := range fl.List {
			for _, n := range f.Names {
				sc.define(n.Name, w.a.resolveType(f.Type, sc))
			}
		}
	}
	bind(ft.Params)
	bind(ft.Results)
}

// body walks a function body. held is the caller's own copy.
func (w *loWalker) body(b *ast.BlockStmt, held loHeld, sc *loScope, async bool) {
	entry := held.copy()
	w.stmts(b.List, held, sc, async)
	for _, k := range held.sorted() {
		if _, was := entry[k]; !was && held[k] {
			w.unresolved("returns holding " + k)
		}
	}
}

func (w *loWalker) funcLit(lit *ast.FuncLit, held loHeld, defSc *loScope, async bool) {
	if w.busy[lit] { // recursive closure
		return
	}
	w.busy[lit] = true
	defer delete(w.busy, lit)
	sc := defSc.child()
	w.bindFuncType(lit.Type, sc)
	w.body(lit.Body, held, sc, async)
}

func (w *loWalker) stmts(list []ast.Stmt, held loHeld, sc *loScope, async bool) {
	for _, s := range list {
		w.stmt(s, held, sc, async)
	}
}

func (w *loWalker) exprs(list []ast.Expr, held loHeld, sc *loScope, async bool) {
	for _, e := range list {
		w.expr(e, held, sc, async)
	}
}

func (w *loWalker) stmt(s ast.Stmt, held loHeld, sc *loScope, async bool) {
	switch x := s.(type) {
	case nil:
	case *ast.ExprStmt:
		w.expr(x.X, held, sc, async)
	case *ast.SendStmt:
		w.expr(x.Chan, held, sc, async)
		w.expr(x.Value, held, sc, async)
	case *ast.IncDecStmt:
		w.expr(x.X, held, sc, async)
	case *ast.AssignStmt:
		w.exprs(x.Rhs, held, sc, async)
		w.exprs(x.Lhs, held, sc, async)
		var ts []*loType
		if x.Tok == token.DEFINE {
			ts = w.a.typesOfRhs(len(x.Lhs), x.Rhs, sc)
		}
		for i, l := range x.Lhs {
			id, ok := l.(*ast.Ident)
			if !ok {
				continue
			}
			var v *loVar
			if x.Tok == token.DEFINE {
				v = sc.define(id.Name, ts[i])
			} else {
				v = sc.lookupVar(id.Name)
			}
			if v != nil && len(x.Lhs) == len(x.Rhs) {
				if lit, ok := loUnparen(x.Rhs[i]).(*ast.FuncLit); ok {
					v.lits = append(v.lits, loClosure{lit: lit, sc: sc})
				}
			}
		}
	case *ast.DeclStmt:
		gd, ok := x.Decl.(*ast.GenDecl)
		if !ok {
			return
		}
		for _, sp := range gd.Specs {
			switch d := sp.(type) {
			case *ast.TypeSpec:
				sc.types[d.Name.Name] = d
			case *ast.ValueSpec:
				if gd.Tok != token.VAR {
					continue
				}
				w.exprs(d.Values, held, sc, async)
				ts := make([]*loType, len(d.Names))
				if d.Type != nil {
					for i := range ts {
						ts[i] = w.a.resolveType(d.Type, sc)
					}
				} else {
					ts = w.a.typesOfRhs(len(d.Names), d.Values, sc)
				}
				for i, n := range d.Names {
					v := sc.define(n.Name, ts[i])
					if len(d.Values) == len(d.Names) {
						if lit, ok := loUnparen(d.Values[i]).(*ast.FuncLit); ok {
							v.lits = append(v.lits, loClosure{lit: lit, sc: sc})
						}
					}
				}
			}
		}
	case *ast.ReturnStmt:
		w.exprs(x.Results, held, sc, async)
	case *ast.LabeledStmt:
		w.stmt(x.Stmt, held, sc, async)
	case *ast.BlockStmt:
		w.stmts(x.List, held.copy(), sc.child(), async)
	case *ast.IfStmt:
		isc := sc.child()
		w.stmt(x.Init, held, isc, async)
		w.expr(x.Cond, held, isc, async)
		w.stmts(x.Body.List, held.copy(), isc.child(), async)
		if x.Else != nil {
			w.stmt(x.Else, held.copy(), isc, async) // block or if: copies again, harmless
		}
	case *ast.ForStmt:
		fsc := sc.child()
		w.stmt(x.Init, held, fsc, async)
		w.expr(x.Cond, held, fsc, async)
		h := held.copy()
		w.stmts(x.Body.List, h, fsc.child(), async)
		w.stmt(x.Post, h, fsc, async)
	case *ast.RangeStmt:
		w.expr(x.X, held, sc, async)
		rsc := sc.child()
		if x.Tok == token.DEFINE {
			var kt, vt *loType
			if t := w.a.under(w.a.typeOf(x.X, sc)); t != nil {
				switch t.kind {
				case loMap:
					kt, vt = t.key, t.elem
				case loSlice:
					vt = t.elem
				case loChan:
					kt = t.elem
				}
			}
			if id, ok := x.Key.(*ast.Ident); ok {
				rsc.define(id.Name, kt)
			}
			if id, ok := x.Value.(*ast.Ident); ok {
				rsc.define(id.Name, vt)
			}
		}
		w.stmts(x.Body.List, held.copy(), rsc.child(), async)
	case *ast.SwitchStmt:
		ssc := sc.child()
		w.stmt(x.Init, held, ssc, async)
		w.expr(x.Tag, held, ssc, async)
		for _, c := range x.Body.List {
			cc := c.(*ast.CaseClause)
			h := held.copy()
			w.exprs(cc.List, h, ssc, async)
			w.stmts(cc.Body, h, ssc.child(), async)
		}
	case *ast.TypeSwitchStmt:
		ssc := sc.child()
		w.stmt(x.Init, held, ssc, async)
		bind := ""
		var subj ast.Expr
		switch as := x.Assign.(type) {
		case *ast.AssignStmt:
			if id, ok := as.Lhs[0].(*ast.Ident); ok {
				bind = id.Name
			}
			subj = as.Rhs[0]
		case *ast.ExprStmt:
			subj = as.X
		}
		if ta, ok := loUnparen(subj).(*ast.TypeAssertExpr); ok {
			subj = ta.X
		}
		w.expr(subj, held, ssc, async)
		for _, c := range x.Body.List {
			cc := c.(*ast.CaseClause)
			csc := ssc.child()
			if bind != "" {
				t := w.a.typeOf(subj, ssc)
				if len(cc.List) == 1 {
					t = w.a.resolveType(cc.List[0], ssc)
				}
				csc.define(bind, t)
			}
			w.stmts(cc.Body, held.copy(), csc, async)
		}
	case *ast.SelectStmt:
		for _, c := range x.Body.List {
			cc := c.(*ast.CommClause)
			h := held.copy()
			csc := sc.child()
			w.stmt(cc.Comm, h, csc, async)
			w.stmts(cc.Body, h, csc, async)
		}
	case *ast.GoStmt:
		w.goCall(x.Call, held, sc)
	case *ast.DeferStmt:
		if se, ok := loUnparen(x.Call.Fun).(*ast.SelectorExpr); ok && len(x.Call.Args) == 0 &&
			(se.Sel.Name == "Unlock" || se.Sel.Name == "RUnlock") {
			class, st := w.lockClass(se.X, se.Sel.Name, sc)
			switch st {
			case loLockOK:
				if _, is := held[class]; is {
					held[class] = false // stays held; the unlock is no longer owed
				}
				return
			case loLockUnres, loLockUnknTy:
				w.unresolved(exprString(x.Call))
				return
			}
		}
		w.call(x.Call, held, sc, async)
	}
}

// goCall: "go f(args)": operands are evaluated here, the call runs elsewhere.
func (w *loWalker) goCall(c *ast.CallExpr, held loHeld, sc *loScope) {
	w.exprs(c.Args, held, sc, false)
	switch f := loUnparen(c.Fun).(type) {
	case *ast.FuncLit:
		w.funcLit(f, loHeld{}, sc, true)
	case *ast.SelectorExpr:
		w.expr(f.X, held, sc, false)
	}
}

func (w *loWalker) expr(e ast.Expr, held loHeld, sc *loScope, async bool) {
	switch x := e.(type) {
	case nil:
	case *ast.CallExpr:
		w.call(x, held, sc, async)
	case *ast.FuncLit: // merely written here
		w.funcLit(x, loHeld{}, sc, async)
	case *ast.ParenExpr:
		w.expr(x.X, held, sc, async)
	case *ast.StarExpr:
		w.expr(x.X, held, sc, async)
	case *ast.UnaryExpr:
		w.expr(x.X, held, sc, async)
	case *ast.BinaryExpr:
		w.expr(x.X, held, sc, async)
		w.expr(x.Y, held, sc, async)
	case *ast.SelectorExpr:
		w.expr(x.X, held, sc, async)
	case *ast.IndexExpr:
		w.expr(x.X, held, sc, async)
		w.expr(x.Index, held, sc, async)
	case *ast.IndexListExpr:
		w.expr(x.X, held, sc, async)
	case *ast.SliceExpr:
		w.expr(x.X, held, sc, async)
		w.expr(x.Low, held, sc, async)
		w.expr(x.High, held, sc, async)
		w.expr(x.Max, held, sc, async)
	case *ast.TypeAssertExpr:
		w.expr(x.X, held, sc, async)
	case *ast.KeyValueExpr:
		w.expr(x.Key, held, sc, async)
		w.expr(x.Value, held, sc, async)
	case *ast.CompositeLit:
		w.exprs(x.Elts, held, sc, async)
	}
}

// valueTargets: what calling the function value e may run (package function,
// method value, local closure).
func (w *loWalker) valueTargets(e ast.Expr, sc *loScope) (ts []loTarget, lits []loClosure) {
	e = loUnparen(e)
	if ix, ok := e.(*ast.IndexExpr); ok { // f[T]
		if _, isId := ix.X.(*ast.Ident); isId {
			e = ix.X
		}
	}
	switch x := e.(type) {
	case *ast.Ident:
		if v := sc.lookupVar(x.Name); v != nil {
			return nil, v.lits
		}
		if f := w.a.funcs[x.Name]; f != nil {
			return []loTarget{{fn: f}}, nil
		}
	case *ast.SelectorExpr:
		if id, ok := x.X.(*ast.Ident); ok && w.a.isPkgName(id, sc) {
			return nil, nil
		}
		return w.a.callTargets(w.a.typeOf(x.X, sc), x.Sel.Name, 0), nil
	}
	return nil, nil
}

func (w *loWalker) call(c *ast.CallExpr, held loHeld, sc *loScope, async bool) {
	fun := loUnparen(c.Fun)

	if lit, ok := fun.(*ast.FuncLit); ok { // func(){..}(args)
		w.exprs(c.Args, held, sc, async)
		w.funcLit(lit, held.copy(), sc, async)
		return
	}

	if se, ok := fun.(*ast.SelectorExpr); ok {
		w.expr(se.X, held, sc, async)
		switch {
		case se.Sel.Name == "Do" && len(c.Args) == 1:
			class, st := w.lockClass(se.X, "Do", sc)
			arg := loUnparen(c.Args[0])
			lit, isLit := arg.(*ast.FuncLit)
			if st == loLockOK {
				w.acquire(class, held, async)
				inner := held.copy()
				inner[class] = false
				if isLit {
					w.funcLit(lit, inner, sc, async)
					return
				}
				w.expr(arg, held, sc, async)
				ts, lits := w.valueTargets(arg, sc)
				for _, t := range ts {
					w.apply(t, inner, async)
				}
				for _, l := range lits {
					w.funcLit(l.lit, inner.copy(), l.sc, async)
				}
				return
			}
			if st == loLockUnres || (st == loLockUnknTy && isLit) {
				w.unresolved(exprString(c))
			}
		case len(c.Args) == 0:
			switch se.Sel.Name {
			case "Lock", "RLock", "TryLock", "TryRLock", "Unlock", "RUnlock":
				class, st := w.lockClass(se.X, se.Sel.Name, sc)
				switch st {
				case loLockOK:
					if strings.HasSuffix(se.Sel.Name, "Unlock") {
						delete(held, class)
					} else {
						w.acquire(class, held, async)
						held[class] = true
					}
					return
				case loLockUnres, loLockUnknTy:
					w.unresolved(exprString(c))
					return
				}
			}
		}
	} else {
		w.expr(fun, held, sc, async)
	}

	w.exprs(c.Args, held, sc, async)
	if w.a.isTypeExpr(fun, sc) {
		return
	}
	ts, lits := w.valueTargets(fun, sc)
	for _, t := range ts {
		w.apply(t, held, async)
	}
	for _, l := range lits {
		w.funcLit(l.lit, held.copy(), l.sc, async)
	}
}

// walkFn walks one declaration and returns its may-acquire summary.
func (a *loAnalysis) walkFn(fn *loFn) map[string]int {
	w := &loWalker{a: a, fn: fn, acq: map[string]int{}, busy: map[*ast.FuncLit]bool{}}
	sc := (*loScope)(nil).child()
	if fn.decl.Recv != nil {
		for _, f := range fn.decl.Recv.List {
			for _, n := range f.Names {
				sc.define(n.Name, a.resolveType(f.Type, sc))
			}
		}
	}
	w.bindFuncType(fn.decl.Type, sc)
	w.body(fn.decl.Body, loHeld{}, sc, false)
	return w.acq
}

// ---------- loading and output ----------

// loVerifGuarded: the file has a //go:build line that requires the verif tag.
func loVerifGuarded(f *ast.File) bool {
	for _, cg := range f.Comments {
		if cg.Pos() > f.Package {
			break
		}
		for _, c := range cg.List {
			if !strings.HasPrefix(c.Text, "//go:build") {
				continue
			}
			toks := strings.FieldsFunc(strings.TrimPrefix(c.Text, "//go:build"), func(r rune) bool {
				return r == ' ' || r == '\t' || r == '(' || r == ')' || r == '&' || r == '|'
			})
			for _, t := range toks {
				if t == "verif" {
					return true
				}
			}
		}
	}
	return false
}

func loLoad(dir string) *loAnalysis {
	a := &loAnalysis{
		types: map[string]*ast.TypeSpec{}, funcs: map[string]*loFn{}, methods: map[string]map[string]*loFn{},
		globals: map[string]*ast.ValueSpec{}, globalBusy: map[string]bool{}, imports: map[string]bool{},
	}
	for _, pf := range parseDir(dir) {
		base := filepath.Base(pf.path)
		if strings.HasPrefix(base, "zz_verif") || loVerifGuarded(pf.f) {
			continue
		}
		for _, is := range pf.f.Imports {
			p, _ := strconv.Unquote(is.Path.Value)
			name := filepath.Base(p)
			if is.Name != nil {
				name = is.Name.Name
			}
			a.imports[name] = true
			// "github.com/quic-go/quic-go" is package quic, ".../v5" style paths: also the
			// last element without a "-go"/"go-" affix and the one before a version suffix.
			a.imports[strings.TrimPrefix(strings.TrimSuffix(name, "-go"), "go-")] = true
			if d := filepath.Base(filepath.Dir(p)); len(name) > 1 && name[0] == 'v' && strings.Trim(name[1:], "0123456789") == "" {
				a.imports[d] = true
			}
		}
		for _, d := range pf.f.Decls {
			switch x := d.(type) {
			case *ast.GenDecl:
				for _, sp := range x.Specs {
					switch s := sp.(type) {
					case *ast.TypeSpec:
						a.types[s.Name.Name] = s
					case *ast.ValueSpec:
						if x.Tok == token.VAR {
							for _, n := range s.Names {
								a.globals[n.Name] = s
							}
						}
					}
				}
			case *ast.FuncDecl:
				if x.Body == nil {
					continue
				}
				fn := &loFn{name: x.Name.Name, file: base, decl: x, acq: map[string]int{}}
				if rt, _ := recvInfo(x); x.Recv != nil {
					fn.name = rt + "." + x.Name.Name
					if a.methods[rt] == nil {
						a.methods[rt] = map[string]*loFn{}
					}
					a.methods[rt][x.Name.Name] = fn
				} else if x.Name.Name != "init" && x.Name.Name != "_" {
					a.funcs[x.Name.Name] = fn
				}
				a.all = append(a.all, fn)
			}
		}
	}
	sort.SliceStable(a.all, func(i, j int) bool { return a.all[i].name < a.all[j].name })
	return a
}

// fieldClasses: every sync field of every struct type of the package.
func (a *loAnalysis) fieldClasses() {
	for name, ts := range a.types {
		st, ok := ts.Type.(*ast.StructType)
		if !ok {
			continue
		}
		for _, f := range st.Fields.List {
			if !loSyncTypes[exprString(f.Type)] {
				continue
			}
			if len(f.Names) == 0 {
				a.classes[name+"."+loBaseName(f.Type)] = true
			}
			for _, n := range f.Names {
				a.classes[name+"."+n.Name] = true
			}
		}
	}
}

func (a *loAnalysis) run() {
	for round := 0; ; round++ {
		a.classes, a.edges, a.unresolved = map[string]bool{}, map[[2]string]string{}, map[string]bool{}
		a.fieldClasses()
		changed := false
		for _, fn := range a.all {
			acq := a.walkFn(fn)
			for k, v := range acq {
				if fn.acq[k] < v { // summaries only grow
					fn.acq[k] = v
					changed = true
				}
			}
		}
		if !changed || round > 100 {
			return // the tables are those of the last round, made with stable summaries
		}
	}
}

func loQuote(s string) string { return `"` + strings.ReplaceAll(s, `"`, `""`) + `"` }

func loList(o *out, items []string) {
	if len(items) == 0 {
		fmt.Fprintf(&o.buf, "[ ].\n")
		return
	}
	fmt.Fprintf(&o.buf, "[\n  %s\n].\n", strings.Join(items, ";\n  "))
}

func genLockOrder(o *out) {
	fmt.Fprintf(&o.buf, "From Coq Require Import List String.\nImport ListNotations.\nOpen Scope string_scope.\n\n")
	a := loLoad(filepath.Join(repo, loPkgDir))
	if len(a.all) == 0 {
		o.missing("lock_edges", loPkgDir+": no functions found")
	}
	a.run()

	var classes, edges, unres []string
	for c := range a.classes {
		classes = append(classes, c)
	}
	sort.Strings(classes)
	for i, c := range classes {
		classes[i] = loQuote(c)
	}
	var keys [][2]string
	for k := range a.edges {
		keys = append(keys, k)
	}
	sort.Slice(keys, func(i, j int) bool {
		if keys[i][0] != keys[j][0] {
			return keys[i][0] < keys[j][0]
		}
		return keys[i][1] < keys[j][1]
	})
	for _, k := range keys {
		edges = append(edges, fmt.Sprintf("(%s, %s, %s)", loQuote(k[0]), loQuote(k[1]), loQuote(a.edges[k])))
	}
	for u := range a.unresolved {
		unres = append(unres, u)
	}
	sort.Strings(unres)
	for i, u := range unres {
		unres[i] = loQuote(u)
	}

	fmt.Fprintf(&o.buf, "(* every mutex / once field of %s *)\n", loPkgDir)
	fmt.Fprintf(&o.buf, "Definition lock_classes : list string := ")
	loList(o, classes)
	fmt.Fprintf(&o.buf, "\n(* (outer, inner, where): inner may be acquired while outer is held *)\n")
	fmt.Fprintf(&o.buf, "Definition lock_edges : list (string * string * string) := ")
	loList(o, edges)
	fmt.Fprintf(&o.buf, "\nDefinition lock_unresolved : list string := ")
	loList(o, unres)
}
