module gofacts

go 1.22
