// gofacts re-extracts small structural facts from /repo's Go source into
// Gallina files under coq/Gen on every check run: named constants (evaluated
// from their defining expressions), loop bounds, comparison operators, lock
// tables, select-case tables, write-call counts and statement orders.
// It uses only go/parser and go/ast from the standard library.
//
// usage: gofacts -repo /repo -out /verif/coq/Gen
package main

import (
	"bytes"
	"flag"
	"fmt"
	"go/ast"
	"go/parser"
	"go/token"
	"math/big"
	"os"
	"os/exec"
	"path/filepath"
	"sort"
	"strconv"
	"strings"
)

var repo string

// ---------- parsing cache ----------

type pfile struct {
	fset *token.FileSet
	f    *ast.File
	path string
}

var fileCache = map[string]*pfile{}

func parseFile(path string) (*pfile, error) {
	if p, ok := fileCache[path]; ok {
		return p, nil
	}
	fset := token.NewFileSet()
	f, err := parser.ParseFile(fset, path, nil, parser.ParseComments)
	if err != nil {
		return nil, err
	}
	p := &pfile{fset: fset, f: f, path: path}
	fileCache[path] = p
	return p, nil
}

func parseDir(dir string) []*pfile {
	ents, _ := os.ReadDir(dir)
	var out []*pfile
	for _, e := range ents {
		n := e.Name()
		if e.IsDir() || !strings.HasSuffix(n, ".go") || strings.HasSuffix(n, "_test.go") {
			continue
		}
		if p, err := parseFile(filepath.Join(dir, n)); err == nil {
			out = append(out, p)
		}
	}
	return out
}

var dirCache = map[string]string{}

func importDir(imp string) string {
	if d, ok := dirCache[imp]; ok {
		return d
	}
	cmd := exec.Command("go", "list", "-f", "{{.Dir}}", imp)
	cmd.Dir = repo
	cmd.Env = append(os.Environ(), "GOFLAGS=-mod=mod", "GOPROXY=off", "GOSUMDB=off", "GOTOOLCHAIN=local")
	out, err := cmd.Output()
	d := ""
	if err == nil {
		d = strings.TrimSpace(string(out))
	}
	dirCache[imp] = d
	return d
}

// ---------- constant evaluation ----------

type evalCtx struct {
	pf    *pfile
	files []*pfile // all files of the package (for sibling constants)
	scope string   // enclosing function name, "" for package level
	depth int
}

// findConst looks for "const name = expr" (package level in any file of the
// package, or inside function scope of pf when scope != "").
func findConst(c *evalCtx, name string) (ast.Expr, *pfile, int, []ast.Expr) {
	search := func(pf *pfile, root ast.Node) (ast.Expr, int, []ast.Expr, bool) {
		var found ast.Expr
		var iota int
		var ok bool
		ast.Inspect(root, func(n ast.Node) bool {
			if ok {
				return false
			}
			gd, is := n.(*ast.GenDecl)
			if !is || gd.Tok != token.CONST {
				return true
			}
			var last []ast.Expr
			for i, sp := range gd.Specs {
				vs := sp.(*ast.ValueSpec)
				if len(vs.Values) > 0 {
					last = vs.Values
				}
				for j, id := range vs.Names {
					if id.Name == name {
						if j < len(last) {
							found, iota, ok = last[j], i, true
							return false
						}
					}
				}
			}
			return true
		})
		return found, iota, nil, ok
	}
	if c.scope != "" {
		for _, d := range c.pf.f.Decls {
			fd, is := d.(*ast.FuncDecl)
			if is && fd.Name.Name == c.scope && fd.Body != nil {
				if e, io, _, ok := search(c.pf, fd.Body); ok {
					return e, c.pf, io, nil
				}
			}
		}
	}
	for _, pf := range c.files {
		for _, d := range pf.f.Decls {
			if gd, is := d.(*ast.GenDecl); is && gd.Tok == token.CONST {
				if e, io, _, ok := search(pf, gd); ok {
					return e, pf, io, nil
				}
			}
		}
	}
	return nil, nil, 0, nil
}

func eval(c *evalCtx, e ast.Expr, iota int) (*big.Int, error) {
	if c.depth > 40 {
		return nil, fmt.Errorf("too deep")
	}
	c.depth++
	defer func() { c.depth-- }()
	switch x := e.(type) {
	case *ast.BasicLit:
		switch x.Kind {
		case token.INT:
			v, ok := new(big.Int).SetString(strings.ReplaceAll(x.Value, "_", ""), 0)
			if !ok {
				return nil, fmt.Errorf("bad int %s", x.Value)
			}
			return v, nil
		case token.FLOAT:
			f, _, err := big.ParseFloat(x.Value, 0, 200, big.ToNearestEven)
			if err != nil {
				return nil, err
			}
			if f.IsInt() {
				i, _ := f.Int(nil)
				return i, nil
			}
			return nil, fmt.Errorf("non-integer float %s", x.Value)
		case token.CHAR:
			r, _, _, err := strconv.UnquoteChar(x.Value[1:len(x.Value)-1], '\'')
			if err != nil {
				return nil, err
			}
			return big.NewInt(int64(r)), nil
		}
		return nil, fmt.Errorf("unsupported literal %s", x.Value)
	case *ast.ParenExpr:
		return eval(c, x.X, iota)
	case *ast.UnaryExpr:
		v, err := eval(c, x.X, iota)
		if err != nil {
			return nil, err
		}
		switch x.Op {
		case token.SUB:
			return new(big.Int).Neg(v), nil
		case token.ADD:
			return v, nil
		}
		return nil, fmt.Errorf("unsupported unary %s", x.Op)
	case *ast.BinaryExpr:
		a, err := eval(c, x.X, iota)
		if err != nil {
			return nil, err
		}
		b, err := eval(c, x.Y, iota)
		if err != nil {
			return nil, err
		}
		switch x.Op {
		case token.ADD:
			return new(big.Int).Add(a, b), nil
		case token.SUB:
			return new(big.Int).Sub(a, b), nil
		case token.MUL:
			return new(big.Int).Mul(a, b), nil
		case token.QUO:
			if b.Sign() == 0 {
				return nil, fmt.Errorf("div by zero")
			}
			return new(big.Int).Quo(a, b), nil
		case token.SHL:
			return new(big.Int).Lsh(a, uint(b.Uint64())), nil
		case token.SHR:
			return new(big.Int).Rsh(a, uint(b.Uint64())), nil
		case token.OR:
			return new(big.Int).Or(a, b), nil
		case token.AND:
			return new(big.Int).And(a, b), nil
		}
		return nil, fmt.Errorf("unsupported binary %s", x.Op)
	case *ast.CallExpr: // conversions such as time.Duration(5) or uint16(1)
		if len(x.Args) == 1 {
			return eval(c, x.Args[0], iota)
		}
		return nil, fmt.Errorf("unsupported call")
	case *ast.Ident:
		if x.Name == "iota" {
			return big.NewInt(int64(iota)), nil
		}
		ex, pf, io, _ := findConst(c, x.Name)
		if ex == nil {
			return nil, fmt.Errorf("constant %s not found", x.Name)
		}
		c2 := &evalCtx{pf: pf, files: c.files, scope: c.scope, depth: c.depth}
		return eval(c2, ex, io)
	case *ast.SelectorExpr:
		pkgIdent, ok := x.X.(*ast.Ident)
		if !ok {
			return nil, fmt.Errorf("unsupported selector")
		}
		imp := ""
		for _, is := range c.pf.f.Imports {
			p, _ := strconv.Unquote(is.Path.Value)
			name := filepath.Base(p)
			if is.Name != nil {
				name = is.Name.Name
			}
			if name == pkgIdent.Name {
				imp = p
			}
		}
		if imp == "" {
			return nil, fmt.Errorf("import %s not found", pkgIdent.Name)
		}
		dir := importDir(imp)
		if dir == "" {
			return nil, fmt.Errorf("cannot locate %s", imp)
		}
		files := parseDir(dir)
		if len(files) == 0 {
			return nil, fmt.Errorf("no files in %s", dir)
		}
		c2 := &evalCtx{pf: files[0], files: files, depth: c.depth}
		ex, pf, io, _ := findConst(c2, x.Sel.Name)
		if ex == nil {
			return nil, fmt.Errorf("constant %s.%s not found", imp, x.Sel.Name)
		}
		c2.pf = pf
		return eval(c2, ex, io)
	}
	return nil, fmt.Errorf("unsupported expr %T", e)
}

func funcDecl(pf *pfile, name string) *ast.FuncDecl {
	for _, d := range pf.f.Decls {
		if fd, ok := d.(*ast.FuncDecl); ok && fd.Name.Name == name && fd.Body != nil {
			return fd
		}
	}
	return nil
}

// funcDeclRecv finds method name on receiver type recv ("" = any).
func funcDeclRecv(pf *pfile, recv, name string) *ast.FuncDecl {
	for _, d := range pf.f.Decls {
		fd, ok := d.(*ast.FuncDecl)
		if !ok || fd.Name.Name != name || fd.Body == nil {
			continue
		}
		if recv == "" {
			return fd
		}
		if fd.Recv != nil && len(fd.Recv.List) == 1 && strings.Contains(exprString(fd.Recv.List[0].Type), recv) {
			return fd
		}
	}
	return nil
}

func exprString(e ast.Expr) string {
	switch x := e.(type) {
	case *ast.Ident:
		return x.Name
	case *ast.StarExpr:
		return "*" + exprString(x.X)
	case *ast.SelectorExpr:
		return exprString(x.X) + "." + x.Sel.Name
	case *ast.IndexExpr:
		return exprString(x.X) + "[" + exprString(x.Index) + "]"
	case *ast.IndexListExpr:
		s := exprString(x.X) + "["
		for i, ix := range x.Indices {
			if i > 0 {
				s += ","
			}
			s += exprString(ix)
		}
		return s + "]"
	case *ast.CallExpr:
		s := exprString(x.Fun) + "("
		for i, a := range x.Args {
			if i > 0 {
				s += ","
			}
			s += exprString(a)
		}
		return s + ")"
	case *ast.UnaryExpr:
		return x.Op.String() + exprString(x.X)
	case *ast.BinaryExpr:
		return exprString(x.X) + x.Op.String() + exprString(x.Y)
	case *ast.BasicLit:
		return x.Value
	case *ast.ParenExpr:
		return "(" + exprString(x.X) + ")"
	case *ast.ArrayType:
		return "[]" + exprString(x.Elt)
	case *ast.MapType:
		return "map[" + exprString(x.Key) + "]" + exprString(x.Value)
	case *ast.ChanType:
		return "chan " + exprString(x.Value)
	case *ast.CompositeLit:
		return exprString(x.Type) + "{}"
	case *ast.FuncLit:
		return "func"
	}
	return fmt.Sprintf("%T", e)
}

// ---------- output ----------

type out struct {
	buf  bytes.Buffer
	errs []string
}

func (o *out) header(title string) {
	fmt.Fprintf(&o.buf, "(* GENERATED by tools/gofacts from the Go source tree on every check run.\n   %s\n   Do not edit. *)\nFrom Coq Require Import NArith ZArith List String.\nImport ListNotations.\nOpen Scope N_scope.\n\n", title)
}

func (o *out) missing(name, why string) {
	o.errs = append(o.errs, name+": "+why)
	fmt.Fprintf(&o.buf, "(* MISSING %s: %s *)\n", name, strings.ReplaceAll(why, "*)", "* )"))
}

func (o *out) defN(name string, v *big.Int, src string) {
	if v.Sign() < 0 {
		o.missing(name, "negative value "+v.String())
		return
	}
	fmt.Fprintf(&o.buf, "Definition %s : N := %s. (* %s *)\n", name, v.String(), src)
}

func (o *out) defZ(name string, v *big.Int, src string) {
	fmt.Fprintf(&o.buf, "Definition %s : Z := (%s)%%Z. (* %s *)\n", name, v.String(), src)
}

func (o *out) write(path string) {
	old, err := os.ReadFile(path)
	if err == nil && bytes.Equal(old, o.buf.Bytes()) {
		return
	}
	if err := os.WriteFile(path, o.buf.Bytes(), 0o644); err != nil {
		fmt.Fprintln(os.Stderr, "gofacts:", err)
		os.Exit(2)
	}
}

type constSpec struct {
	coq   string // Coq name
	file  string // path relative to repo
	name  string // Go constant name
	scope string // enclosing function ("" = package level)
	kind  string // "N" or "Z"
}

func constValue(file, scope, name string) (*big.Int, error) {
	pf, err := parseFile(filepath.Join(repo, file))
	if err != nil {
		return nil, err
	}
	files := parseDir(filepath.Dir(filepath.Join(repo, file)))
	c := &evalCtx{pf: pf, files: files, scope: scope}
	ex, pf2, io, _ := findConst(c, name)
	if ex == nil {
		return nil, fmt.Errorf("constant not found")
	}
	c.pf = pf2
	return eval(c, ex, io)
}

func main() {
	var outDir string
	flag.StringVar(&repo, "repo", "/repo", "repository root")
	flag.StringVar(&outDir, "out", "", "output directory (coq/Gen)")
	flag.Parse()
	if outDir == "" {
		fmt.Fprintln(os.Stderr, "usage: gofacts -repo DIR -out DIR")
		os.Exit(2)
	}
	var all []string
	for _, g := range generators {
		o := &out{}
		o.header(g.title)
		g.run(o)
		o.write(filepath.Join(outDir, g.file))
		for _, e := range o.errs {
			all = append(all, g.file+": "+e)
		}
	}
	sort.Strings(all)
	for _, e := range all {
		fmt.Println("MISSING", e)
	}
}

type generator struct {
	file  string
	title string
	run   func(o *out)
}

var generators []generator

func register(g generator) { generators = append(generators, g) }
