package main

import (
	"fmt"
	"go/ast"
	"go/token"
	"path/filepath"
)

// RetryFacts.v: the shape of the retry conditions of both transports' ExchangeContext
// loops ("!isNewConn && retry < maxRetry && ctx.Err() == nil"): the comparison
// operator on the retry counter, whether the context is consulted, and that the
// condition is guarded by "not a new connection".
func init() {
	register(generator{file: "RetryFacts.v", title: "Shape of the retry conditions in pipeline.go and reuse.go.", run: genRetry})
}

func genRetry(o *out) {
	one := func(prefix, file string) {
		pf, err := parseFile(filepath.Join(repo, file))
		if err != nil {
			o.missing(prefix, err.Error())
			return
		}
		fd := funcDeclRecv(pf, "", "ExchangeContext")
		if fd == nil {
			o.missing(prefix, "ExchangeContext not found")
			return
		}
		found := false
		ast.Inspect(fd.Body, func(n ast.Node) bool {
			is, ok := n.(*ast.IfStmt)
			if !ok || found {
				return !found
			}
			// collect the conjuncts of the condition
			var conj []ast.Expr
			var walk func(e ast.Expr)
			walk = func(e ast.Expr) {
				if be, ok := e.(*ast.BinaryExpr); ok && be.Op == token.LAND {
					walk(be.X)
					walk(be.Y)
					return
				}
				conj = append(conj, e)
			}
			walk(is.Cond)
			opLt, opLe, notNew, ctx := false, false, false, false
			for _, c := range conj {
				switch x := c.(type) {
				case *ast.UnaryExpr:
					if x.Op == token.NOT && exprString(x.X) == "isNewConn" {
						notNew = true
					}
				case *ast.BinaryExpr:
					l, r := exprString(x.X), exprString(x.Y)
					if l == "retry" && r == "maxRetry" {
						opLt = x.Op == token.LSS
						opLe = x.Op == token.LEQ
					}
					if (x.Op == token.EQL) && (l == "ctx.Err()" || r == "ctx.Err()") {
						ctx = true
					}
				}
			}
			if !(opLt || opLe) {
				return true
			}
			found = true
			b := func(v bool) string {
				if v {
					return "true"
				}
				return "false"
			}
			fmt.Fprintf(&o.buf, "Definition %s_retry_strict : bool := %s. (* %s: retry %s maxRetry *)\n", prefix, b(opLt), file, map[bool]string{true: "<", false: "<="}[opLt])
			fmt.Fprintf(&o.buf, "Definition %s_retry_checks_ctx : bool := %s. (* %s: ctx.Err() == nil in the retry condition *)\n", prefix, b(ctx), file)
			fmt.Fprintf(&o.buf, "Definition %s_retry_only_reused : bool := %s. (* %s: !isNewConn in the retry condition *)\n", prefix, b(notNew), file)
			return false
		})
		if !found {
			o.missing(prefix, "retry condition not found in ExchangeContext of "+file)
		}
	}
	one("pipeline", "pkg/upstream/transport/pipeline.go")
	one("reuse", "pkg/upstream/transport/reuse.go")
}
