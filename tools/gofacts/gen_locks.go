package main

import (
	"fmt"
	"go/ast"
	"go/token"
	"path/filepath"
	"sort"
	"strings"
)

// Lock discipline of the sharded stores (property C11).
//
// For every struct in the anchor files that owns a sync.Mutex / sync.RWMutex
// (named field or embedded) the map- and pointer-typed fields are "protected".
// For every function of those files that is a method of such a struct, or that
// mentions a protected field anywhere, one row is emitted:
//
//	(name, open, released, writes, reads, clean)
//
//	open      0 = no lock call of the owner's mutex precedes the first access,
//	          1 = RLock, 2 = Lock (top-level statement of the body)
//	released  the matching unlock is deferred at top level, or called at top
//	          level after the last access with no return statement in between
//	writes    the body assigns to / deletes from / re-makes / clears a protected
//	          field or its contents, assigns to any field of the receiver, takes
//	          the address of a protected field, or calls a method on a protected
//	          pointer field
//	reads     the body mentions a protected field in any other way
//	clean     no access sits inside a function literal, go or defer statement,
//	          there is exactly one lock call, and no unlock precedes an access
//
// A second table, "callers", has one row per function of those files that is NOT a
// method of a lock-owning struct but calls lock-taking methods of one (Map.Set ->
// shard.set, ShardedLRU.Add -> ConcurrentLRU.Add, ...):
//
//	(name, acquisitions, direct)
//
//	acquisitions  the largest number of call sites of lock-taking methods on one
//	              control-flow path through the body (if/else and switch arms are
//	              alternatives, a loop body counts once: "for every shard ...").
//	              More than one means the operation is split over several critical
//	              sections (check, unlock, lock again, act).
//	direct        the body also touches a protected field itself
//
// A method of a lock-owning struct that calls another lock-taking method is marked
// not clean in the first table.
//
// Model/CacheStore.v demands properties of these tables (check_locks, check_callers);
// nothing is compared with a stored copy, so harmless rewrites do not trip it.
func init() {
	register(generator{file: "LockFacts.v", title: "Lock discipline of concurrent_map.shard and concurrent_lru.ConcurrentLRU methods.", run: genLocks})
}

type lockedStruct struct {
	name      string
	lockField string // "" = embedded mutex (methods promoted to the struct)
	rw        bool
	protected map[string]bool // field name -> is pointer (true) / map (false)
	fields    map[string]bool
}

func isSyncType(e ast.Expr) (ok, rw bool) {
	s := exprString(e)
	switch s {
	case "sync.RWMutex":
		return true, true
	case "sync.Mutex":
		return true, false
	}
	return false, false
}

func lockedStructs(pf *pfile) []*lockedStruct {
	var out []*lockedStruct
	for _, d := range pf.f.Decls {
		gd, ok := d.(*ast.GenDecl)
		if !ok || gd.Tok != token.TYPE {
			continue
		}
		for _, sp := range gd.Specs {
			ts := sp.(*ast.TypeSpec)
			st, ok := ts.Type.(*ast.StructType)
			if !ok {
				continue
			}
			ls := &lockedStruct{name: ts.Name.Name, protected: map[string]bool{}, fields: map[string]bool{}}
			has := false
			for _, f := range st.Fields.List {
				if ok, rw := isSyncType(f.Type); ok {
					has = true
					ls.rw = rw
					if len(f.Names) > 0 {
						ls.lockField = f.Names[0].Name
					}
					continue
				}
				for _, n := range f.Names {
					ls.fields[n.Name] = true
					switch f.Type.(type) {
					case *ast.MapType:
						ls.protected[n.Name] = false
					case *ast.StarExpr:
						ls.protected[n.Name] = true
					}
				}
			}
			if has {
				out = append(out, ls)
			}
		}
	}
	return out
}

func recvInfo(fd *ast.FuncDecl) (typ, name string) {
	if fd.Recv == nil || len(fd.Recv.List) != 1 {
		return "", ""
	}
	t := fd.Recv.List[0].Type
	for {
		switch x := t.(type) {
		case *ast.StarExpr:
			t = x.X
			continue
		case *ast.IndexExpr:
			t = x.X
			continue
		case *ast.IndexListExpr:
			t = x.X
			continue
		case *ast.ParenExpr:
			t = x.X
			continue
		}
		break
	}
	if id, ok := t.(*ast.Ident); ok {
		typ = id.Name
	}
	if len(fd.Recv.List[0].Names) > 0 {
		name = fd.Recv.List[0].Names[0].Name
	}
	return
}

type lockRow struct {
	name                           string
	open                           int
	released, writes, reads, clean bool
	note                           string
}

func analyseLocks(pf *pfile, fd *ast.FuncDecl, structs []*lockedStruct) (row lockRow, relevant bool) {
	rtyp, rname := recvInfo(fd)
	var owner *lockedStruct
	protected := map[string]bool{} // name -> pointer
	for _, ls := range structs {
		if ls.name == rtyp {
			owner = ls
		}
		for k, v := range ls.protected {
			protected[k] = v
		}
	}
	row.name = fd.Name.Name
	if rtyp != "" {
		row.name = rtyp + "." + fd.Name.Name
	}
	relevant = owner != nil

	// lock-ish calls: <recv>.<lockField>.Lock() or <recv>.Lock() when embedded
	lockCall := func(e ast.Expr) string {
		ce, ok := e.(*ast.CallExpr)
		if !ok || owner == nil {
			return ""
		}
		se, ok := ce.Fun.(*ast.SelectorExpr)
		if !ok {
			return ""
		}
		switch se.Sel.Name {
		case "Lock", "RLock", "Unlock", "RUnlock":
		default:
			return ""
		}
		want := rname
		if owner.lockField != "" {
			want = rname + "." + owner.lockField
		}
		if exprString(se.X) != want {
			return ""
		}
		return se.Sel.Name
	}

	type access struct {
		pos   token.Pos
		write bool
		esc   bool
	}
	var acc []access
	writePos := map[token.Pos]bool{} // positions of selector exprs known to be written
	isProt := func(e ast.Expr) (*ast.SelectorExpr, bool) {
		for {
			switch x := e.(type) {
			case *ast.ParenExpr:
				e = x.X
				continue
			case *ast.IndexExpr:
				e = x.X
				continue
			}
			break
		}
		se, ok := e.(*ast.SelectorExpr)
		if !ok {
			return nil, false
		}
		if _, ok := protected[se.Sel.Name]; ok {
			return se, true
		}
		return nil, false
	}
	markWrite := func(e ast.Expr) {
		if se, ok := isProt(e); ok {
			writePos[se.Pos()] = true
		}
	}
	// pass 1: find the written selectors
	ast.Inspect(fd.Body, func(n ast.Node) bool {
		switch x := n.(type) {
		case *ast.AssignStmt:
			for _, l := range x.Lhs {
				markWrite(l)
				// any field of the receiver assigned to
				if se, ok := l.(*ast.SelectorExpr); ok && owner != nil && exprString(se.X) == rname && se.Sel.Name != owner.lockField {
					writePos[se.Pos()] = true
					if _, isP := protected[se.Sel.Name]; !isP {
						acc = append(acc, access{pos: se.Pos(), write: true})
					}
				}
			}
		case *ast.IncDecStmt:
			markWrite(x.X)
		case *ast.UnaryExpr:
			if x.Op == token.AND {
				markWrite(x.X)
			}
		case *ast.CallExpr:
			fn := exprString(x.Fun)
			if (fn == "delete" || fn == "clear") && len(x.Args) >= 1 {
				markWrite(x.Args[0])
			}
			// method call on a protected pointer field: conservatively a write
			if se, ok := x.Fun.(*ast.SelectorExpr); ok {
				if inner, ok := se.X.(*ast.SelectorExpr); ok {
					if ptr, isP := protected[inner.Sel.Name]; isP && ptr {
						writePos[inner.Pos()] = true
					}
				}
			}
		case *ast.RangeStmt:
			// "for k, v = range" with protected targets is exotic; ignore
		}
		return true
	})
	// pass 2: all mentions, with the escaping context
	var walk func(n ast.Node, esc bool)
	walk = func(n ast.Node, esc bool) {
		if n == nil {
			return
		}
		ast.Inspect(n, func(c ast.Node) bool {
			switch x := c.(type) {
			case *ast.FuncLit:
				if !esc {
					walk(x.Body, true)
					return false
				}
			case *ast.GoStmt:
				if !esc {
					walk(x.Call, true)
					return false
				}
			case *ast.DeferStmt:
				if !esc && lockCall(x.Call) == "" {
					walk(x.Call, true)
					return false
				}
			case *ast.SelectorExpr:
				if _, ok := protected[x.Sel.Name]; ok {
					acc = append(acc, access{pos: x.Pos(), write: writePos[x.Pos()], esc: esc})
				}
			}
			return true
		})
	}
	walk(fd.Body, false)
	if len(acc) > 0 {
		relevant = true
	}
	sort.Slice(acc, func(i, j int) bool { return acc[i].pos < acc[j].pos })

	row.clean = true
	for _, a := range acc {
		if a.write {
			row.writes = true
		} else {
			row.reads = true
		}
		if a.esc {
			row.clean = false
			row.note += " access-in-closure"
		}
	}

	// top-level lock statements
	var lockPos, unlockPos token.Pos
	lockKind := ""
	deferred := false
	nLocks := 0
	for _, st := range fd.Body.List {
		switch x := st.(type) {
		case *ast.ExprStmt:
			switch k := lockCall(x.X); k {
			case "Lock", "RLock":
				nLocks++
				if lockKind == "" {
					lockKind, lockPos = k, x.Pos()
				}
			case "Unlock", "RUnlock":
				if lockKind != "" && k == map[string]string{"Lock": "Unlock", "RLock": "RUnlock"}[lockKind] && unlockPos == 0 {
					unlockPos = x.Pos()
				}
			}
		case *ast.DeferStmt:
			if k := lockCall(x.Call); lockKind != "" && k == map[string]string{"Lock": "Unlock", "RLock": "RUnlock"}[lockKind] && x.Pos() > lockPos {
				deferred = true
			}
		}
	}
	// lock calls anywhere else (nested) make the function not clean
	total := 0
	ast.Inspect(fd.Body, func(n ast.Node) bool {
		if ce, ok := n.(*ast.CallExpr); ok {
			if k := lockCall(ce); k == "Lock" || k == "RLock" {
				total++
			}
		}
		return true
	})
	if total != nLocks || nLocks > 1 {
		row.clean = false
		row.note += " several-or-nested-lock-calls"
	}
	if lockKind != "" && (len(acc) == 0 || lockPos < acc[0].pos) {
		row.open = map[string]int{"RLock": 1, "Lock": 2}[lockKind]
	}
	if row.open != 0 {
		switch {
		case deferred:
			row.released = true
			row.note += " defer"
		case unlockPos != 0:
			last := lockPos
			if len(acc) > 0 {
				last = acc[len(acc)-1].pos
			}
			ok := unlockPos > last
			ast.Inspect(fd.Body, func(n ast.Node) bool {
				if r, is := n.(*ast.ReturnStmt); is && r.Pos() > lockPos && r.Pos() < unlockPos {
					ok = false
				}
				return true
			})
			row.released = ok
			if !ok && len(acc) > 0 && unlockPos < acc[len(acc)-1].pos {
				row.clean = false
				row.note += " unlock-before-access"
			}
			row.note += " explicit-unlock"
		}
	}
	return row, relevant
}

// lockingCall reports whether e calls (by method name) one of the lock-taking methods.
func lockingCallName(e ast.Expr, locking map[string]bool) bool {
	ce, ok := e.(*ast.CallExpr)
	if !ok {
		return false
	}
	se, ok := ce.Fun.(*ast.SelectorExpr)
	if !ok || !locking[se.Sel.Name] {
		return false
	}
	// inside a lock owner's own method only calls on the receiver count (c.Add, not c.lru.Add)
	if self := locking["\x00self"]; self {
		return exprString(se.X) == selfName
	}
	return true
}

// selfName is the receiver name while a lock owner's own method is being walked.
var selfName string

// countCalls: number of lock-taking call sites inside an expression or simple statement
// (function literals are not entered: they run later, if at all).
func countCalls(n ast.Node, locking map[string]bool) int {
	c := 0
	if n == nil {
		return 0
	}
	ast.Inspect(n, func(x ast.Node) bool {
		if _, ok := x.(*ast.FuncLit); ok {
			return false
		}
		if e, ok := x.(ast.Expr); ok && lockingCallName(e, locking) {
			c++
		}
		return true
	})
	return c
}

// pathCalls: the largest number of lock-taking call sites along one path through the
// statements; done = every path ends in a return.
func pathCalls(stmts []ast.Stmt, locking map[string]bool) (n int, done bool) {
	for _, st := range stmts {
		switch x := st.(type) {
		case *ast.BlockStmt:
			k, d := pathCalls(x.List, locking)
			n += k
			if d {
				return n, true
			}
		case *ast.IfStmt:
			n += countCalls(x.Init, locking) + countCalls(x.Cond, locking)
			a, da := pathCalls(x.Body.List, locking)
			b, db := 0, false
			if x.Else != nil {
				b, db = pathCalls([]ast.Stmt{x.Else}, locking)
			}
			// paths that return inside an arm do not continue below
			switch {
			case da && db:
				if b > a {
					a = b
				}
				return n + a, true
			case da && !db:
				rest, dr := pathCalls(stmts[indexOf(stmts, st)+1:], locking)
				if n+b+rest > n+a {
					return n + b + rest, dr
				}
				return n + a, false
			case !da && db:
				rest, dr := pathCalls(stmts[indexOf(stmts, st)+1:], locking)
				if n+a+rest > n+b {
					return n + a + rest, dr
				}
				return n + b, false
			default:
				if b > a {
					a = b
				}
				n += a
			}
		case *ast.SwitchStmt, *ast.TypeSwitchStmt, *ast.SelectStmt:
			var body *ast.BlockStmt
			switch y := x.(type) {
			case *ast.SwitchStmt:
				n += countCalls(y.Init, locking) + countCalls(y.Tag, locking)
				body = y.Body
			case *ast.TypeSwitchStmt:
				body = y.Body
			case *ast.SelectStmt:
				body = y.Body
			}
			best := 0
			for _, cl := range body.List {
				var list []ast.Stmt
				switch c := cl.(type) {
				case *ast.CaseClause:
					list = c.Body
				case *ast.CommClause:
					list = c.Body
				}
				if k, _ := pathCalls(list, locking); k > best {
					best = k
				}
			}
			n += best
		case *ast.ForStmt:
			n += countCalls(x.Init, locking) + countCalls(x.Cond, locking) + countCalls(x.Post, locking)
			k, _ := pathCalls(x.Body.List, locking)
			n += k
		case *ast.RangeStmt:
			n += countCalls(x.X, locking)
			k, _ := pathCalls(x.Body.List, locking)
			n += k
		case *ast.ReturnStmt:
			n += countCalls(x, locking)
			return n, true
		case *ast.LabeledStmt:
			k, d := pathCalls([]ast.Stmt{x.Stmt}, locking)
			n += k
			if d {
				return n, true
			}
		default:
			n += countCalls(st, locking)
		}
	}
	return n, false
}

func indexOf(stmts []ast.Stmt, st ast.Stmt) int {
	for i, x := range stmts {
		if x == st {
			return i
		}
	}
	return len(stmts)
}

type callerRow struct {
	name         string
	acquisitions int
	direct       bool
	note         string
}

func genLocks(o *out) {
	files := []string{"pkg/concurrent_map/map.go", "pkg/concurrent_lru/concurrent_lru.go"}
	var rows []lockRow
	var callers []callerRow
	for _, file := range files {
		pf, err := parseFile(filepath.Join(repo, file))
		if err != nil {
			o.missing("table", file+": "+err.Error())
			continue
		}
		structs := lockedStructs(pf)
		if len(structs) == 0 {
			o.missing("table", file+": no struct with a sync.Mutex/sync.RWMutex field found")
			continue
		}
		owners := map[string]bool{}
		for _, ls := range structs {
			owners[ls.name] = true
		}
		var fileRows []lockRow
		var fileDecls []*ast.FuncDecl
		locking := map[string]bool{} // names of methods of lock owners that take the lock
		for _, d := range pf.f.Decls {
			fd, ok := d.(*ast.FuncDecl)
			if !ok || fd.Body == nil {
				continue
			}
			row, rel := analyseLocks(pf, fd, structs)
			if rel {
				row.note = file + ":" + strings.TrimSpace(row.note)
				fileRows = append(fileRows, row)
				fileDecls = append(fileDecls, fd)
				if rt, _ := recvInfo(fd); owners[rt] && row.open != 0 {
					locking[fd.Name.Name] = true
				}
			}
		}
		// a lock owner's method that calls another lock-taking method: not one section
		for i, fd := range fileDecls {
			if rt, rn := recvInfo(fd); owners[rt] {
				locking["\x00self"], selfName = true, rn
				k, _ := pathCalls(fd.Body.List, locking)
				delete(locking, "\x00self")
				if k > 0 {
					fileRows[i].clean = false
					fileRows[i].note += " calls-lock-taking-method"
				}
			}
		}
		rows = append(rows, fileRows...)
		// everybody else who calls lock-taking methods
		for _, d := range pf.f.Decls {
			fd, ok := d.(*ast.FuncDecl)
			if !ok || fd.Body == nil {
				continue
			}
			rt, _ := recvInfo(fd)
			if owners[rt] {
				continue
			}
			k, _ := pathCalls(fd.Body.List, locking)
			if k == 0 {
				continue
			}
			name := fd.Name.Name
			if rt != "" {
				name = rt + "." + name
			}
			direct := false
			for i, fd2 := range fileDecls {
				if fd2 == fd && (fileRows[i].writes || fileRows[i].reads) {
					direct = true
				}
			}
			callers = append(callers, callerRow{name: name, acquisitions: k, direct: direct, note: file})
		}
	}
	b := func(v bool) string {
		if v {
			return "true"
		}
		return "false"
	}
	fmt.Fprintf(&o.buf, "(* (name, open: 0 none / 1 RLock / 2 Lock, released, writes, reads, clean) *)\n")
	fmt.Fprintf(&o.buf, "Definition table : list (string * N * bool * bool * bool * bool) := [\n")
	for i, r := range rows {
		sep := ";"
		if i == len(rows)-1 {
			sep = ""
		}
		fmt.Fprintf(&o.buf, "  (\"%s\"%%string, %d, %s, %s, %s, %s)%s (* %s *)\n", r.name, r.open, b(r.released), b(r.writes), b(r.reads), b(r.clean), sep, r.note)
	}
	fmt.Fprintf(&o.buf, "].\n\n")
	fmt.Fprintf(&o.buf, "(* (name, lock acquisitions of one operation on one path, touches a protected field itself) *)\n")
	fmt.Fprintf(&o.buf, "Definition callers : list (string * N * bool) := [\n")
	for i, r := range callers {
		sep := ";"
		if i == len(callers)-1 {
			sep = ""
		}
		fmt.Fprintf(&o.buf, "  (\"%s\"%%string, %d, %s)%s (* %s *)\n", r.name, r.acquisitions, b(r.direct), sep, r.note)
	}
	fmt.Fprintf(&o.buf, "].\n")
}
