package main

import (
	"fmt"
	"go/ast"
	"go/token"
	"math/big"
	"path/filepath"
	"strings"
)

// Named constants the models and theorems depend on. Each is read from the
// source by name and evaluated from its defining expression.
var constTable = []constSpec{
	{"dns_header_len", "pkg/dnsutils/net_io.go", "DnsHeaderLen", "", "N"},
	{"tr_dns_header_len", "pkg/upstream/transport/utils.go", "dnsHeaderLen", "", "N"},
	{"default_idle_timeout", "pkg/upstream/transport/transport.go", "defaultIdleTimeout", "", "Z"},
	{"default_dial_timeout", "pkg/upstream/transport/transport.go", "defaultDialTimeout", "", "Z"},
	{"waiting_reply_timeout", "pkg/upstream/transport/transport.go", "waitingReplyTimeout", "", "Z"},
	{"default_tdc_max_cq", "pkg/upstream/transport/transport.go", "defaultTdcMaxConcurrentQuery", "", "N"},
	{"default_max_lazy_conn_queue", "pkg/upstream/transport/transport.go", "defaultMaxLazyConnQueue", "", "N"},
	{"reuse_conn_query_timeout", "pkg/upstream/transport/reuse.go", "reuseConnQueryTimeout", "", "Z"},
	{"pipeline_max_retry", "pkg/upstream/transport/pipeline.go", "maxRetry", "ExchangeContext", "N"},
	{"pipeline_max_reserve_attempt", "pkg/upstream/transport/pipeline.go", "maxReserveAttempt", "getReservedExchanger", "N"},
	{"reuse_max_retry", "pkg/upstream/transport/reuse.go", "maxRetry", "ExchangeContext", "N"},
	{"udp_max_cq_per_conn", "pkg/upstream/upstream.go", "maxConcurrentQueryPreConn", "NewUpstream", "N"},
	{"forward_max_concurrent", "plugin/executable/forward/forward.go", "maxConcurrentQueries", "", "N"},
	{"forward_query_timeout", "plugin/executable/forward/forward.go", "queryTimeout", "", "Z"},
	{"cache_expired_msg_ttl", "plugin/executable/cache/cache.go", "expiredMsgTtl", "", "N"},
	{"cache_lazy_update_timeout", "plugin/executable/cache/cache.go", "defaultLazyUpdateTimeout", "", "Z"},
	{"cache_dump_block_size", "plugin/executable/cache/cache.go", "dumpBlockSize", "", "N"},
	{"cache_dump_max_block_len", "plugin/executable/cache/cache.go", "dumpMaximumBlockLength", "", "N"},
	{"cache_max_empty_answer_ttl", "plugin/executable/cache/utils.go", "maxEmtpyAnswerTtl", "saveRespToCache", "N"},
	{"cache_min_size", "pkg/cache/cache.go", "minSize", "", "N"},
	{"cache_key_ad_bit", "plugin/executable/cache/utils.go", "adBit", "getMsgKey", "N"},
	{"cache_key_cd_bit", "plugin/executable/cache/utils.go", "cdBit", "getMsgKey", "N"},
	{"cache_key_do_bit", "plugin/executable/cache/utils.go", "doBit", "getMsgKey", "N"},
	{"map_shard_size", "pkg/concurrent_map/map.go", "MapShardSize", "", "N"},
	{"edns0_size", "pkg/query_context/context.go", "edns0Size", "", "N"},
	{"fallback_parallel_timeout", "plugin/executable/sequence/fallback/fallback.go", "defaultParallelTimeout", "", "Z"},
	{"fallback_default_threshold", "plugin/executable/sequence/fallback/fallback.go", "defaultFallbackThreshold", "", "Z"},
	{"handler_default_query_timeout", "pkg/server_handler/entry_handler.go", "defaultQueryTimeout", "", "Z"},
}

func init() {
	register(generator{file: "Constants.v", title: "Named constants, loop bounds and comparison operators.", run: genConstants})
}

func genConstants(o *out) {
	for _, cs := range constTable {
		v, err := constValue(cs.file, cs.scope, cs.name)
		if err != nil {
			o.missing(cs.coq, fmt.Sprintf("%s %s: %v", cs.file, cs.name, err))
			continue
		}
		src := cs.file + " " + cs.name
		if cs.kind == "Z" {
			o.defZ(cs.coq, v, src)
		} else {
			o.defN(cs.coq, v, src)
		}
	}

	// The pipelined upstreams of NewUpstream: (queue limit while dialing, limit of the dialled connection),
	// one pair per transport that sets both, in source order. Queries queued while dialing are served
	// by the dialled connection only if the first does not exceed the second (c09_early_callers_served).
	pipelineLimitPairs(o)

	// dns.MaxMsgSize as the writers use it: evaluate the right operand of the
	// "len > dns.MaxMsgSize" guards.
	guard := func(coq, file, fn string) {
		pf, err := parseFile(filepath.Join(repo, file))
		if err != nil {
			o.missing(coq, err.Error())
			return
		}
		fd := funcDecl(pf, fn)
		if fd == nil {
			o.missing(coq, "func "+fn+" not found in "+file)
			return
		}
		var val *big.Int
		var op token.Token
		ast.Inspect(fd.Body, func(n ast.Node) bool {
			if val != nil {
				return false
			}
			is, ok := n.(*ast.IfStmt)
			if !ok {
				return true
			}
			be, ok := is.Cond.(*ast.BinaryExpr)
			if !ok || (be.Op != token.GTR && be.Op != token.GEQ) {
				return true
			}
			c := &evalCtx{pf: pf, files: parseDir(filepath.Dir(pf.path)), scope: fn}
			v, err := eval(c, be.Y, 0)
			if err != nil {
				return true
			}
			val, op = v, be.Op
			return false
		})
		if val == nil {
			o.missing(coq, "no size guard found in "+fn)
			return
		}
		if op == token.GEQ { // len >= K refuses K too: largest accepted is K-1
			val = new(big.Int).Sub(val, big.NewInt(1))
		}
		o.defN(coq, val, file+" "+fn+": largest length not refused")
	}
	guard("max_msg_size", "pkg/dnsutils/net_io.go", "WriteRawMsgToTCP")
	guard("max_msg_size_pack", "pkg/pool/msg_buf.go", "PackTCPBuffer")
	guard("max_msg_size_copy", "pkg/upstream/transport/utils.go", "copyMsgWithLenHdr")

	// ReadRawMsgFromTCP: "length <= DnsHeaderLen" -> smallest accepted length.
	func() {
		coq := "min_frame_len"
		file, fn := "pkg/dnsutils/net_io.go", "ReadRawMsgFromTCP"
		pf, err := parseFile(filepath.Join(repo, file))
		if err != nil {
			o.missing(coq, err.Error())
			return
		}
		fd := funcDecl(pf, fn)
		if fd == nil {
			o.missing(coq, "func not found")
			return
		}
		var val *big.Int
		ast.Inspect(fd.Body, func(n ast.Node) bool {
			if val != nil {
				return false
			}
			is, ok := n.(*ast.IfStmt)
			if !ok {
				return true
			}
			be, ok := is.Cond.(*ast.BinaryExpr)
			if !ok || (be.Op != token.LEQ && be.Op != token.LSS) {
				return true
			}
			c := &evalCtx{pf: pf, files: parseDir(filepath.Dir(pf.path)), scope: fn}
			v, err := eval(c, be.Y, 0)
			if err != nil {
				return true
			}
			if be.Op == token.LEQ {
				v = new(big.Int).Add(v, big.NewInt(1))
			}
			val = v
			return false
		})
		if val == nil {
			o.missing(coq, "no minimum-length guard found")
			return
		}
		o.defN(coq, val, file+" "+fn+": smallest announced length accepted")
	}()

	// addQueueC: number of wire-id candidates tried.
	func() {
		coq := "qid_tries"
		file, fn := "pkg/upstream/transport/conn_traditional.go", "addQueueC"
		pf, err := parseFile(filepath.Join(repo, file))
		if err != nil {
			o.missing(coq, err.Error())
			return
		}
		fd := funcDecl(pf, fn)
		if fd == nil {
			o.missing(coq, "func not found")
			return
		}
		var val *big.Int
		ast.Inspect(fd.Body, func(n ast.Node) bool {
			fs, ok := n.(*ast.ForStmt)
			if !ok || val != nil {
				return val == nil
			}
			be, ok := fs.Cond.(*ast.BinaryExpr)
			if !ok || be.Op != token.LSS {
				return true
			}
			c := &evalCtx{pf: pf, files: parseDir(filepath.Dir(pf.path)), scope: fn}
			if v, err := eval(c, be.Y, 0); err == nil {
				val = v
			}
			return false
		})
		if val == nil {
			o.missing(coq, "loop bound not found")
			return
		}
		o.defN(coq, val, file+" "+fn+": loop bound")
	}()
}


func pipelineLimitPairs(o *out) {
	const coq = "upstream_pipeline_limits"
	const file = "pkg/upstream/upstream.go"
	pf, err := parseFile(filepath.Join(repo, file))
	if err != nil {
		o.missing(coq, err.Error())
		return
	}
	fd := funcDecl(pf, "NewUpstream")
	if fd == nil {
		o.missing(coq, "func NewUpstream not found in "+file)
		return
	}
	files := parseDir(filepath.Dir(filepath.Join(repo, file)))
	type kv struct {
		pos  token.Pos
		conn bool
		e    ast.Expr
	}
	var kvs []kv
	ast.Inspect(fd.Body, func(n ast.Node) bool {
		if x, ok := n.(*ast.KeyValueExpr); ok {
			if id, ok := x.Key.(*ast.Ident); ok {
				switch id.Name {
				case "MaxConcurrentQuery":
					kvs = append(kvs, kv{x.Pos(), true, x.Value})
				case "MaxConcurrentQueryWhileDialing":
					kvs = append(kvs, kv{x.Pos(), false, x.Value})
				}
			}
		}
		return true
	})
	// source order: a connection limit pairs with the next queue limit after it
	for i := range kvs {
		for j := i + 1; j < len(kvs); j++ {
			if kvs[j].pos < kvs[i].pos {
				kvs[i], kvs[j] = kvs[j], kvs[i]
			}
		}
	}
	var pairs []string
	var pending *kv
	bad := false
	for i := range kvs {
		k := kvs[i]
		if k.conn {
			pending = &kvs[i]
			continue
		}
		if pending == nil {
			continue // a transport whose connections have no configured limit (quic)
		}
		c := &evalCtx{pf: pf, files: files, scope: "NewUpstream"}
		qv, err1 := eval(c, k.e, 0)
		c2 := &evalCtx{pf: pf, files: files, scope: "NewUpstream"}
		cv, err2 := eval(c2, pending.e, 0)
		if err1 != nil || err2 != nil {
			bad = true
			break
		}
		pairs = append(pairs, fmt.Sprintf("(%s, %s)", qv.String(), cv.String()))
		pending = nil
	}
	if bad || len(pairs) == 0 {
		o.missing(coq, file+" NewUpstream: the limits of the pipelined transports could not be evaluated")
		return
	}
	fmt.Fprintf(&o.buf, "Definition %s : list (N * N) := [%s]. (* %s NewUpstream: (MaxConcurrentQueryWhileDialing, MaxConcurrentQuery) of each pipelined transport *)\n",
		coq, strings.Join(pairs, "; "), file)
}
