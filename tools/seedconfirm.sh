#!/bin/bash
# tools/seedconfirm.sh <wave> <PID> <pkgdir> <runregex> : confirm /tmp/seed<wave>_<PID>_out/m1 in a scratch worktree:
# the demo passes on the unchanged tree, fails with the patch, and the tree builds and passes its suite with the patch.
export GOFLAGS=-mod=mod GOPROXY=off GOSUMDB=off GOTOOLCHAIN=local
w=$1; id=$2; pkg=$3; rx=$4; src=/tmp/seed${w}_${id}_out/m1; wt=/tmp/confirm${w}_$id
git -C /repo worktree add --detach $wt HEAD >/dev/null 2>&1
cp $src/demo_test.go $wt/$pkg/zz_seed_demo_test.go
cd $wt
echo "-- clean demo:"; go test -vet=off -count=1 -run "$rx" ./$pkg/ 2>&1 | tail -3
git apply $src/patch.diff || echo APPLY-FAILED
echo "-- patched demo:"; go test -vet=off -count=1 -run "$rx" ./$pkg/ 2>&1 | tail -6
rm $wt/$pkg/zz_seed_demo_test.go
echo "-- build+suite patched (silence = all ok):"; go build ./... && go test -vet=off -count=1 ./... 2>&1 | grep -v "^ok\|no test files" | tail -8
cd /; git -C /repo worktree remove --force $wt
