#!/usr/bin/env python3
"""Assemble DESIGN.md from design/parts/*.md and the seeded/*/meta.json results table."""
import json, glob, os
ROOT = os.path.dirname(os.path.dirname(os.path.abspath(__file__)))
parts = [open(os.path.join(ROOT, "design", "parts", n)).read() for n in ("head.md", "mid.md", "tail.md", "appendix.md")]
rows = ["| change | needs, to manifest | quick check on the changed tree |", "|---|---|---|"]
for mp in sorted(glob.glob(os.path.join(ROOT, "seeded", "*", "meta.json"))):
    m = json.load(open(mp))
    res = m.get("check_result", "not run yet")
    rows.append("| `%s` — %s | %s | %s |" % (m["id"], m.get("what", "").replace("|", "/"), m.get("needs", "").replace("|", "/"), res.replace("|", "/")))
txt = "".join(parts).replace("@SEEDTABLE@", "\n".join(rows))
open(os.path.join(ROOT, "DESIGN.md"), "w").write(txt)
print("DESIGN.md: %d lines, %d seeded rows" % (len(txt.splitlines()), len(rows) - 2))
