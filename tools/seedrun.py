#!/usr/bin/env python3
"""tools/seedrun.py Cxx_mK [...] — apply a seeded change to /repo, run the property's quick check, undo the
change, and record in seeded/Cxx_mK/meta.json what the check reported. Refuses to run if /repo is not clean."""
import sys, os, json, subprocess, re, time
ROOT = os.path.dirname(os.path.dirname(os.path.abspath(__file__)))
def sh(cmd, **kw):
    return subprocess.run(cmd, shell=True, text=True, capture_output=True, **kw)
for sid in sys.argv[1:]:
    d = os.path.join(ROOT, "seeded", sid)
    meta = json.load(open(os.path.join(d, "meta.json")))
    pid = meta["property"]
    if sh("git -C /repo status --porcelain --untracked-files=no").stdout.strip():
        raise SystemExit("/repo has uncommitted changes to tracked files")
    a = sh("git -C /repo apply %s" % os.path.join(d, "patch.diff"))
    if a.returncode != 0:
        meta["check_result"] = "patch does not apply to the current tree: " + a.stderr.strip()[:200]
    else:
        t0 = time.time()
        evp = os.path.join(ROOT, "evidence", pid + ".json")
        ev_saved = open(evp).read() if os.path.exists(evp) else None
        try:
            r = sh("cd %s && bin/check %s --tier quick" % (ROOT, pid), timeout=3000)
            out = r.stdout + r.stderr
            viol = [l for l in out.splitlines() if l.startswith("VIOLATION")]
            summ = [l for l in out.splitlines() if re.match(r"C\d+: \d+ cases", l)]
            kind = "MISSED (exit %d)" % r.returncode
            if viol:
                kind = "caught, no-failing-input-found (model/proof no longer matches)" if viol[0].endswith("no-failing-input-found") else "caught with a failing input"
                rp = re.search(r"replay=(\S+)", viol[0]).group(1)
                try:
                    rj = json.load(open(os.path.join(ROOT, rp)))
                    c = rj.get("case") or {}
                    if c.get("id"):
                        kind += " (`%s`)" % c["id"]
                    elif rj.get("broken"):
                        kind += " (" + "; ".join(x.split(":")[0] for x in rj["broken"])[:120] + ")"
                except Exception:
                    pass
            meta["check_result"] = kind
            meta["check_summary"] = (summ or [""])[-1]
            meta["check_wall_s"] = round(time.time() - t0, 1)
        finally:
            sh("git -C /repo apply -R %s" % os.path.join(d, "patch.diff"))
            sh("git -C /repo checkout -- .")
            if ev_saved is not None:   # evidence files describe runs on the unchanged tree only
                open(evp, "w").write(ev_saved)
    meta["ran"] = "git -C /repo apply seeded/%s/patch.diff; bin/check %s --tier quick; git -C /repo checkout -- ." % (sid, pid)
    json.dump(meta, open(os.path.join(d, "meta.json"), "w"), indent=1)
    print(sid, "->", meta["check_result"], "|", meta.get("check_summary", ""))
    sh("rm -rf %s" % os.path.join(ROOT, "replays", pid))
