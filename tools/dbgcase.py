#!/usr/bin/env python3
"""tools/dbgcase.py Judge.Mod cases.jsonl id [extra-coq-expr...] — print the case and evaluate expressions on it (c is bound to the case)."""
import sys, json, subprocess, os
mod, path, want = sys.argv[1:4]
exprs = sys.argv[4:] or ["(agree c, spec c)"]
cases = [json.loads(l) for l in open(path) if '"coq"' in l]
c = [x for x in cases if x['id'] == want][0]
os.makedirs('/verif/.work/t', exist_ok=True)
src = "From Verif Require Import Base.Prelude %s.\nOpen Scope N_scope.\nDefinition c := %s.\n" % (mod, c['coq'])
for e in exprs:
    src += "Eval vm_compute in %s.\n" % e
open('/verif/.work/t/dbg.v', 'w').write(src)
out = subprocess.run(['coqc', '-Q', '/verif/coq', 'Verif', '/verif/.work/t/dbg.v'], capture_output=True, text=True)
print(c['coq'][:3000]); print(out.stdout[-4000:], out.stderr[-800:])
