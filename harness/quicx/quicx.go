// Package quicx holds in-memory stand-ins for quic.Connection and quic.Stream, so that the DoQ client of
// /repo (pkg/upstream/transport/conn_quic.go, reached through transport.NewQuicDnsConn) can be run by a
// driver without a network: the driver decides per stream whether Write fails, what the "server" sends back
// (and in which pieces), and gets a hook between the client building its payload and writing it.
//
// The fake follows the parts of the quic-go contract the DoQ client relies on:
//   - Write hands the bytes to the peer, or fails with the configured error;
//   - Close is the STREAM FIN of the send side only; reads keep working;
//   - the peer answers after it has seen the FIN, with whatever Reply returns for the bytes that arrived;
//   - Read blocks until there is something to read, the end of the reply is io.EOF;
//   - CancelRead unblocks a pending Read and makes every later Read fail.
package quicx

import (
	"bytes"
	"context"
	"errors"
	"io"
	"sync"
	"time"

	"github.com/quic-go/quic-go"
)

// ErrCancelled is what Read returns after CancelRead.
var ErrCancelled = errors.New("quicx: read cancelled")

// ErrNoStream is what OpenStream returns when the connection has no prepared stream left.
var ErrNoStream = errors.New("quicx: too many streams")

// Stream is one bidirectional stream. The zero value is not usable; use NewStream.
type Stream struct {
	quic.Stream // the methods not listed below are never called by the DoQ client; calling one panics

	ID quic.StreamID

	// WriteErr, when set, makes every Write fail with it (nothing reaches the peer).
	WriteErr error
	// OnSetDeadline runs inside SetDeadline. The DoQ client calls SetDeadline after it has built its
	// payload and before it writes it, which makes this the schedule point between the two.
	OnSetDeadline func()
	// OnWritten runs after a successful Write, before Write returns.
	OnWritten func()
	// Reply is called once, when the client's FIN arrives, with everything the client wrote; the reader it
	// returns is what the client's Reads are served from (nil = FIN without data).
	Reply func(received []byte) io.Reader

	mu         sync.Mutex
	wrote      bytes.Buffer
	writes     int
	rd         io.Reader
	finOnce    sync.Once
	fin        chan struct{}
	stopOnce   sync.Once
	stop       chan struct{}
	cancelRead []quic.StreamErrorCode
	cancelWr   []quic.StreamErrorCode
}

func NewStream() *Stream {
	return &Stream{fin: make(chan struct{}), stop: make(chan struct{})}
}

func (s *Stream) StreamID() quic.StreamID { return s.ID }

func (s *Stream) SetDeadline(time.Time) error {
	if s.OnSetDeadline != nil {
		s.OnSetDeadline()
	}
	return nil
}
func (s *Stream) SetReadDeadline(time.Time) error  { return nil }
func (s *Stream) SetWriteDeadline(time.Time) error { return nil }

func (s *Stream) Write(p []byte) (int, error) {
	if s.WriteErr != nil {
		return 0, s.WriteErr
	}
	s.mu.Lock()
	s.wrote.Write(p)
	s.writes++
	s.mu.Unlock()
	if s.OnWritten != nil {
		s.OnWritten()
	}
	return len(p), nil
}

// Close sends the FIN: the peer now has the whole request and prepares its reply.
func (s *Stream) Close() error {
	s.finOnce.Do(func() {
		s.mu.Lock()
		received := append([]byte(nil), s.wrote.Bytes()...)
		s.mu.Unlock()
		var rd io.Reader
		if s.Reply != nil {
			rd = s.Reply(received)
		}
		s.mu.Lock()
		s.rd = rd
		s.mu.Unlock()
		close(s.fin)
	})
	return nil
}

func (s *Stream) Read(p []byte) (int, error) {
	select {
	case <-s.stop:
		return 0, ErrCancelled
	default:
	}
	select {
	case <-s.fin:
	case <-s.stop:
		return 0, ErrCancelled
	}
	s.mu.Lock()
	rd := s.rd
	s.mu.Unlock()
	if rd == nil {
		return 0, io.EOF
	}
	return rd.Read(p)
}

func (s *Stream) CancelRead(c quic.StreamErrorCode) {
	s.mu.Lock()
	s.cancelRead = append(s.cancelRead, c)
	s.mu.Unlock()
	s.stopOnce.Do(func() { close(s.stop) })
}

func (s *Stream) CancelWrite(c quic.StreamErrorCode) {
	s.mu.Lock()
	s.cancelWr = append(s.cancelWr, c)
	s.mu.Unlock()
}

func (s *Stream) Context() context.Context { return context.Background() }

// Written returns a copy of everything that was written on the stream, and the number of Write calls.
func (s *Stream) Written() ([]byte, int) {
	s.mu.Lock()
	defer s.mu.Unlock()
	return append([]byte(nil), s.wrote.Bytes()...), s.writes
}

// FinSent reports whether the client closed its send side.
func (s *Stream) FinSent() bool {
	select {
	case <-s.fin:
		return true
	default:
		return false
	}
}

var _ quic.Stream = (*Stream)(nil)

// Conn hands out prepared streams in order.
type Conn struct {
	quic.Connection // the methods not listed below are never called by the DoQ client; calling one panics

	mu      sync.Mutex
	streams []*Stream
	ctx     context.Context
	cancel  context.CancelFunc
}

func NewConn(streams ...*Stream) *Conn {
	c := &Conn{streams: streams}
	c.ctx, c.cancel = context.WithCancel(context.Background())
	return c
}

func (c *Conn) Context() context.Context { return c.ctx }

func (c *Conn) CloseWithError(quic.ApplicationErrorCode, string) error {
	c.cancel()
	return nil
}

func (c *Conn) OpenStream() (quic.Stream, error) {
	c.mu.Lock()
	defer c.mu.Unlock()
	if len(c.streams) == 0 {
		return nil, ErrNoStream
	}
	s := c.streams[0]
	c.streams = c.streams[1:]
	return s, nil
}

var _ quic.Connection = (*Conn)(nil)

// TimeoutError is a read/write deadline error as quic-go reports it (a net.Error with Timeout() == true).
type TimeoutError struct{}

func (TimeoutError) Error() string   { return "deadline exceeded" }
func (TimeoutError) Timeout() bool   { return true }
func (TimeoutError) Temporary() bool { return true }
