module verifharness

go 1.22.0

toolchain go1.23.0

require (
	github.com/IrineSistiana/go-bytes-pool v0.0.0-20230918115058-c72bd9761c57
	github.com/go-chi/chi/v5 v5.1.0
	github.com/google/nftables v0.2.0
	github.com/kardianos/service v1.2.2
	github.com/klauspost/compress v1.17.11
	github.com/miekg/dns v1.1.62
	github.com/mitchellh/mapstructure v1.5.0
	github.com/nadoo/ipset v0.5.0
	github.com/prometheus/client_golang v1.20.5
	github.com/quic-go/quic-go v0.48.2
	github.com/spf13/cobra v1.8.1
	github.com/spf13/viper v1.19.0
	github.com/stretchr/testify v1.10.0
	github.com/vishvananda/netlink v1.2.1-beta.2.0.20221107222636-d3c0a2caa559
	go.uber.org/zap v1.27.0
	go4.org/netipx v0.0.0-20231129151722-fdeea329fbba
	golang.org/x/exp v0.0.0-20241210194714-1829a127f884
	golang.org/x/net v0.32.0
	golang.org/x/sync v0.10.0
	golang.org/x/sys v0.28.0
	golang.org/x/time v0.8.0
	google.golang.org/protobuf v1.35.2
)

replace github.com/nadoo/ipset v0.5.0 => github.com/IrineSistiana/ipset v0.5.1-0.20220703061533-6e0fc3b04c0a

require (
	github.com/beorn7/perks v1.0.1 // indirect
	github.com/cespare/xxhash/v2 v2.3.0 // indirect
	github.com/davecgh/go-spew v1.1.2-0.20180830191138-d8f796af33cc // indirect
	github.com/fsnotify/fsnotify v1.8.0 // indirect
	github.com/go-task/slim-sprig/v3 v3.0.0 // indirect
	github.com/google/go-cmp v0.6.0 // indirect
	github.com/google/pprof v0.0.0-20241210010833-40e02aabc2ad // indirect
	github.com/hashicorp/hcl v1.0.0 // indirect
	github.com/inconshreveable/mousetrap v1.1.0 // indirect
	github.com/josharian/native v1.1.0 // indirect
	github.com/magiconair/properties v1.8.9 // indirect
	github.com/mdlayher/netlink v1.7.2 // indirect
	github.com/mdlayher/socket v0.5.1 // indirect
	github.com/munnerz/goautoneg v0.0.0-20191010083416-a7dc8b61c822 // indirect
	github.com/onsi/ginkgo/v2 v2.22.0 // indirect
	github.com/pelletier/go-toml/v2 v2.2.3 // indirect
	github.com/pmezard/go-difflib v1.0.1-0.20181226105442-5d4384ee4fb2 // indirect
	github.com/prometheus/client_model v0.6.1 // indirect
	github.com/prometheus/common v0.61.0 // indirect
	github.com/prometheus/procfs v0.15.1 // indirect
	github.com/quic-go/qpack v0.5.1 // indirect
	github.com/sagikazarmark/locafero v0.6.0 // indirect
	github.com/sagikazarmark/slog-shim v0.1.0 // indirect
	github.com/sourcegraph/conc v0.3.0 // indirect
	github.com/spf13/afero v1.11.0 // indirect
	github.com/spf13/cast v1.7.0 // indirect
	github.com/spf13/pflag v1.0.5 // indirect
	github.com/subosito/gotenv v1.6.0 // indirect
	github.com/vishvananda/netns v0.0.4 // indirect
	go.uber.org/mock v0.5.0 // indirect
	go.uber.org/multierr v1.11.0 // indirect
	golang.org/x/crypto v0.30.0 // indirect
	golang.org/x/mod v0.22.0 // indirect
	golang.org/x/text v0.21.0 // indirect
	golang.org/x/tools v0.28.0 // indirect
	gopkg.in/ini.v1 v1.67.0 // indirect
	gopkg.in/yaml.v3 v3.0.1 // indirect
)

require github.com/IrineSistiana/mosdns/v5 v5.0.0

replace github.com/IrineSistiana/mosdns/v5 => /repo
