package tdcx

import "verifharness/hx"

// Catalogue returns the hand-written scripts: the windows the properties name.
func Catalogue() map[string]Script {
	m := map[string]Script{}
	for _, tcp := range []bool{true, false} {
		sfx := map[bool]string{true: ":tcp", false: ":udp"}[tcp]
		mk := func(name string, maxcq int, nq0 uint16, as ...Action) {
			m[name+sfx] = Script{MaxCq: maxcq, TCP: tcp, Nq0: nq0, Actions: as}
		}
		res := func(c int, orig uint16) Action { return Action{K: AReserve, C: c, Orig: orig} }
		start := func(c int) Action { return Action{K: AStart, C: c} }
		wok := func(c int) Action { return Action{K: AWriteEnd, C: c, Ok: true} }
		whold := func(c int) Action { return Action{K: AWriteEnd, C: c, Ok: true, Hold: true} }
		werr := func(c int) Action { return Action{K: AWriteEnd, C: c, Ok: false} }
		rel := func(c int) Action { return Action{K: ARelease, C: c} }
		reply := func(c, tag int) Action { return Action{K: AFeedReply, C: c, Tag: tag} }
		stray := func(w uint16, tag int) Action { return Action{K: AFeedStray, Wid: w, Tag: tag} }
		eof := Action{K: AFeedErr}
		cls := Action{K: AClose}
		cancel := func(c int) Action { return Action{K: ACancel, C: c} }
		wd := func(c int) Action { return Action{K: AWithdraw, C: c} }
		setq := func(w uint16) Action { return Action{K: ASetQid, Wid: w} }

		// C02 windows
		mk("c02:reply-while-waiting", 4, 7, res(0, 11), start(0), wok(0), reply(0, 100))
		mk("c02:reply-during-write", 4, 7, res(0, 11), start(0), reply(0, 100), wok(0))
		mk("c02:reply-before-wait", 4, 7, res(0, 11), start(0), whold(0), reply(0, 100), rel(0))
		mk("c02:reply-then-eof-before-wait", 4, 7, res(0, 11), start(0), whold(0), reply(0, 100), eof, rel(0))
		mk("c02:reply-then-close-before-wait", 4, 7, res(0, 11), start(0), whold(0), reply(0, 100), cls, rel(0))
		mk("c02:reply-then-cancel-before-wait", 4, 7, res(0, 11), start(0), whold(0), reply(0, 100), cancel(0), rel(0))
		mk("c02:reply-eof-cancel-before-wait", 4, 7, res(0, 11), start(0), whold(0), reply(0, 100), eof, cancel(0), rel(0))
		mk("c02:reply-during-write-then-write-error", 4, 7, res(0, 11), start(0), reply(0, 100), werr(0))
		mk("c02:reply-during-write-then-eof", 4, 7, res(0, 11), start(0), reply(0, 100), eof, wok(0))
		mk("c02:two-callers-reply-then-eof", 4, 0, res(0, 5), res(1, 5), start(0), start(1), whold(0), whold(1),
			reply(1, 101), reply(0, 100), eof, rel(0), rel(1))
		mk("c02:other-callers-write-error-after-reply", 4, 0, res(0, 5), res(1, 6), start(0), whold(0), start(1),
			reply(0, 100), werr(1), rel(0))
		mk("c02:cancel-then-reply", 4, 0, res(0, 5), start(0), whold(0), cancel(0), reply(0, 100), rel(0))
		// C01
		mk("c01:permuted-dup-stray", 8, 65534, res(0, 0), res(1, 0), res(2, 65535), res(3, 65535),
			start(0), start(1), start(2), start(3), wok(0), wok(1), wok(2), wok(3),
			stray(77, 900), reply(2, 102), reply(2, 1020), reply(0, 100), stray(78, 901), reply(3, 103), reply(1, 101), reply(1, 1010))
		mk("c01:late-reply-after-cancel", 4, 10, res(0, 1), start(0), wok(0), cancel(0), reply(0, 100),
			res(1, 1), start(1), wok(1), reply(0, 1000), reply(1, 101))
		mk("c02:runt-datagram-then-reply", 4, 0, res(0, 1), start(0), wok(0), Action{K: ARunt, Tag: 5}, reply(0, 100), res(1, 1), start(1), wok(1), Action{K: ARunt, Tag: 11}, Action{K: ARunt, Tag: 1}, reply(1, 101))
		// the reader is parked between looking up the waiter and handing the reply over
		hold := func(c, tag int) Action { return Action{K: AFeedHoldReply, C: c, Tag: tag} }
		rgo := Action{K: AReaderGo}
		mk("c01:reader-parked-waiter-cancelled-next-call", 4, 0, res(0, 0xbbbb), start(0), wok(0), hold(0, 100), cancel(0),
			res(1, 0xcccc), start(1), wok(1), rgo, reply(1, 101))
		mk("c01:reader-parked-two-callers", 4, 7, res(0, 1), res(1, 2), start(0), start(1), wok(0), wok(1), hold(1, 101), cancel(1),
			res(2, 3), start(2), wok(2), rgo, reply(0, 100), reply(2, 102))
		mk("c02:reader-parked-then-delivers", 4, 7, res(0, 11), start(0), wok(0), hold(0, 100), rgo)
		// the reader is descheduled inside Read, the reply already taken off the connection, while the
		// connection is closed under it (a sibling's failing Write, Close): the reply still belongs to its
		// caller as long as that caller has not returned
		rhold := func(c, tag int) Action { return Action{K: AFeedReadReply, C: c, Tag: tag} }
		mk("c02:read-then-sibling-write-fails-before-lookup", 4, 7, res(0, 11), res(1, 12), start(0), start(1), whold(0),
			rhold(0, 100), werr(1), rgo, rel(0))
		mk("c02:read-then-close-before-lookup", 4, 7, res(0, 11), start(0), whold(0), rhold(0, 100), cls, rgo, rel(0))
		mk("c02:read-then-sibling-write-fails-owner-still-in-write", 4, 7, res(0, 11), res(1, 12), start(0), start(1),
			rhold(0, 100), werr(1), rgo, wok(0))
		mk("c02:read-then-sibling-write-fails-owner-write-fails-too", 4, 7, res(0, 11), res(1, 12), start(0), start(1),
			rhold(0, 100), werr(1), rgo, werr(0))
		mk("c02:read-parked-owner-gone-before-lookup", 4, 7, res(0, 11), res(1, 12), start(0), start(1), wok(0), wok(1),
			rhold(0, 100), cancel(0), res(2, 13), start(2), rgo, wok(2), reply(2, 102), reply(1, 101))
		mk("c02:lookup-then-sibling-write-fails", 4, 7, res(0, 11), res(1, 12), start(0), start(1), whold(0),
			hold(0, 100), werr(1), rgo, rel(0))
		mk("c02:lookup-then-close", 4, 7, res(0, 11), start(0), whold(0), hold(0, 100), cls, rgo, rel(0))
		// two (three) replies arrive in one segment: one Read may return more than one frame
		pair := func(c, t, c2, t2 int) Action { return Action{K: AFeedPair, C: c, Tag: t, C2: c2, Tag2: t2} }
		mk("c02:two-replies-in-one-segment", 4, 7, res(0, 11), res(1, 12), start(0), start(1), wok(0), wok(1), pair(0, 100, 1, 101))
		mk("c02:two-replies-in-one-segment-before-wait", 4, 7, res(0, 11), res(1, 12), res(2, 13), start(0), start(1), start(2), whold(0), whold(1), wok(2),
			pair(1, 101, 0, 100), rel(0), rel(1), reply(2, 102))
		// the last bytes of the reply come back from Read together with EOF (TLS close_notify behind the data)
		mk("c02:reply-in-two-pieces", 4, 7, res(0, 11), res(1, 12), start(0), start(1), wok(0), wok(1),
			Action{K: AFeedSplitReply, C: 0, Tag: 100}, Action{K: AFeedSplitReply, C: 1, Tag: 101})
		mk("c02:reply-bytes-with-eof", 4, 7, res(0, 11), start(0), wok(0), Action{K: AFeedEofReply, C: 0, Tag: 100})
		mk("c02:reply-bytes-with-eof-before-wait", 4, 7, res(0, 11), res(1, 12), start(0), start(1), whold(0), wok(1),
			Action{K: AFeedEofReply, C: 0, Tag: 100}, rel(0))
		// duplicate replies while the owner has not taken the first one must not stall the reader
		mk("c02:duplicate-replies-do-not-stall-the-reader", 4, 0, res(0, 1), res(1, 2), start(0), start(1), whold(0), wok(1),
			reply(0, 100), reply(0, 1000), reply(0, 1001), reply(1, 101))
		// datagram framing: a query that is re-sent after a second keeps its wire id (caller ids collide with the
		// other call's wire id here, so a re-send under the caller's id would be answered into the other call)
		mk("c01:udp-resend-keeps-wire-id", 4, 0, res(0, 1), res(1, 0), start(0), start(1), wok(0), wok(1), Action{K: ASleep},
			reply(1, 101), reply(0, 100))
		mk("c01:wrap", 4, 65535, res(0, 9), res(1, 9), res(2, 9), start(0), start(1), start(2), wok(0), wok(1), wok(2),
			reply(1, 101), reply(2, 102), reply(0, 100))
		mk("c01:skip-taken-ids", 8, 0, res(0, 1), res(1, 2), start(0), start(1), wok(0), wok(1), setq(0),
			res(2, 3), start(2), wok(2), res(3, 4), start(3), wok(3), reply(3, 103), reply(2, 102), reply(1, 101), reply(0, 100))
		mk("c01:reply-to-finished-id", 4, 3, res(0, 1), start(0), wok(0), reply(0, 100), reply(0, 1000), stray(3, 9))
		// C09
		mk("c09:limit-1", 1, 0, res(0, 1), res(1, 1), start(0), res(2, 1), wok(0), res(3, 1), reply(0, 100), res(4, 1), start(4), wok(4), reply(4, 104))
		mk("c09:limit-2-withdraw", 2, 0, res(0, 1), res(1, 1), res(2, 1), wd(0), res(3, 1), res(4, 1), start(1), start(3),
			res(5, 1), wok(1), wok(3), reply(1, 101), res(6, 1), reply(3, 103), res(7, 1), res(8, 1), res(9, 1))
		mk("c09:cancel-and-error-release", 2, 0, res(0, 1), res(1, 1), start(0), start(1), wok(0), wok(1), cancel(0), res(2, 1), res(3, 1),
			start(2), wok(2), eof, res(4, 1))
		mk("c09:closed-refuses", 2, 0, res(0, 1), cls, res(1, 1), start(0), res(2, 1))
		mk("c09:reserved-then-closed", 3, 0, res(0, 1), res(1, 1), start(0), wok(0), eof, start(1), res(2, 1))
		// 101 calls hold the ids 0..100; the id counter is forced back to 0: the next call finds its 100 candidates taken
		{
			var as []Action
			for c := 0; c <= 100; c++ {
				as = append(as, res(c, uint16(c)), start(c), wok(c))
			}
			as = append(as, setq(0), res(101, 7), start(101), res(102, 7), res(103, 7), setq(200), start(102), wok(102), reply(102, 1102),
				reply(5, 1005), res(104, 1), res(105, 1))
			mk("c09:id-exhaustion", 104, 0, as...)
		}
		// C07 safety core
		mk("c07:eof-wakes-all", 4, 0, res(0, 1), res(1, 2), res(2, 3), start(0), start(1), start(2), wok(0), wok(1), eof, wok(2))
		mk("c07:write-error-wakes-all", 4, 0, res(0, 1), res(1, 2), start(0), start(1), wok(0), werr(1))
		mk("c07:close-wakes-all", 4, 0, res(0, 1), res(1, 2), start(0), start(1), wok(0), cls, wok(1))
		for _, n := range []string{"c07:eof-wakes-all", "c07:write-error-wakes-all", "c07:close-wakes-all"} {
			sc := m[n+sfx]
			sc.SlowClose = true
			m[n+":slow-socket-close"+sfx] = sc
		}
		mk("c07:cancel-wakes-one", 4, 0, res(0, 1), res(1, 2), start(0), start(1), wok(0), wok(1), cancel(1))
		mk("c07:silence-blocks", 4, 0, res(0, 1), start(0), wok(0))
		exp := Action{K: AExpire}
		mk("c07:silence-then-waiting-deadline", 4, 0, res(0, 1), res(1, 2), start(0), start(1), wok(0), wok(1), exp, res(2, 3))
		mk("c07:idle-deadline-closes-idle-conn", 4, 0, res(0, 1), start(0), wok(0), reply(0, 100), exp, res(1, 1))
		mk("c07:reply-then-silence", 4, 0, res(0, 1), res(1, 2), start(0), start(1), wok(0), wok(1), reply(0, 100), exp)
		// a frame nobody waits for must leave the "waiting for a reply" state consistent: the next query
		// written arms the waiting-reply deadline again
		mk("c07:stray-then-query-then-silence", 4, 0, res(0, 1), start(0), wok(0), stray(9, 900), res(1, 2), start(1), wok(1), exp, res(2, 3))
		mk("c07:late-reply-then-query-then-silence", 4, 10, res(0, 1), start(0), wok(0), cancel(0), reply(0, 100), res(1, 1), start(1), wok(1), exp)
		mk("c07:reply-idle-then-query-then-silence", 4, 0, res(0, 1), start(0), wok(0), reply(0, 100), res(1, 1), start(1), wok(1), exp)
		mk("c07:udp-resend-does-not-postpone-the-deadline", 4, 0, res(0, 1), start(0), wok(0), Action{K: ASleep}, exp, res(1, 2))
		mk("c07:cancel-while-in-write", 4, 0, res(0, 1), start(0), cancel(0), wok(0))
		mk("c07:close-while-in-write", 4, 0, res(0, 1), start(0), cls, wok(0))
		mk("c07:reserve-after-faults", 2, 0, res(0, 1), start(0), werr(0), res(1, 1), res(2, 1))
	}
	return m
}

// RandomNext returns a generator of random, environment-respecting actions.
// focus shifts the weights: "C01" many callers and replies, "C02" holds and
// faults right after replies, "C09" reservations around the limit.
func RandomNext(r *hx.RNG, focus string, maxSteps int) (Script, func(v *View) *Action) {
	s := Script{SlowClose: r.Chance(1, 5), MaxCq: hx.Pick(r, []int{1, 2, 2, 3, 4, 8}), TCP: r.Chance(4, 5),
		Nq0: hx.Pick(r, []uint16{0, 0, 1, 65533, 65534, 65535, uint16(r.Intn(65536))})}
	ncalls := r.Range(2, 7)
	if focus == "C09" {
		ncalls = r.Range(s.MaxCq+1, s.MaxCq+6)
	}
	nextCall, tag := 0, 100
	return s, func(v *View) *Action {
		if v.Steps >= maxSteps {
			return nil
		}
		for try := 0; try < 60; try++ {
			var a Action
			c := r.Intn(ncalls)
			w := map[string][]int{
				//       res wd start wend rel reply stray eof close cancel setq expire
				"C01": {12, 1, 14, 14, 3, 30, 6, 1, 1, 3, 1, 0},
				"C02": {10, 1, 12, 16, 10, 18, 2, 6, 3, 6, 0, 1},
				"C09": {30, 8, 12, 10, 2, 12, 1, 2, 1, 6, 0, 0},
				"C07": {10, 1, 12, 14, 4, 8, 2, 5, 5, 8, 0, 6},
			}[focus]
			if w == nil {
				w = []int{10, 2, 12, 12, 4, 16, 3, 3, 2, 5, 1, 1}
			}
			w = append(append([]int{}, w...), 2, 3, 2, 1, 3, 3, 3) // … reader parked inside Read, two replies in one segment; runt datagram (UDP only), parked reader: hold / go, reply+EOF, reply in two pieces (TCP only)
			tot := 0
			for _, x := range w {
				tot += x
			}
			k := r.Intn(tot)
			kind := 0
			for k >= w[kind] {
				k -= w[kind]
				kind++
			}
			switch kind {
			case 0:
				if nextCall >= ncalls+6 {
					continue
				}
				a = Action{K: AReserve, C: nextCall, Orig: hx.Pick(r, []uint16{0, 0, 65535, 1, uint16(r.Intn(65536))})}
			case 1:
				a = Action{K: AWithdraw, C: c}
			case 2:
				a = Action{K: AStart, C: c}
			case 3:
				a = Action{K: AWriteEnd, C: c, Ok: !r.Chance(1, 10), Hold: r.Chance(2, 5)}
				if !a.Ok {
					a.Hold = false
				}
			case 4:
				a = Action{K: ARelease, C: c}
			case 5:
				tag++
				a = Action{K: AFeedReply, C: c, Tag: tag}
			case 6:
				tag++
				a = Action{K: AFeedStray, Wid: uint16(int(s.Nq0) + r.Range(-3, 12)), Tag: tag}
			case 7:
				a = Action{K: AFeedErr}
			case 8:
				a = Action{K: AClose}
			case 9:
				a = Action{K: ACancel, C: c}
			case 10:
				a = Action{K: ASetQid, Wid: uint16(int(s.Nq0) + r.Range(-2, 4))}
			case 11:
				a = Action{K: AExpire}
			case 12:
				a = Action{K: ARunt, Tag: r.Range(1, 11)}
			case 13:
				tag++
				a = Action{K: AFeedHoldReply, C: c, Tag: tag}
			case 14:
				a = Action{K: AReaderGo}
			case 15:
				tag++
				a = Action{K: AFeedEofReply, C: c, Tag: tag}
			case 16:
				tag++
				a = Action{K: AFeedSplitReply, C: c, Tag: tag}
			case 17:
				tag++
				a = Action{K: AFeedReadReply, C: c, Tag: tag}
			case 18:
				tag += 2
				a = Action{K: AFeedPair, C: c, Tag: tag - 1, Tag2: tag}
			}
			// reserve picks the next unused call id; the others pick among existing ones
			if a.K != AReserve && a.K != AFeedStray && a.K != AFeedErr && a.K != AClose && a.K != ASetQid && a.K != AExpire && a.K != ARunt && a.K != AReaderGo {
				if nextCall == 0 {
					continue
				}
				a.C = r.Intn(nextCall)
				if a.K == AFeedPair {
					a.C2 = r.Intn(nextCall)
				}
			}
			if v.Applicable(a) {
				if a.K == AReserve {
					nextCall++
				}
				return &a
			}
		}
		return nil
	}
}
