package tdcx

import (
	"fmt"
	"sync"

	"verifharness/hx"

	"github.com/IrineSistiana/mosdns/v5/pkg/upstream/transport"
)

// StressReserve: admission is one atomic step. A connection at limit-1 is asked for a reservation by several
// goroutines released together; exactly one may be admitted, and the connection's own counters never exceed
// the limit. (The transition system's LReserve is atomic; this is the part of the correspondence no scripted
// schedule can force, because the unchanged code has no window between the check and the count.)
func StressReserve(w *hx.Writer, o *hx.Opts) {
	id := "stress:reserve-at-limit"
	if !o.Want(id) {
		return
	}
	hookMu.Lock()
	defer hookMu.Unlock()
	rounds := o.Count(20000, 300000)
	const limit, contenders = 4, 8
	for _, tcp := range []bool{true, false} {
		fc := newFakeConn(tcp)
		dc := transport.NewDnsConn(transport.TraditionalDnsConnOpts{WithLengthHeader: tcp, MaxConcurrentQuery: limit, IdleTimeout: idleTimeout}, fc)
		var held []transport.ReservedExchanger
		for i := 0; i < limit-1; i++ {
			rx, _ := dc.ReserveNewQuery()
			if rx == nil {
				w.Violation(id, fmt.Sprintf("a fresh connection with limit %d refused reservation %d", limit, i+1), map[string]any{"tcp": tcp})
				dc.Close()
				return
			}
			held = append(held, rx)
		}
		bad := false
		for r := 0; r < rounds && !bad; r++ {
			var wg sync.WaitGroup
			start := make(chan struct{})
			got := make([]transport.ReservedExchanger, contenders)
			for g := 0; g < contenders; g++ {
				wg.Add(1)
				go func(g int) {
					defer wg.Done()
					<-start
					got[g], _ = dc.ReserveNewQuery()
				}(g)
			}
			close(start)
			wg.Wait()
			adm := 0
			for _, rx := range got {
				if rx != nil {
					adm++
				}
			}
			res, q := dc.VerifCounters()
			if adm != 1 || res+q > limit {
				w.Violation(id, fmt.Sprintf("round %d: a connection with limit %d and %d reservations outstanding admitted %d of %d simultaneous requests (its counters: %d reserved + %d queued)",
					r, limit, limit-1, adm, contenders, res, q), map[string]any{"tcp": tcp, "round": r})
				bad = true
			}
			for _, rx := range got {
				if rx != nil {
					rx.WithdrawReserved()
				}
			}
		}
		for _, rx := range held {
			rx.WithdrawReserved()
		}
		dc.Close()
		w.Tally("reserve-stress-rounds", rounds)
	}
}
