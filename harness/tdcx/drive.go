package tdcx

import (
	"fmt"
	"sort"

	"verifharness/hx"
)

// Drive runs the catalogue and the seeded random schedules for one property
// focus and emits one case per script; wrap turns the Judge.Tdc.case literal
// into the literal of the calling driver's case type.
func Drive(w *hx.Writer, o *hx.Opts, focus string, wrap func(string) string) {
	emit := func(id string, s Script, obs []Obs, f Final) {
		acts := make([]string, len(s.Actions))
		for i, a := range s.Actions {
			acts[i] = a.String()
		}
		fkey := ""
		if f.IdleRearm {
			fkey = "idle-rearm-with-outstanding"
		}
		w.Emit("tdc-script", hx.Case{ID: id, FKey: fkey, Coq: wrap(CaseCoq(s, obs, f)),
			Desc: map[string]any{"slow_close": s.SlowClose, "tcp": s.TCP, "maxcq": s.MaxCq, "nq0": s.Nq0, "actions": acts, "blocked": f.Blocked,
				"reserved": f.Reserved, "queued": f.Queued, "closed": f.Closed}})
		w.Tally("tdc-actions", len(s.Actions))
	}
	cat := Catalogue()
	names := make([]string, 0, len(cat))
	for n := range cat {
		names = append(names, n)
	}
	sort.Strings(names)
	for _, n := range names {
		id := "cat:" + n
		if !o.Want(id) {
			continue
		}
		reps := 1
		if len(n) > 3 && n[:3] == "c02" {
			reps = o.Count(6, 40) / 2 // Go's select picks randomly among ready cases
		}
		for i := 0; i < reps; i++ {
			s, obs, f := RunScript(cat[n])
			emit(id, s, obs, f)
		}
	}
	n := o.Count(700, 12000)
	for i := 0; i < n; i++ {
		id := fmt.Sprintf("gen:%s:%d", focus, i)
		if !o.Want(id) {
			continue
		}
		r := hx.NewRNG(o.Seed, id)
		s0, next := RandomNext(r, focus, r.Range(8, 40))
		s, obs, f := Run(s0, next)
		emit(id, s, obs, f)
	}
}
