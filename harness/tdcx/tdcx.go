// Package tdcx runs scripted schedules against the real
// transport.TraditionalDnsConn over a fake NetConn and renders script +
// observations as a Gallina term of type Judge.Tdc.case (see coq/Judge/Tdc.v
// and DESIGN.md Appendix B for the action <-> label mapping).
package tdcx

import (
	"context"
	"encoding/binary"
	"errors"
	"fmt"
	"io"
	"net"
	"os"
	"sort"
	"strings"
	"sync"
	"sync/atomic"
	"time"

	"verifharness/hx"

	"github.com/IrineSistiana/mosdns/v5/pkg/pool"
	"github.com/IrineSistiana/mosdns/v5/pkg/upstream/transport"
	"github.com/IrineSistiana/mosdns/v5/pkg/verifhook"
	"github.com/miekg/dns"
)

// ---------- script ----------

type Kind int

const (
	AReserve Kind = iota
	AWithdraw
	AStart
	AWriteEnd
	ARelease
	AFeedReply
	AFeedStray
	AFeedErr
	AClose
	ACancel
	ASetQid
	AExpire
	ARunt // UDP: a datagram shorter than a DNS header (Tag = its length, 1..11)
	ASleep // UDP: 1.15 s of real time pass (waiting callers re-send once)
	AFeedEofReply  // TCP: the last bytes of call C's reply come back from Read together with io.EOF
	AFeedHoldReply // the reader reads call C's reply, looks up its waiter and is parked before handing it over
	AFeedHoldStray // the same for a frame with wire id Wid
	AReaderGo      // the parked reader goes on
	AFeedPair      // stream framing: the replies to calls C and C2 arrive in one segment (one Read can return both); two AFeed entries in the script
	AFeedReadReply // the reader's Read takes call C's reply off the connection and is parked before it returns (no lookup yet)
	AFeedSplitReply // TCP: call C's reply arrives in two pieces (the body is cut; the reader has consumed the first piece)
)

type Action struct {
	K    Kind
	C    int    // call
	Orig uint16 // AReserve: caller's message id
	Ok   bool   // AWriteEnd
	Hold bool   // AWriteEnd: park the caller at "tdc.exchange.written"
	Tag  int    // AFeedReply / AFeedStray: payload tag
	Wid  uint16 // AFeedStray / ASetQid
	C2   int    // AFeedPair: the second call
	Tag2 int    // AFeedPair: its payload tag
	// Answer: AFeedStray synthesised by the executor — the server's answer to a re-sent datagram of call C that
	// carried the id Wid instead of C's wire id (an honest server answers under the id it received)
	Answer bool
}

type Ret struct {
	C    int
	Kind int // 0 reply, 1 error
	A, B int // reply: tag, id; error: class
}

type Obs struct {
	Code int
	Ret  []Ret
}

type Script struct {
	MaxCq   int
	TCP     bool
	Nq0     uint16
	Actions []Action
	// SlowClose: the socket's Close takes a few milliseconds (a TLS close_notify flush): everybody woken by the
	// close runs before it returns. Not part of the model: a close is one step there.
	SlowClose bool
}

type Final struct {
	Reserved, Queued int
	Closed           bool
	Blocked          []int
	Arms             []int // every SetReadDeadline: 1 idle timeout, 2 waiting-reply timeout
	// IdleRearm: the read deadline expired while a query was written and
	// unanswered and the deadline armed was the idle one (finding F10).
	IdleRearm bool
}

// ---------- Coq rendering ----------

func (a Action) Coq() string {
	c := hx.Nat(a.C)
	switch a.K {
	case AReserve:
		return hx.App("AReserve", c, hx.Ni(int(a.Orig)))
	case AWithdraw:
		return hx.App("AWithdraw", c)
	case AStart:
		return hx.App("AStart", c)
	case AWriteEnd:
		return hx.App("AWriteEnd", c, hx.Bool(a.Ok), hx.Bool(a.Hold))
	case ARelease:
		return hx.App("ARelease", c)
	case AFeedReply:
		return hx.App("AFeed", hx.App("FReply", c, hx.Ni(a.Tag)))
	case AFeedStray:
		return hx.App("AFeed", hx.App("FStray", hx.Ni(int(a.Wid)), hx.Ni(a.Tag)))
	case AFeedErr:
		return "AFeedErr"
	case AClose:
		return "AClose"
	case ACancel:
		return hx.App("ACancel", c)
	case ASetQid:
		return hx.App("ASetQid", hx.Ni(int(a.Wid)))
	case AExpire:
		return "AExpire"
	case ARunt:
		return hx.App("ARunt", hx.Ni(a.Tag))
	case ASleep:
		return "ASleep"
	case AFeedEofReply:
		return hx.App("AFeedEof", hx.App("FReply", c, hx.Ni(a.Tag)))
	case AFeedHoldReply:
		return hx.App("AFeedHold", hx.App("FReply", c, hx.Ni(a.Tag)))
	case AFeedHoldStray:
		return hx.App("AFeedHold", hx.App("FStray", hx.Ni(int(a.Wid)), hx.Ni(a.Tag)))
	case AReaderGo:
		return "AReaderGo"
	case AFeedReadReply:
		return hx.App("AFeedRead", hx.App("FReply", c, hx.Ni(a.Tag)))
	case AFeedSplitReply:
		return hx.App("AFeedSplit", hx.App("FReply", c, hx.Ni(a.Tag)))
	}
	return "?"
}

func (a Action) String() string {
	return strings.NewReplacer("(", "", ")", "", "%nat", "").Replace(a.Coq())
}

func (o Obs) Coq() string {
	rs := make([]string, len(o.Ret))
	for i, r := range o.Ret {
		rs[i] = hx.Tuple(hx.Nat(r.C), hx.Ni(r.Kind), hx.Ni(r.A), hx.Ni(r.B))
	}
	return hx.App("mkObs", hx.Ni(o.Code), hx.List(rs))
}

func CaseCoq(s Script, obs []Obs, f Final) string {
	items := make([]string, len(s.Actions))
	for i := range s.Actions {
		items[i] = hx.Tuple(s.Actions[i].Coq(), obs[i].Coq())
	}
	bl := make([]string, len(f.Blocked))
	for i, c := range f.Blocked {
		bl[i] = hx.Nat(c)
	}
	return hx.App("CTdc", hx.Ni(s.MaxCq), hx.Bool(s.TCP), hx.Ni(int(s.Nq0)), hx.List(items),
		hx.Ni(f.Reserved), hx.Ni(f.Queued), hx.Bool(f.Closed), hx.List(bl), hx.NList(f.Arms))
}

// ---------- fake connection ----------

type writeEv struct {
	c   int
	wid uint16
}

type fakeConn struct {
	tcp bool

	mu       sync.Mutex
	cond     *sync.Cond
	buf      []byte
	readErr  error
	closed   bool
	errWithData bool // deliver readErr together with the bytes that empty the buffer
	idleRead int // number of times Read was entered with nothing to deliver
	slowClose  bool
	holdRead   bool          // park the Read that takes the last byte of the buffer before it returns
	readRel    chan struct{} // released by the executor
	readParked chan struct{}
	gated    map[int]bool
	firstWid map[int]uint16
	resent   []writeEv // re-sent datagrams (UDP), in order
	gates    map[int]chan error
	writeEvs chan writeEv
	closeCh  chan struct{}
	arms     []time.Duration
}

func newFakeConn(tcp bool) *fakeConn {
	f := &fakeConn{tcp: tcp, gated: map[int]bool{}, firstWid: map[int]uint16{}, gates: map[int]chan error{},
		writeEvs: make(chan writeEv, 64), closeCh: make(chan struct{}), readParked: make(chan struct{}, 1)}
	f.cond = sync.NewCond(&f.mu)
	return f
}

func (f *fakeConn) Read(p []byte) (int, error) {
	f.mu.Lock()
	defer f.mu.Unlock()
	if len(f.buf) == 0 && f.readErr == nil && !f.closed {
		f.idleRead++
		f.cond.Broadcast()
	}
	for len(f.buf) == 0 && f.readErr == nil && !f.closed {
		f.cond.Wait()
	}
	if len(f.buf) > 0 {
		n := copy(p, f.buf)
		if !f.tcp {
			n = copy(p, f.buf)
			f.buf = nil // datagram
		} else {
			f.buf = f.buf[n:]
		}
		if f.errWithData && len(f.buf) == 0 && f.readErr != nil {
			return n, f.readErr // as crypto/tls does when close_notify is already behind the data
		}
		if f.holdRead && len(f.buf) == 0 {
			// the bytes are the reader's; it is descheduled before Read returns. Whatever happens to the
			// connection meanwhile, this Read has succeeded.
			f.holdRead = false
			rel := f.readRel
			f.mu.Unlock()
			f.readParked <- struct{}{}
			<-rel
			f.mu.Lock()
		}
		return n, nil
	}
	if f.readErr != nil {
		return 0, f.readErr
	}
	return 0, net.ErrClosed
}

// waitIdle blocks until the reader has entered Read with an empty buffer at
// least n times in total (or the connection is closed).
func (f *fakeConn) waitIdle(n int, d time.Duration) bool {
	deadline := time.Now().Add(d)
	f.mu.Lock()
	defer f.mu.Unlock()
	for f.idleRead < n && !f.closed {
		if time.Now().After(deadline) {
			return false
		}
		f.mu.Unlock()
		time.Sleep(50 * time.Microsecond)
		f.mu.Lock()
	}
	return true
}

func (f *fakeConn) feed(b []byte) {
	f.mu.Lock()
	f.buf = append(f.buf, b...)
	f.cond.Broadcast()
	f.mu.Unlock()
}

func (f *fakeConn) feedWithErr(b []byte, err error) {
	f.mu.Lock()
	f.buf = append(f.buf, b...)
	f.readErr = err
	f.errWithData = true
	f.cond.Broadcast()
	f.mu.Unlock()
}

func (f *fakeConn) feedErr(err error) {
	f.mu.Lock()
	f.readErr = err
	f.cond.Broadcast()
	f.mu.Unlock()
}

func (f *fakeConn) Write(p []byte) (int, error) {
	b := p
	if f.tcp {
		if len(b) < 2 {
			return 0, errors.New("fake: short write")
		}
		b = b[2:]
	}
	m := new(dns.Msg)
	if err := m.Unpack(b); err != nil || len(m.Question) != 1 {
		return 0, fmt.Errorf("fake: bad query: %v", err)
	}
	var c int
	fmt.Sscanf(m.Question[0].Name, "q%d.", &c)
	f.mu.Lock()
	if f.closed {
		f.mu.Unlock()
		return 0, net.ErrClosed
	}
	first := !f.gated[c]
	var gate chan error
	if first {
		f.gated[c] = true
		gate = make(chan error, 1)
		f.gates[c] = gate
		f.firstWid[c] = m.Id
	} else {
		f.resent = append(f.resent, writeEv{c: c, wid: m.Id})
	}
	f.mu.Unlock()
	if !first {
		return len(p), nil // UDP resend: passes through
	}
	f.writeEvs <- writeEv{c: c, wid: m.Id}
	if err := <-gate; err != nil {
		return 0, err
	}
	return len(p), nil
}

func (f *fakeConn) Close() error {
	f.mu.Lock()
	first := !f.closed
	if first {
		f.closed = true
		close(f.closeCh)
		f.cond.Broadcast()
	}
	slow := f.slowClose
	f.mu.Unlock()
	if first && slow {
		time.Sleep(4 * time.Millisecond)
	}
	return nil
}

func (f *fakeConn) isClosed() bool {
	f.mu.Lock()
	defer f.mu.Unlock()
	return f.closed
}

const idleTimeout = time.Minute // distinct from transport's waitingReplyTimeout (10 s)

func armKind(d time.Duration) int {
	if d > 30*time.Second {
		return 1
	}
	return 2
}

func (f *fakeConn) lastArm() int {
	f.mu.Lock()
	defer f.mu.Unlock()
	if len(f.arms) == 0 {
		return 0
	}
	return armKind(f.arms[len(f.arms)-1])
}

func (f *fakeConn) armCount() int {
	f.mu.Lock()
	defer f.mu.Unlock()
	return len(f.arms)
}

func (f *fakeConn) armKinds() []int {
	f.mu.Lock()
	defer f.mu.Unlock()
	out := make([]int, len(f.arms))
	for i, d := range f.arms {
		out[i] = armKind(d)
	}
	return out
}

// Like real sockets, deadline calls fail once the connection is closed.
func (f *fakeConn) SetDeadline(t time.Time) error {
	if f.isClosed() {
		return net.ErrClosed
	}
	return nil
}
func (f *fakeConn) SetWriteDeadline(t time.Time) error { return f.SetDeadline(t) }
func (f *fakeConn) SetReadDeadline(t time.Time) error {
	f.mu.Lock()
	defer f.mu.Unlock()
	f.arms = append(f.arms, time.Until(t).Round(time.Second))
	if f.closed {
		return net.ErrClosed
	}
	return nil
}

// ---------- executor ----------

type callState int

const (
	csNone callState = iota
	csReserved
	csInWrite
	csHeld
	csWaiting
	csExiting
	csDone
)

type callRec struct {
	hasWid    bool
	st        callState
	orig      uint16
	wid       uint16
	rx        transport.ReservedExchanger
	ctx       context.Context
	cancel    context.CancelFunc
	done      chan Ret
	cancelled bool
	replied   bool
	release   chan struct{}
}

var hookMu sync.Mutex // the schedule hook is process-global: one script at a time

const waitReturn = 3 * time.Second

// View is what a script generator may look at to pick the next action.
type View struct {
	QidForced bool
	TCP       bool
	Parked    bool // the reader is parked holding a frame
	InRead    bool // … inside Read, before the lookup (otherwise between lookup and hand-over)
	St        map[int]callState
	Wid       map[int]uint16
	Cancel    map[int]bool
	Closed    bool
	ReadErr   bool
	Steps     int
}

func (v *View) In(c int, sts ...callState) bool {
	for _, s := range sts {
		if v.St[c] == s {
			return true
		}
	}
	return false
}

// Exported names of the harness-side call states.
const (
	CsNone     = csNone
	CsReserved = csReserved
	CsInWrite  = csInWrite
	CsHeld     = csHeld
	CsWaiting  = csWaiting
	CsExiting  = csExiting
	CsDone     = csDone
)

// registered: the call owns a waiter-table entry as far as the harness can tell.
func (v *View) registered(c int) bool { return v.In(c, csInWrite, csHeld, csWaiting, csExiting) }

// Applicable reports whether the action makes sense in the current harness
// state and respects the environment assumptions of the properties (a reply
// for call c carries c's wire id and that id is not owned by another call; a
// stray id matches no outstanding query).
func (v *View) Applicable(a Action) bool {
	if v.Parked {
		// the reader holds a frame: nothing else can be read. Callers go on, and the connection may be
		// closed under the reader (Close, a failing Write).
		switch a.K {
		case AReaderGo:
			return true
		case AReserve, AWithdraw, ARelease, ACancel, AClose:
		case AStart, ASetQid:
			// a wire id handed out while the frame is between Read and lookup must not be the frame's
			// (scope clause of C01): excluded once the script has forced the id counter
			if v.InRead && (v.QidForced || a.K == ASetQid) {
				return false
			}
		case AWriteEnd:
			// a send that completes between Read and the reader's clearing of the waiting flag is left to
			// the schedules that park the reader after the lookup
			if v.InRead && a.Ok {
				return false
			}
		default:
			return false
		}
	} else if a.K == AReaderGo {
		return false
	}
	return v.applicable0(a)
}

func (v *View) applicable0(a Action) bool {
	widFree := func(w uint16, except int) bool {
		for c := range v.St {
			if c != except && v.registered(c) && v.Wid[c] == w {
				return false
			}
		}
		return true
	}
	switch a.K {
	case AReserve:
		return v.In(a.C, csNone)
	case AWithdraw, AStart:
		return v.In(a.C, csReserved)
	case AWriteEnd:
		return v.In(a.C, csInWrite)
	case ARelease:
		return v.In(a.C, csHeld)
	case AFeedReply:
		if v.Closed || v.ReadErr {
			return false
		}
		if v.registered(a.C) {
			return true
		}
		// A late reply to a finished call is in the property's scope as long
		// as fewer than 65536 queries followed it, i.e. always in a script,
		// unless the script itself forced the id counter (test hook).
		_, known := v.Wid[a.C]
		return v.In(a.C, csDone) && known && (!v.QidForced || widFree(v.Wid[a.C], a.C))
	case AFeedHoldReply, AFeedReadReply:
		return v.applicable0(Action{K: AFeedReply, C: a.C, Tag: a.Tag})
	case AFeedEofReply, AFeedSplitReply:
		return v.TCP && v.applicable0(Action{K: AFeedReply, C: a.C, Tag: a.Tag})
	case AFeedPair:
		return v.TCP && a.C != a.C2 && v.applicable0(Action{K: AFeedReply, C: a.C, Tag: a.Tag}) && v.applicable0(Action{K: AFeedReply, C: a.C2, Tag: a.Tag2})
	case AFeedStray, AFeedHoldStray:
		return !v.Closed && !v.ReadErr && widFree(a.Wid, -1)
	case AFeedErr, AExpire:
		return !v.Closed && !v.ReadErr
	case ASleep:
		return !v.TCP && !v.Closed && !v.ReadErr
	case ARunt:
		return !v.TCP && !v.Closed && !v.ReadErr && a.Tag >= 1 && a.Tag <= 11
	case AClose:
		return !v.Closed
	case ACancel:
		return v.In(a.C, csReserved, csInWrite, csHeld, csWaiting) && !v.Cancel[a.C]
	case ASetQid:
		return true
	}
	return false
}

// RunScript executes a fixed script (inapplicable actions are skipped).
func RunScript(s Script) (Script, []Obs, Final) {
	i := 0
	return Run(s, func(v *View) *Action {
		for i < len(s.Actions) {
			a := s.Actions[i]
			i++
			if v.Applicable(a) {
				return &a
			}
		}
		return nil
	})
}

// Run executes actions chosen by next against a fresh connection and returns
// the script actually run and what was observed.
func Run(s Script, next func(v *View) *Action) (Script, []Obs, Final) {
	hookMu.Lock()
	defer hookMu.Unlock()
	s.Actions = nil

	fc := newFakeConn(s.TCP)
	fc.slowClose = s.SlowClose
	dc := transport.NewDnsConn(transport.TraditionalDnsConnOpts{
		WithLengthHeader:   s.TCP,
		MaxConcurrentQuery: s.MaxCq,
		IdleTimeout:        idleTimeout,
	}, fc)
	dc.VerifSetNextQid(s.Nq0)
	idleSeen := 1
	fc.waitIdle(idleSeen, waitReturn)

	calls := map[int]*callRec{}
	get := func(c int) *callRec {
		if calls[c] == nil {
			calls[c] = &callRec{}
		}
		return calls[c]
	}

	var expectMu sync.Mutex
	expectWritten := -1
	writtenCh := make(chan int, 8)
	var holdReader atomic.Bool
	readerParked := make(chan struct{}, 1)
	var readerRel chan struct{}
	parked, inRead := false, false
	verifhook.Set(func(name string) {
		if name == "tdc.read.lookup" {
			if holdReader.CompareAndSwap(true, false) {
				expectMu.Lock()
				rel := readerRel
				expectMu.Unlock()
				readerParked <- struct{}{}
				<-rel
			}
			return
		}
		if name != "tdc.exchange.written" {
			return
		}
		expectMu.Lock()
		c := expectWritten
		expectWritten = -1
		expectMu.Unlock()
		if c < 0 {
			return
		}
		var rel chan struct{}
		if cr := calls[c]; cr != nil {
			rel = cr.release
		}
		writtenCh <- c
		if rel != nil {
			<-rel
		}
	})
	defer verifhook.Set(nil)

	obs := make([]Obs, 0, len(s.Actions))
	idleRearm := false
	// F10 is: the reader re-arms the idle deadline after a frame although a query is outstanding. A first
	// send after that frame arms the waiting-reply deadline again, so an idle deadline at expiry counts
	// as F10 only when a frame was read after the last completed send.
	frameAfterSend := false
	pendingReplied := -1 // call whose reply the parked reader holds
	// F10, race form: the reader cleared "waiting for a reply" when it read a frame, a query was sent before it
	// re-armed the idle deadline, so the flag stays set and later sends do not arm the waiting-reply deadline
	// either — until the next frame is read.
	sendWhileParked, staleWaiting := false, false
	qidForced := false
	collect := func(o *Obs) {
		// wait for every call whose return is enabled, then poll the rest
		ids := make([]int, 0, len(calls))
		for c := range calls {
			ids = append(ids, c)
		}
		sort.Ints(ids)
		closed := fc.isClosed()
		for _, c := range ids {
			cr := calls[c]
			if cr.done == nil || cr.st == csDone {
				continue
			}
			expect := cr.st == csExiting || (cr.st == csWaiting && (cr.cancelled || closed || cr.replied))
			if expect {
				select {
				case r := <-cr.done:
					o.Ret = append(o.Ret, r)
					cr.st = csDone
				case <-time.After(waitReturn):
				}
			} else {
				select {
				case r := <-cr.done:
					o.Ret = append(o.Ret, r)
					cr.st = csDone
				default:
				}
			}
		}
	}

	view := func() *View {
		v := &View{St: map[int]callState{}, Wid: map[int]uint16{}, Cancel: map[int]bool{}, Closed: fc.isClosed(), Steps: len(s.Actions), QidForced: qidForced, TCP: s.TCP, Parked: parked, InRead: parked && inRead}
		fc.mu.Lock()
		v.ReadErr = fc.readErr != nil
		fc.mu.Unlock()
		for c, cr := range calls {
			v.St[c] = cr.st
			if cr.hasWid {
				v.Wid[c] = cr.wid
			}
			v.Cancel[c] = cr.cancelled
		}
		return v
	}
	var forced []Action
	resentSeen := 0
	for {
		v := view()
		var ap *Action
		if len(forced) > 0 && !parked {
			ap = &forced[0]
			forced = forced[1:]
		} else {
			ap = next(v)
		}
		if ap == nil {
			if !parked {
				break
			}
			ap = &Action{K: AReaderGo} // a script never ends with the reader parked: its hand-over is part of the history
		}
		a := *ap
		if !a.Answer && !v.Applicable(a) {
			continue
		}
		if a.Answer && (v.Closed || v.ReadErr) {
			continue
		}
		if a.K == AFeedPair {
			// both frames are in the connection's buffer before the reader wakes up; for the model this is
			// frame one, then frame two (the reader takes them in order): two script entries, the first call's
			// return attributed to the first
			c1, c2 := get(a.C), get(a.C2)
			for _, x := range []*callRec{c1, c2} {
				if x.st == csInWrite || x.st == csHeld || x.st == csWaiting {
					x.replied = true
				}
			}
			fc.feed(append(replyFrame(s.TCP, c1.wid, a.Tag), replyFrame(s.TCP, c2.wid, a.Tag2)...))
			frameAfterSend = true
			staleWaiting = false
			idleSeen++
			fc.waitIdle(idleSeen, waitReturn)
			var o Obs
			collect(&o)
			sort.Slice(o.Ret, func(i, j int) bool { return o.Ret[i].C < o.Ret[j].C })
			var o1, o2 Obs
			for _, r := range o.Ret {
				if r.C == a.C {
					o1.Ret = append(o1.Ret, r)
				} else {
					o2.Ret = append(o2.Ret, r)
				}
			}
			s.Actions = append(s.Actions, Action{K: AFeedReply, C: a.C, Tag: a.Tag}, Action{K: AFeedReply, C: a.C2, Tag: a.Tag2})
			obs = append(obs, o1, o2)
			continue
		}
		s.Actions = append(s.Actions, a)
		o := Obs{}
		cr := get(a.C)
		switch a.K {
		case AReserve:
			cr.orig = a.Orig
			rx, closed := dc.ReserveNewQuery()
			switch {
			case rx != nil:
				cr.rx = rx
				cr.st = csReserved
				o.Code = 0
			case closed:
				o.Code = 2
			default:
				o.Code = 1
			}
		case AWithdraw:
			cr.rx.WithdrawReserved()
			cr.st = csDone
		case AStart:
			cr.ctx, cr.cancel = context.WithCancel(context.Background())
			if cr.cancelled {
				cr.cancel()
			}
			cr.done = make(chan Ret, 1)
			q := new(dns.Msg)
			q.SetQuestion(fmt.Sprintf("q%d.test.", a.C), dns.TypeA)
			q.Id = cr.orig
			qb, _ := q.Pack()
			c := a.C
			go func(cr *callRec) {
				r, err := cr.rx.ExchangeReserved(cr.ctx, qb)
				cr.done <- classify(c, r, err)
			}(cr)
			select {
			case ev := <-fc.writeEvs:
				if ev.c != c {
					fmt.Fprintf(os.Stderr, "tdcx: write by call %d while starting %d\n", ev.c, c)
				}
				cr.wid = ev.wid
				cr.hasWid = true
				cr.st = csInWrite
				o.Code = int(ev.wid) + 1
			case r := <-cr.done:
				o.Ret = append(o.Ret, r)
				cr.st = csDone
				o.Code = 0
			case <-time.After(waitReturn):
				o.Code = 70000 // neither wrote nor returned
			}
		case AWriteEnd:
			gate := fc.gates[a.C]
			if a.Ok {
				if a.Hold {
					cr.release = make(chan struct{})
				}
				expectMu.Lock()
				expectWritten = a.C
				expectMu.Unlock()
				gate <- nil
				select {
				case <-writtenCh:
				case <-time.After(waitReturn):
				}
				frameAfterSend = false
				if parked {
					sendWhileParked = true
				}
				if a.Hold {
					cr.st = csHeld
				} else {
					cr.st = csWaiting
				}
			} else {
				gate <- io.ErrClosedPipe
				cr.st = csExiting
				select {
				case <-fc.closeCh:
				case <-time.After(waitReturn):
				}
			}
		case ARelease:
			if cr.release != nil {
				close(cr.release)
				cr.release = nil
			}
			cr.st = csWaiting
		case AFeedReply, AFeedStray:
			wid := a.Wid
			if a.K == AFeedReply {
				wid = cr.wid
				if cr.st == csInWrite || cr.st == csHeld || cr.st == csWaiting {
					cr.replied = true
				}
			}
			if a.Answer {
				// whoever holds that wire id gets it
				for _, x := range calls {
					if x.hasWid && x.wid == wid && (x.st == csInWrite || x.st == csHeld || x.st == csWaiting) {
						x.replied = true
					}
				}
			}
			fc.feed(replyFrame(s.TCP, wid, a.Tag))
			frameAfterSend = true
			staleWaiting = false
			idleSeen++
			fc.waitIdle(idleSeen, waitReturn)
		case AFeedHoldReply, AFeedHoldStray:
			wid := a.Wid
			if a.K == AFeedHoldReply {
				wid = cr.wid
			}
			expectMu.Lock()
			readerRel = make(chan struct{})
			expectMu.Unlock()
			holdReader.Store(true)
			fc.feed(replyFrame(s.TCP, wid, a.Tag))
			frameAfterSend = true
			staleWaiting = false
			select {
			case <-readerParked:
				parked = true
			case <-time.After(waitReturn):
				holdReader.Store(false)
			}
			if parked && a.K == AFeedHoldReply {
				pendingReplied = a.C
			}
		case AFeedReadReply:
			rel := make(chan struct{})
			expectMu.Lock()
			readerRel = rel
			expectMu.Unlock()
			fc.mu.Lock()
			fc.holdRead, fc.readRel = true, rel
			fc.mu.Unlock()
			fc.feed(replyFrame(s.TCP, cr.wid, a.Tag))
			select {
			case <-fc.readParked:
				parked, inRead = true, true
				pendingReplied = a.C
			case <-time.After(waitReturn):
				fc.mu.Lock()
				fc.holdRead = false
				fc.mu.Unlock()
			}
		case AReaderGo:
			expectMu.Lock()
			rel := readerRel
			expectMu.Unlock()
			arms0 := fc.armCount()
			close(rel)
			parked, inRead = false, false
			if fc.isClosed() {
				// the reader finishes its frame (it re-arms the idle deadline after the hand-over), then finds
				// the connection closed
				for t0 := time.Now(); fc.armCount() == arms0 && time.Since(t0) < waitReturn; {
					time.Sleep(50 * time.Microsecond)
				}
			}
			frameAfterSend = true // the reader re-arms the idle deadline now, after whatever was sent meanwhile
			staleWaiting, sendWhileParked = sendWhileParked, false
			if pendingReplied >= 0 {
				if x := calls[pendingReplied]; x != nil && (x.st == csInWrite || x.st == csHeld || x.st == csWaiting) {
					x.replied = true
				}
				pendingReplied = -1
			}
			idleSeen++
			fc.waitIdle(idleSeen, waitReturn)
		case AFeedSplitReply:
			if cr.st == csInWrite || cr.st == csHeld || cr.st == csWaiting {
				cr.replied = true
			}
			fr := replyFrame(s.TCP, cr.wid, a.Tag)
			cut := 2 + (len(fr)-2)/2 // header and half of the body
			fc.feed(fr[:cut])
			idleSeen++
			fc.waitIdle(idleSeen, waitReturn) // the reader has taken the first piece and waits for more
			fc.feed(fr[cut:])
			frameAfterSend = true
			staleWaiting = false
			idleSeen++
			fc.waitIdle(idleSeen, waitReturn)
		case AFeedEofReply:
			if cr.st == csInWrite || cr.st == csHeld || cr.st == csWaiting {
				cr.replied = true
			}
			fc.feedWithErr(replyFrame(s.TCP, cr.wid, a.Tag), io.EOF)
			frameAfterSend = true
			select {
			case <-fc.closeCh:
			case <-time.After(waitReturn):
			}
		case ASleep:
			time.Sleep(1150 * time.Millisecond)
			// A re-sent datagram must carry the wire id of its first transmission. One that does not is answered by
			// the server under the id it carries: that answer (to the re-sender's question) is fed next.
			fc.mu.Lock()
			rs := append([]writeEv(nil), fc.resent[resentSeen:]...)
			resentSeen = len(fc.resent)
			first := map[int]uint16{}
			for c, w := range fc.firstWid {
				first[c] = w
			}
			fc.mu.Unlock()
			for _, ev := range rs {
				if ev.wid != first[ev.c] {
					forced = append(forced, Action{K: AFeedStray, C: ev.c, Wid: ev.wid, Tag: 900000 + ev.c, Answer: true})
				}
			}
		case ARunt:
			rb := make([]byte, a.Tag)
			if a.Tag >= 2 {
				// make it look like the start of a reply to somebody who is waiting
				for _, x := range calls {
					if x.hasWid && (x.st == csWaiting || x.st == csHeld || x.st == csInWrite) {
						binary.BigEndian.PutUint16(rb, x.wid)
						break
					}
				}
			}
			fc.feed(rb)
			idleSeen++
			fc.waitIdle(idleSeen, waitReturn)
		case AFeedErr:
			fc.feedErr(io.EOF)
			select {
			case <-fc.closeCh:
			case <-time.After(waitReturn):
			}
		case AExpire:
			o.Code = fc.lastArm()
			if o.Code == 1 && (frameAfterSend || staleWaiting) {
				for _, x := range calls {
					if (x.st == csWaiting || x.st == csHeld) && !x.replied {
						idleRearm = true
					}
				}
			}
			fc.feedErr(os.ErrDeadlineExceeded)
			select {
			case <-fc.closeCh:
			case <-time.After(waitReturn):
			}
		case AClose:
			dc.Close()
		case ACancel:
			cr.cancelled = true
			if cr.cancel != nil {
				cr.cancel()
			}
		case ASetQid:
			dc.VerifSetNextQid(a.Wid)
			qidForced = true
		}
		collect(&o)
		sort.Slice(o.Ret, func(i, j int) bool { return o.Ret[i].C < o.Ret[j].C })
		obs = append(obs, o)
	}

	if parked {
		// let the reader finish its frame before the final observation
		expectMu.Lock()
		rel := readerRel
		expectMu.Unlock()
		close(rel)
		parked = false
		idleSeen++
		fc.waitIdle(idleSeen, waitReturn)
	}
	// final observation
	time.Sleep(5 * time.Millisecond)
	var fin Final
	fin.Reserved, fin.Queued = dc.VerifCounters()
	if fin.Reserved < 0 {
		fin.Reserved = 99999 // a counter underflow: never what the model says
	}
	fin.Closed = dc.IsClosed()
	fin.Arms = fc.armKinds()
	fin.IdleRearm = idleRearm
	for c, cr := range calls {
		if cr.done == nil || cr.st == csDone || cr.st == csReserved {
			continue
		}
		select {
		case r := <-cr.done:
			// a return nobody expected: report it on the last action
			if len(obs) > 0 {
				obs[len(obs)-1].Ret = append(obs[len(obs)-1].Ret, r)
			}
			cr.st = csDone
		default:
			fin.Blocked = append(fin.Blocked, c)
		}
	}
	sort.Ints(fin.Blocked)
	if len(obs) > 0 {
		last := &obs[len(obs)-1]
		sort.Slice(last.Ret, func(i, j int) bool { return last.Ret[i].C < last.Ret[j].C })
	}

	// clean up (not part of the script)
	for _, cr := range calls {
		if cr.release != nil {
			close(cr.release)
		}
		if cr.cancel != nil {
			cr.cancel()
		}
	}
	for c, g := range fc.gates {
		if cr := calls[c]; cr != nil && cr.st == csInWrite {
			g <- io.ErrClosedPipe
		}
	}
	dc.Close()
	for _, cr := range calls {
		if cr.done != nil && cr.st != csDone {
			select {
			case <-cr.done:
			case <-time.After(waitReturn):
			}
		}
		if cr.st == csReserved {
			cr.rx.WithdrawReserved()
		}
	}
	return s, obs, fin
}

func replyFrame(tcp bool, wid uint16, tag int) []byte {
	m := new(dns.Msg)
	m.Id = wid
	m.Response = true
	m.Question = []dns.Question{{Name: fmt.Sprintf("t%d.test.", tag), Qtype: dns.TypeA, Qclass: dns.ClassINET}}
	b, _ := m.Pack()
	if tcp {
		out := make([]byte, 2+len(b))
		binary.BigEndian.PutUint16(out, uint16(len(b)))
		copy(out[2:], b)
		return out
	}
	return b
}

func classify(c int, r *[]byte, err error) Ret {
	if err == nil && r != nil {
		m := new(dns.Msg)
		if e := m.Unpack(*r); e != nil || len(m.Question) != 1 {
			// handed to the caller as a success although it is no DNS reply: a reply nobody sent for this call
			id := 0
			if len(*r) >= 2 {
				id = int(binary.BigEndian.Uint16(*r))
			}
			pool.ReleaseBuf(r)
			return Ret{C: c, Kind: 0, A: 888888, B: id}
		}
		tag := 888888 // a reply whose question is not one the fake server writes
		fmt.Sscanf(m.Question[0].Name, "t%d.", &tag)
		id := int(m.Id)
		pool.ReleaseBuf(r)
		return Ret{C: c, Kind: 0, A: tag, B: id}
	}
	return Ret{C: c, Kind: 1, A: ErrClass(err)}
}

// ErrClass maps an error of the connection to the model's classes
// (Judge.Tdc.err_code): 1 closed, 2 context, 3 write, 4 read, 5 too many.
func ErrClass(err error) int {
	switch {
	case err == nil:
		return 0
	case errors.Is(err, context.Canceled), errors.Is(err, context.DeadlineExceeded):
		return 2
	case errors.Is(err, transport.ErrTDCTooManyQueries):
		return 5
	case errors.Is(err, transport.ErrTDCClosed):
		return 1
	case strings.HasPrefix(err.Error(), "write err"), errors.Is(err, io.ErrClosedPipe):
		return 3
	case strings.HasPrefix(err.Error(), "read err"):
		return 4
	}
	return 8
}
