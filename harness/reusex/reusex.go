// Package reusex runs scripted schedules against the real ReuseConnTransport
// over fake connections (gated Write, fed Read, scripted dials) and renders
// script + observations as a Judge.Reuse.case.
package reusex

import (
	"bytes"
	"context"
	"encoding/binary"
	"errors"
	"fmt"
	"io"
	"net"
	"os"
	"runtime"
	"sort"
	"strconv"
	"strings"
	"sync"
	"time"

	"verifharness/hx"

	"github.com/IrineSistiana/mosdns/v5/pkg/pool"
	"github.com/IrineSistiana/mosdns/v5/pkg/upstream/transport"
	"github.com/IrineSistiana/mosdns/v5/pkg/verifhook"
	"github.com/miekg/dns"
)

type Kind int

const (
	VStart Kind = iota
	VDial
	VWriteEnd
	VRelease
	VFeed
	VEof
	VCancel
	VTClose
	// VFailClose: the gated Write of call C fails and, while that call is inside closeWithErr (at the point
	// "reuse.conn.closing"), the transport is closed (Close held at "reuse.tclose.locked" until then).
	VFailClose
	// VReadFail: the server's reply to call C (whose gated Write is still running) arrives and the peer then
	// breaks the connection: the reader's Read takes the reply off the socket and is descheduled before it
	// returns; the Write of C fails and C, closing the connection, is descheduled inside the socket's Close;
	// the reader goes on until it reads again; C goes on.
	VReadFail
)

type Action struct {
	K    Kind
	C    int // call (VStart, VDial, VWriteEnd, VRelease, VCancel)
	N    int // connection (VFeed, VEof)
	Ok   bool
	Hold bool
	Tag  int
	Tmo  bool // VEof: the read fails with a timeout (a peer that went silent) instead of EOF; the same step for the model
}

func (a Action) Coq() string {
	c, n := hx.Nat(a.C), hx.Nat(a.N)
	switch a.K {
	case VStart:
		return hx.App("VStart", c)
	case VDial:
		return hx.App("VDial", c, hx.Bool(a.Ok))
	case VWriteEnd:
		return hx.App("VWriteEnd", c, hx.Bool(a.Ok), hx.Bool(a.Hold))
	case VRelease:
		return hx.App("VRelease", c)
	case VFeed:
		return hx.App("VFeed", n, hx.Ni(a.Tag))
	case VEof:
		return hx.App("VEof", n)
	case VCancel:
		return hx.App("VCancel", c)
	case VTClose:
		return "VTClose"
	case VFailClose:
		return hx.App("VFailClose", c)
	case VReadFail:
		return hx.App("VReadFail", c, hx.Ni(a.Tag))
	}
	return "?"
}
func (a Action) String() string {
	s := strings.NewReplacer("(", "", ")", "", "%nat", "").Replace(a.Coq())
	if a.K == VEof && a.Tmo {
		s += " (timeout)"
	}
	return s
}

type Ev struct {
	Kind int // 0 write, 1 dial, 2 ret
	C, N int
	K, A int
}

func (e Ev) Coq() string {
	switch e.Kind {
	case 0:
		return hx.App("EvWrite", hx.Nat(e.C), hx.Nat(e.N))
	case 1:
		return hx.App("EvDial", hx.Nat(e.C))
	}
	return hx.App("EvRet", hx.Nat(e.C), hx.Ni(e.K), hx.Ni(e.A))
}

type Obs struct {
	Events      []Ev
	Conns, Idle int
	Open        int // fake sockets handed to the transport and not closed (by either side's Close)
}

func (o Obs) Coq() string {
	es := make([]string, len(o.Events))
	for i, e := range o.Events {
		es[i] = e.Coq()
	}
	return hx.App("mkVObs", hx.List(es), hx.Ni(o.Conns), hx.Ni(o.Idle), hx.Ni(o.Open))
}

type Script struct{ Actions []Action }

func CaseCoq(s Script, obs []Obs, blocked []int) string {
	it := make([]string, len(s.Actions))
	for i := range s.Actions {
		it[i] = hx.Tuple(s.Actions[i].Coq(), obs[i].Coq())
	}
	bl := make([]string, len(blocked))
	for i, c := range blocked {
		bl[i] = hx.Nat(c)
	}
	return hx.App("CReuse", hx.List(it), hx.List(bl))
}

// ---------- fake connection ----------

type fconn struct {
	id int
	w  *world

	mu       sync.Mutex
	cond     *sync.Cond
	buf      []byte
	rerr     error
	closed   bool
	idleRead int

	reads       int // Read calls entered
	holdRead    bool
	readRel     chan struct{}
	readParked  chan int // carries the number of Read calls entered when the reader was parked
	holdClose   bool
	closeRel    chan struct{}
	closeParked chan struct{}
}

func (f *fconn) Read(p []byte) (int, error) {
	f.mu.Lock()
	defer f.mu.Unlock()
	f.reads++
	if len(f.buf) == 0 && f.rerr == nil && !f.closed {
		f.idleRead++
	}
	for len(f.buf) == 0 && f.rerr == nil && !f.closed {
		f.cond.Wait()
	}
	if len(f.buf) > 0 {
		n := copy(p, f.buf)
		f.buf = f.buf[n:]
		if f.holdRead && len(f.buf) == 0 {
			// the bytes are the reader's; it is descheduled before Read returns
			f.holdRead = false
			rel, at := f.readRel, f.reads
			f.mu.Unlock()
			f.readParked <- at
			<-rel
			f.mu.Lock()
		}
		return n, nil
	}
	if f.rerr != nil {
		return 0, f.rerr
	}
	return 0, net.ErrClosed
}

func (f *fconn) Write(p []byte) (int, error) {
	m := new(dns.Msg)
	if len(p) < 2 || m.Unpack(p[2:]) != nil || len(m.Question) != 1 {
		return 0, errors.New("reusex: bad query")
	}
	c := -1
	fmt.Sscanf(m.Question[0].Name, "q%d.", &c)
	f.mu.Lock()
	cl := f.closed
	f.mu.Unlock()
	if cl {
		return 0, net.ErrClosed
	}
	gate := make(chan error, 1)
	f.w.mu.Lock()
	f.w.gates[c] = gate
	f.w.mu.Unlock()
	f.w.events <- Ev{Kind: 0, C: c, N: f.id}
	if err := <-gate; err != nil {
		return 0, err
	}
	return len(p), nil
}

func (f *fconn) Close() error {
	f.mu.Lock()
	f.closed = true
	f.cond.Broadcast()
	hold, rel := f.holdClose, f.closeRel
	f.holdClose = false
	f.mu.Unlock()
	if hold {
		// the socket is closed; the closing goroutine is descheduled before Close returns
		f.closeParked <- struct{}{}
		<-rel
	}
	return nil
}
func (f *fconn) readCount() int { f.mu.Lock(); defer f.mu.Unlock(); return f.reads }
func (f *fconn) isClosed() bool                   { f.mu.Lock(); defer f.mu.Unlock(); return f.closed }
func (f *fconn) SetDeadline(time.Time) error      { return nil }
func (f *fconn) SetReadDeadline(time.Time) error  { return nil }
func (f *fconn) SetWriteDeadline(time.Time) error { return nil }

func (f *fconn) feed(b []byte) {
	f.mu.Lock()
	f.buf = append(f.buf, b...)
	f.cond.Broadcast()
	f.mu.Unlock()
}
func (f *fconn) fail(err error) {
	f.mu.Lock()
	f.rerr = err
	f.cond.Broadcast()
	f.mu.Unlock()
}
func (f *fconn) settled(idle int, d time.Duration) bool {
	deadline := time.Now().Add(d)
	for time.Now().Before(deadline) {
		f.mu.Lock()
		ok := f.idleRead >= idle || f.closed
		f.mu.Unlock()
		if ok {
			return true
		}
		time.Sleep(50 * time.Microsecond)
	}
	return false
}

type world struct {
	mu       sync.Mutex
	conns    []*fconn
	gates    map[int]chan error
	dials    map[int]chan bool // pending dial of call c
	events   chan Ev
	lastCall int
	done     chan struct{} // closed when the run is over
}

var errDial = errors.New("reusex: injected dial error")

func (w *world) dial(ctx context.Context) (transport.NetConn, error) {
	w.mu.Lock()
	c := w.lastCall
	ch := make(chan bool, 1)
	w.dials[c] = ch
	w.mu.Unlock()
	w.events <- Ev{Kind: 1, C: c}
	// The dial ends when the script says so, also after the transport cancelled its context: a real dialer
	// can complete successfully at the very moment it is cancelled, and the transport then owns the socket.
	var ok bool
	select {
	case ok = <-ch:
	case <-w.done: // the script is over: no dial of this run is left hanging
	}
	if !ok {
		return nil, errDial
	}
	w.mu.Lock()
	f := &fconn{id: len(w.conns), w: w, readParked: make(chan int, 1), closeParked: make(chan struct{}, 1)}
	f.cond = sync.NewCond(&f.mu)
	w.conns = append(w.conns, f)
	w.mu.Unlock()
	return f, nil
}

// ---------- executor ----------

type cst int

const (
	SNone cst = iota
	SDialWait
	SInWrite
	SHeld
	SWaiting
	SDone
)

type call struct {
	st        cst
	conn      int
	cancel    context.CancelFunc
	done      chan Ev
	cancelled bool
	replied   bool
	release   chan struct{}
	dialGone  bool // the call left while its dial was pending
	dialed    bool // this attempt asked for a dial
	isNew     bool // the connection of the current attempt was dialled for this call
}

type View struct {
	IsNew    map[int]bool
	St       map[int]cst
	Conn     map[int]int
	Pending  map[int]bool // dial pending for call
	Closed   map[int]bool // connection closed (either side saw it)
	NConns   int
	TClosed  bool
	Wedged   bool // Close did not return: the transport's mutex is lost, nothing more can be done
	Steps    int
	Outst    map[int]int // connection -> call whose query is outstanding
	ReaderOK map[int]bool
}

func (v *View) Applicable(a Action) bool {
	if v.Wedged {
		return false
	}
	switch a.K {
	case VStart:
		return v.St[a.C] == SNone
	case VDial:
		return v.Pending[a.C]
	case VWriteEnd:
		return v.St[a.C] == SInWrite
	case VRelease:
		return v.St[a.C] == SHeld
	case VFeed:
		return a.N < v.NConns && v.ReaderOK[a.N]
	case VEof:
		return a.N < v.NConns && v.ReaderOK[a.N]
	case VCancel:
		// A cancelled exchange on a pooled connection is retried: the retry spawns a dial goroutine and returns
		// at once, and the order in which the harness sees those two events is a race. Cancel only calls that
		// are waiting for their dial or working on a connection dialled for them.
		return v.St[a.C] == SDialWait || ((v.St[a.C] == SInWrite || v.St[a.C] == SHeld || v.St[a.C] == SWaiting) && v.IsNew[a.C])
	case VTClose:
		return !v.TClosed
	case VFailClose:
		return v.St[a.C] == SInWrite && !v.TClosed
	case VReadFail:
		o, has := v.Outst[v.Conn[a.C]]
		return v.St[a.C] == SInWrite && !v.TClosed && v.ReaderOK[v.Conn[a.C]] && has && o == a.C
	}
	return false
}

var mu sync.Mutex

// CloseHung: the transport's Close did not return during the last Run's clean-up (set under mu by Run,
// read by the single-threaded driver right after Run).
var CloseHung bool

// unsettled counts the times the pool counters did not settle within the deadline (guarded by mu).
var unsettled int

const wait = 3 * time.Second

func gid() int64 {
	var b [64]byte
	n := runtime.Stack(b[:], false)
	f := bytes.Fields(b[:n])
	id, _ := strconv.ParseInt(string(f[1]), 10, 64)
	return id
}

func errClass(err error) int {
	switch {
	case errors.Is(err, transport.ErrClosedTransport):
		return 1
	case errors.Is(err, context.Canceled):
		return 2
	case errors.Is(err, io.ErrClosedPipe):
		return 3
	case errors.Is(err, io.EOF), errors.Is(err, net.ErrClosed), errors.Is(err, os.ErrDeadlineExceeded):
		return 4
	case errors.Is(err, errDial):
		return 6
	case strings.Contains(err.Error(), "unexpected response"):
		return 5
	}
	return 9
}

func frame(tag int) []byte {
	m := new(dns.Msg)
	m.Response = true
	m.Question = []dns.Question{{Name: fmt.Sprintf("t%d.", tag), Qtype: dns.TypeA, Qclass: dns.ClassINET}}
	b, _ := m.Pack()
	out := make([]byte, 2+len(b))
	binary.BigEndian.PutUint16(out, uint16(len(b)))
	copy(out[2:], b)
	return out
}

func Run(next func(v *View) *Action) (Script, []Obs, []int) {
	mu.Lock()
	defer mu.Unlock()
	var s Script
	CloseHung = false
	w := &world{gates: map[int]chan error{}, dials: map[int]chan bool{}, events: make(chan Ev, 256), done: make(chan struct{})}
	defer close(w.done)
	t := transport.NewReuseConnTransport(transport.ReuseConnOpts{DialContext: w.dial})
	calls := map[int]*call{}
	var gmu sync.Mutex
	gids := map[int64]int{}
	hookHit := make(chan int, 64)
	raceCall := -1 // guarded by gmu
	var raceRel, tcloseRel chan struct{}
	closingHit := make(chan struct{}, 4)
	tcloseHit := make(chan struct{}, 4)
	verifhook.Set(func(name string) {
		switch name {
		case "reuse.conn.closing":
			g := gid()
			gmu.Lock()
			c, ok := gids[g]
			hold := ok && c == raceCall
			rel := raceRel
			gmu.Unlock()
			if hold {
				closingHit <- struct{}{}
				<-rel
			}
		case "reuse.tclose.locked":
			gmu.Lock()
			rel := tcloseRel
			gmu.Unlock()
			if rel != nil {
				tcloseHit <- struct{}{}
				<-rel
			}
		case "reuse.attempt":
			g := gid()
			gmu.Lock()
			if c, ok := gids[g]; ok {
				w.mu.Lock()
				w.lastCall = c
				w.mu.Unlock()
			}
			gmu.Unlock()
		case "reuse.exchange.written":
			g := gid()
			gmu.Lock()
			c, ok := gids[g]
			var rel chan struct{}
			if ok {
				rel = calls[c].release
			}
			gmu.Unlock()
			if ok {
				hookHit <- c
				if rel != nil {
					<-rel
				}
			}
		}
	})
	defer verifhook.Set(nil)

	closedConn := map[int]bool{}
	readerOK := map[int]bool{}
	idleSeen := map[int]int{}
	outst := map[int]int{}
	tclosed := false
	wedged := false

	apply := func(e Ev) {
		cr := calls[e.C]
		switch e.Kind {
		case 0:
			cr.st = SInWrite
			cr.conn = e.N
			cr.replied = false
			cr.isNew = cr.dialed
			cr.dialed = false
			outst[e.N] = e.C
			if _, ok := readerOK[e.N]; !ok {
				readerOK[e.N] = true
				idleSeen[e.N] = 1
			}
		case 1:
			cr.st = SDialWait
			cr.dialed = true
		case 2:
			cr.st = SDone
		}
	}
	// collect waits for one event of each call in cs, then drains stragglers
	collect := func(o *Obs, cs map[int]bool) {
		deadline := time.After(wait)
		for len(cs) > 0 {
			select {
			case e := <-w.events:
				apply(e)
				o.Events = append(o.Events, e)
				delete(cs, e.C)
			case <-deadline:
				cs = map[int]bool{}
			}
		}
		for {
			select {
			case e := <-w.events:
				apply(e)
				o.Events = append(o.Events, e)
			case <-time.After(300 * time.Microsecond):
				return
			}
		}
	}
	counts := func(o *Obs, wantIdle func(conns, idle int) bool) {
		d := wait
		if unsettled >= 3 {
			d = 200 * time.Millisecond // the code under test keeps missing this condition: stop paying 3 s per case
		}
		deadline := time.Now().Add(d)
		defer func() {
			if time.Now().After(deadline) {
				unsettled++
			}
		}()
		for {
			o.Conns, o.Idle = t.VerifConnCounts()
			o.Open = 0
			w.mu.Lock()
			for _, f := range w.conns {
				if !f.isClosed() {
					o.Open++
				}
			}
			w.mu.Unlock()
			// at rest every open socket is tracked by the transport and every tracked one is open
			if ((wantIdle == nil || wantIdle(o.Conns, o.Idle)) && o.Open == o.Conns) || time.Now().After(deadline) {
				return
			}
			time.Sleep(100 * time.Microsecond)
		}
	}
	view := func() *View {
		v := &View{IsNew: map[int]bool{}, St: map[int]cst{}, Conn: map[int]int{}, Pending: map[int]bool{}, Closed: map[int]bool{}, NConns: 0,
			TClosed: tclosed, Wedged: wedged, Steps: len(s.Actions), Outst: map[int]int{}, ReaderOK: map[int]bool{}}
		w.mu.Lock()
		v.NConns = len(w.conns)
		for c := range w.dials {
			v.Pending[c] = true
		}
		w.mu.Unlock()
		for c, cr := range calls {
			v.St[c] = cr.st
			v.Conn[c] = cr.conn
			v.IsNew[c] = cr.isNew
		}
		for n, ok := range readerOK {
			v.ReaderOK[n] = ok
		}
		for n, c := range outst {
			v.Outst[n] = c
		}
		return v
	}
	wakeable := func(cr *call) bool {
		return cr.st == SWaiting && (cr.replied || cr.cancelled || closedConn[cr.conn] || tclosed)
	}
	var obs []Obs
	prevIdle := 0
	for {
		v := view()
		ap := next(v)
		if ap == nil {
			break
		}
		a := *ap
		if !v.Applicable(a) {
			continue
		}
		s.Actions = append(s.Actions, a)
		o := Obs{}
		expect := map[int]bool{}
		var wantCounts func(int, int) bool
		switch a.K {
		case VStart:
			ctx, cancel := context.WithCancel(context.Background())
			cr := &call{cancel: cancel, done: make(chan Ev, 1)}
			gmu.Lock()
			calls[a.C] = cr
			gmu.Unlock()
			q := new(dns.Msg)
			q.SetQuestion(fmt.Sprintf("q%d.", a.C), dns.TypeA)
			qb, _ := q.Pack()
			ready := make(chan struct{})
			c := a.C
			go func() {
				g := gid()
				gmu.Lock()
				gids[g] = c
				gmu.Unlock()
				close(ready)
				r, err := t.ExchangeContext(ctx, qb)
				e := Ev{Kind: 2, C: c, K: 1}
				if err == nil {
					m := new(dns.Msg)
					tag := 888888 // a reply whose question is not one the fake server writes
					if m.Unpack(*r) == nil && len(m.Question) == 1 {
						fmt.Sscanf(m.Question[0].Name, "t%d.", &tag)
					}
					pool.ReleaseBuf(r)
					e.K, e.A = 0, tag
				} else {
					e.A = errClass(err)
				}
				gmu.Lock()
				delete(gids, g)
				gmu.Unlock()
				w.events <- e
			}()
			<-ready
			expect[a.C] = true
		case VDial:
			w.mu.Lock()
			ch := w.dials[a.C]
			delete(w.dials, a.C)
			w.mu.Unlock()
			cr := calls[a.C]
			gone := cr.st != SDialWait
			ch <- a.Ok
			if !gone {
				expect[a.C] = true
			} else if a.Ok && !tclosed {
				// the orphaned connection goes to the idle pool
				pi := prevIdle
				wantCounts = func(_, idle int) bool { return idle > pi }
			}
		case VWriteEnd:
			cr := calls[a.C]
			w.mu.Lock()
			gate := w.gates[a.C]
			w.mu.Unlock()
			if a.Ok {
				gmu.Lock()
				if a.Hold {
					cr.release = make(chan struct{})
				} else {
					cr.release = nil
				}
				gmu.Unlock()
				gate <- nil
				select {
				case <-hookHit:
				case <-time.After(wait):
				}
				if a.Hold {
					cr.st = SHeld
				} else {
					cr.st = SWaiting
					if wakeable(cr) {
						expect[a.C] = true
					}
				}
			} else {
				gate <- io.ErrClosedPipe
				closedConn[cr.conn] = true
				readerOK[cr.conn] = false
				delete(outst, cr.conn)
				expect[a.C] = true
			}
		case VRelease:
			cr := calls[a.C]
			gmu.Lock()
			rel := cr.release
			cr.release = nil
			gmu.Unlock()
			close(rel)
			cr.st = SWaiting
			if wakeable(cr) {
				expect[a.C] = true
			}
		case VFeed:
			f := w.conns[a.N]
			owner, has := outst[a.N]
			f.feed(frame(a.Tag))
			if has {
				delete(outst, a.N)
				idleSeen[a.N]++
				f.settled(idleSeen[a.N], wait)
				cr := calls[owner]
				if cr.conn == a.N && (cr.st == SInWrite || cr.st == SHeld || cr.st == SWaiting) {
					cr.replied = true
					if cr.st == SWaiting {
						expect[owner] = true
					}
				}
			} else {
				// a surplus frame: the transport closes the connection
				deadline := time.Now().Add(wait)
				for !f.isClosed() && time.Now().Before(deadline) {
					time.Sleep(50 * time.Microsecond)
				}
				closedConn[a.N] = true
				readerOK[a.N] = false
			}
		case VEof:
			f := w.conns[a.N]
			if a.Tmo {
				f.fail(os.ErrDeadlineExceeded)
			} else {
				f.fail(io.EOF)
			}
			deadline := time.Now().Add(wait)
			for !f.isClosed() && time.Now().Before(deadline) {
				time.Sleep(50 * time.Microsecond)
			}
			closedConn[a.N] = true
			readerOK[a.N] = false
			delete(outst, a.N)
			for c, cr := range calls {
				if cr.conn == a.N && cr.st == SWaiting {
					expect[c] = true
				}
			}
		case VCancel:
			cr := calls[a.C]
			cr.cancelled = true
			cr.cancel()
			if cr.st == SWaiting || cr.st == SDialWait {
				expect[a.C] = true
			}
		case VTClose:
			t.Close()
			tclosed = true
			for n := range readerOK {
				readerOK[n] = false
				closedConn[n] = true
			}
			for c, cr := range calls {
				if cr.st == SWaiting || cr.st == SDialWait {
					expect[c] = true
				}
			}
			outst = map[int]int{}
		case VReadFail:
			cr := calls[a.C]
			w.mu.Lock()
			gate := w.gates[a.C]
			f := w.conns[cr.conn]
			w.mu.Unlock()
			rrel, crel := make(chan struct{}), make(chan struct{})
			f.mu.Lock()
			f.holdRead, f.readRel, f.holdClose, f.closeRel = true, rrel, true, crel
			f.mu.Unlock()
			f.feed(frame(a.Tag))
			at := -1
			select {
			case at = <-f.readParked:
			case <-time.After(wait):
			}
			gate <- io.ErrClosedPipe
			select {
			case <-f.closeParked:
			case <-time.After(wait):
			}
			close(rrel) // the reader: takes the waiter, hands the reply over, reads again
			for t0 := time.Now(); at >= 0 && f.readCount() <= at && time.Since(t0) < wait; {
				time.Sleep(50 * time.Microsecond)
			}
			f.mu.Lock()
			f.holdRead, f.holdClose = false, false
			f.mu.Unlock()
			close(crel) // the caller: leaves Close, looks for a reply
			cr.replied = true
			closedConn[cr.conn] = true
			readerOK[cr.conn] = false
			delete(outst, cr.conn)
			expect[a.C] = true
		case VFailClose:
			cr := calls[a.C]
			w.mu.Lock()
			gate := w.gates[a.C]
			w.mu.Unlock()
			gmu.Lock()
			raceCall = a.C
			raceRel = make(chan struct{})
			tcloseRel = make(chan struct{})
			rrel, trel := raceRel, tcloseRel
			gmu.Unlock()
			gate <- io.ErrClosedPipe
			select {
			case <-closingHit:
			case <-time.After(wait):
			}
			closeDone := make(chan struct{})
			go func() { t.Close(); close(closeDone) }()
			select {
			case <-tcloseHit:
			case <-time.After(wait):
			}
			close(rrel) // the failing call goes on (towards the transport's mutex, which Close holds)
			time.Sleep(300 * time.Microsecond)
			gmu.Lock()
			raceCall, raceRel, tcloseRel = -1, nil, nil
			gmu.Unlock()
			close(trel)
			select {
			case <-closeDone:
			case <-time.After(wait):
				wedged = true
			}
			tclosed = true
			closedConn[cr.conn] = true
			for n := range readerOK {
				readerOK[n] = false
				closedConn[n] = true
			}
			expect[a.C] = true
			for c, cr := range calls {
				if cr.st == SWaiting || cr.st == SDialWait {
					expect[c] = true
				}
			}
			outst = map[int]int{}
		}
		if wedged {
			// the counters are behind the lost mutex
			cs := expect
			deadline := time.After(wait)
			for len(cs) > 0 {
				select {
				case e := <-w.events:
					apply(e)
					o.Events = append(o.Events, e)
					delete(cs, e.C)
				case <-deadline:
					cs = map[int]bool{}
				}
			}
			sort.SliceStable(o.Events, func(i, j int) bool { return o.Events[i].C < o.Events[j].C })
			o.Conns, o.Idle, o.Open = 99999, 99999, 99999
			obs = append(obs, o)
			continue
		}
		collect(&o, expect)
		sort.SliceStable(o.Events, func(i, j int) bool { return o.Events[i].C < o.Events[j].C })
		counts(&o, wantCounts)
		prevIdle = o.Idle
		obs = append(obs, o)
	}
	var blocked []int
	for c, cr := range calls {
		if cr.st != SDone && cr.st != SNone {
			blocked = append(blocked, c)
		}
	}
	sort.Ints(blocked)
	// clean up
	for _, cr := range calls {
		cr.cancel()
		gmu.Lock()
		if cr.release != nil {
			close(cr.release)
			cr.release = nil
		}
		gmu.Unlock()
	}
	w.mu.Lock()
	for _, g := range w.gates {
		select {
		case g <- io.ErrClosedPipe:
		default:
		}
	}
	for _, d := range w.dials {
		select {
		case d <- false:
		default:
		}
	}
	w.mu.Unlock()
	if !wedged {
		// failing writes race with this Close exactly as in VFailClose, unscripted: a Close that does not
		// return is reported by the caller (CloseHung)
		cd := make(chan struct{})
		go func() { t.Close(); close(cd) }()
		select {
		case <-cd:
		case <-time.After(wait):
			CloseHung = true
		}
	}
	deadline := time.After(wait)
	left := 0
	for _, cr := range calls {
		if cr.st != SDone {
			left++
		}
	}
	for left > 0 {
		select {
		case e := <-w.events:
			if e.Kind == 2 {
				left--
			} else if e.Kind == 0 {
				w.mu.Lock()
				if g := w.gates[e.C]; g != nil {
					select {
					case g <- io.ErrClosedPipe:
					default:
					}
				}
				w.mu.Unlock()
			}
		case <-deadline:
			left = 0
		}
	}
	return s, obs, blocked
}

func RunScript(as []Action) (Script, []Obs, []int) {
	i := 0
	return Run(func(v *View) *Action {
		for i < len(as) {
			a := as[i]
			i++
			if v.Applicable(a) {
				return &a
			}
		}
		return nil
	})
}

func Catalogue() map[string][]Action {
	st := func(c int) Action { return Action{K: VStart, C: c} }
	dl := func(c int, ok bool) Action { return Action{K: VDial, C: c, Ok: ok} }
	wok := func(c int) Action { return Action{K: VWriteEnd, C: c, Ok: true} }
	whold := func(c int) Action { return Action{K: VWriteEnd, C: c, Ok: true, Hold: true} }
	werr := func(c int) Action { return Action{K: VWriteEnd, C: c, Ok: false} }
	rel := func(c int) Action { return Action{K: VRelease, C: c} }
	fd := func(n, tag int) Action { return Action{K: VFeed, N: n, Tag: tag} }
	eof := func(n int) Action { return Action{K: VEof, N: n} }
	can := func(c int) Action { return Action{K: VCancel, C: c} }
	tc := Action{K: VTClose}
	fc := func(c int) Action { return Action{K: VFailClose, C: c} }
	rf := func(c, tag int) Action { return Action{K: VReadFail, C: c, Tag: tag} }
	return map[string][]Action{
		"c02:reply-read-then-write-fails-new-conn":    {st(0), dl(0, true), rf(0, 100), st(1), dl(1, true), wok(1), fd(1, 101)},
		"c02:reply-read-then-write-fails-reused-conn": {st(0), dl(0, true), wok(0), fd(0, 100), st(1), rf(1, 101), st(2), dl(2, true), wok(2), fd(1, 102)},
		"c07:write-error-races-tclose":            {st(0), dl(0, true), fc(0), st(1)},
		"c07:reused-write-error-races-tclose":     {st(0), dl(0, true), wok(0), fd(0, 100), st(1), st(2), dl(2, true), wok(2), fc(1), st(3)},
		"c02:reply-while-waiting":                 {st(0), dl(0, true), wok(0), fd(0, 100)},
		"c02:reply-during-write":                  {st(0), dl(0, true), fd(0, 100), wok(0)},
		"c02:reply-before-wait":                   {st(0), dl(0, true), whold(0), fd(0, 100), rel(0)},
		"c02:reply-then-eof-before-wait":          {st(0), dl(0, true), whold(0), fd(0, 100), eof(0), rel(0)},
		"c02:reply-then-cancel-before-wait":       {st(0), dl(0, true), whold(0), fd(0, 100), can(0), rel(0)},
		"c02:reply-then-tclose-before-wait":       {st(0), dl(0, true), whold(0), fd(0, 100), tc, rel(0)},
		"c02:reply-during-write-then-write-error": {st(0), dl(0, true), fd(0, 100), werr(0)},
		"c02:reused-reply-then-eof":               {st(0), dl(0, true), wok(0), fd(0, 100), st(1), whold(1), fd(0, 101), eof(0), rel(1)},
		"c01:sequential-reuse":                    {st(0), dl(0, true), wok(0), fd(0, 100), st(1), wok(1), fd(0, 101), st(2), wok(2), fd(0, 102)},
		"c01:surplus-closes":                      {st(0), dl(0, true), wok(0), fd(0, 100), fd(0, 999), st(1), dl(1, true), wok(1), fd(1, 101)},
		"c01:late-reply-after-cancel":             {st(0), dl(0, true), wok(0), can(0), st(1), dl(1, true), wok(1), fd(0, 100), st(2), wok(2), fd(1, 101), fd(0, 102)},
		"c09:two-concurrent-two-conns":            {st(0), dl(0, true), st(1), dl(1, true), wok(0), wok(1), fd(1, 101), fd(0, 100), st(2), st(3), wok(2), wok(3), fd(0, 102), fd(1, 103)},
		"c08:stale-idle-detected":                 {st(0), dl(0, true), wok(0), fd(0, 100), eof(0), st(1), dl(1, true), wok(1), fd(1, 101)},
		"c08:reused-goes-silent-retry-fresh":      {st(0), dl(0, true), wok(0), fd(0, 100), st(1), wok(1), Action{K: VEof, N: 0, Tmo: true}, dl(1, true), wok(1), fd(1, 101)},
		"c08:idle-times-out-then-fresh":           {st(0), dl(0, true), wok(0), fd(0, 100), Action{K: VEof, N: 0, Tmo: true}, st(1), dl(1, true), wok(1), fd(1, 101)},
		"c08:reused-dies-retry-fresh":             {st(0), dl(0, true), wok(0), fd(0, 100), st(1), wok(1), eof(0), dl(1, true), wok(1), fd(1, 101)},
		"c08:reused-write-error-retry":            {st(0), dl(0, true), wok(0), fd(0, 100), st(1), werr(1), dl(1, true), wok(1), fd(1, 101)},
		"c08:new-conn-dies-no-retry":              {st(0), dl(0, true), wok(0), eof(0), st(1), dl(1, true), wok(1), fd(1, 101)},
		"c08:dial-error":                          {st(0), dl(0, false), st(1), dl(1, true), wok(1), fd(0, 101)},
		"c07:tclose-in-flight-and-dialing":        {st(0), dl(0, true), wok(0), st(1), tc, st(2), dl(1, true)},
		"c07:cancel-while-dialing-orphan":         {st(0), can(0), dl(0, true), st(1), wok(1), fd(0, 101)},
		"c07:cancel-while-waiting":                {st(0), dl(0, true), wok(0), can(0), fd(0, 100), st(1), wok(1), fd(0, 101)},
	}
}

func RandomNext(r *hx.RNG, maxSteps int) func(v *View) *Action {
	nextCall, tag := 0, 100
	return func(v *View) *Action {
		if v.Steps >= maxSteps {
			return nil
		}
		for try := 0; try < 80; try++ {
			var a Action
			w := []int{14, 14, 20, 8, 22, 5, 5, 1, 2, 3}
			tot := 0
			for _, x := range w {
				tot += x
			}
			k := r.Intn(tot)
			kind := 0
			for k >= w[kind] {
				k -= w[kind]
				kind++
			}
			a.K = Kind(kind)
			switch a.K {
			case VStart:
				if nextCall > 9 {
					continue
				}
				a.C = nextCall
			case VDial:
				a.Ok = !r.Chance(1, 6)
				a.C = r.Intn(nextCall + 1)
			case VWriteEnd:
				a.Ok = !r.Chance(1, 8)
				a.Hold = a.Ok && r.Chance(2, 5)
				a.C = r.Intn(nextCall + 1)
			case VFeed:
				tag++
				a.Tag = tag
				a.N = r.Intn(v.NConns + 1)
				if _, has := v.Outst[a.N]; !has && !r.Chance(1, 6) {
					continue // surplus frames are rare
				}
			case VEof:
				a.N = r.Intn(v.NConns + 1)
				a.Tmo = r.Chance(1, 3)
			case VReadFail:
				tag++
				a.Tag = tag
				a.C = r.Intn(nextCall + 1)
			default:
				a.C = r.Intn(nextCall + 1)
			}
			if v.Applicable(a) {
				if a.K == VStart {
					nextCall++
				}
				return &a
			}
		}
		return nil
	}
}

func Drive(w *hx.Writer, o *hx.Opts, wrap func(string) string) {
	emit := func(id string, s Script, obs []Obs, bl []int) {
		acts := make([]string, len(s.Actions))
		for i, a := range s.Actions {
			acts[i] = a.String()
		}
		if CloseHung {
			w.Violation(id, "ReuseConnTransport.Close did not return within 3 s (closing the transport while a write on one of its connections fails)",
				map[string]any{"actions": acts, "blocked": bl})
			return
		}
		w.Emit("reuse-script", hx.Case{ID: id, Coq: wrap(CaseCoq(s, obs, bl)), Desc: map[string]any{"actions": acts, "blocked": bl}})
		w.Tally("reuse-actions", len(s.Actions))
	}
	cat := Catalogue()
	names := make([]string, 0, len(cat))
	for n := range cat {
		names = append(names, n)
	}
	sort.Strings(names)
	for _, n := range names {
		id := "reuse:cat:" + n
		if !o.Want(id) {
			continue
		}
		reps := 1
		if strings.HasPrefix(n, "c02") {
			reps = o.Count(6, 40) / 2
		}
		for i := 0; i < reps; i++ {
			s, obs, bl := RunScript(cat[n])
			emit(id, s, obs, bl)
		}
	}
	n := o.Count(250, 6000)
	for i := 0; i < n; i++ {
		id := fmt.Sprintf("reuse:gen:%d", i)
		if !o.Want(id) {
			continue
		}
		r := hx.NewRNG(o.Seed, id)
		s, obs, bl := Run(RandomNext(r, r.Range(6, 30)))
		emit(id, s, obs, bl)
	}
}
