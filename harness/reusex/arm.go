package reusex

import (
	"context"
	"fmt"
	"io"
	"sync"
	"time"

	"verifharness/hx"

	"github.com/IrineSistiana/mosdns/v5/pkg/pool"
	"github.com/IrineSistiana/mosdns/v5/pkg/upstream/transport"
	"github.com/miekg/dns"
)

// armConn: a connection that answers every query it is allowed to and records, in one global order, who armed
// which deadline: SetDeadline is the caller's per-query deadline, SetReadDeadline the reader's idle deadline.
// The reader's SetReadDeadline after reply number holdAfter parks until released.
type armConn struct {
	id int
	s  *armScen

	mu       sync.Mutex
	cond     *sync.Cond
	buf      []byte
	closed   bool
	answers  int // replies to give; later queries meet silence
	queries  int
	lastArm  int // 0 none, 1 idle (reader), 2 query (caller)
	idleArms int
}

type armScen struct {
	mu     sync.Mutex
	conns  []*armConn
	parked chan int
	rel    chan struct{}
	hold   bool
}

func (c *armConn) Read(p []byte) (int, error) {
	c.mu.Lock()
	defer c.mu.Unlock()
	for len(c.buf) == 0 && !c.closed {
		c.cond.Wait()
	}
	if len(c.buf) > 0 {
		n := copy(p, c.buf)
		c.buf = c.buf[n:]
		return n, nil
	}
	return 0, io.EOF
}

func (c *armConn) Write(p []byte) (int, error) {
	c.mu.Lock()
	defer c.mu.Unlock()
	if c.closed {
		return 0, io.ErrClosedPipe
	}
	c.queries++
	if c.queries <= c.answers {
		m := new(dns.Msg)
		if m.Unpack(p[2:]) == nil {
			r := new(dns.Msg)
			r.SetReply(m)
			b, _ := r.Pack()
			c.buf = append(c.buf, byte(len(b)>>8), byte(len(b)))
			c.buf = append(c.buf, b...)
			c.cond.Broadcast()
		}
	}
	return len(p), nil
}

func (c *armConn) Close() error {
	c.mu.Lock()
	c.closed = true
	c.cond.Broadcast()
	c.mu.Unlock()
	return nil
}

func (c *armConn) SetDeadline(time.Time) error {
	c.mu.Lock()
	c.lastArm = 2
	c.mu.Unlock()
	return nil
}
func (c *armConn) SetWriteDeadline(time.Time) error { return nil }
func (c *armConn) SetReadDeadline(time.Time) error {
	c.mu.Lock()
	c.idleArms++
	n := c.idleArms
	c.mu.Unlock()
	c.s.mu.Lock()
	hold := c.s.hold && c.id == 0 && n == 1
	c.s.mu.Unlock()
	if hold {
		// the reader is descheduled at this call: the deadline is armed when it goes on
		c.s.parked <- c.id
		<-c.s.rel
	}
	c.mu.Lock()
	c.lastArm = 1
	c.mu.Unlock()
	return nil
}

// DriveArm: liveness of a non-pipelined exchange against a server that goes silent rests on the per-query
// deadline the caller arms before it writes. The reader re-arms the idle deadline after every reply; that must
// not be able to land on a connection another caller has meanwhile taken from the idle pool. Scenario: call A
// is answered on connection 0 and the reader is descheduled at its SetReadDeadline; call B starts (and may or
// may not get connection 0); the reader goes on; B's query meets silence. Checked: on the connection that
// carries B's unanswered query the deadline armed last is B's.
func DriveArm(w *hx.Writer, o *hx.Opts) {
	id := "reuse:arm:idle-deadline-vs-next-caller"
	if !o.Want(id) {
		return
	}
	mu.Lock()
	defer mu.Unlock()
	s := &armScen{parked: make(chan int, 1), rel: make(chan struct{}), hold: true}
	dial := func(ctx context.Context) (transport.NetConn, error) {
		s.mu.Lock()
		defer s.mu.Unlock()
		c := &armConn{id: len(s.conns), s: s, answers: 1}
		if c.id > 0 {
			c.answers = 0 // silence
		}
		c.cond = sync.NewCond(&c.mu)
		s.conns = append(s.conns, c)
		return c, nil
	}
	t := transport.NewReuseConnTransport(transport.ReuseConnOpts{DialContext: dial, IdleTimeout: time.Hour})
	t.VerifSetWaitRespTimeout(30 * time.Second)
	query := func(n int) []byte {
		q := new(dns.Msg)
		q.SetQuestion(fmt.Sprintf("q%d.", n), dns.TypeA)
		b, _ := q.Pack()
		return b
	}
	aDone := make(chan error, 1)
	go func() {
		r, err := t.ExchangeContext(context.Background(), query(0))
		if r != nil {
			pool.ReleaseBuf(r)
		}
		aDone <- err
	}()
	select {
	case <-s.parked:
	case <-time.After(wait):
		w.Tally("arm-skipped", 1)
		close(s.rel)
		t.Close()
		return
	}
	// B starts while the reader is parked; give it time to take a connection, arm its deadline and write
	bctx, bcancel := context.WithCancel(context.Background())
	bDone := make(chan error, 1)
	go func() {
		r, err := t.ExchangeContext(bctx, query(1))
		if r != nil {
			pool.ReleaseBuf(r)
		}
		bDone <- err
	}()
	bConn := -1
	for t0 := time.Now(); time.Since(t0) < wait && bConn < 0; time.Sleep(200 * time.Microsecond) {
		s.mu.Lock()
		for _, c := range s.conns {
			c.mu.Lock()
			if (c.id == 0 && c.queries >= 2) || (c.id > 0 && c.queries >= 1) {
				bConn = c.id
			}
			c.mu.Unlock()
		}
		s.mu.Unlock()
	}
	close(s.rel) // the reader arms the idle deadline now and hands A's reply over
	select {
	case <-aDone:
	case <-time.After(wait):
	}
	time.Sleep(2 * time.Millisecond)
	if bConn >= 0 {
		s.mu.Lock()
		c := s.conns[bConn]
		s.mu.Unlock()
		c.mu.Lock()
		last := c.lastArm
		c.mu.Unlock()
		if last != 2 {
			w.Violation(id, fmt.Sprintf("connection %d carries the unanswered query of a caller, but the read deadline armed last on it is the reader's idle deadline (1 h here), not the caller's per-query deadline: silence is not detected", bConn),
				map[string]any{"b_conn": bConn})
		} else {
			w.Tally("arm-ok", 1)
		}
	} else {
		w.Tally("arm-skipped", 1)
	}
	bcancel()
	select {
	case <-bDone:
	case <-time.After(wait):
	}
	t.Close()
}
