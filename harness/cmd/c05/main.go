// Driver for C05 (cached answers age correctly and expire on time). Runs the
// real cache plugin of /repo (Cache.Exec, POST /load_dump, GET /dump, its
// metrics), the dnsutils TTL helpers and the time arithmetic of
// getRespFromCache, and prints what they did as Judge.C05.case literals.
//
// A stale hit's background refresh is answered by a scripted reply and joined
// (cache.VerifC10LazyWait, verif export of C10) before the store is looked at.
//
// Nothing here depends on how fast the machine is: dump times are whole
// seconds, every case runs inside one wall-clock second that starts at least
// 20 ms before and ends at least 400 ms after the case (checked afterwards,
// the case is re-run otherwise), so the verdict of every comparison with an
// expiry instant is the same for every instant at which the case can run.
package main

import (
	"bytes"
	"compress/gzip"
	"context"
	"encoding/binary"
	"fmt"
	"io"
	"net/http"
	"net/http/httptest"
	"os"
	"runtime"
	"sort"
	"strings"
	"sync"
	"sync/atomic"
	"time"

	"github.com/IrineSistiana/mosdns/v5/pkg/dnsutils"
	"github.com/IrineSistiana/mosdns/v5/pkg/query_context"
	"github.com/IrineSistiana/mosdns/v5/plugin/executable/cache"
	"github.com/IrineSistiana/mosdns/v5/plugin/executable/sequence"
	"github.com/miekg/dns"
	"github.com/prometheus/client_golang/prometheus"
	"google.golang.org/protobuf/proto"

	"verifharness/hx"
)

// ---------- messages (mirror Model.CacheTTL.msg) ----------

type rrT struct {
	sec int
	opt bool
	ttl uint32
}

type msgT struct {
	rcode int
	tc    bool
	rrs   []rrT
}

func rrsCoq(rs []rrT) string {
	it := make([]string, len(rs))
	for i, r := range rs {
		it[i] = "RR " + hx.Ni(r.sec) + " " + hx.Bool(r.opt) + " " + hx.N(uint64(r.ttl))
	}
	return hx.List(it)
}

func (m msgT) coq() string {
	return "(Msg " + hx.Ni(m.rcode) + " " + hx.Bool(m.tc) + " " + rrsCoq(m.rrs) + ")"
}

func qname(k int) string { return fmt.Sprintf("k%d.c05.test.", k) }

func newQuery(k int) *dns.Msg {
	q := new(dns.Msg)
	q.SetQuestion(qname(k), dns.TypeA)
	return q
}

func mkRR(k int, r rrT, i int) dns.RR {
	if r.opt {
		return &dns.OPT{Hdr: dns.RR_Header{Name: ".", Rrtype: dns.TypeOPT, Class: 1232, Ttl: r.ttl}}
	}
	h := dns.RR_Header{Name: qname(k), Class: dns.ClassINET, Ttl: r.ttl}
	switch r.sec {
	case 0:
		h.Rrtype = dns.TypeA
		return &dns.A{Hdr: h, A: []byte{192, 0, 2, byte(i + 1)}}
	case 1:
		h.Rrtype = dns.TypeNS
		return &dns.NS{Hdr: h, Ns: "ns.c05.test."}
	}
	h.Rrtype = dns.TypeTXT
	return &dns.TXT{Hdr: h, Txt: []string{"x"}}
}

// build makes the reply to question k that the model message describes.
func (m msgT) build(k int) *dns.Msg {
	r := new(dns.Msg)
	r.SetReply(newQuery(k))
	r.Rcode = m.rcode
	r.Truncated = m.tc
	for i, x := range m.rrs {
		rr := mkRR(k, x, i)
		switch x.sec {
		case 0:
			r.Answer = append(r.Answer, rr)
		case 1:
			r.Ns = append(r.Ns, rr)
		default:
			r.Extra = append(r.Extra, rr)
		}
	}
	return r
}

// observe reads back (section, is OPT, ttl) of every record; popped is the
// OPT that query_context.SetResponse moved out of the additional section.
func observe(m *dns.Msg, popped *dns.OPT) []rrT {
	var out []rrT
	for s, sec := range [][]dns.RR{m.Answer, m.Ns, m.Extra} {
		for _, rr := range sec {
			h := rr.Header()
			out = append(out, rrT{s, h.Rrtype == dns.TypeOPT, h.Ttl})
		}
	}
	if popped != nil {
		out = append(out, rrT{2, true, popped.Hdr.Ttl})
	}
	return out
}

// ---------- the plugin under test ----------

type inlineKey struct{}

type plug struct {
	c   *cache.Cache
	reg *prometheus.Registry
	api http.Handler

	mu sync.Mutex
	// what the inline rest-of-chain does with the next query
	inlineResp   *dns.Msg // reply to put into the context (nil = leave alone)
	inlineKeep   bool     // put a popped OPT back so the plugin sees it
	inlineServed *[]rrT   // reply found in the context (nil = none)
	inlineCalls  int
	// background (lazy refresh) calls
	bg     func(k string, qCtx *query_context.Context)
	bgResp *dns.Msg // reply the next background refresh gets (nil = none); the popped OPT is put back
	// keys
	keyOf map[string]int
}

func newPlug(lazy int) *plug {
	p := &plug{keyOf: map[string]int{}}
	p.c = cache.NewCache(&cache.Args{LazyCacheTTL: lazy}, cache.Opts{})
	p.reg = prometheus.NewRegistry()
	if err := p.c.RegMetricsTo(p.reg); err != nil {
		panic(err)
	}
	p.api = p.c.Api()
	return p
}

func (p *plug) close() { p.c.Close() }

func (p *plug) next(ctx context.Context, qCtx *query_context.Context) error {
	if ctx.Value(inlineKey{}) == nil {
		if p.bg != nil {
			p.bg(qCtx.QQuestion().Name, qCtx)
		}
		p.mu.Lock()
		br := p.bgResp
		p.bgResp = nil
		p.mu.Unlock()
		if br != nil {
			qCtx.SetResponse(br)
			if o := qCtx.UpstreamOpt(); o != nil {
				r := qCtx.R()
				r.Extra = append(r.Extra, o)
			}
		}
		return nil
	}
	p.mu.Lock()
	defer p.mu.Unlock()
	p.inlineCalls++
	if r := qCtx.R(); r != nil {
		o := observe(r, qCtx.UpstreamOpt())
		if o == nil {
			o = []rrT{}
		}
		p.inlineServed = &o
	} else {
		p.inlineServed = nil
	}
	if p.inlineResp != nil {
		qCtx.SetResponse(p.inlineResp)
		if p.inlineKeep {
			if o := qCtx.UpstreamOpt(); o != nil {
				r := qCtx.R()
				r.Extra = append(r.Extra, o)
			}
		}
	}
	return nil
}

func (p *plug) walker() sequence.ChainWalker {
	return sequence.NewChainWalker([]*sequence.ChainNode{{E: sequence.ExecutableFunc(p.next)}}, nil)
}

// exec runs Cache.Exec for question k.
func (p *plug) exec(k int, resp *dns.Msg, keep bool) (served *[]rrT, err error) {
	p.mu.Lock()
	p.inlineResp, p.inlineKeep, p.inlineServed = resp, keep, nil
	p.mu.Unlock()
	qCtx := query_context.NewContext(newQuery(k))
	ctx := context.WithValue(context.Background(), inlineKey{}, true)
	err = p.c.Exec(ctx, qCtx, p.walker())
	p.mu.Lock()
	served = p.inlineServed
	p.mu.Unlock()
	return
}

func (p *plug) key(k int) string {
	qCtx := query_context.NewContext(newQuery(k))
	s := cache.VerifGetMsgKey(qCtx.Q())
	p.keyOf[s] = k
	return s
}

func (p *plug) metric(name string) float64 {
	mfs, err := p.reg.Gather()
	if err != nil {
		panic(err)
	}
	for _, mf := range mfs {
		if mf.GetName() == name {
			return mf.GetMetric()[0].GetCounter().GetValue()
		}
	}
	panic("metric not found: " + name)
}

type dumpEntry struct {
	key                      []byte
	stored, msgExp, cacheExp int64
	msg                      []byte
}

func (p *plug) load(es []dumpEntry) int {
	blk := &cache.CacheDumpBlock{}
	for _, e := range es {
		blk.Entries = append(blk.Entries, &cache.CachedEntry{
			Key: e.key, Msg: e.msg, CacheExpirationTime: e.cacheExp, MsgExpirationTime: e.msgExp, MsgStoredTime: e.stored,
		})
	}
	b, err := proto.Marshal(blk)
	if err != nil {
		panic(err)
	}
	var buf bytes.Buffer
	gw := gzip.NewWriter(&buf)
	gw.Name = "mosdns_cache_v2"
	var l [8]byte
	binary.BigEndian.PutUint64(l[:], uint64(len(b)))
	gw.Write(l[:])
	gw.Write(b)
	gw.Close()
	rec := httptest.NewRecorder()
	p.api.ServeHTTP(rec, httptest.NewRequest("POST", "/load_dump", &buf))
	return rec.Code
}

func (p *plug) dump() ([]dumpEntry, int) {
	rec := httptest.NewRecorder()
	p.api.ServeHTTP(rec, httptest.NewRequest("GET", "/dump", nil))
	if rec.Code != 200 {
		return nil, rec.Code
	}
	gr, err := gzip.NewReader(rec.Body)
	if err != nil {
		return nil, 598
	}
	var out []dumpEntry
	for {
		var l [8]byte
		if _, err := io.ReadFull(gr, l[:]); err != nil {
			break
		}
		b := make([]byte, binary.BigEndian.Uint64(l[:]))
		if _, err := io.ReadFull(gr, b); err != nil {
			return nil, 597
		}
		blk := &cache.CacheDumpBlock{}
		if err := proto.Unmarshal(b, blk); err != nil {
			return nil, 596
		}
		for _, e := range blk.Entries {
			out = append(out, dumpEntry{e.Key, e.MsgStoredTime, e.MsgExpirationTime, e.CacheExpirationTime, e.Msg})
		}
	}
	return out, 200
}

// ---------- sequence cases ----------

type opT struct {
	kind        string // load | exec | execr | dump | wait
	k           int
	age, ml, cl int64
	m           *msgT // load: stored message; exec: reply the plugin sees after the rest of the chain; execr: reply the background refresh gets (nil = none)
	natural     *msgT // exec: reply handed to the context as it is (its last OPT is taken away; m is what remains)
	wait        int64
}

func (o opT) coq() string {
	switch o.kind {
	case "load":
		return hx.App("OLoad", hx.Ni(o.k), hx.Z(o.age), hx.Z(o.ml), hx.Z(o.cl), o.m.coq())
	case "exec":
		if o.m == nil {
			return hx.App("OExec", hx.Ni(o.k), "None")
		}
		return hx.App("OExec", hx.Ni(o.k), hx.Some(o.m.coq()))
	case "execr":
		if o.m == nil {
			return hx.App("OExecR", hx.Ni(o.k), "None")
		}
		return hx.App("OExecR", hx.Ni(o.k), hx.Some(o.m.coq()))
	case "dump":
		return "ODump"
	}
	return hx.App("OWait", hx.Z(o.wait))
}

type seqCase struct {
	id   string
	lazy int
	ops  []opT
	note string
}

// popLastExtraOpt mirrors query_context.SetResponse on the model message.
func popLastExtraOpt(m msgT) msgT {
	out := msgT{m.rcode, m.tc, nil}
	idx := -1
	for i, r := range m.rrs {
		if r.sec == 2 && r.opt {
			idx = i
		}
	}
	for i, r := range m.rrs {
		if i != idx {
			out.rrs = append(out.rrs, r)
		}
	}
	return out
}

// refreshBroken is set once a mandatory refresh was not seen within its generous
// limit; later waits are cut short so that a broken tree still produces its cases quickly.
var refreshBroken atomic.Bool

func patience(d time.Duration) time.Duration {
	if refreshBroken.Load() {
		return 50 * time.Millisecond
	}
	return d
}

func frac() time.Duration { return time.Duration(time.Now().Nanosecond()) }

// alignSecond returns when the wall clock is between 20 and 550 ms into a second.
func alignSecond() {
	for {
		f := frac()
		if f >= 20*time.Millisecond && f <= 550*time.Millisecond {
			return
		}
		if f < 20*time.Millisecond {
			time.Sleep(20*time.Millisecond - f + time.Millisecond)
		} else {
			time.Sleep(time.Second - f + 21*time.Millisecond)
		}
	}
}

// runSeq runs the case once; ok=false when the clock left the window.
func runSeq(sc seqCase) (obs []string, desc map[string]any, missing bool, ok bool) {
	p := newPlug(sc.lazy)
	defer p.close()
	var bgStarted atomic.Int64
	bgSig := make(chan struct{}, 1024)
	bgDone := make(chan struct{}, 1024)
	p.bg = func(string, *query_context.Context) {
		bgStarted.Add(1)
		bgSig <- struct{}{}
		bgDone <- struct{}{}
	}
	alignSecond()
	s0 := time.Now().Unix()
	var waited int64
	hits, stale := 0, 0
	for _, o := range sc.ops {
		switch o.kind {
		case "load":
			now := time.Now().Unix()
			if now != s0+waited {
				return nil, nil, false, false
			}
			b, err := o.m.build(o.k).Pack()
			if err != nil {
				panic(fmt.Sprintf("%s: pack: %v", sc.id, err))
			}
			stored := now - o.age
			code := p.load([]dumpEntry{{[]byte(p.key(o.k)), stored, stored + o.ml, stored + o.cl, b}})
			if code != 200 {
				panic(fmt.Sprintf("%s: load_dump status %d", sc.id, code))
			}
			obs = append(obs, "BNone")
		case "exec", "execr":
			ks := p.key(o.k)
			lz0 := p.metric("lazy_hit_total")
			var resp *dns.Msg
			if o.kind == "exec" {
				if o.natural != nil {
					resp = o.natural.build(o.k)
				} else if o.m != nil {
					resp = o.m.build(o.k)
				}
			} else if o.m != nil {
				p.mu.Lock()
				p.bgResp = o.m.build(o.k)
				p.mu.Unlock()
			}
			served, err := p.exec(o.k, resp, o.natural == nil)
			if err != nil {
				panic(fmt.Sprintf("%s: exec: %v", sc.id, err))
			}
			lz := p.metric("lazy_hit_total") - lz0
			if lz != 0 && lz != 1 {
				panic("lazy_hit_total moved by more than one")
			}
			if lz == 1 {
				stale++
				// Exec has requested a refresh (DoChan is issued inside Exec). Join it: when the
				// wait returns the refresh has run and stored (or not stored) its reply.
				p.c.VerifC10LazyWait(ks)
				select {
				case <-bgSig:
					<-bgDone
				default:
					// no refresh ran for this stale hit
					for len(obs) < len(sc.ops) {
						obs = append(obs, "BNone")
					}
					return obs, map[string]any{"kind": "seq", "note": sc.note, "refresh_missing": true}, true, true
				}
			}
			p.mu.Lock()
			p.bgResp = nil
			p.mu.Unlock()
			if served != nil {
				hits++
				obs = append(obs, hx.App("BExec", hx.Some(rrsCoq(*served)), hx.Bool(lz == 1)))
			} else {
				obs = append(obs, hx.App("BExec", "None", hx.Bool(lz == 1)))
			}
		case "dump":
			now := time.Now().Unix()
			es, code := p.dump()
			if code != 200 {
				obs = append(obs, "BNone")
				break
			}
			type row struct {
				k int
				s string
			}
			var rows []row
			for _, e := range es {
				k, known := p.keyOf[string(e.key)]
				if !known {
					k = 999
				}
				m := new(dns.Msg)
				if err := m.Unpack(e.msg); err != nil {
					panic(err)
				}
				rows = append(rows, row{k, hx.Tuple(hx.Ni(k), hx.Tuple(hx.Z(now-e.stored), hx.Z(e.msgExp-e.stored), hx.Z(e.cacheExp-e.stored)), rrsCoq(observe(m, nil)))})
			}
			sort.Slice(rows, func(i, j int) bool { return rows[i].k < rows[j].k })
			it := make([]string, len(rows))
			for i, r := range rows {
				it[i] = r.s
			}
			obs = append(obs, hx.App("BDump", hx.List(it)))
		case "wait":
			time.Sleep(time.Duration(o.wait)*time.Second + 20*time.Millisecond)
			waited += o.wait
			obs = append(obs, "BNone")
		}
	}
	if time.Now().Unix() != s0+waited || frac() > 960*time.Millisecond {
		return nil, nil, false, false
	}
	time.Sleep(200 * time.Microsecond)
	desc = map[string]any{"kind": "seq", "lazy_cache_ttl": sc.lazy, "ops": len(sc.ops), "hits": hits, "stale_hits": stale,
		"refreshes_started": bgStarted.Load(), "note": sc.note}
	return obs, desc, false, true
}

func emitSeq(w *hx.Writer, sc seqCase) {
	kind, c := doSeq(sc)
	w.Emit(kind, c)
}

func doSeq(sc seqCase) (string, hx.Case) {
	var obs []string
	var desc map[string]any
	ok, missing := false, false
	for try := 0; try < 40 && !ok; try++ {
		obs, desc, missing, ok = runSeq(sc)
	}
	if !ok {
		fmt.Fprintf(os.Stderr, "c05: case %s could not be run inside one clock second\n", sc.id)
		os.Exit(3)
	}
	ops := make([]string, len(sc.ops))
	for i, o := range sc.ops {
		ops[i] = o.coq()
	}
	kind := "seq"
	if sc.note != "" {
		kind = "seq:" + strings.SplitN(sc.note, " ", 2)[0]
	}
	return kind, hx.Case{
		ID:   sc.id,
		Coq:  hx.App("CSeq", hx.Z(int64(sc.lazy)), hx.List(ops), hx.List(obs), hx.Bool(missing)),
		Desc: desc,
		FKey: "seq",
	}
}

// ---------- pure helpers ----------

func emitElapsed(w *hx.Writer, id string, nowS, nowNs, storedS int64) {
	now := time.Unix(nowS, nowNs)
	stored := time.Unix(storedS, 0)
	// the expression of getRespFromCache, on wall-clock times as a loaded dump has them
	e := uint32(now.Sub(stored).Seconds())
	w.Emit("elapsed", hx.Case{
		ID:   id,
		Coq:  hx.App("CElapsed", hx.Z(nowS), hx.Z(nowNs), hx.Z(storedS), hx.N(uint64(e))),
		Desc: map[string]any{"kind": "elapsed", "now_s": nowS, "now_ns": nowNs, "stored_s": storedS, "elapsed": e},
		FKey: "elapsed",
	})
}

func emitHelpers(w *hx.Writer, id string, m msgT, delta, set uint32) {
	r := m.build(0)
	mn := dnsutils.GetMinimalTTL(r)
	r1 := r.Copy()
	dnsutils.SubtractTTL(r1, delta)
	r2 := r.Copy()
	dnsutils.SetTTL(r2, set)
	w.Emit("helpers", hx.Case{
		ID: id,
		Coq: hx.App("CHelpers", m.coq(), hx.N(uint64(delta)), hx.N(uint64(set)), hx.N(uint64(mn)),
			rrsCoq(observe(r1, nil)), rrsCoq(observe(r2, nil))),
		Desc: map[string]any{"kind": "helpers", "records": len(m.rrs), "delta": delta, "min_ttl": mn},
		FKey: "helpers",
	})
}

// ---------- bursts of concurrent stale hits ----------

// emitBurst: nk stale entries, n concurrent queries for each; the refreshes are
// held on a channel. refreshTTL >= 0: the refresh answers with that TTL (0 is
// not admitted); < 0: the refresh produces no reply. When the entry stays stale
// the follow-up checks that a new refresh starts once the first has returned,
// otherwise that the refreshed entry is served.
func emitBurst(w *hx.Writer, id string, nk, n int, refreshTTL int64) {
	const lazy = 3600
	p := newPlug(lazy)
	defer p.close()
	started := make([]atomic.Int64, nk)
	running := make([]atomic.Int64, nk)
	maxc := make([]atomic.Int64, nk)
	startSig := make(chan int, 4096)
	doneSig := make(chan int, 4096)
	release := make(chan struct{})
	idx := map[string]int{}
	for k := 0; k < nk; k++ {
		idx[qname(k)] = k
	}
	p.bg = func(name string, qCtx *query_context.Context) {
		k := idx[name]
		started[k].Add(1)
		c := running[k].Add(1)
		for {
			o := maxc[k].Load()
			if c <= o || maxc[k].CompareAndSwap(o, c) {
				break
			}
		}
		startSig <- k
		<-release
		if refreshTTL >= 0 {
			qCtx.SetResponse(msgT{0, false, []rrT{{0, false, uint32(refreshTTL)}}}.build(k))
		}
		running[k].Add(-1)
		doneSig <- k
	}
	old := msgT{0, false, []rrT{{0, false, 100}, {1, false, 7}, {2, true, 32768}}}
	alignSecond()
	now := time.Now().Unix()
	for k := 0; k < nk; k++ {
		b, _ := old.build(k).Pack()
		if code := p.load([]dumpEntry{{[]byte(p.key(k)), now - 50, now - 50 + 7, now - 50 + lazy, b}}); code != 200 {
			panic("burst: load_dump failed")
		}
	}
	// the burst
	var wg sync.WaitGroup
	gate := make(chan struct{})
	var all5 atomic.Bool
	all5.Store(true)
	var inline atomic.Int64
	for i := 0; i < n*nk; i++ {
		k := i % nk
		wg.Add(1)
		go func() {
			defer wg.Done()
			<-gate
			qCtx := query_context.NewContext(newQuery(k))
			ctx := context.WithValue(context.Background(), inlineKey{}, true)
			var got []rrT
			nx := sequence.NewChainWalker([]*sequence.ChainNode{{E: sequence.ExecutableFunc(func(ctx context.Context, qc *query_context.Context) error {
				if ctx.Value(inlineKey{}) == nil {
					return p.next(ctx, qc)
				}
				if r := qc.R(); r != nil {
					got = observe(r, qc.UpstreamOpt())
				}
				return nil
			})}}, nil)
			if err := p.c.Exec(ctx, qCtx, nx); err != nil {
				all5.Store(false)
				return
			}
			want := []rrT{{0, false, 5}, {1, false, 5}, {2, true, 32768}}
			if len(got) != len(want) {
				all5.Store(false)
				return
			}
			for j := range want {
				if got[j] != want[j] {
					all5.Store(false)
				}
			}
			inline.Add(1)
		}()
	}
	close(gate)
	wg.Wait()
	// every Exec has returned, so every DoChan has been issued: each key's first
	// refresh is blocked on release. Wait for one start per key (blocked = bug).
	seen := 0
	timeout := time.After(patience(20 * time.Second))
	for seen < nk {
		select {
		case <-startSig:
			seen++
		case <-timeout:
			refreshBroken.Store(true)
			seen = nk + 1000
		}
	}
	time.Sleep(20 * time.Millisecond) // let any wrongly started second refresh show up
	held := make([]int, nk)
	for k := range held {
		held[k] = int(started[k].Load())
	}
	lazyHits := int(p.metric("lazy_hit_total"))
	close(release)
	for i := 0; i < nk; i++ {
		select {
		case <-doneSig:
		case <-time.After(patience(20 * time.Second)):
		}
	}
	// follow-up on key 0
	follow := 0
	deadline := time.Now().Add(patience(20 * time.Second))
	if refreshTTL > 0 {
		// the refreshed entry must become visible: poll until a fresh hit shows the new TTL
		for time.Now().Before(deadline) {
			served, _ := p.exec(0, nil, true)
			if served != nil && len(*served) == 1 && (*served)[0].ttl != 5 {
				if (*served)[0] == (rrT{0, false, uint32(refreshTTL)}) {
					follow = 1
				} else {
					follow = 2
				}
				break
			}
			if served == nil {
				follow = 3 // dropped
				break
			}
			runtime.Gosched()
		}
	} else {
		// the entry stays stale: a new refresh must start once the first has returned
		for time.Now().Before(deadline) && started[0].Load() < 2 {
			p.exec(0, nil, true)
			runtime.Gosched()
		}
		time.Sleep(5 * time.Millisecond)
		if started[0].Load() >= 2 {
			follow = 1
		}
	}
	mc := make([]int, nk)
	for k := range mc {
		mc[k] = int(maxc[k].Load())
	}
	rt := "None"
	if refreshTTL >= 0 {
		rt = hx.Some(hx.N(uint64(refreshTTL)))
	}
	w.Emit("burst", hx.Case{
		ID: id,
		Coq: hx.App("CBurst", hx.Ni(nk), hx.Ni(n), rt, hx.NList(held), hx.NList(mc), hx.Bool(all5.Load() && int(inline.Load()) == n*nk),
			hx.Ni(lazyHits), hx.Ni(follow)),
		Desc: map[string]any{"kind": "burst", "keys": nk, "queries_per_key": n, "refreshes_while_held": held, "max_concurrent": mc, "follow": follow},
		FKey: "burst",
	})
}

// ---------- generators ----------

var ttlPool = []uint32{0, 1, 2, 3, 4, 5, 6, 7, 10, 29, 30, 31, 60, 299, 300, 301, 3600, 86400, 1 << 24, 1 << 31, 4294967294, 4294967295}

func genTTL(r *hx.RNG) uint32 {
	switch r.Intn(10) {
	case 0, 1, 2, 3:
		return hx.Pick(r, ttlPool)
	case 4, 5, 6:
		return uint32(r.Intn(12))
	case 7:
		return uint32(r.Intn(400))
	}
	return uint32(r.U64())
}

func genMsg(r *hx.RNG, forLoad bool) msgT {
	m := msgT{}
	switch r.Intn(10) {
	case 0, 1, 2, 3, 4:
		m.rcode = 0
	case 5:
		m.rcode = 3
	case 6:
		m.rcode = 2
	default:
		m.rcode = r.Intn(16)
	}
	if !forLoad && r.Chance(1, 25) {
		m.rcode = 16 + r.Intn(4080)
	}
	m.tc = r.Chance(1, 8)
	na, nn, ne := r.Intn(3), r.Intn(3), r.Intn(2)
	if r.Chance(1, 4) {
		na = 0
	}
	if r.Chance(1, 12) {
		na, nn, ne = 0, 0, 0
	}
	base := genTTL(r)
	t := func() uint32 {
		if r.Chance(1, 2) {
			return base
		}
		return genTTL(r)
	}
	for i := 0; i < na; i++ {
		m.rrs = append(m.rrs, rrT{0, false, t()})
	}
	if r.Chance(1, 25) {
		m.rrs = append(m.rrs, rrT{0, true, uint32(r.Intn(70000))})
	}
	for i := 0; i < nn; i++ {
		m.rrs = append(m.rrs, rrT{1, false, t()})
	}
	if r.Chance(1, 30) {
		m.rrs = append(m.rrs, rrT{1, true, uint32(r.Intn(70000))})
	}
	for i := 0; i < ne; i++ {
		m.rrs = append(m.rrs, rrT{2, false, t()})
	}
	if r.Chance(1, 3) {
		m.rrs = append(m.rrs, rrT{2, true, hx.Pick(r, []uint32{0, 1, 5, 32768, 65535, 8388608})})
	}
	return m
}

func minTTLOf(m msgT) int64 {
	mn := int64(-1)
	for _, r := range m.rrs {
		if !r.opt && (mn < 0 || int64(r.ttl) < mn) {
			mn = int64(r.ttl)
		}
	}
	if mn < 0 {
		return 0
	}
	return mn
}

func genLazy(r *hx.RNG) int {
	switch r.Intn(8) {
	case 0, 1, 2:
		return 0
	case 3:
		return hx.Pick(r, []int{1, 2, 5, 30})
	case 4:
		return -1 - r.Intn(5)
	}
	return hx.Pick(r, []int{60, 3600, 86400})
}

// genHit: one loaded entry of an age around one of its expiry instants, then a look-up.
func genHit(r *hx.RNG, id string) seqCase {
	m := genMsg(r, true)
	lazy := genLazy(r)
	var ml int64
	switch r.Intn(5) {
	case 0, 1:
		ml = minTTLOf(m)
	case 2:
		ml = int64(hx.Pick(r, []int{1, 2, 5, 30, 300}))
	case 3:
		ml = int64(r.Intn(20))
	default:
		ml = int64(genTTL(r))
	}
	cl := ml
	if lazy > 0 && r.Chance(3, 4) {
		cl = int64(lazy)
	} else if r.Chance(1, 6) {
		cl = ml + int64(r.Range(-2, 3))
	}
	var age int64
	switch r.Intn(6) {
	case 0, 1, 2:
		age = ml + int64(r.Range(-2, 2))
	case 3:
		age = cl + int64(r.Range(-2, 2))
	case 4:
		age = int64(r.Intn(8))
	default:
		if ml > 0 {
			age = int64(r.U64() % uint64(ml+1))
		}
	}
	if age < -3 {
		age = -3
	}
	if r.Chance(1, 40) {
		age = -int64(r.Range(1, 3))
	}
	return seqCase{id: id, lazy: lazy, note: "hit", ops: []opT{
		{kind: "load", k: 0, age: age, ml: ml, cl: cl, m: &m},
		{kind: "exec", k: 0},
	}}
}

// genStore: the rest of the chain answers; then dump and look up.
func genStore(r *hx.RNG, id string) seqCase {
	m := genMsg(r, false)
	lazy := genLazy(r)
	if r.Chance(1, 40) {
		lazy = hx.Pick(r, []int{9223372036, 9223372037, 18446744073, 1 << 40})
	}
	o := opT{kind: "exec", k: 0, m: &m}
	if r.Chance(1, 5) {
		mm := popLastExtraOpt(m)
		o = opT{kind: "exec", k: 0, m: &mm, natural: &m}
	}
	return seqCase{id: id, lazy: lazy, note: "store", ops: []opT{o, {kind: "dump"}, {kind: "exec", k: 0}}}
}

// unstorable makes a reply the property says must never be stored.
func unstorable(r *hx.RNG) msgT {
	m := genMsg(r, false)
	switch r.Intn(4) {
	case 0:
		m.tc = true
	case 1: // NOERROR whose smallest TTL is zero
		m.rcode, m.tc = 0, false
		m.rrs = append([]rrT{{0, false, 0}}, m.rrs...)
	case 2:
		m.tc = false
		m.rcode = hx.Pick(r, []int{1, 4, 5, 6, 7, 8, 9, 10, 11, 15, 16, 23, 4095})
	default: // NOERROR without any record but an OPT
		m = msgT{0, false, nil}
		if r.Bool() {
			m.rrs = []rrT{{2, true, 32768}}
		}
	}
	return m
}

// genRefresh: a stale (or, as a control, fresh / dead) entry is hit and the background
// refresh is answered; then the store is dumped and the question asked again.
func genRefresh(r *hx.RNG, id string) seqCase {
	lazy := hx.Pick(r, []int{5, 60, 60, 3600, 3600, 86400})
	if r.Chance(1, 10) {
		lazy = 0
	}
	old := genMsg(r, true)
	ml := int64(r.Range(1, 20))
	cl := ml
	if lazy > 0 {
		cl = int64(lazy)
	}
	var age int64
	switch r.Intn(8) {
	case 0:
		age = ml - int64(r.Range(1, 2)) // still fresh: no refresh
	case 1:
		age = cl + int64(r.Intn(2)) // dead
	default:
		age = ml + int64(r.Intn(3)) // stale when lazy
	}
	if age < 0 {
		age = 0
	}
	var reply *msgT
	switch r.Intn(8) {
	case 0:
	case 1, 2, 3, 4:
		m := unstorable(r)
		reply = &m
	default:
		m := genMsg(r, false)
		reply = &m
	}
	sc := seqCase{id: id, lazy: lazy, note: "refresh", ops: []opT{
		{kind: "load", k: 0, age: age, ml: ml, cl: cl, m: &old},
		{kind: "execr", k: 0, m: reply},
		{kind: "dump"},
		{kind: "exec", k: 0},
	}}
	if r.Chance(1, 3) {
		m2 := genMsg(r, false)
		sc.ops = append(sc.ops, opT{kind: "execr", k: 0, m: &m2}, opT{kind: "dump"}, opT{kind: "exec", k: 0})
	}
	return sc
}

func genMixed(r *hx.RNG, id string) seqCase {
	lazy := genLazy(r)
	n := r.Range(3, 7)
	sc := seqCase{id: id, lazy: lazy, note: "mixed"}
	for i := 0; i < n; i++ {
		k := r.Intn(2)
		switch r.Intn(7) {
		case 0, 1:
			m := genMsg(r, true)
			ml := minTTLOf(m)
			if r.Chance(1, 3) {
				ml = int64(r.Intn(10))
			}
			cl := ml
			if lazy > 0 {
				cl = int64(lazy)
			}
			sc.ops = append(sc.ops, opT{kind: "load", k: k, age: ml + int64(r.Range(-3, 1)), ml: ml, cl: cl, m: &m})
		case 2:
			m := genMsg(r, false)
			sc.ops = append(sc.ops, opT{kind: "exec", k: k, m: &m})
		case 3:
			sc.ops = append(sc.ops, opT{kind: "dump"})
		case 4:
			m := genMsg(r, false)
			if r.Bool() {
				m = unstorable(r)
			}
			sc.ops = append(sc.ops, opT{kind: "execr", k: k, m: &m})
		default:
			sc.ops = append(sc.ops, opT{kind: "exec", k: k})
		}
	}
	sc.ops = append(sc.ops, opT{kind: "exec", k: 0}, opT{kind: "exec", k: 1})
	return sc
}

// genWait: entries that cross an expiry instant while they are in the map.
func genWait(r *hx.RNG, id string) seqCase {
	lazy := hx.Pick(r, []int{0, 0, 2, 3, 60})
	sc := seqCase{id: id, lazy: lazy, note: "wait"}
	w := int64(r.Range(1, 2))
	// key 0: loaded; key 1: stored by the plugin itself
	ttl := uint32(r.Range(1, 3))
	m0 := msgT{0, false, []rrT{{0, false, ttl + uint32(r.Intn(3))}, {1, false, ttl}}}
	age := int64(r.Intn(2))
	cl := int64(ttl)
	if lazy > 0 {
		cl = int64(lazy)
	}
	m1 := msgT{hx.Pick(r, []int{0, 0, 2}), false, []rrT{{0, false, uint32(r.Range(1, 3))}}}
	if r.Chance(1, 3) {
		m1 = msgT{0, false, []rrT{{1, false, uint32(r.Range(1, 3))}}}
	}
	sc.ops = []opT{
		{kind: "load", k: 0, age: age, ml: int64(ttl), cl: cl, m: &m0},
		{kind: "exec", k: 1, m: &m1},
		{kind: "exec", k: 0}, {kind: "exec", k: 1},
		{kind: "wait", wait: w},
		{kind: "exec", k: 0}, {kind: "exec", k: 1}, {kind: "dump"},
	}
	if r.Chance(1, 2) {
		sc.ops = append(sc.ops, opT{kind: "wait", wait: 1}, opT{kind: "exec", k: 0}, opT{kind: "exec", k: 1})
	}
	return sc
}

// ---------- catalogue ----------

func rr(sec int, ttl uint32) rrT  { return rrT{sec, false, ttl} }
func opt(sec int, ttl uint32) rrT { return rrT{sec, true, ttl} }

func catalogue() []seqCase {
	var cs []seqCase
	add := func(note string, lazy int, ops ...opT) {
		cs = append(cs, seqCase{id: fmt.Sprintf("cat-%d", len(cs)), lazy: lazy, note: note, ops: ops})
	}
	hit := func(lazy int, age, ml, cl int64, m msgT) {
		add("hit", lazy, opT{kind: "load", k: 0, age: age, ml: ml, cl: cl, m: &m}, opT{kind: "exec", k: 0})
	}
	store := func(lazy int, m msgT) {
		add("store", lazy, opT{kind: "exec", k: 0, m: &m}, opT{kind: "dump"}, opT{kind: "exec", k: 0})
	}
	plain := msgT{0, false, []rrT{rr(0, 10), rr(0, 12), rr(1, 3600), rr(2, 11), opt(2, 32768)}}
	// every second around message expiry (10) without and with lazy caching, cache expiry 10 / 60
	for _, age := range []int64{0, 1, 8, 9, 10, 11, 12} {
		hit(0, age, 10, 10, plain)
		hit(60, age, 10, 60, plain)
	}
	// around the cache expiry in lazy mode
	for _, age := range []int64{58, 59, 60, 61} {
		hit(60, age, 10, 60, plain)
	}
	// lazy switched off later: a stale entry that is still in the map is not served
	hit(0, 11, 10, 60, plain)
	hit(-1, 11, 10, 60, plain)
	// cache expiry before message expiry
	hit(0, 5, 10, 5, plain)
	hit(0, 5, 10, 4, plain)
	hit(0, 5, 10, 6, plain)
	// TTL 0, 1, 2 and the largest TTLs, ages 0..2 and huge
	ext := msgT{0, false, []rrT{rr(0, 0), rr(0, 1), rr(0, 2), rr(1, 4294967295), rr(2, 4294967294), opt(2, 16777215)}} // (miekg Pack rewrites the top byte of an OPT TTL from the rcode)
	for _, age := range []int64{0, 1, 2, 3, 4294967293, 4294967294, 4294967295, 4294967296, 4294967297} {
		hit(0, age, 4294967300, 4294967300, ext)
	}
	big := msgT{0, false, []rrT{rr(0, 4294967295), rr(1, 16777217), rr(1, 16777216)}}
	for _, age := range []int64{16777215, 16777216, 16777217, 2147483648, 4294967294, 4294967295} {
		hit(0, age, 4294967295, 4294967295, big)
	}
	// older than a time.Duration can express (Sub saturates), and stored in the future
	hit(0, 9300000000, 9400000000, 9400000000, ext)
	hit(0, 9223372036, 9400000000, 9400000000, ext)
	hit(0, 9223372037, 9400000000, 9400000000, ext)
	for _, age := range []int64{-1, -2, -3} {
		hit(0, age, 10, 10, plain)
		hit(60, age, -5, 60, plain)
	}
	// OPT in other sections, OPT only, empty message
	hit(0, 3, 10, 10, msgT{0, false, []rrT{opt(0, 7), rr(0, 10), opt(1, 9), rr(2, 2)}})
	hit(60, 30, 10, 60, msgT{0, false, []rrT{opt(0, 7), rr(0, 10), opt(1, 9), rr(2, 2), opt(2, 1)}})
	hit(0, 3, 10, 10, msgT{0, false, []rrT{opt(2, 77)}})
	hit(0, 3, 10, 10, msgT{0, false, nil})
	hit(60, 30, 10, 60, msgT{3, true, nil})
	// admission and lifetimes
	for _, rc := range []int{0, 1, 2, 3, 4, 5, 9, 15, 16, 4095} {
		store(0, msgT{rc, false, []rrT{rr(0, 100), rr(1, 50)}})
		store(3600, msgT{rc, false, []rrT{rr(0, 100), rr(1, 50)}})
		store(0, msgT{rc, false, []rrT{rr(1, 1000)}})
		store(0, msgT{rc, true, []rrT{rr(0, 100)}})
		store(0, msgT{rc, false, []rrT{rr(0, 0), rr(1, 50)}})
		store(0, msgT{rc, false, nil})
	}
	for _, t := range []uint32{0, 1, 2, 299, 300, 301, 4294967295} {
		store(0, msgT{0, false, []rrT{rr(1, t)}})                    // empty answer
		store(0, msgT{0, false, []rrT{rr(0, t)}})                    // answer
		store(7, msgT{0, false, []rrT{rr(0, t), rr(2, 4294967295)}}) // lazy
		store(7, msgT{0, false, []rrT{rr(1, t)}})                    // lazy does not apply to empty answers
		store(0, msgT{0, false, []rrT{rr(0, 500), opt(2, t)}})       // OPT TTL is not a TTL
		store(0, msgT{0, false, []rrT{opt(0, 5), rr(1, t)}})         // an OPT in the answer section counts as an answer
	}
	store(0, msgT{0, false, []rrT{opt(2, 0)}})
	store(0, msgT{3, false, []rrT{rr(1, 0)}})
	store(0, msgT{2, false, []rrT{rr(1, 0), opt(2, 0)}})
	store(0, msgT{3, false, []rrT{rr(1, 3600), opt(2, 32768)}})
	for _, lz := range []int{1, 9223372036, 9223372037, 18446744073, 1 << 40} {
		store(lz, msgT{0, false, []rrT{rr(0, 100)}})
	}
	// natural path: the context takes the OPT away before the plugin sees the reply
	natFull := msgT{0, false, []rrT{rr(0, 20), rr(2, 30), opt(2, 3)}}
	nat := popLastExtraOpt(natFull)
	add("store", 0, opT{kind: "exec", k: 0, m: &nat, natural: &natFull}, opT{kind: "dump"}, opT{kind: "exec", k: 0})
	natOpt := msgT{0, false, []rrT{opt(2, 3)}}
	natNone := popLastExtraOpt(natOpt)
	add("store", 0, opT{kind: "exec", k: 0, m: &natNone, natural: &natOpt}, opT{kind: "dump"}, opT{kind: "exec", k: 0})
	// overwrite, ignored load, two keys
	a, b := msgT{0, false, []rrT{rr(0, 100)}}, msgT{0, false, []rrT{rr(0, 200)}}
	add("mixed", 0, opT{kind: "load", k: 0, age: 5, ml: 100, cl: 100, m: &a}, opT{kind: "load", k: 0, age: 300, ml: 200, cl: 200, m: &b},
		opT{kind: "exec", k: 0}, opT{kind: "dump"})
	add("mixed", 0, opT{kind: "load", k: 0, age: 5, ml: 100, cl: 100, m: &a}, opT{kind: "exec", k: 0, m: &b},
		opT{kind: "exec", k: 0}, opT{kind: "exec", k: 1}, opT{kind: "dump"})
	add("mixed", 0, opT{kind: "exec", k: 0, m: &a}, opT{kind: "exec", k: 0, m: &msgT{0, true, []rrT{rr(0, 200)}}},
		opT{kind: "exec", k: 0}, opT{kind: "exec", k: 1, m: &b}, opT{kind: "dump"})
	add("mixed", 60, opT{kind: "load", k: 0, age: 20, ml: 10, cl: 60, m: &a}, opT{kind: "exec", k: 0}, opT{kind: "exec", k: 0, m: &b},
		opT{kind: "exec", k: 0}, opT{kind: "dump"})
	// repeated hits do not wear the entry out and do not re-store it
	add("mixed", 0, opT{kind: "load", k: 0, age: 3, ml: 10, cl: 10, m: &plain}, opT{kind: "exec", k: 0}, opT{kind: "exec", k: 0},
		opT{kind: "dump"}, opT{kind: "exec", k: 0})
	add("mixed", 60, opT{kind: "load", k: 0, age: 13, ml: 10, cl: 60, m: &plain}, opT{kind: "exec", k: 0}, opT{kind: "exec", k: 0},
		opT{kind: "dump"}, opT{kind: "exec", k: 0})
	// the refresh started by a stale hit is answered by replies that must not be stored
	// (the stale entry stays, nothing new is served) and by replies that may
	refresh := func(lazy int, age, ml, cl int64, reply *msgT) {
		add("refresh", lazy, opT{kind: "load", k: 0, age: age, ml: ml, cl: cl, m: &plain}, opT{kind: "execr", k: 0, m: reply},
			opT{kind: "dump"}, opT{kind: "exec", k: 0}, opT{kind: "exec", k: 0})
	}
	for _, m := range []msgT{
		{0, true, []rrT{rr(0, 100)}},                        // truncated answer
		{0, true, []rrT{rr(0, 100), rr(0, 100), rr(1, 50)}}, // truncated, partial record set
		{3, true, []rrT{rr(1, 100)}},                        // truncated NXDOMAIN
		{2, true, nil},                                      // truncated SERVFAIL
		{0, true, []rrT{rr(0, 0)}},                          // truncated and zero TTL
		{0, false, []rrT{rr(0, 0), rr(1, 50)}},              // zero TTL
		{0, false, []rrT{rr(0, 100), rr(2, 0)}},             // zero TTL in the additional section
		{0, false, []rrT{rr(1, 0)}},                         // empty answer, zero TTL
		{0, false, nil},                                     // no record
		{0, false, []rrT{opt(2, 32768)}},                    // only an OPT
		{1, false, []rrT{rr(0, 100)}}, {4, false, []rrT{rr(0, 100)}}, {5, false, []rrT{rr(1, 100)}},
		{9, false, []rrT{rr(0, 100)}}, {15, false, []rrT{rr(0, 100)}}, {16, false, []rrT{rr(0, 100)}}, {4095, false, []rrT{rr(0, 100)}},
		// may be stored: lifetimes by rcode
		{0, false, []rrT{rr(0, 100), rr(1, 50), opt(2, 32768)}},
		{0, false, []rrT{rr(0, 1)}},
		{0, false, []rrT{rr(1, 1000)}}, {0, false, []rrT{rr(1, 299)}},
		{3, false, []rrT{rr(1, 3600)}}, {3, false, []rrT{rr(1, 0)}},
		{2, false, nil}, {2, false, []rrT{rr(0, 0)}},
	} {
		mm := m
		refresh(60, 20, 10, 60, &mm)
	}
	refresh(60, 20, 10, 60, nil) // the refresh gets no reply
	tcReply := msgT{0, true, []rrT{rr(0, 100)}}
	okReply := msgT{0, false, []rrT{rr(0, 100)}}
	refresh(60, 5, 10, 60, &okReply)        // fresh hit: no refresh, reply unused
	refresh(60, 60, 10, 60, &okReply)       // dead entry: miss, no refresh
	refresh(0, 20, 10, 60, &okReply)        // lazy off: miss, no refresh
	refresh(3600, 10, 10, 3600, &tcReply)   // first stale second
	refresh(3600, 3599, 10, 3600, &tcReply) // last second of the entry
	// a refused refresh reply does not stop the next refresh from updating the entry
	add("refresh", 60, opT{kind: "load", k: 0, age: 20, ml: 10, cl: 60, m: &plain}, opT{kind: "execr", k: 0, m: &tcReply}, opT{kind: "exec", k: 0},
		opT{kind: "execr", k: 0, m: &okReply}, opT{kind: "dump"}, opT{kind: "exec", k: 0}, opT{kind: "execr", k: 0, m: &tcReply}, opT{kind: "dump"})
	// expiry while in the map
	one := msgT{0, false, []rrT{rr(0, 1), rr(1, 9)}}
	add("wait", 0, opT{kind: "exec", k: 0, m: &one}, opT{kind: "exec", k: 0}, opT{kind: "wait", wait: 1}, opT{kind: "exec", k: 0}, opT{kind: "dump"})
	add("wait", 2, opT{kind: "exec", k: 0, m: &one}, opT{kind: "exec", k: 0}, opT{kind: "wait", wait: 1}, opT{kind: "exec", k: 0}, opT{kind: "dump"},
		opT{kind: "wait", wait: 1}, opT{kind: "exec", k: 0}, opT{kind: "dump"})
	add("wait", 0, opT{kind: "load", k: 0, age: 8, ml: 10, cl: 10, m: &plain}, opT{kind: "exec", k: 0}, opT{kind: "wait", wait: 1}, opT{kind: "exec", k: 0},
		opT{kind: "wait", wait: 1}, opT{kind: "exec", k: 0}, opT{kind: "dump"})
	add("wait", 60, opT{kind: "load", k: 0, age: 58, ml: 59, cl: 60, m: &plain}, opT{kind: "exec", k: 0}, opT{kind: "wait", wait: 1}, opT{kind: "exec", k: 0},
		opT{kind: "wait", wait: 1}, opT{kind: "exec", k: 0}, opT{kind: "wait", wait: 1}, opT{kind: "exec", k: 0}, opT{kind: "dump"})
	return cs
}

// ---------- main ----------

func main() {
	o := hx.ParseFlags()
	w := hx.NewWriter(o)
	defer w.Close()

	// 1. sequences that wait for real seconds run in the background, each on its own plugin instance
	var slow, fast []seqCase
	for _, sc := range catalogue() {
		if sc.note == "wait" {
			slow = append(slow, sc)
		} else {
			fast = append(fast, sc)
		}
	}
	nWait := o.Count(8, 60)
	for i := 0; i < nWait; i++ {
		id := fmt.Sprintf("wait-%d-%d", o.Seed, i)
		slow = append(slow, genWait(hx.NewRNG(o.Seed, id), id))
	}
	var wgSlow sync.WaitGroup
	sem := make(chan struct{}, 12)
	slowKind := make([]string, len(slow))
	slowCase := make([]*hx.Case, len(slow))
	for i, sc := range slow {
		if !o.Want(sc.id) {
			continue
		}
		wgSlow.Add(1)
		go func(i int, sc seqCase) {
			defer wgSlow.Done()
			sem <- struct{}{}
			k, c := doSeq(sc)
			slowKind[i], slowCase[i] = k, &c
			<-sem
		}(i, sc)
	}

	// 2. catalogue
	for _, sc := range fast {
		if o.Want(sc.id) {
			emitSeq(w, sc)
		}
	}

	// 3. time arithmetic at exact instants
	type el struct{ nowS, nowNs, storedS int64 }
	base := int64(1790000000)
	var els []el
	for _, s := range []int64{0, 1, 2, 59, 16777215, 16777216, 16777217, 33554432, 268435456, 4294967294, 4294967295, 4294967296, 4294967297, 8589934592, 9223372035, 9223372036, 9223372037, 9300000000} {
		for _, ns := range []int64{0, 1, 499999999, 500000000, 999999000, 999999500, 999999522, 999999523, 999999524, 999999700, 999999940, 999999998, 999999999} {
			els = append(els, el{base, ns, base - s})
		}
	}
	for _, s := range []int64{1, 2, 3, 100, 4294967296, 9223372036, 9223372037, 9300000000} {
		for _, ns := range []int64{0, 1, 500000000, 999999999} {
			els = append(els, el{base, ns, base + s})
		}
	}
	for i, e := range els {
		id := fmt.Sprintf("elapsed-cat-%d", i)
		if o.Want(id) {
			emitElapsed(w, id, e.nowS, e.nowNs, e.storedS)
		}
	}
	nEl := o.Count(150, 5000)
	for i := 0; i < nEl; i++ {
		id := fmt.Sprintf("elapsed-%d-%d", o.Seed, i)
		if !o.Want(id) {
			continue
		}
		r := hx.NewRNG(o.Seed, id)
		var s int64
		switch r.Intn(4) {
		case 0:
			s = int64(r.Intn(100))
		case 1:
			s = int64(1)<<uint(r.Range(20, 33)) + int64(r.Range(-2, 2))
		case 2:
			s = int64(r.U64() % 9400000000)
		default:
			s = -int64(r.U64() % 9400000000)
		}
		ns := int64(r.Intn(1000000000))
		if r.Chance(1, 2) {
			ns = 999999999 - int64(r.Intn(1200))
		}
		emitElapsed(w, id, base, ns, base-s)
	}

	// 4. TTL helpers
	hc := []struct {
		m          msgT
		delta, set uint32
	}{
		{msgT{0, false, []rrT{rr(0, 0), rr(0, 1), rr(1, 2), rr(2, 4294967295), opt(2, 4294967295)}}, 0, 5},
		{msgT{0, false, []rrT{rr(0, 0), rr(0, 1), rr(1, 2), rr(2, 4294967295), opt(2, 4294967295)}}, 1, 0},
		{msgT{0, false, []rrT{rr(0, 0), rr(0, 1), rr(1, 2), rr(2, 4294967295), opt(2, 4294967295)}}, 2, 4294967295},
		{msgT{0, false, []rrT{rr(0, 4294967295), rr(2, 4294967294)}}, 4294967294, 1},
		{msgT{0, false, []rrT{rr(0, 4294967295), rr(2, 4294967294)}}, 4294967295, 1},
		{msgT{0, false, []rrT{opt(0, 3), opt(1, 4), opt(2, 5)}}, 4, 9},
		{msgT{0, false, nil}, 4, 9},
		{msgT{0, false, []rrT{rr(1, 4294967295)}}, 7, 9},
	}
	for i, h := range hc {
		id := fmt.Sprintf("helpers-cat-%d", i)
		if o.Want(id) {
			emitHelpers(w, id, h.m, h.delta, h.set)
		}
	}
	nH := o.Count(150, 5000)
	for i := 0; i < nH; i++ {
		id := fmt.Sprintf("helpers-%d-%d", o.Seed, i)
		if !o.Want(id) {
			continue
		}
		r := hx.NewRNG(o.Seed, id)
		m := genMsg(r, false)
		d := genTTL(r)
		if len(m.rrs) > 0 && r.Chance(1, 2) {
			d = m.rrs[r.Intn(len(m.rrs))].ttl + uint32(r.Range(-1, 1))
		}
		emitHelpers(w, id, m, d, genTTL(r))
	}

	// 5. random sequences
	n := o.Count(700, 20000)
	for i := 0; i < n; i++ {
		var id string
		var sc seqCase
		switch {
		case i%10 < 4:
			id = fmt.Sprintf("hit-%d-%d", o.Seed, i)
			sc = genHit(hx.NewRNG(o.Seed, id), id)
		case i%10 < 6:
			id = fmt.Sprintf("store-%d-%d", o.Seed, i)
			sc = genStore(hx.NewRNG(o.Seed, id), id)
		case i%10 < 8:
			id = fmt.Sprintf("refresh-%d-%d", o.Seed, i)
			sc = genRefresh(hx.NewRNG(o.Seed, id), id)
		default:
			id = fmt.Sprintf("mixed-%d-%d", o.Seed, i)
			sc = genMixed(hx.NewRNG(o.Seed, id), id)
		}
		if o.Want(id) {
			emitSeq(w, sc)
		}
	}

	// 6. bursts
	bursts := []struct {
		nk, n int
		ttl   int64
	}{{1, 32, 777}, {1, 32, -1}, {3, 16, 60}, {2, 32, -1}, {1, 1, 9}, {1, 64, 0}}
	nb := o.Count(6, 60)
	for i := 0; i < nb; i++ {
		id := fmt.Sprintf("burst-%d-%d", o.Seed, i)
		r := hx.NewRNG(o.Seed, id)
		b := struct {
			nk, n int
			ttl   int64
		}{r.Range(1, 3), r.Range(1, 48), int64(r.Range(-1, 1)) * int64(r.Range(1, 5000))}
		if b.ttl < 0 {
			b.ttl = -1
		}
		bursts = append(bursts, b)
	}
	for i, b := range bursts {
		id := fmt.Sprintf("burst-%d", i)
		if i >= 6 {
			id = fmt.Sprintf("burst-%d-%d", o.Seed, i-6)
		}
		if o.Want(id) {
			emitBurst(w, id, b.nk, b.n, b.ttl)
		}
	}

	wgSlow.Wait()
	for i, c := range slowCase {
		if c != nil {
			w.Emit(slowKind[i], *c)
		}
	}
}
