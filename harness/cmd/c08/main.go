// Driver for C08: per-query passes through the retry loops of the real
// pipeline and reuse transports against connection-killing servers.
package main

import (
	"fmt"
	"time"

	"verifharness/hx"
	"verifharness/poolx"
	"verifharness/ppx"
)

const wait = 4 * time.Second

type scen struct {
	shortTimeout bool // reuse transport with a 150 ms per-query timeout
	udp          bool // pipeline over datagram framing
	pipeline     bool
	maxCq        int
	plans        []poolx.ConnPlan
	run          func(s *poolx.Session, w *poolx.World) (closed bool, queries []int)
	// must: queries (by index) for which every fresh connection works, nobody cancels and the transport stays
	// open; extra = connections that die while such a query is under way (added to the stale count)
	must  func(q int) bool
	extra int
}

func emit(w *hx.Writer, id string, sc scen, s *poolx.Session, closed bool, queries []int, desc string) {
	for _, q := range queries {
		co, final := s.Obs(q, closed)
		ps := make([]string, len(co.Passes))
		for i, p := range co.Passes {
			ps[i] = hx.App("mkOP", hx.Bool(p.Acq), hx.Bool(p.Created), hx.Bool(p.Ok), hx.Bool(p.Written), hx.Bool(p.Dead))
		}
		if final == 0 && co.Tag != q {
			final = 9 // a reply that is not this query's: never matches the model
		}
		errs := ""
		if co.Err != nil {
			errs = co.Err.Error()
		}
		w.Emit(map[bool]string{true: "pipeline", false: "reuse"}[sc.pipeline], hx.Case{
			ID: fmt.Sprintf("%s/q%d", id, q),
			Coq: hx.App("CRetry", hx.Bool(sc.pipeline), hx.List(ps), hx.Bool(co.Cancelled), hx.Bool(closed), hx.Ni(final), hx.Ni(len(co.Conns)),
				hx.Ni(co.Stale+sc.extra), hx.Bool(sc.must != nil && sc.must(q) && !co.Cancelled && !closed)),
			Desc: map[string]any{"scenario": desc, "query": q, "passes": len(co.Passes), "final": final, "err": errs,
				"conns": len(co.Conns), "stale": co.Stale + sc.extra},
			Replay: []string{"-only", id},
		})
	}
}

func runScen(w *hx.Writer, id, desc string, sc scen) {
	world := poolx.NewWorld(sc.plans)
	var t poolx.Transport
	if sc.pipeline && sc.udp {
		t = poolx.NewPipelineUDP(world, sc.maxCq, 16)
	} else if sc.pipeline {
		t = poolx.NewPipeline(world, sc.maxCq, 16)
	} else {
		rt := poolx.NewReuse(world)
		if sc.shortTimeout {
			rt.VerifSetWaitRespTimeout(150 * time.Millisecond)
		}
		t = rt
	}
	s := poolx.NewSession(sc.pipeline, world, t)
	closed, qs := sc.run(s, world)
	emit(w, id, sc, s, closed, qs, desc)
	// clean up
	for _, q := range qs {
		s.Cancel(q)
	}
	world.Release()
	t.Close()
	for _, q := range qs {
		s.Wait(q, wait)
	}
	s.End()
}

func seq(n int) func(s *poolx.Session, w *poolx.World) (bool, []int) {
	return func(s *poolx.Session, w *poolx.World) (bool, []int) {
		qs := make([]int, n)
		for i := 0; i < n; i++ {
			qs[i] = i
			s.Run(i, wait)
		}
		return false, qs
	}
}

// inflight: k queries in flight on one pipelined connection; the server goes away; the client's Close of that
// socket is slow. The queries queued behind the first one must be retried on ANOTHER connection and succeed.
func inflight(k int) func(s *poolx.Session, w *poolx.World) (bool, []int) {
	return func(s *poolx.Session, w *poolx.World) (bool, []int) {
		var qs []int
		for i := 0; i < k; i++ {
			s.Start(i)
			s.WaitWritten(i, 0, wait)
			qs = append(qs, i)
		}
		w.Conns[0].Kill()
		for i := 0; i < k; i++ {
			s.Wait(i, wait)
		}
		return false, qs
	}
}

// pause: m concurrent queries leave m idle connections; nothing happens for longer than the per-query timeout;
// then extra queries one by one.
func pause(m, extra int) func(s *poolx.Session, w *poolx.World) (bool, []int) {
	return func(s *poolx.Session, w *poolx.World) (bool, []int) {
		var qs []int
		for i := 0; i < m; i++ {
			s.Start(i)
			s.WaitWritten(i, 0, wait)
			qs = append(qs, i)
		}
		w.Release()
		for i := 0; i < m; i++ {
			s.Wait(i, wait)
		}
		time.Sleep(400 * time.Millisecond)
		for i := m; i < m+extra; i++ {
			s.Run(i, wait)
			qs = append(qs, i)
		}
		return false, qs
	}
}

// giveup: m idle connections that have gone silent; one more query is written to one of them and its caller
// gives up. The loop does not look at the context: the query is handed to further idle connections, but never
// to more than the retry budget allows.
func giveup(m int) func(s *poolx.Session, w *poolx.World) (bool, []int) {
	return func(s *poolx.Session, w *poolx.World) (bool, []int) {
		var qs []int
		for i := 0; i < m; i++ {
			s.Start(i)
			s.WaitWritten(i, 0, wait)
			qs = append(qs, i)
		}
		w.Release()
		for i := 0; i < m; i++ {
			s.Wait(i, wait)
		}
		s.Start(m)
		s.WaitWritten(m, 0, wait)
		s.Cancel(m)
		s.Wait(m, wait)
		return false, append(qs, m)
	}
}

// replyThenEOF: every connection answers one query and closes right behind the reply; the caller is kept
// between its write and its wait until the client has read both the reply and the EOF. The reply was received:
// the query succeeds (on a connection opened for it nothing failed; on a reused one nothing is re-sent).
func replyThenEOF(n int) func(s *poolx.Session, w *poolx.World) (bool, []int) {
	return func(s *poolx.Session, w *poolx.World) (bool, []int) {
		s.SetWrittenGate(func(int) { w.WaitNoStale(wait) })
		defer s.SetWrittenGate(nil)
		qs := make([]int, n)
		for i := 0; i < n; i++ {
			qs[i] = i
			s.Run(i, wait)
		}
		return false, qs
	}
}

func repeatPlan(p poolx.ConnPlan, n int) []poolx.ConnPlan {
	out := make([]poolx.ConnPlan, n)
	for i := range out {
		out[i] = p
	}
	return out
}

// stale builds a pool of m connections that each served one query and are
// now dead in the given way, then sends extra queries one by one.
func stale(m, extra int, waitNoticed bool) func(s *poolx.Session, w *poolx.World) (bool, []int) {
	return func(s *poolx.Session, w *poolx.World) (bool, []int) {
		var qs []int
		for i := 0; i < m; i++ {
			s.Start(i)
			s.WaitWritten(i, 0, wait)
			qs = append(qs, i)
		}
		w.Release()
		for i := 0; i < m; i++ {
			s.Wait(i, wait)
		}
		if waitNoticed {
			// the server closed them right behind the reply: let the client notice before the next query
			w.WaitNoStale(wait)
		}
		for i := m; i < m+extra; i++ {
			s.Run(i, wait)
			qs = append(qs, i)
		}
		return false, qs
	}
}

func main() {
	o := hx.ParseFlags()
	w := hx.NewWriter(o)
	defer w.Close()
	do := func(id, desc string, sc scen) {
		if o.Want(id) {
			runScen(w, id, desc, sc)
		}
	}
	for _, pl := range []bool{true, false} {
		tn := map[bool]string{true: "pipeline", false: "reuse"}[pl]
		for _, after := range []string{"close", "rst", "reset"} {
			for k := 1; k <= 3; k++ {
				do(fmt.Sprintf("cat:%s:seq-%s-after-%d", tn, after, k), "sequential stream; every connection dies ("+after+") after k replies",
					scen{pipeline: pl, maxCq: 8, plans: repeatPlan(poolx.ConnPlan{Dial: "ok", Answer: k, After: after}, 12), run: seq(9),
						must: func(int) bool { return true }})
			}
			for _, m := range []int{1, 2, 3, 4, 5} {
				plans := repeatPlan(poolx.ConnPlan{Dial: "ok", Answer: 1, After: after, HoldAll: true}, m)
				do(fmt.Sprintf("cat:%s:stale-%s-%d", tn, after, m), "pool of m connections that died ("+after+") while idle, then 2 more queries",
					scen{pipeline: pl, maxCq: 1, plans: plans, run: stale(m, 2, after == "close"),
						must: func(q int) bool { return q >= m }})
			}
		}
		// m connections that each served one query and are closed by the server only when it reads the NEXT query
		// (clean EOF with the query in flight): the probe query may be written to at most the retry budget of them
		for _, m := range []int{5, 6, 8} {
			plans := repeatPlan(poolx.ConnPlan{Dial: "ok", Answer: 1, After: "closelate", HoldAll: true}, m)
			plans = append(plans, repeatPlan(poolx.ConnPlan{Dial: "ok", Answer: 100, After: "healthy"}, 3)...)
			do(fmt.Sprintf("cat:%s:stale-closelate-%d", tn, m), "pool of m connections closed by the server after it reads the next query, then 2 more queries",
				scen{pipeline: pl, maxCq: 1, plans: plans, run: stale(m, 2, false),
					must: func(q int) bool { return q < m }}) // the probes may legitimately use up their budget on dying connections
		}
		if !pl {
			// healthy idle connections after a pause longer than the per-query timeout: the query deadline of the
			// previous exchange must not make the next write fail (the deadline is set before the write)
			for _, m := range []int{4, 6} {
				plans := repeatPlan(poolx.ConnPlan{Dial: "ok", Answer: 1000, After: "healthy", HoldAll: true}, m)
				do(fmt.Sprintf("cat:reuse:idle-pause-%d", m), "m healthy idle connections, a pause longer than the per-query timeout, then 2 more queries",
					scen{pipeline: false, maxCq: 1, plans: plans, shortTimeout: true, run: pause(m, 2),
						must: func(int) bool { return true }})
			}
		}
		if !pl {
			// the caller gives up while its query waits on a pooled connection: attempts made after that still count
			for _, m := range []int{5, 7, 9} {
				do(fmt.Sprintf("cat:reuse:giveup-%d-idle", m), "m idle connections that stay silent; the caller of one more query gives up after it was written",
					scen{pipeline: false, maxCq: 1, plans: repeatPlan(poolx.ConnPlan{Dial: "ok", Answer: 1, After: "silent", HoldAll: true}, m), run: giveup(m)})
			}
			// a pooled connection whose server went away without FIN/RST: the write succeeds, nothing comes back,
			// the per-query deadline ends the attempt with a timeout error — which is retried like any other
			// failure of a connection that was already in use
			for _, k := range []int{1, 2} {
				plans := append(repeatPlan(poolx.ConnPlan{Dial: "ok", Answer: k, After: "silent", ReadDL: true}, 1),
					poolx.ConnPlan{Dial: "ok", After: "healthy"})
				do(fmt.Sprintf("cat:reuse:silent-after-%d-retry", k), "the pooled connection answers k queries, then goes silent (no FIN); the next query times out on it and must be retried on a fresh one",
					scen{pipeline: false, maxCq: 1, plans: plans, shortTimeout: true, run: seq(k + 2), must: func(int) bool { return true }})
			}
		}
		if pl {
			// datagram framing: a connection whose next send fails (its read side stays silent) must be given up,
			// and the query retried on another connection
			for k := 1; k <= 2; k++ {
				do(fmt.Sprintf("cat:pipeline-udp:reset-after-%d", k), "datagram framing; every connection's send fails after k replies",
					scen{pipeline: true, udp: true, maxCq: 8, plans: repeatPlan(poolx.ConnPlan{Dial: "ok", Answer: k, After: "reset"}, 8), run: seq(6),
						must: func(int) bool { return true }})
			}
			do("cat:pipeline-udp:seq-close-after-1", "datagram framing; sequential stream; read side fails after one reply",
				scen{pipeline: true, udp: true, maxCq: 8, plans: repeatPlan(poolx.ConnPlan{Dial: "ok", Answer: 1, After: "rst"}, 8), run: seq(6),
					must: func(int) bool { return true }})
			for _, k := range []int{2, 4, 8} {
				do(fmt.Sprintf("cat:%s:inflight-eof-slow-close-%d", tn, k), "k queries in flight on one connection, the server goes away, Close of the socket is slow",
					scen{pipeline: pl, maxCq: 16, plans: []poolx.ConnPlan{{Dial: "ok", Answer: 100, After: "healthy", HoldAll: true, SlowClose: 60 * time.Millisecond}},
						run: inflight(k), must: func(q int) bool { return q > 0 }, extra: 1})
			}
		}
		do("cat:"+tn+":reply-then-eof-before-wait", "every connection answers once and closes behind the reply; callers held between write and wait until the client saw both",
			scen{pipeline: pl, maxCq: 8, plans: repeatPlan(poolx.ConnPlan{Dial: "ok", Answer: 1, After: "close"}, 14), run: replyThenEOF(12),
				must: func(int) bool { return true }})
		do("cat:"+tn+":dial-error", "the first dial fails, the next works",
			scen{pipeline: pl, maxCq: 8, plans: []poolx.ConnPlan{{Dial: "err"}, {Dial: "ok", After: "healthy"}}, run: seq(3)})
		do("cat:"+tn+":dial-hang-cancel", "the dial hangs; the caller gives up",
			scen{pipeline: pl, maxCq: 8, plans: []poolx.ConnPlan{{Dial: "hang"}}, run: func(s *poolx.Session, wd *poolx.World) (bool, []int) {
				s.Start(0)
				wd.WaitDials(1, wait)
				s.Cancel(0)
				s.Wait(0, wait)
				return false, []int{0}
			}})
		do("cat:"+tn+":silent-cancel", "a pooled connection goes silent; the caller gives up",
			scen{pipeline: pl, maxCq: 8, plans: []poolx.ConnPlan{{Dial: "ok", Answer: 1, After: "silent"}, {Dial: "ok", Answer: 0, After: "silent"}},
				run: func(s *poolx.Session, wd *poolx.World) (bool, []int) {
					s.Run(0, wait)
					s.Start(1)
					s.WaitWritten(1, 0, wait)
					s.Cancel(1)
					s.Wait(1, wait)
					return false, []int{0, 1}
				}})
		do("cat:"+tn+":transport-close", "the transport is closed with a query in flight; later queries fail at once",
			scen{pipeline: pl, maxCq: 8, plans: []poolx.ConnPlan{{Dial: "ok", Answer: 0, After: "silent"}},
				run: func(s *poolx.Session, wd *poolx.World) (bool, []int) {
					s.Start(0)
					s.WaitWritten(0, 0, wait)
					s.T.Close()
					s.Wait(0, wait)
					s.Run(1, wait)
					return true, []int{0, 1}
				}})
	}
	// generated: random plans, sequential and concurrent streams
	n := o.Count(120, 3000)
	for i := 0; i < n; i++ {
		id := fmt.Sprintf("gen:%d", i)
		if !o.Want(id) {
			continue
		}
		r := hx.NewRNG(o.Seed, id)
		pl := r.Bool()
		np := r.Range(1, 8)
		plans := make([]poolx.ConnPlan, np)
		for j := range plans {
			plans[j] = poolx.ConnPlan{Dial: hx.Pick(r, []string{"ok", "ok", "ok", "ok", "ok", "err"}), Answer: r.Range(0, 4),
				After: hx.Pick(r, []string{"close", "rst", "reset", "healthy", "close", "rst"})}
		}
		workers := hx.Pick(r, []int{1, 1, 2, 3, 5})
		per := r.Range(2, 6)
		sc := scen{pipeline: pl, maxCq: hx.Pick(r, []int{1, 2, 8}), plans: plans, run: func(s *poolx.Session, wd *poolx.World) (bool, []int) {
			var qs []int
			done := make(chan struct{})
			for wk := 0; wk < workers; wk++ {
				for k := 0; k < per; k++ {
					qs = append(qs, wk*100+k)
				}
				go func(wk int) {
					for k := 0; k < per; k++ {
						s.Run(wk*100+k, wait)
					}
					done <- struct{}{}
				}(wk)
			}
			for wk := 0; wk < workers; wk++ {
				<-done
			}
			return false, qs
		}}
		runScen(w, id, fmt.Sprintf("random plans, %d workers x %d queries", workers, per), sc)
	}
	// the pool's walk and the retry loop over dummy connections that answer as scripted
	ppx.Drive(w, o, func(s string) string { return "(KPool " + s + ")" })
}
