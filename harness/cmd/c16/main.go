// Driver for C16 (stream framing). Runs the real readers/writers of /repo on
// described byte streams and prints what they did as Judge.C16.case literals.
package main

import (
	"bytes"
	"context"
	"encoding/binary"
	"errors"
	"fmt"
	"io"
	"net"
	"runtime"
	"sync"
	"sync/atomic"
	"time"

	"github.com/IrineSistiana/mosdns/v5/pkg/dnsutils"
	"github.com/IrineSistiana/mosdns/v5/pkg/pool"
	"github.com/IrineSistiana/mosdns/v5/pkg/server"
	"github.com/IrineSistiana/mosdns/v5/pkg/upstream/transport"
	"github.com/miekg/dns"

	"github.com/quic-go/quic-go"

	"verifharness/hx"
	"verifharness/quicx"
)

// ---------- stream description (mirrors Judge.C16.seg) ----------

type seg struct {
	kind string // frame | raw | bytes | fail
	n    int
	seed uint64
	b    []byte
}

func (s seg) coq() string {
	switch s.kind {
	case "frame":
		return hx.App("SFrame", hx.Ni(s.n), hx.N(s.seed))
	case "raw":
		return hx.App("SRaw", hx.Ni(s.n), hx.N(s.seed))
	case "bytes":
		return hx.App("SBytes", hx.Bytes(s.b))
	}
	return "SFail"
}

func (s seg) bytes() []byte {
	switch s.kind {
	case "frame":
		m := hx.GenBytes(s.n, s.seed)
		out := make([]byte, 2+len(m))
		binary.BigEndian.PutUint16(out, uint16(s.n%65536))
		copy(out[2:], m)
		return out
	case "raw":
		return hx.GenBytes(s.n, s.seed)
	case "bytes":
		return s.b
	}
	return nil
}

var errInjected = errors.New("injected read error")

// chunkReader hands out the stream exactly as Model.Framing.chunk_by cuts it:
// chunk sizes are used cyclically, a size 0 is a zero-byte read, a read with a
// smaller buffer takes a prefix of the current chunk and leaves the rest.
type chunkReader struct {
	runs  [][]byte // data between injected failures
	run   int
	sizes []int
	cur   int
	rem   int // bytes left in the current chunk (-1 = need next size)
	fresh bool
	fails int
	// failErr is what an injected failure returns (nil = errInjected)
	failErr error
}

func newChunkReader(segs []seg, sizes []int) *chunkReader {
	r := &chunkReader{sizes: sizes, rem: -1}
	var cur []byte
	for _, s := range segs {
		if s.kind == "fail" {
			r.runs = append(r.runs, cur)
			cur = nil
			continue
		}
		cur = append(cur, s.bytes()...)
	}
	r.runs = append(r.runs, cur)
	return r
}

func (r *chunkReader) Read(p []byte) (int, error) {
	for {
		if r.run >= len(r.runs) {
			return 0, io.EOF
		}
		data := r.runs[r.run]
		if len(data) == 0 && r.rem <= 0 {
			// end of this run: either an injected failure or EOF
			r.run++
			r.cur, r.rem = 0, -1
			if r.run < len(r.runs) {
				if r.failErr != nil {
					return 0, r.failErr
				}
				return 0, errInjected
			}
			return 0, io.EOF
		}
		if r.rem < 0 { // start a new chunk
			if len(r.sizes) == 0 {
				r.rem = len(data)
			} else {
				k := r.sizes[r.cur%len(r.sizes)]
				r.cur++
				if k > len(data) {
					k = len(data)
				}
				r.rem = k
				if k == 0 {
					r.rem = -1
					return 0, nil // zero-byte read
				}
			}
		}
		n := r.rem
		if n > len(p) {
			n = len(p)
		}
		if n == 0 { // caller passed an empty buffer
			return 0, nil
		}
		copy(p, data[:n])
		r.runs[r.run] = data[n:]
		r.rem -= n
		if r.rem == 0 {
			r.rem = -1
			if len(r.sizes) > 0 && r.cur%len(r.sizes) == 0 {
				r.cur = 0
			}
		}
		return n, nil
	}
}

func errCode(err error) int {
	switch {
	case err == nil:
		return 0
	case errors.Is(err, io.ErrUnexpectedEOF):
		return 2
	case errors.Is(err, io.EOF):
		return 1
	case errors.Is(err, errInjected):
		return 3
	case errors.Is(err, dnsutils.ErrPayloadTooSmall):
		return 4
	}
	return 9
}

func runStream(w *hx.Writer, id string, segs []seg, sizes []int) {
	r := newChunkReader(segs, sizes)
	var obs []string
	code := 0
	p := hx.Recover(func() {
		for i := 0; i < 1<<20; i++ {
			b, err := dnsutils.ReadRawMsgFromTCP(r)
			if err != nil {
				code = errCode(err)
				return
			}
			obs = append(obs, hx.Tuple(hx.Ni(len(*b)), hx.N(hx.Sum(*b))))
			pool.ReleaseBuf(b)
		}
	})
	if p != nil {
		code = 99 // panic
	}
	sc := make([]string, len(segs))
	desc := []string{}
	for i, s := range segs {
		sc[i] = s.coq()
		desc = append(desc, fmt.Sprintf("%s(%d)", s.kind, s.n))
	}
	w.Emit("stream", hx.Case{
		ID:   id,
		Coq:  hx.App("CStream", hx.List(sc), hx.NatList(sizes), hx.List(obs), hx.Ni(code)),
		Desc: map[string]any{"kind": "stream", "segs": desc, "chunk_sizes": sizes, "frames_read": len(obs), "err": code},
		FKey: "stream",
	})
}

// ---------- the DoQ client on an in-memory stream ----------

// How an injected failure of the reply stream looks to the client.
var doqFailKinds = []string{"injected", "reset", "timeout"}

func doqFailErr(kind string) error {
	switch kind {
	case "reset": // RESET_STREAM from the peer
		return &quic.StreamError{StreamID: 0, ErrorCode: 0x2, Remote: true}
	case "timeout": // the read deadline passed
		return quicx.TimeoutError{}
	}
	return errInjected
}

// runDoq: one exchange of the real DoQ client (transport.NewQuicDnsConn) on a fake connection whose only
// stream answers, after the client's FIN, with the described byte stream cut into the described reads.
// A panic of the client is recovered here and reported as a violation of the property.
func runDoq(w *hx.Writer, id string, qid uint16, qn int, qseed uint64, segs []seg, sizes []int, failKind string) {
	q := make([]byte, 2, 2+qn)
	binary.BigEndian.PutUint16(q, qid)
	q = append(q, hx.GenBytes(qn, qseed)...)
	failErr := doqFailErr(failKind)
	st := quicx.NewStream()
	st.Reply = func([]byte) io.Reader {
		r := newChunkReader(segs, sizes)
		r.failErr = failErr
		return r
	}
	sc := make([]string, len(segs))
	sd := []string{}
	for i, s := range segs {
		sc[i] = s.coq()
		sd = append(sd, fmt.Sprintf("%s(%d)", s.kind, s.n))
	}
	desc := map[string]any{"kind": "doq", "qid": qid, "qlen": qn + 2, "segs": sd, "chunk_sizes": sizes, "fail_kind": failKind}

	ret, code := "None", 0
	var cerr error
	p := hx.Recover(func() {
		dc := transport.NewQuicDnsConn(quicx.NewConn(st))
		defer dc.Close()
		rx, _ := dc.ReserveNewQuery()
		if rx == nil {
			cerr = errors.New("no stream reserved")
			code = 9
			return
		}
		// nothing here waits on real time; the deadline only bounds a client that never returns
		ctx, cancel := context.WithTimeout(context.Background(), 30*time.Second)
		defer cancel()
		resp, err := rx.ExchangeReserved(ctx, q)
		cerr = err
		switch {
		case err == nil && resp == nil:
			code = 8 // neither a message nor an error
		case err == nil:
			b := *resp
			if len(b) >= 2 {
				ret = hx.Some(hx.Tuple(hx.Ni(int(binary.BigEndian.Uint16(b))), hx.Ni(len(b)), hx.N(hx.Sum(b[2:]))))
			} else {
				ret = hx.Some(hx.Tuple("0", hx.Ni(len(b)), "0"))
			}
			pool.ReleaseBuf(resp)
		case resp != nil:
			code = 7 // a message together with an error
		case err == failErr:
			code = 3
		default:
			code = errCode(err)
		}
	})
	if p != nil {
		desc["panic"] = fmt.Sprint(p)
		w.Violation(id, "the DoQ client panicked on this reply stream: "+fmt.Sprint(p), desc)
		return
	}
	wrote, writes := st.Written()
	if cerr != nil {
		desc["error"] = cerr.Error()
	}
	desc["err"] = code
	w.Emit("doq", hx.Case{
		ID: id,
		Coq: hx.App("CDoq", hx.Ni(int(qid)), hx.Ni(qn), hx.N(qseed), hx.List(sc), hx.NatList(sizes),
			hx.Tuple(hx.Ni(writes), hx.Ni(len(wrote)), hx.N(hx.Sum(wrote))), hx.Bool(st.FinSent()), ret, hx.Ni(code)),
		Desc: desc,
		FKey: "doq",
	})
}

// ---------- writers ----------

type recWriter struct {
	writes int
	buf    []byte
}

func (r *recWriter) Write(p []byte) (int, error) {
	r.writes++
	r.buf = append(r.buf, p...)
	return len(p), nil
}

func runWrite(w *hx.Writer, id string, which string, n int, seed uint64) {
	m := hx.GenBytes(n, seed)
	obs := "None"
	p := hx.Recover(func() {
		switch which {
		case "WRaw":
			rw := &recWriter{}
			_, err := dnsutils.WriteRawMsgToTCP(rw, m)
			if err == nil {
				obs = hx.Some(hx.Tuple(hx.Ni(rw.writes), hx.Ni(len(rw.buf)), hx.N(hx.Sum(rw.buf))))
			}
		case "WCopy":
			bp, err := transport.VerifCopyMsgWithLenHdr(m)
			if err == nil {
				obs = hx.Some(hx.Tuple("1", hx.Ni(len(*bp)), hx.N(hx.Sum(*bp))))
				pool.ReleaseBuf(bp)
			}
		}
	})
	if p != nil {
		obs = hx.Some(hx.Tuple("99", "0", "0"))
	}
	w.Emit("write", hx.Case{
		ID:   id,
		Coq:  hx.App("CWrite", which, hx.Ni(n), hx.N(seed), obs),
		Desc: map[string]any{"kind": "write", "writer": which, "len": n},
		FKey: "write:" + which,
	})
}

// bigMsg builds a message whose packed size is roughly target bytes.
func bigMsg(id uint16, target int, seed uint64) *dns.Msg {
	m := new(dns.Msg)
	m.SetQuestion("example.org.", dns.TypeTXT)
	m.Id = id
	m.Response = true
	left := target - 29
	i := 0
	for left > 0 {
		k := left - 24
		if k > 60000 {
			k = 60000
		}
		if k < 0 {
			k = 0
		}
		rr := &dns.RFC3597{Hdr: dns.RR_Header{Name: "example.org.", Rrtype: 65280, Class: dns.ClassINET, Ttl: 60}}
		rr.Rdata = fmt.Sprintf("%x", hx.GenBytes(k, seed+uint64(i)))
		m.Answer = append(m.Answer, rr)
		left -= k + 24
		i++
	}
	return m
}

// runUnpack: one frame whose payload is gen_bytes(n, seed) (optionally forced to look like a DNS header with
// absurd counts) goes through dnsutils.ReadMsgFromTCP, the entry point of the TCP and DoQ servers.
func runUnpack(w *hx.Writer, id string, n int, seed uint64) {
	payload := hx.GenBytes(n, seed)
	parses := new(dns.Msg).Unpack(payload) == nil
	frame := make([]byte, 2+n)
	binary.BigEndian.PutUint16(frame, uint16(n))
	copy(frame[2:], payload)
	res := 1
	func() {
		defer func() {
			if recover() != nil {
				res = 2
			}
		}()
		m, _, err := dnsutils.ReadMsgFromTCP(bytes.NewReader(frame))
		if err == nil && m != nil {
			res = 0
		}
	}()
	w.Emit("unpack", hx.Case{ID: id, Coq: hx.App("CUnpack", hx.Ni(n), hx.N(seed), hx.Bool(parses), hx.Ni(res)),
		Desc: map[string]any{"kind": "unpack", "len": n, "parses": parses, "result": res}})
}

func runPack(w *hx.Writer, id string, target int, seed uint64) {
	m := bigMsg(uint16(seed), target, seed)
	m.Compress = false
	runPackMsg(w, id, m, target)
}

// manyMsg: nrec small records under one owner name. With Compress set the owner names shrink to
// pointers, so the packed size is well below the uncompressed size miekg/dns sizes its buffer by.
func manyMsg(id uint16, nrec, rdlen int, seed uint64) *dns.Msg {
	m := new(dns.Msg)
	m.SetQuestion("example.org.", dns.TypeTXT)
	m.Id = id
	m.Response = true
	for i := 0; i < nrec; i++ {
		rr := &dns.RFC3597{Hdr: dns.RR_Header{Name: "example.org.", Rrtype: 65280, Class: dns.ClassINET, Ttl: 60}}
		rr.Rdata = fmt.Sprintf("%x", hx.GenBytes(rdlen, seed+uint64(i)))
		m.Answer = append(m.Answer, rr)
	}
	return m
}

// runPackCompressed: a compressible reply (Compress = true) whose uncompressed and packed sizes lie on
// either side of, or around, the 8 KiB scratch buffer of PackTCPBuffer. The frame must hold exactly
// what an independent Pack of the same message yields.
func runPackCompressed(w *hx.Writer, id string, nrec, rdlen int, seed uint64) {
	m := manyMsg(uint16(seed), nrec, rdlen, seed)
	m.Compress = true
	runPackMsg(w, id, m, nrec*(rdlen+23))
}

func runPackMsg(w *hx.Writer, id string, m *dns.Msg, target int) {
	wire, err := m.Pack()
	n := len(wire)
	if err != nil {
		// the independent packing itself fails (over 64k): PackTCPBuffer must refuse too
		n = 65536 + target%1000
	}
	obs := "None"
	p := hx.Recover(func() {
		bp, err2 := pool.PackTCPBuffer(m)
		if err2 == nil {
			b := *bp
			eq := len(b) >= 2 && string(b[2:]) == string(wire)
			h0, h1 := 0, 0
			if len(b) >= 2 {
				h0, h1 = int(b[0]), int(b[1])
			}
			obs = hx.Some(hx.Tuple(hx.Ni(h0), hx.Ni(h1), hx.Ni(len(b)), hx.Bool(eq)))
			pool.ReleaseBuf(bp)
		}
	})
	if p != nil {
		obs = hx.Some(hx.Tuple("0", "0", "0", "false"))
	}
	w.Emit("pack", hx.Case{
		ID:   id,
		Coq:  hx.App("CPack", hx.Ni(n), obs),
		Desc: map[string]any{"kind": "pack", "packed_len": n},
		FKey: "pack",
	})
}

// ---------- concurrent replies on one server connection ----------

type countConn struct {
	net.Conn
	writes *atomic.Int64
}

// Write counts the call and then yields, the way a TLS record layer or any
// other wrapper may: a reply that is not handed over in ONE Write can then be
// interleaved with another goroutine's reply.
func (c countConn) Write(p []byte) (int, error) {
	c.writes.Add(1)
	n, err := c.Conn.Write(p)
	runtime.Gosched()
	time.Sleep(20 * time.Microsecond)
	return n, err
}

type countListener struct {
	net.Listener
	writes *atomic.Int64
}

func (l countListener) Accept() (net.Conn, error) {
	c, err := l.Listener.Accept()
	if err != nil {
		return nil, err
	}
	return countConn{c, l.writes}, nil
}

type sizeHandler struct {
	mu       sync.Mutex
	sizes    map[uint16]int
	seed     uint64
	expected []string
	rng      *hx.RNG
}

func (h *sizeHandler) Handle(ctx context.Context, q *dns.Msg, meta server.QueryMeta, pack func(m *dns.Msg) (*[]byte, error)) *[]byte {
	h.mu.Lock()
	target := h.sizes[q.Id]
	d := time.Duration(h.rng.Intn(3000)) * time.Microsecond
	h.mu.Unlock()
	time.Sleep(d)
	m := bigMsg(q.Id, target, h.seed+uint64(q.Id))
	m.Compress = false
	wire, err := m.Pack()
	if err != nil {
		return nil
	}
	_ = wire
	b, err := pack(m)
	if err != nil {
		return nil
	}
	return b
}

func runServer(w *hx.Writer, id string, rng *hx.RNG, k int) {
	l, err := net.Listen("tcp", "127.0.0.1:0")
	if err != nil {
		return
	}
	var writes atomic.Int64
	h := &sizeHandler{sizes: map[uint16]int{}, seed: rng.U64() % 100000, rng: rng}
	choices := []int{40, 100, 512, 1500, 4000, 9000, 20000, 65000}
	for i := 0; i < k; i++ {
		h.sizes[uint16(i+1)] = choices[rng.Intn(len(choices))] + rng.Intn(30)
	}
	go server.ServeTCP(countListener{l, &writes}, h, server.TCPServerOpts{IdleTimeout: 5 * time.Second})
	defer l.Close()
	c, err := net.Dial("tcp", l.Addr().String())
	if err != nil {
		return
	}
	defer c.Close()
	// what every query that is SENT must be answered with (not what the handler happened to see)
	for i := 0; i < k; i++ {
		qid := uint16(i + 1)
		m := bigMsg(qid, h.sizes[qid], h.seed+uint64(qid))
		m.Compress = false
		if wire, err := m.Pack(); err == nil {
			h.expected = append(h.expected, hx.Tuple(hx.Ni(int(qid)), hx.Ni(len(wire)), hx.N(hx.Sum(wire))))
		}
	}
	coalesce := rng.Chance(1, 2) // all queries in one Write: several frames (and maybe part of one) per server read
	go func() {
		var all []byte
		for i := 0; i < k; i++ {
			q := new(dns.Msg)
			q.SetQuestion("example.org.", dns.TypeTXT)
			q.Id = uint16(i + 1)
			wire, _ := q.Pack()
			buf := make([]byte, 2+len(wire))
			binary.BigEndian.PutUint16(buf, uint16(len(wire)))
			copy(buf[2:], wire)
			if coalesce {
				all = append(all, buf...)
			} else {
				c.Write(buf)
			}
		}
		if coalesce {
			c.Write(all)
		}
	}()
	// independent framer
	var observed []string
	c.SetReadDeadline(time.Now().Add(8 * time.Second))
	for i := 0; i < k; i++ {
		var hdr [2]byte
		if _, err := io.ReadFull(c, hdr[:]); err != nil {
			break
		}
		n := int(binary.BigEndian.Uint16(hdr[:]))
		body := make([]byte, n)
		if _, err := io.ReadFull(c, body); err != nil {
			break
		}
		rid := 0
		if n >= 2 {
			rid = int(binary.BigEndian.Uint16(body))
		}
		observed = append(observed, hx.Tuple(hx.Ni(rid), hx.Ni(n), hx.N(hx.Sum(body))))
	}
	h.mu.Lock()
	exp := append([]string(nil), h.expected...)
	h.mu.Unlock()
	mw := 1
	if int(writes.Load()) != len(observed) {
		mw = 2
	}
	w.Emit("server", hx.Case{
		ID:   id,
		Coq:  hx.App("CServer", hx.List(exp), hx.List(observed), hx.Ni(mw)),
		Desc: map[string]any{"kind": "server", "replies": k, "observed": len(observed), "write_calls": writes.Load()},
		FKey: "server",
	})
}

// ---------- generators ----------

var boundaryLens = []int{0, 1, 11, 12, 13, 14, 511, 512, 4095, 4096, 65534, 65535}

// bigDen: one in bigDen of the "large" draws is really large. Evaluating a
// 64 KiB payload inside Coq costs about 1.5 s, so the quick tier keeps them rare.
var bigDen = 4

func genLen(r *hx.RNG) int {
	switch r.Intn(10) {
	case 0:
		return hx.Pick(r, boundaryLens)
	case 1:
		return r.Range(13, 70)
	case 2:
		return r.Range(1000, 9000)
	case 3:
		if r.Chance(1, bigDen) {
			return r.Range(30000, 65535)
		}
		return r.Range(13, 300)
	}
	return r.Range(13, 600)
}

func genSizes(r *hx.RNG) []int {
	switch r.Intn(6) {
	case 0:
		return nil // whole stream at once
	case 1:
		return []int{1}
	case 2:
		return []int{1, 1, 70000}
	case 3:
		return []int{0, 1, 0, 2}
	}
	k := r.Range(1, 5)
	s := make([]int, k)
	for i := range s {
		s[i] = hx.Pick(r, []int{0, 1, 2, 3, 7, 13, 64, 500, 4096})
	}
	nz := false
	for _, x := range s {
		if x > 0 {
			nz = true
		}
	}
	if !nz {
		s[0] = 1
	}
	return s
}

func genStream(r *hx.RNG) []seg {
	var out []seg
	k := r.Range(1, 5)
	for i := 0; i < k; i++ {
		switch r.Intn(12) {
		case 0:
			out = append(out, seg{kind: "raw", n: r.Range(0, 40), seed: r.U64() % 1000000})
		case 1:
			out = append(out, seg{kind: "fail"})
		case 2:
			hi := r.Intn(256)
			if r.Bool() {
				hi = 0
			}
			b := []byte{byte(hi), byte(r.Intn(256))}
			if r.Chance(1, 3) {
				b = b[:1]
			}
			out = append(out, seg{kind: "bytes", b: b})
		default:
			out = append(out, seg{kind: "frame", n: genLen(r), seed: r.U64() % 1000000})
		}
	}
	return out
}

func main() {
	o := hx.ParseFlags()
	w := hx.NewWriter(o)
	defer w.Close()
	quick := o.Tier != "thorough"
	if quick {
		bigDen = 12
		boundaryLens = []int{0, 1, 11, 12, 13, 14, 511, 512, 4095, 4096}
	}

	// catalogue
	cat := 0
	for _, n := range []int{0, 1, 11, 12, 13, 14, 512, 65534, 65535} {
		for ci, sizes := range [][]int{nil, {1}, {1, 1, 70000}, {0, 1, 0, 3}} {
			id := fmt.Sprintf("cat:frame:%d:%d", n, ci)
			cat++
			if quick && n > 60000 && ci != 2 && !(n == 65535 && ci == 1) {
				continue
			}
			if !o.Want(id) {
				continue
			}
			segs := []seg{{kind: "frame", n: n, seed: uint64(n + 7)}, {kind: "frame", n: 29, seed: 5}, {kind: "raw", n: 3, seed: 9}}
			runStream(w, id, segs, sizes)
		}
	}
	for i, segs := range [][]seg{
		{},
		{{kind: "bytes", b: []byte{0}}},
		{{kind: "bytes", b: []byte{0, 20}}, {kind: "raw", n: 19, seed: 3}},
		{{kind: "frame", n: 40, seed: 1}, {kind: "fail"}, {kind: "frame", n: 40, seed: 2}},
		{{kind: "bytes", b: []byte{0, 20, 1, 2, 3}}, {kind: "fail"}},
		{{kind: "bytes", b: []byte{0}}, {kind: "fail"}},
		{{kind: "frame", n: 65536 + 20, seed: 1}},
	} {
		id := fmt.Sprintf("cat:edge:%d", i)
		if o.Want(id) {
			runStream(w, id, segs, []int{1, 5})
		}
	}
	for _, which := range []string{"WRaw", "WCopy"} {
		for _, n := range []int{0, 1, 12, 13, 512, 65534, 65535, 65536, 70000} {
			id := fmt.Sprintf("cat:write:%s:%d", which, n)
			if o.Want(id) {
				runWrite(w, id, which, n, uint64(n+1))
			}
		}
	}
	for _, n := range []int{60, 500, 8100, 8200, 30000, 65400, 65535, 65536, 66000, 90000} {
		id := fmt.Sprintf("cat:pack:%d", n)
		if o.Want(id) {
			runPack(w, id, n, uint64(n))
		}
	}
	// compressible replies: uncompressed size from below to above the 8 KiB scratch buffer while the packed
	// size stays below it (240..420 records), then both above it
	for _, nrec := range []int{3, 100, 240, 247, 250, 260, 300, 340, 371, 372, 373, 380, 420, 600, 1500, 2900} {
		for _, rdlen := range []int{0, 10} {
			id := fmt.Sprintf("cat:packc:%d:%d", nrec, rdlen)
			if o.Want(id) {
				runPackCompressed(w, id, nrec, rdlen, uint64(nrec+rdlen))
			}
		}
	}

	// framed garbage through the unpacking reader: every payload length from below the header up to 80 bytes
	// (pooled buffers have capacities 15, 31, 63, 127: whatever slices them blindly shows here), some larger
	for l := 0; l <= 80; l++ {
		for k := 0; k < 2; k++ {
			id := fmt.Sprintf("cat:unpack:%d:%d", l, k)
			if o.Want(id) {
				runUnpack(w, id, l, uint64(1000*k+l))
			}
		}
	}
	for _, l := range []int{127, 128, 255, 256, 511, 512, 1000, 4095, 4096} {
		id := fmt.Sprintf("cat:unpack:%d:0", l)
		if o.Want(id) {
			runUnpack(w, id, l, uint64(l))
		}
	}

	// the DoQ client: malformed reply streams (each must be an error, never a panic) and whole frames of
	// boundary sizes, served in pieces
	hdr := func(l int) seg { return seg{kind: "bytes", b: []byte{byte(l >> 8), byte(l)}} }
	type doqCat struct {
		name  string
		segs  []seg
		sizes [][]int
	}
	pieces := [][]int{nil, {1}, {0, 1, 0, 3}, {2, 5}}
	doqCats := []doqCat{
		{"fin-only", []seg{}, [][]int{nil}},
		{"hdr-1-byte", []seg{{kind: "bytes", b: []byte{0}}}, [][]int{nil, {1}}},
		{"hdr-1-byte-ff", []seg{{kind: "bytes", b: []byte{0xff}}}, [][]int{nil}},
		{"hdr-only", []seg{hdr(40)}, [][]int{nil, {1}}},
		{"short-body", []seg{hdr(40), {kind: "raw", n: 10, seed: 3}}, pieces},
		{"short-body-by-1", []seg{hdr(40), {kind: "raw", n: 39, seed: 4}}, pieces},
		{"short-body-big", []seg{hdr(65535), {kind: "raw", n: 700, seed: 5}}, [][]int{nil, {64}}},
		{"garbage", []seg{{kind: "bytes", b: []byte{0xff, 0xff, 0xde, 0xad, 0xbe, 0xef}}}, [][]int{nil, {1}}},
		{"reset-at-once", []seg{{kind: "fail"}}, [][]int{nil}},
		{"reset-in-hdr", []seg{{kind: "bytes", b: []byte{0}}, {kind: "fail"}}, [][]int{nil, {1}}},
		{"reset-after-hdr", []seg{hdr(29), {kind: "fail"}, {kind: "raw", n: 29, seed: 6}}, [][]int{nil, {1}}},
		{"reset-in-body", []seg{hdr(29), {kind: "raw", n: 20, seed: 7}, {kind: "fail"}, {kind: "raw", n: 9, seed: 8}}, pieces},
		{"reset-after-frame", []seg{{kind: "frame", n: 29, seed: 9}, {kind: "fail"}}, [][]int{nil, {1}}},
		{"frame-then-garbage", []seg{{kind: "frame", n: 29, seed: 10}, {kind: "raw", n: 5, seed: 11}}, pieces},
		{"two-frames", []seg{{kind: "frame", n: 13, seed: 12}, {kind: "frame", n: 40, seed: 13}}, pieces},
	}
	for l := 0; l <= 12; l++ {
		// a frame announcing less than a DNS header plus one byte, complete
		doqCats = append(doqCats, doqCat{fmt.Sprintf("len-%d", l), []seg{{kind: "frame", n: l, seed: uint64(20 + l)}}, [][]int{nil, {1}}})
	}
	for _, c := range doqCats {
		for ci, sizes := range c.sizes {
			for _, fk := range doqFailKinds {
				hasFail := false
				for _, s := range c.segs {
					hasFail = hasFail || s.kind == "fail"
				}
				if fk != "injected" && !hasFail {
					continue
				}
				id := fmt.Sprintf("doq:cat:%s:%d:%s", c.name, ci, fk)
				if o.Want(id) {
					runDoq(w, id, 0x1234, 27, 77, c.segs, sizes, fk)
				}
			}
		}
	}
	for _, n := range []int{13, 14, 512, 4096, 65534, 65535} {
		for ci, sizes := range [][]int{nil, {1}, {1, 1, 70000}, {0, 1, 0, 3}, {7, 500}} {
			id := fmt.Sprintf("doq:cat:frame:%d:%d", n, ci)
			if n > 60000 && (ci == 1 || ci == 3 || (quick && !(n == 65535 && ci == 2))) {
				continue // a 64 KiB payload costs seconds inside Coq: one chunking in the quick tier, no 1-byte reads
			}
			if o.Want(id) {
				runDoq(w, id, uint16(0xF000+ci), 40+ci, uint64(n), []seg{{kind: "frame", n: n, seed: uint64(n + 3)}}, sizes, "injected")
			}
		}
	}
	nd := o.Count(120, 4000)
	qids := []uint16{0, 1, 0x00FF, 0x0100, 0x8000, 0xFFFF}
	for i := 0; i < nd; i++ {
		id := fmt.Sprintf("doq:gen:%d", i)
		if !o.Want(id) {
			continue
		}
		r := hx.NewRNG(o.Seed, id)
		qid := hx.Pick(r, qids)
		if r.Bool() {
			qid = uint16(r.Intn(65536))
		}
		segs := genStream(r)
		for j := range segs {
			if quick && segs[j].kind == "frame" && segs[j].n > 10000 {
				segs[j].n = 13 + segs[j].n%5000 // 64 KiB payloads are covered by the catalogue; they cost seconds inside Coq
			}
		}
		if r.Chance(1, 3) {
			// a frame cut short: a well-formed frame of which only a prefix arrives before FIN or a failure
			n := r.Range(13, 300)
			full := seg{kind: "frame", n: n, seed: r.U64() % 1000000}.bytes()
			segs = []seg{{kind: "bytes", b: full[:r.Intn(len(full))]}}
			if r.Bool() {
				segs = append(segs, seg{kind: "fail"})
			}
		}
		runDoq(w, id, qid, r.Range(10, 300), r.U64()%1000000, segs, genSizes(r), hx.Pick(r, doqFailKinds))
	}

	// generated
	n := o.Count(500, 20000)
	for i := 0; i < n; i++ {
		id := fmt.Sprintf("gen:%d", i)
		if !o.Want(id) {
			continue
		}
		r := hx.NewRNG(o.Seed, id)
		switch r.Intn(10) {
		case 0:
			big := 0
			if r.Chance(1, bigDen) {
				big = r.Intn(70000)
			}
			runWrite(w, id, hx.Pick(r, []string{"WRaw", "WCopy"}), genLen(r)+big, r.U64()%1000000)
		case 1:
			// (the two draws are those of the plain variant, so the rest of the stream is unchanged)
			t, sd := r.Range(30, 70000), r.U64()%1000000
			if sd%3 == 0 {
				runPackCompressed(w, id, 1+t%700, int(sd%40), sd)
			} else {
				runPack(w, id, t, sd)
			}
		default:
			runStream(w, id, genStream(r), genSizes(r))
		}
	}
	ns := o.Count(3, 40)
	for i := 0; i < ns; i++ {
		id := fmt.Sprintf("srv:%d", i)
		if !o.Want(id) {
			continue
		}
		r := hx.NewRNG(o.Seed, id)
		runServer(w, id, r, r.Range(16, 64))
	}
	driveServerSide(w, o)
}
