// Server-side framing cases of the C16 driver: ServeTCP after a failed reply write (rounds of replies packed
// at the same moment) and ServeDoQ with overlapping streams on one connection.
package main

import (
	"context"
	"crypto/tls"
	"encoding/binary"
	"errors"
	"fmt"
	"io"
	"net"
	"os"
	"runtime"
	"runtime/debug"
	"sync"
	"sync/atomic"
	"time"

	"github.com/IrineSistiana/mosdns/v5/pkg/server"
	"github.com/IrineSistiana/mosdns/v5/pkg/utils"
	"github.com/miekg/dns"
	"github.com/quic-go/quic-go"

	"verifharness/hx"
)

// nothing in these cases depends on real time on the unchanged code; srvWait only bounds a server that hangs
const srvWait = 20 * time.Second

// qspec: one query of a scenario and the gates its handler goes through.
type qspec struct {
	name    string
	target  int // exact packed length of the reply
	seed    uint64
	reject  bool          // the handler returns nil (ServeTCP then aborts the connection)
	arrived chan struct{} // closed by the handler on entry
	start   chan struct{} // the handler packs after this is closed
	packed  chan struct{} // closed by the handler after it packed the reply
	finish  chan struct{} // the handler returns after this is closed (nil = at once)
	once    sync.Once
	pOnce   sync.Once
}

func newSpec(i int, target int, seed uint64) *qspec {
	return &qspec{name: fmt.Sprintf("q%03d.test.", i), target: target, seed: seed,
		arrived: make(chan struct{}), start: make(chan struct{}), packed: make(chan struct{})}
}

func waitCh(c <-chan struct{}, d time.Duration) bool {
	if c == nil {
		return true
	}
	select {
	case <-c:
		return true
	case <-time.After(d):
		return false
	}
}

// srvMsg: the reply to the query (id, name): one opaque record sized so that the packing is exactly target bytes.
func srvMsg(id uint16, name string, target int, seed uint64) *dns.Msg {
	build := func(k int) *dns.Msg {
		m := new(dns.Msg)
		m.SetQuestion(name, dns.TypeTXT)
		m.Id = id
		m.Response = true
		if k < 0 {
			k = 0
		}
		rr := &dns.RFC3597{Hdr: dns.RR_Header{Name: name, Rrtype: 65280, Class: dns.ClassINET, Ttl: 60}}
		rr.Rdata = fmt.Sprintf("%x", hx.GenBytes(k, seed))
		m.Answer = append(m.Answer, rr)
		return m
	}
	k := target - 60
	for i := 0; i < 3; i++ {
		wire, err := build(k).Pack()
		if err != nil || len(wire) == target {
			break
		}
		k += target - len(wire)
	}
	return build(k)
}

type gateHandler struct {
	mu    sync.Mutex
	specs map[string]*qspec
}

func (h *gateHandler) add(sp *qspec) {
	h.mu.Lock()
	h.specs[sp.name] = sp
	h.mu.Unlock()
}

func (h *gateHandler) Handle(ctx context.Context, q *dns.Msg, meta server.QueryMeta, pack func(m *dns.Msg) (*[]byte, error)) *[]byte {
	if len(q.Question) != 1 {
		return nil
	}
	h.mu.Lock()
	sp := h.specs[q.Question[0].Name]
	h.mu.Unlock()
	if sp == nil {
		return nil
	}
	sp.once.Do(func() { close(sp.arrived) })
	if sp.reject {
		return nil
	}
	waitCh(sp.start, srvWait)
	b, err := pack(srvMsg(q.Id, sp.name, sp.target, sp.seed))
	sp.pOnce.Do(func() { close(sp.packed) })
	if err != nil {
		return nil
	}
	waitCh(sp.finish, srvWait)
	return b
}

func queryFrame(id uint16, name string) []byte {
	q := new(dns.Msg)
	q.SetQuestion(name, dns.TypeTXT)
	q.Id = id
	wire, _ := q.Pack()
	f := make([]byte, 2+len(wire))
	binary.BigEndian.PutUint16(f, uint16(len(wire)))
	copy(f[2:], wire)
	return f
}

// ---------- ServeTCP: a failed reply write, then rounds of replies packed at the same moment ----------

type srvConn struct {
	net.Conn
	writes, failed *atomic.Int64
	inject         *atomic.Bool
}

func (c srvConn) Write(p []byte) (int, error) {
	c.writes.Add(1)
	if c.inject.Load() {
		c.failed.Add(1)
		return 0, errors.New("injected write error")
	}
	n, err := c.Conn.Write(p)
	if err != nil {
		c.failed.Add(1)
	}
	return n, err
}

type srvListener struct {
	net.Listener
	writes, failed *atomic.Int64
	inject         *atomic.Bool
}

func (l srvListener) Accept() (net.Conn, error) {
	c, err := l.Listener.Accept()
	if err != nil {
		return nil, err
	}
	return srvConn{c, l.writes, l.failed, l.inject}, nil
}

// runTcpRounds: on one ServeTCP, (1) a reply whose write fails -- "reject": on a pipelined connection a slow
// query is followed by one the handler rejects (nil reply: ServeTCP closes the connection), the slow reply is
// then written to the closed connection; "inject": the connection's Write returns an error -- and (2) on a
// second connection rounds of K queries whose replies, all in the size class of the failed one, are packed
// before any of them is handed to Write. One P and no GC while the case runs (sync.Pool then hands buffers
// out in a fixed order); both restored on return.
func runTcpRounds(w *hx.Writer, id string, rng *hx.RNG, mode string, bit int, ks []int) {
	prevP := runtime.GOMAXPROCS(1)
	defer runtime.GOMAXPROCS(prevP)
	prevGC := debug.SetGCPercent(-1)
	defer debug.SetGCPercent(prevGC)

	lo, hi := 1<<(bit-1), 1<<bit-1 // frame lengths (2 + message) of the size class
	target := func() int { return rng.Range(lo, hi) - 2 }
	desc := map[string]any{"kind": "tcp-rounds", "mode": mode, "frame_class": []int{lo, hi}, "rounds": ks}
	skip := func(why string) {
		desc["skipped"] = why
		w.Tally("tcp-rounds-skipped", 1)
	}

	l, err := net.Listen("tcp", "127.0.0.1:0")
	if err != nil {
		skip(err.Error())
		return
	}
	defer l.Close()
	var writes, failed atomic.Int64
	var inject atomic.Bool
	h := &gateHandler{specs: map[string]*qspec{}}
	go server.ServeTCP(srvListener{l, &writes, &failed, &inject}, h, server.TCPServerOpts{IdleTimeout: 60 * time.Second})

	// (1) the failed reply write
	slow := newSpec(0, target(), rng.U64()%100000)
	h.add(slow)
	c1, err := net.Dial("tcp", l.Addr().String())
	if err != nil {
		skip(err.Error())
		return
	}
	out := queryFrame(1, slow.name)
	if mode == "reject" {
		rej := newSpec(1, 0, 0)
		rej.reject = true
		h.add(rej)
		out = append(out, queryFrame(2, rej.name)...)
		c1.Write(out)
		waitCh(slow.arrived, srvWait)
		waitCh(rej.arrived, srvWait)
		// the server aborts the connection: wait until this end sees it
		c1.SetReadDeadline(time.Now().Add(srvWait))
		io.Copy(io.Discard, c1)
	} else {
		c1.Write(out)
		waitCh(slow.arrived, srvWait)
		inject.Store(true)
	}
	close(slow.start)
	for i := 0; i < 10000 && failed.Load() == 0; i++ {
		time.Sleep(time.Millisecond)
	}
	inject.Store(false)
	time.Sleep(2 * time.Millisecond) // the reply's goroutine runs to its end (one P: it is ahead of this one)
	c1.Close()
	sawFail := failed.Load() > 0

	// (2) rounds on a fresh connection
	c2, err := net.Dial("tcp", l.Addr().String())
	if err != nil {
		skip(err.Error())
		return
	}
	defer c2.Close()
	var rounds []string
	next := 10
	for _, k := range ks {
		specs := make([]*qspec, k)
		finish := make(chan struct{})
		var exp []string
		var all []byte
		ids := make([]uint16, k)
		for j := range specs {
			specs[j] = newSpec(next, target(), rng.U64()%100000)
			specs[j].finish = finish
			ids[j] = uint16(next)
			next++
			h.add(specs[j])
			if wire, err := srvMsg(ids[j], specs[j].name, specs[j].target, specs[j].seed).Pack(); err == nil {
				exp = append(exp, hx.Tuple(hx.Ni(int(ids[j])), hx.Ni(len(wire)), hx.N(hx.Sum(wire))))
			}
			all = append(all, queryFrame(ids[j], specs[j].name)...)
		}
		w0 := writes.Load()
		c2.Write(all)
		for _, sp := range specs {
			waitCh(sp.arrived, srvWait)
		}
		for _, sp := range specs {
			close(sp.start)
		}
		for _, sp := range specs {
			waitCh(sp.packed, srvWait)
		}
		close(finish)
		var obs []string
		c2.SetReadDeadline(time.Now().Add(10 * time.Second))
		for j := 0; j < k; j++ {
			var hdr [2]byte
			if _, err := io.ReadFull(c2, hdr[:]); err != nil {
				break
			}
			n := int(binary.BigEndian.Uint16(hdr[:]))
			body := make([]byte, n)
			if _, err := io.ReadFull(c2, body); err != nil {
				break
			}
			rid := 0
			if n >= 2 {
				rid = int(binary.BigEndian.Uint16(body))
			}
			obs = append(obs, hx.Tuple(hx.Ni(rid), hx.Ni(n), hx.N(hx.Sum(body))))
		}
		rounds = append(rounds, hx.Tuple(hx.List(exp), hx.List(obs), hx.N(uint64(writes.Load()-w0))))
	}
	desc["write_failed"] = sawFail
	w.Emit("tcp-rounds", hx.Case{
		ID:   id,
		Coq:  hx.App("CTcpRounds", hx.Bool(sawFail), hx.List(rounds)),
		Desc: desc,
		FKey: "tcp-rounds",
	})
}

// ---------- ServeDoQ: overlapping streams on one connection ----------

var (
	doqCertOnce sync.Once
	doqCert     tls.Certificate
	doqCertErr  error
)

type streamObs struct {
	frames []string
	fin    bool
	err    string
}

func readStreamFrames(s quic.Stream) streamObs {
	var o streamObs
	for i := 0; i < 16; i++ {
		var hdr [2]byte
		if _, err := io.ReadFull(s, hdr[:]); err != nil {
			o.fin = err == io.EOF
			o.err = err.Error()
			return o
		}
		n := int(binary.BigEndian.Uint16(hdr[:]))
		body := make([]byte, n)
		if _, err := io.ReadFull(s, body); err != nil {
			o.err = err.Error()
			return o
		}
		o.frames = append(o.frames, hx.Tuple(hx.Ni(n), hx.N(hx.Sum(body))))
	}
	return o
}

// runDoqServer: the real ServeDoQ behind a quic-go listener on loopback; k streams are opened one after the
// other on ONE connection, each only after the previous query is inside its handler, so all k handlers overlap;
// the handlers are then released in the given order (stepwise = the reply of one is awaited before the next is
// released). Every stream is read to its end by an independent framer.
func runDoqServer(w *hx.Writer, id string, rng *hx.RNG, k int, order []int, stepwise bool) {
	doqCertOnce.Do(func() {
		os.Setenv("QUIC_GO_DISABLE_RECEIVE_BUFFER_WARNING", "true")
		doqCert, doqCertErr = utils.GenerateCertificate("c16.test")
	})
	desc := map[string]any{"kind": "doq-server", "streams": k, "release_order": order, "stepwise": stepwise}
	skip := func(why string) {
		w.Tally("doq-server-skipped", 1)
		fmt.Fprintln(os.Stderr, "c16:", id, "skipped:", why)
	}
	if doqCertErr != nil {
		skip(doqCertErr.Error())
		return
	}
	l, err := quic.ListenAddr("127.0.0.1:0", &tls.Config{Certificates: []tls.Certificate{doqCert}, NextProtos: []string{"doq"}}, &quic.Config{})
	if err != nil {
		skip(err.Error())
		return
	}
	defer l.Close()
	h := &gateHandler{specs: map[string]*qspec{}}
	go server.ServeDoQ(l, h, server.DoQServerOpts{})

	ctx, cancel := context.WithTimeout(context.Background(), 2*srvWait)
	defer cancel()
	c, err := quic.DialAddr(ctx, l.Addr().String(), &tls.Config{InsecureSkipVerify: true, NextProtos: []string{"doq"}}, &quic.Config{})
	if err != nil {
		skip(err.Error())
		return
	}
	defer c.CloseWithError(0, "")

	specs := make([]*qspec, k)
	streams := make([]quic.Stream, k)
	exp := make([]string, k)
	for i := 0; i < k; i++ {
		specs[i] = newSpec(i, rng.Range(60, 900), rng.U64()%100000)
		h.add(specs[i])
		wire, err := srvMsg(0, specs[i].name, specs[i].target, specs[i].seed).Pack()
		if err != nil {
			skip(err.Error())
			return
		}
		exp[i] = hx.Tuple(hx.Ni(len(wire)), hx.N(hx.Sum(wire)))
		s, err := c.OpenStreamSync(ctx)
		if err != nil {
			skip(err.Error())
			return
		}
		streams[i] = s
		s.Write(queryFrame(0, specs[i].name)) // RFC 9250: id 0
		s.Close()                             // FIN
		if !waitCh(specs[i].arrived, srvWait) {
			desc["not_arrived"] = i
		}
	}
	obs := make([]streamObs, k)
	done := make([]chan struct{}, k)
	for i := range streams {
		i := i
		done[i] = make(chan struct{})
		go func() {
			defer close(done[i])
			obs[i] = readStreamFrames(streams[i])
		}()
	}
	for _, i := range order {
		close(specs[i].start)
		if stepwise {
			waitCh(done[i], time.Second)
		}
	}
	dl := time.Now().Add(4 * time.Second)
	for _, s := range streams {
		s.SetReadDeadline(dl)
	}
	for i := range done {
		waitCh(done[i], srvWait)
	}
	items := make([]string, k)
	errs := []string{}
	for i := range obs {
		items[i] = hx.Tuple(exp[i], hx.List(obs[i].frames), hx.Bool(obs[i].fin))
		errs = append(errs, obs[i].err)
	}
	desc["stream_end"] = errs
	w.Emit("doq-server", hx.Case{
		ID:   id,
		Coq:  hx.App("CDoqServer", hx.List(items)),
		Desc: desc,
		FKey: "doq-server",
	})
}

func driveServerSide(w *hx.Writer, o *hx.Opts) {
	nt := o.Count(8, 120)
	if o.N > 0 && nt > 40 {
		nt = 40
	}
	for i := 0; i < nt; i++ {
		id := fmt.Sprintf("tcpr:%d", i)
		if !o.Want(id) {
			continue
		}
		r := hx.NewRNG(o.Seed, id)
		mode := "reject"
		if i%4 == 3 {
			mode = "inject"
		}
		nr := r.Range(1, 3)
		ks := make([]int, nr)
		for j := range ks {
			ks[j] = r.Range(2, 6)
		}
		runTcpRounds(w, id, r, mode, r.Range(7, 11), ks)
	}
	nd := o.Count(5, 60)
	if o.N > 0 && nd > 20 {
		nd = 20
	}
	for i := 0; i < nd; i++ {
		id := fmt.Sprintf("doqs:%d", i)
		if !o.Want(id) {
			continue
		}
		r := hx.NewRNG(o.Seed, id)
		k := r.Range(2, 4)
		order := r.Perm(k)
		if i == 0 { // the plain one: two streams, the first query answered first
			k, order = 2, []int{0, 1}
		}
		runDoqServer(w, id, r, k, order, i == 0 || r.Bool())
	}
}
