// Stand-alone driver for the scripted schedules on lazyDnsConn (debug aid; C09 and C07 use combined drivers).
package main

import (
	"verifharness/hx"
	"verifharness/lazyx"
)

func main() {
	o := hx.ParseFlags()
	w := hx.NewWriter(o)
	defer w.Close()
	lazyx.Drive(w, o, func(s string) string { return s })
}
