// Driver for C04 (a cached answer is only served to the same question).
// Runs the real key derivation (cache.VerifGetMsgKey = getMsgKey), the real
// Cache.Exec on real query contexts with a scripted rest-of-chain, the /flush
// API and query_context.NewContext, and prints what they did as
// Judge.C04.case literals.
package main

import (
	"bytes"
	"context"
	"errors"
	"fmt"
	"net"
	"net/http/httptest"
	"os"
	"runtime"
	"sync"
	"time"

	"github.com/IrineSistiana/mosdns/v5/pkg/query_context"
	"github.com/IrineSistiana/mosdns/v5/plugin/executable/cache"
	"github.com/IrineSistiana/mosdns/v5/plugin/executable/dual_selector"
	"github.com/IrineSistiana/mosdns/v5/plugin/executable/redirect"
	"github.com/IrineSistiana/mosdns/v5/plugin/executable/sequence"
	"github.com/miekg/dns"

	"go.uber.org/zap"

	"verifharness/hx"
)

// ---------- descriptions (mirror Judge.C04.nm / qd) ----------

// nm = GenBytes(n, seed) ++ suf
type nm struct {
	n    int
	seed uint64
	suf  []byte
}

func lit(s string) nm { return nm{suf: []byte(s)} }

func (x nm) bytes() []byte {
	b := hx.GenBytes(x.n, x.seed)
	return append(b, x.suf...)
}
func (x nm) str() string { return string(x.bytes()) }
func (x nm) coq() string {
	return hx.App("Nm", hx.Ni(x.n), hx.N(x.seed), hx.Bytes(x.suf))
}

type xrr struct {
	opt bool
	ttl uint32
}

func (x xrr) coq() string {
	if x.opt {
		return hx.App("XOpt", hx.N(uint64(x.ttl)))
	}
	return "XOther"
}

type quest struct {
	name nm
	t, c uint16
}

type qd struct {
	qr     bool
	opcode int
	ad, cd bool
	qs     []quest
	extra  []xrr
}

func (d qd) clone() qd {
	e := d
	e.qs = append([]quest(nil), d.qs...)
	for i := range e.qs {
		e.qs[i].name.suf = append([]byte(nil), d.qs[i].name.suf...)
	}
	e.extra = append([]xrr(nil), d.extra...)
	return e
}

func (d qd) coq() string {
	qs := make([]string, len(d.qs))
	for i, q := range d.qs {
		qs[i] = hx.Tuple(q.name.coq(), hx.N(uint64(q.t)), hx.N(uint64(q.c)))
	}
	ex := make([]string, len(d.extra))
	for i, x := range d.extra {
		ex[i] = x.coq()
	}
	return hx.App("Q", hx.Bool(d.qr), hx.Ni(d.opcode), hx.Bool(d.ad), hx.Bool(d.cd), hx.List(qs), hx.List(ex))
}

func mkExtra(ex []xrr) []dns.RR {
	var out []dns.RR
	for _, x := range ex {
		if x.opt {
			out = append(out, &dns.OPT{Hdr: dns.RR_Header{Name: ".", Rrtype: dns.TypeOPT, Class: 1232, Ttl: x.ttl}})
		} else {
			out = append(out, &dns.TXT{Hdr: dns.RR_Header{Name: ".", Rrtype: dns.TypeTXT, Class: dns.ClassINET}, Txt: []string{"x"}})
		}
	}
	return out
}

func (d qd) msg() *dns.Msg {
	m := new(dns.Msg)
	m.Id = 4660
	m.Response = d.qr
	m.Opcode = d.opcode
	m.AuthenticatedData = d.ad
	m.CheckingDisabled = d.cd
	m.RecursionDesired = true
	for _, q := range d.qs {
		m.Question = append(m.Question, dns.Question{Name: q.name.str(), Qtype: q.t, Qclass: q.c})
	}
	m.Extra = mkExtra(d.extra)
	return m
}

// describe reads a message back into a description. Names are taken from
// orig when the strings are identical (keeps the compact form), literal otherwise.
func describe(orig qd, m *dns.Msg) qd {
	d := qd{qr: m.Response, opcode: m.Opcode, ad: m.AuthenticatedData, cd: m.CheckingDisabled}
	for i, q := range m.Question {
		n := lit(q.Name)
		if i < len(orig.qs) && orig.qs[i].name.str() == q.Name {
			n = orig.qs[i].name
		}
		d.qs = append(d.qs, quest{name: n, t: q.Qtype, c: q.Qclass})
	}
	for _, rr := range m.Extra {
		if o, ok := rr.(*dns.OPT); ok {
			d.extra = append(d.extra, xrr{opt: true, ttl: o.Hdr.Ttl})
		} else {
			d.extra = append(d.extra, xrr{})
		}
	}
	return d
}

// viaWire packs and unpacks the message the way a server would receive it.
func viaWire(d qd) (qd, *dns.Msg, bool) {
	m := d.msg()
	b, err := m.Pack()
	if err != nil {
		return d, nil, false
	}
	m2 := new(dns.Msg)
	if err := m2.Unpack(b); err != nil {
		return d, nil, false
	}
	return describe(d, m2), m2, true
}

func kobs(k string) string {
	if len(k) == 0 {
		return "KNone"
	}
	if len(k) <= 40 {
		return hx.App("KRaw", hx.Bytes([]byte(k)))
	}
	return hx.App("KSum", hx.Bytes([]byte(k[:6])), hx.Ni(len(k)), hx.N(hx.Sum([]byte(k))))
}

func fail(id string, format string, a ...any) {
	fmt.Fprintf(os.Stderr, "c04 %s: %s\n", id, fmt.Sprintf(format, a...))
	os.Exit(3)
}

// ---------- running the real code ----------

func runKeys(w *hx.Writer, id string, d1, d2 qd, wire bool) {
	m1, m2 := d1.msg(), d2.msg()
	if wire {
		e1, n1, ok1 := viaWire(d1)
		e2, n2, ok2 := viaWire(d2)
		if ok1 && ok2 {
			d1, d2, m1, m2 = e1, e2, n1, n2
		} else {
			wire = false
		}
	}
	k1 := cache.VerifGetMsgKey(m1)
	k2 := cache.VerifGetMsgKey(m2)
	w.Emit("keys", hx.Case{
		ID:   id,
		Coq:  hx.App("CKeys", d1.coq(), d2.coq(), kobs(k1), kobs(k2), hx.Bool(k1 == k2)),
		Desc: map[string]any{"kind": "keys", "wire": wire, "len1": len(k1), "len2": len(k2), "equal": k1 == k2},
		FKey: "keys",
	})
}

func mkResp(kind int, q *dns.Msg, idx int) *dns.Msg {
	if kind == 0 {
		return nil
	}
	r := new(dns.Msg)
	r.Id = q.Id
	r.Response = true
	r.Rcode = dns.RcodeSuccess
	r.RecursionAvailable = true
	if kind != 6 {
		for _, qu := range q.Question {
			switch kind {
			case 3:
				qu.Name += "x"
			case 4:
				qu.Qtype++
			case 5:
				qu.Qclass++
			}
			r.Question = append(r.Question, qu)
		}
	}
	if kind == 2 {
		r.Truncated = true
	}
	r.Answer = []dns.RR{&dns.A{
		Hdr: dns.RR_Header{Name: "p.", Rrtype: dns.TypeA, Class: dns.ClassINET, Ttl: 3600},
		A:   net.IPv4(10, 0, byte(idx>>8), byte(idx)),
	}}
	return r
}

func payloadOf(r *dns.Msg) int {
	if len(r.Answer) == 1 {
		if a, ok := r.Answer[0].(*dns.A); ok {
			if ip := a.A.To4(); ip != nil {
				return int(ip[2])<<8 | int(ip[3])
			}
		}
	}
	return 65535
}

// execOne runs Cache.Exec on the client message d. plugDo: a plugin in front
// of the cache sets DO on the upstream-bound OPT (qCtx.QOpt()). Returns the
// message as the cache saw it, whether the rest of the chain was entered with
// a (cached) response, and which step created that response.
// servedQ is the question section of a served (cached) reply relative to the
// query: same name, and its type and class (false, 0, 0 when it has not exactly
// one question).
type servedQ struct {
	nameOK bool
	t, c   uint16
}

func execOne(id string, c *cache.Cache, d qd, plugDo bool, idx, kind int, replace bool) (seen qd, hit bool, from int, sq servedQ) {
	qCtx := query_context.NewContext(d.msg())
	if plugDo {
		qCtx.QOpt().SetDo()
	}
	seen = describe(d, qCtx.Q())
	reached := 0
	next := sequence.ExecutableFunc(func(_ context.Context, qc *query_context.Context) error {
		reached++
		if r := qc.R(); r != nil {
			hit = true
			from = payloadOf(r)
			if q := qc.Q(); len(r.Question) == 1 && len(q.Question) > 0 {
				sq = servedQ{r.Question[0].Name == q.Question[0].Name, r.Question[0].Qtype, r.Question[0].Qclass}
			}
			if !replace {
				return nil
			}
		}
		if nr := mkResp(kind, qc.Q(), idx); nr != nil {
			qc.SetResponse(nr)
		}
		return nil
	})
	walker := sequence.NewChainWalker([]*sequence.ChainNode{{E: next}}, nil)
	if err := c.Exec(context.Background(), qCtx, walker); err != nil {
		fail(id, "Cache.Exec: %v", err)
	}
	if reached != 1 {
		fail(id, "rest of the chain entered %d times", reached)
	}
	return
}

type pq struct {
	d  qd
	do bool
}

func newCache(r *hx.RNG) *cache.Cache {
	size := 0
	if r != nil {
		size = hx.Pick(r, []int{0, 64, 1024, 4096})
	}
	return cache.NewCache(&cache.Args{Size: size}, cache.Opts{})
}

func runPair(w *hx.Writer, id string, r *hx.RNG, a, b pq) {
	var seenA, seenB qd
	order := func(x, y pq) bool {
		c := newCache(r)
		defer c.Close()
		sx, _, _, _ := execOne(id, c, x.d, x.do, 0, 1, false)
		sy, hit, _, _ := execOne(id, c, y.d, y.do, 1, 1, false)
		seenA, seenB = sx, sy
		return hit
	}
	hit12 := order(a, b)
	s1, s2 := seenA, seenB
	hit21 := order(b, a)
	w.Emit("pair", hx.Case{
		ID:   id,
		Coq:  hx.App("CPair", s1.coq(), s2.coq(), hx.Bool(hit12), hx.Bool(hit21)),
		Desc: map[string]any{"kind": "pair", "hit12": hit12, "hit21": hit21},
		FKey: "pair",
	})
}

type hop struct {
	flush   bool
	dump    bool
	reload  bool
	fresh   bool // reload into a new Cache that replaces the old one
	q       pq
	kind    int
	replace bool
}

func runHist(w *hx.Writer, id string, r *hx.RNG, ops []hop) {
	c := newCache(r)
	defer func() { c.Close() }()
	var cops, obs []string
	var dump []byte
	hits := 0
	for i, o := range ops {
		if o.dump {
			rec := httptest.NewRecorder()
			c.Api().ServeHTTP(rec, httptest.NewRequest("GET", "/dump", nil))
			if rec.Code != 200 {
				fail(id, "/dump returned %d: %s", rec.Code, rec.Body.String())
			}
			dump = append([]byte(nil), rec.Body.Bytes()...)
			cops = append(cops, "HDump")
			obs = append(obs, "None")
			continue
		}
		if o.reload {
			if o.fresh {
				c.Close()
				c = newCache(r)
			}
			rec := httptest.NewRecorder()
			c.Api().ServeHTTP(rec, httptest.NewRequest("POST", "/load_dump", bytes.NewReader(dump)))
			if rec.Code != 200 {
				// the cache refuses the dump it wrote itself: the entries it held are lost or mixed up
				w.Violation(id, fmt.Sprintf("/load_dump of the cache's own dump returned %d: %s", rec.Code, rec.Body.String()),
					map[string]any{"kind": "hist", "ops": len(ops), "at": i})
				return
			}
			cops = append(cops, hx.App("HReload", hx.Bool(o.fresh)))
			obs = append(obs, "None")
			continue
		}
		if o.flush {
			rec := httptest.NewRecorder()
			c.Api().ServeHTTP(rec, httptest.NewRequest("GET", "/flush", nil))
			if rec.Code != 200 {
				fail(id, "/flush returned %d", rec.Code)
			}
			cops = append(cops, "HFlush")
			obs = append(obs, "None")
			continue
		}
		seen, hit, from, sq := execOne(id, c, o.q.d, o.q.do, i, o.kind, o.replace)
		cops = append(cops, hx.App("HQ", seen.coq(), hx.Ni(o.kind), hx.Bool(o.replace)))
		if hit {
			hits++
		}
		obs = append(obs, hx.Opt(hit, hx.Tuple(hx.Ni(from), hx.Bool(sq.nameOK), hx.N(uint64(sq.t)), hx.N(uint64(sq.c)))))
	}
	w.Emit("hist", hx.Case{
		ID:   id,
		Coq:  hx.App("CHist", hx.List(cops), hx.List(obs)),
		Desc: map[string]any{"kind": "hist", "steps": len(ops), "hits": hits},
		FKey: "hist",
	})
}

func runCtx(w *hx.Writer, id string, d qd) {
	qCtx := query_context.NewContext(d.msg())
	seen := describe(d, qCtx.Q())
	ex := make([]string, len(seen.extra))
	for i, x := range seen.extra {
		ex[i] = x.coq()
	}
	k := cache.VerifGetMsgKey(qCtx.Q())
	w.Emit("ctx", hx.Case{
		ID:   id,
		Coq:  hx.App("CCtx", d.coq(), hx.List(ex), kobs(k)),
		Desc: map[string]any{"kind": "ctx", "extra": len(d.extra)},
		FKey: "ctx",
	})
}

// sweepQ mirrors Judge.C04.sweep_q.
func sweepQ(dim int, base qd, i int) qd {
	d := base.clone()
	d.qs = d.qs[:1]
	switch dim {
	case 0:
		d.qs[0].t = uint16(i)
	case 1:
		d.qs[0].c = uint16(i)
	case 2:
		d.ad, d.cd = i&1 != 0, i&2 != 0
		ttl := uint32(0)
		if i&4 != 0 {
			ttl = 32768
		}
		d.extra = []xrr{{opt: true, ttl: ttl}}
	default:
		b := make([]byte, i+1)
		for j := range b {
			b[j] = 'a'
		}
		d.qs[0].name = nm{suf: b}
	}
	return d
}

func runSweep(w *hx.Writer, id string, dim int, base qd, total, start, step, cnt int) {
	seen := make(map[string]struct{}, total)
	for i := 0; i < total; i++ {
		seen[cache.VerifGetMsgKey(sweepQ(dim, base, i).msg())] = struct{}{}
	}
	var cat []byte
	for j, i := 0, start; j < cnt; j, i = j+1, i+step {
		cat = append(cat, cache.VerifGetMsgKey(sweepQ(dim, base, i).msg())...)
	}
	w.Emit("sweep", hx.Case{
		ID: id,
		Coq: hx.App("CSweep", hx.Ni(dim), base.coq(), hx.Ni(total), hx.Ni(len(seen)),
			hx.Ni(start), hx.Ni(step), hx.Ni(cnt), hx.N(hx.Sum(cat))),
		Desc: map[string]any{"kind": "sweep", "dim": dim, "total": total, "distinct": len(seen)},
		FKey: "sweep",
	})
}

// ---------- redirect in front of a (lazy) cache ----------

// A multi-step case whose background work can not be joined is given up (the
// observations would depend on timing); the driver then exits with a non-zero
// status after writing all other cases. Never happens on a correct tree.
var (
	aborted    int
	joinBroken bool
)

func abortCase(w *hx.Writer, id, why string) {
	fmt.Fprintf(os.Stderr, "c04 %s: case given up: %s\n", id, why)
	w.Tally("aborted", 1)
	aborted++
}

// joinLazy waits until no lazy update is in flight for any of the keys.
func joinLazy(c *cache.Cache, keys []string) bool {
	done := make(chan struct{})
	go func() {
		for _, k := range keys {
			c.VerifC10LazyWait(k)
		}
		close(done)
	}()
	select {
	case <-done:
		return true
	case <-time.After(20 * time.Second):
		joinBroken = true
		return false
	}
}

type lop struct {
	age  bool
	n    int
	mode int // ask: how a background refresh fails (0: it does not)
}

func lname(i int) string { return fmt.Sprintf("n%d.", i) }
func lid(s string) int {
	if len(s) == 3 && s[0] == 'n' && s[2] == '.' && s[1] >= '0' && s[1] <= '9' {
		return int(s[1] - '0')
	}
	return 99
}

// lkey is the key Cache.Exec derives for a query (name, A, IN) arriving as a
// fresh query context.
func lkey(i int) string {
	q := new(dns.Msg)
	q.SetQuestion(lname(i), dns.TypeA)
	return cache.VerifGetMsgKey(query_context.NewContext(q).Q())
}

// runLazy drives the chain [redirect; cache; upstream] the way sequence does.
// The upstream answers (when there is no response yet) with one A record owned
// by the name it is asked for, whose address encodes that name. After every
// query all lazy updates in flight are joined, so the store is quiescent when it
// is looked at. One P: the goroutine of a lazy update starts running only when
// the caller blocks, i.e. after the call has returned through redirect.
func runLazy(w *hx.Writer, id string, lazy bool, m int, rules [][2]int, ops []lop) {
	defer runtime.GOMAXPROCS(runtime.GOMAXPROCS(1))
	lazyTTL := 0
	if lazy {
		lazyTTL = 86400
	}
	c := cache.NewCache(&cache.Args{Size: 1024, LazyCacheTTL: lazyTTL}, cache.Opts{})
	defer c.Close()
	var rs []string
	for _, r := range rules {
		rs = append(rs, lname(r[0])+" "+lname(r[1]))
	}
	rd, err := redirect.NewRedirect(&redirect.Args{Rules: rs})
	if err != nil {
		fail(id, "NewRedirect: %v", err)
	}
	var mu sync.Mutex
	var cur *query_context.Context
	sync_, bg, bgMode := false, -1, 0
	upstream := sequence.ExecutableFunc(func(_ context.Context, qc *query_context.Context) error {
		if qc.R() != nil {
			return nil
		}
		q := qc.Q()
		name := q.Question[0].Name
		mode := 0
		mu.Lock()
		if qc == cur {
			sync_ = true
		} else {
			bg = lid(name)
			mode = bgMode
		}
		mu.Unlock()
		switch mode {
		case 1:
			return errors.New("upstream down")
		case 2:
			return nil
		}
		r := new(dns.Msg)
		r.SetReply(q)
		r.Truncated = mode == 3
		r.Answer = []dns.RR{&dns.A{
			Hdr: dns.RR_Header{Name: name, Rrtype: dns.TypeA, Class: dns.ClassINET, Ttl: 300},
			A:   net.IPv4(10, 0, 0, byte(lid(name))),
		}}
		qc.SetResponse(r)
		return nil
	})
	chain := []*sequence.ChainNode{{RE: rd}, {RE: c}, {E: upstream}}
	keys := make([]string, m)
	for i := range keys {
		keys[i] = lkey(i)
	}
	owners := func(r *dns.Msg) []int {
		var o []int
		for _, rr := range r.Answer {
			o = append(o, lid(rr.Header().Name))
		}
		return o
	}
	var cops, obs []string
	for _, o := range ops {
		if o.age {
			cops = append(cops, hx.App("LAge", hx.Ni(o.n)))
			obs = append(obs, hx.App("OAge", hx.Bool(c.VerifC10Backdate(keys[o.n], 400*time.Second))))
			continue
		}
		q := new(dns.Msg)
		q.SetQuestion(lname(o.n), dns.TypeA)
		qCtx := query_context.NewContext(q)
		mu.Lock()
		cur, sync_, bg, bgMode = qCtx, false, -1, o.mode
		mu.Unlock()
		walker := sequence.NewChainWalker(chain, nil)
		if err := walker.ExecNext(context.Background(), qCtx); err != nil {
			fail(id, "chain: %v", err)
		}
		if !joinLazy(c, keys) {
			abortCase(w, id, "a lazy update can not be joined")
			return
		}
		r := qCtx.R()
		if r == nil || len(r.Question) != 1 || len(r.Answer) == 0 {
			abortCase(w, id, "no usable response")
			return
		}
		ip := 99
		if a, ok := r.Answer[len(r.Answer)-1].(*dns.A); ok && a.A.To4() != nil {
			ip = int(a.A.To4()[3])
		}
		mu.Lock()
		s, b := sync_, bg
		mu.Unlock()
		if o.mode == 0 {
			cops = append(cops, hx.App("LAsk", hx.Ni(o.n)))
		} else {
			cops = append(cops, hx.App("LAskF", hx.Ni(o.n), hx.Ni(o.mode)))
		}
		obs = append(obs, hx.App("OAsk", hx.Ni(lid(r.Question[0].Name)), hx.NList(owners(r)), hx.Ni(ip),
			hx.Bool(s), hx.Opt(b >= 0, hx.Ni(b))))
	}
	held := make([]string, m)
	wrong := 0
	for i, k := range keys {
		it := c.VerifC10Item(k)
		if it == nil || len(it.Question) != 1 {
			held[i] = "None"
			continue
		}
		if lid(it.Question[0].Name) != i {
			wrong++
		}
		held[i] = hx.Some(hx.Tuple(hx.Ni(lid(it.Question[0].Name)), hx.NList(owners(it))))
	}
	rl := make([]string, len(rules))
	for i, r := range rules {
		rl[i] = hx.Tuple(hx.Ni(r[0]), hx.Ni(r[1]))
	}
	w.Emit("lazy", hx.Case{
		ID:   id,
		Coq:  hx.App("CLazy", hx.Bool(lazy), hx.List(rl), hx.List(cops), hx.List(obs), hx.List(held)),
		Desc: map[string]any{"kind": "lazy", "lazy": lazy, "rules": len(rules), "steps": len(ops), "held_under_other_key": wrong},
		FKey: "lazy",
	})
}

type lazyCase struct {
	lazy  bool
	m     int
	rules [][2]int
	ops   []lop
}

func ask(n int) lop        { return lop{n: n} }
func askF(n, mode int) lop { return lop{n: n, mode: mode} }
func age(n int) lop        { return lop{age: true, n: n} }

// names: 0, 1 targets; 2.. aliases
func lazyCatalogue() []lazyCase {
	var out []lazyCase
	r1 := [][2]int{{2, 0}}
	r3 := [][2]int{{2, 0}, {3, 0}, {4, 1}}
	rc := [][2]int{{2, 0}, {0, 1}} // the target of one rule is the alias of another: no chaining
	for _, lazy := range []bool{true, false} {
		for _, rules := range [][][2]int{r1, nil, r3, rc} {
			out = append(out,
				// store target, let it go stale, ask alias, ask target
				lazyCase{lazy, 5, rules, []lop{ask(0), age(0), ask(2), ask(0), ask(2)}},
				// the entry is created through the alias
				lazyCase{lazy, 5, rules, []lop{ask(2), age(0), ask(2), ask(0)}},
				// stale hit on the target itself (control), then alias
				lazyCase{lazy, 5, rules, []lop{ask(0), age(0), ask(0), ask(2), ask(0)}},
				// several aliases, two targets
				lazyCase{lazy, 5, rules, []lop{ask(0), ask(1), age(0), age(1), ask(3), ask(4), ask(0), ask(1), ask(2)}},
				// nothing stale: plain hits through the aliases
				lazyCase{lazy, 5, rules, []lop{ask(0), ask(2), ask(3), ask(0), age(4), ask(4), ask(1)}},
				// stale twice in a row
				lazyCase{lazy, 5, rules, []lop{ask(0), age(0), ask(2), age(0), ask(3), ask(0), age(0), age(0), ask(0)}},
			)
		}
	}
	// the background refresh of a stale hit does not land (error / no response /
	// truncated reply); the target and another alias are asked afterwards, in both
	// orders, with and without their own refresh landing
	for _, lazy := range []bool{true, false} {
		for _, rules := range [][][2]int{r3, r1, nil} {
			for mode := 1; mode <= 3; mode++ {
				out = append(out,
					lazyCase{lazy, 5, rules, []lop{ask(0), age(0), askF(2, mode), ask(0), ask(3)}},
					lazyCase{lazy, 5, rules, []lop{ask(0), age(0), askF(2, mode), ask(3), ask(0)}},
					lazyCase{lazy, 5, rules, []lop{ask(0), age(0), askF(2, mode), askF(0, mode), askF(3, mode), askF(2, mode)}},
					lazyCase{lazy, 5, rules, []lop{ask(2), age(0), askF(3, mode), askF(2, mode), askF(0, mode)}},
					lazyCase{lazy, 5, rules, []lop{ask(0), ask(1), age(0), age(1), askF(4, mode), askF(2, mode), askF(1, mode), ask(0), ask(1)}},
				)
			}
		}
	}
	return out
}

func genLazy(r *hx.RNG) lazyCase {
	lc := lazyCase{lazy: r.Chance(3, 4), m: r.Range(3, 6)}
	nt := r.Range(1, 2) // names 0..nt-1 are targets
	if !r.Chance(1, 6) {
		for a := nt; a < lc.m; a++ {
			if r.Chance(3, 4) {
				lc.rules = append(lc.rules, [2]int{a, r.Intn(nt)})
			}
		}
		if r.Chance(1, 6) && nt == 2 { // a target that is itself redirected
			lc.rules = append(lc.rules, [2]int{0, 1})
		}
	}
	n := r.Range(4, 10)
	for i := 0; i < n; i++ {
		switch {
		case r.Chance(1, 3):
			lc.ops = append(lc.ops, age(r.Intn(nt)))
		case r.Chance(1, 3):
			lc.ops = append(lc.ops, ask(r.Intn(nt)))
		default:
			lc.ops = append(lc.ops, ask(r.Intn(lc.m)))
		}
		if o := &lc.ops[len(lc.ops)-1]; !o.age && r.Chance(1, 3) {
			o.mode = r.Range(1, 3)
		}
	}
	last := ask(0)
	if r.Chance(1, 3) {
		last.mode = r.Range(1, 3)
	}
	lc.ops = append(lc.ops, last)
	return lc
}

// ---------- queries that differ in AD/CD/DO in front of a (lazy) cache ----------

type fop struct {
	age  bool
	n, f int // name id; flags: AD + 2 CD + 4 DO
}

func fask(n, f int) fop { return fop{n: n, f: f} }
func fage(n, f int) fop { return fop{age: true, n: n, f: f} }

// fctx builds the query context of (name, flags, A, IN): AD and CD in the
// header, DO set on the context's OPT the way a plugin in front would.
func fctx(n, f int) *query_context.Context {
	q := new(dns.Msg)
	q.SetQuestion(lname(n), dns.TypeA)
	q.AuthenticatedData = f&1 != 0
	q.CheckingDisabled = f&2 != 0
	qCtx := query_context.NewContext(q)
	if f&4 != 0 {
		qCtx.QOpt().SetDo()
	}
	return qCtx
}

func msgFlags(m *dns.Msg) int {
	f := 0
	if m.AuthenticatedData {
		f |= 1
	}
	if m.CheckingDisabled {
		f |= 2
	}
	if o := m.IsEdns0(); o != nil && o.Do() {
		f |= 4
	}
	return f
}

// runFlag drives [cache; upstream]. The upstream (asked only when there is no
// response) answers as a function of the full query it receives: one A record
// of the query's name with the address 10.0.<flags it saw>.<name id>.
func runFlag(w *hx.Writer, id string, lazy bool, m int, ops []fop) {
	lazyTTL := 0
	if lazy {
		lazyTTL = 86400
	}
	c := cache.NewCache(&cache.Args{Size: 1024, LazyCacheTTL: lazyTTL}, cache.Opts{})
	defer c.Close()
	var mu sync.Mutex
	var cur *query_context.Context
	syncCalled, bgN, bgF := false, -1, -1
	upstream := sequence.ExecutableFunc(func(_ context.Context, qc *query_context.Context) error {
		if qc.R() != nil {
			return nil
		}
		q := qc.Q()
		name := q.Question[0].Name
		seen := msgFlags(q)
		mu.Lock()
		if qc == cur {
			syncCalled = true
		} else {
			bgN, bgF = lid(name), seen
		}
		mu.Unlock()
		r := new(dns.Msg)
		r.SetReply(q)
		r.Answer = []dns.RR{&dns.A{
			Hdr: dns.RR_Header{Name: name, Rrtype: dns.TypeA, Class: dns.ClassINET, Ttl: 300},
			A:   net.IPv4(10, 0, byte(seen), byte(lid(name))),
		}}
		qc.SetResponse(r)
		return nil
	})
	chain := []*sequence.ChainNode{{RE: c}, {E: upstream}}
	type nf struct{ n, f int }
	var universe []nf
	var keys []string
	for n := 0; n < m; n++ {
		for f := 0; f < 8; f++ {
			universe = append(universe, nf{n, f})
			keys = append(keys, cache.VerifGetMsgKey(fctx(n, f).Q()))
		}
	}
	addr := func(r *dns.Msg) (int, int) {
		if len(r.Answer) == 1 {
			if a, ok := r.Answer[0].(*dns.A); ok && a.A.To4() != nil {
				return int(a.A.To4()[3]), int(a.A.To4()[2])
			}
		}
		return 99, 99
	}
	qname := func(r *dns.Msg) int {
		if len(r.Question) != 1 {
			return 99
		}
		return lid(r.Question[0].Name)
	}
	var cops, obs []string
	for _, o := range ops {
		if o.age {
			cops = append(cops, hx.App("FAge", hx.Ni(o.n), hx.Ni(o.f)))
			obs = append(obs, hx.App("FOAge", hx.Bool(c.VerifC10Backdate(keys[o.n*8+o.f], 400*time.Second))))
			continue
		}
		qCtx := fctx(o.n, o.f)
		mu.Lock()
		cur, syncCalled, bgN, bgF = qCtx, false, -1, -1
		mu.Unlock()
		walker := sequence.NewChainWalker(chain, nil)
		if err := walker.ExecNext(context.Background(), qCtx); err != nil {
			fail(id, "chain: %v", err)
		}
		if !joinLazy(c, keys) {
			abortCase(w, id, "a lazy update can not be joined")
			return
		}
		r := qCtx.R()
		if r == nil {
			abortCase(w, id, "no response")
			return
		}
		an, af := addr(r)
		mu.Lock()
		sc, bn, bf := syncCalled, bgN, bgF
		mu.Unlock()
		cops = append(cops, hx.App("FAsk", hx.Ni(o.n), hx.Ni(o.f)))
		obs = append(obs, hx.App("FOAsk", hx.Ni(qname(r)), hx.Ni(an), hx.Ni(af), hx.Bool(sc),
			hx.Opt(bn >= 0, hx.Tuple(hx.Ni(bn), hx.Ni(bf)))))
	}
	var held []string
	wrong := 0
	for i, k := range keys {
		it := c.VerifC10Item(k)
		if it == nil {
			continue
		}
		an, af := addr(it)
		if an != universe[i].n || af != universe[i].f || qname(it) != universe[i].n {
			wrong++
		}
		held = append(held, hx.Tuple(hx.Tuple(hx.Ni(universe[i].n), hx.Ni(universe[i].f)),
			hx.Tuple(hx.Ni(qname(it)), hx.Ni(an), hx.Ni(af))))
	}
	w.Emit("flag", hx.Case{
		ID:   id,
		Coq:  hx.App("CFlag", hx.Bool(lazy), hx.Ni(m), hx.List(cops), hx.List(obs), hx.List(held)),
		Desc: map[string]any{"kind": "flag", "lazy": lazy, "steps": len(ops), "held_for_other_flags": wrong},
		FKey: "flag",
	})
}

type flagCase struct {
	lazy bool
	m    int
	ops  []fop
}

func flagCatalogue() []flagCase {
	var out []flagCase
	for _, lazy := range []bool{true, false} {
		for f := 0; f < 8; f++ {
			// store, let it go stale, stale hit (refresh), the same query again, its unflagged sibling
			out = append(out, flagCase{lazy, 1, []fop{fask(0, f), fage(0, f), fask(0, f), fask(0, f), fask(0, f&4), fask(0, f)}})
		}
		// all flag combinations side by side, all stale, all refreshed, all asked again
		var all []fop
		for f := 0; f < 8; f++ {
			all = append(all, fask(0, f))
		}
		for f := 0; f < 8; f++ {
			all = append(all, fage(0, f))
		}
		for f := 7; f >= 0; f-- {
			all = append(all, fask(0, f))
		}
		for f := 0; f < 8; f++ {
			all = append(all, fask(0, f))
		}
		out = append(out, flagCase{lazy, 1, all})
		// stale twice; two names
		out = append(out,
			flagCase{lazy, 1, []fop{fask(0, 3), fage(0, 3), fask(0, 3), fage(0, 3), fask(0, 3), fask(0, 0), fask(0, 3)}},
			flagCase{lazy, 2, []fop{fask(0, 2), fask(1, 2), fask(1, 1), fage(0, 2), fage(1, 1), fask(1, 1), fask(0, 2), fask(1, 2), fask(1, 1), fask(0, 2)}},
			flagCase{lazy, 1, []fop{fask(0, 0), fask(0, 2), fage(0, 0), fask(0, 0), fask(0, 2), fage(0, 2), fask(0, 2), fask(0, 0), fask(0, 2)}},
		)
	}
	return out
}

func genFlag(r *hx.RNG) flagCase {
	fc := flagCase{lazy: r.Chance(4, 5), m: r.Range(1, 2)}
	// a few (name, flags) pairs so that repeats are frequent
	type nf struct{ n, f int }
	pool := []nf{{r.Intn(fc.m), r.Intn(8)}}
	for np := r.Range(2, 4); len(pool) < np; {
		b := pool[r.Intn(len(pool))]
		switch r.Intn(4) {
		case 0:
			pool = append(pool, nf{b.n, b.f ^ (1 << r.Intn(3))})
		case 1:
			pool = append(pool, nf{(b.n + 1) % fc.m, b.f})
		default:
			pool = append(pool, nf{r.Intn(fc.m), r.Intn(8)})
		}
	}
	n := r.Range(5, 12)
	for i := 0; i < n; i++ {
		p := hx.Pick(r, pool)
		if r.Chance(1, 3) {
			fc.ops = append(fc.ops, fage(p.n, p.f))
		} else {
			fc.ops = append(fc.ops, fask(p.n, p.f))
		}
	}
	for _, p := range pool {
		fc.ops = append(fc.ops, fask(p.n, p.f))
	}
	return fc
}

// ---------- a response already in the context / dual_selector in front of the cache ----------

type q3 struct {
	n    int
	t, c uint16
}

func (q q3) coq() string { return hx.Tuple(hx.Ni(q.n), hx.N(uint64(q.t)), hx.N(uint64(q.c))) }

type pop struct {
	age bool
	q   q3
	pre *q3
}

func key3(q q3) string {
	m := new(dns.Msg)
	m.SetQuestion(lname(q.n), q.t)
	m.Question[0].Qclass = q.c
	return cache.VerifGetMsgKey(query_context.NewContext(m).Q())
}

// reply3 is a response to the question q; with data it has one record of q's
// name and type, without it an empty answer and an SOA in the authority section.
func reply3(id uint16, q q3, data bool) *dns.Msg {
	r := new(dns.Msg)
	r.Id = id
	r.Response = true
	r.RecursionAvailable = true
	r.Question = []dns.Question{{Name: lname(q.n), Qtype: q.t, Qclass: q.c}}
	hdr := dns.RR_Header{Name: lname(q.n), Rrtype: q.t, Class: q.c, Ttl: 300}
	if !data {
		r.Ns = []dns.RR{&dns.SOA{Hdr: dns.RR_Header{Name: lname(q.n), Rrtype: dns.TypeSOA, Class: q.c, Ttl: 300},
			Ns: "ns.", Mbox: "mbox.", Serial: 1, Refresh: 300, Retry: 300, Expire: 300, Minttl: 300}}
		return r
	}
	switch q.t {
	case dns.TypeA:
		r.Answer = []dns.RR{&dns.A{Hdr: hdr, A: net.IPv4(10, 0, 0, byte(q.n)).To4()}}
	case dns.TypeAAAA:
		r.Answer = []dns.RR{&dns.AAAA{Hdr: hdr, AAAA: net.ParseIP(fmt.Sprintf("2001:db8::%d", q.n+1))}}
	default:
		r.Answer = []dns.RR{&dns.TXT{Hdr: hdr, Txt: []string{"t"}}}
	}
	return r
}

func msgQ3(m *dns.Msg) q3 {
	if len(m.Question) != 1 {
		return q3{n: 99}
	}
	return q3{lid(m.Question[0].Name), m.Question[0].Qtype, m.Question[0].Qclass}
}

func msgRecs(m *dns.Msg) string {
	var it []string
	for _, rr := range m.Answer {
		it = append(it, hx.Tuple(hx.Ni(lid(rr.Header().Name)), hx.N(uint64(rr.Header().Rrtype))))
	}
	return hx.List(it)
}

var chainTypes = []uint16{dns.TypeA, dns.TypeAAAA, dns.TypeTXT}
var chainClasses = []uint16{dns.ClassINET, dns.ClassCHAOS}

// runChain drives [front; prefer_ipv4/6 (sel = 1/28, 0: none); cache; upstream].
// front puts the step's pre-set response into the context; the upstream answers
// only when there is no response and has no data of the selector's preferred
// type, so the selector never blocks and returns only after both of its
// sub-queries have finished. After every query all lazy updates are joined and
// the number of completed executions of the cache is checked.
func runChain(w *hx.Writer, id string, lazy bool, sel int, m int, ops []pop) {
	lazyTTL := 0
	if lazy {
		lazyTTL = 86400
	}
	c := cache.NewCache(&cache.Args{Size: 1024, LazyCacheTTL: lazyTTL}, cache.Opts{})
	defer c.Close()
	var pre *q3
	front := sequence.ExecutableFunc(func(_ context.Context, qc *query_context.Context) error {
		if pre != nil {
			qc.SetResponse(reply3(qc.Q().Id, *pre, true))
		}
		return nil
	})
	doneCh := make(chan struct{}, 64)
	counted := sequence.RecursiveExecutableFunc(func(ctx context.Context, qc *query_context.Context, next sequence.ChainWalker) error {
		err := c.Exec(ctx, qc, next)
		doneCh <- struct{}{}
		return err
	})
	upstream := sequence.ExecutableFunc(func(_ context.Context, qc *query_context.Context) error {
		if qc.R() != nil {
			return nil
		}
		q := msgQ3(qc.Q())
		qc.SetResponse(reply3(qc.Q().Id, q, int(q.t) != sel))
		return nil
	})
	chain := []*sequence.ChainNode{{E: front}}
	if sel != 0 {
		var s *dual_selector.Selector
		if sel == 1 {
			s = dual_selector.NewPreferIpv4(sequence.NewBQ(nil, zap.NewNop()))
		} else {
			s = dual_selector.NewPreferIpv6(sequence.NewBQ(nil, zap.NewNop()))
		}
		defer s.Close()
		chain = append(chain, &sequence.ChainNode{RE: s})
	}
	chain = append(chain, &sequence.ChainNode{RE: counted}, &sequence.ChainNode{E: upstream})

	var universe []q3
	for n := 0; n < m; n++ {
		for _, t := range chainTypes {
			for _, cl := range chainClasses {
				universe = append(universe, q3{n, t, cl})
			}
		}
	}
	keys := make([]string, len(universe))
	for i, q := range universe {
		keys[i] = key3(q)
	}
	var cops, obs []string
	for _, o := range ops {
		if o.age {
			cops = append(cops, hx.App("PAge", o.q.coq()))
			obs = append(obs, hx.App("POAge", hx.Bool(c.VerifC10Backdate(key3(o.q), 400*time.Second))))
			continue
		}
		q := new(dns.Msg)
		q.SetQuestion(lname(o.q.n), o.q.t)
		q.Question[0].Qclass = o.q.c
		qCtx := query_context.NewContext(q)
		pre = o.pre
		ctx, cancel := context.WithTimeout(context.Background(), 20*time.Second)
		walker := sequence.NewChainWalker(chain, nil)
		err := walker.ExecNext(ctx, qCtx)
		cancel()
		if err != nil {
			fail(id, "chain: %v", err)
		}
		// every execution of the cache this query caused has finished
		want := 1
		if sel != 0 && (o.q.t == dns.TypeA || o.q.t == dns.TypeAAAA) && int(o.q.t) != sel {
			want = 2
		}
		for i := 0; i < want; i++ {
			select {
			case <-doneCh:
			case <-time.After(20 * time.Second):
				joinBroken = true
				abortCase(w, id, fmt.Sprintf("execution %d of %d of the cache did not finish", i+1, want))
				return
			}
		}
		select {
		case <-doneCh:
			abortCase(w, id, fmt.Sprintf("the cache was executed more than %d times", want))
			return
		default:
		}
		if !joinLazy(c, keys) {
			abortCase(w, id, "a lazy update can not be joined")
			return
		}
		r := qCtx.R()
		if r == nil {
			abortCase(w, id, "no response")
			return
		}
		pc := "None"
		if o.pre != nil {
			pc = hx.Some(o.pre.coq())
		}
		cops = append(cops, hx.App("PAsk", o.q.coq(), pc))
		obs = append(obs, hx.App("POAsk", msgQ3(r).coq(), msgRecs(r)))
	}
	var held []string
	wrong := 0
	for i, k := range keys {
		it := c.VerifC10Item(k)
		if it == nil {
			continue
		}
		if msgQ3(it) != universe[i] {
			wrong++
		}
		held = append(held, hx.Tuple(universe[i].coq(), msgQ3(it).coq(), msgRecs(it)))
	}
	w.Emit("chain", hx.Case{
		ID:   id,
		Coq:  hx.App("CChain", hx.Bool(lazy), hx.Ni(sel), hx.Ni(m), hx.List(cops), hx.List(obs), hx.List(held)),
		Desc: map[string]any{"kind": "chain", "lazy": lazy, "sel": sel, "steps": len(ops), "held_under_other_key": wrong},
		FKey: "chain",
	})
}

type chainCase struct {
	lazy bool
	sel  int
	m    int
	ops  []pop
}

func pask(n int, t, c uint16) pop { return pop{q: q3{n, t, c}} }
func ppre(n int, t, c uint16, pn int, pt, pc uint16) pop {
	return pop{q: q3{n, t, c}, pre: &q3{pn, pt, pc}}
}
func page(n int, t, c uint16) pop { return pop{age: true, q: q3{n, t, c}} }

func chainCatalogue() []chainCase {
	const A, AAAA, TXT, IN, CH = dns.TypeA, dns.TypeAAAA, dns.TypeTXT, dns.ClassINET, dns.ClassCHAOS
	var out []chainCase
	for _, lazy := range []bool{false, true} {
		// a plugin in front has set a response (no selector)
		for _, p := range [][3]uint16{{0, AAAA, IN}, {0, TXT, IN}, {0, A, CH}, {1, A, IN}, {0, A, IN}} {
			pn, pt, pc := int(p[0]), p[1], p[2]
			out = append(out,
				// response to another question present on a miss, then the plain queries
				chainCase{lazy, 0, 2, []pop{ppre(0, A, IN, pn, pt, pc), pask(0, A, IN), pask(pn, pt, pc)}},
				// present on a fresh hit
				chainCase{lazy, 0, 2, []pop{pask(0, A, IN), ppre(0, A, IN, pn, pt, pc), pask(0, A, IN), pask(pn, pt, pc)}},
				// present on a stale hit (lazy: the background update works on it)
				chainCase{lazy, 0, 2, []pop{pask(0, A, IN), page(0, A, IN), ppre(0, A, IN, pn, pt, pc), pask(0, A, IN), pask(pn, pt, pc)}},
				chainCase{lazy, 0, 2, []pop{pask(0, A, IN), page(0, A, IN), ppre(0, A, IN, pn, pt, pc), ppre(0, A, IN, pn, pt, pc), page(0, A, IN), pask(0, A, IN)}},
			)
		}
		// prefer_ipv4: names have AAAA data only; prefer_ipv6: A data only
		for _, sel := range []int{1, 28} {
			P, O := uint16(A), uint16(AAAA)
			if sel == 28 {
				P, O = AAAA, A
			}
			out = append(out,
				// the demo: the other type answered in front (hosts), then the preferred type
				chainCase{lazy, sel, 2, []pop{ppre(0, O, IN, 0, O, IN), pask(0, P, IN), pask(0, O, IN)}},
				// control: nothing in front
				chainCase{lazy, sel, 2, []pop{pask(0, O, IN), pask(0, P, IN), pask(0, O, IN)}},
				// preferred first, entry goes stale, then the other type answered in front
				chainCase{lazy, sel, 2, []pop{pask(0, P, IN), page(0, P, IN), ppre(0, O, IN, 0, O, IN), pask(0, P, IN), pask(0, O, IN)}},
				chainCase{lazy, sel, 2, []pop{pask(0, P, IN), pask(0, O, IN), page(0, P, IN), page(0, O, IN), ppre(0, O, IN, 0, O, IN), pask(0, P, IN), pask(0, O, IN)}},
				// other class, other name, unrelated type
				chainCase{lazy, sel, 2, []pop{ppre(0, O, CH, 0, O, CH), pask(0, P, CH), pask(0, P, IN), pask(0, O, IN)}},
				chainCase{lazy, sel, 2, []pop{ppre(1, O, IN, 1, O, IN), ppre(0, O, IN, 1, O, IN), pask(0, P, IN), pask(1, P, IN), pask(0, O, IN)}},
				chainCase{lazy, sel, 2, []pop{ppre(0, TXT, IN, 0, O, IN), pask(0, TXT, IN), pask(0, P, IN), pask(0, O, IN)}},
			)
		}
	}
	return out
}

func genChain(r *hx.RNG) chainCase {
	cc := chainCase{lazy: r.Bool(), sel: hx.Pick(r, []int{0, 1, 28, 1, 28}), m: r.Range(1, 2)}
	types := []uint16{dns.TypeA, dns.TypeAAAA, dns.TypeA, dns.TypeAAAA, dns.TypeTXT}
	genQ3 := func() q3 {
		c := uint16(dns.ClassINET)
		if r.Chance(1, 6) {
			c = dns.ClassCHAOS
		}
		return q3{r.Intn(cc.m), hx.Pick(r, types), c}
	}
	// a pre-set response never carries the selector's preferred type (the selector would start blocking)
	fixPre := func(p q3) q3 {
		if int(p.t) == cc.sel {
			p.t = dns.TypeA + dns.TypeAAAA - p.t
		}
		return p
	}
	n := r.Range(3, 8)
	for i := 0; i < n; i++ {
		q := genQ3()
		switch r.Intn(6) {
		case 0:
			cc.ops = append(cc.ops, pop{age: true, q: q})
		case 1, 2:
			var p q3
			switch r.Intn(5) {
			case 0:
				p = q // its own question
			case 1:
				p = q3{q.n, dns.TypeA + dns.TypeAAAA - q.t, q.c}
				if q.t == dns.TypeTXT {
					p.t = dns.TypeA
				}
			case 2:
				p = q3{q.n, q.t, 4 - q.c}
			case 3:
				p = q3{(q.n + 1) % 2, q.t, q.c}
			default:
				p = genQ3()
			}
			p = fixPre(p)
			cc.ops = append(cc.ops, pop{q: q, pre: &p})
		default:
			cc.ops = append(cc.ops, pop{q: q})
		}
	}
	// probes
	q := genQ3()
	cc.ops = append(cc.ops, pop{q: q3{q.n, dns.TypeA, q.c}}, pop{q: q3{q.n, dns.TypeAAAA, q.c}})
	return cc
}

// ---------- generators ----------

func baseQ() qd {
	return qd{qs: []quest{{name: lit("a."), t: 1, c: 1}}, extra: []xrr{{opt: true}}}
}

var (
	smallTypes   = []uint16{1, 1, 28, 257, 255, 256, 0, 2, 65535, 65281, 511}
	smallClasses = []uint16{1, 1, 3, 255, 256, 257, 0, 65535, 4}
	litNames     = []string{"a.", "A.", "ab.", "aB.", "b.", "a.b.", "a", ".", "", "a.a.", "example.com.", "EXAMPLE.com.", "\x00.", "\xff.", "a\x00.", "a.\x00\x01\x00\x01\x02"}
	nameAlpha    = []byte{'a', 'b', 'A', '.', 0, 255}
	extras       = [][]xrr{
		nil, {{opt: true}}, {{opt: true}}, {{opt: true, ttl: 32768}}, {{opt: true, ttl: 32768}}, {{}},
		{{}, {opt: true, ttl: 32768}}, {{opt: true, ttl: 32768}, {}},
		{{opt: true, ttl: 32768}, {opt: true}}, {{opt: true}, {opt: true, ttl: 32768}},
		{{opt: true, ttl: 0xFFFF7FFF}}, {{opt: true, ttl: 0xFFFFFFFF}}, {{opt: true, ttl: 32768 + 65536}},
		{{opt: true, ttl: 16384}}, {{opt: true, ttl: 65536}}, {{opt: true, ttl: 1}},
	}
)

func genName(r *hx.RNG) nm {
	switch r.Intn(10) {
	case 0, 1, 2:
		return lit(hx.Pick(r, litNames))
	case 3:
		n := hx.Pick(r, []int{61, 62, 63, 64, 253, 254, 255, 256, 257, 258, 300, 511, 512})
		return nm{n: n - 1, seed: uint64(r.Intn(3)), suf: []byte{'.'}}
	case 4:
		return nm{n: r.Range(1, 30), seed: uint64(r.Intn(3)), suf: []byte{hx.Pick(r, nameAlpha)}}
	}
	b := make([]byte, r.Range(1, 5))
	for i := range b {
		b[i] = hx.Pick(r, nameAlpha)
	}
	return nm{suf: b}
}

func genQ(r *hx.RNG) qd {
	d := qd{ad: r.Bool(), cd: r.Bool()}
	d.qs = []quest{{name: genName(r), t: hx.Pick(r, smallTypes), c: hx.Pick(r, smallClasses)}}
	if r.Chance(1, 6) {
		d.qs[0].t = uint16(r.Intn(65536))
	}
	if r.Chance(1, 8) {
		d.qs[0].c = uint16(r.Intn(65536))
	}
	d.extra = append([]xrr(nil), hx.Pick(r, extras)...)
	// the malformed stream: QR, opcodes, question counts
	if r.Chance(1, 12) {
		d.qr = true
	}
	if r.Chance(1, 12) {
		d.opcode = hx.Pick(r, []int{1, 2, 4, 5, 15})
	}
	if r.Chance(1, 12) {
		if r.Bool() {
			d.qs = nil
		} else {
			d.qs = append(d.qs, quest{name: genName(r), t: hx.Pick(r, smallTypes), c: 1})
		}
	}
	return d
}

func mutName(r *hx.RNG, x nm) nm {
	y := nm{n: x.n, seed: x.seed, suf: append([]byte(nil), x.suf...)}
	if x.n > 0 {
		switch r.Intn(6) {
		case 0:
			y.n++ // another content, one longer
			return y
		case 1:
			y.n += 256 // same length byte
			return y
		case 2:
			y.seed++ // same length, other bytes
			return y
		case 3:
			if y.n > 1 {
				y.n--
			} else {
				y.n++
			}
			return y
		}
	}
	switch r.Intn(5) {
	case 0: // flip the case of a letter, or change a byte
		if len(y.suf) > 0 {
			i := r.Intn(len(y.suf))
			c := y.suf[i]
			switch {
			case c >= 'a' && c <= 'z':
				y.suf[i] = c - 32
			case c >= 'A' && c <= 'Z':
				y.suf[i] = c + 32
			default:
				y.suf[i] = c ^ 1
			}
			return y
		}
	case 1: // one is a prefix of the other
		y.suf = append(y.suf, hx.Pick(r, nameAlpha))
		return y
	case 2:
		if len(y.suf) > 1 {
			y.suf = y.suf[:len(y.suf)-1]
			return y
		}
	case 3: // 256 more bytes in front: same length byte
		if y.n == 0 {
			y.n, y.seed = 256, uint64(r.Intn(3))
			return y
		}
	}
	y.suf = append([]byte{hx.Pick(r, []byte{'a', 'b', 'A'})}, y.suf...)
	return y
}

func setDoExtra(ex []xrr, do bool) []xrr {
	out := append([]xrr(nil), ex...)
	for i := len(out) - 1; i >= 0; i-- {
		if out[i].opt {
			if do {
				out[i].ttl |= 32768
			} else {
				out[i].ttl &^= 32768
			}
			return out
		}
	}
	if do {
		out = append(out, xrr{opt: true, ttl: 32768})
	}
	return out
}

func extraDo(ex []xrr) bool {
	for i := len(ex) - 1; i >= 0; i-- {
		if ex[i].opt {
			return ex[i].ttl&32768 != 0
		}
	}
	return false
}

// mutate changes exactly one component of a single-question description
// (comp: 0 name, 1 type, 2 class, 3 AD, 4 CD, 5 DO in the message itself).
func mutate(r *hx.RNG, d qd, comp int) qd {
	e := d.clone()
	if len(e.qs) == 0 {
		e.ad = !e.ad
		return e
	}
	switch comp {
	case 0:
		e.qs[0].name = mutName(r, e.qs[0].name)
	case 1:
		t := e.qs[0].t
		e.qs[0].t = hx.Pick(r, []uint16{t ^ 256, t + 256, t ^ 1, t + 1, t << 8, t ^ 0xFF00, uint16(r.Intn(65536))})
		if e.qs[0].t == t {
			e.qs[0].t = t + 1
		}
	case 2:
		c := e.qs[0].c
		e.qs[0].c = hx.Pick(r, []uint16{c ^ 256, c + 256, c ^ 2, c + 1, c << 8, c ^ 0xFF00, uint16(r.Intn(65536))})
		if e.qs[0].c == c {
			e.qs[0].c = c + 1
		}
	case 3:
		e.ad = !e.ad
	case 4:
		e.cd = !e.cd
	default:
		e.extra = setDoExtra(e.extra, !extraDo(e.extra))
	}
	return e
}

func genPairQ(r *hx.RNG) (qd, qd) {
	a := genQ(r)
	switch r.Intn(10) {
	case 0:
		return a, a.clone()
	case 1:
		return a, genQ(r)
	case 2: // same question and flags, other irrelevant parts
		b := a.clone()
		do := extraDo(b.extra)
		b.extra = setDoExtra(append([]xrr{{}}, b.extra...), do)
		return a, b
	}
	return a, mutate(r, a, r.Intn(6))
}

// Exec-level pair: DO is what a plugin sets on the context's OPT.
func genPairPQ(r *hx.RNG) (pq, pq) {
	a := pq{d: genQ(r), do: r.Bool()}
	switch r.Intn(10) {
	case 0:
		return a, pq{d: a.d.clone(), do: a.do}
	case 1:
		return a, pq{d: genQ(r), do: r.Bool()}
	case 2: // the client's own OPT differs: must not matter
		b := pq{d: a.d.clone(), do: a.do}
		b.d.extra = append([]xrr(nil), hx.Pick(r, extras)...)
		return a, b
	}
	comp := r.Intn(6)
	if comp == 5 {
		return a, pq{d: a.d.clone(), do: !a.do}
	}
	return a, pq{d: mutate(r, a.d, comp), do: a.do}
}

func genHist(r *hx.RNG) []hop {
	// a small pool of related questions so that repeats are frequent
	pool := []pq{{d: genQ(r), do: r.Bool()}}
	pool[0].d.qr, pool[0].d.opcode = false, 0
	if len(pool[0].d.qs) != 1 {
		pool[0].d.qs = []quest{{name: genName(r), t: 1, c: 1}}
	}
	for len(pool) < 4 {
		b := pool[r.Intn(len(pool))]
		comp := r.Intn(6)
		if comp == 5 {
			pool = append(pool, pq{d: b.d.clone(), do: !b.do})
		} else {
			pool = append(pool, pq{d: mutate(r, b.d, comp), do: b.do})
		}
	}
	if r.Chance(1, 3) {
		pool = append(pool, pq{d: genQ(r), do: r.Bool()})
	}
	n := r.Range(3, 9)
	ops := make([]hop, n)
	for i := range ops {
		if r.Chance(1, 14) {
			ops[i] = hop{flush: true}
			continue
		}
		kind := 1
		if r.Chance(1, 3) {
			kind = hx.Pick(r, []int{0, 2, 3, 4, 5, 6})
		}
		ops[i] = hop{q: hx.Pick(r, pool), kind: kind, replace: r.Chance(1, 5)}
	}
	return ops
}

// Histories with dump and reload. Names are plain host names (a dump packs the
// stored messages), the pool is small so that several different questions are
// stored, every one of them is asked again after the reload.
func genDumpHist(r *hx.RNG) []hop {
	names := []string{"a.", "A.", "b.", "ab.", "a.b.", "example.com.", "EXAMPLE.com."}
	var pool []pq
	base := pq{d: qd{qs: []quest{{name: lit(hx.Pick(r, names)), t: hx.Pick(r, smallTypes), c: hx.Pick(r, smallClasses)}},
		ad: r.Bool(), cd: r.Bool()}, do: r.Bool()}
	pool = append(pool, base)
	for np := r.Range(3, 6); len(pool) < np; {
		b := pool[r.Intn(len(pool))]
		e := pq{d: b.d.clone(), do: b.do}
		switch r.Intn(6) {
		case 0:
			e.d.qs[0].name = lit(hx.Pick(r, names))
		case 1:
			e.d.qs[0].t = hx.Pick(r, []uint16{b.d.qs[0].t ^ 256, b.d.qs[0].t + 1, hx.Pick(r, smallTypes)})
		case 2:
			e.d.qs[0].c = hx.Pick(r, []uint16{b.d.qs[0].c ^ 256, b.d.qs[0].c ^ 2, hx.Pick(r, smallClasses)})
		case 3:
			e.d.ad = !e.d.ad
		case 4:
			e.d.cd = !e.d.cd
		default:
			e.do = !e.do
		}
		pool = append(pool, e)
	}
	var ops []hop
	store := func() {
		for _, i := range r.Perm(len(pool)) {
			if r.Chance(4, 5) {
				kind := 1
				if r.Chance(1, 6) {
					kind = hx.Pick(r, []int{0, 2, 4})
				}
				ops = append(ops, hop{q: pool[i], kind: kind})
			}
		}
	}
	probe := func() {
		for _, i := range r.Perm(len(pool)) {
			ops = append(ops, hop{q: pool[i], kind: hx.Pick(r, []int{0, 0, 1})})
		}
	}
	store()
	ops = append(ops, hop{dump: true})
	switch r.Intn(4) {
	case 0: // restart
		ops = append(ops, hop{reload: true, fresh: true})
	case 1: // flushed, then restored
		ops = append(ops, hop{flush: true}, hop{reload: true})
	case 2: // loaded on top of newer entries
		store()
		ops = append(ops, hop{reload: true})
	default:
		ops = append(ops, hop{reload: true})
	}
	probe()
	if r.Chance(1, 3) { // a second generation
		ops = append(ops, hop{dump: true}, hop{reload: true, fresh: r.Bool()})
		probe()
	}
	return ops
}

// ---------- catalogue ----------

type keyCase struct {
	a, b qd
	wire bool
}

func catalogue() (keys []keyCase, pairs [][2]pq) {
	b := baseQ()
	with := func(f func(*qd)) qd { d := b.clone(); f(&d); return d }
	add := func(x, y qd) {
		keys = append(keys, keyCase{a: x, b: y})
		// through Exec the DO of the message itself is replaced by NewContext:
		// carry it over as "a plugin sets DO"
		pairs = append(pairs, [2]pq{{d: x, do: extraDo(x.extra)}, {d: y, do: extraDo(y.extra)}})
	}
	// types and classes
	for _, p := range [][2]uint16{{1, 257}, {1, 256}, {0, 256}, {255, 256}, {255, 511}, {255, 65535}, {1, 65281}, {1, 513}, {257, 258}, {1, 1}, {65535, 65535}, {65534, 65535}} {
		p := p
		add(with(func(d *qd) { d.qs[0].t = p[0] }), with(func(d *qd) { d.qs[0].t = p[1] }))
		add(with(func(d *qd) { d.qs[0].c = p[0] }), with(func(d *qd) { d.qs[0].c = p[1] }))
	}
	// type and class bytes exchanged
	add(with(func(d *qd) { d.qs[0].t, d.qs[0].c = 1, 256 }), with(func(d *qd) { d.qs[0].t, d.qs[0].c = 256, 1 }))
	add(with(func(d *qd) { d.qs[0].t, d.qs[0].c = 1, 3 }), with(func(d *qd) { d.qs[0].t, d.qs[0].c = 3, 1 }))
	add(with(func(d *qd) { d.qs[0].t, d.qs[0].c = 257, 1 }), with(func(d *qd) { d.qs[0].t, d.qs[0].c = 1, 257 }))
	// all flag combinations against each other
	fl := func(i int) qd {
		return with(func(d *qd) {
			d.ad, d.cd = i&1 != 0, i&2 != 0
			if i&4 != 0 {
				d.extra = []xrr{{opt: true, ttl: 32768}}
			}
		})
	}
	for i := 0; i < 8; i++ {
		for j := i; j < 8; j++ {
			add(fl(i), fl(j))
		}
	}
	// additional sections: where DO is read from
	for i := range extras {
		for _, j := range []int{0, 1, 3} {
			add(with(func(d *qd) { d.extra = extras[i] }), with(func(d *qd) { d.extra = extras[j] }))
		}
	}
	// names
	nmq := func(x nm) qd { return with(func(d *qd) { d.qs[0].name = x }) }
	for _, p := range [][2]string{{"a.", "A."}, {"example.com.", "EXAMPLE.com."}, {"example.com.", "example.com"}, {"a.", "a"}, {"a.", "ab."}, {"a.", "a.b."},
		{"", "."}, {"", "a"}, {".", ".."}, {"a.", "b."}, {"\x00.", "."}, {"a\x00.", "a."}, {"\xff.", "\xfe."}, {"a.", "a."},
		{"a.", "a.\x00\x01\x00\x01\x02a."}, {"\x01\x00\x01\x02a.", "a."}} {
		add(nmq(lit(p[0])), nmq(lit(p[1])))
	}
	for _, n := range []int{1, 2, 62, 63, 64, 127, 128, 252, 253, 254, 255, 256, 257, 300, 511, 512, 1020} {
		long := func(k int, seed uint64, last byte) nm { return nm{n: k - 1, seed: seed, suf: []byte{last}} }
		add(nmq(long(n, 1, '.')), nmq(long(n, 1, '.')))         // the same
		add(nmq(long(n, 1, '.')), nmq(long(n+1, 1, '.')))       // one longer
		add(nmq(nm{n: n, seed: 1}), nmq(nm{n: n + 1, seed: 1})) // a prefix of the other
		add(nmq(long(n, 1, '.')), nmq(long(n+256, 1, '.')))     // same length byte
		add(nmq(nm{n: n, seed: 1}), nmq(nm{n: n + 256, seed: 1}))
		add(nmq(long(n, 1, '.')), nmq(long(n, 1, ','))) // last byte differs
		add(nmq(long(n, 1, '.')), nmq(long(n, 2, '.'))) // same length, other bytes
	}
	// queries that bypass the cache
	bys := []qd{
		with(func(d *qd) { d.qr = true }),
		with(func(d *qd) { d.opcode = 1 }), with(func(d *qd) { d.opcode = 2 }), with(func(d *qd) { d.opcode = 4 }),
		with(func(d *qd) { d.opcode = 5 }), with(func(d *qd) { d.opcode = 15 }),
		with(func(d *qd) { d.qs = nil }),
		with(func(d *qd) { d.qs = append(d.qs, d.qs[0]) }),
		with(func(d *qd) { d.qs = append(d.qs, quest{name: lit("b."), t: 1, c: 1}) }),
		with(func(d *qd) { d.qs = append(d.qs, d.qs[0], d.qs[0]) }),
		with(func(d *qd) { d.qr = true; d.opcode = 2; d.qs = nil }),
	}
	for _, x := range bys {
		add(b, x)
		add(x, x.clone())
	}
	nk := len(keys)
	// the same through Pack/Unpack for inputs that survive the wire
	for i := 0; i < nk; i++ {
		k := keys[i]
		ok := func(d qd) bool {
			if len(d.qs) != 1 || len(d.extra) > 1 || (len(d.extra) == 1 && !d.extra[0].opt) {
				return false
			}
			_, isDomain := dns.IsDomainName(d.qs[0].name.str())
			return isDomain && d.qs[0].name.n == 0 && dns.IsFqdn(d.qs[0].name.str())
		}
		if ok(k.a) && ok(k.b) {
			keys = append(keys, keyCase{a: k.a, b: k.b, wire: true})
		}
	}
	return
}

func main() {
	o := hx.ParseFlags()
	w := hx.NewWriter(o)
	defer func() {
		w.Close()
		if aborted > 0 {
			fmt.Fprintf(os.Stderr, "c04: %d case(s) given up\n", aborted)
			os.Exit(4)
		}
	}()
	keys, pairs := catalogue()
	for i, k := range keys {
		id := fmt.Sprintf("cat:keys:%d", i)
		if o.Want(id) {
			runKeys(w, id, k.a, k.b, k.wire)
		}
	}
	for i, p := range pairs {
		id := fmt.Sprintf("cat:pair:%d", i)
		if o.Want(id) {
			runPair(w, id, nil, p[0], p[1])
		}
	}
	for i, ex := range extras {
		id := fmt.Sprintf("cat:ctx:%d", i)
		if o.Want(id) {
			d := baseQ()
			d.extra = ex
			runCtx(w, id, d)
		}
	}

	// histories with dump and reload
	nd := o.Count(60, 3000)
	if o.N > 0 {
		nd = o.N / 10
	}
	for i := 0; i < nd; i++ {
		id := fmt.Sprintf("dump:%d", i)
		if !o.Want(id) {
			continue
		}
		r := hx.NewRNG(o.Seed, id)
		runHist(w, id, r, genDumpHist(r))
	}

	// redirect + (lazy) cache
	for i, lc := range lazyCatalogue() {
		id := fmt.Sprintf("cat:lazy:%d", i)
		if o.Want(id) && !joinBroken {
			runLazy(w, id, lc.lazy, lc.m, lc.rules, lc.ops)
		}
	}
	nl := o.Count(80, 4000)
	if o.N > 0 {
		nl = o.N / 8
	}
	for i := 0; i < nl; i++ {
		id := fmt.Sprintf("lazy:%d", i)
		if !o.Want(id) || joinBroken {
			continue
		}
		lc := genLazy(hx.NewRNG(o.Seed, id))
		runLazy(w, id, lc.lazy, lc.m, lc.rules, lc.ops)
	}

	// AD/CD/DO in front of a (lazy) cache with a flag-sensitive upstream
	for i, fc := range flagCatalogue() {
		id := fmt.Sprintf("cat:flag:%d", i)
		if o.Want(id) && !joinBroken {
			runFlag(w, id, fc.lazy, fc.m, fc.ops)
		}
	}
	nf := o.Count(60, 3000)
	if o.N > 0 {
		nf = o.N / 10
	}
	for i := 0; i < nf; i++ {
		id := fmt.Sprintf("flag:%d", i)
		if !o.Want(id) || joinBroken {
			continue
		}
		fc := genFlag(hx.NewRNG(o.Seed, id))
		runFlag(w, id, fc.lazy, fc.m, fc.ops)
	}

	// a response already in the context / dual_selector in front of the cache
	for i, cc := range chainCatalogue() {
		id := fmt.Sprintf("cat:chain:%d", i)
		if o.Want(id) && !joinBroken {
			runChain(w, id, cc.lazy, cc.sel, cc.m, cc.ops)
		}
	}
	nc := o.Count(100, 5000)
	if o.N > 0 {
		nc = o.N / 8
	}
	for i := 0; i < nc; i++ {
		id := fmt.Sprintf("chain:%d", i)
		if !o.Want(id) || joinBroken {
			continue
		}
		cc := genChain(hx.NewRNG(o.Seed, id))
		runChain(w, id, cc.lazy, cc.sel, cc.m, cc.ops)
	}

	// sweeps on the implementation
	type sw struct {
		dim, total, start, step, cnt int
	}
	sweeps := []sw{{0, 65536, 0, 127, 512}, {1, 65536, 3, 127, 512}, {2, 8, 0, 1, 8}, {3, 300, 0, 7, 42}}
	ns := o.Count(4, 40)
	if o.N > 0 {
		ns = 4
	}
	for i := 0; i < ns; i++ {
		id := fmt.Sprintf("sweep:%d", i)
		if !o.Want(id) {
			continue
		}
		r := hx.NewRNG(o.Seed, id)
		s := sweeps[i%len(sweeps)]
		base := baseQ()
		if i >= len(sweeps) {
			base = genQ(r)
			base.qr, base.opcode = false, 0
			if len(base.qs) != 1 {
				base.qs = []quest{{name: genName(r), t: 1, c: 1}}
			}
		}
		if s.dim < 2 {
			s.start = r.Intn(17)
		}
		runSweep(w, id, s.dim, base, s.total, s.start, s.step, s.cnt)
	}

	// generated
	n := o.Count(700, 40000)
	for i := 0; i < n; i++ {
		id := fmt.Sprintf("gen:%d", i)
		if !o.Want(id) {
			continue
		}
		r := hx.NewRNG(o.Seed, id)
		switch r.Intn(10) {
		case 0, 1, 2, 3:
			a, b := genPairQ(r)
			runKeys(w, id, a, b, false)
		case 4, 5, 6:
			a, b := genPairPQ(r)
			runPair(w, id, r, a, b)
		case 7, 8:
			runHist(w, id, r, genHist(r))
		default:
			runCtx(w, id, genQ(r))
		}
	}
}
