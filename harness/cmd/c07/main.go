// Combined driver for C07: scripted schedules on the real transports' building blocks.
package main

import (
	"verifharness/dialx"
	"verifharness/hx"
	"verifharness/lazyx"
	"verifharness/poolx"
	"verifharness/ppx"
	"verifharness/reusex"
	"verifharness/tdcx"
)

func main() {
	o := hx.ParseFlags()
	w := hx.NewWriter(o)
	defer w.Close()
	tdcx.Drive(w, o, "C07", func(s string) string { return "(KTdc " + s + ")" })
	lazyx.Drive(w, o, func(s string) string { return "(KLazy " + s + ")" })
	reusex.Drive(w, o, func(s string) string { return "(KReuse " + s + ")" })
	reusex.DriveArm(w, o)
	poolx.DriveBursts(w, o, func(s string) string { return "(KBurst " + s + ")" })
	ppx.Drive(w, o, func(s string) string { return "(KPool " + s + ")" })
	dialx.Drive(w, o, func(s string) string { return "(KLive " + s + ")" })
}
