// Combined driver for C02: scripted schedules on the real transports' building blocks.
package main

import (
	"verifharness/hx"
	"verifharness/ppx"
	"verifharness/reusex"
	"verifharness/tdcx"
)

func main() {
	o := hx.ParseFlags()
	w := hx.NewWriter(o)
	defer w.Close()
	tdcx.Drive(w, o, "C02", func(s string) string { return "(KTdc " + s + ")" })
	reusex.Drive(w, o, func(s string) string { return "(KReuse " + s + ")" })
	ppx.Drive(w, o, func(s string) string { return "(KPool " + s + ")" })
}
