// Driver for C20 (fallback prefers the primary and fails over only when it
// should). Builds the REAL fallback plugin (args decoded by utils.WeakDecode
// as the plugin loader does, then fallback.Init) over scripted
// primary/secondary executables and runs one call under a schedule enforced
// through the verif schedule points "fallback.primary.mid",
// "fallback.secondary.ready" and "fallback.secondary.send" and through the
// moments at which the scripted executables return. What was observed is
// printed as a Judge.C20.case literal.
//
// Nothing here depends on winning a race against a timer: a gate opens only
// after an event that has been recorded (plus a grace period that only gives a
// goroutine that should stay blocked the chance to show that it does not); the
// threshold is either 60 s ("cannot fire") or 20 ms with the model allowed to
// fire it at any time.
package main

import (
	"context"
	"errors"
	"fmt"
	"os"
	"reflect"
	"runtime"
	"strconv"
	"strings"
	"sync"
	"time"
	"unsafe"

	"github.com/IrineSistiana/mosdns/v5/coremain"
	"github.com/IrineSistiana/mosdns/v5/pkg/query_context"
	"github.com/IrineSistiana/mosdns/v5/pkg/utils"
	"github.com/IrineSistiana/mosdns/v5/pkg/verifhook"
	"github.com/IrineSistiana/mosdns/v5/plugin/executable/drop_resp"
	"github.com/IrineSistiana/mosdns/v5/plugin/executable/sequence"
	"github.com/IrineSistiana/mosdns/v5/plugin/executable/sequence/fallback"
	"github.com/miekg/dns"

	"verifharness/hx"
)

// ---------- vocabulary shared with Judge.C20 / Model.Fallback ----------

type outcome int

const (
	oAns outcome = iota
	oNone
	oErr
)

func (o outcome) coq() string { return [...]string{"OAns", "ONone", "OErr"}[o] }

type cond int

const (
	cTrue cond = iota
	cDelay
	cNever
	cSstarted
	cSready
	cSsendhook
	cPmid
	cRet
)

func (c cond) coq() string {
	return [...]string{"CTrue", "CDelay", "CNever", "CSstarted", "CSready", "CSsendhook", "CPmid", "CRet"}[c]
}

// events, indexed like the conds that wait for them
const (
	evSstarted = iota
	evSready
	evSsendhook
	evPmid
	evRet
	nEv
)

func (c cond) event() int {
	switch c {
	case cSstarted:
		return evSstarted
	case cSready:
		return evSready
	case cSsendhook:
		return evSsendhook
	case cPmid:
		return evPmid
	case cRet:
		return evRet
	}
	return -1
}

const (
	gPexec = iota
	gPmid
	gSexec
	gSready
	gSsend
	gCtx
	nGates
)

type spec struct {
	po, so  outcome
	standby bool
	fires   bool   // threshold 20 ms instead of 60 s
	dl      string // DNone | DFar | DNear
	g       [nGates]cond
	// not part of the literal (equivalent for the model, see runCase)
	errWithResp bool
	dropResp    bool          // "no answer" is produced by setting a response and removing it with the real drop_resp plugin
	ctxAge      time.Duration // the query context is this old when the plugin is entered
	grace       time.Duration
	sched       string
	thrMs       int // configured threshold (0 = derive from fires)
	// sequences of calls on one instance
	inst        *instance       // non-nil: call this instance instead of building one
	qname       string          // routes the instance's executables to this call
	holdCleanup <-chan struct{} // non-nil: keep this call's goroutines parked after it returned, until closed
	seqN        int             // >0: emit as CSeq with this many abandoned calls before
}

// instance is one fallback plugin whose executables find the call they belong
// to by the question name (doFallback hands each worker a copy of the query).
type instance struct {
	fb     sequence.Executable
	routes sync.Map // qname -> *ctl
}

type routed struct {
	in   *instance
	prim bool
}

func (e *routed) Exec(ctx context.Context, qCtx *query_context.Context) error {
	v, ok := e.in.routes.Load(qCtx.QQuestion().Name)
	if !ok {
		return errScripted
	}
	return (&scripted{c: v.(*ctl), prim: e.prim}).Exec(ctx, qCtx)
}

func newInstance(thrMs int, standby bool) (*instance, error) {
	in := &instance{}
	m := coremain.NewTestMosdnsWithPlugins(map[string]any{
		"p": &routed{in: in, prim: true},
		"s": &routed{in: in, prim: false},
	})
	args := new(fallback.Args)
	if err := utils.WeakDecode(map[string]any{"primary": "p", "secondary": "s", "always_standby": standby, "threshold": thrMs}, args); err != nil {
		return nil, err
	}
	p, err := fallback.Init(coremain.NewBP("fb", m), args)
	if err != nil {
		return nil, err
	}
	in.fb = sequence.ToExecutable(p)
	return in, nil
}

func (s *spec) coqPrefix() string {
	tm := "TNever"
	if s.fires {
		tm = "TFires"
	}
	head := "Case"
	if s.seqN > 0 {
		head = "CSeq " + hx.Ni(s.seqN)
	}
	g := hx.App("mkG", s.g[0].coq(), s.g[1].coq(), s.g[2].coq(), s.g[3].coq(), s.g[4].coq(), s.g[5].coq())
	return strings.Join([]string{head, s.po.coq(), s.so.coq(), hx.Bool(s.standby), tm, s.dl, g}, " ")
}

// ---------- per-case controller ----------

type ctl struct {
	sp      *spec
	mu      sync.Mutex
	ev      [nEv]bool
	evAt    [nEv]time.Time
	evCh    [nEv]chan struct{}
	gate    [nGates]chan struct{}
	gateMu  [nGates]sync.Once
	cleanup chan struct{}
	pResp   *dns.Msg
	sResp   *dns.Msg
}

func newCtl(sp *spec) *ctl {
	c := &ctl{sp: sp, cleanup: make(chan struct{})}
	for i := range c.evCh {
		c.evCh[i] = make(chan struct{})
	}
	for i := range c.gate {
		c.gate[i] = make(chan struct{})
	}
	return c
}

func (c *ctl) record(e int) {
	c.mu.Lock()
	if !c.ev[e] {
		c.ev[e] = true
		c.evAt[e] = time.Now()
		close(c.evCh[e])
	}
	c.mu.Unlock()
}

func (c *ctl) open(g int) { c.gateMu[g].Do(func() { close(c.gate[g]) }) }

// pass blocks the calling goroutine until gate g is open.
func (c *ctl) pass(g int) { <-c.gate[g] }

// opener opens gate g once its condition has been observed (and the grace
// period has passed), or at cleanup.
func (c *ctl) opener(g int, onOpen func()) {
	cd := c.sp.g[g]
	wait := func(ch <-chan struct{}) bool {
		select {
		case <-ch:
			return true
		case <-c.cleanup:
			return false
		}
	}
	ok := true
	switch cd {
	case cTrue:
	case cDelay:
		ok = c.sleep()
	case cNever:
		ok = wait(nil)
	case cRet:
		ok = wait(c.evCh[evRet])
	default:
		ok = wait(c.evCh[cd.event()]) && c.sleep()
	}
	if ok && onOpen != nil {
		onOpen()
	}
	c.open(g)
}

func (c *ctl) sleep() bool {
	t := time.NewTimer(c.sp.grace)
	defer t.Stop()
	select {
	case <-t.C:
		return true
	case <-c.cleanup:
		return false
	}
}

// ---------- goroutine identity: which case does a schedule point belong to ----------

type who struct {
	c    *ctl
	prim bool
}

var goroutines sync.Map // goid -> who

func goid() uint64 {
	var buf [64]byte
	n := runtime.Stack(buf[:], false)
	f := strings.Fields(string(buf[:n]))
	if len(f) < 2 {
		return 0
	}
	id, _ := strconv.ParseUint(f[1], 10, 64)
	return id
}

func hook(name string) {
	v, ok := goroutines.Load(goid())
	if !ok {
		return
	}
	w := v.(who)
	switch name {
	case "fallback.primary.mid":
		if w.prim {
			w.c.record(evPmid)
			w.c.pass(gPmid)
		}
	case "fallback.secondary.ready":
		if !w.prim {
			w.c.record(evSready)
			w.c.pass(gSready)
		}
	case "fallback.secondary.send":
		if !w.prim {
			w.c.record(evSsendhook)
			w.c.pass(gSsend)
		}
	}
}

// ---------- scripted executables ----------

var errScripted = errors.New("scripted failure")

// the real drop_resp plugin
var dropper = func() sequence.Executable {
	p, err := drop_resp.QuickSetup(nil, "")
	if err != nil {
		panic(err)
	}
	return sequence.ToExecutable(p)
}()

// backdate makes the query context look d old (Context.startTime has no
// setter; the threshold must not depend on it).
func backdate(qCtx *query_context.Context, d time.Duration) {
	f := reflect.ValueOf(qCtx).Elem().FieldByName("startTime")
	if !f.IsValid() || f.Type() != reflect.TypeOf(time.Time{}) {
		fmt.Fprintln(os.Stderr, "c20: query_context.Context has no startTime field of type time.Time any more; the harness must be updated")
		os.Exit(2)
	}
	p := (*time.Time)(unsafe.Pointer(f.UnsafeAddr()))
	*p = p.Add(-d)
	if age := time.Since(qCtx.StartTime()); age < d {
		fmt.Fprintln(os.Stderr, "c20: back-dating the query context had no effect")
		os.Exit(2)
	}
}

type scripted struct {
	c    *ctl
	prim bool
}

func (e *scripted) Exec(ctx context.Context, qCtx *query_context.Context) error {
	id := goid()
	goroutines.Store(id, who{c: e.c, prim: e.prim})
	o := e.c.sp.so
	if e.prim {
		o = e.c.sp.po
		e.c.pass(gPexec)
	} else {
		e.c.record(evSstarted)
		e.c.pass(gSexec)
	}
	mk := func() *dns.Msg {
		r := new(dns.Msg)
		r.SetReply(qCtx.Q())
		return r
	}
	switch o {
	case oAns:
		r := mk()
		e.c.mu.Lock()
		if e.prim {
			e.c.pResp = r
		} else {
			e.c.sResp = r
		}
		e.c.mu.Unlock()
		qCtx.SetResponse(r)
		return nil
	case oNone:
		if e.c.sp.dropResp { // forward ...; drop_resp: an answer was obtained and then discarded
			qCtx.SetResponse(mk())
			return dropper.Exec(ctx, qCtx)
		}
		return nil
	default:
		if e.c.sp.errWithResp { // an error counts as a failure even when a response was set
			qCtx.SetResponse(mk())
		}
		return errScripted
	}
}

var _ sequence.Executable = (*scripted)(nil)

// ---------- one case ----------

type result struct {
	coq  string
	desc map[string]any
	kind string
	// for the timing cases
	res string
	t0  time.Time
	c   *ctl
}

// build makes the plugin the way the loader does: the args arrive as a map
// (threshold absent when unset), are decoded by utils.WeakDecode into
// fallback.Args and handed to the registered constructor fallback.Init.
func build(c *ctl, thrSet bool, thrMs int, standby bool) (any, error) {
	m := coremain.NewTestMosdnsWithPlugins(map[string]any{
		"p": &scripted{c: c, prim: true},
		"s": &scripted{c: c, prim: false},
	})
	raw := map[string]any{"primary": "p", "secondary": "s", "always_standby": standby}
	if thrSet {
		raw["threshold"] = thrMs
	}
	args := new(fallback.Args)
	if err := utils.WeakDecode(raw, args); err != nil {
		return nil, err
	}
	return fallback.Init(coremain.NewBP("fb", m), args)
}

func runCase(sp *spec) result {
	c := newCtl(sp)
	thr := 60000
	if sp.fires {
		thr = 20
	}
	if sp.thrMs != 0 {
		thr = sp.thrMs
	}
	var fb sequence.Executable
	qname := "c20.test."
	if sp.inst != nil {
		fb, qname = sp.inst.fb, sp.qname
		sp.inst.routes.Store(qname, c)
	} else {
		p, err := build(c, true, thr, sp.standby)
		if err != nil {
			return result{coq: sp.coqPrefix() + " OBad", desc: map[string]any{"init": err.Error()}, kind: "bad"}
		}
		fb = sequence.ToExecutable(p)
	}

	var ctx context.Context
	var cancel context.CancelFunc
	switch sp.dl {
	case "DNone":
		ctx, cancel = context.WithCancel(context.Background())
	case "DFar":
		ctx, cancel = context.WithDeadline(context.Background(), time.Now().Add(time.Hour))
	default:
		ctx, cancel = context.WithDeadline(context.Background(), time.Now().Add(40*time.Millisecond))
	}
	defer cancel()

	for g := 0; g < nGates; g++ {
		if g == gCtx {
			go c.opener(g, cancel)
		} else {
			go c.opener(g, nil)
		}
	}

	q := new(dns.Msg)
	q.SetQuestion(qname, dns.TypeA)
	qCtx := query_context.NewContext(q)
	if sp.ctxAge > 0 {
		backdate(qCtx, sp.ctxAge)
	}
	done := make(chan error, 1)
	t0 := time.Now()
	go func() { done <- fb.Exec(ctx, qCtx) }()

	obs := ""
	kind := ""
	resOut := ""
	var snap [nEv]bool
	select {
	case err := <-done:
		c.mu.Lock()
		snap = c.ev
		pR, sR := c.pResp, c.sResp
		c.mu.Unlock()
		c.record(evRet)
		r := qCtx.R()
		res := ""
		switch {
		case err == nil && r != nil && r == pR:
			res = "(RAns WP)"
		case err == nil && r != nil && r == sR:
			res = "(RAns WS)"
		case err == fallback.ErrFailed && r == nil:
			res = "RFail"
		case (errors.Is(err, context.Canceled) || errors.Is(err, context.DeadlineExceeded)) && r == nil:
			res = "RCtx"
		}
		if res == "" {
			obs, kind = "OBad", "bad"
		} else {
			obs = hx.App("ORet", res, hx.Bool(snap[evSstarted]), hx.Bool(snap[evSready]), hx.Bool(snap[evSsendhook]), hx.Bool(snap[evPmid]))
			kind = strings.Trim(res, "()")
			resOut = res
		}
	case <-time.After(4 * time.Second): // below the workers' 5 s default deadline
		obs, kind = "OHung", "hung"
	}
	if sp.holdCleanup != nil {
		go func() { <-sp.holdCleanup; close(c.cleanup) }()
	} else {
		close(c.cleanup)
	}
	cancel()
	return result{
		res: resOut, t0: t0, c: c,
		coq:  sp.coqPrefix() + " " + obs,
		kind: kind,
		desc: map[string]any{"po": sp.po.coq(), "so": sp.so.coq(), "standby": sp.standby, "fires": sp.fires, "dl": sp.dl,
			"err_with_resp": sp.errWithResp, "drop_resp": sp.dropResp, "ctx_age_ms": sp.ctxAge.Milliseconds(), "grace_ms": sp.grace.Milliseconds()},
	}
}

// ---------- the configuration path ----------

// runConf builds the plugin through the real constructor with threshold unset
// or set to thrMs and reads back what doFallback will use: the duration its
// threshold timer is armed with and the standby flag.
func runConf(thrSet bool, thrMs int, standby bool) result {
	lit := func(obs string) string {
		cfg := "None"
		if thrSet {
			cfg = hx.Some(hx.Z(int64(thrMs)))
		}
		return strings.Join([]string{"CConf", cfg, hx.Bool(standby), obs}, " ")
	}
	desc := map[string]any{"schedule": "conf", "threshold_set": thrSet, "threshold_ms": thrMs, "standby": standby}
	p, err := build(newCtl(&spec{}), thrSet, thrMs, standby)
	if err != nil {
		desc["init"] = err.Error()
		return result{coq: lit("None"), desc: desc, kind: "bad"}
	}
	v := reflect.ValueOf(p)
	if v.Kind() == reflect.Pointer {
		v = v.Elem()
	}
	d, sb := v.FieldByName("fastFallbackDuration"), v.FieldByName("alwaysStandby")
	if !d.IsValid() || !sb.IsValid() || !d.CanInt() || sb.Kind() != reflect.Bool {
		desc["init"] = "fields fastFallbackDuration / alwaysStandby not found"
		return result{coq: lit("None"), desc: desc, kind: "bad"}
	}
	return result{coq: lit(hx.Some(hx.Tuple(hx.Z(d.Int()), hx.Bool(sb.Bool())))), desc: desc, kind: "ok"}
}

// runTiming is the only place where wall-clock time is compared: threshold
// 50 ms configured, the primary produces nothing before the call returns, the
// secondary answers at once. Observed: whether the threshold had visibly
// passed (secondary started / released) within 400 ms of the call, and the
// result. A timer never fires early, so "not within" cannot be wrong for an
// effective threshold >= 400 ms; "within" for 50 ms has a 350 ms margin and
// the best of three attempts is reported.
func runTiming(standby bool) result {
	const cfgMs, boundMs = 50, 400
	var r result
	within := false
	var best time.Duration = -1
	for attempt := 0; attempt < 3 && !within; attempt++ {
		sp := &spec{po: oAns, so: oAns, standby: standby, dl: "DFar", thrMs: cfgMs, sched: "timing",
			g: gates(cRet, cTrue, cTrue, cTrue, cTrue, cNever), grace: 20 * time.Millisecond}
		r = runCase(sp)
		ev := evSstarted
		if standby {
			ev = evSsendhook
		}
		r.c.mu.Lock()
		at, seen := r.c.evAt[ev], r.c.ev[ev]
		r.c.mu.Unlock()
		if seen {
			el := at.Sub(r.t0)
			if best < 0 || el < best {
				best = el
			}
			within = el < boundMs*time.Millisecond
		}
		if r.res == "" {
			break
		}
	}
	res := r.res
	if res == "" {
		res = "RFail" // the call hung or returned garbage: reported as a wrong result
	}
	return result{
		coq:  strings.Join([]string{"CTiming", hx.Z(cfgMs), hx.Bool(standby), hx.Z(boundMs), hx.Bool(within), res}, " "),
		kind: "ok",
		desc: map[string]any{"schedule": "timing", "standby": standby, "threshold_ms": cfgMs, "bound_ms": boundMs, "best_ms": best.Milliseconds()},
	}
}

// ---------- schedule templates ----------

type tmpl struct {
	name  string
	fires bool
	near  bool
	g     [nGates]cond
	// live reports whether the call certainly returns under this schedule
	live func(po, so outcome, sb bool) bool
}

func always(po, so outcome, sb bool) bool { return true }

func gates(pexec, pmid, sexec, sready, ssend, ctx cond) [nGates]cond {
	return [nGates]cond{pexec, pmid, sexec, sready, ssend, ctx}
}

var templates = []tmpl{
	// threshold cannot fire: the primary is "in time" whenever it produces a result
	{"free", false, false, gates(cTrue, cTrue, cTrue, cTrue, cTrue, cNever), always},
	{"p-delayed", false, false, gates(cDelay, cTrue, cTrue, cTrue, cTrue, cNever), always},
	{"s-finishes-first", false, false, gates(cSready, cTrue, cTrue, cTrue, cTrue, cNever),
		func(po, so outcome, sb bool) bool { return sb && so != oErr }},
	{"p-then-s-finishes", false, false, gates(cSstarted, cTrue, cPmid, cTrue, cTrue, cNever),
		func(po, so outcome, sb bool) bool { return sb }},
	{"s-waits-p-parked-at-mid", false, false, gates(cSready, cSready, cTrue, cTrue, cTrue, cNever),
		func(po, so outcome, sb bool) bool { return sb && so != oErr }},
	{"p-parked-at-mid", false, false, gates(cTrue, cDelay, cTrue, cTrue, cTrue, cNever), always},
	{"s-send-after-p-mid", false, false, gates(cTrue, cTrue, cTrue, cTrue, cPmid, cNever), always},
	{"s-exec-after-p-mid", false, false, gates(cTrue, cTrue, cPmid, cTrue, cTrue, cNever), always},
	{"s-ready-after-p-mid", false, false, gates(cTrue, cTrue, cTrue, cPmid, cTrue, cNever), always},
	// threshold 20 ms: the primary is late when it is held until the secondary shows the timer has fired
	{"late-s-first", true, false, gates(cRet, cTrue, cTrue, cTrue, cTrue, cNever),
		func(po, so outcome, sb bool) bool { return so == oAns }},
	{"late-p-after-s-started", true, false, gates(cSstarted, cTrue, cTrue, cTrue, cPmid, cNever), always},
	{"late-p-first-s-parked-at-send", true, false, gates(cSsendhook, cTrue, cTrue, cTrue, cPmid, cNever),
		func(po, so outcome, sb bool) bool { return so != oErr }},
	{"late-p-after-s-send", true, false, gates(cSsendhook, cTrue, cTrue, cTrue, cTrue, cNever),
		func(po, so outcome, sb bool) bool { return so != oErr }},
	{"late-s-exec-after-p-mid", true, false, gates(cSstarted, cTrue, cPmid, cTrue, cTrue, cNever), always},
	{"late-p-parked-at-mid", true, false, gates(cSstarted, cSsendhook, cTrue, cTrue, cTrue, cNever),
		func(po, so outcome, sb bool) bool { return so != oErr }},
	{"race", true, false, gates(cTrue, cTrue, cTrue, cTrue, cTrue, cNever), always},
	// the caller's context ends
	{"cancel", false, false, gates(cRet, cTrue, cTrue, cTrue, cTrue, cDelay), always},
	{"cancel-after-s-ready", false, false, gates(cRet, cTrue, cTrue, cTrue, cTrue, cSready),
		func(po, so outcome, sb bool) bool { return sb && so != oErr }},
	{"cancel-vs-answer", false, false, gates(cTrue, cTrue, cTrue, cTrue, cTrue, cPmid), always},
	{"cancel-late", true, false, gates(cRet, cTrue, cTrue, cTrue, cTrue, cSstarted), always},
	{"cancel-p-parked-at-mid", false, false, gates(cTrue, cRet, cTrue, cTrue, cTrue, cPmid),
		func(po, so outcome, sb bool) bool { return true }},
	{"deadline", false, true, gates(cRet, cTrue, cTrue, cTrue, cTrue, cNever), always},
	{"deadline-race", true, true, gates(cTrue, cTrue, cTrue, cTrue, cTrue, cNever), always},
	{"deadline-s-parked", false, true, gates(cRet, cTrue, cTrue, cTrue, cRet, cNever), always},
}

var outcomes = []outcome{oAns, oNone, oErr}

type job struct {
	id  string
	sp  *spec
	run func() result // non-nil: a configuration or timing case
}

// mkSpec fills in what the literal does not show because the property says it
// must not matter: how "no answer" / "error" come about, how old the query
// context is, the grace period. k >= 0 (catalogue repeat index) makes the
// choice systematic: repeats 2, 5, .. have an old context, odd repeats drop a response.
func mkSpec(o *hx.Opts, id string, t *tmpl, po, so outcome, sb bool, k int) *spec {
	r := hx.NewRNG(o.Seed, id)
	sp := &spec{po: po, so: so, standby: sb, fires: t.fires, g: t.g, sched: t.name}
	switch {
	case t.near:
		sp.dl = "DNear"
	case r.Bool():
		sp.dl = "DFar"
	default:
		sp.dl = "DNone"
	}
	sp.errWithResp = r.Bool()
	sp.grace = time.Duration(r.Range(15, 30)) * time.Millisecond
	thr := 60 * time.Second
	if t.fires {
		thr = 20 * time.Millisecond
	}
	old := r.Chance(1, 3)
	sp.dropResp = r.Bool()
	if k >= 0 {
		old = k%3 == 2
		sp.dropResp = k%2 == 1
	}
	if old {
		sp.ctxAge = 2 * thr // older than the threshold: an earlier step of the sequence was slow
	}
	return sp
}

func main() {
	o := hx.ParseFlags()
	w := hx.NewWriter(o)
	defer w.Close()
	verifhook.Set(hook)

	var jobs []job
	// catalogue: every outcome/standby combination under every schedule that is live for it
	reps := 3
	if o.Tier == "thorough" {
		reps = 12
	}
	for ti := range templates {
		t := &templates[ti]
		for _, po := range outcomes {
			for _, so := range outcomes {
				for _, sb := range []bool{false, true} {
					if !t.live(po, so, sb) {
						continue
					}
					for k := 0; k < reps; k++ {
						id := fmt.Sprintf("cat:%s:%s:%s:%v:%d", t.name, po.coq(), so.coq(), sb, k)
						if o.Want(id) {
							jobs = append(jobs, job{id: id, sp: mkSpec(o, id, t, po, so, sb, k)})
						}
					}
				}
			}
		}
	}
	// the configuration path: unset, 0, negative, around the 500 ms default, large
	for _, thr := range []int{-1, 0, 1, 50, 100, 499, 500, 501, 800, 60000} {
		for _, sb := range []bool{false, true} {
			thr, sb := thr, sb
			set := thr != -1
			id := fmt.Sprintf("conf:%d:%v", thr, sb)
			if o.Want(id) {
				jobs = append(jobs, job{id: id, run: func() result { return runConf(set, thr, sb) }})
			}
			if thr < 0 { // a negative configured value
				id := fmt.Sprintf("conf:neg:%v", sb)
				if o.Want(id) {
					jobs = append(jobs, job{id: id, run: func() result { return runConf(true, -5, sb) }})
				}
			}
		}
	}
	for _, sb := range []bool{false, true} {
		sb := sb
		id := fmt.Sprintf("timing:%v", sb)
		if o.Want(id) {
			jobs = append(jobs, job{id: id, run: func() result { return runTiming(sb) }})
		}
	}
	// seeded random: random template and parameters, biased to the non-trivial corner
	n := o.Count(300, 6000)
	for i := 0; i < n; i++ {
		id := fmt.Sprintf("gen:%d", i)
		if !o.Want(id) {
			continue
		}
		r := hx.NewRNG(o.Seed, id+":pick")
		if r.Chance(1, 8) { // a random configured threshold
			thr, sb := r.Range(-3, 1200), r.Bool()
			if r.Chance(1, 2) {
				thr = r.Range(1, 499)
			}
			jobs = append(jobs, job{id: id, run: func() result { return runConf(true, thr, sb) }})
			continue
		}
		for {
			t := &templates[r.Intn(len(templates))]
			po, so, sb := hx.Pick(r, outcomes), hx.Pick(r, outcomes), r.Chance(2, 3)
			if r.Chance(1, 2) {
				po, so = oAns, oAns
			}
			if t.live(po, so, sb) {
				jobs = append(jobs, job{id: id, sp: mkSpec(o, id, t, po, so, sb, -1)})
				break
			}
		}
	}

	// Two-call sequences, run alone before anything else uses pkg/pool's timers:
	// call A (threshold 20 ms, no standby) lets the threshold timer expire
	// without anybody receiving from it (the primary fails at once, so the
	// first select is left through primFailed; the secondary runs for 80 ms)
	// and puts it back into the pool; call B (threshold 60 s) then gets a
	// pooled timer and must still see a primary that is within the threshold.
	// Only B's observation is a case; on a correct pool it is an ordinary
	// "p-delayed" observation.
	for k := 0; k < 3; k++ {
		for _, sb := range []bool{false, true} {
			id := fmt.Sprintf("seq:pooled-timer:%d:%v", k, sb)
			if !o.Want(id) {
				continue
			}
			a := &spec{po: oNone, so: oAns, standby: false, fires: true, dl: "DFar", sched: "pooled-timer",
				g: gates(cTrue, cTrue, cDelay, cTrue, cTrue, cNever), grace: 80 * time.Millisecond}
			var wa sync.WaitGroup // several at once: sync.Pool keeps one private item per P
			for i := 0; i < 8; i++ {
				wa.Add(1)
				go func() { defer wa.Done(); runCase(a) }()
			}
			wa.Wait()
			time.Sleep(20 * time.Millisecond) // let the secondary goroutines run their deferred ReleaseTimer
			b := &spec{po: oAns, so: oAns, standby: sb, fires: false, dl: "DFar", sched: "pooled-timer",
				g: gates(cDelay, cTrue, cTrue, cTrue, cTrue, cNever), grace: 30 * time.Millisecond}
			r := runCase(b)
			r.desc["schedule"] = "pooled-timer"
			r.desc["preceded_by"] = "a call whose 20 ms threshold timer expired unreceived"
			w.Emit("pooled-timer/"+r.kind, hx.Case{ID: id, Coq: r.coq, Desc: r.desc})
		}
	}

	// Sequences of calls on ONE instance (threshold 50 ms): n calls abandoned by
	// their callers at once (context cancelled before the threshold, primary
	// still inside Exec, secondary goroutine parked on the threshold timer or,
	// with always_standby, holding its answer) and kept in that state; then,
	// directly afterwards, the observed call. The outcome of a call must not
	// depend on earlier calls: the observed call is judged by the single-call model.
	seqTmpl := func(name string) *tmpl {
		for i := range templates {
			if templates[i].name == name {
				return &templates[i]
			}
		}
		panic(name)
	}
	type seqVar struct {
		tmpl   string
		po, so outcome
	}
	for _, v := range []seqVar{
		{"late-s-first", oAns, oAns},            // slow primary, fast secondary: the secondary's answer
		{"late-s-first", oNone, oAns},           // primary never produces anything
		{"late-p-after-s-started", oNone, oErr}, // both fail, the primary only after the secondary was started
		{"late-p-after-s-started", oAns, oAns},  // the primary answers once the secondary was started
	} {
		for _, sb := range []bool{false, true} {
			for _, n := range []int{1, 3} {
				for k := 0; k < 2; k++ {
					id := fmt.Sprintf("seq:abandoned:%s:%s:%s:%v:%d:%d", v.tmpl, v.po.coq(), v.so.coq(), sb, n, k)
					if !o.Want(id) {
						continue
					}
					in, err := newInstance(50, sb)
					if err != nil {
						fmt.Fprintln(os.Stderr, "c20:", err)
						os.Exit(2)
					}
					release := make(chan struct{})
					for i := 0; i < n; i++ {
						a := &spec{po: oAns, so: oAns, standby: sb, fires: true, dl: "DNone", sched: "abandoned", thrMs: 50,
							g: gates(cNever, cTrue, cTrue, cTrue, cTrue, cTrue), grace: 20 * time.Millisecond,
							inst: in, qname: fmt.Sprintf("a%d.c20.test.", i), holdCleanup: release}
						runCase(a)
					}
					b := mkSpec(o, id, seqTmpl(v.tmpl), v.po, v.so, sb, 0)
					b.thrMs, b.inst, b.qname, b.seqN, b.sched = 50, in, "b.c20.test.", n, "after-abandoned"
					r := runCase(b)
					close(release)
					r.desc["schedule"] = "after-abandoned/" + v.tmpl
					r.desc["abandoned_before"] = n
					w.Emit("after-abandoned/"+r.kind, hx.Case{ID: id, Coq: r.coq, Desc: r.desc})
				}
			}
		}
	}

	// run (bounded parallelism; the output keeps the job order)
	res := make([]result, len(jobs))
	sem := make(chan struct{}, 8)
	var wg sync.WaitGroup
	for i := range jobs {
		wg.Add(1)
		sem <- struct{}{}
		go func(i int) {
			defer wg.Done()
			defer func() { <-sem }()
			if jobs[i].run != nil {
				res[i] = jobs[i].run()
			} else {
				res[i] = runCase(jobs[i].sp)
			}
		}(i)
	}
	wg.Wait()
	for i, j := range jobs {
		d := res[i].desc
		if j.sp != nil {
			d["schedule"] = j.sp.sched
		}
		w.Emit(fmt.Sprint(d["schedule"])+"/"+res[i].kind, hx.Case{ID: j.id, Coq: res[i].coq, Desc: d})
	}
}
