// Combined driver for C01: scripted schedules on the real transports' building blocks.
package main

import (
	"verifharness/hx"
	"verifharness/idx"
	"verifharness/reusex"
	"verifharness/tdcx"
)

func main() {
	o := hx.ParseFlags()
	w := hx.NewWriter(o)
	defer w.Close()
	tdcx.Drive(w, o, "C01", func(s string) string { return "(KTdc " + s + ")" })
	reusex.Drive(w, o, func(s string) string { return "(KReuse " + s + ")" })
	idx.Drive(w, o, func(s string) string { return "(KId " + s + ")" })
	idx.DriveBatches(w, o, func(s string) string { return "(KIdB " + s + ")" })
	idx.DriveHeld(w, o, func(s string) string { return "(KHeld " + s + ")" })
	idx.DriveWriteFault(w, o, func(s string) string { return "(KIdW " + s + ")" })
}
