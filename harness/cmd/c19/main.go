// Driver for C19 (cache dumps reload faithfully; damaged dumps are harmless).
//
// Runs the REAL cache plugin of /repo (writeDump, readDump, the /dump and
// /load_dump handlers, dumpCache/loadDump through Args.DumpFile, Exec) and
// prints what it did as Judge.C19.case literals.
//
// The process is a supervisor + worker pair: every case runs in a worker
// child, the supervisor turns the worker's lines into cases. If the worker
// dies (fatal out-of-memory after an unchecked announced length, runtime
// throw) while loading a damaged file, the supervisor emits that case with
// crash = 4 and restarts the worker behind it, so that the failure is reported
// as a violation of the property instead of a broken run.
package main

import (
	"bufio"
	"bytes"
	"context"
	"encoding/binary"
	"encoding/json"
	"flag"
	"fmt"
	"io"
	"net/http"
	"net/http/httptest"
	"os"
	"os/exec"
	"path/filepath"
	"runtime"
	"sort"
	"strconv"
	"strings"
	"time"

	"github.com/IrineSistiana/mosdns/v5/pkg/query_context"
	"github.com/IrineSistiana/mosdns/v5/plugin/executable/cache"
	"github.com/IrineSistiana/mosdns/v5/plugin/executable/sequence"
	"github.com/klauspost/compress/gzip"
	"github.com/miekg/dns"
	"go.uber.org/zap"
	"go.uber.org/zap/zaptest/observer"
	"google.golang.org/protobuf/proto"

	"verifharness/hx"
)

const (
	limit      = cache.VerifDumpMaximumBlockLength
	allocBound = 64 << 20
	workRoot   = "/verif/.work/c19"
)

// ---------- small helpers ----------

func canon(m *dns.Msg) string {
	c := m.Copy()
	c.Id = 0
	return c.String()
}

func canonNoTTL(m *dns.Msg) string {
	c := m.Copy()
	c.Id = 0
	for _, sec := range [][]dns.RR{c.Answer, c.Ns, c.Extra} {
		for _, rr := range sec {
			rr.Header().Ttl = 0
		}
	}
	return c.String()
}

func newCache() *cache.Cache { return newCacheLazy(0) }

// newCacheLazy: a cache plugin configured with lazy_cache_ttl = lazy seconds (0 = off).
func newCacheLazy(lazy int) *cache.Cache {
	return cache.NewCache(&cache.Args{Size: 65536, LazyCacheTTL: lazy}, cache.Opts{})
}

func errClass(s string, isNil bool) int {
	if isNil {
		return 0
	}
	for i, p := range []string{
		"failed to read gzip header", "invalid or old cache dump", "failed to read block header",
		"invalid header, block length is big", "failed to read block data",
		"failed to decode block data", "failed to decode dns msg",
	} {
		if strings.HasPrefix(s, p) {
			return i + 1
		}
	}
	return 8
}

func nameLit(s string) string { return hx.Str(s) }

func gzipBytes(name string, plain []byte) []byte {
	var buf bytes.Buffer
	gw, _ := gzip.NewWriterLevel(&buf, gzip.BestSpeed)
	gw.Name = name
	gw.Write(plain)
	gw.Close()
	return buf.Bytes()
}

// gunzipObserve: what the gzip reader does on the file.
func gunzipObserve(file []byte) (open bool, name string, plain []byte, clean bool) {
	gr, err := gzip.NewReader(bytes.NewReader(file))
	if err != nil {
		return false, "", nil, false
	}
	var out bytes.Buffer
	buf := make([]byte, 4096)
	for {
		n, err := gr.Read(buf)
		out.Write(buf[:n])
		if err != nil {
			return true, gr.Name, out.Bytes(), err == io.EOF
		}
		if out.Len() > 64<<20 {
			return true, gr.Name, out.Bytes(), false
		}
	}
}

// parsePlain: the driver's own, independent block parser (intact input only).
func parsePlain(plain []byte) (blocks [][]*cache.CachedEntry, blens []int, ok bool) {
	for len(plain) > 0 {
		if len(plain) < 8 {
			return blocks, blens, false
		}
		u := binary.BigEndian.Uint64(plain)
		plain = plain[8:]
		if u > uint64(len(plain)) {
			return blocks, blens, false
		}
		b := new(cache.CacheDumpBlock)
		if err := proto.Unmarshal(plain[:u], b); err != nil {
			return blocks, blens, false
		}
		blocks = append(blocks, b.GetEntries())
		blens = append(blens, int(u))
		plain = plain[u:]
	}
	return blocks, blens, true
}

func entrySize(key string, msg []byte, ce, me, st int64) int {
	return proto.Size(&cache.CachedEntry{Key: []byte(key), Msg: msg, CacheExpirationTime: ce, MsgExpirationTime: me, MsgStoredTime: st})
}

// ---------- messages ----------

var qnames = []string{"a.example.", "b.example.", "ab.example.", "a.test.", "c.test.", "www.a.example."}
var qtypes = []uint16{dns.TypeA, dns.TypeAAAA, dns.TypeTXT, dns.TypeMX, dns.TypeCNAME}

func soa(ttl uint32, serial uint32) dns.RR {
	return &dns.SOA{Hdr: dns.RR_Header{Name: "example.", Rrtype: dns.TypeSOA, Class: dns.ClassINET, Ttl: ttl},
		Ns: "ns.example.", Mbox: "h.example.", Serial: serial, Refresh: 7200, Retry: 600, Expire: 86400, Minttl: 60}
}

// genMsg: a response for (name, qt); shape: 0 NXDOMAIN, 1 NODATA, else answers.
func genMsg(r *hx.RNG, name string, qt uint16, ttl uint32, shape int, txtLen int) *dns.Msg {
	return genMsgPad(r, name, qt, ttl, shape, txtLen, false)
}

const padAlphabet = "ABCDEFGHIJKLMNOPQRSTUVWXYZabcdefghijklmnopqrstuvwxyz0123456789+/-_.,:!#$%&()*<=>?@[]^{|}~"

// genMsgPad: randomPad fills the padding records with random printable
// characters (hardly compressible) instead of a constant.
func genMsgPad(r *hx.RNG, name string, qt uint16, ttl uint32, shape int, txtLen int, randomPad bool) *dns.Msg {
	m := new(dns.Msg)
	m.SetQuestion(name, qt)
	m.Response = true
	m.RecursionAvailable = true
	h := func(t uint16) dns.RR_Header {
		return dns.RR_Header{Name: name, Rrtype: t, Class: dns.ClassINET, Ttl: ttl}
	}
	switch shape {
	case 0:
		m.Rcode = dns.RcodeNameError
		m.Ns = append(m.Ns, soa(ttl, uint32(r.Intn(4))))
	case 1:
		m.Ns = append(m.Ns, soa(ttl, uint32(r.Intn(4))))
	case 7:
		m.Rcode = dns.RcodeServerFailure
	default:
		k := r.Range(1, 3)
		for i := 0; i < k; i++ {
			switch qt {
			case dns.TypeA:
				m.Answer = append(m.Answer, &dns.A{Hdr: h(dns.TypeA), A: []byte{192, 0, 2, byte(r.Intn(4))}})
			case dns.TypeAAAA:
				ip := make([]byte, 16)
				ip[0], ip[1], ip[15] = 0x20, 0x01, byte(r.Intn(4))
				m.Answer = append(m.Answer, &dns.AAAA{Hdr: h(dns.TypeAAAA), AAAA: ip})
			case dns.TypeMX:
				m.Answer = append(m.Answer, &dns.MX{Hdr: h(dns.TypeMX), Preference: uint16(r.Intn(3)), Mx: "mx." + name})
			case dns.TypeCNAME:
				m.Answer = append(m.Answer, &dns.CNAME{Hdr: h(dns.TypeCNAME), Target: hx.Pick(r, qnames)})
			default:
				m.Answer = append(m.Answer, &dns.TXT{Hdr: h(dns.TypeTXT), Txt: []string{strings.Repeat("x", 1+r.Intn(8))}})
			}
		}
	}
	// padding TXT records in the additional section make big messages
	for txtLen > 0 {
		k := txtLen
		if k > 255 {
			k = 255
		}
		m.Extra = append(m.Extra, &dns.TXT{Hdr: dns.RR_Header{Name: ".", Rrtype: dns.TypeTXT, Class: dns.ClassINET, Ttl: ttl}, Txt: []string{padText(r, k, randomPad)}})
		txtLen -= k
	}
	return m
}

func padText(r *hx.RNG, k int, random bool) string {
	if !random {
		return strings.Repeat("p", k)
	}
	b := make([]byte, k)
	for i := 0; i < k; i += 8 {
		x := r.U64()
		for j := i; j < i+8 && j < k; j++ {
			b[j] = padAlphabet[x%uint64(len(padAlphabet))]
			x /= uint64(len(padAlphabet))
		}
	}
	return string(b)
}

// ---------- loading under a watchdog ----------

type loadObs struct {
	err   int
	en    int // -1 = not observable on this route
	crash int // 0 none, 1 panic, 2 hang, 3 allocation above the bound
	c2    *cache.Cache
}

// loadFile loads file into a fresh cache by the given route.
// lazy: the lazy_cache_ttl setting of the LOADING cache (must not influence what is loaded).
func loadFile(file []byte, via string, dir string, lazy int) loadObs {
	res := loadObs{en: -1}
	done := make(chan struct{})
	var ms0, ms1 runtime.MemStats
	runtime.ReadMemStats(&ms0)
	go func() {
		defer close(done)
		p := hx.Recover(func() {
			switch via {
			case "http":
				c2 := newCacheLazy(lazy)
				res.c2 = c2
				req := httptest.NewRequest(http.MethodPost, "/load_dump", bytes.NewReader(file))
				rec := httptest.NewRecorder()
				c2.Api().ServeHTTP(rec, req)
				switch rec.Code {
				case http.StatusOK:
					res.err = 0
				case http.StatusBadRequest:
					res.err = errClass(rec.Body.String(), false)
				default:
					res.err = 8
				}
			case "file":
				path := filepath.Join(dir, "dump.bin")
				if err := os.WriteFile(path, file, 0o600); err != nil {
					res.err = 97
					return
				}
				core, logs := observer.New(zap.ErrorLevel)
				c2 := cache.NewCache(&cache.Args{Size: 65536, DumpFile: path, DumpInterval: 1000000, LazyCacheTTL: lazy}, cache.Opts{Logger: zap.New(core)})
				res.c2 = c2
				res.err = 0
				for _, e := range logs.All() {
					if e.Message == "failed to load cache dump" {
						s, _ := e.ContextMap()["error"].(string)
						res.err = errClass(s, false)
					}
				}
			default:
				c2 := newCacheLazy(lazy)
				res.c2 = c2
				en, err := c2.VerifReadDump(bytes.NewReader(file))
				res.en = en
				if err != nil {
					res.err = errClass(err.Error(), false)
				}
			}
		})
		if p != nil {
			res.crash = 1
			res.err = 99
		}
	}()
	select {
	case <-done:
	case <-time.After(30 * time.Second):
		return loadObs{err: 98, en: -1, crash: 2}
	}
	runtime.ReadMemStats(&ms1)
	if res.crash == 0 && ms1.TotalAlloc-ms0.TotalAlloc > allocBound {
		res.crash = 3
	}
	return res
}

func enLit(en int) string {
	if en < 0 {
		return "None"
	}
	return hx.Some(hx.Ni(en))
}

func rangesOf(idx []int) string {
	sort.Ints(idx)
	var out []string
	for i := 0; i < len(idx); {
		j := i
		for j+1 < len(idx) && idx[j+1] == idx[j]+1 {
			j++
		}
		out = append(out, hx.Tuple(hx.Ni(idx[i]), hx.Ni(idx[j]+1)))
		i = j + 1
	}
	return hx.List(out)
}

// ---------- CRound ----------

type ritem struct {
	kid        int
	key        string
	resp       *dns.Msg
	mid, sz    int
	st, me, ce int64 // ms relative to base
}

type roundSpec struct {
	n          int
	sub        int64 // ns added to every time
	pExpiring  int   // percent of items that expire before the dump
	between    bool  // one item expires between dump and load
	pLazy      int   // percent with message expiry in the past
	via        string
	txtLen     func(i int) int // padding per item
	exactSizes []int           // when set: n = len, proto.Size of entry i is forced to exactSizes[i]
	// file route only: an earlier cache state of [pre] entries was dumped to the
	// same dump_file (Close) and then flushed (GET /flush) before this round's
	// items are stored. sameInst: dump, flush and the second dump happen on one
	// instance (Close called twice); otherwise the file is reloaded by a new
	// instance (restart) which is then flushed. cycles: extra restarts (load +
	// Close) of the flushed, still empty cache before the items are stored.
	pre      int
	sameInst bool
	cycles   int
	// lazy_cache_ttl (seconds, 0 = off) of the dumping and of the loading cache
	lazyDump, lazyLoad int
	// percent of items shaped like what saveRespToCache stores for NXDOMAIN (30 s),
	// SERVFAIL (5 s) and empty answers (<= 300 s): stored now, cache expiry =
	// message expiry = stored + that TTL, whatever the lazy setting is
	pNeg int
	// padding records hold random characters: the dump hardly compresses
	randPad bool
}

func msgIDs() (func(*dns.Msg) int, func(string) int) {
	tbl := map[string]int{}
	reg := func(m *dns.Msg) int {
		s := canon(m)
		if id, ok := tbl[s]; ok {
			return id
		}
		tbl[s] = len(tbl) + 1
		return len(tbl)
	}
	look := func(s string) int {
		if id, ok := tbl[s]; ok {
			return id
		}
		return 9999
	}
	return reg, look
}

// runRound repeats the round trip when a clock reading fell so close to an
// expiry that the outcome depends on which side the code's own time.Now() was.
func runRound(id string, mkRNG func() *hx.RNG, mkSpec func(r *hx.RNG) roundSpec) hx.Case {
	var c hx.Case
	for try := 0; try < 6; try++ {
		r := mkRNG()
		var ok bool
		c, ok = runRoundOnce(id, r, mkSpec(r))
		if ok {
			break
		}
	}
	return c
}

func runRoundOnce(id string, r *hx.RNG, sp roundSpec) (hx.Case, bool) {
	base := time.Unix(time.Now().Unix(), 0)
	off := func(ms int64) time.Time {
		return base.Add(time.Duration(ms)*time.Millisecond + time.Duration(sp.sub))
	}
	nowMs := func() int64 { return time.Since(base).Milliseconds() }
	reg, look := msgIDs()

	dir, _ := os.MkdirTemp(workRoot, "round")
	defer os.RemoveAll(dir)
	var c1 *cache.Cache
	path := filepath.Join(dir, "dump.bin")
	fileCache := func() *cache.Cache {
		return cache.NewCache(&cache.Args{Size: 65536, DumpFile: path, DumpInterval: 1000000, LazyCacheTTL: sp.lazyDump}, cache.Opts{})
	}
	flush := func(c *cache.Cache) {
		c.Api().ServeHTTP(httptest.NewRecorder(), httptest.NewRequest(http.MethodGet, "/flush", nil))
	}
	preLoaded := -1
	if sp.via == "file" {
		c1 = fileCache()
		if sp.pre > 0 {
			now := time.Now()
			for i := 0; i < sp.pre; i++ {
				m := genMsg(r, hx.Pick(r, qnames), hx.Pick(r, qtypes), uint32(r.Range(100, 900)), r.Intn(6), 0)
				c1.VerifStore(cache.VerifItem{Key: "old" + strconv.Itoa(i), Resp: m, Stored: now.Add(-time.Duration(r.Intn(20000)) * time.Millisecond),
					MsgExp: now.Add(time.Duration(r.Range(1000, 2000)) * time.Second), CacheExp: now.Add(time.Duration(r.Range(2000, 3000)) * time.Second)})
			}
			c1.Close() // the earlier state is now on disk
			if !sp.sameInst {
				c1 = fileCache() // restart: loads the earlier state
			}
			preLoaded = c1.VerifLen()
			flush(c1)
			for k := 0; k < sp.cycles; k++ {
				c1.Close() // dump of the empty cache
				c1 = fileCache()
			}
		}
	} else {
		c1 = newCacheLazy(sp.lazyDump)
	}

	n0 := nowMs()
	var items []*ritem
	var waitUntil, betweenUntil time.Time
	n := sp.n
	if sp.exactSizes != nil {
		n = len(sp.exactSizes)
	}
	for i := 0; i < n; i++ {
		it := &ritem{kid: i}
		name := hx.Pick(r, qnames)
		qt := hx.Pick(r, qtypes)
		ttl := uint32(r.Range(100, 3600))
		pad := 0
		if sp.txtLen != nil {
			pad = sp.txtLen(i)
		}
		it.resp = genMsgPad(r, name, qt, ttl, r.Intn(6), pad, sp.randPad)
		if r.Chance(1, 3) {
			q := new(dns.Msg)
			q.SetQuestion(name, qt)
			q.Id = uint16(i)
			it.key = cache.VerifGetMsgKey(q) + strconv.Itoa(i)
		} else {
			it.key = "k" + strconv.Itoa(i)
		}
		// stored: 0..50 s ago, with whole-second and last-millisecond boundaries
		switch r.Intn(5) {
		case 0:
			it.st = (n0/1000 - int64(r.Intn(50))) * 1000
		case 1:
			it.st = (n0/1000-int64(r.Intn(50)))*1000 - 1
		default:
			it.st = n0 - int64(r.Intn(50000))
		}
		it.me = it.st + int64(ttl)*1000
		if it.me < n0+100000 {
			it.me = n0 + 100000 + int64(r.Intn(1000))
		}
		if r.Intn(100) < sp.pLazy {
			it.me = n0 - int64(r.Range(1, 5000))
		}
		switch r.Intn(4) {
		case 0:
			it.ce = (n0/1000 + int64(r.Range(100, 4000))) * 1000
		case 1:
			it.ce = (n0/1000+int64(r.Range(100, 4000)))*1000 - 1
		default:
			it.ce = n0 + int64(r.Range(100000, 4000000))
		}
		if r.Intn(100) < sp.pExpiring {
			it.ce = nowMs() + 60
			if t := off(it.ce).Add(30 * time.Millisecond); t.After(waitUntil) {
				waitUntil = t
			}
		} else if sp.between && i == 0 {
			it.ce = nowMs() + 1100
			betweenUntil = off(it.ce).Add(50 * time.Millisecond)
		}
		if r.Intn(100) < sp.pNeg && !(sp.between && i == 0) && it.ce > n0+90000 {
			it.st = nowMs()
			switch r.Intn(3) {
			case 0:
				it.resp = genMsg(r, name, qt, ttl, 0, 0) // NXDOMAIN
				it.me = it.st + 30000
			case 1:
				it.resp = genMsg(r, name, qt, ttl, 7, 0) // SERVFAIL
				it.me = it.st + 5000
			default:
				it.resp = genMsg(r, name, qt, ttl, 1, 0) // empty answer
				it.me = it.st + int64(r.Range(100, 300))*1000
			}
			it.ce = it.me
		} else if sp.lazyDump > 0 && it.ce > n0+90000 && r.Bool() {
			// a positive answer as a lazy cache stores it: cache expiry = stored + lazy ttl
			it.ce = it.st + int64(sp.lazyDump)*1000
		}
		if sp.exactSizes != nil {
			// tune the padding to just below the wanted proto.Size, then the key length to hit it exactly
			it.key = "k" + strconv.Itoa(i)
			for try := 0; try < 8; try++ {
				wire, _ := it.resp.Pack()
				sz := entrySize(it.key, wire, off(it.ce).Unix(), off(it.me).Unix(), off(it.st).Unix())
				if d := sp.exactSizes[i] - sz; d >= 20 && d <= 100 {
					it.key += strings.Repeat("x", d)
					break
				}
				pad += sp.exactSizes[i] - 60 - sz
				if pad < 0 {
					pad = 0
				}
				it.resp = genMsg(r, name, qt, ttl, 2, pad)
			}
		}
		wire, err := it.resp.Pack()
		if err != nil {
			panic(err)
		}
		it.sz = entrySize(it.key, wire, off(it.ce).Unix(), off(it.me).Unix(), off(it.st).Unix())
		it.mid = reg(it.resp)
		c1.VerifStore(cache.VerifItem{Key: it.key, Resp: it.resp, Stored: off(it.st), MsgExp: off(it.me), CacheExp: off(it.ce)})
		items = append(items, it)
	}
	for time.Now().Before(waitUntil) {
		time.Sleep(5 * time.Millisecond)
	}

	// ---- dump
	nd := nowMs()
	var file []byte
	switch sp.via {
	case "http":
		rec := httptest.NewRecorder()
		c1.Api().ServeHTTP(rec, httptest.NewRequest(http.MethodGet, "/dump", nil))
		file = rec.Body.Bytes()
	case "file":
		c1.Close()
		file, _ = os.ReadFile(path)
	default:
		var buf bytes.Buffer
		c1.VerifWriteDump(&buf)
		file = buf.Bytes()
	}
	nd1 := nowMs()
	if sp.via != "file" {
		c1.Close()
	}
	_, name, plain, _ := gunzipObserve(file)
	blocks, blens, _ := parsePlain(plain)

	byKey := map[string]*ritem{}
	for _, it := range items {
		byKey[it.key] = it
	}
	pos := map[string]int{}
	var oblocks []string
	var ordered []*ritem
	for bi, b := range blocks {
		var es []string
		for _, e := range b {
			kid, mid := 99999, 9999
			if it, ok := byKey[string(e.GetKey())]; ok {
				kid = it.kid
				if _, dup := pos[it.key]; !dup {
					pos[it.key] = len(pos)
					ordered = append(ordered, it)
				}
			}
			m := new(dns.Msg)
			if m.Unpack(e.GetMsg()) == nil {
				mid = look(canon(m))
			}
			es = append(es, hx.App("OE", hx.Ni(kid), hx.Ni(mid),
				hx.Z(e.GetCacheExpirationTime()-base.Unix()), hx.Z(e.GetMsgExpirationTime()-base.Unix()), hx.Z(e.GetMsgStoredTime()-base.Unix())))
		}
		oblocks = append(oblocks, hx.Tuple(hx.Ni(blens[bi]), hx.List(es)))
	}
	for _, it := range items {
		if _, ok := pos[it.key]; !ok {
			ordered = append(ordered, it)
		}
	}

	// ---- load
	for time.Now().Before(betweenUntil) {
		time.Sleep(5 * time.Millisecond)
	}
	nl := nowMs()
	lo := loadFile(file, sp.via, dir, sp.lazyLoad)
	nl1 := nowMs()
	unambiguous := true
	for _, it := range items {
		if it.ce >= nd-2 && it.ce <= nd1+2 {
			unambiguous = false // expiry inside the dump's clock window
		}
		if fl := (it.ce*1000000 + sp.sub) / 1000000000 * 1000; it.ce >= 0 && fl >= nl-2 && fl <= nl1+2 {
			unambiguous = false // expiry (to the second) inside the load's clock window
		}
	}
	var loaded []string
	if lo.c2 != nil {
		its := lo.c2.VerifItems()
		sort.SliceStable(its, func(a, b int) bool {
			pa, oka := pos[its[a].Key]
			pb, okb := pos[its[b].Key]
			if !oka {
				pa = 1 << 30
			}
			if !okb {
				pb = 1 << 30
			}
			return pa < pb
		})
		for _, x := range its {
			kid := 99999
			if it, ok := byKey[x.Key]; ok {
				kid = it.kid
			}
			loaded = append(loaded, hx.App("LI", hx.Ni(kid), hx.Ni(look(canon(x.Resp))),
				hx.Z(x.Stored.UnixNano()-base.UnixNano()), hx.Z(x.MsgExp.UnixNano()-base.UnixNano()), hx.Z(x.CacheExp.UnixNano()-base.UnixNano())))
		}
		lo.c2.Close()
	}
	errc := lo.err
	if lo.crash != 0 {
		errc = 99
	}
	var ris []string
	for _, it := range ordered {
		ris = append(ris, hx.App("RI", hx.Ni(it.kid), hx.Ni(it.mid), hx.Ni(it.sz), hx.Z(it.st), hx.Z(it.me), hx.Z(it.ce)))
	}
	return hx.Case{
		ID: id,
		Coq: hx.App("CRound", hx.Z(sp.sub), hx.List(ris), hx.Z(nd), hx.Z(nl), nameLit(name),
			hx.List(oblocks), hx.Ni(errc), enLit(lo.en), hx.List(loaded)),
		Desc: map[string]any{"kind": "round", "items": len(items), "blocks": len(blocks), "block_bytes": blens,
			"loaded": len(loaded), "err": errc, "via": sp.via, "file_bytes": len(file),
			"lazy_cache_ttl_dumper": sp.lazyDump, "lazy_cache_ttl_loader": sp.lazyLoad, "earlier_entries_flushed": sp.pre, "earlier_entries_seen_before_flush": preLoaded, "same_instance": sp.sameInst, "empty_restarts": sp.cycles},
		FKey: "round",
	}, unambiguous
}

// ---------- CLoad ----------

type ent struct {
	key        string
	canon      string // "" = message does not unpack
	ce, me, st int64
	live       bool
}

type loadInput struct {
	name     string
	segs     []string // literals
	plain    []byte   // intended plaintext
	ents     []ent    // described entries by index
	file     []byte   // intact compressed file ("" = compress plain)
	total    int
	segCount int
}

type run struct {
	n int
	k string // ELive | EExpired | EBadMsg
}

// mkBlock marshals a block of described entries, numbering them from *j.
func mkBlock(in *loadInput, runs []run, nowS int64) []byte {
	b := new(cache.CacheDumpBlock)
	var lit []string
	for _, rn := range runs {
		lit = append(lit, hx.Tuple(hx.Ni(rn.n), rn.k))
		for i := 0; i < rn.n; i++ {
			j := len(in.ents)
			e := ent{key: "e" + strconv.Itoa(j), ce: nowS + 100000, me: nowS + 100000, st: nowS - 10, live: rn.k == "ELive"}
			var wire []byte
			if rn.k == "EBadMsg" {
				wire = []byte{1, 2, 3}
			} else {
				m := new(dns.Msg)
				m.SetQuestion("a.example.", dns.TypeA)
				m.Response = true
				m.Answer = append(m.Answer, &dns.A{Hdr: dns.RR_Header{Name: "a.example.", Rrtype: dns.TypeA, Class: 1, Ttl: 300}, A: []byte{10, byte(j >> 16), byte(j >> 8), byte(j)}})
				wire, _ = m.Pack()
				e.canon = canon(m)
			}
			if rn.k == "EExpired" {
				e.ce = nowS - 1000
			}
			in.ents = append(in.ents, e)
			b.Entries = append(b.Entries, &cache.CachedEntry{Key: []byte(e.key), Msg: wire, CacheExpirationTime: e.ce, MsgExpirationTime: e.me, MsgStoredTime: e.st})
		}
	}
	p, _ := proto.Marshal(b)
	in.segs = append(in.segs, hx.App("PBlk", hx.Ni(len(p)), hx.List(lit)))
	return p
}

func (in *loadInput) addPayload(p []byte) {
	var h [8]byte
	binary.BigEndian.PutUint64(h[:], uint64(len(p)))
	in.plain = append(in.plain, h[:]...)
	in.plain = append(in.plain, p...)
}

func (in *loadInput) blk(nowS int64, runs ...run) { in.addPayload(mkBlock(in, runs, nowS)) }
func (in *loadInput) bad(n int) {
	in.segs = append(in.segs, hx.App("PBad", hx.Ni(n)))
	in.addPayload(bytes.Repeat([]byte{0xFF}, n))
}
func (in *loadInput) hdr(u uint64) {
	in.segs = append(in.segs, hx.App("PHdr", hx.N(u)))
	var h [8]byte
	binary.BigEndian.PutUint64(h[:], u)
	in.plain = append(in.plain, h[:]...)
}
func (in *loadInput) raw(n int) {
	in.segs = append(in.segs, hx.App("PRaw", hx.Ni(n)))
	in.plain = append(in.plain, bytes.Repeat([]byte{0xFF}, n)...)
}

// fromRealDump describes a dump written by the real writeDump.
func fromRealDump(file []byte) *loadInput {
	_, name, plain, _ := gunzipObserve(file)
	blocks, blens, _ := parsePlain(plain)
	in := &loadInput{name: name, plain: plain, file: file}
	for bi, b := range blocks {
		for _, e := range b {
			m := new(dns.Msg)
			c := ""
			if m.Unpack(e.GetMsg()) == nil {
				c = canon(m)
			}
			in.ents = append(in.ents, ent{key: string(e.GetKey()), canon: c, ce: e.GetCacheExpirationTime(), me: e.GetMsgExpirationTime(), st: e.GetMsgStoredTime(), live: true})
		}
		in.segs = append(in.segs, hx.App("PBlk", hx.Ni(blens[bi]), hx.List([]string{hx.Tuple(hx.Ni(len(b)), "ELive")})))
	}
	return in
}

// realDump: n small live entries through the real writer.
func realDump(r *hx.RNG, n int) []byte {
	c1 := newCache()
	defer c1.Close()
	now := time.Now()
	for i := 0; i < n; i++ {
		m := genMsg(r, hx.Pick(r, qnames), hx.Pick(r, qtypes), uint32(r.Range(100, 900)), r.Intn(6), 0)
		c1.VerifStore(cache.VerifItem{Key: "r" + strconv.Itoa(i), Resp: m, Stored: now.Add(-time.Duration(r.Intn(50000)) * time.Millisecond),
			MsgExp: now.Add(time.Duration(r.Range(100, 900)) * time.Second), CacheExp: now.Add(time.Duration(r.Range(1000, 2000)) * time.Second)})
	}
	var buf bytes.Buffer
	c1.VerifWriteDump(&buf)
	return buf.Bytes()
}

func crashLoadLit(in *loadInput) string {
	return hx.App("CLoad", nameLit(in.name), hx.List(in.segs), "GErr", "false", "98", "None", "[]", "false", "4")
}

// runLoad: cut mode "none" | "plain" (cut the plaintext at k, then compress) |
// "gz" (cut the compressed file at k).
// lazyOf: the loading cache's lazy_cache_ttl for a load case, a function of its id.
func lazyOf(id string) int {
	h := 0
	for i := 0; i < len(id); i++ {
		h = h*31 + int(id[i])
	}
	if h < 0 {
		h = -h
	}
	return []int{0, 0, 3600, 0, 86400, 30}[h%6]
}

func runLoad(id string, in *loadInput, mode string, k int, via string) hx.Case {
	lazy := lazyOf(id)
	var file []byte
	switch mode {
	case "plain":
		if k > len(in.plain) {
			k = len(in.plain)
		}
		file = gzipBytes(in.name, in.plain[:k])
	case "gz":
		full := in.file
		if full == nil {
			full = gzipBytes(in.name, in.plain)
		}
		if k > len(full) {
			k = len(full)
		}
		file = full[:k]
	default:
		file = in.file
		if file == nil {
			file = gzipBytes(in.name, in.plain)
		}
	}
	open, gname, got, clean := gunzipObserve(file)
	g := "GErr"
	pfx := true
	name := in.name
	if open {
		g = hx.App("GOpen", hx.Ni(len(got)), hx.Bool(clean))
		pfx = len(got) <= len(in.plain) && bytes.Equal(got, in.plain[:len(got)])
		name = gname
	}
	dir, _ := os.MkdirTemp(workRoot, "load")
	defer os.RemoveAll(dir)
	lo := loadFile(file, via, dir, lazy)

	idxOf := map[string]int{}
	for j, e := range in.ents {
		idxOf[e.key] = j
	}
	contentOK := true
	var idx []int
	if lo.c2 != nil {
		for _, x := range lo.c2.VerifItems() {
			j, ok := idxOf[x.Key]
			if !ok {
				contentOK = false
				idx = append(idx, 1000000+len(idx))
				continue
			}
			e := in.ents[j]
			if canon(x.Resp) != e.canon || !x.Stored.Equal(time.Unix(e.st, 0)) || !x.MsgExp.Equal(time.Unix(e.me, 0)) || !x.CacheExp.Equal(time.Unix(e.ce, 0)) {
				contentOK = false
			}
			idx = append(idx, j)
		}
		lo.c2.Close()
	}
	return hx.Case{
		ID: id,
		Coq: hx.App("CLoad", nameLit(name), hx.List(in.segs), g, hx.Bool(pfx), hx.Ni(lo.err), enLit(lo.en),
			rangesOf(idx), hx.Bool(contentOK), hx.Ni(lo.crash)),
		Desc: map[string]any{"kind": "load", "mode": mode, "cut": k, "file_bytes": len(file), "plain_bytes": len(in.plain),
			"segs": len(in.segs), "entries": len(in.ents), "loaded": len(idx), "err": lo.err, "via": via, "crash": lo.crash, "lazy_cache_ttl_loader": lazy},
		FKey: "load:" + mode,
	}
}

// ---------- CFuzz ----------

func runFuzz(id string, file []byte, what string) hx.Case {
	open, name, _, clean := gunzipObserve(file)
	g := "FErr"
	if open {
		if name != cache.VerifDumpHeader {
			g = "FName"
		} else {
			g = hx.App("FOpen", hx.Bool(clean))
		}
	}
	lo := loadFile(file, "direct", "", 0)
	if lo.c2 != nil {
		lo.c2.Close()
	}
	return hx.Case{
		ID:   id,
		Coq:  hx.App("CFuzz", g, hx.Ni(lo.err), hx.Ni(lo.crash)),
		Desc: map[string]any{"kind": "fuzz", "mutation": what, "file_bytes": len(file), "gz": g, "err": lo.err, "crash": lo.crash, "sum": hx.Sum(file)},
		FKey: "fuzz",
	}
}

func mutate(r *hx.RNG, base []byte, hdrLen int) ([]byte, string) {
	f := append([]byte(nil), base...)
	switch r.Intn(10) {
	case 0:
		for i := r.Range(1, 3); i > 0; i-- {
			f[r.Intn(len(f))] ^= 1 << uint(r.Intn(8))
		}
		return f, "bitflips"
	case 1:
		f[r.Intn(30)] ^= 1 << uint(r.Intn(8))
		return f, "header bitflip"
	case 2:
		n := r.Intn(200)
		f = make([]byte, n)
		for i := range f {
			f[i] = byte(r.U64())
		}
		return f, "random file"
	case 3:
		f = f[:hdrLen]
		for i := r.Intn(300); i > 0; i-- {
			f = append(f, byte(r.U64()))
		}
		return f, "gzip header + random deflate"
	case 4:
		for i := r.Range(1, 40); i > 0; i-- {
			f = append(f, byte(r.U64()))
		}
		return f, "garbage appended"
	case 5:
		a := r.Intn(len(f))
		for i := a; i < len(f) && i < a+r.Range(1, 40); i++ {
			f[i] = byte(r.U64())
		}
		return f, "span overwritten"
	case 6:
		// a correct gzip file around a random plaintext with small-biased lengths
		var p []byte
		for i := r.Range(1, 6); i > 0; i-- {
			var h [8]byte
			switch r.Intn(4) {
			case 0:
				binary.BigEndian.PutUint64(h[:], r.U64())
			case 1:
				binary.BigEndian.PutUint64(h[:], uint64(limit)+uint64(r.Intn(3))-1)
			default:
				binary.BigEndian.PutUint64(h[:], uint64(r.Intn(40)))
			}
			p = append(p, h[:r.Range(1, 8)]...)
			for k := r.Intn(50); k > 0; k-- {
				p = append(p, byte(r.U64()))
			}
		}
		return gzipBytes(cache.VerifDumpHeader, p), "gzip of random plaintext"
	case 7:
		_, _, plain, _ := gunzipObserve(base)
		return gzipBytes(hx.Pick(r, []string{"", "mosdns_cache_v1", "mosdns_cache_v2 ", "mosdns_cache_v3", "x"}), plain), "other header name"
	case 8:
		f = f[:r.Intn(len(f))]
		if len(f) > 0 {
			f[r.Intn(len(f))] ^= 1 << uint(r.Intn(8))
		}
		return f, "truncated + bitflip"
	default:
		// the same dump twice (gzip multistream)
		return append(f, base...), "two concatenated dumps"
	}
}

// ---------- CServe ----------

type fixedResp struct{ m *dns.Msg }

func (f fixedResp) Exec(ctx context.Context, qCtx *query_context.Context) error {
	qCtx.SetResponse(f.m.Copy())
	return nil
}

func ask(c *cache.Cache, q *dns.Msg, up *dns.Msg) (r *dns.Msg, before, after time.Time) {
	var chain []*sequence.ChainNode
	if up != nil {
		chain = []*sequence.ChainNode{{E: fixedResp{up}}}
	}
	qCtx := query_context.NewContext(q.Copy())
	w := sequence.NewChainWalker(chain, nil)
	before = time.Now()
	c.Exec(context.Background(), qCtx, w)
	after = time.Now()
	return qCtx.R(), before, after
}

func firstTTL(m *dns.Msg) (uint32, bool) {
	for _, sec := range [][]dns.RR{m.Answer, m.Ns, m.Extra} {
		for _, rr := range sec {
			if rr.Header().Rrtype != dns.TypeOPT {
				return rr.Header().Ttl, true
			}
		}
	}
	return 0, false
}

func uniformTTL(m *dns.Msg) bool {
	t0, ok := firstTTL(m)
	if !ok {
		return false
	}
	for _, sec := range [][]dns.RR{m.Answer, m.Ns, m.Extra} {
		for _, rr := range sec {
			if rr.Header().Rrtype != dns.TypeOPT && rr.Header().Ttl != t0 {
				return false
			}
		}
	}
	return true
}

func runServe(id string, r *hx.RNG, k int) []hx.Case {
	base := time.Unix(time.Now().Unix(), 0)
	rel := func(t time.Time) int64 { return t.UnixNano() - base.UnixNano() }
	lazy := hx.Pick(r, []int{0, 3600, 600}) // lazy_cache_ttl of both caches
	c1 := newCacheLazy(lazy)
	defer c1.Close()
	type qa struct {
		q   *dns.Msg
		ttl uint32
	}
	var qs []qa
	seen := map[string]bool{}
	for len(qs) < k {
		name := fmt.Sprintf("n%d.%s", r.Intn(1000), hx.Pick(r, qnames))
		qt := hx.Pick(r, qtypes)
		q := new(dns.Msg)
		q.SetQuestion(name, qt)
		q.Id = uint16(r.Intn(65536))
		key := cache.VerifGetMsgKey(q)
		if seen[key] {
			continue
		}
		seen[key] = true
		ttl := uint32(r.Range(100, 3000))
		shape := r.Intn(6)
		if shape == 0 {
			shape = 1 // NXDOMAIN is cached for a fixed 30 s whatever its TTL: out of the TTL >= 100 regime
		}
		padLen := 0
		if len(qs) == 1 {
			padLen = r.Range(62000, 110000) // one large answer per cache
		}
		resp := genMsg(r, name, qt, ttl, shape, padLen)
		if r.Bool() {
			// through Exec with an upstream (stored now)
			ask(c1, q, resp)
		} else {
			// stored some time ago
			now := time.Now()
			st := now.Add(-time.Duration(r.Intn(50000))*time.Millisecond - time.Duration(r.Intn(1000000)))
			if r.Chance(1, 4) {
				st = time.Unix(now.Unix()-int64(r.Intn(50)), int64(hx.Pick(r, []int{0, 1, 999999999, 500000000})))
				if st.After(now) {
					st = st.Add(-time.Second)
				}
			}
			c1.VerifStore(cache.VerifItem{Key: key, Resp: resp, Stored: st, MsgExp: st.Add(time.Duration(ttl) * time.Second), CacheExp: st.Add(time.Duration(ttl) * time.Second)})
		}
		qs = append(qs, qa{q, ttl})
	}
	items := map[string]cache.VerifItem{}
	for _, it := range c1.VerifItems() {
		items[it.Key] = it
	}
	nd := rel(time.Now())
	rec := httptest.NewRecorder()
	c1.Api().ServeHTTP(rec, httptest.NewRequest(http.MethodGet, "/dump", nil))
	file := rec.Body.Bytes()
	c2 := newCacheLazy(lazy)
	defer c2.Close()
	nl := rel(time.Now())
	rec2 := httptest.NewRecorder()
	c2.Api().ServeHTTP(rec2, httptest.NewRequest(http.MethodPost, "/load_dump", bytes.NewReader(file)))

	var out []hx.Case
	for i, x := range qs {
		it, ok := items[cache.VerifGetMsgKey(x.q)]
		if !ok {
			continue
		}
		r1, b1, a1 := ask(c1, x.q, nil)
		r2, b2, a2 := ask(c2, x.q, nil)
		lit := func(m *dns.Msg) string {
			if m == nil {
				return "None"
			}
			t, ok := firstTTL(m)
			if !ok || !uniformTTL(m) {
				return hx.Some("4000000000")
			}
			return hx.Some(hx.N(uint64(t)))
		}
		same := r1 != nil && r2 != nil && canonNoTTL(r1) == canonNoTTL(r2) && canonNoTTL(r1) == canonNoTTL(it.Resp) &&
			r2.Id == x.q.Id && len(r2.Question) == 1 && r2.Question[0] == x.q.Question[0] && rec2.Code == http.StatusOK
		out = append(out, hx.Case{
			ID: fmt.Sprintf("%s:q%d", id, i),
			Coq: hx.App("CServe", hx.N(uint64(x.ttl)), hx.Z(rel(it.Stored)), hx.Z(rel(it.MsgExp)), hx.Z(rel(it.CacheExp)),
				hx.Z(nd), hx.Z(nl), hx.Tuple(hx.Z(rel(b1)), hx.Z(rel(a1))), hx.Tuple(hx.Z(rel(b2)), hx.Z(rel(a2))),
				lit(r1), lit(r2), hx.Bool(same)),
			Desc: map[string]any{"kind": "serve", "question": x.q.Question[0].String(), "ttl": x.ttl, "same_answer": same},
			FKey: "serve",
		})
	}
	return out
}

// ---------- task list ----------

type task struct {
	id    string
	kind  string
	crash string // literal emitted by the supervisor when the worker dies in this task ("" = must not happen)
	run   func() []hx.Case
}

func one(f func() hx.Case) func() []hx.Case { return func() []hx.Case { return []hx.Case{f()} } }

func buildTasks(o *hx.Opts) []task {
	quick := o.Tier != "thorough"
	var ts []task
	add := func(t task) { ts = append(ts, t) }
	nowS := time.Now().Unix()

	// ----- round trips: catalogue
	type rc struct {
		name string
		sp   roundSpec
	}
	pad := func(n int) func(int) int { return func(int) int { return n } }
	largeAt := func(k, n int) func(int) int {
		return func(i int) int {
			if i == k {
				return n
			}
			return 0
		}
	}
	cat := []rc{
		{"empty", roundSpec{n: 0}},
		{"one", roundSpec{n: 1}},
		{"two", roundSpec{n: 2, sub: 1}},
		{"n127", roundSpec{n: 127, sub: 999999}},
		{"n128", roundSpec{n: 128}},
		{"n129", roundSpec{n: 129, pLazy: 20}},
		{"n256", roundSpec{n: 256, sub: 999999}},
		{"n257", roundSpec{n: 257, pExpiring: 10}},
		{"all_expired", roundSpec{n: 5, pExpiring: 100}},
		{"expiring", roundSpec{n: 40, pExpiring: 40, pLazy: 30, sub: 500000}},
		{"between", roundSpec{n: 6, between: true}},
		{"between_http", roundSpec{n: 3, between: true, via: "http"}},
		{"http", roundSpec{n: 150, via: "http", pLazy: 10}},
		{"file", roundSpec{n: 140, via: "file", pExpiring: 5}},
		{"file_empty", roundSpec{n: 0, via: "file"}},
		// the "0 entries" cache through the real callers with an earlier dump on disk:
		// dump -> (restart) -> /flush -> Close (dump of the empty cache) -> restart must load nothing
		{"file_flush_empty", roundSpec{n: 0, via: "file", pre: 10}},
		{"file_flush_empty_1", roundSpec{n: 0, via: "file", pre: 1}},
		{"file_flush_empty_blocks", roundSpec{n: 0, via: "file", pre: 200}},
		{"file_flush_empty_same_instance", roundSpec{n: 0, via: "file", pre: 12, sameInst: true}},
		{"file_flush_empty_restarts", roundSpec{n: 0, via: "file", pre: 7, cycles: 2}},
		{"file_flush_all_expired", roundSpec{n: 4, pExpiring: 100, via: "file", pre: 9}},
		{"file_flush_then_items", roundSpec{n: 5, via: "file", pre: 10}},
		{"file_flush_then_items_same_instance", roundSpec{n: 3, via: "file", pre: 10, sameInst: true, cycles: 1}},
		// lazy_cache_ttl of the dumping / loading cache: off/on, on/on, on/off, different values; negative and
		// empty answers keep their own (short) cache expiry; every entry must come back with the DUMPED three times
		{"lazy_off_on", roundSpec{n: 30, pNeg: 40, lazyDump: 0, lazyLoad: 3600}},
		{"lazy_on_on", roundSpec{n: 30, pNeg: 40, lazyDump: 3600, lazyLoad: 3600, pLazy: 30}},
		{"lazy_on_on_negative_only", roundSpec{n: 12, pNeg: 100, lazyDump: 3600, lazyLoad: 3600}},
		{"lazy_on_on_positive_only", roundSpec{n: 12, lazyDump: 3600, lazyLoad: 3600}},
		{"lazy_on_off", roundSpec{n: 30, pNeg: 40, lazyDump: 3600, lazyLoad: 0, pLazy: 30}},
		{"lazy_different", roundSpec{n: 30, pNeg: 30, lazyDump: 600, lazyLoad: 86400, pLazy: 20}},
		{"lazy_shorter", roundSpec{n: 30, pNeg: 30, lazyDump: 86400, lazyLoad: 60, pLazy: 20}},
		{"lazy_on_on_http", roundSpec{n: 20, pNeg: 50, lazyDump: 7200, lazyLoad: 7200, via: "http"}},
		{"lazy_on_on_file", roundSpec{n: 20, pNeg: 50, lazyDump: 7200, lazyLoad: 7200, via: "file", pExpiring: 10}},
		{"lazy_off_on_file", roundSpec{n: 150, pNeg: 20, lazyLoad: 1800, via: "file"}},
		{"lazy_on_on_between", roundSpec{n: 6, between: true, pNeg: 50, lazyDump: 3600, lazyLoad: 3600}},
		// dumps whose COMPRESSED size exceeds 1 MiB (random, hardly compressible answers; several blocks):
		// GET /dump -> POST /load_dump must bring every entry back with status 200, like the file route does
		{"bigfile_http", roundSpec{n: 36, txtLen: pad(50000), randPad: true, via: "http"}},
		{"bigfile_http_many", roundSpec{n: 330, txtLen: pad(5000), randPad: true, via: "http", lazyLoad: 3600}},
		{"bigfile_file", roundSpec{n: 36, txtLen: pad(50000), randPad: true, via: "file"}},
		// single large answers (entries of 40, 60, 70, 100 KiB and more) among ordinary ones
		{"large_40k", roundSpec{n: 9, txtLen: largeAt(4, 40000)}},
		{"large_60k", roundSpec{n: 9, txtLen: largeAt(0, 59000)}},
		{"large_70k", roundSpec{n: 9, txtLen: largeAt(8, 68000)}},
		{"large_100k", roundSpec{n: 21, txtLen: largeAt(10, 98000), via: "http"}},
		{"large_100k_file", roundSpec{n: 21, txtLen: largeAt(3, 98000), via: "file"}},
		{"large_alone", roundSpec{n: 1, txtLen: pad(80000)}},
		{"large_several", roundSpec{n: 140, txtLen: func(i int) int { return map[int]int{5: 40000, 50: 66000, 90: 70000, 139: 200000}[i] }}},
		{"large_300k", roundSpec{n: 6, txtLen: largeAt(2, 300000)}},
		// F11: 128 entries of ~10 KB marshal to more than the loader's limit in one block
		{"oversize_block", roundSpec{n: 128, txtLen: pad(10000)}},
		{"big_entries", roundSpec{n: 45, txtLen: func(i int) int { return 30000 + 700*i }}},
		// the writer's size bound at exactly the limit, one below and one above
		{"size_eq", roundSpec{exactSizes: []int{limit/2 - 16, limit/2 - 16}}},
		{"size_lt", roundSpec{exactSizes: []int{limit/2 - 16, limit/2 - 17}}},
		{"size_gt", roundSpec{exactSizes: []int{limit/2 - 16, limit/2 - 15}}},
	}
	for _, c := range cat {
		c := c
		id := "cat:round:" + c.name
		add(task{id: id, kind: "round", run: one(func() hx.Case {
			return runRound(id, func() *hx.RNG { return hx.NewRNG(o.Seed, id) }, func(*hx.RNG) roundSpec { return c.sp })
		})})
	}
	nr := 16
	if !quick {
		nr = 300
	}
	for i := 0; i < nr; i++ {
		id := fmt.Sprintf("round:%d", i)
		add(task{id: id, kind: "round", run: one(func() hx.Case {
			return runRound(id, func() *hx.RNG { return hx.NewRNG(o.Seed, id) }, func(r *hx.RNG) roundSpec {
				sp := roundSpec{n: r.Intn(300), sub: int64(hx.Pick(r, []int{0, 0, 1, 999999, r.Intn(1000000)})), pLazy: hx.Pick(r, []int{0, 10, 50})}
				if r.Chance(1, 3) {
					sp.n = r.Intn(12)
				}
				if r.Chance(1, 4) {
					sp.pExpiring = r.Range(5, 60)
				}
				sp.via = hx.Pick(r, []string{"", "", "", "http", "file"})
				if r.Chance(1, 8) {
					sp.n = r.Range(3, 60)
					sp.txtLen = func(int) int { return r.Range(0, 60000) }
				} else if r.Chance(1, 3) {
					// one or two large answers among ordinary ones
					sp.n = r.Range(1, 40)
					a, b := r.Intn(sp.n), r.Intn(sp.n)
					la, lb := r.Range(30000, 130000), r.Range(60000, 75000)
					sp.txtLen = func(i int) int {
						switch i {
						case a:
							return la
						case b:
							return lb
						}
						return 0
					}
				}
				lz := []int{30, 300, 3600, 86400}
				switch r.Intn(7) {
				case 0, 1:
				case 2, 3:
					sp.lazyDump = hx.Pick(r, lz)
					sp.lazyLoad = sp.lazyDump
				case 4:
					sp.lazyLoad = hx.Pick(r, lz)
				case 5:
					sp.lazyDump = hx.Pick(r, lz)
				default:
					sp.lazyDump, sp.lazyLoad = hx.Pick(r, lz), hx.Pick(r, lz)
				}
				sp.pNeg = hx.Pick(r, []int{0, 20, 60})
				if sp.via == "file" && r.Chance(2, 3) {
					sp.pre = r.Range(1, 40)
					sp.sameInst = r.Bool()
					sp.cycles = r.Intn(3)
					if r.Chance(1, 2) {
						sp.n = 0
					}
				}
				return sp
			})
		})})
	}

	// ----- loads of described plaintexts: catalogue
	vias := []string{"direct", "direct", "http", "file", "direct"}
	hdrName := cache.VerifDumpHeader
	type lc struct {
		name string
		mk   func(in *loadInput)
	}
	L, E, B := "ELive", "EExpired", "EBadMsg"
	lcat := []lc{
		{"empty", func(in *loadInput) {}},
		{"one_block", func(in *loadInput) { in.blk(nowS, run{3, L}) }},
		{"three_blocks", func(in *loadInput) { in.blk(nowS, run{2, L}); in.blk(nowS, run{1, L}); in.blk(nowS, run{4, L}) }},
		{"empty_block_between", func(in *loadInput) { in.blk(nowS, run{2, L}); in.blk(nowS); in.blk(nowS, run{1, L}) }},
		{"only_empty_block", func(in *loadInput) { in.blk(nowS) }},
		{"expired_mixed", func(in *loadInput) { in.blk(nowS, run{2, L}, run{2, E}, run{1, L}); in.blk(nowS, run{3, E}) }},
		{"badmsg_mid_block", func(in *loadInput) { in.blk(nowS, run{2, L}, run{1, B}, run{2, L}); in.blk(nowS, run{1, L}) }},
		{"badmsg_first", func(in *loadInput) { in.blk(nowS, run{1, B}, run{2, L}) }},
		{"badmsg_second_block", func(in *loadInput) { in.blk(nowS, run{2, L}); in.blk(nowS, run{1, E}, run{1, L}, run{1, B}) }},
		{"undecodable_block", func(in *loadInput) { in.blk(nowS, run{2, L}); in.bad(5); in.blk(nowS, run{1, L}) }},
		{"undecodable_1", func(in *loadInput) { in.bad(1) }},
		{"hdr_limit_exact_short", func(in *loadInput) { in.blk(nowS, run{1, L}); in.hdr(limit); in.raw(10) }},
		{"hdr_limit_plus1", func(in *loadInput) { in.blk(nowS, run{1, L}); in.hdr(limit + 1); in.raw(10) }},
		{"hdr_limit_plus1_first", func(in *loadInput) { in.hdr(limit + 1) }},
		{"hdr_2_32", func(in *loadInput) { in.hdr(1 << 32); in.blk(nowS, run{1, L}) }},
		{"hdr_2_40", func(in *loadInput) { in.hdr(1 << 40); in.raw(3) }},
		{"hdr_2_63", func(in *loadInput) { in.hdr(1 << 63) }},
		{"hdr_2_63_plus", func(in *loadInput) { in.blk(nowS, run{2, L}); in.hdr(1<<63 + 5); in.raw(20) }},
		{"hdr_max", func(in *loadInput) { in.hdr(^uint64(0)); in.raw(9) }},
		{"hdr_le_swapped", func(in *loadInput) { in.hdr(5 << 56); in.raw(5) }},
		{"hdr_zero_then_block", func(in *loadInput) { in.hdr(0); in.blk(nowS, run{1, L}) }},
		{"hdr_zero_last", func(in *loadInput) { in.blk(nowS, run{1, L}); in.hdr(0) }},
		{"short_header_7", func(in *loadInput) { in.blk(nowS, run{1, L}); in.raw(7) }},
		{"short_header_1", func(in *loadInput) { in.raw(1) }},
		{"raw_8", func(in *loadInput) { in.raw(8) }},
		{"short_body", func(in *loadInput) { in.blk(nowS, run{1, L}); in.hdr(20); in.raw(19) }},
		{"body_exact_undecodable", func(in *loadInput) { in.hdr(20); in.raw(20) }},
		{"body_missing", func(in *loadInput) { in.hdr(1) }},
		{"full_size_block_128", func(in *loadInput) { in.blk(nowS, run{128, L}); in.blk(nowS, run{128, L}); in.blk(nowS, run{3, L}) }},
	}
	li := 0
	for _, c := range lcat {
		for _, mode := range []string{"none", "gzlast"} {
			c, mode := c, mode
			id := "cat:load:" + c.name + ":" + mode
			via := vias[li%len(vias)]
			li++
			in := &loadInput{name: hdrName}
			c.mk(in)
			add(task{id: id, kind: "load", crash: crashLoadLit(in), run: one(func() hx.Case {
				if mode == "gzlast" {
					full := gzipBytes(in.name, in.plain)
					return runLoad(id, in, "gz", len(full)-1, via)
				}
				return runLoad(id, in, "none", 0, via)
			})})
		}
	}
	// header names
	for i, nm := range []string{"", "mosdns_cache_v1", "mosdns_cache_v3", "mosdns_cache_v2x", "mosdns_cache_v", "Mosdns_cache_v2", hdrName} {
		nm := nm
		id := fmt.Sprintf("cat:load:name:%d", i)
		in := &loadInput{name: nm}
		in.blk(nowS, run{2, L})
		via := vias[i%len(vias)]
		add(task{id: id, kind: "load", crash: crashLoadLit(in), run: one(func() hx.Case { return runLoad(id, in, "none", 0, via) })})
	}

	// ----- truncated copies of real dumps: every one of the first and last 40 bytes, sampled in between
	nd, perDump := 2, 70
	sizes := []int{300, 131}
	if !quick {
		nd, perDump = 6, 1500
		sizes = []int{300, 131, 5, 128, 260, 700}
	}
	for d := 0; d < nd; d++ {
		d := d
		did := fmt.Sprintf("cut:%d", d)
		var in *loadInput
		get := func() *loadInput {
			if in == nil {
				in = fromRealDump(realDump(hx.NewRNG(o.Seed, did), sizes[d]))
			}
			return in
		}
		// the cut list depends on the file length, which depends on the dump: compute it lazily but deterministically
		r := hx.NewRNG(o.Seed, did+":cuts")
		fracs := make([]uint64, perDump)
		for i := range fracs {
			fracs[i] = r.U64()
		}
		mk := func(id string, mode string, pick func(in *loadInput) int, via string) {
			add(task{id: id, kind: "load", crash: "", run: one(func() hx.Case {
				in := get()
				return runLoad(id, in, mode, pick(in), via)
			})})
		}
		for i := 0; i < 40; i++ {
			i := i
			mk(fmt.Sprintf("%s:gz:head%d", did, i), "gz", func(in *loadInput) int { return i }, vias[i%len(vias)])
			mk(fmt.Sprintf("%s:gz:tail%d", did, i), "gz", func(in *loadInput) int { return len(in.file) - 1 - i }, vias[(i+2)%len(vias)])
		}
		for i := 0; i < perDump; i++ {
			i := i
			mk(fmt.Sprintf("%s:gz:%d", did, i), "gz", func(in *loadInput) int { return int(fracs[i] % uint64(len(in.file))) }, vias[i%len(vias)])
		}
		mk(did+":whole", "none", func(in *loadInput) int { return 0 }, "direct")
		// plaintext cuts: around every block boundary, the first bytes, sampled
		for i := 0; i < 12; i++ {
			i := i
			mk(fmt.Sprintf("%s:plain:head%d", did, i), "plain", func(in *loadInput) int { return i }, "direct")
		}
		for b := 0; b < 4; b++ {
			for _, dlt := range []int{-1, 0, 1, 7, 8, 9} {
				b, dlt := b, dlt
				mk(fmt.Sprintf("%s:plain:b%d:%d", did, b, dlt), "plain", func(in *loadInput) int {
					// offset of the end of block b
					p, off := in.plain, 0
					for k := 0; k <= b && len(p) >= 8; k++ {
						u := binary.BigEndian.Uint64(p)
						if u > uint64(len(p)-8) {
							break
						}
						off += 8 + int(u)
						p = p[8+int(u):]
					}
					if off+dlt < 0 {
						return 0
					}
					return off + dlt
				}, "direct")
			}
		}
		for i := 0; i < perDump/3; i++ {
			i := i
			mk(fmt.Sprintf("%s:plain:%d", did, i), "plain", func(in *loadInput) int { return int(fracs[i] % uint64(len(in.plain)+1)) }, "direct")
		}
	}

	// ----- random described plaintexts, cut or not
	nl := 260
	if !quick {
		nl = 8000
	}
	for i := 0; i < nl; i++ {
		id := fmt.Sprintf("load:%d", i)
		r := hx.NewRNG(o.Seed, id)
		in := &loadInput{name: hdrName}
		if r.Chance(1, 25) {
			in.name = hx.Pick(r, []string{"", "mosdns_cache_v1", "mosdns_cache_v2 "})
		}
		damaged := r.Chance(1, 2)
		for k := r.Range(0, 6); k > 0; k-- {
			x := r.Intn(20)
			switch {
			case damaged && x == 0:
				in.bad(r.Range(1, 30))
			case damaged && x == 1:
				in.hdr(hx.Pick(r, []uint64{limit, limit + 1, 1 << 31, 1 << 32, 1 << 62, ^uint64(0), uint64(r.Intn(100))}))
			case damaged && x == 2:
				in.raw(r.Range(1, 7))
				k = 0
			case damaged && x == 3:
				in.blk(nowS, run{r.Intn(3), L}, run{1, B}, run{r.Intn(3), L})
			case x == 4:
				in.blk(nowS)
			case x < 8:
				in.blk(nowS, run{r.Range(1, 4), L}, run{r.Range(1, 3), E}, run{r.Intn(3), L})
			default:
				in.blk(nowS, run{r.Range(1, 9), L})
			}
		}
		mode, cut := "none", 0
		switch r.Intn(5) {
		case 0, 1:
			mode, cut = "gz", r.Intn(len(gzipBytes(in.name, in.plain)))
		case 2:
			mode, cut = "plain", r.Intn(len(in.plain)+1)
		}
		via := vias[i%len(vias)]
		add(task{id: id, kind: "load", crash: crashLoadLit(in), run: one(func() hx.Case { return runLoad(id, in, mode, cut, via) })})
	}

	// ----- corrupted and arbitrary files
	nf := 260
	if !quick {
		nf = 10000
	}
	var fbase []byte
	for i := 0; i < nf; i++ {
		id := fmt.Sprintf("fuzz:%d", i)
		add(task{id: id, kind: "fuzz", crash: "(CFuzz FErr 98 4)", run: one(func() hx.Case {
			if fbase == nil {
				fbase = realDump(hx.NewRNG(o.Seed, "fuzzbase"), 12)
			}
			r := hx.NewRNG(o.Seed, id)
			f, what := mutate(r, fbase, 10+len(cache.VerifDumpHeader)+1)
			return runFuzz(id, f, what)
		})})
	}

	// ----- served answers and TTLs before / after the restart
	ns, per := 3, 24
	if !quick {
		ns, per = 40, 60
	}
	for i := 0; i < ns; i++ {
		id := fmt.Sprintf("serve:%d", i)
		add(task{id: id, kind: "serve", run: func() []hx.Case { return runServe(id, hx.NewRNG(o.Seed, id), per) }})
	}
	return ts
}

// ---------- supervisor / worker ----------

type line struct {
	T     string   `json:"t"` // start | case | done
	Idx   int      `json:"idx,omitempty"`
	ID    string   `json:"id,omitempty"`
	Kind  string   `json:"kind,omitempty"`
	Crash string   `json:"crash,omitempty"`
	Case  *hx.Case `json:"case,omitempty"`
}

func wantTask(o *hx.Opts, id string) bool {
	return o.Only == "" || o.Only == id || strings.HasPrefix(o.Only, id+":")
}

func worker(o *hx.Opts, from int) {
	out := bufio.NewWriterSize(os.Stdout, 1<<16)
	emit := func(l line) {
		b, _ := json.Marshal(l)
		out.Write(b)
		out.WriteByte('\n')
		out.Flush()
	}
	os.MkdirAll(workRoot, 0o755)
	idx := 0
	for _, t := range buildTasks(o) {
		if !wantTask(o, t.id) {
			continue
		}
		if idx < from {
			idx++
			continue
		}
		emit(line{T: "start", Idx: idx, ID: t.id, Kind: t.kind, Crash: t.crash})
		for _, c := range t.run() {
			if o.Want(c.ID) || o.Only == t.id {
				c := c
				emit(line{T: "case", Kind: t.kind, Case: &c})
			}
		}
		idx++
	}
	emit(line{T: "done"})
}

const taskTimeout = 90 * time.Second

func supervise(o *hx.Opts) {
	w := hx.NewWriter(o)
	defer w.Close()
	from := 0
	hangs := 0
	for restarts := 0; restarts < 200; restarts++ {
		args := []string{"-worker", "-from", strconv.Itoa(from), "-seed", strconv.FormatUint(o.Seed, 10), "-tier", o.Tier}
		if o.Only != "" {
			args = append(args, "-only", o.Only)
		}
		cmd := exec.Command(os.Args[0], args...)
		cmd.Stderr = os.Stderr
		stdout, err := cmd.StdoutPipe()
		if err != nil || cmd.Start() != nil {
			fmt.Fprintln(os.Stderr, "c19: cannot start worker")
			w.Close()
			os.Exit(2)
		}
		sc := bufio.NewScanner(stdout)
		sc.Buffer(make([]byte, 1<<20), 256<<20)
		var pending *line
		done := false
		hung := false
		lines := make(chan line, 64)
		go func() {
			for sc.Scan() {
				var l line
				if json.Unmarshal(sc.Bytes(), &l) == nil {
					lines <- l
				}
			}
			close(lines)
		}()
	read:
		for {
			select {
			case l, ok := <-lines:
				if !ok {
					break read
				}
				switch l.T {
				case "start":
					ll := l
					pending = &ll
				case "case":
					w.Emit(l.Kind, *l.Case)
				case "done":
					done = true
				}
			case <-time.After(taskTimeout):
				// a task that produces nothing for this long hangs (a dump or Close that never returns)
				hung = true
				cmd.Process.Kill()
				break read
			}
		}
		if hung {
			for range lines {
			}
			cmd.Wait()
			if pending == nil {
				fmt.Fprintln(os.Stderr, "c19: worker hung before its first task")
				w.Close()
				os.Exit(3)
			}
			w.Violation(pending.ID, fmt.Sprintf("the cache did not finish this task within %v (a dump, load or Close that never returns)", taskTimeout),
				map[string]any{"kind": pending.Kind, "task": pending.ID})
			from = pending.Idx + 1
			hangs++
			if hangs >= 2 {
				return // enough: every further hang costs the full timeout
			}
			continue
		}
		cmd.Wait()
		if done {
			return
		}
		if pending == nil || pending.Crash == "" {
			fmt.Fprintf(os.Stderr, "c19: worker died outside a damaged-file case (last task %v)\n", pending)
			w.Close()
			os.Exit(3)
		}
		w.Emit(pending.Kind, hx.Case{ID: pending.ID, Coq: pending.Crash,
			Desc: map[string]any{"kind": pending.Kind, "crash": 4, "note": "the worker process died while loading this file"}, FKey: "crash"})
		from = pending.Idx + 1
	}
}

func main() {
	isWorker := flag.Bool("worker", false, "internal: run the cases (child of the supervisor)")
	from := flag.Int("from", 0, "internal: first task index")
	o := hx.ParseFlags()
	if *isWorker {
		worker(o, *from)
		return
	}
	supervise(o)
}
