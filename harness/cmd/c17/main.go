// Driver for C17 (truncated UDP replies are retried over TCP). Runs the real
// msgTruncated, miekg's packer and upstreams built by upstream.NewUpstream
// against a loopback UDP server and a TCP server on the same port, and prints
// what happened as Judge.C17.case literals.
package main

import (
	"bytes"
	"context"
	"encoding/binary"
	"errors"
	"fmt"
	"io"
	"net"
	"os"
	"sync"
	"sync/atomic"
	"syscall"
	"time"

	"github.com/IrineSistiana/mosdns/v5/pkg/pool"
	"github.com/IrineSistiana/mosdns/v5/pkg/upstream"
	"github.com/miekg/dns"

	"verifharness/hx"
)

// ---------- msgTruncated on raw bytes ----------

func truncObs(b []byte) string {
	var v bool
	if p := hx.Recover(func() { v = upstream.VerifMsgTruncated(b) }); p != nil {
		return "None"
	}
	return hx.Some(hx.Bool(v))
}

func runTrunc(w *hx.Writer, id string, n int, seed uint64, b2 int) {
	b := hx.GenBytes(n, seed)
	if n >= 3 {
		b[2] = byte(b2)
	}
	w.Emit("trunc", hx.Case{
		ID:   id,
		Coq:  hx.App("CTrunc", hx.Ni(n), hx.N(seed), hx.Ni(b2), truncObs(b)),
		Desc: map[string]any{"kind": "trunc", "len": n, "byte2": b2},
		FKey: "trunc",
	})
}

// ---------- encode_header against miekg's packer ----------

func runPack(w *hx.Writer, id string, r *hx.RNG) {
	m := new(dns.Msg)
	m.Id = uint16(r.Intn(65536))
	if r.Chance(1, 8) {
		m.Id = hx.Pick(r, []uint16{0, 1, 255, 256, 65535})
	}
	m.Response, m.Authoritative, m.Truncated, m.RecursionDesired = r.Bool(), r.Bool(), r.Bool(), r.Bool()
	m.RecursionAvailable, m.Zero, m.AuthenticatedData, m.CheckingDisabled = r.Bool(), r.Bool(), r.Bool(), r.Bool()
	m.Opcode = r.Intn(16)
	m.Rcode = r.Intn(16)
	for i, k := 0, r.Intn(3); i < k; i++ {
		m.Question = append(m.Question, dns.Question{Name: "a.example.", Qtype: dns.TypeA, Qclass: dns.ClassINET})
	}
	rr := func() dns.RR {
		return &dns.A{Hdr: dns.RR_Header{Name: "a.example.", Rrtype: dns.TypeA, Class: dns.ClassINET, Ttl: 60}, A: net.IPv4(192, 0, 2, byte(r.Intn(256)))}
	}
	for i, k := 0, r.Intn(3); i < k; i++ {
		m.Answer = append(m.Answer, rr())
	}
	for i, k := 0, r.Intn(2); i < k; i++ {
		m.Ns = append(m.Ns, rr())
	}
	for i, k := 0, r.Intn(2); i < k; i++ {
		m.Extra = append(m.Extra, rr())
	}
	wire, err := m.Pack()
	if err != nil || len(wire) < 12 {
		fmt.Fprintln(os.Stderr, "c17: miekg Pack failed:", err)
		os.Exit(3)
	}
	h := hx.App("mkHeader", hx.Ni(int(m.Id)), hx.Bool(m.Response), hx.Ni(m.Opcode), hx.Bool(m.Authoritative),
		hx.Bool(m.Truncated), hx.Bool(m.RecursionDesired), hx.Bool(m.RecursionAvailable), hx.Bool(m.Zero),
		hx.Bool(m.AuthenticatedData), hx.Bool(m.CheckingDisabled), hx.Ni(m.Rcode),
		hx.Ni(len(m.Question)), hx.Ni(len(m.Answer)), hx.Ni(len(m.Ns)), hx.Ni(len(m.Extra)))
	w.Emit("pack", hx.Case{
		ID:   id,
		Coq:  hx.App("CPack", h, hx.Bytes(wire[:12]), truncObs(wire)),
		Desc: map[string]any{"kind": "pack", "tc": m.Truncated, "byte2": int(wire[2])},
		FKey: "pack",
	})
}

// ---------- sessions: descriptions (mirror Judge.C17) ----------

type pre struct {
	short bool
	n     int
	b2    int
}

func (p pre) coq() string {
	if p.short {
		return hx.App("PShort", hx.Ni(p.n), hx.Ni(p.b2))
	}
	return hx.App("PWrongId", hx.Ni(p.b2))
}

type udpBeh struct {
	silent bool
	b2, b3 int
	an, bn int
	bseed  uint64
}

func (u udpBeh) coq() string {
	if u.silent {
		return "USilent"
	}
	return hx.App("UReply", hx.Ni(u.b2), hx.Ni(u.b3), hx.Ni(u.an), hx.Ni(u.bn), hx.N(u.bseed))
}

const (
	tAnswer = iota
	tDieAfterQuery
	tDieOnAccept
	tPartial
)

type tcpBeh struct {
	kind          int
	close, idflip bool
	b2, b3        int
	an, bn        int
	bseed         uint64
}

func (t tcpBeh) coq() string {
	switch t.kind {
	case tAnswer:
		return hx.App("JAnswer", hx.Bool(t.close), hx.Bool(t.idflip), hx.Ni(t.b2), hx.Ni(t.b3), hx.Ni(t.an), hx.Ni(t.bn), hx.N(t.bseed))
	case tDieAfterQuery:
		return "JDieAfterQuery"
	case tDieOnAccept:
		return "JDieOnAccept"
	}
	return "JPartial"
}

func (t tcpBeh) name() string {
	return [...]string{"answer", "die-after-query", "die-on-accept", "partial"}[t.kind]
}

type stepIn struct {
	cid   int
	qb2   int
	qn    int
	qseed uint64
	pres  []pre
	u     udpBeh
	t     tcpBeh
}

func (s stepIn) coq() string {
	ps := make([]string, len(s.pres))
	for i, p := range s.pres {
		ps[i] = p.coq()
	}
	return hx.App("SIn", hx.Ni(s.cid), hx.Ni(s.qb2), hx.Ni(s.qn), hx.N(s.qseed), hx.List(ps), s.u.coq(), s.t.coq())
}

func rawMsg(id int, b2, b3 int, an int, body ...[]byte) []byte {
	m := []byte{byte(id >> 8), byte(id), byte(b2), byte(b3), 0, 1, byte(an >> 8), byte(an), 0, 0, 0, 0}
	for _, b := range body {
		m = append(m, b...)
	}
	return m
}

func (s stepIn) query() []byte {
	m := rawMsg(s.cid, s.qb2, 0, 0, hx.GenBytes(s.qn, s.qseed))
	return m
}

func wireID(w []byte) int { return int(binary.BigEndian.Uint16(w)) }

// ---------- sessions: the two servers ----------

type stepState struct {
	in       stepIn
	mu       sync.Mutex
	wireSeen bool
	wireID   int
	wireSum  uint64
	wireCh   chan struct{}
	seen     []string
	accepted int
}

type session struct {
	uc     *net.UDPConn
	tl     net.Listener // nil when the port refuses
	fd     int          // bound, not listening socket when refusing
	port   int
	cur    atomic.Pointer[stepState]
	mu     sync.Mutex
	oldIDs map[int]bool
	conns  []net.Conn
	wg     sync.WaitGroup
}

// newSession binds a UDP socket and a TCP socket to the same loopback port.
// When listening is false the TCP socket is bound but never listens, so that
// connection attempts are refused and nobody else can take the port.
func newSession(listening bool) (*session, error) {
	var lastErr error
	for try := 0; try < 200; try++ {
		uc, err := net.ListenUDP("udp4", &net.UDPAddr{IP: net.IPv4(127, 0, 0, 1)})
		if err != nil {
			lastErr = err
			continue
		}
		port := uc.LocalAddr().(*net.UDPAddr).Port
		s := &session{uc: uc, port: port, fd: -1, oldIDs: map[int]bool{}}
		if listening {
			tl, err := net.Listen("tcp4", fmt.Sprintf("127.0.0.1:%d", port))
			if err != nil {
				uc.Close()
				lastErr = err
				continue
			}
			s.tl = tl
		} else {
			fd, err := syscall.Socket(syscall.AF_INET, syscall.SOCK_STREAM, 0)
			if err != nil {
				uc.Close()
				lastErr = err
				continue
			}
			if err := syscall.Bind(fd, &syscall.SockaddrInet4{Port: port, Addr: [4]byte{127, 0, 0, 1}}); err != nil {
				syscall.Close(fd)
				uc.Close()
				lastErr = err
				continue
			}
			s.fd = fd
		}
		return s, nil
	}
	return nil, lastErr
}

func (s *session) close() {
	s.uc.Close()
	if s.tl != nil {
		s.tl.Close()
	}
	if s.fd >= 0 {
		syscall.Close(s.fd)
	}
	s.mu.Lock()
	for _, c := range s.conns {
		c.Close()
	}
	s.mu.Unlock()
	s.wg.Wait()
}

func (s *session) serveUDP() {
	defer s.wg.Done()
	buf := make([]byte, 65536)
	for {
		n, addr, err := s.uc.ReadFromUDP(buf)
		if err != nil {
			return
		}
		if n < 12 {
			continue
		}
		w := append([]byte(nil), buf[:n]...)
		st := s.cur.Load()
		if st == nil {
			continue
		}
		wid := wireID(w)
		s.mu.Lock()
		old := s.oldIDs[wid]
		s.mu.Unlock()
		if old { // a re-sent query of an earlier step
			continue
		}
		st.mu.Lock()
		if !st.wireSeen {
			st.wireSeen, st.wireID, st.wireSum = true, wid, hx.Sum(w)
			close(st.wireCh)
		}
		st.mu.Unlock()
		in := st.in
		for _, p := range in.pres {
			var d []byte
			if p.short {
				d = append([]byte{w[0], w[1], byte(p.b2)}, hx.GenBytes(8, 7)...)[:p.n]
			} else {
				d = rawMsg((wid+30000)%65536, p.b2, 128, 0, w[12:])
			}
			s.uc.WriteToUDP(d, addr)
		}
		if !in.u.silent {
			s.uc.WriteToUDP(rawMsg(wid, in.u.b2, in.u.b3, in.u.an, w[12:], hx.GenBytes(in.u.bn, in.u.bseed)), addr)
		}
	}
}

func (s *session) serveTCP() {
	defer s.wg.Done()
	for {
		c, err := s.tl.Accept()
		if err != nil {
			return
		}
		st := s.cur.Load()
		kind := tDieOnAccept
		if st != nil {
			st.mu.Lock()
			st.accepted++
			st.mu.Unlock()
			kind = st.in.t.kind
		}
		if kind == tDieOnAccept {
			c.Close()
			continue
		}
		s.mu.Lock()
		s.conns = append(s.conns, c)
		s.mu.Unlock()
		s.wg.Add(1)
		go s.handleTCP(c)
	}
}

func (s *session) handleTCP(c net.Conn) {
	defer s.wg.Done()
	defer c.Close()
	for {
		var hdr [2]byte
		if _, err := io.ReadFull(c, hdr[:]); err != nil {
			return
		}
		w := make([]byte, binary.BigEndian.Uint16(hdr[:]))
		if _, err := io.ReadFull(c, w); err != nil {
			return
		}
		st := s.cur.Load()
		if st == nil {
			return
		}
		st.mu.Lock()
		st.seen = append(st.seen, hx.Tuple(hx.Ni(len(w)), hx.N(hx.Sum(w))))
		st.mu.Unlock()
		t := st.in.t
		switch t.kind {
		case tAnswer:
			if len(w) < 12 {
				return
			}
			id := wireID(w)
			if t.idflip {
				id = 65535 - id
			}
			r := rawMsg(id, t.b2, t.b3, t.an, w[12:], hx.GenBytes(t.bn, t.bseed))
			if len(r) > 65535 {
				return
			}
			frame := make([]byte, 2+len(r))
			binary.BigEndian.PutUint16(frame, uint16(len(r)))
			copy(frame[2:], r)
			if _, err := c.Write(frame); err != nil {
				return
			}
			if t.close {
				return
			}
		case tPartial:
			r := rawMsg(wireID(w), 0x80, 0x80, 0, w[12:], hx.GenBytes(30, 3))
			frame := make([]byte, 2+len(r)/2)
			binary.BigEndian.PutUint16(frame, uint16(len(r)))
			copy(frame[2:], r)
			c.Write(frame)
			return
		default: // die after the query
			return
		}
	}
}

type evObs struct {
	opens  atomic.Int64
	closes atomic.Int64
	ch     chan struct{} // optional: poked on every close event
}

func (e *evObs) OnEvent(t upstream.Event) {
	switch t {
	case upstream.EventConnOpen:
		e.opens.Add(1)
	case upstream.EventConnClose:
		e.closes.Add(1)
		if e.ch != nil {
			select {
			case e.ch <- struct{}{}:
			default:
			}
		}
	}
}

// errOres classifies an error of an exchange that was given the deadline tmo:
// a refused connection reported in less than half of the deadline is ORefused,
// everything else (the caller's context error, EOF, read errors, a refusal
// reported late) is OErr.
func errOres(err error, elapsed, tmo time.Duration) (string, string) {
	if errors.Is(err, syscall.ECONNREFUSED) && elapsed < tmo/2 {
		return "ORefused", "connection refused"
	}
	cls := "other error"
	switch {
	case errors.Is(err, context.DeadlineExceeded):
		cls = "the caller's deadline"
	case errors.Is(err, syscall.ECONNREFUSED):
		cls = "connection refused, but late"
	case errors.Is(err, io.EOF), errors.Is(err, io.ErrUnexpectedEOF):
		cls = "EOF"
	}
	return "OErr", fmt.Sprintf("error (%s) after %v", cls, elapsed.Round(10*time.Millisecond))
}

// Every exchange the driver starts has a deadline, so that a reply that never
// reaches the caller is an observed error and the driver cannot hang. The
// deadline is generous (the machine may be loaded); once a few exchanges have
// run into it, the rest of the run uses a short one to stay bounded.
const blockedTimeout = 6 * time.Second
const blockedTimeoutShort = 400 * time.Millisecond

var blockedSeen atomic.Int64

func callTimeout() time.Duration {
	if blockedSeen.Load() >= 3 {
		return blockedTimeoutShort
	}
	return blockedTimeout
}

// noteBlocked records that an exchange which should have been answered ran
// into its deadline.
func noteBlocked(err error) {
	if err != nil && errors.Is(err, context.DeadlineExceeded) {
		blockedSeen.Add(1)
	}
}

const silentTimeout = 250 * time.Millisecond
const wireTimeout = 15 * time.Second

var wireGaveUp atomic.Bool

type sessResult struct {
	kind string
	c    hx.Case
}

func runSession(id string, listening, withObserver bool, steps []stepIn) (res sessResult, err error) {
	s, err := newSession(listening)
	if err != nil {
		return res, err
	}
	defer s.close()
	s.wg.Add(1)
	go s.serveUDP()
	if s.tl != nil {
		s.wg.Add(1)
		go s.serveTCP()
	}
	opt := upstream.Opt{}
	ob := &evObs{}
	if withObserver {
		opt.EventObserver = ob
	}
	u, err := upstream.NewUpstream(fmt.Sprintf("udp://127.0.0.1:%d", s.port), opt)
	if err != nil {
		return res, err
	}
	defer u.Close()

	var items []string
	var descSteps []map[string]any
	for _, in := range steps {
		st := &stepState{in: in, wireCh: make(chan struct{})}
		s.cur.Store(st)
		q := in.query()
		qc := append([]byte(nil), q...)
		tmo := callTimeout()
		if in.u.silent {
			tmo = silentTimeout
		}
		ctx, cancel := context.WithTimeout(context.Background(), tmo)
		o0 := ob.opens.Load()
		var r *[]byte
		var xerr error
		t0 := time.Now()
		p := hx.Recover(func() { r, xerr = u.ExchangeContext(ctx, q) })
		elapsed := time.Since(t0)
		cancel()
		if !in.u.silent {
			noteBlocked(xerr)
		}
		out := "OErr"
		outDesc := "error"
		if xerr != nil {
			out, outDesc = errOres(xerr, elapsed, tmo)
		}
		switch {
		case p != nil || !bytes.Equal(q, qc):
			out, outDesc = "OPanic", "panic or query modified"
		case xerr == nil && r != nil:
			out = hx.App("ORep", hx.Ni(len(*r)), hx.N(hx.Sum(*r)))
			outDesc = fmt.Sprintf("reply len=%d byte2=%d", len(*r), (*r)[2])
			pool.ReleaseBuf(r)
		}
		opens := "None"
		if withObserver {
			opens = hx.Some(hx.N(uint64(ob.opens.Load() - o0)))
		}
		// the UDP server always gets the query; wait for it to have looked at it
		wait := wireTimeout
		if wireGaveUp.Load() { // a query already went missing: do not spend the timeout on every step
			wait = silentTimeout
		}
		select {
		case <-st.wireCh:
		case <-time.After(wait):
			wireGaveUp.Store(true)
		}
		st.mu.Lock()
		wid, wsum := 99999, uint64(0)
		if st.wireSeen {
			wid, wsum = st.wireID, st.wireSum
		}
		seen := append([]string(nil), st.seen...)
		acc := st.accepted
		st.mu.Unlock()
		s.mu.Lock()
		s.oldIDs[wid] = true
		s.mu.Unlock()
		items = append(items, hx.Tuple(in.coq(),
			hx.App("SOut", hx.Ni(wid), hx.N(wsum), out, hx.List(seen), hx.Ni(acc), opens)))
		d := map[string]any{"udp_byte2": in.u.b2, "udp_tc": !in.u.silent && in.u.b2&2 != 0, "udp_silent": in.u.silent,
			"tcp": in.t.name(), "result": outDesc, "tcp_accepted": acc, "tcp_queries": len(seen)}
		descSteps = append(descSteps, d)
	}
	fkey := "session:listening"
	if !listening {
		fkey = "session:refusing"
	}
	res.kind = fkey
	res.c = hx.Case{
		ID:   id,
		Coq:  hx.App("CSession", hx.Bool(listening), hx.List(items)),
		Desc: map[string]any{"kind": "session", "tcp_listening": listening, "steps": descSteps},
		FKey: fkey,
	}
	return res, nil
}

// ---------- "to the same server": DialAddr vs url host ----------

// dialServer is one harness DNS server: UDP and TCP on the same ip:port. Its
// replies carry its index: ANCOUNT idx+1 over UDP, idx+11 over TCP.
type dialServer struct {
	idx  int
	ip   string
	port int
	uc   *net.UDPConn
	tl   net.Listener
}

type dialWorld struct {
	srv   []*dialServer
	b2    int
	mu    sync.Mutex
	udpAt map[int]bool
	tcpAt []int
	conns []net.Conn
	wg    sync.WaitGroup
}

func hostPort(ip string, port int) string { return net.JoinHostPort(ip, fmt.Sprint(port)) }

func bindBoth(ip string, port int) (*net.UDPConn, net.Listener, error) {
	uc, err := net.ListenUDP("udp", &net.UDPAddr{IP: net.ParseIP(ip), Port: port})
	if err != nil {
		return nil, nil, err
	}
	tl, err := net.Listen("tcp", hostPort(ip, uc.LocalAddr().(*net.UDPAddr).Port))
	if err != nil {
		uc.Close()
		return nil, nil, err
	}
	return uc, tl, nil
}

// newDialWorld: server 0 at 127.0.0.1:P, server 1 at decoy:P, server 2 at decoy:P2.
func newDialWorld(decoy string, b2 int) (*dialWorld, error) {
	var lastErr error
	for try := 0; try < 100; try++ {
		var got []*dialServer
		fail := func(err error) {
			lastErr = err
			for _, s := range got {
				s.uc.Close()
				s.tl.Close()
			}
		}
		uc, tl, err := bindBoth("127.0.0.1", 0)
		if err != nil {
			fail(err)
			continue
		}
		p := uc.LocalAddr().(*net.UDPAddr).Port
		got = append(got, &dialServer{idx: 0, ip: "127.0.0.1", port: p, uc: uc, tl: tl})
		uc, tl, err = bindBoth(decoy, p)
		if err != nil {
			fail(err)
			continue
		}
		got = append(got, &dialServer{idx: 1, ip: decoy, port: p, uc: uc, tl: tl})
		uc, tl, err = bindBoth(decoy, 0)
		if err != nil {
			fail(err)
			continue
		}
		p2 := uc.LocalAddr().(*net.UDPAddr).Port
		got = append(got, &dialServer{idx: 2, ip: decoy, port: p2, uc: uc, tl: tl})
		w := &dialWorld{srv: got, b2: b2, udpAt: map[int]bool{}}
		for _, s := range got {
			w.wg.Add(2)
			go w.serveUDP(s)
			go w.serveTCP(s)
		}
		return w, nil
	}
	return nil, lastErr
}

func (w *dialWorld) close() {
	for _, s := range w.srv {
		s.uc.Close()
		s.tl.Close()
	}
	w.mu.Lock()
	for _, c := range w.conns {
		c.Close()
	}
	w.mu.Unlock()
	w.wg.Wait()
}

func (w *dialWorld) serveUDP(s *dialServer) {
	defer w.wg.Done()
	buf := make([]byte, 65536)
	for {
		n, addr, err := s.uc.ReadFromUDP(buf)
		if err != nil {
			return
		}
		if n < 12 {
			continue
		}
		q := append([]byte(nil), buf[:n]...)
		w.mu.Lock()
		w.udpAt[s.idx] = true
		w.mu.Unlock()
		s.uc.WriteToUDP(rawMsg(wireID(q), w.b2, 0x80, s.idx+1, q[12:], []byte{byte(s.idx)}), addr)
	}
}

func (w *dialWorld) serveTCP(s *dialServer) {
	defer w.wg.Done()
	for {
		c, err := s.tl.Accept()
		if err != nil {
			return
		}
		w.mu.Lock()
		w.conns = append(w.conns, c)
		w.mu.Unlock()
		w.wg.Add(1)
		go func() {
			defer w.wg.Done()
			defer c.Close()
			for {
				var hdr [2]byte
				if _, err := io.ReadFull(c, hdr[:]); err != nil {
					return
				}
				q := make([]byte, binary.BigEndian.Uint16(hdr[:]))
				if _, err := io.ReadFull(c, q); err != nil || len(q) < 12 {
					return
				}
				w.mu.Lock()
				w.tcpAt = append(w.tcpAt, s.idx)
				w.mu.Unlock()
				r := rawMsg(wireID(q), 0x84, 0x80, s.idx+11, q[12:], []byte{byte(s.idx), 0xEE})
				frame := make([]byte, 2+len(r))
				binary.BigEndian.PutUint16(frame, uint16(len(r)))
				copy(frame[2:], r)
				if _, err := c.Write(frame); err != nil {
					return
				}
			}
		}()
	}
}

// A dial case: the url names server urlSrv in one of the forms below, DialAddr
// (when dialSrv >= 0) names server dialSrv as ip:port.
//   form 0: udp://host:port   1: host:port   2: udp://host   3: host
// Forms without a port are only used with DialAddr (the port would be 53).
type dialCase struct {
	id      string
	decoy   string
	urlSrv  int
	form    int
	dialSrv int
	b2      int
	urlHost string // when not "": a host name instead of a harness server (DialAddr decides)
}

func bracket(ip string) string {
	if bytes.IndexByte([]byte(ip), ':') >= 0 {
		return "[" + ip + "]"
	}
	return ip
}

// runDial returns nil when the decoy address cannot be bound here.
func runDial(dc dialCase) *sessResult {
	w, err := newDialWorld(dc.decoy, dc.b2)
	if err != nil {
		return nil
	}
	defer w.close()
	us := w.srv[dc.urlSrv]
	host, port := bracket(us.ip), us.port
	if dc.urlHost != "" {
		host = dc.urlHost
	}
	var url string
	switch dc.form {
	case 0:
		url = fmt.Sprintf("udp://%s:%d", host, port)
	case 1:
		url = fmt.Sprintf("%s:%d", host, port)
	case 2:
		url = "udp://" + host
	default:
		url = host
	}
	dial := ""
	want := dc.urlSrv
	if dc.dialSrv >= 0 {
		ds := w.srv[dc.dialSrv]
		dial = hostPort(ds.ip, ds.port)
		want = dc.dialSrv
	}
	kind, from, intact := 2, 0, true
	var u upstream.Upstream
	p := hx.Recover(func() {
		var nerr error
		u, nerr = upstream.NewUpstream(url, upstream.Opt{DialAddr: dial})
		if nerr != nil {
			kind = 3
			return
		}
		q := rawMsg(0x1D17, 1, 0, 0, hx.GenBytes(17, 5))
		ctx, cancel := context.WithTimeout(context.Background(), callTimeout())
		r, xerr := u.ExchangeContext(ctx, q)
		cancel()
		noteBlocked(xerr)
		if xerr != nil || r == nil {
			return
		}
		b := *r
		if len(b) >= 12+17 {
			an := int(binary.BigEndian.Uint16(b[6:]))
			switch {
			case an >= 1 && an <= 3:
				kind, from = 0, an-1
			case an >= 11 && an <= 13:
				kind, from = 1, an-11
			}
			intact = wireID(b) == 0x1D17 && bytes.Equal(b[12:12+17], q[12:])
		}
		pool.ReleaseBuf(r)
	})
	if p != nil {
		kind = 4
	}
	if u != nil {
		u.Close()
	}
	w.mu.Lock()
	var udpAt []int
	for i := range w.srv {
		if w.udpAt[i] {
			udpAt = append(udpAt, i)
		}
	}
	tcpAt := append([]int(nil), w.tcpAt...)
	w.mu.Unlock()
	servers := make([]string, len(w.srv))
	for i, s := range w.srv {
		servers[i] = hx.Tuple(hx.Str(s.ip), hx.Ni(s.port))
	}
	where := func(xs []int) []string {
		out := []string{}
		for _, i := range xs {
			out = append(out, hostPort(w.srv[i].ip, w.srv[i].port))
		}
		return out
	}
	fkey := "dial:no-dialaddr"
	if dial != "" {
		fkey = "dial:dialaddr"
	}
	return &sessResult{kind: fkey, c: hx.Case{
		ID: dc.id,
		Coq: hx.App("CDial", hx.Str(url), hx.Str(dial), hx.List(servers), hx.Ni(dc.b2), hx.Ni(want),
			hx.NList(udpAt), hx.NList(tcpAt), hx.Tuple(hx.Ni(kind), hx.Ni(from)), hx.Bool(intact)),
		Desc: map[string]any{"kind": "dial", "url": url, "dial_addr": dial, "udp_tc": dc.b2&2 != 0,
			"intended_server": hostPort(w.srv[want].ip, w.srv[want].port),
			"udp_query_arrived_at": where(udpAt), "tcp_query_arrived_at": where(tcpAt),
			"result": [...]string{"udp reply", "tcp reply", "error", "NewUpstream error", "panic"}[kind], "reply_from_server": from},
		FKey: fkey,
	}}
}

var decoys = []string{"127.0.0.2", "127.0.0.3", "::1"}

func dialCatalogue() []dialCase {
	var out []dialCase
	add := func(dc dialCase) {
		dc.id = fmt.Sprintf("cat:dial:%d", len(out))
		out = append(out, dc)
	}
	for _, decoy := range decoys {
		for _, b2 := range []int{0x82, 0x80, 0x87} {
			// DialAddr = the real server, url = a decoy in every form
			for form := 0; form < 4; form++ {
				add(dialCase{decoy: decoy, urlSrv: 2, form: form, dialSrv: 0, b2: b2})
			}
			add(dialCase{decoy: decoy, urlSrv: 1, form: 0, dialSrv: 0, b2: b2}) // same port, other host
			// the other way round, and between the two decoy ports
			add(dialCase{decoy: decoy, urlSrv: 0, form: 0, dialSrv: 2, b2: b2})
			add(dialCase{decoy: decoy, urlSrv: 0, form: 3, dialSrv: 1, b2: b2})
			add(dialCase{decoy: decoy, urlSrv: 1, form: 1, dialSrv: 2, b2: b2})
			// controls without DialAddr: the url decides
			add(dialCase{decoy: decoy, urlSrv: 0, form: 0, dialSrv: -1, b2: b2})
			add(dialCase{decoy: decoy, urlSrv: 0, form: 1, dialSrv: -1, b2: b2})
			add(dialCase{decoy: decoy, urlSrv: 2, form: 0, dialSrv: -1, b2: b2})
			add(dialCase{decoy: decoy, urlSrv: 1, form: 1, dialSrv: -1, b2: b2})
		}
	}
	// the url host is a name: only DialAddr is ever dialled
	for _, b2 := range []int{0x82, 0x80} {
		add(dialCase{decoy: "127.0.0.2", urlSrv: 2, form: 0, dialSrv: 0, b2: b2, urlHost: "dns.verif.invalid"})
		add(dialCase{decoy: "127.0.0.2", urlSrv: 2, form: 3, dialSrv: 0, b2: b2, urlHost: "dns.verif.invalid"})
	}
	return out
}

func genDial(id string, r *hx.RNG) dialCase {
	dc := dialCase{id: id, decoy: hx.Pick(r, decoys), urlSrv: r.Intn(3), form: r.Intn(4), dialSrv: r.Intn(4) - 1, b2: r.Intn(256)}
	if r.Bool() {
		dc.b2 |= 2
	}
	if dc.dialSrv < 0 {
		dc.form &= 1 // a url without port would mean port 53
	}
	return dc
}

// ---------- real time: late replies, callers that give up ----------

// timedWorld: a UDP server that sends its reply (flag byte b2, no extra body)
// d1 after the first datagram of a query, and a TCP server that answers every
// query d2 after reading it, one query at a time per connection, with a reply
// derived from that query (id, question, 4 bytes generated from the id).
type timedWorld struct {
	s      *session
	b2     int
	d1, d2 time.Duration
	mu     sync.Mutex
	seenID map[int]bool
}

func newTimedWorld(b2 int, d1, d2 time.Duration) (*timedWorld, error) {
	s, err := newSession(true)
	if err != nil {
		return nil, err
	}
	w := &timedWorld{s: s, b2: b2, d1: d1, d2: d2, seenID: map[int]bool{}}
	s.wg.Add(2)
	go w.serveUDP()
	go w.serveTCP()
	return w, nil
}

func (w *timedWorld) serveUDP() {
	defer w.s.wg.Done()
	buf := make([]byte, 65536)
	for {
		n, addr, err := w.s.uc.ReadFromUDP(buf)
		if err != nil {
			return
		}
		if n < 12 {
			continue
		}
		q := append([]byte(nil), buf[:n]...)
		w.mu.Lock()
		dup := w.seenID[wireID(q)]
		w.seenID[wireID(q)] = true
		w.mu.Unlock()
		if dup { // a re-send: the reply to the first datagram is on its way
			continue
		}
		r := rawMsg(wireID(q), w.b2, 0x80, 0, q[12:])
		if w.d1 == 0 {
			w.s.uc.WriteToUDP(r, addr)
		} else {
			time.AfterFunc(w.d1, func() { w.s.uc.WriteToUDP(r, addr) })
		}
	}
}

func (w *timedWorld) serveTCP() {
	defer w.s.wg.Done()
	for {
		c, err := w.s.tl.Accept()
		if err != nil {
			return
		}
		w.s.mu.Lock()
		w.s.conns = append(w.s.conns, c)
		w.s.mu.Unlock()
		w.s.wg.Add(1)
		go func() {
			defer w.s.wg.Done()
			defer c.Close()
			for {
				var hdr [2]byte
				if _, err := io.ReadFull(c, hdr[:]); err != nil {
					return
				}
				q := make([]byte, binary.BigEndian.Uint16(hdr[:]))
				if _, err := io.ReadFull(c, q); err != nil || len(q) < 12 {
					return
				}
				time.Sleep(w.d2)
				r := rawMsg(wireID(q), 0x84, 0x80, 1, q[12:], hx.GenBytes(4, uint64(wireID(q))))
				frame := make([]byte, 2+len(r))
				binary.BigEndian.PutUint16(frame, uint16(len(r)))
				copy(frame[2:], r)
				if _, err := c.Write(frame); err != nil {
					return
				}
			}
		}()
	}
}

type timedQ struct {
	cid, qn int
	qseed   uint64
}

func (t timedQ) bytes() []byte { return rawMsg(t.cid, 1, 0, 0, hx.GenBytes(t.qn, t.qseed)) }
func (t timedQ) coq() string   { return hx.Tuple(hx.Ni(t.cid), hx.Ni(t.qn), hx.N(t.qseed)) }

func exchangeOres(u upstream.Upstream, q []byte, deadline time.Duration) (string, string) {
	ctx, cancel := context.WithTimeout(context.Background(), deadline)
	defer cancel()
	var r *[]byte
	var err error
	t0 := time.Now()
	p := hx.Recover(func() { r, err = u.ExchangeContext(ctx, q) })
	el := time.Since(t0).Round(10 * time.Millisecond)
	switch {
	case p != nil:
		return "OPanic", fmt.Sprintf("panic after %v", el)
	case err != nil || r == nil:
		return "OErr", fmt.Sprintf("error after %v: %v", el, err)
	}
	defer pool.ReleaseBuf(r)
	b := *r
	return hx.App("ORep", hx.Ni(len(b)), hx.N(hx.Sum(b))),
		fmt.Sprintf("reply after %v: id=%#04x byte2=%d ancount=%d len=%d", el, wireID(b), b[2], binary.BigEndian.Uint16(b[6:]), len(b))
}

func runDelay(id string, q timedQ, b2 int, d1, d2, deadline time.Duration) (*sessResult, error) {
	w, err := newTimedWorld(b2, d1, d2)
	if err != nil {
		return nil, err
	}
	defer w.s.close()
	u, err := upstream.NewUpstream(fmt.Sprintf("udp://127.0.0.1:%d", w.s.port), upstream.Opt{})
	if err != nil {
		return nil, err
	}
	defer u.Close()
	res, desc := exchangeOres(u, q.bytes(), deadline)
	ms := func(d time.Duration) string { return hx.Ni(int(d / time.Millisecond)) }
	return &sessResult{kind: "timed:delay", c: hx.Case{
		ID:  id,
		Coq: hx.App("CDelay", ms(d1), ms(d2), ms(deadline), hx.Ni(q.cid), hx.Ni(q.qn), hx.N(q.qseed), hx.Ni(b2), res),
		Desc: map[string]any{"kind": "delay", "udp_reply_after_ms": int(d1 / time.Millisecond), "tcp_reply_after_ms": int(d2 / time.Millisecond),
			"caller_deadline_ms": int(deadline / time.Millisecond), "udp_tc": b2&2 != 0, "result": desc},
		FKey: "timed:delay",
	}}, nil
}

func runAbandon(id string, a, b timedQ, dlA, delay, dlB time.Duration) (*sessResult, error) {
	w, err := newTimedWorld(0x82, 0, delay)
	if err != nil {
		return nil, err
	}
	defer w.s.close()
	u, err := upstream.NewUpstream(fmt.Sprintf("udp://127.0.0.1:%d", w.s.port), upstream.Opt{})
	if err != nil {
		return nil, err
	}
	defer u.Close()
	resA, descA := exchangeOres(u, a.bytes(), dlA)
	resB, descB := exchangeOres(u, b.bytes(), dlB)
	ms := func(d time.Duration) string { return hx.Ni(int(d / time.Millisecond)) }
	return &sessResult{kind: "timed:abandon", c: hx.Case{
		ID:  id,
		Coq: hx.App("CAbandon", a.coq(), b.coq(), ms(dlA), ms(delay), ms(dlB), resA, resB),
		Desc: map[string]any{"kind": "abandon", "a_id": a.cid, "b_id": b.cid, "a_deadline_ms": int(dlA / time.Millisecond),
			"tcp_reply_after_ms": int(delay / time.Millisecond), "b_deadline_ms": int(dlB / time.Millisecond), "a_result": descA, "b_result": descB},
		FKey: "timed:abandon",
	}}, nil
}

type timedJob struct {
	id  string
	run func() (*sessResult, error)
	res *sessResult
	err error
}

func timedJobs(o *hx.Opts, quick bool) []*timedJob {
	var out []*timedJob
	const callerDeadline = 15 * time.Second
	delays := [][2]time.Duration{{0, 3500 * time.Millisecond}, {2600 * time.Millisecond, time.Second}, {1200 * time.Millisecond, 2500 * time.Millisecond}}
	if !quick {
		delays = append(delays, [2]time.Duration{2900 * time.Millisecond, 300 * time.Millisecond}, [2]time.Duration{300 * time.Millisecond, 2900 * time.Millisecond},
			[2]time.Duration{3200 * time.Millisecond, 0}, [2]time.Duration{0, 0})
	}
	for i, d := range delays {
		id := fmt.Sprintf("timed:delay:%d", i)
		if !o.Want(id) {
			continue
		}
		r := hx.NewRNG(o.Seed, id)
		q := timedQ{cid: r.Intn(65536), qn: hx.Pick(r, []int{5, 17, 30}), qseed: r.U64() % 100000}
		b2 := 0x82 | r.Intn(256)
		d := d
		out = append(out, &timedJob{id: id, run: func() (*sessResult, error) { return runDelay(id, q, b2, d[0], d[1], callerDeadline) }})
	}
	na := 4
	if !quick {
		na = 16
	}
	for i := 0; i < na; i++ {
		id := fmt.Sprintf("timed:abandon:%d", i)
		if !o.Want(id) {
			continue
		}
		r := hx.NewRNG(o.Seed, id)
		a := timedQ{cid: r.Intn(65536), qn: hx.Pick(r, []int{5, 17, 30}), qseed: r.U64() % 100000}
		b := timedQ{cid: (a.cid + 1 + r.Intn(65000)) % 65536, qn: hx.Pick(r, []int{5, 17, 30}), qseed: r.U64() % 100000}
		dlA := time.Duration(hx.Pick(r, []int{100, 150, 200})) * time.Millisecond
		delay := time.Duration(hx.Pick(r, []int{400, 500})) * time.Millisecond
		out = append(out, &timedJob{id: id, run: func() (*sessResult, error) { return runAbandon(id, a, b, dlA, delay, 5*time.Second) }})
	}
	return out
}

// ---------- several idle fallback connections that die mid-exchange ----------

// staleWorld: phase 1 - the TCP server keeps every query until k of them are
// there (on k connections), then answers them all, so k connections go idle at
// the client; phase 2 - a query arriving on one of those old connections is
// read and the connection closed, new connections are answered.
type staleWorld struct {
	s        *session
	k        int
	mu       sync.Mutex
	phase    int
	pending  int
	barrier  chan struct{}
	done     chan struct{}
	q2       []byte
	accepted int // in phase 2
	seenN    int // queries read in phase 2
	seenSame bool
}

func tcpDerivedReply(q []byte) []byte {
	r := rawMsg(wireID(q), 0x84, 0x80, 1, q[12:], hx.GenBytes(4, uint64(wireID(q))))
	frame := make([]byte, 2+len(r))
	binary.BigEndian.PutUint16(frame, uint16(len(r)))
	copy(frame[2:], r)
	return frame
}

func (w *staleWorld) serveUDP() {
	defer w.s.wg.Done()
	buf := make([]byte, 65536)
	for {
		n, addr, err := w.s.uc.ReadFromUDP(buf)
		if err != nil {
			return
		}
		if n < 12 {
			continue
		}
		w.s.uc.WriteToUDP(rawMsg(wireID(buf[:n]), 0x82, 0x80, 0, buf[12:n]), addr)
	}
}

func (w *staleWorld) serveTCP() {
	defer w.s.wg.Done()
	for {
		c, err := w.s.tl.Accept()
		if err != nil {
			return
		}
		w.mu.Lock()
		old := w.phase == 1
		if !old {
			w.accepted++
		}
		w.mu.Unlock()
		w.s.mu.Lock()
		w.s.conns = append(w.s.conns, c)
		w.s.mu.Unlock()
		w.s.wg.Add(1)
		go func() {
			defer w.s.wg.Done()
			defer c.Close()
			for {
				var hdr [2]byte
				if _, err := io.ReadFull(c, hdr[:]); err != nil {
					return
				}
				q := make([]byte, binary.BigEndian.Uint16(hdr[:]))
				if _, err := io.ReadFull(c, q); err != nil || len(q) < 12 {
					return
				}
				w.mu.Lock()
				if w.phase == 1 {
					w.pending++
					if w.pending == w.k {
						close(w.barrier)
					}
					w.mu.Unlock()
					select {
					case <-w.barrier:
					case <-w.done:
						return
					}
				} else {
					w.seenN++
					if !bytes.Equal(q, w.q2) {
						w.seenSame = false
					}
					w.mu.Unlock()
					if old { // died mid-exchange
						return
					}
				}
				if _, err := c.Write(tcpDerivedReply(q)); err != nil {
					return
				}
			}
		}()
	}
}

func runStale(id string, k int, p1 []timedQ, q2 timedQ, idleClose bool) (*sessResult, error) {
	s, err := newSession(true)
	if err != nil {
		return nil, err
	}
	w := &staleWorld{s: s, k: k, phase: 1, barrier: make(chan struct{}), done: make(chan struct{}), seenSame: true, q2: q2.bytes()}
	defer s.close()
	defer close(w.done)
	s.wg.Add(2)
	go w.serveUDP()
	go w.serveTCP()
	opt := upstream.Opt{}
	ob := &evObs{ch: make(chan struct{}, 1)}
	if idleClose {
		opt.EventObserver = ob
	}
	u, err := upstream.NewUpstream(fmt.Sprintf("udp://127.0.0.1:%d", s.port), opt)
	if err != nil {
		return nil, err
	}
	defer u.Close()

	// phase 1: k truncated replies at the same time -> k fallback connections
	p1ok := make([]bool, k)
	var wg sync.WaitGroup
	for i := 0; i < k; i++ {
		wg.Add(1)
		go func(i int) {
			defer wg.Done()
			q := p1[i].bytes()
			ctx, cancel := context.WithTimeout(context.Background(), callTimeout())
			defer cancel()
			hx.Recover(func() {
				r, err := u.ExchangeContext(ctx, q)
				noteBlocked(err)
				if err == nil && r != nil {
					p1ok[i] = bytes.Equal(*r, tcpDerivedReply(q)[2:])
					pool.ReleaseBuf(r)
				}
			})
		}(i)
	}
	wg.Wait()
	allOK := true
	for _, ok := range p1ok {
		allOK = allOK && ok
	}
	// phase 2: the k idle connections are dead, new ones are answered
	w.mu.Lock()
	w.phase = 2
	w.mu.Unlock()
	noticed := true
	if idleClose {
		// the server closes the k idle connections; wait until the client has seen all of them die
		s.mu.Lock()
		for _, c := range s.conns {
			c.Close()
		}
		s.mu.Unlock()
		deadline := time.After(callTimeout())
	waitClosed:
		for ob.closes.Load() < int64(k) {
			select {
			case <-ob.ch:
			case <-time.After(20 * time.Millisecond):
			case <-deadline:
				noticed = false
				break waitClosed
			}
		}
	}
	res, desc := exchangeOres(u, q2.bytes(), callTimeout())
	w.mu.Lock()
	acc, seenN, same := w.accepted, w.seenN, w.seenSame
	w.mu.Unlock()
	if idleClose {
		return &sessResult{kind: "dead-idle", c: hx.Case{
			ID:  id,
			Coq: hx.App("CDeadIdle", hx.Ni(k), q2.coq(), hx.Bool(allOK), hx.Bool(noticed), res, hx.Ni(acc), hx.Ni(seenN), hx.Bool(same)),
			Desc: map[string]any{"kind": "dead-idle-conns", "idle_conns_closed_by_server_while_idle": k, "phase1_all_answered": allOK,
				"client_saw_them_die": noticed, "result": desc, "new_tcp_conns": acc, "tcp_queries_read": seenN, "tcp_queries_all_the_callers": same},
			FKey: "dead-idle",
		}}, nil
	}
	return &sessResult{kind: "stale", c: hx.Case{
		ID:  id,
		Coq: hx.App("CStale", hx.Ni(k), q2.coq(), hx.Bool(allOK), res, hx.Ni(acc), hx.Ni(seenN), hx.Bool(same)),
		Desc: map[string]any{"kind": "stale-idle-conns", "idle_conns_that_die_mid_exchange": k, "phase1_all_answered": allOK,
			"result": desc, "new_tcp_conns": acc, "tcp_queries_read": seenN, "tcp_queries_all_the_callers": same},
		FKey: "stale",
	}}, nil
}

func staleJobs(o *hx.Opts, quick bool) []*timedJob {
	var out []*timedJob
	maxK, per := 4, 2
	if !quick {
		maxK, per = 6, 6
	}
	for k := 1; k <= 6; k++ {
		for v := 0; v < per; v++ {
			id := fmt.Sprintf("stale:%d:%d", k, v)
			wantStale := o.Want(id) && k <= maxK
			wantDead := (v == 0 || !quick) && o.Want(fmt.Sprintf("dead-idle:%d:%d", k, v))
			if !wantStale && !wantDead {
				continue
			}
			r := hx.NewRNG(o.Seed, id)
			base := r.Intn(60000)
			var p1 []timedQ
			for i := 0; i < k; i++ {
				p1 = append(p1, timedQ{cid: base + 1 + i*7, qn: hx.Pick(r, []int{5, 17, 30}), qseed: r.U64() % 100000})
			}
			q2 := timedQ{cid: base, qn: hx.Pick(r, []int{5, 17, 30}), qseed: r.U64() % 100000}
			k := k
			if wantStale {
				out = append(out, &timedJob{id: id, run: func() (*sessResult, error) { return runStale(id, k, p1, q2, false) }})
			}
			if wantDead {
				id2 := fmt.Sprintf("dead-idle:%d:%d", k, v)
				{
					out = append(out, &timedJob{id: id2, run: func() (*sessResult, error) { return runStale(id2, k, p1, q2, true) }})
				}
			}
		}
	}
	return out
}

// ---------- the UDP server answers only a re-sent datagram ----------

// runResend: warm ordinary exchanges (answered at once, no TC), then one query
// whose first `ignored` datagrams get no answer; the next datagram (a re-send
// of the transport, one per second) is answered with flag byte b2 under the id
// that datagram carries. TCP answers at once with a reply derived from the query.
func runResend(id string, warm []timedQ, ignored int, q timedQ, b2 int) (*sessResult, error) {
	s, err := newSession(true)
	if err != nil {
		return nil, err
	}
	tw := &timedWorld{s: s, seenID: map[int]bool{}}
	defer s.close()
	var mu sync.Mutex
	armed, count := false, 0
	var dgrams []string
	s.wg.Add(2)
	go tw.serveTCP()
	go func() {
		defer s.wg.Done()
		buf := make([]byte, 65536)
		for {
			n, addr, err := s.uc.ReadFromUDP(buf)
			if err != nil {
				return
			}
			if n < 12 {
				continue
			}
			d := append([]byte(nil), buf[:n]...)
			mu.Lock()
			flags, answer := 0x80, true
			if armed {
				count++
				if count <= ignored+1 {
					dgrams = append(dgrams, hx.Tuple(hx.Ni(wireID(d)), hx.N(hx.Sum(d))))
				}
				flags, answer = b2, count > ignored
			}
			mu.Unlock()
			if answer {
				s.uc.WriteToUDP(rawMsg(wireID(d), flags, 0x80, 0, d[12:]), addr)
			}
		}
	}()
	u, err := upstream.NewUpstream(fmt.Sprintf("udp://127.0.0.1:%d", s.port), upstream.Opt{})
	if err != nil {
		return nil, err
	}
	defer u.Close()
	for _, wq := range warm {
		exchangeOres(u, wq.bytes(), callTimeout())
	}
	mu.Lock()
	armed = true
	mu.Unlock()
	res, desc := exchangeOres(u, q.bytes(), time.Duration(ignored)*time.Second+blockedTimeout)
	mu.Lock()
	got := append([]string(nil), dgrams...)
	mu.Unlock()
	return &sessResult{kind: "resend", c: hx.Case{
		ID:  id,
		Coq: hx.App("CResend", hx.Ni(len(warm)), hx.Ni(ignored), q.coq(), hx.Ni(b2), hx.List(got), res),
		Desc: map[string]any{"kind": "resend", "earlier_exchanges": len(warm), "datagrams_ignored": ignored, "caller_id": q.cid,
			"udp_tc": b2&2 != 0, "udp_byte2": b2, "datagrams_seen(id,sum)": got, "result": desc},
		FKey: "resend",
	}}, nil
}

func resendJobs(o *hx.Opts, quick bool) []*timedJob {
	var out []*timedJob
	n := 6
	if !quick {
		n = 24
	}
	for i := 0; i < n; i++ {
		id := fmt.Sprintf("resend:%d", i)
		if !o.Want(id) {
			continue
		}
		r := hx.NewRNG(o.Seed, id)
		var warm []timedQ
		for k := 0; k < i%3; k++ {
			warm = append(warm, timedQ{cid: r.Range(4, 65535), qn: 5, qseed: r.U64() % 100000})
		}
		q := timedQ{cid: r.Range(4, 65535), qn: hx.Pick(r, []int{5, 17, 30}), qseed: r.U64() % 100000}
		b2 := r.Intn(256) &^ 2
		if i%2 == 0 {
			b2 |= 2
		}
		ignored := 1
		if i%6 == 5 {
			ignored = 2
		}
		out = append(out, &timedJob{id: id, run: func() (*sessResult, error) { return runResend(id, warm, ignored, q, b2) }})
	}
	return out
}

// ---------- generators ----------

var udpExtra = []int{0, 0, 1, 10, 60, 300}
var tcpExtra = []int{0, 1, 20, 200, 1500}

func genStep(r *hx.RNG, thorough bool) stepIn {
	in := stepIn{cid: r.Intn(65536), qb2: 1, qn: hx.Pick(r, []int{0, 5, 17, 30, 100}), qseed: r.U64() % 100000}
	if r.Chance(1, 8) {
		in.cid = hx.Pick(r, []int{0, 1, 255, 256, 30000, 65535})
	}
	switch r.Intn(6) {
	case 0:
		in.qb2 = r.Intn(256)
	case 1:
		in.qb2 = 0
	}
	if r.Chance(1, 4) {
		for i, k := 0, r.Range(1, 2); i < k; i++ {
			b2 := r.Intn(256)
			if r.Bool() {
				b2 |= 2
			}
			if r.Bool() {
				in.pres = append(in.pres, pre{short: true, n: hx.Pick(r, []int{0, 1, 2, 3, 4, 10, 11, 11}), b2: b2})
			} else {
				in.pres = append(in.pres, pre{b2: b2})
			}
		}
	}
	if r.Chance(1, 14) {
		in.u = udpBeh{silent: true}
	} else {
		in.u = udpBeh{b2: r.Intn(256), b3: r.Intn(256), an: r.Intn(4), bn: hx.Pick(r, udpExtra), bseed: r.U64() % 100000}
		switch r.Intn(8) {
		case 0:
			in.u.b2 = hx.Pick(r, []int{0x80, 0x81, 0x82, 0x83, 0x84, 0x85, 0x86, 0x87})
		case 1:
			in.u.b2 |= 2
		case 2:
			in.u.b2 &^= 2
		}
		if r.Chance(1, 25) { // around the 4095 byte receive buffer
			in.u.bn = hx.Pick(r, []int{4082, 4083, 4084, 4300}) - in.qn
		}
	}
	switch r.Intn(10) {
	case 0:
		in.t = tcpBeh{kind: tDieAfterQuery}
	case 1:
		in.t = tcpBeh{kind: tDieOnAccept}
	case 2:
		in.t = tcpBeh{kind: tPartial}
	default:
		in.t = tcpBeh{kind: tAnswer, close: r.Chance(1, 4), idflip: r.Chance(1, 6), b2: 0x80 | r.Intn(8), b3: r.Intn(256),
			an: r.Range(1, 3), bn: hx.Pick(r, tcpExtra), bseed: r.U64() % 100000}
		if r.Chance(1, 6) {
			in.t.b2 = r.Intn(256)
		}
		if r.Chance(1, 12) && in.qn == 0 {
			in.t.bn = r.Intn(2) // 12 or 13 byte frame
		}
		if thorough && r.Chance(1, 60) {
			in.t.bn = r.Range(20000, 65535-12-in.qn)
		}
	}
	return in
}

type job struct {
	id        string
	listening bool
	observer  bool
	steps     []stepIn
}

func catalogue(quick bool) []job {
	var jobs []job
	ans := func(i int) tcpBeh {
		return tcpBeh{kind: tAnswer, b2: 0x84 | (i & 1), b3: 0x80, an: 1 + i%3, bn: 7 + i%5, bseed: uint64(100 + i)}
	}
	// every value of byte 2, four per session, TCP behaviour rotating
	for k := 0; k < 64; k++ {
		var steps []stepIn
		for j := 0; j < 4; j++ {
			b2 := k*4 + j
			t := ans(b2)
			switch (k + j) % 8 {
			case 3:
				t.close = true
			case 5:
				t = tcpBeh{kind: tDieAfterQuery}
			case 7:
				t.idflip = true
			}
			steps = append(steps, stepIn{cid: 4660 + b2*97, qb2: 1, qn: 17, qseed: uint64(b2), u: udpBeh{b2: b2, b3: (b2 * 37) % 256, an: j % 2, bn: b2 % 9, bseed: uint64(b2 + 1)}, t: t})
		}
		jobs = append(jobs, job{id: fmt.Sprintf("cat:b2:%d", k), listening: true, observer: k%2 == 0, steps: steps})
	}
	tc := func(b2 int) udpBeh { return udpBeh{b2: b2, b3: 0x80, bn: 3, bseed: 9} }
	base := func(u udpBeh, t tcpBeh) stepIn { return stepIn{cid: 0xBEEF, qb2: 1, qn: 17, qseed: 5, u: u, t: t} }
	die := func(k int) tcpBeh { return tcpBeh{kind: k} }
	edge := [][]stepIn{
		// the TCP side fails in every way, on a new and on a reused connection
		{base(tc(0x82), die(tDieAfterQuery))},
		{base(tc(0x82), die(tDieOnAccept))},
		{base(tc(0x82), die(tPartial))},
		{base(tc(0x83), ans(1)), base(tc(0x83), die(tDieAfterQuery)), base(tc(0x83), ans(2))},
		{base(tc(0x83), ans(1)), base(tc(0x83), die(tDieOnAccept)), base(tc(0x81), ans(2)), base(tc(0x83), ans(3))},
		{base(tc(0x83), ans(1)), base(tc(0x83), die(tPartial)), base(tc(0x83), ans(3))},
		// connection reuse, server closing after the answer
		{base(tc(0x82), ans(1)), base(tc(0x80), ans(2)), base(tc(0x82), ans(3)), base(tc(0x86), ans(4))},
		{base(tc(0x82), func() tcpBeh { t := ans(1); t.close = true; return t }()), base(tc(0x82), ans(2)), base(tc(0x82), ans(3))},
		{base(tc(0x82), func() tcpBeh { t := ans(1); t.close = true; return t }()), base(tc(0x82), die(tDieAfterQuery))},
		// stray datagrams with TC set before a reply without TC, and the other way round
		{func() stepIn {
			s := base(tc(0x81), ans(1))
			s.pres = []pre{{short: true, n: 11, b2: 0x82}, {short: true, n: 3, b2: 0xff}, {b2: 0x82}}
			return s
		}()},
		{func() stepIn {
			s := base(tc(0x83), ans(1))
			s.pres = []pre{{short: true, n: 11, b2: 0x80}, {short: true, n: 0, b2: 0}, {b2: 0x80}}
			return s
		}()},
		// silent UDP server (only junk arrives), then a normal exchange on the same upstream
		{func() stepIn {
			s := base(udpBeh{silent: true}, ans(1))
			s.pres = []pre{{short: true, n: 11, b2: 0x82}, {b2: 0x82}}
			return s
		}(), base(tc(0x82), ans(2)), base(udpBeh{silent: true}, ans(3)), base(tc(0x80), ans(4))},
		// the query itself has TC set / clear, opposite to the reply
		{func() stepIn { s := base(tc(0x80), ans(1)); s.qb2 = 0x03; return s }(),
			func() stepIn { s := base(tc(0x82), ans(1)); s.qb2 = 0x00; return s }()},
		// TCP reply: 12 bytes (refused by the reader), 13 bytes, TC set, foreign id
		{func() stepIn { s := base(tc(0x82), tcpBeh{kind: tAnswer, b2: 0x80, b3: 0}); s.qn = 0; return s }(),
			func() stepIn {
				s := base(tc(0x82), tcpBeh{kind: tAnswer, b2: 0x80, b3: 0, bn: 1, bseed: 4})
				s.qn = 0
				return s
			}(),
			base(tc(0x82), tcpBeh{kind: tAnswer, b2: 0x82, b3: 0x80, an: 1, bn: 5, bseed: 4}),
			base(tc(0x82), tcpBeh{kind: tAnswer, idflip: true, b2: 0x80, b3: 0x80, an: 1, bn: 5, bseed: 4})},
		// UDP replies around the 4095 byte receive buffer, with and without TC
		{base(udpBeh{b2: 0x80, b3: 0x80, bn: 4094 - 29, bseed: 1}, ans(1)), base(udpBeh{b2: 0x80, b3: 0x80, bn: 4095 - 29, bseed: 2}, ans(1)),
			base(udpBeh{b2: 0x80, b3: 0x80, bn: 4096 - 29, bseed: 3}, ans(1)), base(udpBeh{b2: 0x82, b3: 0x80, bn: 5000, bseed: 4}, ans(1))},
		// ids at the ends of the range
		{func() stepIn { s := base(tc(0x82), ans(1)); s.cid = 0; return s }(),
			func() stepIn { s := base(tc(0x80), ans(1)); s.cid = 65535; return s }(),
			func() stepIn { s := base(tc(0x82), ans(1)); s.cid = 65535; return s }()},
	}
	if !quick {
		edge = append(edge, []stepIn{
			base(tc(0x82), tcpBeh{kind: tAnswer, b2: 0x80, b3: 0x80, an: 1, bn: 65535 - 29, bseed: 4}),
			base(tc(0x82), tcpBeh{kind: tAnswer, b2: 0x80, b3: 0x80, an: 1, bn: 65534 - 29, bseed: 5}),
		})
	} else {
		edge = append(edge, []stepIn{base(tc(0x82), tcpBeh{kind: tAnswer, b2: 0x80, b3: 0x80, an: 1, bn: 65535 - 29, bseed: 4})})
	}
	for i, steps := range edge {
		jobs = append(jobs, job{id: fmt.Sprintf("cat:edge:%d", i), listening: true, observer: true, steps: steps})
		jobs = append(jobs, job{id: fmt.Sprintf("cat:edge-noobs:%d", i), listening: true, observer: false, steps: steps})
	}
	// the TCP port refuses
	refuse := [][]stepIn{
		{base(tc(0x82), ans(1))},
		{base(tc(0x80), ans(1)), base(tc(0x82), ans(1)), base(tc(0x81), ans(1)), base(tc(0x83), ans(1))},
		{base(udpBeh{silent: true}, ans(1)), base(tc(0x86), die(tDieOnAccept))},
	}
	for i, steps := range refuse {
		jobs = append(jobs, job{id: fmt.Sprintf("cat:refuse:%d", i), listening: false, observer: i != 1, steps: steps})
	}
	return jobs
}

func main() {
	o := hx.ParseFlags()
	w := hx.NewWriter(o)
	defer w.Close()
	quick := o.Tier != "thorough"

	// (d) the cases that need real time run in the background of everything else
	tjobs := append(timedJobs(o, quick), staleJobs(o, quick)...)
	tjobs = append(tjobs, resendJobs(o, quick)...)
	var twg sync.WaitGroup
	for _, j := range tjobs {
		twg.Add(1)
		go func(j *timedJob) {
			defer twg.Done()
			j.res, j.err = j.run()
		}(j)
	}

	// (a) msgTruncated on raw bytes: every value of byte 2 at the lengths where it matters
	all := []int{3, 12}
	some := []int{0, 1, 2, 4, 11, 13, 512}
	if !quick {
		all = []int{3, 4, 11, 12, 13, 512}
		some = []int{0, 1, 2}
	}
	for _, n := range all {
		for b2 := 0; b2 < 256; b2++ {
			if id := fmt.Sprintf("trunc:%d:%d", n, b2); o.Want(id) {
				runTrunc(w, id, n, uint64(n*1000+b2), b2)
			}
		}
	}
	for _, n := range some {
		for _, b2 := range []int{0, 1, 2, 3, 0x7d, 0x7f, 0x80, 0x81, 0x82, 0x83, 0xfd, 0xff} {
			if id := fmt.Sprintf("trunc:%d:%d", n, b2); o.Want(id) {
				runTrunc(w, id, n, uint64(n*1000+b2), b2)
			}
		}
	}
	nt := o.Count(100, 5000)
	for i := 0; i < nt; i++ {
		if id := fmt.Sprintf("trunc-gen:%d", i); o.Want(id) {
			r := hx.NewRNG(o.Seed, id)
			runTrunc(w, id, hx.Pick(r, []int{0, 1, 2, 3, 4, 5, 11, 12, 13, 40, 600}), r.U64()%100000, r.Intn(256))
		}
	}
	np := o.Count(150, 5000)
	for i := 0; i < np; i++ {
		if id := fmt.Sprintf("pack:%d", i); o.Want(id) {
			runPack(w, id, hx.NewRNG(o.Seed, id))
		}
	}

	// (b) end to end
	var jobs []job
	for _, j := range catalogue(quick) {
		if o.Want(j.id) {
			jobs = append(jobs, j)
		}
	}
	ns := o.Count(300, 8000)
	for i := 0; i < ns; i++ {
		id := fmt.Sprintf("gen:%d", i)
		if !o.Want(id) {
			continue
		}
		r := hx.NewRNG(o.Seed, id)
		j := job{id: id, listening: !r.Chance(1, 7), observer: r.Bool()}
		for k, n := 0, r.Range(1, 5); k < n; k++ {
			j.steps = append(j.steps, genStep(r, !quick))
		}
		jobs = append(jobs, j)
	}
	// (c) the TCP retry goes to the server the UDP query went to
	type djob struct {
		dc  dialCase
		res *sessResult
	}
	var djobs []*djob
	for _, dc := range dialCatalogue() {
		if o.Want(dc.id) {
			djobs = append(djobs, &djob{dc: dc})
		}
	}
	nd := o.Count(60, 3000)
	for i := 0; i < nd; i++ {
		if id := fmt.Sprintf("dial-gen:%d", i); o.Want(id) {
			djobs = append(djobs, &djob{dc: genDial(id, hx.NewRNG(o.Seed, id))})
		}
	}
	{
		dsem := make(chan struct{}, 8)
		var dwg sync.WaitGroup
		for _, j := range djobs {
			dwg.Add(1)
			dsem <- struct{}{}
			go func(j *djob) {
				defer dwg.Done()
				defer func() { <-dsem }()
				j.res = runDial(j.dc)
			}(j)
		}
		dwg.Wait()
		for _, j := range djobs {
			if j.res == nil {
				w.Tally("dial:skipped(bind "+j.dc.decoy+")", 1)
				continue
			}
			w.Emit(j.res.kind, j.res.c)
		}
	}

	results := make([]sessResult, len(jobs))
	errs := make([]error, len(jobs))
	sem := make(chan struct{}, 8)
	var wg sync.WaitGroup
	for i := range jobs {
		wg.Add(1)
		sem <- struct{}{}
		go func(i int) {
			defer wg.Done()
			defer func() { <-sem }()
			results[i], errs[i] = runSession(jobs[i].id, jobs[i].listening, jobs[i].observer, jobs[i].steps)
		}(i)
	}
	wg.Wait()
	twg.Wait()
	for _, j := range tjobs {
		if j.err != nil {
			fmt.Fprintf(os.Stderr, "c17: timed case %s could not be set up: %v\n", j.id, j.err)
			w.Close()
			os.Exit(3)
		}
		w.Emit(j.res.kind, j.res.c)
	}
	for i := range jobs {
		if errs[i] != nil {
			fmt.Fprintf(os.Stderr, "c17: session %s could not be set up: %v\n", jobs[i].id, errs[i])
			w.Close()
			os.Exit(3)
		}
		w.Emit(results[i].kind, results[i].c)
	}
}
