// Driver for C15 (EDNS0 is terminated, not leaked, between client and
// upstream). Builds plugin chains of the REAL cache, ttl, ecs_handler,
// forward_edns0opt and forward plugins (forward over scripted in-memory
// upstreams) with the real sequence.NewSequence, sends client queries with
// and without OPT through the real EntryHandler.Handle and prints what the
// upstreams received, what the chain left in the context and the reply as
// Judge.C15.case literals. Everything shared with C03 lives in harness/msgx.
package main

import (
	"fmt"
	"net/netip"
	"os"

	"github.com/miekg/dns"

	"verifharness/hx"
	"verifharness/msgx"
)

func opt(size uint16, do bool, opts ...dns.EDNS0) *dns.OPT {
	o := new(dns.OPT)
	o.Hdr.Name = "."
	o.Hdr.Rrtype = dns.TypeOPT
	o.SetUDPSize(size)
	if do {
		o.SetDo()
	}
	o.Option = opts
	return o
}

func ecs4(a uint32, scope uint8) dns.EDNS0 {
	return &dns.EDNS0_SUBNET{Code: dns.EDNS0SUBNET, Family: 1, SourceNetmask: 24, SourceScope: scope, Address: msgx.IP4(a)}
}
func cookie(s string) dns.EDNS0 { return &dns.EDNS0_COOKIE{Code: dns.EDNS0COOKIE, Cookie: s} }
func padding(n int) dns.EDNS0   { return &dns.EDNS0_PADDING{Padding: make([]byte, n)} }

func query(id uint16, name string, qtype uint16, udp bool, o *dns.OPT) msgx.Query {
	m := new(dns.Msg)
	m.Id = id
	m.RecursionDesired = true
	m.Question = []dns.Question{{Name: name, Qtype: qtype, Qclass: dns.ClassINET}}
	if o != nil {
		m.Extra = []dns.RR{o}
	}
	n, err := msgx.WireNormalise(m)
	if err != nil {
		panic(err)
	}
	return msgx.Query{Msg: n, UDP: udp, Addr: netip.MustParseAddr("10.9.8.0")}
}

func arec(ttl uint32, tag uint32) dns.RR {
	return &dns.A{Hdr: dns.RR_Header{Name: "", Rrtype: dns.TypeA, Class: dns.ClassINET, Ttl: ttl}, A: msgx.IP4(tag)}
}
func txt(ttl uint32, n int) dns.RR {
	b := make([]byte, n)
	for i := range b {
		b[i] = 'x'
	}
	return &dns.TXT{Hdr: dns.RR_Header{Name: "", Rrtype: dns.TypeTXT, Class: dns.ClassINET, Ttl: ttl}, Txt: []string{string(b)}}
}

func chain(xs []msgx.XDesc, ws []msgx.WDesc, order string) []msgx.TSeq {
	// order: one letter per rule: 'w' next wrapper, 'x' next executable
	var rules []msgx.TRule
	wi, xi := 0, 0
	for _, c := range order {
		if c == 'w' {
			rules = append(rules, msgx.TRule{Kind: "wrap", Arg: wi})
			wi++
		} else {
			rules = append(rules, msgx.TRule{Kind: "exec", Arg: xi})
			xi++
		}
	}
	return []msgx.TSeq{{Name: 0, Rules: rules}}
}

type catCase struct {
	name string
	c    *msgx.Case
}

func catalogue() []catCase {
	fwd := msgx.XDesc{Kind: "forward", Up: 0}
	full := opt(4096, true, ecs4(0x0A000100, 0), cookie("0102030405060708"), padding(12))
	upOpt := opt(1232, true, ecs4(0x0A000100, 24), cookie("0102030405060708aabbccddeeff0011"), padding(30))
	answer := msgx.Template{Flags: 1 << 7, Answer: []dns.RR{arec(300, 0x0A000001)}, Opt: upOpt}
	plain := msgx.Template{Flags: 1 << 7, Answer: []dns.RR{arec(300, 0x0A000002)}}
	var bigAns []dns.RR
	for i := 0; i < 20; i++ {
		bigAns = append(bigAns, txt(300, 100))
	}
	big := msgx.Template{Flags: 1 << 7, Answer: bigAns, Opt: upOpt}
	badvers := msgx.Template{Rcode: 16, Opt: opt(1232, false)}
	one := func(t msgx.Template) [][]msgx.Template { return [][]msgx.Template{{t}} }
	qa := func(o *dns.OPT, udp bool) msgx.Query { return query(7, "a.test.", 1, udp, o) }
	var out []catCase
	add := func(name string, xs []msgx.XDesc, ws []msgx.WDesc, order string, sc [][]msgx.Template, qs ...msgx.Query) {
		out = append(out, catCase{name, &msgx.Case{Xs: xs, Ws: ws, Scripts: sc, Prog: chain(xs, ws, order), Queries: qs}})
	}
	x1 := []msgx.XDesc{fwd}
	// nothing forwards: client options stay at home, upstream options stay upstream
	add("plain-forward", x1, nil, "x", one(answer), qa(full, false), qa(nil, false), qa(opt(512, false), true))
	// ecs_handler: forward, preset, send, skip when present, class != IN
	for i, e := range []msgx.WDesc{
		{Kind: "ecs", Fwd: true}, {Kind: "ecs", Preset: "10.1.2.0"}, {Kind: "ecs", Send: true},
		{Kind: "ecs", Fwd: true, Preset: "fd00:2::", Mask6: 64}, {Kind: "ecs", Fwd: true, Send: true, Mask4: 32},
	} {
		add(fmt.Sprintf("ecs-%d", i), x1, []msgx.WDesc{e}, "wx", one(answer),
			qa(full, false), qa(nil, true), qa(opt(1232, false, cookie("0102030405060708")), false))
	}
	add("ecs-twice", x1, []msgx.WDesc{{Kind: "ecs", Preset: "10.1.2.0"}, {Kind: "ecs", Fwd: true}}, "wwx", one(answer), qa(full, false))
	add("ecs-fwd-then-preset", x1, []msgx.WDesc{{Kind: "ecs", Fwd: true}, {Kind: "ecs", Preset: "10.1.2.0"}}, "wwx", one(answer), qa(full, false), qa(nil, false))
	{
		q := qa(full, false)
		q.Msg.Question[0].Qclass = dns.ClassCHAOS
		add("ecs-chaos", x1, []msgx.WDesc{{Kind: "ecs", Fwd: true, Preset: "10.1.2.0"}}, "wx", one(answer), q)
	}
	// forward_edns0opt: each code alone, all, none
	for i, codes := range [][]int{{10}, {12}, {8}, {8, 10, 12}, {}, {3, 65001}} {
		add(fmt.Sprintf("fwdopt-%d", i), x1, []msgx.WDesc{{Kind: "fwdopt", Codes: codes}}, "wx", one(answer), qa(full, false), qa(nil, false))
	}
	add("fwdopt+ecs", x1, []msgx.WDesc{{Kind: "fwdopt", Codes: []int{8}}, {Kind: "ecs", Fwd: true}}, "wwx", one(answer), qa(full, false))
	add("ecs+fwdopt", x1, []msgx.WDesc{{Kind: "ecs", Fwd: true}, {Kind: "fwdopt", Codes: []int{8, 10}}}, "wwx", one(answer), qa(full, false))
	// cache: store with / serve without OPT and the other way round; DO and no-DO clients share the entry
	cw := []msgx.WDesc{{Kind: "cache"}}
	add("cache-opt-then-plain", x1, cw, "wx", one(answer), qa(full, false), query(8, "a.test.", 1, false, nil), query(9, "a.test.", 1, true, opt(512, false)))
	add("cache-plain-then-opt", x1, cw, "wx", one(answer), qa(nil, false), query(8, "a.test.", 1, false, full))
	add("cache-inside-fwdopt", x1, []msgx.WDesc{{Kind: "fwdopt", Codes: []int{10}}, {Kind: "cache"}}, "wwx", one(answer), qa(full, false), query(8, "a.test.", 1, false, full))
	add("fwdopt-inside-cache", x1, []msgx.WDesc{{Kind: "cache"}, {Kind: "fwdopt", Codes: []int{10}}}, "wwx", one(answer), qa(full, false), query(8, "a.test.", 1, false, full))
	add("cache-ecs", x1, []msgx.WDesc{{Kind: "cache"}, {Kind: "ecs", Fwd: true}}, "wwx", one(answer), qa(full, false), query(8, "a.test.", 1, false, full))
	// ttl rewriting next to OPT records
	for i, t := range []msgx.XDesc{{Kind: "ttl", Fix: 60}, {Kind: "ttl", Min: 600}, {Kind: "ttl", Max: 5}, {Kind: "ttl", Min: 100, Max: 50}} {
		add(fmt.Sprintf("ttl-%d", i), []msgx.XDesc{fwd, t}, cw, "wxx", one(answer), qa(full, false), query(8, "a.test.", 1, false, full))
	}
	// truncation keeps the one OPT
	for i, size := range []uint16{0, 512, 700, 1232, 4096} {
		add(fmt.Sprintf("truncate-%d", i), x1, []msgx.WDesc{{Kind: "fwdopt", Codes: []int{10}}}, "wx", one(big),
			qa(opt(size, i%2 == 0, cookie("0102030405060708")), true), qa(nil, true), qa(opt(size, false), false))
	}
	// upstream without OPT, failing upstream, extended rcode
	add("upstream-no-opt", x1, []msgx.WDesc{{Kind: "ecs", Fwd: true}, {Kind: "fwdopt", Codes: []int{10}}}, "wwx", one(plain), qa(full, false), qa(nil, false))
	add("upstream-fails", x1, cw, "wx", one(msgx.Template{Fail: true}), qa(full, true), qa(nil, false))
	add("badvers", x1, cw, "wx", one(badvers), qa(full, false), qa(nil, false), qa(opt(512, true), true))
	// plugins that run the chain on copies of the context: only the options of the branch that is served come back.
	// prefer_ipv4 in front of a cookie forwarder; the reference (A) reply has no A record and cookie aaaa.., the AAAA
	// reply cookie bbbb..: the client gets exactly one cookie, bbbb.. (the demo of seeded change C15_m2).
	{
		nodata := msgx.Template{Flags: 1 << 7, Opt: opt(1232, false, cookie("aaaaaaaaaaaaaaaa1111111111111111"))}
		aaaa := msgx.Template{Flags: 1 << 7, Answer: []dns.RR{&dns.AAAA{Hdr: dns.RR_Header{Name: "", Rrtype: dns.TypeAAAA, Class: 1, Ttl: 300}, AAAA: msgx.IP6(9)}},
			Opt: opt(1232, false, cookie("bbbbbbbbbbbbbbbb2222222222222222"), ecs4(0x0A000100, 24))}
		withA := msgx.Template{Flags: 1 << 7, Answer: []dns.RR{arec(300, 0x0A000007)}, Opt: opt(1232, true, cookie("cccccccccccccccc3333333333333333"))}
		// the scripted upstream picks by (sum(name) + qtype + id) mod 2
		order := func(name string, id uint16, forA, forAAAA msgx.Template) [][]msgx.Template {
			ts := make([]msgx.Template, 2)
			ia := (hx.Sum([]byte(name)) + 1 + uint64(id)) % 2
			ts[ia], ts[1-ia] = forA, forAAAA
			return [][]msgx.Template{ts}
		}
		q6 := func(id uint16, o *dns.OPT) msgx.Query { return query(id, "a.test.", 28, false, o) }
		dual := msgx.WDesc{Kind: "dual"}
		add("prefer4-pass", x1, []msgx.WDesc{dual, {Kind: "fwdopt", Codes: []int{10}}}, "wwx", order("a.test.", 7, nodata, aaaa),
			q6(7, full), q6(7, nil), query(7, "a.test.", 1, false, full))
		add("prefer4-block", x1, []msgx.WDesc{dual, {Kind: "fwdopt", Codes: []int{10}}}, "wwx", order("a.test.", 7, withA, aaaa),
			q6(7, full), q6(7, full), query(7, "a.test.", 1, false, full), q6(7, nil))
		add("prefer4-ecs", x1, []msgx.WDesc{{Kind: "fwdopt", Codes: []int{10}}, dual, {Kind: "ecs", Fwd: true}}, "wwwx", order("a.test.", 7, nodata, aaaa), q6(7, full), q6(9, full))
		add("prefer6", x1, []msgx.WDesc{{Kind: "dual", V6: true}, {Kind: "fwdopt", Codes: []int{10, 8}}}, "wwx", order("a.test.", 7, withA, nodata),
			query(7, "a.test.", 1, false, full), query(7, "a.test.", 28, false, full))
		add("cache-prefer4", x1, []msgx.WDesc{{Kind: "cache"}, dual, {Kind: "fwdopt", Codes: []int{10}}, {Kind: "cache"}}, "wwwwx", order("a.test.", 7, nodata, aaaa),
			q6(7, full), q6(7, full), query(7, "a.test.", 1, true, full))
		// fallback: primary fails / succeeds, secondary standing by; forwarders inside the branches and around the fallback
		fb := func(standby bool) ([]msgx.XDesc, []msgx.WDesc, []msgx.TSeq) {
			xs := []msgx.XDesc{{Kind: "forward", Up: 0}, {Kind: "forward", Up: 1}, {Kind: "fallback", Prim: 1, Sec: 2, Standby: standby}}
			ws := []msgx.WDesc{{Kind: "fwdopt", Codes: []int{10}}, {Kind: "ecs", Fwd: true}, {Kind: "fwdopt", Codes: []int{10, 8}}}
			ss := []msgx.TSeq{
				{Name: 1, Rules: []msgx.TRule{{Kind: "wrap", Arg: 0}, {Kind: "exec", Arg: 0}}},
				{Name: 2, Rules: []msgx.TRule{{Kind: "wrap", Arg: 1}, {Kind: "exec", Arg: 1}}},
				{Name: 0, Rules: []msgx.TRule{{Kind: "wrap", Arg: 2}, {Kind: "exec", Arg: 2}}}}
			return xs, ws, ss
		}
		for i, standby := range []bool{false, true} {
			xs, ws, ss := fb(standby)
			for j, prim := range []msgx.Template{answer, {Fail: true}, {Rcode: 2, Opt: opt(512, false, cookie("dddddddddddddddd4444444444444444"))}} {
				out = append(out, catCase{fmt.Sprintf("fallback-%d-%d", i, j), &msgx.Case{Xs: xs, Ws: ws, Prog: ss,
					Scripts: [][]msgx.Template{{prim}, {aaaa}}, Queries: []msgx.Query{qa(full, false), qa(nil, true), qa(full, true)}}})
			}
		}
	}
	// no upstream at all: REFUSED carries the OPT too
	add("no-forward", nil, []msgx.WDesc{{Kind: "ecs", Fwd: true}}, "w", nil, qa(full, false), qa(nil, true))
	return out
}

func emit(w *hx.Writer, o *hx.Opts, id, kind string, c *msgx.Case) {
	res, err := c.Run(func() *hx.RNG { return hx.NewRNG(o.Seed, id+"/render") })
	if err == msgx.ErrSlow {
		w.Tally("skipped-slow", 1)
		return
	}
	if err != nil {
		fmt.Fprintf(os.Stderr, "case %s: %v\n", id, err)
		os.Exit(3)
	}
	replied, seen := 0, 0
	for _, q := range res.Obs {
		if q.Replied {
			replied++
		}
		seen += q.Seen
	}
	w.Emit(kind, hx.Case{
		ID:   id,
		Coq:  res.Coq,
		Desc: map[string]any{"kind": kind, "text": res.Text, "queries": len(res.Obs), "replied": replied, "upstream_msgs": seen},
		FKey: kind,
	})
}

func main() {
	o := hx.ParseFlags()
	msgx.Quiesce() // the idle process, before anything is started
	w := hx.NewWriter(o)
	defer w.Close()
	for _, cc := range catalogue() {
		id := "cat/" + cc.name
		if o.Want(id) {
			emit(w, o, id, "catalogue", cc.c)
		}
	}
	nf := o.Count(150, 3000)
	if o.N > 0 {
		nf = o.N / 6
	}
	for i := 0; i < nf; i++ {
		id := fmt.Sprintf("fun/%d", i)
		if !o.Want(id) {
			continue
		}
		op, arg, m := msgx.GenFun(hx.NewRNG(o.Seed, id))
		w.Emit("helper", hx.Case{ID: id, Coq: msgx.RunFun(op, arg, m), Desc: map[string]any{"kind": "helper", "op": op, "arg": arg}, FKey: "helper"})
	}
	for i := 0; i < nf; i++ {
		id := fmt.Sprintf("copy/%d", i)
		if !o.Want(id) {
			continue
		}
		w.Emit("copy", hx.Case{ID: id, Coq: msgx.RunCopy(hx.NewRNG(o.Seed, id)), Desc: map[string]any{"kind": "copy"}, FKey: "copy"})
	}
	nl := o.Count(60, 1500)
	if o.N > 0 {
		nl = 1 + o.N/15
	}
	for i := 0; i < nl; i++ {
		id := fmt.Sprintf("lazy/%d", i)
		if !o.Want(id) {
			continue
		}
		lc := msgx.GenLazyCase(hx.NewRNG(o.Seed, id))
		coq, err := lc.Run(func() *hx.RNG { return hx.NewRNG(o.Seed, id+"/render") })
		if err == msgx.ErrSlow {
			w.Tally("skipped-slow", 1)
			continue
		}
		if err != nil {
			fmt.Fprintf(os.Stderr, "case %s: %v\n", id, err)
			os.Exit(3)
		}
		w.Emit("lazy", hx.Case{ID: id, Coq: coq, Desc: map[string]any{"kind": "lazy", "steps": len(lc.Steps)}, FKey: "lazy"})
	}
	n := o.Count(900, 15000)
	for i := 0; i < n; i++ {
		id := fmt.Sprintf("rnd/%d", i)
		if !o.Want(id) {
			continue
		}
		r := hx.NewRNG(o.Seed, id)
		if i%4 == 3 {
			emit(w, o, id, "copying", msgx.GenCopyingCase(r))
		} else {
			emit(w, o, id, "random", msgx.GenCaseC15(r))
		}
	}
}
