// Driver for C14 (forward: first good answer among the queried upstreams).
//
// Runs the real fastforward.Forward (through Exec and QuickConfigureExec) over
// in-memory scripted upstreams whose answers are let go one at a time in a
// chosen order, and prints what happened as Judge.C14.case literals.
//
// Ordering is event driven: the context handed to an upstream is cancelled by
// the worker goroutine when it ends (defer cancel()), i.e. after its result
// was received by the collection loop or after `done` was closed. The script
// lets the next upstream go only after it has seen that, so the order in which
// the collection loop receives results is the script's order. Timeouts are
// used only to detect "blocked".
package main

import (
	"bytes"
	"context"
	"errors"
	"fmt"
	"net"
	"os"
	"runtime"
	"sort"
	"strings"
	"sync"
	"time"

	"github.com/IrineSistiana/mosdns/v5/pkg/pool"
	"github.com/IrineSistiana/mosdns/v5/pkg/query_context"
	"github.com/IrineSistiana/mosdns/v5/pkg/upstream"
	fastforward "github.com/IrineSistiana/mosdns/v5/plugin/executable/forward"
	"github.com/IrineSistiana/mosdns/v5/plugin/executable/sequence"
	"github.com/miekg/dns"

	"verifharness/hx"
)

const (
	blockedAfter = 10 * time.Second // "should have happened long ago"
	settle       = 300 * time.Microsecond
)

// ---------- scripted outcomes ----------

type outcome struct {
	kind    string // msg | fail | garbage | timeout
	rcode   int
	hdrOnly bool // msg: a bare 12 byte header (no question, no answer)
	gv      int  // garbage variant
}

var garbage = [][]byte{
	{0x00},
	{1, 2, 3, 4, 5},
	{0, 1, 0x81, 0x80, 0, 1, 0, 0, 0, 0, 0, 0, 0xC0},        // header + dangling compression pointer
	{0, 1, 0x81, 0x80, 0, 1, 0, 0, 0, 0, 0, 0, 5, 'a', 'b'}, // header + truncated label
}

func (o outcome) tag(u, k int) int {
	if o.hdrOnly {
		return 255
	}
	return u*4 + k
}

func (o outcome) coq(u, k int) string {
	switch o.kind {
	case "msg":
		return hx.App("UMsg", hx.Ni(o.rcode), hx.Ni(o.tag(u, k)))
	case "fail":
		return "UFail"
	case "garbage":
		return "UGarbage"
	}
	return "UTimeout"
}

func (o outcome) String() string {
	switch o.kind {
	case "msg":
		if o.hdrOnly {
			return fmt.Sprintf("hdr%d", o.rcode)
		}
		return fmt.Sprintf("rc%d", o.rcode)
	case "garbage":
		return fmt.Sprintf("garbage%d", o.gv)
	}
	return o.kind
}

var errScripted = errors.New("scripted upstream failure")
var errCause = errors.New("scripted cancel cause")

func replyWire(q []byte, o outcome, tag int) []byte {
	if o.hdrOnly {
		w := make([]byte, 12)
		if len(q) >= 2 {
			copy(w, q[:2])
		}
		w[2] = 0x81
		w[3] = 0x80 | byte(o.rcode&0xF)
		return w
	}
	qm := new(dns.Msg)
	if err := qm.Unpack(q); err != nil || len(qm.Question) == 0 {
		qm = new(dns.Msg)
		qm.SetQuestion("fallback.test.", dns.TypeA)
		if len(q) >= 2 {
			qm.Id = uint16(q[0])<<8 | uint16(q[1])
		}
	}
	m := new(dns.Msg)
	m.SetRcode(qm, o.rcode)
	m.Answer = append(m.Answer, &dns.A{
		Hdr: dns.RR_Header{Name: qm.Question[0].Name, Rrtype: dns.TypeA, Class: dns.ClassINET, Ttl: 60},
		A:   net.IPv4(10, 0, 0, byte(tag)),
	})
	w, err := m.Pack()
	if err != nil {
		panic(err)
	}
	return w
}

// ---------- the scripted in-memory upstream ----------

type relMsg struct {
	o   outcome
	tag int
}

type call struct {
	u, k     int
	got      []byte
	ptr      *byte
	ctx      context.Context
	rel      chan relMsg
	lo, hi   int64
	released bool
}

type world struct {
	mu      sync.Mutex
	calls   []*call
	perUp   []int
	arrived chan struct{}
	t0      time.Time
	honour  bool // calls return with ctx.Err() when their context ends
	// the first call to reach any upstream is answered at once with this outcome (no blocking anywhere)
	immediate *outcome
}

type scriptUp struct {
	idx int
	w   *world
}

func (s *scriptUp) Close() error { return nil }

func (s *scriptUp) ExchangeContext(ctx context.Context, m []byte) (*[]byte, error) {
	t1 := time.Now()
	c := &call{u: s.idx, got: append([]byte(nil), m...), ctx: ctx, rel: make(chan relMsg, 1)}
	if len(m) > 0 {
		c.ptr = &m[0]
	}
	if dl, ok := ctx.Deadline(); ok {
		c.lo = int64(dl.Sub(s.w.t0) / time.Second)                 // floor of (deadline - before the call)
		c.hi = int64((dl.Sub(t1) + time.Second - 1) / time.Second) // ceil of (deadline - inside the upstream)
	} else {
		c.lo, c.hi = 0, 99
	}
	s.w.mu.Lock()
	c.k = s.w.perUp[s.idx]
	s.w.perUp[s.idx]++
	s.w.calls = append(s.w.calls, c)
	first := len(s.w.calls) == 1
	s.w.mu.Unlock()
	if first && s.w.immediate != nil {
		c.released = true
		c.rel <- relMsg{*s.w.immediate, s.w.immediate.tag(c.u, c.k)}
	}
	s.w.arrived <- struct{}{}

	var ended <-chan struct{}
	if s.w.honour {
		ended = ctx.Done()
	}
	select {
	case r := <-c.rel:
		switch r.o.kind {
		case "msg":
			w := replyWire(c.got, r.o, r.tag)
			b := pool.GetBuf(len(w))
			copy(*b, w)
			return b, nil
		case "garbage":
			g := garbage[r.o.gv%len(garbage)]
			b := pool.GetBuf(len(g))
			copy(*b, g)
			return b, nil
		}
		return nil, errScripted
	case <-ended:
		return nil, ctx.Err()
	}
}

func (w *world) snapshot() []*call {
	w.mu.Lock()
	defer w.mu.Unlock()
	return append([]*call(nil), w.calls...)
}

func (w *world) find(u, k int) *call {
	w.mu.Lock()
	defer w.mu.Unlock()
	for _, c := range w.calls {
		if c.u == u && c.k == k {
			return c
		}
	}
	return nil
}

// ---------- scenarios ----------

type slot struct{ u, k int }

type scenario struct {
	id          string
	n           int
	selKind     int // 0 Exec, 1 QuickConfigureExec(""), 2 QuickConfigureExec(tags)
	sub         []int
	conc        int
	ordered     bool
	out         [][]outcome // [upstream][occurrence]
	order       []slot      // the script's preference order over all possible calls
	maxRel      int         // let go at most this many of the calls that exist
	cancelAt    int         // cancel the caller's context once this many were let go; -1 never
	preCancel   bool        // with cancelAt == 0: cancel before entering the call
	cause       bool        // cancel with a cause
	timeoutMode bool        // silent upstreams return when their own context expires
	q           *dns.Msg
	real        bool          // NewForward over loopback UDP instead of in-memory upstreams
	blank       bool          // QuickConfigureExec(" ") : no upstream at all
	callerDL    time.Duration // != 0: the caller's context has a deadline this far after the start of the call
	pad         int           // >0: pad the query (EDNS0 padding in qCtx.QOpt()) to exactly this many bytes on the wire
	catSeq      []outcome     // catalogue: the j-th existing call (by upstream, occurrence) gets catSeq[j]
}

func (sc *scenario) effLen() int {
	if sc.blank {
		return 0
	}
	if sc.selKind == 2 {
		return len(sc.sub)
	}
	return sc.n
}

// number of calls the driver waits for before it starts the script
func (sc *scenario) expectCalls() int {
	if sc.effLen() == 0 {
		return 0
	}
	c := sc.conc
	if c < 1 {
		c = 1
	}
	if c > 3 {
		c = 3
	}
	return c
}

func (sc *scenario) selCoq() string {
	switch {
	case sc.blank:
		return hx.App("SQuick", hx.NatList(nil))
	case sc.selKind == 1:
		return "SQuickAll"
	case sc.selKind == 2:
		return hx.App("SQuick", hx.NatList(sc.sub))
	}
	return "SExec"
}

func (sc *scenario) quickArgs() string {
	if sc.blank {
		return " "
	}
	if sc.selKind == 1 {
		return ""
	}
	t := make([]string, len(sc.sub))
	for i, p := range sc.sub {
		t[i] = fmt.Sprintf("t%d", p)
	}
	return strings.Join(t, " ")
}

type result struct {
	kind string
	c    hx.Case
}

func classify(err error, qCtx *query_context.Context, ctx context.Context) string {
	if err == nil {
		r := qCtx.R()
		if r == nil {
			return "OErrOther"
		}
		tag := 255
		if len(r.Answer) > 0 {
			if a, ok := r.Answer[0].(*dns.A); ok && a.A.To4() != nil {
				tag = int(a.A.To4()[3])
			}
		}
		return hx.App("ORep", hx.Ni(r.Rcode), hx.Ni(tag))
	}
	if qCtx.R() != nil {
		return "OErrOther"
	}
	if ctx.Err() != nil && err == context.Cause(ctx) {
		return "OErrCtx"
	}
	switch err.Error() {
	case "all upstream servers failed":
		return "OErrAll"
	case "no upstream to exchange":
		return "OErrNoUp"
	}
	return "OErrOther"
}

func entry(f *fastforward.Forward, sc *scenario) (sequence.Executable, error) {
	if sc.selKind == 0 && !sc.blank {
		return f, nil
	}
	e, err := f.QuickConfigureExec(sc.quickArgs())
	if err != nil {
		return nil, err
	}
	return e.(sequence.Executable), nil
}

// padQuery grows the query of qCtx to exactly target bytes on the wire with an
// EDNS0 padding option in the OPT record query_context put there (what an
// ecs/padding plugin in front of forward does). The padding is patterned so
// that no stale buffer can be mistaken for it.
func padQuery(qCtx *query_context.Context, target int, seed uint64) {
	if target <= 0 {
		return
	}
	opt := qCtx.QOpt()
	p := &dns.EDNS0_PADDING{Padding: []byte{}}
	opt.Option = append(opt.Option, p)
	base, err := qCtx.Q().Pack()
	if err != nil {
		panic(err)
	}
	if k := target - len(base); k > 0 {
		p.Padding = hx.GenBytes(k, seed|1)
		for i := range p.Padding {
			p.Padding[i] |= 0x80
		}
	}
	w, err := qCtx.Q().Pack()
	if err != nil {
		panic(err)
	}
	if len(w) != target && len(base) <= target {
		panic(fmt.Sprintf("padQuery: wanted %d bytes on the wire, got %d", target, len(w)))
	}
}

func emitRun(sc *scenario, qlen int, calls []int, payOK bool, dl string, evs []string, obs string, stuck int, extra map[string]any) result {
	sort.Ints(calls)
	cdl := "None"
	if sc.callerDL != 0 {
		cdl = hx.Some(hx.Z(int64(sc.callerDL / time.Second)))
	}
	coq := hx.App("CRun", hx.Bool(sc.real), hx.Ni(qlen), cdl, hx.Nat(sc.n), sc.selCoq(), hx.Z(int64(sc.conc)), hx.Bool(sc.ordered),
		hx.NatList(calls), hx.Bool(payOK), dl, hx.List(evs), obs, hx.Nat(stuck))
	desc := map[string]any{"qlen": qlen, "caller_deadline": sc.callerDL.String(), "n": sc.n, "conc": sc.conc, "ordered": sc.ordered, "sel": sc.selCoq(), "obs": obs, "real": sc.real}
	for k, v := range extra {
		desc[k] = v
	}
	kind := "ordered"
	if !sc.ordered {
		kind = "unordered"
	}
	if sc.real {
		kind = "udp"
	}
	if sc.timeoutMode {
		kind = "timeout"
	}
	return result{kind, hx.Case{ID: sc.id, Coq: coq, Desc: desc}}
}

func run(sc *scenario) result {
	if sc.real {
		return runUDP(sc)
	}
	w := &world{perUp: make([]int, sc.n), arrived: make(chan struct{}, 64), honour: sc.timeoutMode}
	vus := make([]fastforward.VerifUpstream, sc.n)
	for i := range vus {
		vus[i] = fastforward.VerifUpstream{Tag: fmt.Sprintf("t%d", i), U: &scriptUp{idx: i, w: w}}
	}
	f := fastforward.VerifNewForward(sc.conc, vus)
	defer f.Close()
	ex, err := entry(f, sc)
	if err != nil {
		return result{"setup-error", hx.Case{ID: sc.id, Coq: hx.App("CQuickErr", hx.Nat(sc.n), "false", "true")}}
	}

	qCtx := query_context.NewContext(sc.q)
	padQuery(qCtx, sc.pad, uint64(sc.q.Id)+uint64(sc.pad))
	expected, err := qCtx.Q().Pack()
	if err != nil {
		panic(err)
	}
	parent := context.Background()
	if sc.callerDL != 0 {
		var pc context.CancelFunc
		parent, pc = context.WithDeadline(parent, time.Now().Add(sc.callerDL))
		defer pc()
	}
	ctx, cancelFn := context.WithCancelCause(parent)
	defer cancelFn(nil)
	var evs []string
	cancelled := false
	doCancel := func() {
		if sc.cause {
			cancelFn(errCause)
		} else {
			cancelFn(nil)
		}
		cancelled = true
		evs = append(evs, "ECancel")
	}
	if sc.cancelAt == 0 && sc.preCancel {
		doCancel()
	}

	retCh := make(chan error, 1)
	w.t0 = time.Now()
	go func() {
		// a panic inside Exec is an outcome of the call (an error nobody would call "the best answer"), not
		// a reason to lose the whole run
		defer func() {
			if p := recover(); p != nil {
				retCh <- fmt.Errorf("panic in Exec: %v", p)
			}
		}()
		retCh <- ex.Exec(ctx, qCtx)
	}()

	returned, hang := false, false
	var retErr error
	waitRet := func(d time.Duration) bool {
		if returned {
			return true
		}
		t := time.NewTimer(d)
		defer t.Stop()
		select {
		case retErr = <-retCh:
			returned = true
		case <-t.C:
		}
		return returned
	}
	waitWorker := func(c *call) bool {
		t := time.NewTimer(blockedAfter)
		defer t.Stop()
		select {
		case <-c.ctx.Done():
			// Canceled: the worker goroutine ran its deferred cancel(), i.e. it ended.
			// DeadlineExceeded: the 5 s expired with the worker still alive (blocked).
			return errors.Is(c.ctx.Err(), context.Canceled)
		case <-t.C:
			return false
		}
	}

	// all worker goroutines have entered their upstream
	e := sc.expectCalls()
	{
		t := time.NewTimer(3 * time.Second)
		for got := 0; got < e; {
			select {
			case <-w.arrived:
				got++
				continue
			case <-t.C:
			}
			break
		}
		t.Stop()
	}

	// the script applied to the calls that exist (the start position is random)
	type planned struct {
		c *call
		o outcome
	}
	var plan []planned
	if sc.catSeq != nil {
		cs := w.snapshot()
		sort.Slice(cs, func(i, j int) bool { return cs[i].u*4+cs[i].k < cs[j].u*4+cs[j].k })
		for j, c := range cs {
			if j < len(sc.catSeq) {
				plan = append(plan, planned{c, sc.catSeq[j]})
			}
		}
	} else {
		for _, sl := range sc.order {
			if c := w.find(sl.u, sl.k); c != nil {
				plan = append(plan, planned{c, sc.out[sl.u][sl.k]})
			}
		}
	}

	stuck := 0
	release := func(c *call, o outcome) {
		c.released = true
		c.rel <- relMsg{o, o.tag(c.u, c.k)}
	}

	if sc.ordered {
		released := 0
		if sc.cancelAt == 0 && !cancelled {
			doCancel()
			hang = !waitRet(blockedAfter)
		}
		for _, pl := range plan {
			if returned || hang || released >= sc.maxRel {
				break
			}
			c, o := pl.c, pl.o
			if c.released || o.kind == "timeout" {
				continue
			}
			release(c, o)
			if !waitWorker(c) {
				stuck++
				break
			}
			evs = append(evs, hx.App("EArr", hx.Nat(c.u), o.coq(c.u, c.k)))
			released++
			runtime.Gosched()
			waitRet(settle)
			if !returned && released == sc.cancelAt && !cancelled {
				doCancel()
				hang = !waitRet(blockedAfter)
			}
		}
		if !returned && !hang && stuck == 0 {
			if sc.timeoutMode {
				// the silent upstreams give up when their own 5 s context expires
				var rest []*call
				for _, c := range w.snapshot() {
					if !c.released {
						rest = append(rest, c)
					}
				}
				sort.Slice(rest, func(i, j int) bool { return rest[i].u*4+rest[i].k < rest[j].u*4+rest[j].k })
				hang = !waitRet(9 * time.Second)
				if !hang {
					for _, c := range rest {
						c.released = true // ended on its own
						evs = append(evs, hx.App("EArr", hx.Nat(c.u), "UTimeout"))
					}
				}
			} else {
				if !waitRet(settle) && !cancelled {
					doCancel()
				}
				hang = !waitRet(blockedAfter)
			}
		}
	} else {
		// everything at once
		start := make(chan struct{})
		var wg sync.WaitGroup
		var fired []*call
		for _, pl := range plan {
			c, o := pl.c, pl.o
			if o.kind == "timeout" {
				continue
			}
			fired = append(fired, c)
			evs = append(evs, hx.App("EArr", hx.Nat(c.u), o.coq(c.u, c.k)))
			c.released = true
			wg.Add(1)
			go func(c *call, o outcome) {
				defer wg.Done()
				<-start
				c.rel <- relMsg{o, o.tag(c.u, c.k)}
			}(c, o)
		}
		needCancel := sc.cancelAt >= 0 || len(fired) < e
		if needCancel && !cancelled {
			evs = append(evs, "ECancel")
			cancelled = true
			wg.Add(1)
			go func() {
				defer wg.Done()
				<-start
				if sc.cause {
					cancelFn(errCause)
				} else {
					cancelFn(nil)
				}
			}()
		}
		close(start)
		wg.Wait()
		hang = !waitRet(blockedAfter)
		for _, c := range fired {
			if !hang && !waitWorker(c) {
				stuck++
			}
		}
	}

	obs := "OHang"
	if returned {
		obs = classify(retErr, qCtx, ctx)
	}

	// let every remaining call go and see every worker goroutine end
	for round := 0; round < 3; round++ {
		for _, c := range w.snapshot() {
			if !c.released {
				release(c, outcome{kind: "fail"})
				if returned && !sc.timeoutMode && !waitWorker(c) {
					stuck++
				}
			}
		}
		runtime.Gosched()
	}
	if !returned {
		// the call is blocked: every worker was let go, give it a last chance so goroutines do not pile up
		cancelFn(nil)
		waitRet(time.Second)
	}

	calls, payOK, dl := w.observe(expected)
	return emitRun(sc, len(expected), calls, payOK, dl, evs, obs, stuck, nil)
}

// observe reports what the upstreams saw: the upstream index of every call,
// whether every call was handed exactly the packed query of THIS call in a
// buffer of its own, and the whole seconds of the deadlines.
func (w *world) observe(expected []byte) (calls []int, payOK bool, dl string) {
	all := w.snapshot()
	calls = make([]int, len(all))
	payOK = true
	lo, hi := int64(1<<40), int64(-1)
	seen := map[*byte]bool{}
	for i, c := range all {
		calls[i] = c.u
		if !bytes.Equal(c.got, expected) {
			payOK = false
		}
		if c.ptr == nil || seen[c.ptr] {
			payOK = false
		}
		seen[c.ptr] = true
		if c.lo < lo {
			lo = c.lo
		}
		if c.hi > hi {
			hi = c.hi
		}
	}
	dl = "None"
	if len(all) > 0 {
		dl = hx.Some(hx.Tuple(hx.Z(lo), hx.Z(hi)))
	}
	return
}

// ---------- late helpers: Exec returns before some helper goroutines have started ----------

// scramble keeps the length of a domain name and changes its letters.
func scramble(name string, salt int) string {
	b := []byte(name)
	for i, ch := range b {
		if ch != '.' {
			b[i] = 'a' + byte((int(ch)+salt+i)%26)
		}
	}
	return string(b)
}

// runLate must be called with GOMAXPROCS(1), from a goroutine that does not
// block between entering Exec and the end of the recycling step. Exec is called
// synchronously, so the helper goroutines it starts cannot run before this
// goroutine blocks: with an already ended context (variant "pre") Exec returns
// before any helper has started; with upstreams of which the first one reached
// answers NOERROR at once (variant "imm") Exec returns as soon as one helper
// has run, the others still waiting for the processor. exchange's deferred
// ReleaseBuf has then handed the packed query back to the byte pool; the driver
// packs other messages of the same size (the next queries of a busy server),
// which recycles that buffer, and only then lets the late helpers run. Whatever
// an upstream of THIS call receives must still be this call's query.
// If the scheduler preempts the driver anyway the case degrades to an ordinary
// one: nothing observed depends on the schedule when the code is correct.
func runLate(sc *scenario, imm bool) result {
	w := &world{perUp: make([]int, sc.n), arrived: make(chan struct{}, 64)}
	if imm {
		w.immediate = &outcome{kind: "msg", rcode: 0}
	}
	vus := make([]fastforward.VerifUpstream, sc.n)
	for i := range vus {
		vus[i] = fastforward.VerifUpstream{Tag: fmt.Sprintf("t%d", i), U: &scriptUp{idx: i, w: w}}
	}
	f := fastforward.VerifNewForward(sc.conc, vus)
	defer f.Close()
	ex, err := entry(f, sc)
	if err != nil {
		panic(err)
	}
	qCtx := query_context.NewContext(sc.q)
	padQuery(qCtx, sc.pad, uint64(sc.q.Id)+uint64(sc.pad))
	expected, err := qCtx.Q().Pack()
	if err != nil {
		panic(err)
	}
	// the other queries, prepared beforehand so that nothing but packing happens in the window
	var others []*dns.Msg
	for i := 0; i < 6; i++ {
		o := qCtx.Q().Copy()
		o.Id ^= uint16(0xffff - i)
		o.Question[0].Name = scramble(o.Question[0].Name, 7*i+3)
		o.Question[0].Qtype = dns.TypeAAAA + uint16(i)
		others = append(others, o)
	}
	held := make([]*[]byte, 0, len(others))
	parent := context.Background()
	if sc.callerDL != 0 {
		var pc context.CancelFunc
		parent, pc = context.WithDeadline(parent, time.Now().Add(sc.callerDL))
		defer pc()
	}
	ctx, cancelFn := context.WithCancelCause(parent)
	defer cancelFn(nil)
	var evs []string
	if !imm {
		if sc.cause {
			cancelFn(errCause)
		} else {
			cancelFn(nil)
		}
		evs = append(evs, "ECancel")
	}

	var retErr error
	w.t0 = time.Now()
	func() {
		defer func() {
			if p := recover(); p != nil {
				retErr = fmt.Errorf("panic in Exec: %v", p)
			}
		}()
		retErr = ex.Exec(ctx, qCtx)
	}()
	// the server goes on: the next queries are packed
	for _, o := range others {
		if b, err := pool.PackBuffer(o); err == nil {
			held = append(held, b)
		}
	}
	obs := classify(retErr, qCtx, ctx)

	// now let every helper reach its upstream
	e := sc.expectCalls()
	{
		t := time.NewTimer(3 * time.Second)
		for got := 0; got < e; {
			select {
			case <-w.arrived:
				got++
				continue
			case <-t.C:
			}
			break
		}
		t.Stop()
	}
	if imm {
		if all := w.snapshot(); len(all) > 0 {
			c := all[0]
			evs = append(evs, hx.App("EArr", hx.Nat(c.u), w.immediate.coq(c.u, c.k)))
		}
	}
	stuck := 0
	for round := 0; round < 3; round++ {
		for _, c := range w.snapshot() {
			if !c.released {
				c.released = true
				c.rel <- relMsg{outcome{kind: "fail"}, 0}
			}
		}
		runtime.Gosched()
	}
	for _, c := range w.snapshot() {
		t := time.NewTimer(blockedAfter)
		select {
		case <-c.ctx.Done():
			if !errors.Is(c.ctx.Err(), context.Canceled) {
				stuck++
			}
		case <-t.C:
			stuck++
		}
		t.Stop()
	}
	for _, b := range held {
		pool.ReleaseBuf(b)
	}
	calls, payOK, dl := w.observe(expected)
	r := emitRun(sc, len(expected), calls, payOK, dl, evs, obs, stuck, map[string]any{"late": map[bool]string{true: "imm", false: "pre"}[imm]})
	r.kind = "late"
	return r
}

func genLate(r *hx.RNG, id string, conc, n int) *scenario {
	sc := &scenario{id: id, n: n, conc: conc, ordered: true, cancelAt: -1, cause: r.Bool()}
	if r.Chance(1, 4) {
		sc.selKind = 1
	} else if r.Chance(1, 4) {
		sc.selKind = 2
		for i, l := 0, r.Range(1, 3); i < l; i++ {
			sc.sub = append(sc.sub, r.Intn(n))
		}
	}
	sc.q = genQuery(r)
	if r.Chance(1, 6) {
		sc.pad = hx.Pick(r, []int{8190, 8191, 9000, 20000})
	}
	if r.Chance(1, 3) {
		sc.callerDL = hx.Pick(r, []time.Duration{6 * time.Second, 30 * time.Second, time.Hour})
	}
	return sc
}

// ---------- the real constructor over loopback UDP servers ----------

type udpCall struct {
	u, k int
	got  []byte
	addr *net.UDPAddr
	rel  chan relMsg
}

type udpSrv struct {
	idx   int
	conn  *net.UDPConn
	mu    sync.Mutex
	calls []*udpCall
}

func runUDP(sc *scenario) result {
	srvs := make([]*udpSrv, sc.n)
	arrived := make(chan struct{}, 64)
	args := &fastforward.Args{Concurrent: sc.conc}
	for i := range srvs {
		conn, err := net.ListenUDP("udp", &net.UDPAddr{IP: net.IPv4(127, 0, 0, 1)})
		if err != nil {
			panic(err)
		}
		s := &udpSrv{idx: i, conn: conn}
		srvs[i] = s
		args.Upstreams = append(args.Upstreams, fastforward.UpstreamConfig{
			Tag: fmt.Sprintf("t%d", i), Addr: "udp://" + conn.LocalAddr().String()})
		go func() {
			buf := make([]byte, 4096)
			for {
				n, addr, err := conn.ReadFromUDP(buf)
				if err != nil {
					return
				}
				c := &udpCall{u: s.idx, got: append([]byte(nil), buf[:n]...), addr: addr, rel: make(chan relMsg, 1)}
				s.mu.Lock()
				c.k = len(s.calls)
				s.calls = append(s.calls, c)
				s.mu.Unlock()
				go func() {
					r := <-c.rel
					if r.o.kind == "msg" {
						conn.WriteToUDP(replyWire(c.got, r.o, r.tag), c.addr)
					}
				}()
				arrived <- struct{}{}
			}
		}()
	}
	defer func() {
		for _, s := range srvs {
			s.conn.Close()
		}
	}()
	f, err := fastforward.NewForward(args, fastforward.Opts{})
	if err != nil {
		panic(err)
	}
	defer f.Close()
	ex, err := entry(f, sc)
	if err != nil {
		panic(err)
	}
	qCtx := query_context.NewContext(sc.q)
	expected, _ := qCtx.Q().Pack()
	ctx, cancelFn := context.WithCancelCause(context.Background())
	defer cancelFn(nil)
	retCh := make(chan error, 1)
	go func() {
		// a panic inside Exec is an outcome of the call (an error nobody would call "the best answer"), not
		// a reason to lose the whole run
		defer func() {
			if p := recover(); p != nil {
				retCh <- fmt.Errorf("panic in Exec: %v", p)
			}
		}()
		retCh <- ex.Exec(ctx, qCtx)
	}()

	e := sc.expectCalls()
	{
		t := time.NewTimer(5 * time.Second)
		for got := 0; got < e; {
			select {
			case <-arrived:
				got++
				continue
			case <-t.C:
			}
			break
		}
		t.Stop()
	}
	var all []*udpCall
	for _, s := range srvs {
		s.mu.Lock()
		all = append(all, s.calls...)
		s.mu.Unlock()
	}
	var evs []string
	start := make(chan struct{})
	var wg sync.WaitGroup
	fired := 0
	for _, c := range all {
		o := sc.out[c.u][c.k%3]
		if o.kind != "msg" {
			continue
		}
		fired++
		evs = append(evs, hx.App("EArr", hx.Nat(c.u), o.coq(c.u, c.k)))
		wg.Add(1)
		go func(c *udpCall, o outcome) {
			defer wg.Done()
			<-start
			c.rel <- relMsg{o, o.tag(c.u, c.k)}
		}(c, o)
	}
	if sc.cancelAt >= 0 || fired < e {
		evs = append(evs, "ECancel")
		wg.Add(1)
		go func() {
			defer wg.Done()
			<-start
			cancelFn(nil)
		}()
	}
	close(start)
	wg.Wait()
	obs := "OHang"
	select {
	case err := <-retCh:
		obs = classify(err, qCtx, ctx)
	case <-time.After(blockedAfter):
	}
	calls := make([]int, len(all))
	payOK := true
	for i, c := range all {
		calls[i] = c.u
		// the UDP transport assigns its own message id; everything after it must be untouched
		if len(c.got) != len(expected) || len(c.got) < 2 || !bytes.Equal(c.got[2:], expected[2:]) {
			payOK = false
		}
	}
	for _, c := range all {
		select {
		case c.rel <- relMsg{outcome{kind: "fail"}, 0}:
		default:
		}
	}
	return emitRun(sc, len(expected), calls, payOK, "None", evs, obs, 0, nil)
}

// ---------- generators ----------

var qnames = []string{"a.test.", "bb.example.org.", "www.some-longer-name.example.net.", "."}
var qtypes = []uint16{dns.TypeA, dns.TypeAAAA, dns.TypeTXT, dns.TypeMX}

func genQuery(r *hx.RNG) *dns.Msg {
	m := new(dns.Msg)
	m.SetQuestion(hx.Pick(r, qnames), hx.Pick(r, qtypes))
	m.Id = uint16(r.Intn(65536))
	m.RecursionDesired = r.Bool()
	if r.Bool() {
		m.SetEdns0(uint16(hx.Pick(r, []int{512, 1232, 4096})), r.Bool())
	}
	return m
}

func msg(rc int) outcome { return outcome{kind: "msg", rcode: rc} }

var (
	oGood    = msg(0)
	oNX      = msg(3)
	oServ    = msg(2)
	oRefused = msg(5)
	oFail    = outcome{kind: "fail"}
	oSilent  = outcome{kind: "timeout"}
)

func oGarbage(v int) outcome { return outcome{kind: "garbage", gv: v} }

func genOutcome(r *hx.RNG) outcome {
	var o outcome
	switch r.Intn(14) {
	case 0, 1, 2:
		o = oGood
	case 3:
		o = oNX
	case 4, 5:
		o = oServ
	case 6:
		o = oRefused
	case 7:
		o = msg(hx.Pick(r, []int{1, 4, 9, 15}))
	case 8, 9:
		o = oFail
	case 10, 11:
		o = oGarbage(r.Intn(len(garbage)))
	case 12:
		o = oSilent
	default:
		o = hx.Pick(r, []outcome{oServ, oFail, oGarbage(0), oRefused})
	}
	if o.kind == "msg" && r.Chance(1, 12) {
		o.hdrOnly = true
	}
	return o
}

func allSlots(n int) []slot {
	var s []slot
	for u := 0; u < n; u++ {
		for k := 0; k < 3; k++ {
			s = append(s, slot{u, k})
		}
	}
	return s
}

func fillOut(n int, f func(u, k int) outcome) [][]outcome {
	out := make([][]outcome, n)
	for u := range out {
		out[u] = make([]outcome, 3)
		for k := range out[u] {
			out[u][k] = f(u, k)
		}
	}
	return out
}

func genScenario(r *hx.RNG, id string) *scenario {
	sc := &scenario{id: id, cancelAt: -1}
	sc.n = r.Range(1, 5)
	sc.conc = hx.Pick(r, []int{-1, 0, 1, 2, 2, 2, 3, 3, 3, 3, 4, 9})
	switch r.Intn(6) {
	case 0:
		sc.selKind = 1
	case 1, 2:
		sc.selKind = 2
		l := r.Range(1, 4)
		for i := 0; i < l; i++ {
			sc.sub = append(sc.sub, r.Intn(sc.n))
		}
	}
	e := sc.expectCalls()
	sc.out = fillOut(sc.n, func(u, k int) outcome { return genOutcome(r) })
	sl := allSlots(sc.n)
	for _, i := range r.Perm(len(sl)) {
		sc.order = append(sc.order, sl[i])
	}
	sc.ordered = r.Chance(3, 4)
	sc.maxRel = e
	if r.Chance(1, 4) {
		sc.maxRel = r.Intn(e + 1)
	}
	if r.Chance(1, 4) {
		sc.cancelAt = r.Intn(e + 1)
		sc.preCancel = r.Bool()
	}
	sc.cause = r.Bool()
	sc.q = genQuery(r)
	if r.Chance(1, 25) {
		sc.pad = hx.Pick(r, bigSizes) + hx.Pick(r, []int{0, 0, -7, 1, 100})
		if sc.pad > 65535 {
			sc.pad = 65535
		}
	}
	// the caller's context: mostly cancel-only, else with a deadline at, just beyond and far beyond the upstream
	// timeout; a 1 s deadline only where the script ends the context itself before the call
	if r.Chance(1, 3) {
		sc.callerDL = hx.Pick(r, []time.Duration{5 * time.Second, 6 * time.Second, 30 * time.Second, 30 * time.Second, time.Hour})
		if sc.cancelAt == 0 && sc.preCancel && r.Bool() {
			sc.callerDL = time.Second
		}
	}
	return sc
}

func genUDP(r *hx.RNG, id string) *scenario {
	sc := &scenario{id: id, cancelAt: -1, real: true}
	sc.n = r.Range(1, 4)
	sc.conc = hx.Pick(r, []int{0, 1, 2, 3, 3, 4})
	if r.Chance(1, 3) {
		sc.selKind = 2
		l := r.Range(1, 3)
		for i := 0; i < l; i++ {
			sc.sub = append(sc.sub, r.Intn(sc.n))
		}
	}
	sc.out = fillOut(sc.n, func(u, k int) outcome {
		switch r.Intn(6) {
		case 0, 1:
			return oGood
		case 2:
			return oNX
		case 3:
			return oServ
		case 4:
			return oRefused
		}
		return oSilent
	})
	if r.Chance(1, 5) {
		sc.cancelAt = 0
	}
	sc.q = genQuery(r)
	return sc
}

// ---------- catalogue ----------

// a hand-written scenario: the j-th existing call (ordered by upstream index,
// then occurrence) gets seq[j] and they are let go in that order
type cat struct {
	name     string
	n, conc  int
	seq      []outcome
	cancelAt int // -1 never
	pre      bool
	selKind  int
	sub      []int
	blank    bool
	unord    bool
	timeout  bool
	pad      int
	dl       time.Duration
}

func (c cat) scenario(seed uint64) *scenario {
	id := "cat:" + c.name
	r := hx.NewRNG(seed, id)
	sc := &scenario{id: id, n: c.n, conc: c.conc, ordered: !c.unord, cancelAt: c.cancelAt, preCancel: c.pre,
		selKind: c.selKind, sub: c.sub, blank: c.blank, timeoutMode: c.timeout, cause: r.Bool()}
	sc.q = genQuery(r)
	sc.pad = c.pad
	sc.callerDL = c.dl
	sc.maxRel = len(c.seq)
	sc.catSeq = c.seq
	if sc.catSeq == nil {
		sc.catSeq = []outcome{}
	}
	return sc
}

var bigSizes = []int{4096, 8189, 8190, 8191, 8192, 8193, 9000, 16383, 16384, 20000, 32768, 65534, 65535}

func catalogue(thorough bool) []cat {
	var cs []cat
	add := func(c cat) { cs = append(cs, c) }
	S := func(o ...outcome) []outcome { return o }
	// the clamp and the cyclic selection: every concurrency setting on every list length
	for _, conc := range []int{-5, -1, 0, 1, 2, 3, 4, 9, 1000} {
		for _, n := range []int{1, 2, 3, 4, 5} {
			add(cat{name: fmt.Sprintf("clamp:%d:%d", conc, n), n: n, conc: conc, seq: S(oServ, oFail, oGood), cancelAt: -1})
		}
	}
	// the acceptance rule at every loop index
	for _, conc := range []int{1, 2, 3} {
		for rc := 0; rc <= 6; rc++ {
			add(cat{name: fmt.Sprintf("first-rcode:%d:%d", conc, rc), n: 3, conc: conc, seq: S(msg(rc), oGood, oGood), cancelAt: -1})
			add(cat{name: fmt.Sprintf("last-rcode:%d:%d", conc, rc), n: 3, conc: conc, seq: S(oFail, oFail, msg(rc))[3-conc:], cancelAt: -1})
		}
	}
	for i, seq := range [][]outcome{
		S(oGood), S(oNX, oGood), S(oServ, oGood), S(oServ, oRefused, oGood), S(oFail, oGarbage(0), oGood),
		S(oServ, oNX, oGood), S(oGood, oServ, oFail), S(oServ, oGood, oFail),
		S(oServ, oRefused, msg(4)), S(oServ, oRefused, oFail), S(oServ, oFail, oRefused), S(oFail, oServ, oGarbage(1)),
		S(oFail, oFail, oFail), S(oGarbage(0), oGarbage(1), oGarbage(2)), S(oGarbage(3), oFail, oGarbage(2)),
		S(oFail, oFail, oServ), S(oGarbage(2), oGarbage(3), oNX), S(outcome{kind: "msg", rcode: 5, hdrOnly: true}, oFail, oFail),
		S(oFail, oFail, outcome{kind: "msg", rcode: 5, hdrOnly: true}), S(outcome{kind: "msg", rcode: 0, hdrOnly: true}, oFail, oFail),
	} {
		add(cat{name: fmt.Sprintf("order3:%d", i), n: 3, conc: 3, seq: seq, cancelAt: -1})
		add(cat{name: fmt.Sprintf("order3wrap:%d", i), n: 2, conc: 3, seq: seq, cancelAt: -1})
		add(cat{name: fmt.Sprintf("order3one:%d", i), n: 1, conc: 9, seq: seq, cancelAt: -1})
		if len(seq) >= 2 {
			add(cat{name: fmt.Sprintf("order2:%d", i), n: 4, conc: 2, seq: seq[:2], cancelAt: -1})
		}
	}
	// context
	for conc := 1; conc <= 3; conc++ {
		for at := 0; at <= conc; at++ {
			add(cat{name: fmt.Sprintf("cancel:%d:%d", conc, at), n: 3, conc: conc, seq: S(oServ, oFail, oRefused)[:conc], cancelAt: at})
			add(cat{name: fmt.Sprintf("cancel-good-later:%d:%d", conc, at), n: 3, conc: conc, seq: S(oServ, oFail, oGood)[:conc], cancelAt: at})
		}
		add(cat{name: fmt.Sprintf("precancel:%d", conc), n: 2, conc: conc, seq: S(oGood, oGood, oGood)[:conc], cancelAt: 0, pre: true})
	}
	// slow / silent upstreams next to a good one
	add(cat{name: "silent:good-only", n: 3, conc: 3, seq: S(oSilent, oGood, oSilent), cancelAt: -1})
	add(cat{name: "silent:bad-then-good", n: 3, conc: 3, seq: S(oServ, oSilent, oGood), cancelAt: -1})
	add(cat{name: "silent:all", n: 3, conc: 3, seq: S(oSilent, oSilent, oSilent), cancelAt: -1})
	add(cat{name: "silent:bad-only", n: 3, conc: 2, seq: S(oServ, oSilent), cancelAt: -1})
	// tag subsets
	add(cat{name: "quick:all", n: 3, conc: 2, selKind: 1, seq: S(oServ, oGood), cancelAt: -1})
	add(cat{name: "quick:one", n: 3, conc: 3, selKind: 2, sub: []int{1}, seq: S(oServ, oFail, oGood), cancelAt: -1})
	add(cat{name: "quick:two", n: 4, conc: 3, selKind: 2, sub: []int{3, 0}, seq: S(oServ, oFail, oGood), cancelAt: -1})
	add(cat{name: "quick:dup", n: 3, conc: 2, selKind: 2, sub: []int{1, 1}, seq: S(oServ, oNX), cancelAt: -1})
	add(cat{name: "quick:rev", n: 5, conc: 2, selKind: 2, sub: []int{4, 3, 2, 1, 0}, seq: S(oFail, oServ), cancelAt: -1})
	add(cat{name: "quick:blank", n: 2, conc: 2, blank: true, cancelAt: -1})
	// all at once
	for i, seq := range [][]outcome{
		S(oGood, oGood, oGood), S(oServ, oGood, oFail), S(oServ, oRefused, oFail), S(oFail, oFail, oFail),
		S(oServ, oRefused, msg(4)), S(oGood, oNX, oServ),
	} {
		add(cat{name: fmt.Sprintf("race:%d", i), n: 3, conc: 3, seq: seq, cancelAt: -1, unord: true})
		add(cat{name: fmt.Sprintf("race-cancel:%d", i), n: 3, conc: 3, seq: seq, cancelAt: 0, unord: true})
	}
	// query sizes around pool.PackBuffer's 8191 byte scratch buffer (a message needs len+1 bytes of it to be
	// packed in place; larger ones are packed into a fresh slice) and up to the largest DNS message
	for _, size := range bigSizes {
		add(cat{name: fmt.Sprintf("big:%d:1", size), n: 2, conc: 1, seq: S(oGood), cancelAt: -1, pad: size})
		add(cat{name: fmt.Sprintf("big:%d:3", size), n: 3, conc: 3, seq: S(oServ, oFail, oGood), cancelAt: -1, pad: size})
		add(cat{name: fmt.Sprintf("big:%d:q", size), n: 3, conc: 2, selKind: 2, sub: []int{2, 0}, seq: S(oFail, oRefused), cancelAt: -1, pad: size})
	}
	// the caller's context has a deadline: at, just beyond and far beyond the 5 s upstream timeout; next to a
	// silent upstream (whose helper must still be bounded by the upstream timeout, not by the caller)
	for _, d := range []time.Duration{5 * time.Second, 6 * time.Second, 30 * time.Second, time.Hour} {
		sec := int(d / time.Second)
		add(cat{name: fmt.Sprintf("deadline:%d:1", sec), n: 2, conc: 1, seq: S(oGood), cancelAt: -1, dl: d})
		add(cat{name: fmt.Sprintf("deadline:%d:3", sec), n: 3, conc: 3, seq: S(oServ, oSilent, oGood), cancelAt: -1, dl: d})
		add(cat{name: fmt.Sprintf("deadline:%d:silent", sec), n: 3, conc: 3, seq: S(oSilent, oSilent, oSilent), cancelAt: -1, dl: d})
		add(cat{name: fmt.Sprintf("deadline:%d:cancel", sec), n: 3, conc: 2, seq: S(oServ, oSilent), cancelAt: 1, dl: d})
		add(cat{name: fmt.Sprintf("deadline:%d:race", sec), n: 3, conc: 3, seq: S(oServ, oGood, oFail), cancelAt: -1, unord: true, dl: d})
	}
	add(cat{name: "deadline:1:pre", n: 3, conc: 3, seq: S(oGood, oGood, oGood), cancelAt: 0, pre: true, dl: time.Second})
	add(cat{name: "deadline:past:pre", n: 3, conc: 2, seq: S(oGood, oGood), cancelAt: 0, pre: true, dl: -time.Second})
	// the upstream's own 5 s deadline ends a silent exchange, although the caller would wait for 30 s
	add(cat{name: "timeout:2", n: 2, conc: 2, seq: S(oSilent, oSilent), cancelAt: -1, timeout: true, dl: 30 * time.Second})
	if thorough {
		add(cat{name: "timeout:3", n: 3, conc: 3, seq: S(oServ, oSilent, oSilent), cancelAt: -1, timeout: true})
		add(cat{name: "timeout:1", n: 1, conc: 0, seq: S(oSilent), cancelAt: -1, timeout: true})
	}
	return cs
}

func quickErr(n int, args string, bad bool) hx.Case {
	vus := make([]fastforward.VerifUpstream, n)
	for i := range vus {
		vus[i] = fastforward.VerifUpstream{Tag: fmt.Sprintf("t%d", i), U: &scriptUp{idx: i}}
	}
	f := fastforward.VerifNewForward(2, vus)
	_, err := f.QuickConfigureExec(args)
	return hx.Case{Coq: hx.App("CQuickErr", hx.Nat(n), hx.Bool(bad), hx.Bool(err != nil)), Desc: map[string]any{"args": args}}
}

func main() {
	o := hx.ParseFlags()
	for i, g := range garbage {
		if new(dns.Msg).Unpack(g) == nil {
			fmt.Fprintf(os.Stderr, "garbage variant %d unpacks\n", i)
			os.Exit(2)
		}
	}
	var _ upstream.Upstream = (*scriptUp)(nil)
	w := hx.NewWriter(o)
	defer w.Close()
	thorough := o.Tier == "thorough"

	type job struct {
		id string
		f  func() result
	}
	var jobs []job
	addJob := func(id string, f func() result) {
		if o.Want(id) {
			jobs = append(jobs, job{id, f})
		}
	}
	// the 5 s cases first so that they overlap with everything else
	cats := catalogue(thorough)
	sort.SliceStable(cats, func(i, j int) bool { return cats[i].timeout && !cats[j].timeout })
	for _, c := range cats {
		c := c
		addJob("cat:"+c.name, func() result { return run(c.scenario(o.Seed)) })
	}
	for i, q := range []struct {
		n    int
		args string
		bad  bool
	}{{3, "t0 nope", true}, {3, "nope", true}, {2, "t2", true}, {2, "t1 t0", false}, {1, "t0 t0 t0", false}, {3, "T0", true}} {
		q := q
		id := fmt.Sprintf("cat:quickerr:%d", i)
		addJob(id, func() result {
			c := quickErr(q.n, q.args, q.bad)
			c.ID = id
			return result{"quickerr", c}
		})
	}
	n := o.Count(900, 20000)
	for i := 0; i < n; i++ {
		id := fmt.Sprintf("gen:%d", i)
		addJob(id, func() result { return run(genScenario(hx.NewRNG(o.Seed, id), id)) })
	}
	nu := 16
	if thorough {
		nu = 300
	}
	if o.N > 0 {
		nu = o.N / 50
	}
	for i := 0; i < nu; i++ {
		id := fmt.Sprintf("udp:%d", i)
		addJob(id, func() result { return run(genUDP(hx.NewRNG(o.Seed, id), id)) })
	}

	// Late-helper cases: sequentially, on one processor, before anything else runs.
	var late []result
	{
		type lj struct {
			id      string
			conc, n int
			imm     bool
		}
		var ljs []lj
		trials := 2
		if thorough {
			trials = 12
		}
		for _, conc := range []int{1, 2, 3, 9} {
			for _, n := range []int{1, 2, 4} {
				for t := 0; t < trials; t++ {
					ljs = append(ljs, lj{fmt.Sprintf("late:pre:%d:%d:%d", conc, n, t), conc, n, false})
					if conc >= 2 {
						ljs = append(ljs, lj{fmt.Sprintf("late:imm:%d:%d:%d", conc, n, t), conc, n, true})
					}
				}
			}
		}
		var todo []lj
		for _, j := range ljs {
			if o.Want(j.id) {
				todo = append(todo, j)
			}
		}
		if len(todo) > 0 {
			prev := runtime.GOMAXPROCS(1)
			for _, j := range todo {
				late = append(late, runLate(genLate(hx.NewRNG(o.Seed, j.id), j.id, j.conc, j.n), j.imm))
			}
			runtime.GOMAXPROCS(prev)
		}
	}

	results := make([]result, len(jobs))
	next := make(chan int, len(jobs))
	for i := range jobs {
		next <- i
	}
	close(next)
	var wg sync.WaitGroup
	for k := 0; k < 12; k++ {
		wg.Add(1)
		go func() {
			defer wg.Done()
			for i := range next {
				results[i] = jobs[i].f()
			}
		}()
	}
	wg.Wait()
	for _, r := range results {
		w.Emit(r.kind, r.c)
	}
	for _, r := range late {
		w.Emit(r.kind, r.c)
	}
}
