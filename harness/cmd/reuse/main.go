// Stand-alone driver for the scripted schedules on ReuseConnTransport (debug aid; C01/C02/C09/C07 use combined drivers).
package main

import (
	"verifharness/hx"
	"verifharness/reusex"
)

func main() {
	o := hx.ParseFlags()
	w := hx.NewWriter(o)
	defer w.Close()
	reusex.Drive(w, o, func(s string) string { return s })
}
