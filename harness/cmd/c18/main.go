// Driver for C18 (upstreams connect to exactly the configured address).
//
// Volume goes through the address helpers of pkg/upstream exported behind the
// verif tag and through upstream.NewUpstream (creation only); a few dozen
// cases per run are taken all the way to the network: a harness SOCKS5 proxy
// (tcp / tls / https: destination of the CONNECT request, SNI and whether a
// certificate issued for a chosen name is accepted) and loopback UDP sockets
// (udp / quic / h3: which address and port receives the first datagram).
// The library functions the model transcribes (net.SplitHostPort,
// strconv.ParseUint, netip.ParseAddr, net/url.Parse) are run on
// the same generated strings so that the transcription is checked as well.
package main

import (
	"context"
	"crypto/ecdsa"
	"crypto/elliptic"
	"crypto/rand"
	"crypto/tls"
	"crypto/x509"
	"crypto/x509/pkix"
	"encoding/base64"
	"encoding/binary"
	"fmt"
	"io"
	"log"
	"math/big"
	"net"
	"net/http"
	"net/netip"
	"net/url"
	"os"
	"sort"
	"strconv"
	"strings"
	"sync"
	"time"

	"github.com/IrineSistiana/mosdns/v5/pkg/upstream"
	"github.com/miekg/dns"
	"github.com/quic-go/quic-go"

	"verifharness/hx"
)

// ---------- endpoints (mirror Model.Addr.ep) ----------

type ep struct {
	v6   bool
	host string
	br   bool
	port *string
}

func sp(s string) *string { return &s }

func (e ep) render() string {
	s := e.host
	if e.v6 && e.br {
		s = "[" + s + "]"
	}
	if e.port != nil {
		s += ":" + *e.port
	}
	return s
}

func optStr(p *string) string {
	if p == nil {
		return "None"
	}
	return hx.Some(hx.Str(*p))
}

func (e ep) coq() string {
	if e.v6 {
		return hx.App("EV6", hx.Str(e.host), hx.Bool(e.br), optStr(e.port))
	}
	return hx.App("EName", hx.Str(e.host), optStr(e.port))
}

func (e ep) desc() string { return e.render() }

// inp: a string given either literally or as an endpoint whose rendering the
// judge recomputes.
type inp struct {
	raw string
	e   *ep
}

func (i inp) str() string {
	if i.e != nil {
		return i.e.render()
	}
	return i.raw
}

func (i inp) coq() string {
	if i.e != nil {
		return hx.App("IEp", i.e.coq())
	}
	return hx.App("IRaw", hx.Str(i.raw))
}

func ipBytes(a netip.Addr) string {
	if a.Is4() {
		b := a.As4()
		return hx.Bytes(b[:])
	}
	b := a.As16()
	return hx.Bytes(b[:])
}

func optIP(s string) string {
	a, err := netip.ParseAddr(s)
	if err != nil {
		return "None"
	}
	return hx.Some(ipBytes(a))
}

// uin: the address given to NewUpstream, either raw or scheme/endpoint/path.
type uin struct {
	raw     bool
	addr    string
	dialRaw string

	scheme string // "" = no scheme written
	e      ep
	path   string
	dial   *ep
}

func (u uin) addrStr() string {
	if u.raw {
		return u.addr
	}
	if u.scheme == "" {
		return u.e.render() + u.path
	}
	return u.scheme + "://" + u.e.render() + u.path
}

func (u uin) dialStr() string {
	if u.raw {
		return u.dialRaw
	}
	if u.dial == nil {
		return ""
	}
	return u.dial.render()
}

func (u uin) coq() string {
	if u.raw {
		return hx.App("URaw", hx.Str(u.addr), hx.Str(u.dialRaw))
	}
	d := "None"
	eff := u.e
	if u.dial != nil {
		d = hx.Some(u.dial.coq())
		eff = *u.dial
	}
	return hx.App("UMean", hx.Str(u.scheme), u.e.coq(), hx.Str(u.path), d, optIP(eff.host), optIP(u.e.host))
}

// ---------- generators ----------

var names = []string{"a", "dns", "dns.example", "x-1.example.org", "localhost", "1.2.3.4", "127.0.0.1",
	"10.0.0.53", "256.1.1.1", "1.2.3", "a_b.example", "8.8.8.8", "01.2.3.4"}

var v6s = []string{"::1", "::", "2001:db8::1", "2001:db8::53", "fe80::abcd", "2001:0db8:0000:0000:0000:0000:0000:0001",
	"1:2:3:4:5:6:7:8", "::ffff:1.2.3.4", "1::", "2001:db8::", "2001:DB8::A", "::1:2", "0:0:0:0:0:0:0:1", "1:2::3:4",
	"1:2:3:4:5:6:7::", "::2:3:4:5:6:7:8", "1:2:3:4:5:6:1.2.3.4", "12345::1", "1:::2", ":::", "1:2:3:4:5:6:7:8:9"}

var goodPorts = []string{"53", "853", "443", "1", "65535", "5353", "8053", "00053", "65534", "10000", "80"}
var badPorts = []string{"0", "65536", "99999", "", "+53", "-1", "5a", "99999999999999999999999", "00000", "655350", "0x35", "5_3"}

func genName(r *hx.RNG) string {
	if r.Chance(3, 4) {
		return hx.Pick(r, names)
	}
	const al = "ab1.-"
	n := r.Range(1, 6)
	b := make([]byte, n)
	for i := range b {
		b[i] = al[r.Intn(len(al))]
	}
	return string(b)
}

func genV6(r *hx.RNG) string {
	if r.Chance(2, 3) {
		return hx.Pick(r, v6s)
	}
	const al = "01239afAF::::."
	n := r.Range(2, 12)
	b := make([]byte, n)
	for i := range b {
		b[i] = al[r.Intn(len(al)-1)] // '.' is rare: only via the next line
	}
	if r.Chance(1, 8) {
		b[r.Intn(n)] = '.'
	}
	s := string(b)
	for strings.Count(s, ":") < 2 {
		k := r.Intn(len(s) + 1)
		s = s[:k] + ":" + s[k:]
	}
	return s
}

func genPort(r *hx.RNG, badNum, badDen int) *string {
	if r.Chance(badNum, badDen) {
		return sp(hx.Pick(r, badPorts))
	}
	if r.Chance(1, 4) {
		return sp(strconv.Itoa(r.Range(1, 65535)))
	}
	return sp(hx.Pick(r, goodPorts))
}

// genEp draws an endpoint; forms outside the well-formed grammar (bad port,
// bare IPv6 with a port) appear with the given probability.
func genEp(r *hx.RNG, badNum, badDen int) ep {
	var e ep
	if r.Bool() {
		e = ep{host: genName(r)}
		if r.Bool() {
			e.port = genPort(r, badNum, badDen)
		}
		return e
	}
	e = ep{v6: true, host: genV6(r)}
	switch r.Intn(4) {
	case 0: // bare
	case 1:
		e.br = true
	default:
		e.br = true
		e.port = genPort(r, badNum, badDen)
	}
	if !e.br && r.Chance(badNum, badDen*2) {
		e.port = genPort(r, 0, 1) // bare IPv6 followed by :port — ambiguous text
	}
	return e
}

var malformed = []string{"", "[::1", "::1]", "[::1]x", "[::1]x:53", "[]:53", "[]", "[", "]", ":", "::", ":53", "a:", "a::53",
	"[a]:b:c", "[[::1]]:53", "[::1]]:53", "[::1]:[53]", "a]:53", "a[:53", "[::1]:53:", "[::1]:", "1.2.3.4:053", "[::1]:0",
	"1.2.3.4:65536", "1.2.3.4:99999", "[::1]53", "x[::1]:53", "[::1][::2]:53", "a:b", "[:", "[]:", "]:53", "[a]b]:53",
	"[::1]::53", "1.2.3.4:", "[::1] :53", "host:53 ", "[fe80::1%eth0]:53", "fe80::1%eth0", "[::1]:+53"}

func genGarbage(r *hx.RNG) string {
	if r.Chance(1, 3) {
		return hx.Pick(r, malformed)
	}
	const al = "[]::..0159af"
	n := r.Range(0, 10)
	b := make([]byte, n)
	for i := range b {
		b[i] = al[r.Intn(len(al))]
	}
	return string(b)
}

func genInp(r *hx.RNG) inp {
	if r.Chance(1, 3) {
		return inp{raw: genGarbage(r)}
	}
	e := genEp(r, 1, 6)
	return inp{e: &e}
}

// genBs draws an Opt.Bootstrap value: mostly an IP with or without port.
func genBs(r *hx.RNG) inp {
	switch r.Intn(8) {
	case 0:
		return inp{raw: genGarbage(r)}
	case 1:
		e := genEp(r, 1, 4)
		return inp{e: &e}
	case 2:
		return inp{}
	}
	e := hx.Pick(r, []ep{name("1.2.3.4"), namep("1.2.3.4", "5353"), v6("::1", false), v6p("2001:db8::1", "53"),
		name("8.8.8.8"), namep("10.0.0.53", "65535"), v6("2001:db8::53", false)})
	return inp{e: &e}
}

var schemes = []string{"udp", "tcp", "tcp+pipeline", "tls", "tls+pipeline", "https", "h3", "quic", "doq"}
var badSchemes = []string{"http", "dns", "tls+x", "udp+pipeline", "h3+pipeline", "tcp+", "ftp", "h2", "sdns"}
var paths = []string{"", "", "/", "/dns-query", "/a/b", "//x", "/a:b"}

func genUin(r *hx.RNG) uin {
	if r.Chance(1, 6) { // raw, possibly odd strings
		schemeS := hx.Pick(r, append(append([]string{"", "TLS", "Https", "tcp+PIPELINE", ":", "1x"}, schemes...), badSchemes...))
		sep := hx.Pick(r, []string{"://", "://", "://", ":/", ":", "", ":///", "://:"})
		a := schemeS + sep + genGarbage(r) + hx.Pick(r, paths)
		d := ""
		if r.Chance(1, 3) {
			d = genInp(r).str()
		}
		return uin{raw: true, addr: a, dialRaw: d}
	}
	u := uin{e: genEp(r, 1, 8), path: hx.Pick(r, paths)}
	switch {
	case r.Chance(1, 8):
		u.scheme = ""
	case r.Chance(1, 10):
		u.scheme = hx.Pick(r, badSchemes)
	default:
		u.scheme = hx.Pick(r, schemes)
	}
	if u.scheme == "" && strings.Contains(u.e.render()+u.path, "://") {
		u.path = ""
	}
	if r.Chance(2, 5) {
		d := genEp(r, 1, 8)
		u.dial = &d
	}
	return u
}

// ---------- helper level cases ----------

func hostPortObs(host string, port uint16, err error) string {
	return hx.Opt(err == nil, hx.Tuple(hx.Str(host), hx.Ni(int(port))))
}

func splitErrCode(err error) int {
	if err == nil {
		return 0
	}
	ae, ok := err.(*net.AddrError)
	if !ok {
		return 9
	}
	switch ae.Err {
	case "missing port in address":
		return 1
	case "too many colons in address":
		return 2
	case "missing ']' in address":
		return 3
	case "unexpected '[' in address":
		return 4
	case "unexpected ']' in address":
		return 5
	}
	return 9
}

func ascii(s string) bool {
	for i := 0; i < len(s); i++ {
		if s[i] >= 0x80 {
			return false
		}
	}
	return true
}

func emit(w *hx.Writer, kind, id, coq string, desc map[string]any) {
	desc["kind"] = kind
	w.Emit(kind, hx.Case{ID: id, Coq: coq, Desc: desc, FKey: kind})
}

// guarded runs the code under test; a panic becomes a CPanic case.
func guarded(w *hx.Writer, id, a, b string, f func()) bool {
	if p := hx.Recover(f); p != nil {
		emit(w, "panic", id, hx.App("CPanic", hx.Str(a), hx.Str(b)), map[string]any{"in": a, "in2": b, "panic": fmt.Sprint(p)})
		return false
	}
	return true
}

func runTrim(w *hx.Writer, id, s string) {
	var out string
	if !guarded(w, id, s, "", func() { out = upstream.VerifTryTrimIpv6Brackets(s) }) {
		return
	}
	emit(w, "trim", id, hx.App("CTrim", hx.Str(s), hx.Str(out)), map[string]any{"in": s, "out": out})
}

func runStd(w *hx.Writer, id, s string) {
	h, p, err := net.SplitHostPort(s)
	emit(w, "std-split", id, hx.App("CStd", hx.Str(s), hx.Ni(splitErrCode(err)), hx.Str(h), hx.Str(p)),
		map[string]any{"in": s, "host": h, "port": p, "err": fmt.Sprint(err)})
}

func runUint(w *hx.Writer, id, s string) {
	n, err := strconv.ParseUint(s, 10, 16)
	emit(w, "std-uint", id, hx.App("CUint", hx.Str(s), hx.Opt(err == nil, hx.N(n))), map[string]any{"in": s, "n": n, "ok": err == nil})
}

func runIP(w *hx.Writer, id, s string) {
	a, err := netip.ParseAddr(s)
	o := "None"
	if err == nil {
		o = hx.Some(ipBytes(a))
	}
	emit(w, "std-ip", id, hx.App("CIp", hx.Str(s), o), map[string]any{"in": s, "ok": err == nil})
}

func runURL(w *hx.Writer, id, s string) {
	u, err := url.Parse(s)
	o := "None"
	d := map[string]any{"in": s, "ok": err == nil}
	if err == nil {
		if !ascii(u.Scheme) || !ascii(u.Host) {
			return
		}
		o = hx.Some(hx.Tuple(hx.Str(u.Scheme), hx.Str(u.Host)))
		d["scheme"], d["host"] = u.Scheme, u.Host
	}
	emit(w, "std-url", id, hx.App("CUrl", hx.Str(s), o), d)
}

func runSplit(w *hx.Writer, id string, s inp) {
	var h string
	var p uint16
	var err error
	if !guarded(w, id, s.str(), "", func() { h, p, err = upstream.VerifTrySplitHostPort(s.str()) }) {
		return
	}
	emit(w, "split", id, hx.App("CSplit", s.coq(), hostPortObs(h, p, err)),
		map[string]any{"in": s.str(), "host": h, "port": p, "ok": err == nil})
}

func runRemove(w *hx.Writer, id string, s inp) {
	var out string
	if !guarded(w, id, s.str(), "", func() { out = upstream.VerifTryRemovePort(s.str()) }) {
		return
	}
	emit(w, "remove-port", id, hx.App("CRemove", s.coq(), hx.Str(out)), map[string]any{"in": s.str(), "out": out})
}

func runParse(w *hx.Writer, id string, u, d inp, def uint16) {
	var h string
	var p uint16
	var err error
	if !guarded(w, id, u.str(), d.str(), func() { h, p, err = upstream.VerifParseDialAddr(u.str(), d.str(), def) }) {
		return
	}
	emit(w, "parse-dial-addr", id, hx.App("CParse", u.coq(), d.coq(), hx.Ni(int(def)), hostPortObs(h, p, err)),
		map[string]any{"url_host": u.str(), "dial_addr": d.str(), "default": def, "host": h, "port": p, "ok": err == nil})
}

func runNew(w *hx.Writer, id string, u uin, socks bool) {
	opt := upstream.Opt{DialAddr: u.dialStr()}
	if socks {
		opt.Socks5 = "127.0.0.1:1" // never dialled: nothing is exchanged
	}
	var ok bool
	if !guarded(w, id, u.addrStr(), u.dialStr(), func() {
		up, err := upstream.NewUpstream(u.addrStr(), opt)
		ok = err == nil
		if err == nil {
			up.Close()
		}
	}) {
		return
	}
	emit(w, "new", id, hx.App("CNew", u.coq(), hx.Bool(socks), hx.Bool(ok)),
		map[string]any{"addr": u.addrStr(), "dial_addr": u.dialStr(), "socks5": socks, "created": ok})
}

func runNewB(w *hx.Writer, id string, u uin, bs inp) {
	opt := upstream.Opt{DialAddr: u.dialStr(), Bootstrap: bs.str()}
	var ok bool
	if !guarded(w, id, u.addrStr(), bs.str(), func() {
		up, err := upstream.NewUpstream(u.addrStr(), opt)
		ok = err == nil
		if err == nil {
			up.Close() // the bootstrap server is only contacted when a connection is needed
		}
	}) {
		return
	}
	host := ""
	if bs.e != nil {
		host = bs.e.host
	}
	_, iperr := netip.ParseAddr(host)
	emit(w, "new-bootstrap", id, hx.App("CNewB", u.coq(), bs.coq(), hx.Bool(iperr == nil), hx.Bool(ok)),
		map[string]any{"addr": u.addrStr(), "dial_addr": u.dialStr(), "bootstrap": bs.str(), "created": ok})
}

// ---------- network level ----------

type destRec struct {
	mu    sync.Mutex
	seen  map[string]bool
	order []string // Coq literals "(DIp [..], port)"
	first chan struct{}
	once  sync.Once
	sni   []string
	hosts []string // HTTP Host headers
	sniCh chan struct{}
	sniO  sync.Once
	n     int      // number of connects / datagrams (desc only)
}

func newRec() *destRec {
	return &destRec{seen: map[string]bool{}, first: make(chan struct{}), sniCh: make(chan struct{})}
}

func (r *destRec) add(lit string) {
	r.mu.Lock()
	r.n++
	if !r.seen[lit] {
		r.seen[lit] = true
		r.order = append(r.order, lit)
	}
	r.mu.Unlock()
	r.once.Do(func() { close(r.first) })
}

func (r *destRec) addSNI(s string) {
	r.mu.Lock()
	r.sni = append(r.sni, s)
	r.mu.Unlock()
	r.sniO.Do(func() { close(r.sniCh) })
}

func (r *destRec) addHost(s string) {
	r.mu.Lock()
	r.hosts = append(r.hosts, s)
	r.mu.Unlock()
}

func (r *destRec) dests() []string {
	r.mu.Lock()
	defer r.mu.Unlock()
	out := append([]string(nil), r.order...)
	sort.Strings(out)
	return out
}

func (r *destRec) sniObserved() string  { return r.distinct(&r.sni) }
func (r *destRec) hostObserved() string { return r.distinct(&r.hosts) }

// distinct: the distinct strings seen, joined with '|' (one in every sane run)
func (r *destRec) distinct(l *[]string) string {
	r.mu.Lock()
	defer r.mu.Unlock()
	seen := map[string]bool{}
	var out []string
	for _, s := range *l {
		if !seen[s] {
			seen[s] = true
			out = append(out, s)
		}
	}
	sort.Strings(out)
	return strings.Join(out, "|")
}

var (
	caOnce sync.Once
	caCert *x509.Certificate
	caKey  *ecdsa.PrivateKey
	caPool *x509.CertPool
)

func initCA() {
	caOnce.Do(func() {
		k, err := ecdsa.GenerateKey(elliptic.P256(), rand.Reader)
		must(err)
		tpl := &x509.Certificate{SerialNumber: big.NewInt(1), Subject: pkix.Name{CommonName: "c18 harness CA"},
			NotBefore: time.Now().Add(-time.Hour), NotAfter: time.Now().Add(24 * time.Hour),
			IsCA: true, BasicConstraintsValid: true, KeyUsage: x509.KeyUsageCertSign | x509.KeyUsageDigitalSignature}
		der, err := x509.CreateCertificate(rand.Reader, tpl, tpl, &k.PublicKey, k)
		must(err)
		c, err := x509.ParseCertificate(der)
		must(err)
		caCert, caKey = c, k
		caPool = x509.NewCertPool()
		caPool.AddCert(c)
	})
}

func must(err error) {
	if err != nil {
		fmt.Fprintln(os.Stderr, "c18:", err)
		os.Exit(2)
	}
}

// leaf issues a certificate valid for exactly one name: an IP address when
// san parses as one, a DNS name otherwise.
func leaf(san string) tls.Certificate {
	initCA()
	k, err := ecdsa.GenerateKey(elliptic.P256(), rand.Reader)
	must(err)
	tpl := &x509.Certificate{SerialNumber: big.NewInt(time.Now().UnixNano()), Subject: pkix.Name{CommonName: "c18 leaf"},
		NotBefore: time.Now().Add(-time.Hour), NotAfter: time.Now().Add(24 * time.Hour),
		KeyUsage: x509.KeyUsageDigitalSignature, ExtKeyUsage: []x509.ExtKeyUsage{x509.ExtKeyUsageServerAuth}}
	if a, err := netip.ParseAddr(san); err == nil {
		tpl.IPAddresses = []net.IP{net.IP(a.AsSlice())}
	} else {
		tpl.DNSNames = []string{san}
	}
	der, err := x509.CreateCertificate(rand.Reader, tpl, caCert, &k.PublicKey, caKey)
	must(err)
	return tls.Certificate{Certificate: [][]byte{der}, PrivateKey: k}
}

// serveFramedDNS answers every length-prefixed query with the same message, QR set.
func serveFramedDNS(c net.Conn) {
	defer c.Close()
	for {
		var hdr [2]byte
		if _, err := io.ReadFull(c, hdr[:]); err != nil {
			return
		}
		n := int(binary.BigEndian.Uint16(hdr[:]))
		buf := make([]byte, 2+n)
		copy(buf, hdr[:])
		if _, err := io.ReadFull(c, buf[2:]); err != nil {
			return
		}
		if n > 2 {
			buf[4] |= 0x80
		}
		if _, err := c.Write(buf); err != nil {
			return
		}
	}
}

type chanListener struct {
	ch   chan net.Conn
	done chan struct{}
	once sync.Once
}

func (l *chanListener) Accept() (net.Conn, error) {
	select {
	case c := <-l.ch:
		return c, nil
	case <-l.done:
		return nil, net.ErrClosed
	}
}
func (l *chanListener) Close() error   { l.once.Do(func() { close(l.done) }); return nil }
func (l *chanListener) Addr() net.Addr { return &net.TCPAddr{IP: net.IPv4(127, 0, 0, 1)} }

// socksServe: one CONNECT per connection; records the requested destination,
// answers "succeeded" and then plays the upstream server itself.
func socksServe(c net.Conn, rec *destRec, mode string, tlsCfg *tls.Config, httpL *chanListener) {
	fail := func() { c.Close() }
	c.SetDeadline(time.Now().Add(20 * time.Second))
	var h [2]byte
	if _, err := io.ReadFull(c, h[:]); err != nil || h[0] != 5 {
		fail()
		return
	}
	m := make([]byte, int(h[1]))
	if _, err := io.ReadFull(c, m); err != nil {
		fail()
		return
	}
	if _, err := c.Write([]byte{5, 0}); err != nil {
		fail()
		return
	}
	var rq [4]byte
	if _, err := io.ReadFull(c, rq[:]); err != nil || rq[0] != 5 || rq[1] != 1 {
		fail()
		return
	}
	var dest string
	switch rq[3] {
	case 1:
		var b [4]byte
		if _, err := io.ReadFull(c, b[:]); err != nil {
			fail()
			return
		}
		dest = hx.App("DIp", hx.Bytes(b[:]))
	case 4:
		var b [16]byte
		if _, err := io.ReadFull(c, b[:]); err != nil {
			fail()
			return
		}
		dest = hx.App("DIp", hx.Bytes(b[:]))
	case 3:
		var l [1]byte
		if _, err := io.ReadFull(c, l[:]); err != nil {
			fail()
			return
		}
		b := make([]byte, int(l[0]))
		if _, err := io.ReadFull(c, b); err != nil {
			fail()
			return
		}
		dest = hx.App("DName", hx.Bytes(b))
	default:
		fail()
		return
	}
	var pb [2]byte
	if _, err := io.ReadFull(c, pb[:]); err != nil {
		fail()
		return
	}
	rec.add(hx.Tuple(dest, hx.Ni(int(binary.BigEndian.Uint16(pb[:])))))
	if _, err := c.Write([]byte{5, 0, 0, 1, 0, 0, 0, 0, 0, 0}); err != nil {
		fail()
		return
	}
	serveUpstream(c, mode, tlsCfg, httpL)
}

// serveUpstream plays the DNS server of the given kind on an established connection.
func serveUpstream(c net.Conn, mode string, tlsCfg *tls.Config, httpL *chanListener) {
	c.SetDeadline(time.Now().Add(20 * time.Second))
	switch mode {
	case "tcp":
		serveFramedDNS(c)
	case "tls":
		tc := tls.Server(c, tlsCfg)
		if err := tc.Handshake(); err != nil {
			tc.Close()
			return
		}
		serveFramedDNS(tc)
	case "https":
		select {
		case httpL.ch <- tls.Server(c, tlsCfg):
		case <-httpL.done:
			c.Close()
		}
	default:
		c.Close()
	}
}

func dohHandler(rec *destRec) http.HandlerFunc {
	return func(w http.ResponseWriter, r *http.Request) {
		rec.addHost(r.Host)
		dohServe(w, r)
	}
}

func dohServe(w http.ResponseWriter, r *http.Request) {
	q, err := base64.RawURLEncoding.DecodeString(r.URL.Query().Get("dns"))
	if err != nil || len(q) < 12 {
		http.Error(w, "bad query", 400)
		return
	}
	q[2] |= 0x80
	w.Header().Set("Content-Type", "application/dns-message")
	w.Write(q)
}

func query() []byte {
	m := new(dns.Msg)
	m.SetQuestion("c18.example.", dns.TypeA)
	m.Id = 0x1234
	b, err := m.Pack()
	must(err)
	return b
}

type netSpec struct {
	u      uin
	cert   string // "" = none; name or IP the server certificate is issued for
	direct bool   // tcp based transport without the proxy: loopback TCP listeners see the connection
	boot   *bootSpec
	trunc  bool // plain udp upstream: every UDP reply is truncated, TCP listeners see the retry
}

// bootSpec: Opt.Bootstrap points at a DNS server of the harness that answers
// every name with the address ans (an A record, or AAAA when ver is 6).
type bootSpec struct {
	ans  string
	ver  int
	srv6 bool // the server listens on [::1] instead of 127.0.0.1
}

type bootSrv struct {
	pc    *net.UDPConn
	mu    sync.Mutex
	names []string
}

func startBoot(b *bootSpec) (*bootSrv, error) {
	ip := "127.0.0.1"
	if b.srv6 {
		ip = "::1"
	}
	pc, err := net.ListenUDP("udp", net.UDPAddrFromAddrPort(netip.AddrPortFrom(netip.MustParseAddr(ip), 0)))
	if err != nil {
		return nil, err
	}
	srv := &bootSrv{pc: pc}
	ans := netip.MustParseAddr(b.ans)
	go func() {
		buf := make([]byte, 4096)
		for {
			n, from, err := pc.ReadFromUDP(buf)
			if err != nil {
				return
			}
			q := new(dns.Msg)
			if q.Unpack(buf[:n]) != nil || len(q.Question) != 1 {
				continue
			}
			srv.mu.Lock()
			srv.names = append(srv.names, q.Question[0].Name)
			srv.mu.Unlock()
			r := new(dns.Msg)
			r.SetReply(q)
			hdr := dns.RR_Header{Name: q.Question[0].Name, Class: dns.ClassINET, Ttl: 600}
			switch {
			case q.Question[0].Qtype == dns.TypeA && ans.Is4():
				hdr.Rrtype = dns.TypeA
				r.Answer = []dns.RR{&dns.A{Hdr: hdr, A: net.IP(ans.AsSlice())}}
			case q.Question[0].Qtype == dns.TypeAAAA && ans.Is6():
				hdr.Rrtype = dns.TypeAAAA
				r.Answer = []dns.RR{&dns.AAAA{Hdr: hdr, AAAA: net.IP(ans.AsSlice())}}
			}
			if out, err := r.Pack(); err == nil {
				pc.WriteToUDP(out, from)
			}
		}
	}()
	return srv, nil
}

func (b *bootSrv) addr() string { return b.pc.LocalAddr().String() }

func (b *bootSrv) asked() []string {
	b.mu.Lock()
	defer b.mu.Unlock()
	seen := map[string]bool{}
	var out []string
	for _, n := range b.names {
		if !seen[n] {
			seen[n] = true
			out = append(out, hx.Str(n))
		}
	}
	sort.Strings(out)
	return out
}

func schemeMode(s string) (mode string, socks bool, defPort int) {
	switch s {
	case "", "udp":
		return "udp", false, 53
	case "tcp", "tcp+pipeline":
		return "tcp", true, 53
	case "tls", "tls+pipeline":
		return "tls", true, 853
	case "https":
		return "https", true, 443
	case "h3":
		return "quic", false, 443
	case "quic", "doq":
		return "quic", false, 853
	}
	return "none", true, 0
}

var loopIPs = []string{"127.0.0.1", "127.0.0.2", "127.0.0.3", "::1"}

func portOf(p *string) int {
	if p == nil {
		return 0
	}
	n, err := strconv.Atoi(*p)
	if err != nil || n < 1 || n > 65535 {
		return 0
	}
	return n
}

// runNet takes one address to the network. Returns false when a socket the
// case needs could not be bound (the case is then skipped, not emitted).
// An exchange that ends in a timeout with next to no connection attempts (a
// starved machine, not a property of the code) is repeated up to two times.
func runNet(w *hx.Writer, id string, ns netSpec) bool {
	for attempt := 0; ; attempt++ {
		r, ok := runNetOnce(id, ns)
		if !ok {
			return false
		}
		if r.starved && attempt < 2 {
			continue
		}
		emit(w, r.kind, id, r.coq, r.desc)
		return true
	}
}

type netResult struct {
	kind, coq string
	desc      map[string]any
	starved   bool
}

func runNetOnce(id string, ns netSpec) (netResult, bool) {
	u := ns.u
	mode, socks, defPort := schemeMode(u.scheme)
	rec := newRec()
	rec2 := newRec() // TCP retries of the udp upstream
	opt := upstream.Opt{DialAddr: u.dialStr()}
	var closers []func()
	defer func() {
		for i := len(closers) - 1; i >= 0; i-- {
			closers[i]()
		}
	}()
	var wg sync.WaitGroup

	san := "SanNone"
	if ns.direct || ns.boot != nil {
		socks = false
	}
	direct := !socks && (mode == "tcp" || mode == "tls" || mode == "https")
	var bsrv *bootSrv
	if ns.boot != nil {
		var err error
		if bsrv, err = startBoot(ns.boot); err != nil {
			return netResult{}, false
		}
		closers = append(closers, func() { bsrv.pc.Close() })
		opt.Bootstrap = bsrv.addr()
		opt.BootstrapVer = ns.boot.ver
	}
	var tlsCfg *tls.Config
	var httpL *chanListener
	if mode == "tls" || mode == "https" {
		initCA()
		opt.TLSConfig = &tls.Config{RootCAs: caPool}
		cert := leaf(ns.cert)
		if a, err := netip.ParseAddr(ns.cert); err == nil {
			san = hx.App("SanIp", ipBytes(a))
		} else {
			san = hx.App("SanName", hx.Str(ns.cert))
		}
		tlsCfg = &tls.Config{
			Certificates: []tls.Certificate{cert},
			GetConfigForClient: func(h *tls.ClientHelloInfo) (*tls.Config, error) {
				rec.addSNI(h.ServerName)
				return nil, nil
			},
		}
		if mode == "https" {
			tlsCfg.NextProtos = []string{"h2", "http/1.1"}
			httpL = &chanListener{ch: make(chan net.Conn), done: make(chan struct{})}
			srv := &http.Server{Handler: dohHandler(rec), ErrorLog: log.New(io.Discard, "", 0)}
			wg.Add(1)
			go func() { defer wg.Done(); srv.Serve(httpL) }()
			closers = append(closers, func() { srv.Close(); httpL.Close() })
		}
	}
	if socks {
		ln, err := net.Listen("tcp", "127.0.0.1:0")
		if err != nil {
			return netResult{}, false
		}
		closers = append(closers, func() { ln.Close() })
		opt.Socks5 = ln.Addr().String()
		wg.Add(1)
		go func() {
			defer wg.Done()
			for {
				c, err := ln.Accept()
				if err != nil {
					return
				}
				wg.Add(1)
				go func() { defer wg.Done(); socksServe(c, rec, mode, tlsCfg, httpL) }()
			}
		}()
	} else {
		// loopback sockets on every candidate address x candidate port
		eff := u.e
		if u.dial != nil {
			eff = *u.dial
		}
		want := portOf(eff.port)
		if eff.port == nil {
			want = defPort
		}
		ports := map[int]bool{}
		for _, p := range []int{portOf(u.e.port), defPort, want} {
			if p != 0 {
				ports[p] = true
			}
		}
		if u.dial != nil {
			if p := portOf(u.dial.port); p != 0 {
				ports[p] = true
			}
		}
		for p := range ports {
			if !direct {
				break
			}
			for _, ip := range loopIPs {
				a := netip.AddrPortFrom(netip.MustParseAddr(ip), uint16(p))
				ln, err := net.ListenTCP("tcp", net.TCPAddrFromAddrPort(a))
				if err != nil {
					if p == want {
						return netResult{}, false
					}
					continue
				}
				closers = append(closers, func() { ln.Close() })
				lit := hx.Tuple(hx.App("DIp", ipBytes(a.Addr())), hx.Ni(p))
				wg.Add(1)
				go func() {
					defer wg.Done()
					for {
						c, err := ln.Accept()
						if err != nil {
							return
						}
						rec.add(lit)
						wg.Add(1)
						go func() { defer wg.Done(); serveUpstream(c, mode, tlsCfg, httpL) }()
					}
				}()
			}
		}
		for p := range ports {
			if direct {
				break
			}
			for _, ip := range loopIPs {
				a := netip.AddrPortFrom(netip.MustParseAddr(ip), uint16(p))
				pc, err := net.ListenUDP("udp", net.UDPAddrFromAddrPort(a))
				if err != nil {
					if p == want {
						return netResult{}, false
					}
					continue
				}
				closers = append(closers, func() { pc.Close() })
				lit := hx.Tuple(hx.App("DIp", ipBytes(a.Addr())), hx.Ni(p))
				if ns.trunc {
					// the TCP side of the same server: sees the retry of a truncated reply
					ln, err := net.ListenTCP("tcp", net.TCPAddrFromAddrPort(a))
					if err != nil {
						if p == want {
							return netResult{}, false
						}
					} else {
						closers = append(closers, func() { ln.Close() })
						wg.Add(1)
						go func() {
							defer wg.Done()
							for {
								c, err := ln.Accept()
								if err != nil {
									return
								}
								rec2.add(lit)
								wg.Add(1)
								go func() { defer wg.Done(); serveUpstream(c, "tcp", nil, nil) }()
							}
						}()
					}
				}
				wg.Add(1)
				go func() {
					defer wg.Done()
					buf := make([]byte, 4096)
					for {
						n, from, err := pc.ReadFromUDP(buf)
						if err != nil {
							return
						}
						rec.add(lit)
						if mode == "udp" && n >= 12 {
							buf[2] |= 0x80
							if ns.trunc {
								buf[2] |= 0x02 // TC
							}
							pc.WriteToUDP(buf[:n], from)
						}
					}
				}()
			}
		}
	}

	created := false
	exchOK := false
	exchErr := ""
	if p := hx.Recover(func() {
		up, err := upstream.NewUpstream(u.addrStr(), opt)
		if err != nil {
			return
		}
		created = true
		ctx, cancel := context.WithTimeout(context.Background(), 8*time.Second)
		done := make(chan struct{})
		go func() {
			defer close(done)
			r, err := up.ExchangeContext(ctx, query())
			exchOK = err == nil && r != nil && len(*r) >= 12 && (*r)[2]&0x80 != 0
			if err != nil {
				exchErr = err.Error()
			}
		}()
		if mode == "quic" {
			// no QUIC server here: the first datagram tells the destination
			select {
			case <-rec.first:
			case <-done:
			case <-ctx.Done():
			}
			cancel()
		}
		<-done
		cancel()
		up.Close()
	}); p != nil {
		return netResult{kind: "panic", coq: hx.App("CPanic", hx.Str(u.addrStr()), hx.Str(u.dialStr())),
			desc: map[string]any{"in": u.addrStr(), "in2": u.dialStr(), "panic": fmt.Sprint(p)}}, true
	}
	for i := len(closers) - 1; i >= 0; i-- {
		closers[i]()
	}
	closers = nil
	wg.Wait()

	obs := "None"
	if created {
		obs = hx.Some(hx.Tuple(hx.List(rec.dests()), hx.Str(rec.sniObserved()), hx.Str(rec.hostObserved()), hx.Bool(exchOK)))
	}
	starved := created && !exchOK && mode != "quic" && rec.n <= 3 &&
		(strings.Contains(exchErr, "deadline exceeded") || strings.Contains(exchErr, "timeout"))
	if mode == "quic" && created && rec.n == 0 {
		starved = true // no datagram at all within the generous limit
	}
	if ns.trunc {
		o := "None"
		if created {
			o = hx.Some(hx.Tuple(hx.List(rec.dests()), hx.List(rec2.dests()), hx.Bool(exchOK)))
		}
		return netResult{kind: "udp-truncated", coq: hx.App("CTrunc", u.coq(), o),
			desc: map[string]any{"addr": u.addrStr(), "dial_addr": u.dialStr(), "created": created, "udp_destinations": rec.dests(),
				"tcp_destinations": rec2.dests(), "exchange_ok": exchOK, "exchange_err": exchErr}, starved: starved}, true
	}
	if bsrv != nil {
		if created {
			obs = hx.Some(hx.Tuple(hx.List(rec.dests()), hx.List(bsrv.asked()), hx.Str(rec.sniObserved()),
				hx.Str(rec.hostObserved()), hx.Bool(exchOK)))
		}
		return netResult{kind: "boot-" + mode,
			coq: hx.App("CBoot", u.coq(), hx.Str(opt.Bootstrap), ipBytes(netip.MustParseAddr(ns.boot.ans)), san, obs),
			desc: map[string]any{"addr": u.addrStr(), "dial_addr": u.dialStr(), "bootstrap": opt.Bootstrap, "answer": ns.boot.ans,
				"cert_for": ns.cert, "created": created, "destinations": rec.dests(), "asked": bsrv.asked(), "sni": rec.sniObserved(),
				"http_host": rec.hostObserved(), "exchange_ok": exchOK, "exchange_err": exchErr, "connects": rec.n}, starved: starved}, true
	}
	return netResult{kind: "net-" + mode, coq: hx.App("CNet", u.coq(), hx.Bool(socks), san, obs),
		desc: map[string]any{"addr": u.addrStr(), "dial_addr": u.dialStr(), "cert_for": ns.cert, "created": created,
			"destinations": rec.dests(), "sni": rec.sniObserved(), "http_host": rec.hostObserved(), "exchange_ok": exchOK,
			"exchange_err": exchErr, "connects": rec.n}, starved: starved}, true
}

func name(h string) ep        { return ep{host: h} }
func namep(h, p string) ep    { return ep{host: h, port: sp(p)} }
func v6(h string, br bool) ep { return ep{v6: true, host: h, br: br} }
func v6p(h, p string) ep      { return ep{v6: true, host: h, br: true, port: sp(p)} }
func pe(e ep) *ep             { return &e }
func mean(s string, e ep, path string, d *ep) uin {
	return uin{scheme: s, e: e, path: path, dial: d}
}

// netCatalogue: the hand-written end-to-end cases. %P / %Q are replaced by
// two free ports chosen per run for the UDP based transports.
func netCatalogue(p1, p2 string) []netSpec {
	return []netSpec{
		// tcp / tcp+pipeline through the proxy: every host form, with and without port
		{u: mean("tcp", name("1.2.3.4"), "", nil)},
		{u: mean("tcp", namep("1.2.3.4", "5353"), "", nil)},
		{u: mean("tcp", v6("::1", true), "", nil)},
		{u: mean("tcp", v6("2001:db8::1", true), "", nil)},
		{u: mean("tcp", v6p("2001:db8::1", "65535"), "", nil)},
		{u: mean("tcp", v6("2001:db8::53", false), "", nil)},
		{u: mean("tcp", v6("2001:0db8:0000:0000:0000:0000:0000:0001", true), "", nil)},
		{u: mean("tcp", v6("::ffff:1.2.3.4", true), "", nil)},
		{u: mean("tcp+pipeline", name("dns.example"), "", nil)},
		{u: mean("tcp+pipeline", namep("dns.example", "1"), "", pe(v6p("::1", "5300")))},
		{u: mean("tcp", namep("9.9.9.9", "5353"), "", pe(name("1.2.3.4")))},
		{u: mean("tcp", name("9.9.9.9"), "", pe(v6("2001:db8::1", false)))},
		// tls: destination, SNI and certificate name
		{u: mean("tls", name("dns.example"), "", nil), cert: "dns.example"},
		{u: mean("tls", namep("dns.example", "8853"), "", nil), cert: "dns.example"},
		{u: mean("tls", name("dns.example"), "", pe(name("1.2.3.4"))), cert: "dns.example"},
		{u: mean("tls", name("dns.example"), "", pe(namep("1.2.3.4", "8853"))), cert: "dns.example"},
		{u: mean("tls", name("dns.example"), "", pe(name("1.2.3.4"))), cert: "1.2.3.4"}, // control: certificate for the dial address is refused
		{u: mean("tls", name("dns.example"), "", pe(v6p("2001:db8::1", "853"))), cert: "dns.example"},
		{u: mean("tls+pipeline", name("x-1.example.org"), "", pe(name("other.example"))), cert: "x-1.example.org"},
		{u: mean("tls", name("1.2.3.4"), "", nil), cert: "1.2.3.4"},
		{u: mean("tls", v6("::1", true), "", nil), cert: "::1"},
		{u: mean("tls", v6("2001:db8::1", true), "", nil), cert: "2001:db8::1"},
		{u: mean("tls", v6("2001:db8::1", true), "", nil), cert: "2001:db8::"}, // control: what the len-2 trimming would ask for
		{u: mean("tls", v6p("2001:db8::1", "853"), "", nil), cert: "2001:db8::1"},
		{u: mean("tls", v6("2001:db8::1", false), "", nil), cert: "2001:db8::1"},
		{u: mean("tls+pipeline", v6p("2001:db8::53", "8853"), "", pe(name("10.0.0.53"))), cert: "2001:db8::53"},
		// https
		{u: mean("https", name("dns.example"), "/dns-query", nil), cert: "dns.example"},
		{u: mean("https", namep("dns.example", "8443"), "/dns-query", nil), cert: "dns.example"},
		{u: mean("https", name("dns.example"), "/dns-query", pe(name("1.2.3.4"))), cert: "dns.example"},
		{u: mean("https", name("dns.example"), "/dns-query", pe(v6p("2001:db8::1", "4443"))), cert: "dns.example"},
		{u: mean("https", name("1.2.3.4"), "/dns-query", nil), cert: "1.2.3.4"},
		{u: mean("https", v6("2001:db8::1", true), "/dns-query", nil), cert: "2001:db8::1"},
		{u: mean("https", v6p("2001:db8::1", "443"), "/dns-query", nil), cert: "2001:db8::1"},
		{u: mean("https", v6("2001:db8::1", true), "/dns-query", nil), cert: "2001:db8::"}, // control
		// udp on loopback
		{u: mean("udp", namep("127.0.0.2", p1), "", nil)},
		{u: mean("", namep("127.0.0.1", p1), "", nil)},
		{u: mean("udp", v6p("::1", p1), "", nil)},
		{u: mean("udp", name("127.0.0.3"), "", nil)},
		{u: mean("", v6("::1", false), "", nil)},
		{u: mean("udp", v6("::1", true), "", nil)},
		{u: mean("udp", v6("0:0:0:0:0:0:0:1", true), "", nil)},
		{u: mean("udp", namep("127.0.0.1", p1), "", pe(namep("127.0.0.2", p2)))},
		{u: mean("udp", namep("127.0.0.1", p1), "", pe(name("127.0.0.2")))},
		{u: mean("udp", namep("127.0.0.1", p1), "", pe(v6p("::1", p2)))},
		{u: mean("udp", namep("127.0.0.1", p1), "", pe(v6("::1", false)))},
		{u: mean("udp", v6p("::ffff:127.0.0.2", p1), "", nil)},
		// quic / h3: destination of the first datagram
		{u: mean("quic", namep("127.0.0.2", p1), "", nil)},
		{u: mean("quic", v6("::1", true), "", nil)},
		{u: mean("doq", namep("127.0.0.1", p1), "", pe(namep("127.0.0.3", p2)))},
		{u: mean("h3", namep("127.0.0.3", p1), "/dns-query", nil)},
		{u: mean("h3", v6p("::1", p1), "/dns-query", pe(name("127.0.0.2")))},
		// https with a bare IPv6 host (net/http alone would take "2001:db8:" as the TLS name)
		{u: mean("https", v6("2001:db8::1", false), "/dns-query", nil), cert: "2001:db8::1"},
		{u: mean("https", v6("2001:db8::1", false), "/dns-query", nil), cert: "2001:db8::"},
		// tcp based transports without the proxy, on loopback
		{u: mean("tcp", namep("127.0.0.2", p1), "", nil), direct: true},
		{u: mean("tcp", v6("::1", true), "", nil), direct: true},
		{u: mean("tcp+pipeline", v6p("::1", p1), "", pe(namep("127.0.0.3", p2))), direct: true},
		{u: mean("tcp", namep("127.0.0.1", p1), "", pe(v6("::1", false))), direct: true},
		{u: mean("tls", namep("127.0.0.2", p1), "", nil), cert: "127.0.0.2", direct: true},
		{u: mean("tls", name("127.0.0.3"), "", nil), cert: "127.0.0.3", direct: true},
		{u: mean("tls+pipeline", namep("dns.example", p1), "", pe(v6p("::1", p2))), cert: "dns.example", direct: true},
		{u: mean("https", v6p("::1", p1), "/dns-query", nil), cert: "::1", direct: true},
		{u: mean("https", name("dns.example"), "/dns-query", pe(name("127.0.0.2"))), cert: "dns.example", direct: true},
		{u: mean("https", v6("0:0:0:0:0:0:0:1", false), "/dns-query", nil), cert: "::1", direct: true},
		// Opt.Bootstrap: the host is resolved by the harness DNS server, the port must stay
		{u: mean("tls", namep("dns.example", p1), "", nil), cert: "dns.example", boot: &bootSpec{ans: "127.0.0.2"}},
		{u: mean("tls", name("dns.example"), "", nil), cert: "dns.example", boot: &bootSpec{ans: "127.0.0.3"}},
		{u: mean("tls+pipeline", namep("dns.example", p1), "", pe(namep("other.example", p2))), cert: "dns.example", boot: &bootSpec{ans: "127.0.0.2"}},
		{u: mean("tls", namep("dns.example", p1), "", pe(name("other.example"))), cert: "dns.example", boot: &bootSpec{ans: "127.0.0.3"}},
		{u: mean("tls", namep("dns.example", p1), "", pe(namep("127.0.0.3", p2))), cert: "dns.example", boot: &bootSpec{ans: "127.0.0.2"}},
		{u: mean("tls", namep("dns.example", p1), "", nil), cert: "dns.example", boot: &bootSpec{ans: "::1", ver: 6, srv6: true}},
		{u: mean("https", namep("dns.example", p1), "/dns-query", nil), cert: "dns.example", boot: &bootSpec{ans: "127.0.0.2"}},
		{u: mean("https", name("dns.example"), "/dns-query", nil), cert: "dns.example", boot: &bootSpec{ans: "127.0.0.3"}},
		{u: mean("https", namep("dns.example", p1), "/dns-query", pe(namep("x-1.example.org", p2))), cert: "dns.example", boot: &bootSpec{ans: "::1", ver: 6}},
		{u: mean("quic", namep("dns.example", p1), "", nil), boot: &bootSpec{ans: "127.0.0.2"}},
		{u: mean("doq", name("dns.example"), "", nil), boot: &bootSpec{ans: "127.0.0.3"}},
		{u: mean("h3", namep("dns.example", p1), "/dns-query", pe(namep("other.example", p2))), boot: &bootSpec{ans: "127.0.0.2"}},
		{u: mean("h3", name("dns.example"), "/dns-query", nil), boot: &bootSpec{ans: "::1", ver: 6}},
		{u: mean("quic", namep("127.0.0.2", p1), "", nil), boot: &bootSpec{ans: "127.0.0.3"}},
		{u: mean("tcp", namep("dns.example", p1), "", nil), boot: &bootSpec{ans: "127.0.0.2"}},
		{u: mean("udp", namep("dns.example", p1), "", nil), boot: &bootSpec{ans: "127.0.0.2"}},
		{u: mean("tcp", namep("127.0.0.2", p1), "", nil), boot: &bootSpec{ans: "127.0.0.3"}},
		{u: mean("tls+pipeline", namep("localhost", p1), "", pe(v6p("::1", p2))), cert: "localhost", boot: &bootSpec{ans: "127.0.0.2"}},
		// the second dial site of the plain udp upstream: TCP after a truncated reply.
		// url with/without port x dial_addr with/without port x no scheme / udp://
		{u: mean("udp", namep("127.0.0.2", p1), "", nil), trunc: true},
		{u: mean("udp", name("127.0.0.3"), "", nil), trunc: true},
		{u: mean("", namep("127.0.0.2", p1), "", nil), trunc: true},
		{u: mean("", name("127.0.0.3"), "", nil), trunc: true},
		{u: mean("", v6("::1", false), "", nil), trunc: true},
		{u: mean("udp", v6("::1", true), "", nil), trunc: true},
		{u: mean("udp", v6p("::1", p1), "", nil), trunc: true},
		{u: mean("udp", namep("127.0.0.2", p1), "", pe(namep("127.0.0.3", p2))), trunc: true},
		{u: mean("udp", namep("127.0.0.2", p1), "", pe(name("127.0.0.3"))), trunc: true},
		{u: mean("udp", name("127.0.0.2"), "", pe(namep("127.0.0.3", p2))), trunc: true},
		{u: mean("udp", name("127.0.0.2"), "", pe(name("127.0.0.3"))), trunc: true},
		{u: mean("", namep("127.0.0.2", p1), "", pe(namep("127.0.0.3", p2))), trunc: true},
		{u: mean("", name("127.0.0.2"), "", pe(v6p("::1", p2))), trunc: true},
		{u: mean("", namep("127.0.0.2", p1), "", pe(v6("::1", false))), trunc: true},
		{u: mean("udp", namep("127.0.0.2", p1), "", pe(namep("127.0.0.2", p2))), trunc: true},
		{u: mean("udp", namep("127.0.0.2", p1), "", pe(namep("127.0.0.3", p1))), trunc: true},
		{u: mean("udp", v6p("::1", p1), "", pe(name("127.0.0.1"))), trunc: true},
		{u: mean("udp", namep("dns.example", p1), "", pe(namep("127.0.0.3", p2))), trunc: true},
	}
}

func freePorts(r *hx.RNG) (string, string) {
	pick := func(avoid int) int {
		p := r.Range(20000, 60000)
		for try := 0; try < 200; try++ {
			ok := p != avoid
			if ok {
				for _, ip := range loopIPs {
					a := netip.AddrPortFrom(netip.MustParseAddr(ip), uint16(p))
					pc, err := net.ListenUDP("udp", net.UDPAddrFromAddrPort(a))
					if err != nil {
						ok = false
						break
					}
					pc.Close()
				}
			}
			if ok {
				return p
			}
			p++
		}
		return p
	}
	a := pick(0)
	return strconv.Itoa(a), strconv.Itoa(pick(a))
}

var saneName = map[string]bool{"a": true, "dns": true, "dns.example": true, "x-1.example.org": true, "localhost": true}

func genNet(r *hx.RNG) netSpec {
	p1, p2 := freePorts(r)
	socksHosts := func() ep {
		e := genEp(r, 0, 1)
		if !e.v6 && e.port != nil && r.Bool() {
			e.port = sp(hx.Pick(r, goodPorts))
		}
		return e
	}
	loopEp := func(p string) ep {
		var e ep
		switch r.Intn(5) {
		case 0:
			e = v6("::1", r.Bool())
		case 1:
			e = v6("0:0:0:0:0:0:0:1", true)
		default:
			e = name(hx.Pick(r, []string{"127.0.0.1", "127.0.0.2", "127.0.0.3"}))
		}
		if r.Bool() && (!e.v6 || e.br) {
			e.port = sp(p)
		}
		return e
	}
	s := hx.Pick(r, schemes)
	mode, socks, _ := schemeMode(s)
	if mode == "tls" || mode == "https" {
		// the TLS library has rules of its own for odd names ("." , trailing dots, ...):
		// keep to plain names and real IP literals where a certificate is involved
		base := socksHosts
		socksHosts = func() ep {
			for try := 0; try < 50; try++ {
				e := base()
				_, err := netip.ParseAddr(e.host)
				if err == nil || (!e.v6 && saneName[e.host]) {
					return e
				}
			}
			return name("dns.example")
		}
	}
	var u uin
	direct := socks && r.Chance(1, 3)
	if direct {
		socks = false
	}
	if socks {
		u = mean(s, socksHosts(), hx.Pick(r, []string{"", "/dns-query"}), nil)
		if !u.e.v6 || u.e.br {
			// keep: every form net/url accepts
		} else if !allDigits(afterLastColon(u.e.host)) {
			u.e.br = true
		}
		if r.Chance(2, 5) {
			d := socksHosts()
			if d.v6 && d.br && d.port == nil {
				d.br = false
			}
			u.dial = &d
		}
	} else {
		u = mean(s, loopEp(p1), "", nil)
		if s == "h3" || s == "https" {
			u.path = "/dns-query"
		}
		if r.Chance(2, 5) {
			d := loopEp(p2)
			if d.v6 && d.br && d.port == nil {
				d.br = false
			}
			u.dial = &d
		}
	}
	ns := netSpec{u: u, direct: direct}
	if !socks && mode != "udp" && r.Chance(1, 2) {
		// resolve through the harness bootstrap server: hostnames instead of (some of) the loopback literals
		ns.boot = &bootSpec{ans: hx.Pick(r, []string{"127.0.0.2", "127.0.0.3"})}
		if r.Chance(1, 4) {
			ns.boot = &bootSpec{ans: "::1", ver: 6, srv6: r.Bool()}
		}
		hn := func() string { return hx.Pick(r, []string{"dns.example", "x-1.example.org", "a", "dns", "localhost"}) }
		if u.dial != nil && r.Chance(2, 3) {
			d := *u.dial
			u.dial = &ep{host: hn(), port: d.port}
		}
		if u.dial == nil || r.Bool() {
			u.e = ep{host: hn(), port: u.e.port}
		}
		ns.u = u
	}
	if mode == "udp" && r.Bool() {
		ns.trunc = true
		if r.Chance(1, 3) {
			ns.u.scheme = ""
		}
	}
	if s == "tls" || s == "tls+pipeline" || s == "https" {
		ns.cert = u.e.host
		if r.Chance(1, 5) && u.dial != nil {
			ns.cert = u.dial.host // control
		}
	}
	return ns
}

func afterLastColon(s string) string { return s[strings.LastIndexByte(s, ':')+1:] }
func allDigits(s string) bool {
	for i := 0; i < len(s); i++ {
		if s[i] < '0' || s[i] > '9' {
			return false
		}
	}
	return true
}


// ---------- sequences of upstreams sharing one tls.Config ----------

type seqUp struct {
	scheme string
	e      ep
	path   string
}

type seqItem struct {
	u       uin
	socks   bool
	certFor string
	rec     *destRec
	up      upstream.Upstream
	created bool
	ok      bool
	err     string
	quic    bool
}

// runSeq creates the upstreams one after another from ONE shared tls.Config
// (ServerName = preset), then uses each once. tls/https go through a proxy of
// the harness that plays the server (SNI, certificate for one name); quic/doq/h3
// get dial_addr = a QUIC listener of the harness (SNI of the ClientHello).
func runSeq(w *hx.Writer, id string, preset string, ups []seqUp) {
	for attempt := 0; ; attempt++ {
		coq, desc, starved := runSeqOnce(id, preset, ups)
		if starved && attempt < 2 {
			continue
		}
		emit(w, "sequence", id, coq, desc)
		return
	}
}

func runSeqOnce(id string, preset string, ups []seqUp) (string, map[string]any, bool) {
	initCA()
	shared := &tls.Config{RootCAs: caPool, ServerName: preset}
	var closers []func()
	var wg sync.WaitGroup
	defer func() {
		for i := len(closers) - 1; i >= 0; i-- {
			closers[i]()
		}
		wg.Wait()
	}()
	items := make([]*seqItem, len(ups))
	panicked := ""
	for i, su := range ups {
		it := &seqItem{rec: newRec()}
		items[i] = it
		mode, socks, _ := schemeMode(su.scheme)
		it.socks = socks
		it.certFor = su.e.host
		if preset != "" {
			it.certFor = preset
		}
		opt := upstream.Opt{TLSConfig: shared}
		u := mean(su.scheme, su.e, su.path, nil)
		cert := leaf(it.certFor)
		rec := it.rec
		srvTLS := &tls.Config{
			Certificates: []tls.Certificate{cert},
			GetConfigForClient: func(h *tls.ClientHelloInfo) (*tls.Config, error) {
				rec.addSNI(h.ServerName)
				return nil, nil
			},
		}
		if socks {
			ln, err := net.Listen("tcp", "127.0.0.1:0")
			must(err)
			closers = append(closers, func() { ln.Close() })
			opt.Socks5 = ln.Addr().String()
			var httpL *chanListener
			if mode == "https" {
				srvTLS.NextProtos = []string{"h2", "http/1.1"}
				httpL = &chanListener{ch: make(chan net.Conn), done: make(chan struct{})}
				srv := &http.Server{Handler: dohHandler(rec), ErrorLog: log.New(io.Discard, "", 0)}
				wg.Add(1)
				go func() { defer wg.Done(); srv.Serve(httpL) }()
				closers = append(closers, func() { srv.Close(); httpL.Close() })
			}
			wg.Add(1)
			go func() {
				defer wg.Done()
				for {
					c, err := ln.Accept()
					if err != nil {
						return
					}
					wg.Add(1)
					go func() { defer wg.Done(); socksServe(c, rec, mode, srvTLS, httpL) }()
				}
			}()
		} else {
			it.quic = true
			srvTLS.NextProtos = []string{"doq", "h3"}
			ql, err := quic.ListenAddr("127.0.0.1:0", srvTLS, nil)
			must(err)
			closers = append(closers, func() { ql.Close() })
			_, port, _ := net.SplitHostPort(ql.Addr().String())
			u.dial = pe(namep("127.0.0.1", port))
			wg.Add(1)
			go func() {
				defer wg.Done()
				for {
					c, err := ql.Accept(context.Background())
					if err != nil {
						return
					}
					c.CloseWithError(0, "")
				}
			}()
		}
		it.u = u
		opt.DialAddr = u.dialStr()
		if p := hx.Recover(func() {
			up, err := upstream.NewUpstream(u.addrStr(), opt)
			if err == nil {
				it.up, it.created = up, true
			}
		}); p != nil {
			panicked = fmt.Sprint(p)
		}
	}
	starved := false
	for _, it := range items {
		if !it.created || panicked != "" {
			continue
		}
		it := it
		if p := hx.Recover(func() {
			ctx, cancel := context.WithTimeout(context.Background(), 8*time.Second)
			done := make(chan struct{})
			go func() {
				defer close(done)
				r, err := it.up.ExchangeContext(ctx, query())
				it.ok = err == nil && r != nil && len(*r) >= 12 && (*r)[2]&0x80 != 0
				if err != nil {
					it.err = err.Error()
				}
			}()
			if it.quic {
				select {
				case <-it.rec.sniCh:
				case <-done:
				case <-ctx.Done():
				}
				cancel()
			}
			<-done
			cancel()
		}); p != nil {
			panicked = fmt.Sprint(p)
		}
		if it.quic {
			it.ok = false // no DNS service behind the QUIC listener: only the ClientHello is observed
			select {
			case <-it.rec.sniCh:
			default:
				starved = true
			}
		} else if !it.ok && it.rec.n <= 3 && (strings.Contains(it.err, "deadline exceeded") || strings.Contains(it.err, "timeout")) {
			starved = true
		}
	}
	for _, it := range items {
		if it.up != nil {
			it.up.Close()
		}
	}
	if panicked != "" {
		return hx.App("CPanic", hx.Str(id), hx.Str(preset)), map[string]any{"panic": panicked}, false
	}
	var lits []string
	var dl []map[string]any
	for _, it := range items {
		san := hx.App("SanName", hx.Str(it.certFor))
		if a, err := netip.ParseAddr(it.certFor); err == nil {
			san = hx.App("SanIp", ipBytes(a))
		}
		o := "None"
		if it.created {
			o = hx.Some(hx.Tuple(hx.Str(it.rec.sniObserved()), hx.Bool(it.ok)))
		}
		lits = append(lits, hx.Tuple(it.u.coq(), hx.Bool(it.socks), san, o))
		dl = append(dl, map[string]any{"addr": it.u.addrStr(), "dial_addr": it.u.dialStr(), "cert_for": it.certFor,
			"created": it.created, "sni": it.rec.sniObserved(), "exchange_ok": it.ok, "exchange_err": it.err})
	}
	return hx.App("CSeq", hx.Str(preset), hx.List(lits), hx.Str(shared.ServerName), hx.Ni(len(shared.NextProtos))),
		map[string]any{"preset_server_name": preset, "upstreams": dl, "shared_server_name_after": shared.ServerName,
			"shared_next_protos_after": len(shared.NextProtos)}, starved
}

var seqHosts = []string{"a.dns.test", "b.dns.test", "c.dns.test", "dns.example", "x-1.example.org", "d.dns.test"}
var seqSchemes = []string{"tls", "tls+pipeline", "https", "h3", "quic", "doq", "https", "h3"}

func genSeq(r *hx.RNG) (string, []seqUp) {
	k := r.Range(2, 4)
	perm := r.Perm(len(seqHosts))
	var ups []seqUp
	for i := 0; i < k; i++ {
		s := hx.Pick(r, seqSchemes)
		su := seqUp{scheme: s, e: name(seqHosts[perm[i]])}
		_, socks, _ := schemeMode(s)
		if socks {
			switch r.Intn(6) {
			case 0:
				su.e = name(hx.Pick(r, []string{"1.2.3.4", "10.0.0.53"}))
			case 1:
				su.e = v6(hx.Pick(r, []string{"2001:db8::1", "::1"}), true)
			}
			if r.Bool() && (!su.e.v6 || su.e.br) {
				su.e.port = sp(hx.Pick(r, goodPorts))
			}
		}
		if s == "https" || s == "h3" {
			su.path = "/dns-query"
		}
		ups = append(ups, su)
	}
	preset := ""
	if r.Chance(1, 5) {
		preset = "preset.dns.test"
	}
	return preset, ups
}

func seqCatalogue() []struct {
	preset string
	ups    []seqUp
} {
	h := func(s, host string) seqUp {
		su := seqUp{scheme: s, e: name(host)}
		if s == "https" || s == "h3" {
			su.path = "/dns-query"
		}
		return su
	}
	return []struct {
		preset string
		ups    []seqUp
	}{
		{"", []seqUp{h("https", "a.dns.test"), h("https", "b.dns.test")}},
		{"", []seqUp{h("h3", "a.dns.test"), h("tls", "b.dns.test"), h("https", "c.dns.test")}},
		{"", []seqUp{h("tls", "a.dns.test"), h("https", "b.dns.test"), h("quic", "c.dns.test"), h("h3", "d.dns.test")}},
		{"preset.dns.test", []seqUp{h("https", "a.dns.test"), h("https", "b.dns.test"), h("tls", "c.dns.test")}},
		{"", []seqUp{h("https", "1.2.3.4"), h("https", "b.dns.test")}},
		{"", []seqUp{h("tls+pipeline", "a.dns.test"), h("doq", "b.dns.test"), h("https", "c.dns.test"), h("https", "d.dns.test")}},
		{"", []seqUp{h("h3", "a.dns.test"), h("h3", "b.dns.test")}},
		{"", []seqUp{h("tls", "a.dns.test"), h("tls", "b.dns.test"), h("quic", "c.dns.test")}},
	}
}

// ---------- main ----------

func main() {
	o := hx.ParseFlags()
	w := hx.NewWriter(o)
	defer w.Close()

	// catalogue: helper level
	for i, s := range malformed {
		for _, k := range []string{"trim", "std", "ip", "split", "remove"} {
			id := fmt.Sprintf("cat:%s:m%d", k, i)
			if !o.Want(id) {
				continue
			}
			switch k {
			case "trim":
				runTrim(w, id, s)
			case "std":
				runStd(w, id, s)
			case "ip":
				runIP(w, id, s)
			case "split":
				runSplit(w, id, inp{raw: s})
			case "remove":
				runRemove(w, id, inp{raw: s})
			}
		}
		for j, sch := range []string{"udp", "tls", ""} {
			id := fmt.Sprintf("cat:new:m%d:%d", i, j)
			if !o.Want(id) || !ascii(s) {
				continue
			}
			a := s
			if sch != "" {
				a = sch + "://" + s
			}
			runNew(w, id, uin{raw: true, addr: a}, j == 1)
		}
		id := fmt.Sprintf("cat:parse:m%d", i)
		if o.Want(id) {
			runParse(w, id, inp{raw: "9.9.9.9"}, inp{raw: s}, 53)
		}
		id = fmt.Sprintf("cat:url:m%d", i)
		if o.Want(id) {
			runURL(w, id, "tls://"+s+"/q")
		}
	}
	for i, v := range append(append([]string{}, v6s...), names...) {
		id := fmt.Sprintf("cat:trim:b%d", i)
		if o.Want(id) {
			runTrim(w, id, "["+v+"]")
		}
		id = fmt.Sprintf("cat:ip:%d", i)
		if o.Want(id) {
			runIP(w, id, v)
		}
	}
	for i, p := range append(append([]string{}, goodPorts...), badPorts...) {
		id := fmt.Sprintf("cat:uint:%d", i)
		if o.Want(id) {
			runUint(w, id, p)
		}
		for j, e := range []ep{namep("1.2.3.4", p), v6p("2001:db8::1", p), namep("dns.example", p)} {
			id := fmt.Sprintf("cat:parse:p%d:%d", i, j)
			if o.Want(id) {
				e := e
				runParse(w, id, inp{e: &e}, inp{}, 853)
			}
			id = fmt.Sprintf("cat:new:p%d:%d", i, j)
			if o.Want(id) {
				runNew(w, id, mean([]string{"udp", "tcp", "tls"}[j], e, "", nil), j > 0)
			}
		}
	}
	for i, s := range append(append([]string{}, schemes...), badSchemes...) {
		for j, e := range []ep{name("1.2.3.4"), name("dns.example"), v6("2001:db8::1", true), v6("2001:db8::1", false), v6("fe80::abcd", false)} {
			id := fmt.Sprintf("cat:new:s%d:%d", i, j)
			if o.Want(id) {
				runNew(w, id, mean(s, e, hx.Pick(hx.NewRNG(1, id), paths), nil), j%2 == 1)
			}
		}
	}

	for i, b := range []inp{{e: pe(name("1.2.3.4"))}, {e: pe(namep("1.2.3.4", "5353"))}, {e: pe(v6("::1", false))},
		{e: pe(v6p("::1", "53"))}, {e: pe(v6("::1", true))}, {e: pe(name("dns.example"))}, {e: pe(namep("1.2.3.4", "65536"))},
		{e: pe(namep("1.2.3.4", ""))}, {e: pe(namep("1.2.3.4", "0"))}, {raw: "[::1"}, {raw: "1.2.3.4:53:"}, {}} {
		for j, u := range []uin{mean("tls", namep("dns.example", "8853"), "", nil), mean("udp", name("1.2.3.4"), "", nil),
			mean("h3", name("dns.example"), "/dns-query", pe(name("other.example"))), mean("tcp", name("dns.example"), "", nil)} {
			id := fmt.Sprintf("cat:newb:%d:%d", i, j)
			if o.Want(id) {
				runNewB(w, id, u, b)
			}
		}
	}

	// generated: helper level and creation
	n := o.Count(900, 30000)
	for i := 0; i < n; i++ {
		id := fmt.Sprintf("gen:%d", i)
		if !o.Want(id) {
			continue
		}
		r := hx.NewRNG(o.Seed, id)
		switch r.Intn(20) {
		case 0:
			runTrim(w, id, genInp(r).str())
		case 1:
			runStd(w, id, genInp(r).str())
		case 2:
			if r.Bool() {
				runUint(w, id, *genPort(r, 1, 2))
			} else {
				runUint(w, id, strconv.Itoa(r.Range(65000, 66000)))
			}
		case 3, 4:
			if r.Bool() {
				runIP(w, id, genV6(r))
			} else {
				runIP(w, id, genName(r))
			}
		case 5, 6:
			runURL(w, id, genUin(r).addrStr())
		case 7:
			runRemove(w, id, genInp(r))
		case 8, 9:
			runSplit(w, id, genInp(r))
		case 10:
			runRemove(w, id, genInp(r))
		case 11, 12, 13, 14:
			d := inp{}
			if r.Chance(2, 5) {
				d = genInp(r)
			}
			runParse(w, id, genInp(r), d, hx.Pick(r, []uint16{53, 853, 443}))
		case 19:
			runNewB(w, id, genUin(r), genBs(r))
		default:
			runNew(w, id, genUin(r), r.Bool())
		}
	}

	// network level: catalogue, then generated
	{
		p1, p2 := "", ""
		cat := netCatalogue("P", "Q")
		need := false
		for i := range cat {
			if o.Want(fmt.Sprintf("net:%d", i)) {
				need = true
			}
		}
		if need {
			p1, p2 = freePorts(hx.NewRNG(o.Seed, "net-ports"))
			cat = netCatalogue(p1, p2)
		}
		for i, ns := range cat {
			id := fmt.Sprintf("net:%d", i)
			if !o.Want(id) {
				continue
			}
			if !runNet(w, id, ns) {
				w.Tally("net-skipped(bind)", 1)
			}
		}
	}
	nn := o.Count(12, 600)
	if o.N > 0 {
		nn = o.N / 40
	}
	for i := 0; i < nn; i++ {
		id := fmt.Sprintf("netgen:%d", i)
		if !o.Want(id) {
			continue
		}
		r := hx.NewRNG(o.Seed, id)
		if !runNet(w, id, genNet(r)) {
			w.Tally("net-skipped(bind)", 1)
		}
	}

	// sequences of upstreams created from one shared tls.Config
	for i, c := range seqCatalogue() {
		id := fmt.Sprintf("seq:%d", i)
		if o.Want(id) {
			runSeq(w, id, c.preset, c.ups)
		}
	}
	nq := o.Count(10, 300)
	if o.N > 0 {
		nq = o.N / 100
	}
	for i := 0; i < nq; i++ {
		id := fmt.Sprintf("seqgen:%d", i)
		if !o.Want(id) {
			continue
		}
		preset, ups := genSeq(hx.NewRNG(o.Seed, id))
		runSeq(w, id, preset, ups)
	}
}
