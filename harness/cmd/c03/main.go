// Driver for C03 (every valid query gets one reply with its own ID and
// question). Builds programs over the REAL cache, redirect, hosts, black_hole,
// arbitrary, ttl, ecs_handler, forward_edns0opt, drop_resp and forward plugins
// (forward over scripted in-memory upstreams that echo the question) with the
// real sequence.NewSequence, sends valid and malformed client queries through
// the real EntryHandler.Handle (UDP and TCP framing) and prints, per query,
// what the upstreams received, what the chain left in the context and the
// reply with its length as Judge.C03.case literals. Shared code: harness/msgx.
package main

import (
	"fmt"
	"net/netip"
	"os"
	"strings"

	"github.com/miekg/dns"

	"verifharness/hx"
	"verifharness/msgx"
)

func opt(size uint16, do bool, opts ...dns.EDNS0) *dns.OPT {
	o := new(dns.OPT)
	o.Hdr.Name = "."
	o.Hdr.Rrtype = dns.TypeOPT
	o.SetUDPSize(size)
	if do {
		o.SetDo()
	}
	o.Option = opts
	return o
}

type qmod func(m *dns.Msg)

func query(id uint16, name string, qtype uint16, udp bool, o *dns.OPT, mods ...qmod) msgx.Query {
	m := new(dns.Msg)
	m.Id = id
	m.RecursionDesired = true
	m.Question = []dns.Question{{Name: name, Qtype: qtype, Qclass: dns.ClassINET}}
	if o != nil {
		m.Extra = []dns.RR{o}
	}
	for _, f := range mods {
		f(m)
	}
	n, err := msgx.WireNormalise(m)
	if err != nil {
		panic(err)
	}
	return msgx.Query{Msg: n, UDP: udp, TCPf: id%2 == 0, Addr: netip.MustParseAddr("10.9.8.0")}
}

func arec(name string, ttl uint32, tag uint32) dns.RR {
	return &dns.A{Hdr: dns.RR_Header{Name: name, Rrtype: dns.TypeA, Class: dns.ClassINET, Ttl: ttl}, A: msgx.IP4(tag)}
}
func txt(ttl uint32, n int) dns.RR {
	return &dns.TXT{Hdr: dns.RR_Header{Name: "", Rrtype: dns.TypeTXT, Class: dns.ClassINET, Ttl: ttl}, Txt: []string{strings.Repeat("x", n)}}
}

func rule(kind string, arg int, ms ...msgx.TMatch) msgx.TRule {
	return msgx.TRule{Ms: ms, Kind: kind, Arg: arg}
}
func seq1(rules ...msgx.TRule) []msgx.TSeq { return []msgx.TSeq{{Name: 0, Rules: rules}} }

type catCase struct {
	name string
	c    *msgx.Case
}

func catalogue(o *hx.Opts) []catCase {
	var out []catCase
	add := func(name string, xs []msgx.XDesc, ws []msgx.WDesc, ss []msgx.TSeq, sc [][]msgx.Template, qs ...msgx.Query) {
		out = append(out, catCase{name, &msgx.Case{Xs: xs, Ws: ws, Scripts: sc, Prog: ss, Queries: qs}})
	}
	fwd := msgx.XDesc{Kind: "forward", Up: 0}
	hostsA := msgx.XDesc{Kind: "hosts", Hosts: []msgx.HostEntry{{Pattern: "a.test", V4: []uint32{0x0A000101, 0x0A000102}, V6: []uint16{0x101}}}}
	answer := msgx.Template{Flags: 1 << 7, Answer: []dns.RR{arec("", 300, 0x0A000001)}, Opt: opt(1232, false)}
	one := func(t msgx.Template) [][]msgx.Template { return [][]msgx.Template{{t}} }
	redAB := msgx.WDesc{Kind: "redirect", Rules: []msgx.RedirectRule{{Pattern: "a.test", Target: "b.test."}}}
	redBC := msgx.WDesc{Kind: "redirect", Rules: []msgx.RedirectRule{{Pattern: "b.test", Target: "c.test"}}}
	redCyc := msgx.WDesc{Kind: "redirect", Rules: []msgx.RedirectRule{{Pattern: "a.test", Target: "b.test."}, {Pattern: "b.test", Target: "a.test."}}}
	cache := msgx.WDesc{Kind: "cache"}
	qa := func(id uint16, name string, udp bool) msgx.Query { return query(id, name, 1, udp, nil) }

	// the shape of defect F9 (repaired by 8cf695f): hosts answers a, redirect renames to b, cache inside
	add("hosts-redirect-cache", []msgx.XDesc{hostsA}, []msgx.WDesc{redAB, cache},
		seq1(rule("exec", 0), rule("wrap", 0), rule("wrap", 1)), nil,
		qa(1, "a.test.", false), qa(2, "b.test.", false), qa(3, "a.test.", true), qa(4, "A.Test.", false))
	add("hosts-redirect-cache-forward", []msgx.XDesc{hostsA, fwd}, []msgx.WDesc{redAB, cache},
		seq1(rule("exec", 0), rule("wrap", 0), rule("wrap", 1), rule("exec", 1, msgx.TMatch{Neg: true, ID: 0})), one(answer),
		qa(1, "a.test.", false), qa(2, "b.test.", false), qa(3, "b.test.", true), qa(4, "a.test.", false))
	// redirect: plain, chained through two plugins, cycle, with a cache outside / inside, class CH, two questions never reach it
	add("redirect-forward", []msgx.XDesc{fwd}, []msgx.WDesc{redAB}, seq1(rule("wrap", 0), rule("exec", 0)), one(answer),
		qa(1, "a.test.", false), qa(2, "A.TEST.", true), qa(3, "b.test.", false), query(4, "a.test.", 1, false, nil, func(m *dns.Msg) { m.Question[0].Qclass = 3 }))
	add("redirect-chain", []msgx.XDesc{fwd}, []msgx.WDesc{redAB, redBC}, seq1(rule("wrap", 0), rule("wrap", 1), rule("exec", 0)), one(answer),
		qa(1, "a.test.", false), qa(2, "b.test.", false), qa(3, "c.test.", true))
	add("redirect-cycle", []msgx.XDesc{fwd}, []msgx.WDesc{redCyc}, seq1(rule("wrap", 0), rule("wrap", 0), rule("wrap", 0), rule("exec", 0)), one(answer),
		qa(1, "a.test.", false), qa(2, "b.test.", false))
	add("cache-redirect-forward", []msgx.XDesc{fwd}, []msgx.WDesc{cache, redAB}, seq1(rule("wrap", 0), rule("wrap", 1), rule("exec", 0)), one(answer),
		qa(1, "a.test.", false), qa(2, "a.test.", false), qa(3, "b.test.", false), qa(4, "b.test.", false))
	add("redirect-cache-forward", []msgx.XDesc{fwd}, []msgx.WDesc{redAB, cache}, seq1(rule("wrap", 0), rule("wrap", 1), rule("exec", 0)), one(answer),
		qa(1, "a.test.", false), qa(2, "b.test.", false), qa(3, "a.test.", false), qa(0xFFFF, "b.test.", true))
	add("redirect-error", []msgx.XDesc{hostsA, fwd}, []msgx.WDesc{redAB}, seq1(rule("exec", 0), rule("wrap", 0), rule("exec", 1)), one(msgx.Template{Fail: true}),
		qa(1, "a.test.", false), qa(2, "b.test.", true))
	// the three outcomes: answer, error -> SERVFAIL, nothing -> REFUSED; accept / reject / drop_resp
	add("servfail", []msgx.XDesc{fwd}, nil, seq1(rule("exec", 0)), one(msgx.Template{Fail: true}),
		qa(1, "a.test.", false), query(2, "a.test.", 28, true, opt(4096, true)), query(3, "a.test.", 1, false, nil, func(m *dns.Msg) { m.Opcode = 2; m.CheckingDisabled = true }))
	add("refused", nil, nil, seq1(rule("accept", 0)), nil,
		qa(1, "a.test.", false), query(2, "B.TEST.", 16, true, opt(0, false)), query(3, "a.test.", 1, false, nil, func(m *dns.Msg) { m.Opcode = 5; m.RecursionDesired = true; m.CheckingDisabled = true }))
	for i, rc := range []int{-1, 0, 3, 15, 16, 4095} {
		add(fmt.Sprintf("reject-%d", i), nil, nil, seq1(rule("reject", rc)), nil, qa(1, "a.test.", false), query(2, "a.test.", 1, true, opt(1232, true)))
	}
	add("drop-resp", []msgx.XDesc{hostsA, {Kind: "drop_resp"}}, []msgx.WDesc{cache}, seq1(rule("wrap", 0), rule("exec", 0), rule("exec", 1)), nil, qa(1, "a.test.", false), qa(2, "a.test.", false))
	// local answers: hosts (A, AAAA, empty -> SOA, other types pass), black_hole, arbitrary; mixed case kept
	add("hosts", []msgx.XDesc{hostsA}, nil, seq1(rule("exec", 0)), nil,
		qa(1, "a.test.", false), query(2, "A.tEsT.", 28, false, nil), query(3, "a.test.", 16, false, nil), qa(4, "b.test.", true),
		query(5, "a.test.", 1, false, nil, func(m *dns.Msg) { m.Question[0].Qclass = 3 }))
	add("hosts-v4-only", []msgx.XDesc{{Kind: "hosts", Hosts: []msgx.HostEntry{{Pattern: "full:A.TEST.", V4: []uint32{0x0A000105}}}}}, nil, seq1(rule("exec", 0)), nil,
		query(1, "a.test.", 28, false, nil), qa(2, "a.test.", true))
	add("black-hole", []msgx.XDesc{{Kind: "black_hole", V4: []uint32{0x0A000201}, V6: []uint16{0x201, 0x202}}}, nil, seq1(rule("exec", 0)), nil,
		qa(1, "a.test.", false), query(2, "B.TEST.", 28, true, nil), query(3, "a.test.", 16, false, nil), query(4, "a.test.", 1, false, nil, func(m *dns.Msg) { m.Question[0].Qclass = 255 }))
	add("arbitrary", []msgx.XDesc{{Kind: "arbitrary", Zone: []msgx.ZoneRR{
		{Owner: "a.test.", Type: 1, TTL: 300, V4: 0x0A000301}, {Owner: "A.Test.", Type: 1, TTL: 60, V4: 0x0A000302}, {Owner: "b.test.", Type: 16, TTL: 0, Txt: "zz"}}}}, nil,
		seq1(rule("exec", 0)), nil, qa(1, "a.test.", false), qa(2, "A.TEST.", false), query(3, "b.test.", 16, true, nil), qa(4, "b.test.", false))
	// cache: the id of a hit is the query's id; different case = different entry; opcode != 0 bypasses
	add("cache-ids", []msgx.XDesc{fwd}, []msgx.WDesc{cache}, seq1(rule("wrap", 0), rule("exec", 0)), one(answer),
		qa(0, "a.test.", false), qa(0xFFFF, "a.test.", false), qa(1, "A.test.", false), qa(2, "a.test.", true),
		query(3, "a.test.", 1, false, nil, func(m *dns.Msg) { m.Opcode = 2 }), query(4, "a.test.", 1, false, nil, func(m *dns.Msg) { m.Opcode = 2 }))
	add("cache-ttl-rules", []msgx.XDesc{fwd}, []msgx.WDesc{cache}, seq1(rule("wrap", 0), rule("exec", 0)),
		[][]msgx.Template{{{Rcode: 3}, {Rcode: 2}, {Rcode: 5}, {Answer: []dns.RR{arec("", 0, 1)}}, {Flags: 1 << 9, Answer: []dns.RR{arec("", 300, 1)}}, {Ns: []dns.RR{arec("", 4000, 1)}}}},
		qa(0, "a.test.", false), qa(6, "a.test.", false), qa(1, "a.test.", false), qa(7, "a.test.", false), qa(2, "a.test.", false), qa(8, "a.test.", false),
		qa(3, "a.test.", false), qa(9, "a.test.", false), qa(4, "a.test.", false), qa(10, "a.test.", false), qa(5, "a.test.", false), qa(11, "a.test.", false))
	// 255-octet and other long names through forward, cache and redirect
	long := msgx.LongName(244, 1)
	add("long-name", []msgx.XDesc{fwd}, []msgx.WDesc{cache}, seq1(rule("wrap", 0), rule("exec", 0)), one(answer),
		qa(1, long, false), qa(2, long, true), query(3, long, 1, true, opt(512, false)))
	// malformed queries get no reply
	mal := []qmod{
		func(m *dns.Msg) { m.Response = true },
		func(m *dns.Msg) { m.Question = nil },
		func(m *dns.Msg) { m.Question = append(m.Question, m.Question[0]) },
		func(m *dns.Msg) { m.Answer = []dns.RR{arec("a.test.", 1, 1)} },
		func(m *dns.Msg) { m.Ns = []dns.RR{arec("a.test.", 1, 1)} },
		func(m *dns.Msg) { m.Extra = []dns.RR{arec("a.test.", 1, 1), opt(1232, false)} },
		func(m *dns.Msg) { m.Extra = []dns.RR{opt(1232, false), opt(512, true)} },
		func(m *dns.Msg) { m.Extra = []dns.RR{arec("a.test.", 1, 1)} }, // one non-OPT additional record: valid
	}
	var mq []msgx.Query
	for i, f := range mal {
		mq = append(mq, query(uint16(i), "a.test.", 1, i%2 == 0, nil, f))
	}
	add("malformed", []msgx.XDesc{hostsA, fwd}, []msgx.WDesc{cache}, seq1(rule("wrap", 0), rule("exec", 0), rule("exec", 1)), one(answer), mq...)
	// UDP size: advertised sizes around 512 and around the exact reply length
	var big []dns.RR
	for i := 0; i < 9; i++ {
		big = append(big, txt(300, 90))
	}
	bigT := msgx.Template{Flags: 1 << 7, Answer: big, Ns: []dns.RR{txt(300, 50)}, Extra: []dns.RR{arec("", 300, 5)}}
	probe := &msgx.Case{Xs: []msgx.XDesc{fwd}, Scripts: one(bigT), Prog: seq1(rule("exec", 0)),
		Queries: []msgx.Query{query(1, "a.test.", 16, false, opt(4096, false)), query(1, "a.test.", 16, false, nil)}}
	if res, err := probe.Run(func() *hx.RNG { return hx.NewRNG(o.Seed, "probe") }); err == nil && res.Obs[0].Replied {
		l1, l0 := res.Obs[0].Len, res.Obs[1].Len
		var qs []msgx.Query
		for _, s := range []int{0, 511, 512, 513, l1 - 12, l1 - 11, l1 - 1, l1, l1 + 1, 65535} {
			qs = append(qs, query(uint16(s), "a.test.", 16, true, opt(uint16(s), s%2 == 1)))
		}
		qs = append(qs, query(7, "a.test.", 16, true, nil), query(8, "a.test.", 16, false, nil), query(9, "a.test.", 16, false, opt(512, false)))
		add("udp-sizes", []msgx.XDesc{fwd}, nil, seq1(rule("exec", 0)), one(bigT), qs...)
		_ = l0
	}
	// a reply that is exactly 512 / 513 bytes long without OPT
	for i, n := range []int{0, 1} {
		pad := msgx.Template{Answer: []dns.RR{txt(300, 200), txt(300, 200), txt(300, 19+n)}}
		add(fmt.Sprintf("udp-512-%d", i), []msgx.XDesc{fwd}, nil, seq1(rule("exec", 0)), one(pad), query(1, "a.test.", 16, true, nil), query(2, "a.test.", 16, true, opt(512, false)), query(3, "a.test.", 16, false, nil))
	}
	// upstream answers TC itself / with extended rcode
	add("upstream-tc", []msgx.XDesc{fwd}, nil, seq1(rule("exec", 0)), one(msgx.Template{Flags: 1 << 9, Answer: []dns.RR{arec("", 300, 1)}}), qa(1, "a.test.", true), qa(2, "a.test.", false))
	add("upstream-ext-rcode", []msgx.XDesc{fwd}, nil, seq1(rule("exec", 0)), one(msgx.Template{Rcode: 23, Opt: opt(1232, false)}), qa(1, "a.test.", false), query(2, "a.test.", 1, false, opt(1232, false)))
	// jump / goto / return around wrappers
	add("jump-return", []msgx.XDesc{hostsA, fwd, {Kind: "ttl", Fix: 60}}, []msgx.WDesc{cache, redAB},
		[]msgx.TSeq{{Name: 1, Rules: []msgx.TRule{rule("wrap", 0), rule("return", 0, msgx.TMatch{ID: 0}), rule("exec", 1)}},
			{Name: 0, Rules: []msgx.TRule{rule("wrap", 1), rule("jump", 1), rule("exec", 2), rule("exec", 0, msgx.TMatch{Neg: true, ID: 0})}}},
		one(answer), qa(1, "a.test.", false), qa(2, "a.test.", false), qa(3, "b.test.", true))
	return out
}

func emit(w *hx.Writer, o *hx.Opts, id, kind string, c *msgx.Case) {
	res, err := c.Run(func() *hx.RNG { return hx.NewRNG(o.Seed, id+"/render") })
	if err == msgx.ErrSlow {
		w.Tally("skipped-slow", 1)
		return
	}
	if err != nil {
		fmt.Fprintf(os.Stderr, "case %s: %v\n", id, err)
		os.Exit(3)
	}
	replied, seen, tc := 0, 0, 0
	chains := map[string]int{}
	for _, q := range res.Obs {
		if q.Replied {
			replied++
		}
		if q.TC {
			tc++
		}
		seen += q.Seen
		chains[q.Chain]++
		w.Tally("query-chain-"+q.Chain, 1)
	}
	w.Tally("queries", len(res.Obs))
	w.Tally("queries-replied", replied)
	w.Tally("replies-tc", tc)
	w.Emit(kind, hx.Case{
		ID:   id,
		Coq:  res.Coq,
		Desc: map[string]any{"kind": kind, "text": res.Text, "queries": len(res.Obs), "replied": replied, "upstream_msgs": seen, "tc": tc},
		FKey: kind,
	})
}

func main() {
	o := hx.ParseFlags()
	msgx.Quiesce() // the idle process, before anything is started
	w := hx.NewWriter(o)
	defer w.Close()
	for _, cc := range catalogue(o) {
		id := "cat/" + cc.name
		if o.Want(id) {
			emit(w, o, id, "catalogue", cc.c)
		}
	}
	nf := o.Count(60, 1000)
	if o.N > 0 {
		nf = o.N / 6
	}
	for i := 0; i < nf; i++ {
		id := fmt.Sprintf("fun/%d", i)
		if !o.Want(id) {
			continue
		}
		op, arg, m := msgx.GenFun(hx.NewRNG(o.Seed, id))
		w.Emit("helper", hx.Case{ID: id, Coq: msgx.RunFun(op, arg, m), Desc: map[string]any{"kind": "helper", "op": op, "arg": arg}, FKey: "helper"})
	}
	for i := 0; i < nf; i++ {
		id := fmt.Sprintf("copy/%d", i)
		if !o.Want(id) {
			continue
		}
		w.Emit("copy", hx.Case{ID: id, Coq: msgx.RunCopy(hx.NewRNG(o.Seed, id)), Desc: map[string]any{"kind": "copy"}, FKey: "copy"})
	}
	nn := 8
	if o.Tier == "thorough" {
		nn = 150
	}
	if o.N > 0 {
		nn = 1 + o.N/100
	}
	for i := 0; i < nn; i++ {
		id := fmt.Sprintf("net/%d", i)
		if !o.Want(id) {
			continue
		}
		r := hx.NewRNG(o.Seed, id)
		var nc *msgx.NetCase
		switch {
		case i == 1:
			nc = msgx.GenPipeCase(r, 48, 6) // many replies written at the same moment on one connection
		case i%4 == 3:
			nc = msgx.GenPipeCase(r, r.Range(8, 32), 3)
		default:
			nc = msgx.GenNetCase(r, i == 0)
		}
		coq, tally, err := nc.Run(func() *hx.RNG { return hx.NewRNG(o.Seed, id+"/render") })
		if err != nil {
			fmt.Fprintf(os.Stderr, "case %s: %v\n", id, err)
			os.Exit(3)
		}
		for k, v := range tally {
			w.Tally(k, v)
		}
		w.Emit("servers", hx.Case{ID: id, Coq: coq, Desc: map[string]any{"kind": "servers", "queries": len(nc.Queries), "rounds": len(nc.Rounds), "boundary": i == 0}, FKey: "servers"})
	}
	nl := o.Count(40, 1000)
	if o.N > 0 {
		nl = 1 + o.N/15
	}
	for i := 0; i < nl; i++ {
		id := fmt.Sprintf("lazy/%d", i)
		if !o.Want(id) {
			continue
		}
		lc := msgx.GenLazyCase(hx.NewRNG(o.Seed, id))
		coq, err := lc.Run(func() *hx.RNG { return hx.NewRNG(o.Seed, id+"/render") })
		if err == msgx.ErrSlow {
			w.Tally("skipped-slow", 1)
			continue
		}
		if err != nil {
			fmt.Fprintf(os.Stderr, "case %s: %v\n", id, err)
			os.Exit(3)
		}
		w.Emit("lazy", hx.Case{ID: id, Coq: coq, Desc: map[string]any{"kind": "lazy", "steps": len(lc.Steps)}, FKey: "lazy"})
	}
	n := o.Count(700, 15000)
	for i := 0; i < n; i++ {
		id := fmt.Sprintf("rnd/%d", i)
		if !o.Want(id) {
			continue
		}
		r := hx.NewRNG(o.Seed, id)
		if i%4 == 3 {
			emit(w, o, id, "copying", msgx.GenCopyingCase(r))
		} else if i%2 == 1 {
			emit(w, o, id, "structured", msgx.GenStructuredC03(r))
		} else {
			emit(w, o, id, "random", msgx.GenCaseC03(r))
		}
	}
}
