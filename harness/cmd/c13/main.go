// Driver for C13 (IP sets contain exactly the addresses their prefixes cover).
// Loads prefix multisets into the real netlist.List / text loaders / ip_set
// plugin of /repo, asks the real Contains/Match for boundary and random
// addresses and prints what it saw as Judge.C13.case literals.
package main

import (
	"fmt"
	"math/big"
	"net/netip"
	"os"
	"path/filepath"
	"regexp"
	"strconv"
	"strings"

	"github.com/IrineSistiana/mosdns/v5/coremain"
	"github.com/IrineSistiana/mosdns/v5/pkg/matcher/netlist"
	"github.com/IrineSistiana/mosdns/v5/plugin/data_provider/ip_set"

	"verifharness/hx"
)

// ---------- 128-bit helpers ----------

var (
	one    = big.NewInt(1)
	two128 = new(big.Int).Lsh(one, 128)
	max128 = new(big.Int).Sub(two128, one)
)

func big16(a netip.Addr) *big.Int {
	b := a.As16()
	return new(big.Int).SetBytes(b[:])
}

func from128(v *big.Int) netip.Addr {
	var b [16]byte
	v.FillBytes(b[:])
	return netip.AddrFrom16(b)
}

func rand128(r *hx.RNG) *big.Int {
	v := new(big.Int).SetUint64(r.U64())
	v.Lsh(v, 64)
	return v.Or(v, new(big.Int).SetUint64(r.U64()))
}

func addrCoq(a netip.Addr) string {
	if a.Is4() {
		b := a.As4()
		return hx.App("A4", hx.N(uint64(b[0])<<24|uint64(b[1])<<16|uint64(b[2])<<8|uint64(b[3])))
	}
	return hx.App("A6", big16(a).String())
}

// ---------- entries ----------

// ent is one loaded item: a prefix (address of either family, host bits
// possibly set) or a bare address.
type ent struct {
	a    netip.Addr
	bits int
	bare bool
	text string // alternative spelling for the text loaders ("" = canonical)
}

func (e ent) prefix() netip.Prefix {
	if e.bare {
		return netip.PrefixFrom(e.a, e.a.BitLen())
	}
	return netip.PrefixFrom(e.a, e.bits)
}

func (e ent) coq() string {
	if e.bare {
		return hx.App("EAddr", addrCoq(e.a))
	}
	return hx.App("EPfx", addrCoq(e.a), hx.Ni(e.bits))
}

func (e ent) String() string {
	if e.text != "" {
		return e.text
	}
	if e.bare {
		return e.a.String()
	}
	return e.a.String() + "/" + strconv.Itoa(e.bits)
}

func entsCoq(es []ent) string {
	it := make([]string, len(es))
	for i, e := range es {
		it[i] = e.coq()
	}
	return hx.List(it)
}

// block is a prefix in the 128-bit space: masked value and length 0..128.
type block struct {
	lo   *big.Int
	bits int
}

func (b block) size() *big.Int { return new(big.Int).Lsh(one, uint(128-b.bits)) }
func (b block) hi() *big.Int   { return new(big.Int).Sub(new(big.Int).Add(b.lo, b.size()), one) }

func mkBlock(v *big.Int, bits int) block {
	sz := new(big.Int).Lsh(one, uint(128-bits))
	m := new(big.Int).Sub(sz, one)
	return block{lo: new(big.Int).AndNot(v, m), bits: bits}
}

func entBlock(e ent) block {
	bits := e.bits
	if e.bare {
		bits = e.a.BitLen()
	}
	if e.a.Is4() {
		bits += 96
	}
	return mkBlock(big16(e.a), bits)
}

// render turns a block into an entry: random family where both exist, host
// bits set at random, bare address for full-length blocks at random, and an
// alternative spelling now and then.
func render(r *hx.RNG, b block) ent {
	v := new(big.Int).Set(b.lo)
	if b.bits < 128 && r.Bool() {
		m := new(big.Int).Sub(b.size(), one)
		v.Or(v, new(big.Int).And(rand128(r), m))
	}
	a := from128(v)
	e := ent{a: a, bits: b.bits}
	if a.Is4In6() && b.bits >= 96 && r.Chance(2, 3) {
		e.a = a.Unmap()
		e.bits = b.bits - 96
	}
	if e.bits == e.a.BitLen() && r.Chance(2, 3) {
		e.bare = true
	}
	if r.Chance(1, 6) {
		e.text = altSpelling(r, e)
	}
	checkText(e)
	return e
}

// checkText makes sure the spelling handed to the text loaders denotes the
// entry that is reported to the Judge (a driver bug otherwise, not a finding).
func checkText(e ent) {
	s := e.String()
	if e.bare {
		a, err := netip.ParseAddr(s)
		if err != nil || a.WithZone("") != e.a {
			fatal("spelling %q does not denote %v", s, e.a)
		}
		return
	}
	p, err := netip.ParsePrefix(s)
	if err != nil || p != e.prefix() {
		fatal("spelling %q does not denote %v", s, e.prefix())
	}
}

func expand6(a netip.Addr) string { return a.StringExpanded() }

func altSpelling(r *hx.RNG, e ent) string {
	s := ""
	switch {
	case e.a.Is4():
		return ""
	case e.a.Is4In6() && r.Bool():
		// pure hex spelling of a mapped address
		b := e.a.As16()
		s = fmt.Sprintf("::ffff:%x:%x", uint16(b[12])<<8|uint16(b[13]), uint16(b[14])<<8|uint16(b[15]))
	case r.Bool():
		s = strings.ToUpper(expand6(e.a))
	default:
		s = expand6(e.a)
	}
	if e.bare {
		if r.Chance(1, 3) {
			return s + "%eth0" // zone of a bare address is dropped by PrefixFrom / Addr.Prefix
		}
		return s
	}
	return s + "/" + strconv.Itoa(e.bits)
}

// ---------- queries ----------

type probe struct {
	q   netip.Addr
	obs bool
}

func queryCoq(a netip.Addr) string {
	switch {
	case !a.IsValid():
		return "QInvalid"
	case a.Is4():
		b := a.As4()
		return hx.App("Q4", hx.N(uint64(b[0])<<24|uint64(b[1])<<16|uint64(b[2])<<8|uint64(b[3])))
	case a.Zone() != "":
		return hx.App("Q6z", big16(a).String())
	}
	return hx.App("Q6", big16(a).String())
}

func probesCoq(ps []probe) string {
	it := make([]string, len(ps))
	for i, p := range ps {
		it[i] = hx.Tuple(queryCoq(p.q), hx.Bool(p.obs))
	}
	return hx.List(it)
}

// asQuery picks how the 128-bit value is presented to Contains.
func asQuery(r *hx.RNG, v *big.Int) netip.Addr {
	a := from128(v)
	if a.Is4In6() && r.Bool() {
		return a.Unmap()
	}
	if r.Chance(1, 40) {
		return a.WithZone("eth0")
	}
	return a
}

// boundaryValues lists lo-1, lo, hi, hi+1 (inside 0..2^128-1) of every entry.
func boundaryValues(es []ent) []*big.Int {
	var out []*big.Int
	seen := map[string]bool{}
	add := func(v *big.Int) {
		if v.Sign() < 0 || v.Cmp(max128) > 0 {
			return
		}
		k := v.String()
		if !seen[k] {
			seen[k] = true
			out = append(out, v)
		}
	}
	for _, e := range es {
		b := entBlock(e)
		add(new(big.Int).Sub(b.lo, one))
		add(b.lo)
		add(b.hi())
		add(new(big.Int).Add(b.hi(), one))
	}
	return out
}

func genQueries(r *hx.RNG, es []ent, max int) []netip.Addr {
	bv := boundaryValues(es)
	var qs []netip.Addr
	if len(bv) <= max-2 {
		for _, v := range bv {
			qs = append(qs, asQuery(r, v))
		}
	} else {
		for _, i := range r.Perm(len(bv))[:max-2] {
			qs = append(qs, asQuery(r, bv[i]))
		}
	}
	for len(qs) < max && r.Chance(3, 4) {
		switch r.Intn(6) {
		case 0:
			qs = append(qs, asQuery(r, rand128(r)))
		case 1:
			qs = append(qs, netip.AddrFrom4([4]byte{byte(r.Intn(256)), byte(r.Intn(4)), byte(r.Intn(2)), byte(r.Intn(256))}))
		case 2:
			qs = append(qs, netip.Addr{})
		default: // inside or around some entry
			if len(es) == 0 {
				qs = append(qs, asQuery(r, rand128(r)))
				break
			}
			b := entBlock(hx.Pick(r, es))
			off := new(big.Int).And(rand128(r), new(big.Int).Sub(b.size(), one))
			v := new(big.Int).Add(b.lo, off)
			if r.Chance(1, 4) {
				v.Add(b.hi(), big.NewInt(int64(r.Range(1, 3))))
			}
			if v.Cmp(max128) <= 0 {
				qs = append(qs, asQuery(r, v))
			}
		}
	}
	return qs
}

// ---------- running the real code ----------

type matcher interface{ Match(netip.Addr) bool }

func ask(m matcher, qs []netip.Addr) []probe {
	out := make([]probe, len(qs))
	for i, q := range qs {
		out[i] = probe{q, m.Match(q)}
	}
	return out
}

var scratchDir string

func tempFile(id string, content string) string {
	name := filepath.Join(scratchDir, "c13_"+strings.NewReplacer(":", "_", "/", "_").Replace(id)+fmt.Sprintf("_%d.txt", os.Getpid()))
	if err := os.WriteFile(name, []byte(content), 0o600); err != nil {
		fatal("cannot write scratch file: %v", err)
	}
	return name
}

func fatal(f string, a ...any) {
	fmt.Fprintf(os.Stderr, "c13 driver: "+f+"\n", a...)
	os.Exit(3)
}

// textOf renders entries as a loader text with comments, blank lines, padding.
// It returns the text and the 1-based line number of every entry.
func textOf(r *hx.RNG, es []string) (string, []int) {
	var sb strings.Builder
	lines := 0
	where := make([]int, len(es))
	nl := func() {
		if r.Chance(1, 5) {
			sb.WriteString("\r\n")
		} else {
			sb.WriteString("\n")
		}
		lines++
	}
	for i, s := range es {
		for r.Chance(1, 4) {
			switch r.Intn(4) {
			case 0:
				sb.WriteString("# 10.0.0.0/8 commented out")
			case 1:
				sb.WriteString("   ")
			case 2:
				sb.WriteString("\t#")
			}
			nl()
		}
		switch r.Intn(5) {
		case 0:
			sb.WriteString("  " + s + "\t")
		case 1:
			sb.WriteString(s + " # 192.168.0.0/16")
		case 2:
			sb.WriteString(s + " 172.16.0.0/12")
		case 3:
			sb.WriteString(s + "#x")
		default:
			sb.WriteString(s)
		}
		where[i] = lines + 1
		if i == len(es)-1 && r.Bool() {
			lines++ // no final newline
		} else {
			nl()
		}
	}
	return sb.String(), where
}

func strs(es []ent) []string {
	out := make([]string, len(es))
	for i, e := range es {
		out[i] = e.String()
	}
	return out
}

func prefixes(es []ent) []netip.Prefix {
	out := make([]netip.Prefix, len(es))
	for i, e := range es {
		out[i] = e.prefix()
	}
	return out
}

var testM = coremain.NewTestMosdnsWithPlugins(map[string]any{})

func newBP(plugins map[string]any) *coremain.BP {
	if plugins == nil {
		return coremain.NewBP("c13", testM)
	}
	return coremain.NewBP("c13", coremain.NewTestMosdnsWithPlugins(plugins))
}

// loadList loads the entries through the given path and returns the matcher
// and, where it can be seen, Len() after Sort.
func loadList(r *hx.RNG, id string, path int, es []ent) (m matcher, n int, lenOK bool, err error) {
	switch path {
	case 0:
		l := netlist.NewList()
		for _, p := range prefixes(es) {
			l.Append(p)
		}
		l.Sort()
		if r.Bool() {
			l.Sort() // second Sort without modification is a no-op
		}
		return l, l.Len(), true, nil
	case 1:
		l := netlist.NewList()
		l.Append(prefixes(es)...)
		l.Sort()
		return l, l.Len(), true, nil
	case 2:
		l := netlist.NewList()
		txt, _ := textOf(r, strs(es))
		if err := netlist.LoadFromReader(l, strings.NewReader(txt)); err != nil {
			return nil, 0, false, err
		}
		l.Sort()
		return l, l.Len(), true, nil
	case 3:
		l := netlist.NewList()
		for _, s := range strs(es) {
			if err := netlist.LoadFromText(l, s); err != nil {
				return nil, 0, false, err
			}
		}
		l.Sort()
		return l, l.Len(), true, nil
	case 4:
		p, err := ip_set.NewIPSet(newBP(nil), &ip_set.Args{IPs: strs(es)})
		if err != nil {
			return nil, 0, false, err
		}
		return p.GetIPMatcher(), 0, false, nil
	default:
		// first part in Args.IPs, the rest in one or two files
		k := r.Intn(len(es) + 1)
		rest := es[k:]
		k2 := r.Intn(len(rest) + 1)
		t1, _ := textOf(r, strs(rest[:k2]))
		t2, _ := textOf(r, strs(rest[k2:]))
		f1, f2 := tempFile(id+"a", t1), tempFile(id+"b", t2)
		defer os.Remove(f1)
		defer os.Remove(f2)
		p, err := ip_set.NewIPSet(newBP(nil), &ip_set.Args{IPs: strs(es[:k]), Files: []string{f1, "", f2}})
		if err != nil {
			return nil, 0, false, err
		}
		return p.GetIPMatcher(), 0, false, nil
	}
}

// rejected reports a loader that refused a well-formed input: expected "no bad
// item" (0), observed 1000000 + the position named in the error.
func rejected(w *hx.Writer, id string, path int, es []ent, err error) {
	w.Emit("rejected-valid-input", hx.Case{
		ID:   id,
		Coq:  hx.App("CBad", hx.Ni(path), entsCoq(es), "0", hx.N(1000000+errPos(err)%1000000), "[]"),
		Desc: map[string]any{"path": path, "entries": strs(es), "error": err.Error()},
	})
}

func lenCoq(n int, ok bool) string { return hx.Opt(ok, hx.Ni(n)) }

// guarded runs f; a panic inside the code under test becomes a judged case
// (expected "no bad item" (0), observed 2000000) instead of a dead driver.
func guarded(w *hx.Writer, id string, path int, es []ent, f func()) {
	if p := hx.Recover(f); p != nil {
		w.Emit("panic", hx.Case{
			ID:   id,
			Coq:  hx.App("CBad", hx.Ni(path), entsCoq(es), "0", "2000000", "[]"),
			Desc: map[string]any{"path": path, "entries": strs(es), "panic": fmt.Sprint(p)},
		})
	}
}

func runList(w *hx.Writer, r *hx.RNG, id string, path int, es []ent, qs []netip.Addr) {
	guarded(w, id, path, es, func() { runList1(w, r, id, path, es, qs) })
}

func runIncr(w *hx.Writer, r *hx.RNG, id string, es1, es2 []ent, qs1, qs2 []netip.Addr) {
	guarded(w, id, 1, append(append([]ent{}, es1...), es2...), func() { runIncr1(w, r, id, es1, es2, qs1, qs2) })
}

func runGroup(w *hx.Writer, r *hx.RNG, id string, top *setNode, qs []netip.Addr) {
	guarded(w, id, 4, top.all(), func() { runGroup1(w, r, id, top, qs) })
}

func runBad(w *hx.Writer, r *hx.RNG, id string, path int, before, after []ent, bad string, qs []netip.Addr) {
	guarded(w, id, path, before, func() { runBad1(w, r, id, path, before, after, bad, qs) })
}

func runList1(w *hx.Writer, r *hx.RNG, id string, path int, es []ent, qs []netip.Addr) {
	m, n, ok, err := loadList(r, id, path, es)
	if err != nil {
		rejected(w, id, path, es, err)
		return
	}
	ps := ask(m, qs)
	w.Emit(fmt.Sprintf("list:path%d", path), hx.Case{
		ID:   id,
		Coq:  hx.App("CList", hx.Ni(path), entsCoq(es), lenCoq(n, ok), probesCoq(ps)),
		Desc: map[string]any{"path": path, "entries": strs(es)},
	})
}

func runIncr1(w *hx.Writer, r *hx.RNG, id string, es1, es2 []ent, qs1, qs2 []netip.Addr) {
	l := netlist.NewList()
	l.Append(prefixes(es1)...)
	l.Sort()
	n1 := l.Len()
	p1 := ask(l, qs1)
	if r.Bool() {
		l.Append(prefixes(es2)...)
	} else {
		for _, s := range strs(es2) {
			if err := netlist.LoadFromText(l, s); err != nil {
				rejected(w, id, 3, es2, err)
				return
			}
		}
	}
	l.Sort()
	n2 := l.Len()
	p2 := ask(l, qs2)
	w.Emit("incr", hx.Case{
		ID:   id,
		Coq:  hx.App("CIncr", entsCoq(es1), entsCoq(es2), hx.Ni(n1), hx.Ni(n2), probesCoq(p1), probesCoq(p2)),
		Desc: map[string]any{"first": strs(es1), "second": strs(es2)},
	})
}

// setNode is one ip_set plugin instance: own entries (the first nIPs of them
// in Args.IPs, the rest in a file) and the sets it references.
type setNode struct {
	own  []ent
	nIPs int
	refs []*setNode
}

func node(own []ent, refs ...*setNode) *setNode {
	return &setNode{own: own, nIPs: len(own), refs: refs}
}

func (s *setNode) coq() string {
	rs := make([]string, len(s.refs))
	for i, c := range s.refs {
		rs[i] = c.coq()
	}
	return hx.App("SetDef", entsCoq(s.own), hx.List(rs))
}

func (s *setNode) all() []ent {
	out := append([]ent{}, s.own...)
	for _, c := range s.refs {
		out = append(out, c.all()...)
	}
	return out
}

// members lists the own entry lists of every set below (and including) s.
func (s *setNode) members() [][]ent {
	out := [][]ent{s.own}
	for _, c := range s.refs {
		out = append(out, c.members()...)
	}
	return out
}

func (s *setNode) depth() int {
	d := 0
	for _, c := range s.refs {
		if k := c.depth(); k > d {
			d = k
		}
	}
	return d + 1
}

type rejection struct {
	es  []ent
	err error
}

// construct builds the referenced sets first and then the set itself through
// the real plugin constructor, registering every instance under its own tag.
func (s *setNode) construct(r *hx.RNG, id string, m *coremain.Mosdns, plugins map[string]any, tag string) (*ip_set.IPSet, *rejection) {
	var tags []string
	for i, c := range s.refs {
		ct := fmt.Sprintf("%s_%d", tag, i)
		p, rej := c.construct(r, id, m, plugins, ct)
		if rej != nil {
			return nil, rej
		}
		plugins[ct] = p
		tags = append(tags, ct)
	}
	args := &ip_set.Args{IPs: strs(s.own[:s.nIPs]), Sets: tags}
	if s.nIPs < len(s.own) {
		txt, _ := textOf(r, strs(s.own[s.nIPs:]))
		f := tempFile(id+tag, txt)
		defer os.Remove(f)
		args.Files = []string{f}
	}
	p, err := ip_set.NewIPSet(coremain.NewBP(tag, m), args)
	if err != nil {
		return nil, &rejection{s.own, err}
	}
	return p, nil
}

func runGroup1(w *hx.Writer, r *hx.RNG, id string, top *setNode, qs []netip.Addr) {
	plugins := map[string]any{}
	m := coremain.NewTestMosdnsWithPlugins(plugins)
	p, rej := top.construct(r, id, m, plugins, "top")
	if rej != nil {
		rejected(w, id, 4, rej.es, rej.err)
		return
	}
	ps := ask(p.GetIPMatcher(), qs)
	w.Emit(fmt.Sprintf("group:depth%d", top.depth()), hx.Case{
		ID:   id,
		Coq:  hx.App("CGroup", top.coq(), probesCoq(ps)),
		Desc: map[string]any{"members": len(top.members()), "depth": top.depth(), "entries": strs(top.all())},
	})
}

// distinctEnts makes entries in a region of the address space that belongs to
// member number k alone, so that only that member covers them.
func distinctEnts(r *hx.RNG, k, n int) []ent {
	out := make([]ent, n)
	for i := range out {
		var b block
		switch r.Intn(3) {
		case 0: // IPv4 (20+k).x.0.0 and longer
			p := netip.PrefixFrom(netip.AddrFrom4([4]byte{byte(20 + k), byte(r.Intn(4)), byte(r.Intn(256)), byte(r.Intn(256))}), r.Range(14, 32))
			b = entBlock(ent{a: p.Addr(), bits: p.Bits()})
		case 1: // IPv6 2001:db8:k::/48 and longer
			a := netip.AddrFrom16([16]byte{0x20, 0x01, 0x0d, 0xb8, 0, byte(k), byte(r.Intn(2)), byte(r.Intn(256)), 0, 0, 0, 0, 0, 0, byte(r.Intn(256)), byte(r.Intn(256))})
			b = entBlock(ent{a: a, bits: r.Range(50, 128)})
		default: // IPv4-mapped ::ffff:(120+k).x.y.z
			a := netip.AddrFrom16([16]byte{0, 0, 0, 0, 0, 0, 0, 0, 0, 0, 0xff, 0xff, byte(120 + k), byte(r.Intn(4)), byte(r.Intn(256)), byte(r.Intn(256))})
			b = entBlock(ent{a: a, bits: r.Range(110, 128)})
		}
		out[i] = render(r, b)
	}
	return out
}

// genTree: a top set with 1..3 referenced sets, each of which may reference
// up to 2 (thorough: 3) further sets; every member gets entries of its own
// region, now and then also entries from the shared seeds (overlaps).
func genTree(r *hx.RNG, maxOwn, maxRefs2 int) *setNode {
	k := 0
	mk := func(minOwn int) *setNode {
		n := r.Range(minOwn, maxOwn)
		own := distinctEnts(r, k, n)
		k++
		if r.Chance(1, 5) {
			own = append(own, genEnts(r, 1)...)
		}
		s := &setNode{own: own, nIPs: len(own)}
		if len(own) > 0 && r.Chance(1, 4) {
			s.nIPs = r.Intn(len(own) + 1)
		}
		return s
	}
	top := mk(0)
	for i, n := 0, r.Range(1, 3); i < n; i++ {
		mid := mk(0)
		for j, nj := 0, r.Range(0, maxRefs2); j < nj; j++ {
			leaf := mk(1)
			if r.Chance(1, 6) { // a third level
				leaf.refs = append(leaf.refs, mk(1))
			}
			mid.refs = append(mid.refs, leaf)
		}
		top.refs = append(top.refs, mid)
	}
	return top
}

// groupQueries: for every member, first/last/inner address of some of its
// entries and the neighbours just outside; then random ones.
func groupQueries(r *hx.RNG, top *setNode, perMember, max int) []netip.Addr {
	var qs []netip.Addr
	add := func(v *big.Int) {
		if v.Sign() >= 0 && v.Cmp(max128) <= 0 {
			qs = append(qs, asQuery(r, v))
		}
	}
	for _, mem := range top.members() {
		if len(mem) == 0 {
			continue
		}
		for i := 0; i < perMember; i++ {
			b := entBlock(hx.Pick(r, mem))
			switch r.Intn(5) {
			case 0:
				add(b.lo)
			case 1:
				add(b.hi())
			case 2:
				add(new(big.Int).Add(b.lo, new(big.Int).And(rand128(r), new(big.Int).Sub(b.size(), one))))
			case 3:
				add(b.lo)
				add(new(big.Int).Sub(b.lo, one))
			default:
				add(b.hi())
				add(new(big.Int).Add(b.hi(), one))
			}
		}
	}
	if len(qs) > max {
		var keep []netip.Addr
		for _, i := range r.Perm(len(qs))[:max] {
			keep = append(keep, qs[i])
		}
		qs = keep
	}
	for len(qs) < max && r.Chance(1, 2) {
		qs = append(qs, asQuery(r, rand128(r)))
	}
	return qs
}

var numRe = regexp.MustCompile(`#(\d+)`)

func errPos(err error) uint64 {
	if err == nil {
		return 999999
	}
	m := numRe.FindStringSubmatch(err.Error())
	if m == nil {
		return 999998
	}
	v, _ := strconv.ParseUint(m[1], 10, 64)
	return v
}

var badItems = []string{
	"1.2.3.4/33", "1.2.3/24", "::/129", "fe80::1%eth0/64", "1.2.3.4/-1", "not-an-address", "1.2.3.4/",
	"/24", "01.2.3.4", "1.2.3.4/08", "1.2.3.256", "2001:db8::/", "2001:db8:::/32", "1.2.3.4/ 24", "::ffff:1.2.3.4/129",
	"1.2.3.4/+8", "12345::/16", "1.2.3.4.5", "::1/1/1",
}

// runBad: valid entries, one malformed item, more valid entries.
func runBad1(w *hx.Writer, r *hx.RNG, id string, path int, before, after []ent, bad string, qs []netip.Addr) {
	items := append(append(strs(before), bad), strs(after)...)
	k := len(before)
	switch path {
	case 2:
		l := netlist.NewList()
		txt, where := textOf(r, items)
		err := netlist.LoadFromReader(l, strings.NewReader(txt))
		l.Sort()
		ps := ask(l, qs)
		w.Emit("bad:reader", hx.Case{ID: id,
			Coq:  hx.App("CBad", "2", entsCoq(before), hx.Ni(where[k]), hx.N(errPos(err)), probesCoq(ps)),
			Desc: map[string]any{"bad": bad}})
	case 3:
		l := netlist.NewList()
		pos := uint64(999999)
		for i, s := range items {
			if err := netlist.LoadFromText(l, s); err != nil {
				pos = uint64(i)
				break
			}
		}
		l.Sort()
		ps := ask(l, qs)
		w.Emit("bad:text", hx.Case{ID: id,
			Coq:  hx.App("CBad", "3", entsCoq(before), hx.Ni(k), hx.N(pos), probesCoq(ps)),
			Desc: map[string]any{"bad": bad}})
	default:
		p, err := ip_set.NewIPSet(newBP(nil), &ip_set.Args{IPs: items})
		pos := errPos(err)
		if p != nil {
			pos = 999997
		}
		w.Emit("bad:ipset", hx.Case{ID: id,
			Coq:  hx.App("CBad", "4", "[]", hx.Ni(k), hx.N(pos), "[]"),
			Desc: map[string]any{"bad": bad}})
	}
}

// ---------- generation ----------

func mustPfx(s string) block {
	p := netip.MustParsePrefix(s)
	return entBlock(ent{a: p.Addr(), bits: p.Bits()})
}

var seedBlocks = []block{
	mustPfx("10.0.0.0/8"), mustPfx("192.168.0.0/24"), mustPfx("255.255.255.0/24"), mustPfx("0.0.0.0/8"),
	mustPfx("172.16.0.0/12"), mustPfx("2001:db8::/32"), mustPfx("::/16"), mustPfx("ffff:ffff:ffff:ffff:ffff:ffff:ffff:ff00/120"),
	mustPfx("::ffff:0:0/96"), mustPfx("::fffe:ffff:0/112"), mustPfx("::1:0:0:0/80"), mustPfx("::ffff:10.0.0.0/104"),
	mustPfx("fe80::/10"), mustPfx("2001:db8:0:1::/64"),
}

// derive makes a block related to b: child, deep descendant, ancestor,
// sibling, neighbour or copy.
func derive(r *hx.RNG, b block) block {
	switch r.Intn(10) {
	case 8, 9: // single address at or just outside an edge of b
		v := new(big.Int)
		switch r.Intn(4) {
		case 0:
			v.Set(b.lo)
		case 1:
			v.Set(b.hi())
		case 2:
			v.Sub(b.lo, one)
		default:
			v.Add(b.hi(), one)
		}
		if v.Sign() >= 0 && v.Cmp(max128) <= 0 {
			return mkBlock(v, 128)
		}
	case 0: // one of the two halves
		if b.bits < 128 {
			v := new(big.Int).Set(b.lo)
			if r.Bool() {
				v.SetBit(v, 128-b.bits-1, 1)
			}
			return mkBlock(v, b.bits+1)
		}
	case 1: // deep descendant, first/last/random position
		if b.bits < 128 {
			nb := r.Range(b.bits+1, 128)
			var off *big.Int
			switch r.Intn(3) {
			case 0:
				off = new(big.Int)
			case 1:
				off = new(big.Int).Sub(b.size(), one)
			default:
				off = new(big.Int).And(rand128(r), new(big.Int).Sub(b.size(), one))
			}
			return mkBlock(new(big.Int).Add(b.lo, off), nb)
		}
	case 2: // ancestor
		if b.bits > 0 {
			return mkBlock(b.lo, r.Range(0, b.bits-1))
		}
	case 3: // sibling (other half of the parent)
		if b.bits > 0 {
			v := new(big.Int).Set(b.lo)
			bit := 128 - b.bits
			v.SetBit(v, bit, v.Bit(bit)^1)
			return mkBlock(v, b.bits)
		}
	case 4: // next block of the same size
		v := new(big.Int).Add(b.lo, b.size())
		if v.Cmp(max128) <= 0 {
			return mkBlock(v, b.bits)
		}
	case 5: // previous block, other length
		if b.lo.Sign() > 0 {
			return mkBlock(new(big.Int).Sub(b.lo, one), r.Range(b.bits, 128))
		}
	case 6: // same base address, other length
		return mkBlock(b.lo, r.Range(b.bits, 128))
	}
	return b // duplicate
}

func genBlocks(r *hx.RNG, n int) []block {
	var pool []block
	for len(pool) < n {
		switch {
		case len(pool) == 0 || r.Chance(1, 6):
			pool = append(pool, hx.Pick(r, seedBlocks))
		case r.Chance(1, 12):
			// any length at all
			var v *big.Int
			bits := r.Intn(129)
			if r.Bool() {
				v = new(big.Int).Add(big16(netip.MustParseAddr("::ffff:0.0.0.0")), new(big.Int).SetUint64(r.U64()&0xffffffff))
				bits = 96 + r.Intn(33)
			} else {
				v = rand128(r)
			}
			pool = append(pool, mkBlock(v, bits))
		default:
			pool = append(pool, derive(r, hx.Pick(r, pool)))
		}
	}
	// load order is arbitrary
	out := make([]block, n)
	for i, j := range r.Perm(n) {
		out[i] = pool[j]
	}
	return out
}

func genEnts(r *hx.RNG, n int) []ent {
	bs := genBlocks(r, n)
	es := make([]ent, n)
	for i, b := range bs {
		es[i] = render(r, b)
	}
	return es
}

func e(s string) ent {
	if strings.Contains(s, "/") {
		p := netip.MustParsePrefix(s)
		return ent{a: p.Addr(), bits: p.Bits()}
	}
	return ent{a: netip.MustParseAddr(s), bare: true}
}

func es(ss ...string) []ent {
	out := make([]ent, len(ss))
	for i, s := range ss {
		out[i] = e(s)
	}
	return out
}

func qs(ss ...string) []netip.Addr {
	out := make([]netip.Addr, len(ss))
	for i, s := range ss {
		if s == "" {
			continue
		}
		out[i] = netip.MustParseAddr(s)
	}
	return out
}

// allBoundaries: every lo-1, lo, hi, hi+1 both as IPv6 and (where mapped) IPv4.
func allBoundaries(es []ent) []netip.Addr {
	var out []netip.Addr
	for _, v := range boundaryValues(es) {
		a := from128(v)
		out = append(out, a)
		if a.Is4In6() {
			out = append(out, a.Unmap())
		}
	}
	return out
}

func main() {
	o := hx.ParseFlags()
	w := hx.NewWriter(o)
	defer w.Close()
	quick := o.Tier != "thorough"
	scratchDir = "/verif/.work/c13"
	if o.Out != "" {
		scratchDir = filepath.Dir(o.Out)
	}
	if err := os.MkdirAll(scratchDir, 0o755); err != nil {
		fatal("%v", err)
	}

	// ----- catalogue -----
	type catCase struct {
		name string
		es   []ent
		qs   []netip.Addr // nil = all boundaries
	}
	cat := []catCase{
		{"empty", es(), qs("0.0.0.0", "::", "255.255.255.255", "ffff:ffff:ffff:ffff:ffff:ffff:ffff:ffff", "")},
		{"single", es("10.0.0.0/8"), nil},
		{"samebase:narrow-first", es("10.0.0.0/24", "10.0.0.0/8"), nil},
		{"samebase:wide-first", es("10.0.0.0/8", "10.0.0.0/24"), nil},
		{"samebase:three", es("10.0.0.0/16", "10.0.0.0/8", "10.0.0.0/24", "10.0.0.0/16"), nil},
		{"samebase:hostbits", es("10.9.8.7/8", "10.0.0.1/24", "10.0.0.0"), nil},
		{"nested:gap", es("10.0.0.0/8", "10.1.0.0/16", "10.1.1.0/24", "12.0.0.0/8"),
			qs("10.1.1.255", "10.1.2.0", "10.2.0.0", "10.255.255.255", "11.0.0.0", "11.255.255.255", "12.0.0.0", "9.255.255.255")},
		{"nested:last-of-outer", es("10.0.0.0/8", "10.255.255.255", "10.255.255.0/24", "11.0.0.0"), nil},
		{"nested:reverse-load", es("10.1.1.0/24", "10.1.0.0/16", "10.0.0.0/8"), nil},
		{"adjacent", es("192.168.0.0/25", "192.168.0.128/25", "192.168.1.0/24"), nil},
		{"adjacent:singles", es("1.1.1.1", "1.1.1.2", "1.1.1.3", "1.1.1.5"), nil},
		{"duplicates", es("1.2.3.0/24", "1.2.3.0/24", "1.2.3.77/24", "::ffff:1.2.3.0/120"), nil},
		{"v4-rule:mapped-query", es("1.2.3.0/24"), qs("1.2.3.4", "::ffff:1.2.3.4", "::ffff:1.2.4.0", "::1.2.3.4", "1.2.2.255")},
		{"mapped-rule:v4-query", es("::ffff:1.2.3.0/120"), qs("1.2.3.4", "::ffff:1.2.3.4", "1.2.4.0", "1.2.2.255", "::fffe:1.2.3.4")},
		{"v4-all", es("0.0.0.0/0"), qs("0.0.0.0", "255.255.255.255", "::fffe:ffff:ffff", "::1:0:0:0", "::ffff:0.0.0.0", "::ffff:255.255.255.255", "::")},
		{"mapped-all", es("::ffff:0:0/96"), qs("0.0.0.0", "255.255.255.255", "::fffe:ffff:ffff", "::1:0:0:0", "::")},
		{"v6-all", es("::/0", "10.0.0.0/8", "2001:db8::/32"), qs("::", "ffff:ffff:ffff:ffff:ffff:ffff:ffff:ffff", "1.2.3.4", "10.0.0.0", "")},
		{"v6-wide-over-mapped", es("::/80", "1.0.0.0/8"), nil},
		{"v6:/95", es("::fffe:0:0/95"), nil},
		{"extremes", es("::", "ffff:ffff:ffff:ffff:ffff:ffff:ffff:ffff", "0.0.0.0", "255.255.255.255"), nil},
		{"extremes:blocks", es("::/1", "8000::/1"), nil},
		{"zone", es("fe80::/10", "::ffff:0:0/96"),
			[]netip.Addr{netip.MustParseAddr("fe80::1%eth0"), netip.MustParseAddr("fe80::1"), netip.MustParseAddr("fe80::"), netip.MustParseAddr("fe80::%x"),
				netip.MustParseAddr("::ffff:1.2.3.4%eth0"), netip.MustParseAddr("::ffff:1.2.3.4"), {}}},
		{"zone:exact", es("fe80::1", "fe80::2"), []netip.Addr{netip.MustParseAddr("fe80::1%a"), netip.MustParseAddr("fe80::1"), netip.MustParseAddr("fe80::2%a"), netip.MustParseAddr("fe80::3")}},
	}
	// lists of n disjoint prefixes: every index of the search is exercised
	for n := 1; n <= 9; n++ {
		var l []ent
		for i := 0; i < n; i++ {
			l = append(l, e(fmt.Sprintf("10.%d.0.0/24", 2*i+1)))
		}
		cat = append(cat, catCase{fmt.Sprintf("disjoint:%d", n), l, nil})
	}
	// one prefix of every length, host bits set
	for b := 0; b <= 32; b++ {
		cat = append(cat, catCase{fmt.Sprintf("len4:%d", b), []ent{{a: netip.MustParseAddr("173.205.171.85"), bits: b}}, nil})
	}
	for b := 0; b <= 128; b++ {
		if quick && b%4 != 0 && b%4 != 1 && b < 90 {
			continue
		}
		cat = append(cat, catCase{fmt.Sprintf("len6:%d", b), []ent{{a: netip.MustParseAddr("a5a5:5a5a:a5a5:5a5a:a5a5:5a5a:a5a5:5a5a"), bits: b}}, nil})
		if b >= 90 {
			cat = append(cat, catCase{fmt.Sprintf("len6m:%d", b), []ent{{a: netip.MustParseAddr("::ffff:165.90.165.90"), bits: b}}, nil})
		}
	}
	for i, c := range cat {
		id := "cat:" + c.name
		if !o.Want(id) {
			continue
		}
		r := hx.NewRNG(o.Seed, id)
		q := c.qs
		if q == nil {
			q = allBoundaries(c.es)
		}
		path := i % 6
		if strings.HasPrefix(c.name, "len") {
			path = []int{0, 2, 4}[i%3]
		}
		runList(w, r, id, path, c.es, q)
	}
	// every path on one nested/adjacent/duplicate set
	for path := 0; path < 6; path++ {
		id := fmt.Sprintf("cat:paths:%d", path)
		if !o.Want(id) {
			continue
		}
		l := es("10.0.0.0/8", "10.0.0.0/24", "10.200.0.0/16", "11.0.0.0/8", "2001:db8::/32", "2001:db8::1", "::ffff:12.0.0.0/104", "10.0.0.0/8")
		runList(w, hx.NewRNG(o.Seed, id), id, path, l, allBoundaries(l))
	}
	// bare addresses (odd and even, every family) through every path
	for path := 0; path < 6; path++ {
		id := fmt.Sprintf("cat:bare:%d", path)
		if !o.Want(id) {
			continue
		}
		l := es("10.0.0.1", "10.0.1.2", "2001:db8::1", "2001:db8::1:2", "::ffff:192.168.0.1", "::ffff:192.168.1.2", "::", "255.255.255.255")
		runList(w, hx.NewRNG(o.Seed, id), id, path, l, allBoundaries(l))
	}
	if id := "cat:incr"; o.Want(id) {
		a, b := es("10.1.0.0/16", "10.0.0.0/24", "192.168.0.0/24"), es("10.0.0.0/8", "192.168.0.0/25", "192.168.1.0/24", "10.1.0.0/16")
		runIncr(w, hx.NewRNG(o.Seed, id), id, a, b, allBoundaries(a), allBoundaries(append(append([]ent{}, a...), b...)))
	}
	if id := "cat:incr:empty-first"; o.Want(id) {
		b := es("10.0.0.0/8")
		runIncr(w, hx.NewRNG(o.Seed, id), id, nil, b, allBoundaries(b), allBoundaries(b))
	}
	leaf := func() *setNode { return node(es("10.1.0.0/16", "2001:db8:1::/48")) }
	groupCat := []struct {
		name string
		top  *setNode
	}{
		{"flat", node(es("10.0.0.0/8"), node(es("10.0.0.0/24", "11.0.0.0/8")), node(es("2001:db8::/32", "9.255.255.255")))},
		{"empty-own", node(nil, node(es("10.0.0.0/24")), node(nil))},
		// a referenced set with own entries AND a reference (two members)
		{"own-and-ref", node(es("8.8.8.8"), node(es("192.168.0.0/24"), leaf()))},
		// a referenced set without own entries that references two sets
		{"two-refs", node(nil, node(nil, node(es("172.16.0.0/12")), leaf()))},
		{"three-refs", node(es("::ffff:9.0.0.0/104"), node(nil, node(es("172.16.0.0/12")), node(es("fe80::/10")), leaf()), node(es("1.1.1.1")))},
		{"three-levels", node(nil, node(es("192.168.0.0/24"), node(es("10.1.0.0/16"), node(es("2001:db8:1::/48"), node(es("::ffff:7.7.7.7"))))))},
		{"nested-across-members", node(es("10.0.0.0/24"), node(es("10.0.1.0/24"), node(es("10.0.0.0/16")), node(es("10.1.0.0/16", "10.0.0.0/8"))))},
	}
	for _, c := range groupCat {
		id := "cat:group:" + c.name
		if !o.Want(id) {
			continue
		}
		runGroup(w, hx.NewRNG(o.Seed, id), id, c.top, allBoundaries(c.top.all()))
	}
	for i, bad := range badItems {
		for _, path := range []int{2, 3, 4} {
			id := fmt.Sprintf("cat:bad:%d:%d", i, path)
			if !o.Want(id) {
				continue
			}
			before, after := es("10.0.0.0/8", "2001:db8::1"), es("11.0.0.0/8")
			if i%3 == 0 {
				before = nil
			}
			runBad(w, hx.NewRNG(o.Seed, id), id, path, before, after, bad, qs("10.0.0.1", "11.0.0.1", "2001:db8::1", "2001:db8::2"))
		}
	}

	// ----- generated -----
	n := o.Count(700, 20000)
	maxEnts, maxQ := 10, 22
	maxOwn, maxRefs2, perMember := 2, 2, 2
	if !quick {
		maxEnts, maxQ = 40, 60
		maxOwn, maxRefs2, perMember = 4, 3, 4
	}
	for i := 0; i < n; i++ {
		id := fmt.Sprintf("gen:%d", i)
		if !o.Want(id) {
			continue
		}
		r := hx.NewRNG(o.Seed, id)
		ne := r.Range(1, maxEnts)
		if r.Chance(1, 3) {
			ne = r.Range(1, 5)
		}
		switch k := r.Intn(20); {
		case k < 11:
			l := genEnts(r, ne)
			runList(w, r, id, r.Intn(6), l, genQueries(r, l, maxQ))
		case k < 14:
			l := genEnts(r, ne)
			c := r.Intn(len(l) + 1)
			runIncr(w, r, id, l[:c], l[c:], genQueries(r, l[:c], maxQ/2), genQueries(r, l, maxQ/2))
		case k < 18:
			top := genTree(r, maxOwn, maxRefs2)
			runGroup(w, r, id, top, groupQueries(r, top, perMember, maxQ))
		default:
			l := genEnts(r, r.Range(0, 4))
			after := genEnts(r, r.Range(0, 2))
			runBad(w, r, id, []int{2, 3, 4}[r.Intn(3)], l, after, hx.Pick(r, badItems), genQueries(r, append(append([]ent{}, l...), after...), 8))
		}
	}
}
