// Driver for C10 (cached answers are isolated from every caller's mutations).
// Runs histories on the real cache plugin: Cache.Exec with a scripted
// rest-of-chain that KEEPS every *dns.Msg it builds and every *dns.Msg the
// cache hands it, in-place writes to every kind of field of every kept
// message (ids, header bits, question, TTLs, names, types, the bytes behind
// net.IP, the elements of Txt and TypeBitMap, the options of OPT, appended
// records/OPTs, truncation, deletion, shared record pointers and shared rdata
// slices), clock moves of the stored items (so the SubtractTTL path and the
// lazy path are both taken), /flush, and the cache's own dump and load (GET
// /dump, POST /load_dump with several different entries per block, with the
// header word of every observed message carrying Compress). It prints what the rest of the chain
// was handed on every execution and the final value of every kept message as
// Judge.C10.case literals.
package main

import (
	"bytes"
	"context"
	"fmt"
	"net"
	"net/http/httptest"
	"os"
	"strconv"
	"strings"
	"time"

	"github.com/IrineSistiana/mosdns/v5/pkg/query_context"
	"github.com/IrineSistiana/mosdns/v5/plugin/executable/cache"
	"github.com/IrineSistiana/mosdns/v5/plugin/executable/sequence"
	"github.com/miekg/dns"

	"verifharness/hx"
)

func fail(id string, format string, a ...any) {
	fmt.Fprintf(os.Stderr, "c10 %s: %s\n", id, fmt.Sprintf(format, a...))
	os.Exit(3)
}

// ---------- values (mirror Model.CacheIso.rval / mval and Judge.C10.rr / pay) ----------

const (
	tA    = 1
	tTXT  = 16
	tAAAA = 28
	tOPT  = 41
	tNSEC = 47
)

type rval struct {
	name, typ, ttl uint32
	data           []uint32
}

type mval struct {
	id, hdr    uint32
	q          []uint32
	an, ns, ex []rval
}

// rr: rdata = GenBytes(n, seed)
type rr struct {
	name, typ, ttl uint32
	n              int
	seed           uint64
}

type pay struct {
	hdr        uint32
	qs         []uint32
	an, ns, ex []rr
}

func (r rr) val() rval {
	b := hx.GenBytes(r.n, r.seed)
	d := make([]uint32, len(b))
	for i, x := range b {
		d[i] = uint32(x)
	}
	return rval{r.name, r.typ, r.ttl, d}
}

func (r rr) coq() string {
	return hx.App("R", hx.N(uint64(r.name)), hx.N(uint64(r.typ)), hx.N(uint64(r.ttl)), hx.Ni(r.n), hx.N(r.seed))
}

func rrsCoq(l []rr) string {
	it := make([]string, len(l))
	for i, r := range l {
		it[i] = r.coq()
	}
	return hx.List(it)
}

func (p pay) coq() string {
	return hx.App("P", hx.N(uint64(p.hdr)), hx.NList(p.qs), rrsCoq(p.an), rrsCoq(p.ns), rrsCoq(p.ex))
}

func (v rval) coq() string {
	return hx.App("mkrv", hx.N(uint64(v.name)), hx.N(uint64(v.typ)), hx.N(uint64(v.ttl)), hx.NList(v.data))
}

// ---------- names ----------

func nameStr(t uint32) string {
	if t == 0 {
		return "."
	}
	return "n" + strconv.Itoa(int(t)) + "."
}
func qnameStr(t uint32) string { return "k" + strconv.Itoa(int(t)) + "." }
func txtStr(t uint32) string   { return "s" + strconv.Itoa(int(t)) }

func parseTag(id, s, prefix, suffix string) uint32 {
	if prefix == "n" && s == "." {
		return 0
	}
	if !strings.HasPrefix(s, prefix) || !strings.HasSuffix(s, suffix) {
		fail(id, "unexpected string %q", s)
	}
	n, err := strconv.Atoi(s[len(prefix) : len(s)-len(suffix)])
	if err != nil {
		fail(id, "unexpected string %q", s)
	}
	return uint32(n)
}

// ---------- header word ----------

func setHdr(m *dns.Msg, w uint32) {
	m.Response = w&0x8000 != 0
	m.Opcode = int(w>>11) & 15
	m.Authoritative = w&0x0400 != 0
	m.Truncated = w&0x0200 != 0
	m.RecursionDesired = w&0x0100 != 0
	m.RecursionAvailable = w&0x0080 != 0
	m.Zero = w&0x0040 != 0
	m.AuthenticatedData = w&0x0020 != 0
	m.CheckingDisabled = w&0x0010 != 0
	m.Rcode = int(w & 15)
	m.Compress = w&0x10000 != 0
}

func getHdr(m *dns.Msg) uint32 {
	w := uint32(m.Opcode&15)<<11 | uint32(m.Rcode&15)
	if m.Compress {
		w |= 0x10000
	}
	for _, b := range []struct {
		on  bool
		bit uint32
	}{{m.Response, 0x8000}, {m.Authoritative, 0x0400}, {m.Truncated, 0x0200}, {m.RecursionDesired, 0x0100},
		{m.RecursionAvailable, 0x0080}, {m.Zero, 0x0040}, {m.AuthenticatedData, 0x0020}, {m.CheckingDisabled, 0x0010}} {
		if b.on {
			w |= b.bit
		}
	}
	return w
}

// ---------- building and reading real messages ----------

func newOptions(d []uint32) []dns.EDNS0 {
	o := make([]dns.EDNS0, len(d))
	for i, x := range d {
		o[i] = &dns.EDNS0_LOCAL{Code: 65001, Data: []byte{byte(x)}}
	}
	return o
}

func newRR(id string, v rval) dns.RR {
	h := dns.RR_Header{Name: nameStr(v.name), Rrtype: uint16(v.typ), Class: dns.ClassINET, Ttl: v.ttl}
	switch v.typ {
	case tA, tAAAA:
		ip := make(net.IP, len(v.data))
		for i, x := range v.data {
			ip[i] = byte(x)
		}
		if v.typ == tA {
			return &dns.A{Hdr: h, A: ip}
		}
		return &dns.AAAA{Hdr: h, AAAA: ip}
	case tTXT:
		s := make([]string, len(v.data))
		for i, x := range v.data {
			s[i] = txtStr(x)
		}
		return &dns.TXT{Hdr: h, Txt: s}
	case tNSEC:
		b := make([]uint16, len(v.data))
		for i, x := range v.data {
			b[i] = uint16(x)
		}
		return &dns.NSEC{Hdr: h, NextDomain: "n0.", TypeBitMap: b}
	case tOPT:
		h.Class = 1232
		return &dns.OPT{Hdr: h, Option: newOptions(v.data)}
	}
	fail(id, "no record type %d in this driver", v.typ)
	return nil
}

func newSection(id string, l []rval) []dns.RR {
	if len(l) == 0 {
		return nil
	}
	out := make([]dns.RR, 0, len(l))
	for _, v := range l {
		out = append(out, newRR(id, v))
	}
	return out
}

func vals(l []rr) []rval {
	out := make([]rval, len(l))
	for i, r := range l {
		out[i] = r.val()
	}
	return out
}

func newQuestions(q []uint32) []dns.Question {
	if len(q) == 0 {
		return nil
	}
	out := make([]dns.Question, len(q))
	for i, t := range q {
		out[i] = dns.Question{Name: qnameStr(t), Qtype: dns.TypeA, Qclass: dns.ClassINET}
	}
	return out
}

func buildMsg(id string, p pay, qid uint32) *dns.Msg {
	m := new(dns.Msg)
	m.Id = uint16(qid)
	setHdr(m, p.hdr)
	m.Question = newQuestions(p.qs)
	m.Answer = newSection(id, vals(p.an))
	m.Ns = newSection(id, vals(p.ns))
	m.Extra = newSection(id, vals(p.ex))
	return m
}

// aBytes: the address bytes of an A record. Unpack builds the 16 byte
// IPv4-in-IPv6 form; the last four bytes of the same backing array are the address.
func aBytes(x *dns.A) []byte {
	if len(x.A) == 16 {
		if v4 := x.A.To4(); v4 != nil {
			return v4
		}
	}
	return x.A
}

func readRR(id string, r dns.RR) rval {
	h := r.Header()
	v := rval{name: parseTag(id, h.Name, "n", "."), typ: uint32(h.Rrtype), ttl: h.Ttl}
	switch x := r.(type) {
	case *dns.A:
		for _, b := range aBytes(x) {
			v.data = append(v.data, uint32(b))
		}
	case *dns.AAAA:
		for _, b := range x.AAAA {
			v.data = append(v.data, uint32(b))
		}
	case *dns.TXT:
		for _, s := range x.Txt {
			v.data = append(v.data, parseTag(id, s, "s", ""))
		}
	case *dns.NSEC:
		for _, b := range x.TypeBitMap {
			v.data = append(v.data, uint32(b))
		}
	case *dns.OPT:
		for _, o := range x.Option {
			l, ok := o.(*dns.EDNS0_LOCAL)
			if !ok || len(l.Data) != 1 {
				fail(id, "unexpected option %v", o)
			}
			v.data = append(v.data, uint32(l.Data[0]))
		}
	default:
		fail(id, "unexpected record %T", r)
	}
	return v
}

func readSection(id string, s []dns.RR) []rval {
	out := make([]rval, len(s))
	for i, r := range s {
		out[i] = readRR(id, r)
	}
	return out
}

func readMsg(id string, m *dns.Msg) mval {
	v := mval{id: uint32(m.Id), hdr: getHdr(m)}
	for _, q := range m.Question {
		v.q = append(v.q, parseTag(id, q.Name, "k", "."))
	}
	v.an, v.ns, v.ex = readSection(id, m.Answer), readSection(id, m.Ns), readSection(id, m.Extra)
	return v
}

// ser mirrors Judge.C10.ser.
func u16(b []byte, n uint32) []byte { return append(b, byte(n>>8), byte(n)) }
func u32(b []byte, n uint32) []byte { return append(b, byte(n>>24), byte(n>>16), byte(n>>8), byte(n)) }
func serSec(b []byte, l []rval) []byte {
	b = append(b, byte(len(l)))
	for _, r := range l {
		b = u16(b, r.name)
		b = u16(b, r.typ)
		b = u32(b, r.ttl)
		b = append(b, byte(len(r.data)))
		for _, x := range r.data {
			b = append(b, byte(x))
		}
	}
	return b
}
func (v mval) sum() uint64 {
	var b []byte
	b = u16(b, v.id)
	b = u32(b, v.hdr)
	b = append(b, byte(len(v.q)))
	for _, t := range v.q {
		b = u16(b, t)
	}
	b = serSec(b, v.an)
	b = serSec(b, v.ns)
	b = serSec(b, v.ex)
	return hx.Sum(b)
}

// firstTTL: the TTL of the first record that has one (OPT does not).
func firstTTL(m *dns.Msg) (uint32, bool) {
	for _, s := range [][]dns.RR{m.Answer, m.Ns, m.Extra} {
		for _, r := range s {
			if r.Header().Rrtype != dns.TypeOPT {
				return r.Header().Ttl, true
			}
		}
	}
	return 0, false
}

// packedSum: checksum of the wire form of a scratch copy with Id zeroed and
// TTLs un-aged (0 when the message cannot be packed).
func packedSum(m *dns.Msg, delta uint32) uint64 {
	c := m.Copy()
	c.Id = 0
	for _, s := range [][]dns.RR{c.Answer, c.Ns, c.Extra} {
		for _, r := range s {
			if r.Header().Rrtype != dns.TypeOPT {
				r.Header().Ttl += delta
			}
		}
	}
	b, err := c.Pack()
	if err != nil {
		return 0
	}
	return hx.Sum(b)
}

// ---------- mutations (mirror Model.CacheIso.mutation / mutate) ----------

type mut struct {
	kind  string
	s, s2 int // section: 0 An, 1 Ns, 2 Ex
	i, j  int
	h2    int
	v     uint32
	q     []uint32
	d     []uint32
	rv    rval
}

var secName = []string{"An", "Ns", "Ex"}

func (mu mut) coq() string {
	switch mu.kind {
	case "MSetId", "MSetHdr":
		return hx.App(mu.kind, hx.N(uint64(mu.v)))
	case "MSetQ":
		return hx.App(mu.kind, hx.NList(mu.q))
	case "MSetTtl", "MSetName", "MSetType":
		return hx.App(mu.kind, secName[mu.s], hx.Ni(mu.i), hx.N(uint64(mu.v)))
	case "MSetByte":
		return hx.App(mu.kind, secName[mu.s], hx.Ni(mu.i), hx.Ni(mu.j), hx.N(uint64(mu.v)))
	case "MNewData":
		return hx.App(mu.kind, secName[mu.s], hx.Ni(mu.i), hx.NList(mu.d))
	case "MAppend":
		return hx.App(mu.kind, secName[mu.s], mu.rv.coq())
	case "MTrunc", "MDelete":
		return hx.App(mu.kind, secName[mu.s], hx.Ni(mu.i))
	case "MLinkRec", "MLinkData":
		return hx.App(mu.kind, secName[mu.s], hx.Ni(mu.i), hx.Ni(mu.h2), secName[mu.s2], hx.Ni(mu.j))
	}
	panic("mut kind " + mu.kind)
}

func secOf(m *dns.Msg, s int) *[]dns.RR {
	switch s {
	case 0:
		return &m.Answer
	case 1:
		return &m.Ns
	}
	return &m.Extra
}

// rdKind: which Go representation the rdata of r has.
func rdKind(r dns.RR) string {
	switch r.(type) {
	case *dns.A, *dns.AAAA:
		return "ip"
	case *dns.TXT:
		return "txt"
	case *dns.NSEC:
		return "nsec"
	case *dns.OPT:
		return "opt"
	}
	return "?"
}

func rdLen(r dns.RR) int {
	switch x := r.(type) {
	case *dns.A:
		return len(aBytes(x))
	case *dns.AAAA:
		return len(x.AAAA)
	case *dns.TXT:
		return len(x.Txt)
	case *dns.NSEC:
		return len(x.TypeBitMap)
	case *dns.OPT:
		return len(x.Option)
	}
	return 0
}

func applyMut(id string, held []*dns.Msg, h int, mu mut) {
	if h < 0 || h >= len(held) {
		return
	}
	m := held[h]
	sec := secOf(m, mu.s)
	var r dns.RR
	if mu.i >= 0 && mu.i < len(*sec) {
		r = (*sec)[mu.i]
	}
	switch mu.kind {
	case "MSetId":
		m.Id = uint16(mu.v)
	case "MSetHdr":
		setHdr(m, mu.v)
	case "MSetQ":
		if len(mu.q) == len(m.Question) { // in place, in the backing array of the slice
			for i, t := range mu.q {
				m.Question[i].Name = qnameStr(t)
			}
		} else if len(mu.q) < len(m.Question) {
			m.Question = m.Question[:len(mu.q)]
			for i, t := range mu.q {
				m.Question[i].Name = qnameStr(t)
			}
		} else {
			m.Question = newQuestions(mu.q)
		}
	case "MSetTtl":
		if r != nil {
			r.Header().Ttl = mu.v
		}
	case "MSetName":
		if r != nil {
			r.Header().Name = nameStr(mu.v)
		}
	case "MSetType":
		if r != nil {
			if _, isOpt := r.(*dns.OPT); isOpt || mu.v == tOPT {
				fail(id, "driver must not change the type of/to OPT")
			}
			r.Header().Rrtype = uint16(mu.v)
		}
	case "MSetByte":
		if r != nil && mu.j >= 0 && mu.j < rdLen(r) {
			switch x := r.(type) {
			case *dns.A:
				aBytes(x)[mu.j] = byte(mu.v)
			case *dns.AAAA:
				x.AAAA[mu.j] = byte(mu.v)
			case *dns.TXT:
				x.Txt[mu.j] = txtStr(mu.v)
			case *dns.NSEC:
				x.TypeBitMap[mu.j] = uint16(mu.v)
			case *dns.OPT:
				x.Option[mu.j].(*dns.EDNS0_LOCAL).Data[0] = byte(mu.v)
			}
		}
	case "MNewData":
		if r != nil {
			nr := newRR(id, rval{0, map[string]uint32{"ip": tA, "txt": tTXT, "nsec": tNSEC, "opt": tOPT}[rdKind(r)], 0, mu.d})
			switch x := r.(type) {
			case *dns.A:
				x.A = nr.(*dns.A).A
			case *dns.AAAA:
				x.AAAA = nr.(*dns.A).A
			case *dns.TXT:
				x.Txt = nr.(*dns.TXT).Txt
			case *dns.NSEC:
				x.TypeBitMap = nr.(*dns.NSEC).TypeBitMap
			case *dns.OPT:
				x.Option = nr.(*dns.OPT).Option
			}
		}
	case "MAppend":
		*sec = append(*sec, newRR(id, mu.rv))
	case "MTrunc":
		if mu.i < len(*sec) {
			*sec = (*sec)[:mu.i]
		}
	case "MDelete":
		if mu.i < len(*sec) {
			*sec = append((*sec)[:mu.i], (*sec)[mu.i+1:]...)
		}
	case "MLinkRec", "MLinkData":
		if mu.h2 < 0 || mu.h2 >= len(held) {
			return
		}
		src := secOf(held[mu.h2], mu.s2)
		if mu.j >= len(*src) {
			return
		}
		r2 := (*src)[mu.j]
		if mu.kind == "MLinkRec" {
			if r != nil {
				(*sec)[mu.i] = r2
			}
			return
		}
		if r == nil {
			return
		}
		if rdKind(r) != rdKind(r2) {
			fail(id, "driver must only share rdata of the same representation")
		}
		switch x := r.(type) {
		case *dns.A:
			x.A = ipOf(r2)
		case *dns.AAAA:
			x.AAAA = ipOf(r2)
		case *dns.TXT:
			x.Txt = r2.(*dns.TXT).Txt
		case *dns.NSEC:
			x.TypeBitMap = r2.(*dns.NSEC).TypeBitMap
		case *dns.OPT:
			x.Option = r2.(*dns.OPT).Option
		}
	default:
		panic("mut kind " + mu.kind)
	}
}

func ipOf(r dns.RR) net.IP {
	if a, ok := r.(*dns.A); ok {
		return a.A
	}
	return r.(*dns.AAAA).AAAA
}

// ---------- hops ----------

type dn struct {
	kind string // keep | new | old
	p    pay
	h    int
}

func (d dn) coq() string {
	switch d.kind {
	case "new":
		return hx.App("KNew", d.p.coq())
	case "old":
		return hx.App("KOld", hx.Ni(d.h))
	}
	return "KKeep"
}

type hop struct {
	kind  string // x | m | age | expire | flush
	c     int
	k, q  uint32
	d, lz dn
	h     int
	mu    mut
	secs  int
}

const lazyTTL = 1000000
const expireBy = 4300000000 // seconds: more than any uint32 TTL

// world: one Cache and everything the driver holds.
type world struct {
	id    string
	viol  string
	lazy  bool
	c     *cache.Cache
	held  []*dns.Msg
	owner []int
	keyOf []uint32
	ttl0  map[uint32]uint32 // per key: first TTL of the stored item, read when it was stored
	has0  map[uint32]bool
	hops  []string
	nMut  int
	nHit  int
	nLazy int
	nX    int
	dump  []byte
	nDump int
	nLoad int
}

func newWorld(id string, lazy bool, size int) *world {
	a := &cache.Args{Size: size}
	if lazy {
		a.LazyCacheTTL = lazyTTL
	}
	return &world{id: id, lazy: lazy, c: cache.NewCache(a, cache.Opts{}), ttl0: map[uint32]uint32{}, has0: map[uint32]bool{}}
}

func queryMsg(k, q uint32) *dns.Msg {
	m := new(dns.Msg)
	m.Id = uint16(q)
	m.RecursionDesired = true
	m.Question = []dns.Question{{Name: qnameStr(k), Qtype: dns.TypeA, Qclass: dns.ClassINET}}
	return m
}

func (w *world) keep(m *dns.Msg, c int, k uint32) {
	w.held = append(w.held, m)
	w.owner = append(w.owner, c)
	w.keyOf = append(w.keyOf, k)
}

func (w *world) refreshTTL0(k uint32, key string) {
	if it := w.c.VerifC10Item(key); it != nil {
		w.ttl0[k], w.has0[k] = firstTTL(it)
	} else {
		delete(w.ttl0, k)
		delete(w.has0, k)
	}
}

// exec runs Cache.Exec once. expiredHint: the driver expired the item (so a
// served response comes from the lazy path and its TTLs say nothing about age).
func (w *world) exec(o hop, expired map[uint32]bool) {
	qm := queryMsg(o.k, o.q)
	fg := query_context.NewContext(qm)
	key := cache.VerifGetMsgKey(fg.Q())
	obs := "OMiss"
	gate := make(chan struct{})
	bgRan := false
	entered := 0
	leave := func(qc *query_context.Context, d dn) {
		switch d.kind {
		case "new":
			nr := buildMsg(w.id, d.p, o.q)
			qc.SetResponse(nr)
			w.keep(nr, o.c, o.k)
		case "old":
			qc.SetResponse(w.held[d.h])
		}
	}
	next := sequence.ExecutableFunc(func(_ context.Context, qc *query_context.Context) error {
		if qc != fg { // the lazy update, in its own goroutine: wait for the foreground
			<-gate
			bgRan = true
			if qc.R() != nil {
				// the background update shares (or was handed) the foreground's response: not a state the
				// judge's vocabulary has; reported as a harness-level observation the property excludes
				w.viol = "lazy update's context entered the rest of the chain already holding a response (it must start from a clean copy of the query)"
				qc.SetResponse(nil)
			}
			leave(qc, o.lz)
			return nil
		}
		entered++
		if r := qc.R(); r != nil {
			w.nHit++
			var delta uint32
			if !expired[o.k] {
				if t, ok := firstTTL(r); ok && w.has0[o.k] {
					delta = w.ttl0[o.k] - t
				}
			} else {
				w.nLazy++
			}
			obs = hx.App("OHit", hx.N(uint64(r.Id)), hx.N(uint64(delta)), hx.N(readMsg(w.id, r).sum()), hx.N(packedSum(r, delta)))
			w.keep(r, o.c, o.k)
		}
		leave(qc, o.d)
		return nil
	})
	walker := sequence.NewChainWalker([]*sequence.ChainNode{{E: next}}, nil)
	if err := w.c.Exec(context.Background(), fg, walker); err != nil {
		fail(w.id, "Cache.Exec: %v", err)
	}
	if entered != 1 {
		fail(w.id, "rest of the chain entered %d times", entered)
	}
	close(gate)
	w.c.VerifC10LazyWait(key)
	lz := o.lz
	if !bgRan {
		lz = dn{kind: "keep"}
	}
	w.refreshTTL0(o.k, key)
	w.nX++
	w.hops = append(w.hops, hx.App("HX", hx.Ni(o.c), hx.N(uint64(o.k)), hx.N(uint64(o.q)), o.d.coq(), lz.coq(), obs))
}

func (w *world) run(ops []hop, gen func(w *world, expired map[uint32]bool) (hop, bool)) {
	expired := map[uint32]bool{}
	do := func(o hop) {
		switch o.kind {
		case "x":
			key := cache.VerifGetMsgKey(query_context.NewContext(queryMsg(o.k, 0)).Q())
			before := w.c.VerifC10Item(key)
			w.exec(o, expired)
			if w.c.VerifC10Item(key) != before { // replaced: the new item is not expired
				delete(expired, o.k)
			}
		case "m":
			applyMut(w.id, w.held, o.h, o.mu)
			w.nMut++
			w.hops = append(w.hops, hx.App("HM", hx.Ni(o.h), o.mu.coq()))
		case "age":
			key := cache.VerifGetMsgKey(query_context.NewContext(queryMsg(o.k, 0)).Q())
			w.c.VerifC10Backdate(key, time.Duration(o.secs)*time.Second)
			w.hops = append(w.hops, hx.App("HAge", hx.N(uint64(o.k)), hx.Ni(o.secs)))
		case "expire":
			key := cache.VerifGetMsgKey(query_context.NewContext(queryMsg(o.k, 0)).Q())
			if w.c.VerifC10Backdate(key, expireBy*time.Second) {
				expired[o.k] = true
			}
			w.hops = append(w.hops, hx.App("HExpire", hx.N(uint64(o.k))))
		case "flush":
			rec := httptest.NewRecorder()
			w.c.Api().ServeHTTP(rec, httptest.NewRequest("GET", "/flush", nil))
			if rec.Code != 200 {
				fail(w.id, "/flush returned %d", rec.Code)
			}
			for k := range expired {
				delete(expired, k)
			}
			w.hops = append(w.hops, "HFlush")
		case "dump":
			rec := httptest.NewRecorder()
			w.c.Api().ServeHTTP(rec, httptest.NewRequest("GET", "/dump", nil))
			if rec.Code != 200 { // every stored message is a copy of an answer that packs
				if w.viol == "" {
					w.viol = fmt.Sprintf("the cache cannot dump its own stored messages (GET /dump: %d %s): a stored copy is not the answer that was stored", rec.Code, strings.TrimSpace(rec.Body.String()))
				}
				return
			}
			w.dump = append([]byte(nil), rec.Body.Bytes()...)
			w.nDump++
			w.hops = append(w.hops, "HDump")
		case "load":
			if w.dump == nil {
				return
			}
			rec := httptest.NewRecorder()
			w.c.Api().ServeHTTP(rec, httptest.NewRequest("POST", "/load_dump", bytes.NewReader(w.dump)))
			if rec.Code != 200 {
				if w.viol == "" {
					w.viol = fmt.Sprintf("the cache cannot load the dump it wrote (POST /load_dump: %d %s): a stored copy is not the answer that was stored", rec.Code, strings.TrimSpace(rec.Body.String()))
				}
				return
			}
			w.nLoad++
			var items []string
			for k := uint32(1); k <= 3; k++ {
				key := cache.VerifGetMsgKey(query_context.NewContext(queryMsg(k, 0)).Q())
				w.refreshTTL0(k, key)
				if it := w.c.VerifC10Item(key); it != nil {
					items = append(items, hx.Tuple(hx.N(uint64(k)), hx.N(readMsg(w.id, it).sum())))
				}
			}
			w.hops = append(w.hops, hx.App("HLoad", hx.List(items)))
		}
	}
	for _, o := range ops {
		do(o)
	}
	if gen != nil {
		for {
			o, ok := gen(w, expired)
			if !ok {
				break
			}
			do(o)
		}
	}
}

func (w *world) emit(out *hx.Writer, kind string) {
	finals := make([]uint64, len(w.held))
	for i, m := range w.held {
		finals[i] = readMsg(w.id, m).sum()
	}
	var items []string
	for k := uint32(1); k <= 3; k++ {
		key := cache.VerifGetMsgKey(query_context.NewContext(queryMsg(k, 0)).Q())
		if it := w.c.VerifC10Item(key); it != nil {
			items = append(items, hx.Tuple(hx.N(uint64(k)), hx.N(readMsg(w.id, it).sum())))
		}
	}
	w.c.Close()
	if w.viol != "" {
		out.Violation(w.id, w.viol, map[string]any{"kind": kind, "lazy": w.lazy, "hops": w.hops})
		return
	}
	out.Emit(kind, hx.Case{
		ID:  w.id,
		Coq: hx.App("Case", hx.Bool(w.lazy), hx.List(w.hops), hx.NList(finals), hx.List(items)),
		Desc: map[string]any{"kind": kind, "lazy": w.lazy, "execs": w.nX, "hits": w.nHit, "lazy_hits": w.nLazy,
			"mutations": w.nMut, "held": len(w.held), "dumps": w.nDump, "loads": w.nLoad},
		FKey: kind,
	})
}

// ---------- payloads ----------

const hdrOK = 0x8180 // QR RD RA, NOERROR

func stdPay(k uint32, v int) pay {
	s := uint64(v)
	switch v % 8 {
	case 0:
		return pay{hdrOK, []uint32{k}, []rr{{1, tA, 5000, 4, s}}, nil, nil}
	case 1:
		return pay{hdrOK, []uint32{k}, []rr{{1, tA, 5000, 4, s}, {1, tAAAA, 6000, 16, s + 1}}, []rr{{2, tNSEC, 7000, 3, s}},
			[]rr{{0, tOPT, 0, 2, s}, {3, tTXT, 8000, 3, s}}}
	case 2:
		return pay{hdrOK, []uint32{k}, []rr{{4, tTXT, 100000, 2, s}}, nil, []rr{{0, tOPT, 32768, 1, s}, {0, tOPT, 0, 0, s}, {0, tOPT, 0, 2, s + 1}}}
	case 3: // no answer: lifetime min(minTTL, 300)
		return pay{hdrOK, []uint32{k}, nil, []rr{{2, tNSEC, 4000, 2, s}}, []rr{{5, tAAAA, 3000, 16, s}}}
	case 4: // OPT outside the additional section is kept
		return pay{hdrOK, []uint32{k}, []rr{{0, tOPT, 0, 1, s}, {1, tA, 2000, 4, s}}, []rr{{0, tOPT, 0, 2, s}}, []rr{{6, tTXT, 2500, 1, s}, {0, tOPT, 0, 1, s + 2}, {7, tA, 2600, 4, s}}}
	case 5: // NXDOMAIN, 30 s
		return pay{0x8183, []uint32{k}, nil, []rr{{2, tNSEC, 9000, 1, s}}, nil}
	case 6: // nothing but OPT
		return pay{hdrOK, []uint32{k}, nil, nil, []rr{{0, tOPT, 0, 1, s}}}
	}
	return pay{hdrOK, []uint32{k}, []rr{{1, tA, 1000, 4, s}, {1, tA, 1000, 4, s + 9}, {8, tTXT, 1500, 4, s}}, nil, []rr{{0, tOPT, 0, 3, s}}}
}

func genPay(r *hx.RNG, k uint32) pay {
	if r.Chance(1, 2) {
		return stdPay(k, r.Intn(64))
	}
	types := []uint32{tA, tAAAA, tTXT, tNSEC, tA, tTXT}
	sect := func(max int, opt bool) []rr {
		var out []rr
		for n := r.Intn(max + 1); n > 0; n-- {
			if opt && r.Chance(1, 3) {
				out = append(out, rr{0, tOPT, uint32(hx.Pick(r, []int{0, 32768})), r.Intn(3), uint64(r.Intn(4))})
				continue
			}
			t := hx.Pick(r, types)
			n := map[uint32]int{tA: 4, tAAAA: 16, tTXT: r.Range(0, 3), tNSEC: r.Range(0, 3)}[t]
			out = append(out, rr{uint32(r.Range(1, 5)), t, uint32(hx.Pick(r, []int{1000, 1001, 5000, 100000, 4294967295})), n, uint64(r.Intn(4))})
		}
		return out
	}
	p := pay{hdrOK, []uint32{k}, sect(3, r.Chance(1, 10)), sect(2, false), sect(3, true)}
	switch r.Intn(14) {
	case 0:
		p.hdr = 0x8380 // truncated: refused
	case 1:
		p.hdr = 0x8183
	case 2:
		p.hdr = 0x8185 // REFUSED: not cached
	case 3:
		p.qs = []uint32{k + 1} // answers another question
	case 4:
		p.qs = nil
	case 5:
		p.qs = []uint32{k, k}
	case 6:
		p.hdr = 0x85b0 // AA AD CD
	}
	return p
}

// ---------- random mutations ----------

func genMut(r *hx.RNG, w *world, h int) mut {
	m := w.held[h]
	s := r.Intn(3)
	sec := *secOf(m, s)
	if len(sec) == 0 && r.Chance(2, 3) { // prefer a section that has records
		for t := 0; t < 3; t++ {
			if len(*secOf(m, t)) > 0 {
				s, sec = t, *secOf(m, t)
				break
			}
		}
	}
	i := 0
	if len(sec) > 0 {
		i = r.Intn(len(sec))
	}
	if r.Chance(1, 12) {
		i = len(sec) // out of range
	}
	var rec dns.RR
	if i < len(sec) {
		rec = sec[i]
	}
	ttls := []uint32{0, 1000, 4000, 100000, 4294967295, 123456}
	kinds := []string{"MSetTtl", "MSetTtl", "MSetName", "MSetType", "MSetByte", "MSetByte", "MSetByte", "MNewData", "MAppend", "MAppend",
		"MTrunc", "MDelete", "MSetId", "MSetHdr", "MSetQ", "MLinkRec", "MLinkData", "MLinkData"}
	for {
		switch k := hx.Pick(r, kinds); k {
		case "MSetId":
			return mut{kind: k, v: uint32(hx.Pick(r, []int{0, 1, 65535, 4660}))}
		case "MSetHdr": // never SERVFAIL (a 5 s lifetime would make a later hit depend on the wall clock)
			return mut{kind: k, v: uint32(hx.Pick(r, []int{0, 0x8180, 0x8380, 0x8183, 0x0100, 0xfff0, 0x8185, 0x8580}))}
		case "MSetQ":
			return mut{kind: k, q: hx.Pick(r, [][]uint32{{9}, {1}, {2}, nil, {1, 2}, {3}})}
		case "MSetTtl":
			return mut{kind: k, s: s, i: i, v: hx.Pick(r, ttls)}
		case "MSetName":
			return mut{kind: k, s: s, i: i, v: uint32(r.Intn(10))}
		case "MSetType":
			if rec != nil {
				if _, isOpt := rec.(*dns.OPT); isOpt {
					continue
				}
			}
			return mut{kind: k, s: s, i: i, v: uint32(hx.Pick(r, []int{tA, tAAAA, tTXT, tNSEC, 99}))}
		case "MSetByte":
			j := 0
			if rec != nil && rdLen(rec) > 0 {
				j = r.Intn(rdLen(rec))
			}
			if r.Chance(1, 10) {
				j += 20
			}
			return mut{kind: k, s: s, i: i, j: j, v: uint32(hx.Pick(r, []int{0, 255, 7, 200}))}
		case "MNewData":
			n := r.Intn(5)
			if rec != nil && rdKind(rec) == "ip" && r.Chance(3, 4) {
				n = rdLen(rec)
			}
			d := make([]uint32, n)
			for x := range d {
				d[x] = uint32(r.Intn(256))
			}
			return mut{kind: k, s: s, i: i, d: d}
		case "MAppend":
			var v rval
			if r.Chance(1, 2) {
				v = rr{0, tOPT, uint32(hx.Pick(r, []int{0, 32768})), r.Intn(3), uint64(r.Intn(9))}.val()
			} else {
				t := hx.Pick(r, []uint32{tA, tAAAA, tTXT, tNSEC})
				n := map[uint32]int{tA: 4, tAAAA: 16, tTXT: 2, tNSEC: 2}[t]
				v = rr{uint32(r.Range(1, 9)), t, hx.Pick(r, ttls), n, uint64(r.Intn(9))}.val()
			}
			return mut{kind: k, s: s, rv: v}
		case "MTrunc":
			return mut{kind: k, s: s, i: r.Intn(len(sec) + 2)}
		case "MDelete":
			return mut{kind: k, s: s, i: i}
		case "MLinkRec", "MLinkData":
			// a source held by the same client
			var cands []int
			for x := range w.held {
				if w.owner[x] == w.owner[h] {
					cands = append(cands, x)
				}
			}
			h2 := hx.Pick(r, cands)
			s2 := r.Intn(3)
			src := *secOf(w.held[h2], s2)
			if len(src) == 0 {
				for t := 0; t < 3; t++ {
					if len(*secOf(w.held[h2], t)) > 0 {
						s2, src = t, *secOf(w.held[h2], t)
						break
					}
				}
			}
			if len(src) == 0 {
				continue
			}
			j := r.Intn(len(src))
			if k == "MLinkData" {
				if rec == nil || rdKind(rec) != rdKind(src[j]) {
					continue
				}
			}
			return mut{kind: k, s: s, i: i, h2: h2, s2: s2, j: j}
		}
	}
}

// everyField: one write of every kind to handle h (section s, record i), for the catalogue.
func everyField(h, s, i int) []hop {
	ms := []mut{
		{kind: "MSetTtl", s: s, i: i, v: 0}, {kind: "MSetName", s: s, i: i, v: 9}, {kind: "MSetType", s: s, i: i, v: 99},
		{kind: "MSetByte", s: s, i: i, j: 0, v: 255}, {kind: "MSetByte", s: s, i: i, j: 3, v: 254},
		{kind: "MSetId", v: 4242}, {kind: "MSetHdr", v: 0x0100}, {kind: "MSetQ", q: []uint32{9}},
		{kind: "MAppend", s: 2, rv: rr{0, tOPT, 32768, 2, 5}.val()}, {kind: "MAppend", s: 0, rv: rr{7, tA, 1, 4, 5}.val()},
		{kind: "MAppend", s: 1, rv: rr{7, tTXT, 1, 2, 5}.val()},
		{kind: "MNewData", s: s, i: i, d: []uint32{1, 2, 3, 4}},
		{kind: "MSetByte", s: s, i: i, j: 1, v: 77},
		{kind: "MDelete", s: 2, i: 0}, {kind: "MTrunc", s: 1, i: 0},
	}
	out := make([]hop, len(ms))
	for x, mu := range ms {
		out[x] = hop{kind: "m", h: h, mu: mu}
	}
	return out
}

func x(c int, k, q uint32, d, lz dn) hop { return hop{kind: "x", c: c, k: k, q: q, d: d, lz: lz} }

var keep = dn{kind: "keep"}

func nw(p pay) dn  { return dn{kind: "new", p: p} }
func old(h int) dn { return dn{kind: "old", h: h} }
func mu(h int, m mut) hop {
	return hop{kind: "m", h: h, mu: m}
}

type scripted struct {
	lazy bool
	ops  []hop
}

func catalogue() []scripted {
	var out []scripted
	cat := func(a ...[]hop) []hop {
		var l []hop
		for _, p := range a {
			l = append(l, p...)
		}
		return l
	}
	for _, lazy := range []bool{false, true} {
		// store; rewrite the stored message in every way; hit; rewrite the hit in every way; hit; hit
		for v := 0; v < 8; v++ {
			p := stdPay(1, v)
			s, i := 0, 0
			if v == 4 {
				i = 1
			}
			if len(p.an) == 0 {
				s = 1
				if len(p.ns) == 0 {
					s = 2
				}
			}
			out = append(out, scripted{lazy, cat(
				[]hop{x(0, 1, 100, nw(p), keep)}, everyField(0, s, i),
				[]hop{x(1, 1, 101, keep, keep)}, everyField(1, s, i),
				[]hop{x(2, 1, 0, keep, keep), x(0, 1, 65535, keep, keep), {kind: "age", k: 1, secs: 2}, x(1, 1, 7, keep, keep),
					{kind: "age", k: 1, secs: 1}, x(2, 1, 8, keep, keep)})})
		}
		// the stored message handed back after being rewritten; a hit handed back
		out = append(out, scripted{lazy, []hop{
			x(0, 1, 1, nw(stdPay(1, 1)), keep), x(1, 1, 2, keep, keep),
			mu(1, mut{kind: "MSetTtl", s: 0, i: 0, v: 4000}), mu(1, mut{kind: "MAppend", s: 2, rv: rr{0, tOPT, 0, 1, 1}.val()}),
			x(2, 1, 3, old(1), keep), mu(1, mut{kind: "MSetByte", s: 0, i: 0, j: 0, v: 9}), x(0, 1, 4, keep, keep),
			mu(0, mut{kind: "MSetTtl", s: 0, i: 0, v: 0}), x(0, 1, 5, old(0), keep), x(0, 1, 6, keep, keep),
			mu(0, mut{kind: "MSetQ", q: []uint32{2}}), x(0, 2, 7, old(0), keep), x(1, 2, 8, keep, keep), x(1, 1, 9, keep, keep)}})
		// shared record pointers and shared rdata inside one client, then writes through them
		out = append(out, scripted{lazy, []hop{
			x(0, 1, 1, nw(stdPay(1, 1)), keep), x(0, 1, 2, keep, keep), x(0, 1, 3, keep, keep),
			mu(1, mut{kind: "MLinkRec", s: 0, i: 0, h2: 2, s2: 0, j: 0}), mu(1, mut{kind: "MLinkData", s: 0, i: 1, h2: 0, s2: 0, j: 1}),
			mu(2, mut{kind: "MSetTtl", s: 0, i: 0, v: 1234}), mu(0, mut{kind: "MSetByte", s: 0, i: 1, j: 5, v: 200}),
			mu(1, mut{kind: "MLinkData", s: 2, i: 0, h2: 2, s2: 2, j: 0}), mu(2, mut{kind: "MSetByte", s: 2, i: 0, j: 1, v: 3}),
			x(1, 1, 4, keep, keep), x(0, 1, 5, keep, keep)}})
		// replaced on a hit; refused answers leave the entry alone
		out = append(out, scripted{lazy, []hop{
			x(0, 1, 1, nw(stdPay(1, 0)), keep), x(1, 1, 2, nw(stdPay(1, 2)), keep), x(2, 1, 3, keep, keep),
			x(0, 1, 4, nw(pay{0x8380, []uint32{1}, []rr{{1, tA, 5000, 4, 1}}, nil, nil}), keep), x(0, 1, 5, keep, keep),
			x(0, 1, 6, nw(pay{hdrOK, []uint32{2}, []rr{{1, tA, 5000, 4, 1}}, nil, nil}), keep), x(0, 1, 7, keep, keep),
			x(0, 1, 8, nw(pay{hdrOK, []uint32{1}, []rr{{1, tA, 0, 4, 1}}, nil, nil}), keep), x(0, 1, 9, keep, keep),
			{kind: "flush"}, x(0, 1, 10, keep, keep)}})
		// expiry: the lazy path (lazy on) or a miss (lazy off), with writes in between
		out = append(out, scripted{lazy, cat(
			[]hop{x(0, 1, 1, nw(stdPay(1, 1)), keep), x(1, 1, 2, keep, keep), {kind: "expire", k: 1}},
			everyField(0, 0, 0), everyField(1, 0, 1),
			[]hop{x(2, 1, 3, keep, keep), x(2, 1, 4, keep, nw(stdPay(1, 7)))}, everyField(2, 0, 0),
			[]hop{x(0, 1, 5, keep, keep), x(1, 1, 6, nw(stdPay(1, 4)), nw(stdPay(1, 3))), x(1, 1, 7, keep, keep)})})
		// the cache's own dump and load: two and three different entries in one
		// block; hits before and after the dump (repeated names, Compress on and
		// off), writes, /flush, load, hits on every key of the block, load again
		for _, cmp := range []uint32{0, 0x10000} {
			pa := pay{hdrOK | cmp, []uint32{1}, []rr{{1, tA, 5000, 4, 1}, {1, tA, 5000, 4, 2}, {1, tAAAA, 6000, 16, 3}}, []rr{{1, tTXT, 7000, 2, 1}}, []rr{{0, tOPT, 0, 1, 1}, {1, tTXT, 8000, 3, 4}}}
			pb := pay{hdrOK, []uint32{2}, []rr{{2, tAAAA, 4000, 16, 7}, {2, tTXT, 4500, 1, 7}}, nil, nil}
			pc := pay{0x8183 | cmp, []uint32{3}, nil, []rr{{3, tTXT, 9000, 2, 9}, {3, tA, 9500, 4, 9}}, nil}
			out = append(out, scripted{lazy, cat(
				[]hop{x(0, 1, 1, nw(pa), keep), x(1, 2, 2, nw(pb), keep), x(0, 1, 3, keep, keep), x(1, 2, 4, keep, keep),
					{kind: "dump"}, x(2, 1, 5, keep, keep), x(2, 2, 6, keep, keep)},
				everyField(0, 0, 0), everyField(2, 0, 1), everyField(5, 0, 0),
				[]hop{{kind: "flush"}, x(0, 1, 7, keep, keep), {kind: "load"}, x(0, 1, 8, keep, keep), x(1, 2, 9, keep, keep)},
				everyField(7, 0, 0),
				[]hop{x(2, 2, 10, keep, keep), x(2, 1, 11, keep, keep), {kind: "dump"}, x(0, 1, 12, keep, keep)})})
			out = append(out, scripted{lazy, []hop{
				x(0, 1, 1, nw(pa), keep), x(1, 2, 2, nw(pb), keep), x(2, 3, 3, nw(pc), keep), {kind: "age", k: 2, secs: 2},
				x(0, 3, 4, keep, keep), {kind: "dump"}, x(0, 3, 5, keep, keep), x(0, 1, 6, nw(pb), keep), x(1, 2, 7, nw(pa), keep),
				{kind: "load"}, x(0, 1, 8, keep, keep), x(0, 2, 9, keep, keep), x(0, 3, 10, keep, keep),
				mu(7, mut{kind: "MSetByte", s: 0, i: 0, j: 0, v: 255}), mu(8, mut{kind: "MSetTtl", s: 0, i: 0, v: 0}),
				x(1, 1, 11, keep, keep), x(1, 2, 12, keep, keep), x(1, 3, 13, keep, keep),
				{kind: "load"}, x(2, 1, 14, keep, keep), x(2, 2, 15, keep, keep), x(2, 3, 16, keep, keep)}})
		}
	}
	return out
}

// safePay: an answer that survives Pack/Unpack unchanged (what a dump holds).
func safePay(r *hx.RNG, k uint32) pay {
	types := []uint32{tA, tAAAA, tTXT}
	sect := func(max int, opt bool) []rr {
		var out []rr
		for n := r.Intn(max + 1); n > 0; n-- {
			if opt && r.Chance(1, 3) {
				out = append(out, rr{0, tOPT, 0, r.Intn(3), uint64(r.Intn(4))})
				continue
			}
			t := hx.Pick(r, types)
			n := map[uint32]int{tA: 4, tAAAA: 16, tTXT: r.Range(1, 3)}[t]
			out = append(out, rr{uint32(r.Range(1, 3)), t, uint32(hx.Pick(r, []int{1000, 1001, 5000, 100000, 4294967295})), n, uint64(r.Intn(4))})
		}
		return out
	}
	p := pay{hdrOK, []uint32{k}, sect(3, false), sect(2, false), sect(3, true)}
	switch r.Intn(8) {
	case 0:
		p.hdr = 0x8183
	case 1:
		p.hdr = 0x85b0
	case 2:
		p.hdr = 0x8380 // refused
	}
	if r.Chance(1, 3) {
		p.hdr |= 0x10000 // Compress
	}
	return p
}

// genDumpHistory: stores of answers that survive the wire, lookups, writes,
// dumps, loads and /flush over three keys (no expiry, nothing handed back).
func genDumpHistory(r *hx.RNG) func(w *world, expired map[uint32]bool) (hop, bool) {
	n := r.Range(8, 18)
	step := 0
	return func(w *world, expired map[uint32]bool) (hop, bool) {
		if step >= n {
			return hop{}, false
		}
		step++
		c := r.Intn(3)
		k := uint32(r.Range(1, 3))
		t := r.Intn(100)
		switch {
		case step <= 2 || (len(w.held) == 0 && t < 70):
			return x(c, k, uint32(r.Intn(65536)), nw(safePay(r, k)), keep), true
		case t < 40:
			d := keep
			if r.Chance(1, 3) {
				d = nw(safePay(r, k))
			}
			return x(c, k, uint32(hx.Pick(r, []int{0, 1, 4660, 65535, r.Intn(65536)})), d, keep), true
		case t < 62 && len(w.held) > 0:
			h := r.Intn(len(w.held))
			return mu(h, genMut(r, w, h)), true
		case t < 78:
			return hop{kind: "dump"}, true
		case t < 92:
			return hop{kind: "load"}, true
		case t < 95:
			return hop{kind: "age", k: k, secs: r.Range(1, 3)}, true
		}
		return hop{kind: "flush"}, true
	}
}

// ---------- random histories ----------

func genHistory(r *hx.RNG) func(w *world, expired map[uint32]bool) (hop, bool) {
	n := r.Range(6, 16)
	step := 0
	return func(w *world, expired map[uint32]bool) (hop, bool) {
		if step >= n {
			return hop{}, false
		}
		step++
		c := r.Intn(3)
		k := uint32(r.Range(1, 2))
		if r.Chance(1, 8) {
			k = 3
		}
		t := r.Intn(100)
		switch {
		case len(w.held) == 0 || t < 40:
			q := uint32(hx.Pick(r, []int{0, 1, 2, 4660, 65535, r.Intn(65536)}))
			d := keep
			switch u := r.Intn(10); {
			case u < 5 || (len(w.held) == 0 && u < 8):
				d = nw(genPay(r, k))
			case u < 6 && len(w.held) > 0:
				d = old(r.Intn(len(w.held)))
			}
			lz := keep
			if r.Chance(2, 3) {
				lz = nw(genPay(r, k))
			}
			return x(c, k, q, d, lz), true
		case t < 88:
			h := r.Intn(len(w.held))
			if r.Chance(1, 2) { // prefer messages of a key that will be looked up again
				h = len(w.held) - 1 - r.Intn((len(w.held)+1)/2)
			}
			return mu(h, genMut(r, w, h)), true
		case t < 92:
			return hop{kind: "age", k: k, secs: r.Range(1, 3)}, true
		case t < 98:
			return hop{kind: "expire", k: k}, true
		}
		return hop{kind: "flush"}, true
	}
}

// concurrent: G clients look the same key up at the same time, M times each,
// and each rewrites every hit it is handed in every way while the others are
// still being served. Lookups do not change the cache, so the run is reported
// as the serial history "client 0's lookups and writes, client 1's, ...".
// Built with -race this is also the race detector run of the property.
func concurrent(out *hx.Writer, id string, r *hx.RNG, lazy, expire bool) {
	const G, M = 8, 6
	w := newWorld(id, lazy, 0)
	pv := r.Intn(8)
	ri := 0
	if pv == 4 { // its first answer is an OPT
		ri = 1
	}
	p := stdPay(1, pv)
	w.run([]hop{x(0, 1, 77, nw(p), keep)}, nil)
	if expire {
		w.run([]hop{{kind: "expire", k: 1}}, nil)
	}
	expired := expire
	type got struct {
		m   *dns.Msg
		obs string
	}
	res := make([][]got, G)
	done := make(chan struct{})
	for g := 0; g < G; g++ {
		res[g] = make([]got, M)
		go func(g int) {
			defer func() { done <- struct{}{} }()
			for i := 0; i < M; i++ {
				q := uint32(g*100 + i)
				fg := query_context.NewContext(queryMsg(1, q))
				next := sequence.ExecutableFunc(func(_ context.Context, qc *query_context.Context) error {
					if qc != fg { // a lazy update: leaves nothing
						return nil
					}
					rsp := qc.R()
					if rsp == nil {
						return nil
					}
					var delta uint32
					if t, ok := firstTTL(rsp); ok && w.has0[1] && !expired {
						delta = w.ttl0[1] - t
					}
					res[g][i] = got{rsp, hx.App("OHit", hx.N(uint64(rsp.Id)), hx.N(uint64(delta)), hx.N(readMsg(id, rsp).sum()), hx.N(packedSum(rsp, delta)))}
					// rewrite it in place while the other clients are being served
					for _, o := range everyField(0, 0, ri) {
						applyMut(id, []*dns.Msg{rsp}, 0, o.mu)
					}
					return nil
				})
				walker := sequence.NewChainWalker([]*sequence.ChainNode{{E: next}}, nil)
				if err := w.c.Exec(context.Background(), fg, walker); err != nil {
					fail(id, "Cache.Exec: %v", err)
				}
			}
		}(g)
	}
	for g := 0; g < G; g++ {
		<-done
	}
	w.c.VerifC10LazyWait(cache.VerifGetMsgKey(query_context.NewContext(queryMsg(1, 0)).Q()))
	for g := 0; g < G; g++ {
		for i := 0; i < M; i++ {
			q := uint32(g*100 + i)
			if res[g][i].m == nil {
				w.hops = append(w.hops, hx.App("HX", hx.Ni(g), "1", hx.N(uint64(q)), "KKeep", "KKeep", "OMiss"))
				continue
			}
			w.nHit++
			w.hops = append(w.hops, hx.App("HX", hx.Ni(g), "1", hx.N(uint64(q)), "KKeep", "KKeep", res[g][i].obs))
			w.keep(res[g][i].m, g, 1)
			for _, o := range everyField(len(w.held)-1, 0, ri) {
				w.hops = append(w.hops, hx.App("HM", hx.Ni(o.h), o.mu.coq()))
				w.nMut++
			}
		}
	}
	w.nX += G * M
	w.emit(out, "concurrent")
}

// guard runs one case; when the messages the cache hands out are in a state the driver's own bookkeeping
// cannot read any more (it indexes records it put there itself), that is reported as what it is: the cache
// served or stored something other than what was put in.
func guard(out *hx.Writer, id string, f func()) {
	defer func() {
		if p := recover(); p != nil {
			out.Violation(id, fmt.Sprintf("a message served from / stored in the cache is not one the history can produce (driver bookkeeping failed: %v)", p), nil)
		}
	}()
	f()
}

func main() {
	o := hx.ParseFlags()
	out := hx.NewWriter(o)
	defer out.Close()
	for i, s := range catalogue() {
		id := fmt.Sprintf("cat:%d", i)
		if !o.Want(id) {
			continue
		}
		s := s
		guard(out, id, func() {
			w := newWorld(id, s.lazy, 0)
			w.run(s.ops, nil)
			w.emit(out, "catalogue")
		})
	}
	nc := 6
	if o.Tier == "thorough" {
		nc = 200
	}
	for i := 0; i < nc; i++ {
		id := fmt.Sprintf("conc:%d", i)
		if !o.Want(id) {
			continue
		}
		r := hx.NewRNG(o.Seed, id)
		i := i
		guard(out, id, func() { concurrent(out, id, r, i%2 == 1, i%4 == 3) })
	}
	nd := o.Count(1500, 30000) / 4
	for i := 0; i < nd; i++ {
		id := fmt.Sprintf("dmp:%d", i)
		if !o.Want(id) {
			continue
		}
		r := hx.NewRNG(o.Seed, id)
		guard(out, id, func() {
			w := newWorld(id, r.Bool(), hx.Pick(r, []int{0, 1024, 4096}))
			w.run(nil, genDumpHistory(r))
			w.emit(out, "dump-load")
		})
	}
	n := o.Count(1500, 30000)
	for i := 0; i < n; i++ {
		id := fmt.Sprintf("gen:%d", i)
		if !o.Want(id) {
			continue
		}
		r := hx.NewRNG(o.Seed, id)
		guard(out, id, func() {
			w := newWorld(id, r.Bool(), hx.Pick(r, []int{0, 1024, 4096}))
			w.run(nil, genHistory(r))
			kind := "history"
			if w.lazy {
				kind = "history-lazy"
			}
			w.emit(out, kind)
		})
	}
}
