// Driver for C06 (sequences execute exactly as their rules say). Generates
// sequence programs, renders them to rule text, loads them with the real
// sequence.NewSequence on a registry of recording plugins, executes the last
// one and prints what happened as Judge.C06.case literals.
package main

import (
	"bufio"
	"context"
	"encoding/json"
	"errors"
	"fmt"
	"io"
	"os"
	"os/exec"
	"strconv"
	"strings"
	"sync"
	"sync/atomic"

	"github.com/IrineSistiana/mosdns/v5/coremain"
	"github.com/IrineSistiana/mosdns/v5/pkg/query_context"
	"github.com/IrineSistiana/mosdns/v5/plugin/executable/sequence"
	"github.com/miekg/dns"

	"verifharness/hx"
)

// ---------- recording plugins (conventions = Model/Sequence.v harness_env) ----------

const (
	nMatch = 16
	nExec  = 16
	nWrap  = 22 // 0..17 run their continuation while they are on the stack, 18..21 keep it for later
	nKeep  = 18 // first keeping wrapper
	// a run that records more than this many events is abandoned (nested
	// wrappers multiply the work); the case is then not emitted.
	maxEvents = 600
)

var recKey = query_context.RegKey()

// run is shared by a query context and all its copies.
type run struct {
	steps   atomic.Int64
	aborted atomic.Bool
}

type rec struct {
	run  *run
	ev   []int
	kept []*kept // continuations kept by wrappers 18..21, in trace order
}

// kept is a continuation a wrapper put aside, with the snapshot of the query
// context taken at that moment. It is run after the top-level Exec returned.
type kept struct {
	pos    int // index in rec.ev after which the late runs are logged
	w      int
	n      int
	copy   bool
	next   sequence.ChainWalker
	snap   *query_context.Context
	blocks []int // what the late runs recorded
}

// merge appends what a sub-context recorded.
func (r *rec) merge(sub *rec) {
	off := len(r.ev)
	for _, k := range sub.kept {
		k.pos += off
	}
	r.kept = append(r.kept, sub.kept...)
	r.ev = append(r.ev, sub.ev...)
}

// flat is the log with the late runs spliced in where the continuation was kept.
func (r *rec) flat() []int {
	var out []int
	ki := 0
	for i := 0; i <= len(r.ev); i++ {
		for ki < len(r.kept) && r.kept[ki].pos == i {
			out = append(out, r.kept[ki].blocks...)
			ki++
		}
		if i < len(r.ev) {
			out = append(out, r.ev[i])
		}
	}
	return out
}

func (r *rec) add(v int) {
	r.ev = append(r.ev, v)
	if r.run.steps.Add(1) > maxEvents {
		r.run.aborted.Store(true)
	}
}

func getRec(q *query_context.Context) *rec {
	v, _ := q.GetValue(recKey)
	return v.(*rec)
}

// hErr is the marker a failing plugin's error carries where the flavour allows
// it: it survives %w wrapping, errors.Join and custom Unwrap.
type hErr struct{ code int }

func (e *hErr) Error() string { return "harness error " + strconv.Itoa(e.code) }

// isErr is a custom error type that claims (through Is) to be some well-known
// sentinel and unwraps to the marker.
type isErr struct {
	marker   *hErr
	sentinel error
}

func (e *isErr) Error() string        { return "custom: " + e.sentinel.Error() }
func (e *isErr) Is(target error) bool { return target == e.sentinel }
func (e *isErr) Unwrap() error        { return e.marker }

// ---------- what a failing plugin returns ----------
//
// The sequence must hand any error of a matcher or action to its caller,
// whatever kind of value it is. The error value of every failing plugin is
// drawn per run from this menu; the model treats errors as opaque codes, the
// driver maps the error that came back to the code of the plugin that made it.

var flavourNames = []string{
	"marker", "wrap(marker)", "context.Canceled", "context.DeadlineExceeded", "io.EOF",
	"wrap(context.Canceled)", "wrap(context.DeadlineExceeded)", "wrap(io.EOF)", "wrap(wrap(context.Canceled))",
	"wrap(marker,context.Canceled)", "custom Is(context.Canceled)", "custom Is(context.DeadlineExceeded)",
	"join(marker,context.Canceled)", "join(io.EOF,marker)", "errors.New",
}

const (
	flBareFirst = 2 // 2..4 are bare sentinels: at most one plugin per run may use each
	flBareLast  = 4
)

func mkErr(flavour, code int) error {
	m := &hErr{code}
	switch flavour {
	case 0:
		return m
	case 1:
		return fmt.Errorf("plugin failed: %w", m)
	case 2:
		return context.Canceled
	case 3:
		return context.DeadlineExceeded
	case 4:
		return io.EOF
	case 5:
		return fmt.Errorf("all upstreams failed, last: %w", context.Canceled)
	case 6:
		return fmt.Errorf("upstream: %w", context.DeadlineExceeded)
	case 7:
		return fmt.Errorf("read: %w", io.EOF)
	case 8:
		return fmt.Errorf("query: %w", fmt.Errorf("exchange: %w", context.Canceled))
	case 9:
		return fmt.Errorf("%w (%w)", m, context.Canceled)
	case 10:
		return &isErr{m, context.Canceled}
	case 11:
		return &isErr{m, context.DeadlineExceeded}
	case 12:
		return errors.Join(m, context.Canceled)
	case 13:
		return errors.Join(io.EOF, m)
	}
	return errors.New("plain failure " + strconv.Itoa(code))
}

// errTable holds the error value of every failing plugin of the current run.
type errTable struct {
	val     map[int]error // by code
	flavour map[int]int
	codes   []int // in assignment order
}

// cur is the table of the run in progress (the driver runs one case at a time;
// the quick-setup constructors are package level and have no other way to it).
var cur *errTable

// failing plugin codes: matchers 500+m (m%4==2), executables 600+e (e%4==1), wrappers 700+w (w>=9)
func failingCodes() []int {
	var cs []int
	for i := 0; i < nMatch; i++ {
		if i%4 == 2 {
			cs = append(cs, 500+i)
		}
	}
	for i := 0; i < nExec; i++ {
		if i%4 == 1 {
			cs = append(cs, 600+i)
		}
	}
	for i := 0; i < nWrap; i++ {
		if (i/9)%2 == 1 {
			cs = append(cs, 700+i)
		}
	}
	return cs
}

// newErrTable: force < 0 draws every flavour from the menu (half of the time
// from the context.Canceled family); force = 0 is the plain marker everywhere;
// force = 1 cycles through the context.Canceled family.
func newErrTable(r *hx.RNG, force int) *errTable {
	t := &errTable{val: map[int]error{}, flavour: map[int]int{}}
	canceled := []int{5, 2, 8, 9, 10, 12}
	used := map[int]bool{}
	for i, c := range failingCodes() {
		var f int
		switch {
		case force == 0:
			f = 0
		case force == 1:
			f = canceled[i%len(canceled)]
		case r.Chance(1, 2):
			f = hx.Pick(r, canceled)
		default:
			f = r.Intn(len(flavourNames))
		}
		if f >= flBareFirst && f <= flBareLast {
			if used[f] {
				f += 3 // the wrapped form of the same sentinel
			}
			used[f] = true
		}
		t.val[c] = mkErr(f, c)
		t.flavour[c] = f
		t.codes = append(t.codes, c)
	}
	return t
}

func (t *errTable) err(code int) error { return t.val[code] }

// decode maps the error that came back to (code of the plugin that made it).
// 0 = nil; 9998 = an error no plugin of this run made.
func (t *errTable) decode(err error) int {
	if err == nil {
		return 0
	}
	var he *hErr
	if errors.As(err, &he) {
		return he.code
	}
	// values that are their own identity (fresh pointers) first, shared sentinels last
	for _, c := range t.codes {
		if f := t.flavour[c]; (f < flBareFirst || f > flBareLast) && errors.Is(err, t.val[c]) {
			return c
		}
	}
	for _, c := range t.codes {
		if f := t.flavour[c]; f >= flBareFirst && f <= flBareLast && errors.Is(err, t.val[c]) {
			return c
		}
	}
	return 9998
}

var errAborted = errors.New("run abandoned: too many events")

func respCode(q *query_context.Context) int {
	if r := q.R(); r != nil {
		return 1 + r.Rcode
	}
	return 0
}

func mkResp(q *query_context.Context, rcode int) *dns.Msg {
	r := new(dns.Msg)
	r.SetReply(q.Q())
	r.Rcode = rcode
	return r
}

type hMatch struct{ id int }

func (m hMatch) Match(_ context.Context, q *query_context.Context) (bool, error) {
	r := getRec(q)
	if r.run.aborted.Load() {
		return false, errAborted
	}
	switch m.id % 4 {
	case 0:
		r.add(1000 + 10*m.id + 1)
		return true, nil
	case 1:
		r.add(1000 + 10*m.id)
		return false, nil
	case 2:
		r.add(1000 + 10*m.id + 2)
		// the boolean next to an error must be ignored, whatever it is
		return (m.id/4)%2 == 1, cur.err(500 + m.id)
	}
	ok := q.R() != nil
	v := 0
	if ok {
		v = 1
	}
	r.add(1000 + 10*m.id + v)
	return ok, nil
}

type hExec struct{ id int }

func (e hExec) Exec(_ context.Context, q *query_context.Context) error {
	r := getRec(q)
	if r.run.aborted.Load() {
		return errAborted
	}
	r.add(3000 + e.id)
	switch e.id % 4 {
	case 1:
		return cur.err(600 + e.id)
	case 2:
		q.SetResponse(nil)
	case 3:
		q.SetResponse(mkResp(q, e.id/4))
	}
	return nil
}

type hWrap struct{ id int }

func (w hWrap) Exec(ctx context.Context, q *query_context.Context, next sequence.ChainWalker) error {
	r := getRec(q)
	if r.run.aborted.Load() {
		return errAborted
	}
	base := 10000 * (w.id + 1)
	r.add(base)
	if w.id >= nKeep {
		// keep the continuation and a snapshot of the context, pass the query on
		r.kept = append(r.kept, &kept{pos: len(r.ev), w: w.id, n: 1 + w.id%2, copy: w.id < 20, next: next, snap: q.Copy()})
		err := next.ExecNext(ctx, q)
		if err == nil {
			r.add(base + 1)
		}
		return err
	}
	calls := w.id % 3
	mode := (w.id / 3) % 3
	switch mode {
	case 0: // on the context itself
		for i := 0; i < calls; i++ {
			err := next.ExecNext(ctx, q)
			r.add(base + 2 + respCode(q))
			if err != nil {
				return err
			}
		}
	case 1: // on copies, one after the other
		for i := 0; i < calls; i++ {
			c := q.Copy()
			sub := &rec{run: r.run}
			c.StoreValue(recKey, sub)
			err := next.ExecNext(ctx, c)
			r.merge(sub)
			r.add(base + 2 + respCode(c))
			if err != nil {
				return err
			}
		}
	case 2: // on copies, concurrently
		cs := make([]*query_context.Context, calls)
		subs := make([]*rec, calls)
		errs := make([]error, calls)
		for i := range cs {
			cs[i] = q.Copy()
			subs[i] = &rec{run: r.run}
			cs[i].StoreValue(recKey, subs[i])
		}
		var wg sync.WaitGroup
		for i := range cs {
			wg.Add(1)
			go func(i int) {
				defer wg.Done()
				errs[i] = next.ExecNext(ctx, cs[i])
			}(i)
		}
		wg.Wait()
		for i := range cs {
			r.merge(subs[i])
			r.add(base + 2 + respCode(cs[i]))
			if errs[i] != nil {
				return errs[i]
			}
		}
	}
	r.add(base + 1)
	if (w.id/9)%2 == 1 {
		return cur.err(700 + w.id)
	}
	return nil
}

// "$mq 3", "$xq 3", "$wq 3": existing plugins configured by args.
type quickM struct{}

func (quickM) Match(context.Context, *query_context.Context) (bool, error) {
	return false, errors.New("mq used without args")
}
func (quickM) QuickConfigureMatch(args string) (sequence.Matcher, error) {
	n, err := strconv.Atoi(args)
	if err != nil || n < 0 || n >= nMatch {
		return nil, fmt.Errorf("bad matcher id %q", args)
	}
	return hMatch{n}, nil
}

type quickX struct{ wrap bool }

func (quickX) Exec(context.Context, *query_context.Context) error {
	return errors.New("xq/wq used without args")
}
func (x quickX) QuickConfigureExec(args string) (any, error) {
	n, err := strconv.Atoi(args)
	lim := nExec
	if x.wrap {
		lim = nWrap
	}
	if err != nil || n < 0 || n >= lim {
		return nil, fmt.Errorf("bad id %q", args)
	}
	if x.wrap {
		return hWrap{n}, nil
	}
	return hExec{n}, nil
}

func init() {
	// "vm 3", "vx 3", "vw 3": anonymous plugins made by quick setup
	sequence.MustRegMatchQuickSetup("vm", func(_ sequence.BQ, args string) (sequence.Matcher, error) {
		return quickM{}.QuickConfigureMatch(args)
	})
	sequence.MustRegExecQuickSetup("vx", func(_ sequence.BQ, args string) (any, error) {
		return quickX{}.QuickConfigureExec(args)
	})
	sequence.MustRegExecQuickSetup("vw", func(_ sequence.BQ, args string) (any, error) {
		return quickX{wrap: true}.QuickConfigureExec(args)
	})
}

func newRegistry() map[string]any {
	ps := map[string]any{}
	for i := 0; i < nMatch; i++ {
		ps["m"+strconv.Itoa(i)] = hMatch{i}
	}
	for i := 0; i < nExec; i++ {
		ps["x"+strconv.Itoa(i)] = hExec{i}
	}
	for i := 0; i < nWrap; i++ {
		ps["w"+strconv.Itoa(i)] = hWrap{i}
	}
	ps["mq"] = quickM{}
	ps["xq"] = quickX{}
	ps["wq"] = quickX{wrap: true}
	return ps
}

// ---------- programs (mirrors Model.Sequence.tseq) ----------

type tmatch struct {
	neg bool
	id  int
}

type trule struct {
	ms   []tmatch
	kind string // exec wrap accept reject return jump goto call
	arg  int    // id / name / rcode (-1: reject without argument)
}

type tseq struct {
	name  int
	rules []trule
}

func (r trule) coq() string {
	ms := make([]string, len(r.ms))
	for i, m := range r.ms {
		ms[i] = hx.Tuple(hx.Bool(m.neg), hx.Ni(m.id))
	}
	var a string
	switch r.kind {
	case "exec":
		a = "TExec " + hx.Ni(r.arg)
	case "wrap":
		a = "TWrap " + hx.Ni(r.arg)
	case "accept":
		a = "TAccept"
	case "reject":
		if r.arg < 0 {
			a = "TReject None"
		} else {
			a = "TReject " + hx.Some(hx.Ni(r.arg))
		}
	case "return":
		a = "TReturn"
	case "jump":
		a = "TJump " + hx.Ni(r.arg)
	case "goto":
		a = "TGoto " + hx.Ni(r.arg)
	case "call":
		a = "TCall " + hx.Ni(r.arg)
	}
	return hx.Tuple(hx.List(ms), a)
}

func progCoq(ss []tseq) string {
	out := make([]string, len(ss))
	for i, s := range ss {
		rs := make([]string, len(s.rules))
		for j, r := range s.rules {
			rs[j] = r.coq()
		}
		out[i] = hx.Tuple(hx.Ni(s.name), hx.List(rs))
	}
	return hx.List(out)
}

// ---------- rendering to rule text ----------

func sp(r *hx.RNG, min int) string {
	// mostly the minimum; sometimes surplus blanks (a tab only where TrimSpace removes it)
	n := min
	if r.Chance(1, 4) {
		n += r.Range(1, 2)
	}
	return strings.Repeat(" ", n)
}

func edge(r *hx.RNG) string {
	switch r.Intn(8) {
	case 0:
		return " "
	case 1:
		return "\t "
	case 2:
		return "  "
	}
	return ""
}

func renderRef(r *hx.RNG, prefix string, id int) string {
	// "$m3" | "vm 3" | "$mq 3"; unknown ids keep the form and fail to build either way
	switch r.Intn(4) {
	case 0:
		return "v" + prefix + " " + sp(r, 0) + strconv.Itoa(id)
	case 1:
		return "$" + prefix + "q " + sp(r, 0) + strconv.Itoa(id)
	}
	return "$" + prefix + strconv.Itoa(id)
}

func renderMatch(r *hx.RNG, m tmatch) string {
	var s string
	switch m.id {
	case 100:
		s = "_true"
	case 101:
		s = "_false"
	default:
		s = renderRef(r, "m", m.id)
	}
	if m.neg {
		s = "!" + sp(r, 0) + s
	}
	return edge(r) + s + edge(r)
}

func renderExec(r *hx.RNG, t trule) string {
	var s string
	switch t.kind {
	case "exec":
		s = renderRef(r, "x", t.arg)
	case "wrap":
		s = renderRef(r, "w", t.arg)
	case "accept":
		s = "accept"
		if r.Chance(1, 6) {
			s = "accept " + sp(r, 0) + "ignored"
		}
	case "return":
		s = "return"
	case "reject":
		s = "reject"
		if t.arg >= 0 {
			s = "reject " + sp(r, 0) + strconv.Itoa(t.arg)
		}
	case "jump":
		s = "jump " + sp(r, 0) + "s" + strconv.Itoa(t.arg)
	case "goto":
		s = "goto " + sp(r, 0) + "s" + strconv.Itoa(t.arg)
	case "call": // the sequence itself as a plain executable
		s = "$s" + strconv.Itoa(t.arg)
		if r.Chance(1, 6) {
			s += " " + sp(r, 0) + "ignored"
		}
	}
	return edge(r) + s + edge(r)
}

func render(r *hx.RNG, s tseq) []sequence.RuleArgs {
	out := make([]sequence.RuleArgs, len(s.rules))
	for i, t := range s.rules {
		for _, m := range t.ms {
			out[i].Matches = append(out[i].Matches, renderMatch(r, m))
		}
		out[i].Exec = renderExec(r, t)
	}
	return out
}

// ---------- a static upper bound on the number of recorded events ----------

// Computed from the program text alone (every rule is assumed to match and
// every continuation to run to its end), so that a run that exceeds maxEvents
// although the bound says it cannot is a finding, not an artefact.
const boundCap = 1 << 40

func capAdd(a, b int) int {
	if a+b > boundCap {
		return boundCap
	}
	return a + b
}

func staticBound(ss []tseq) int {
	// target of a jump/goto = the latest sequence of that name built before
	resolve := func(si int, name int) int {
		for k := si - 1; k >= 0; k-- {
			if ss[k].name == name {
				return k
			}
		}
		return -1
	}
	var u func(si, from, after int) int
	u = func(si, from, after int) int {
		rules := ss[si].rules
		if from >= len(rules) {
			return after
		}
		t := rules[from]
		rest := u(si, from+1, after)
		var act int
		switch t.kind {
		case "exec":
			act = capAdd(1, rest)
		case "wrap":
			act = 2
			if t.arg >= nKeep {
				act = capAdd(act, rest)
				for i := 0; i < 1+t.arg%2; i++ {
					act = capAdd(act, capAdd(2, rest))
				}
			} else {
				for i := 0; i < t.arg%3; i++ {
					act = capAdd(act, capAdd(1, rest))
				}
			}
		case "return":
			act = after
		case "jump", "goto", "call":
			ti := resolve(si, t.arg)
			if ti < 0 {
				return 0 // does not build
			}
			switch t.kind {
			case "jump":
				act = u(ti, 0, rest)
			case "goto":
				act = u(ti, 0, 0)
			default:
				act = capAdd(u(ti, 0, 0), rest)
			}
		}
		if rest > act {
			act = rest
		}
		return capAdd(len(t.ms), act)
	}
	return u(len(ss)-1, 0, 0)
}

// ---------- late runs of kept continuations ----------

// interfere executes an unrelated program full of jumps on an unrelated query,
// as happens between the moment a continuation is kept and the moment it is run.
var interferer *sequence.Sequence

func interfere() {
	if interferer == nil {
		ps := newRegistry()
		m := coremain.NewTestMosdnsWithPlugins(ps)
		mk := func(name string, ra ...string) *sequence.Sequence {
			args := make([]sequence.RuleArgs, len(ra))
			for i, e := range ra {
				args[i].Exec = e
			}
			s, err := sequence.NewSequence(coremain.NewBP(name, m), args)
			if err != nil {
				panic(err)
			}
			ps[name] = s
			return s
		}
		mk("ia", "$x12")
		mk("ib", "$x12", "jump ia", "$x12")
		mk("ic", "jump ib", "$x12", "jump ia", "$x12", "return")
		interferer = mk("id", "jump ic", "$x12", "jump ib", "jump ia", "$x12", "$x12")
	}
	for i := 0; i < 2; i++ {
		q := new(dns.Msg)
		q.SetQuestion("other.example.", dns.TypeAAAA)
		qc := query_context.NewContext(q)
		qc.StoreValue(recKey, &rec{run: &run{}})
		_ = interferer.Exec(context.Background(), qc)
	}
}

// runLate runs every continuation kept while r was recorded (and, recursively,
// those kept during the late runs), each after other programs have run.
func runLate(r *rec) {
	for _, k := range r.kept {
		base := 10000 * (k.w + 1)
		for i := 0; i < k.n; i++ {
			interfere()
			c := k.snap
			if k.copy {
				c = k.snap.Copy()
			}
			sub := &rec{run: r.run}
			c.StoreValue(recKey, sub)
			var err error
			if p := hx.Recover(func() { err = k.next.ExecNext(context.Background(), c) }); p != nil {
				err = &hErr{9999}
			}
			runLate(sub)
			k.blocks = append(k.blocks, sub.flat()...)
			k.blocks = append(k.blocks, base+2+respCode(c), base+3000+cur.decode(err))
		}
	}
}

// ---------- running ----------

// force: which errors the failing plugins return (see newErrTable).
func runProg(w emitter, id string, kind string, ss []tseq, init int, r *hx.RNG, force int) {
	if len(ss) == 0 {
		return
	}
	cur = newErrTable(r, force)
	// should the code under test take the whole process down on this program
	// (unbounded recursion is fatal in Go), this is what gets reported
	w.Begin(kind, hx.Case{
		ID:   id,
		Coq:  hx.App("CProg", progCoq(ss), hx.Ni(init), hx.App("ORun", "[]", "9999", "0")),
		Desc: map[string]any{"kind": kind, "seqs": len(ss), "init": init, "crashed": true},
		FKey: kind,
	})
	if staticBound(ss) > maxEvents {
		w.Tally("skipped-too-long", 1)
		return
	}
	ps := newRegistry()
	m := coremain.NewTestMosdnsWithPlugins(ps)
	var last *sequence.Sequence
	var text [][]sequence.RuleArgs
	obs := ""
	failed := -1
	var built []*sequence.Sequence
	for i, s := range ss {
		ra := render(r, s)
		text = append(text, ra)
		var seq *sequence.Sequence
		var err error
		viaInit := r.Bool() // the plugin constructor registered with coremain, or NewSequence directly
		if p := hx.Recover(func() {
			bp := coremain.NewBP("s"+strconv.Itoa(s.name), m)
			if viaInit {
				var v any
				args := sequence.Args(ra)
				if v, err = sequence.Init(bp, &args); err == nil {
					seq = v.(*sequence.Sequence)
				}
			} else {
				seq, err = sequence.NewSequence(bp, ra)
			}
		}); p != nil {
			err = fmt.Errorf("panic: %v", p)
		}
		if err != nil {
			failed = i
			break
		}
		ps["s"+strconv.Itoa(s.name)] = seq
		built = append(built, seq)
		last = seq
	}
	desc := map[string]any{"kind": kind, "seqs": len(ss), "text": text, "init": init}
	if failed >= 0 {
		obs = hx.App("OLoadFail", hx.Ni(failed))
		desc["load_failed_at"] = failed
	} else {
		q := new(dns.Msg)
		q.SetQuestion("example.org.", dns.TypeA)
		qCtx := query_context.NewContext(q)
		rn := &run{}
		rc := &rec{run: rn}
		qCtx.StoreValue(recKey, rc)
		if init > 0 {
			qCtx.SetResponse(mkResp(qCtx, init-1))
		}
		var err error
		if p := hx.Recover(func() { err = last.Exec(context.Background(), qCtx) }); p != nil {
			err = &hErr{9999}
		}
		runLate(rc)
		code := cur.decode(err)
		if rn.aborted.Load() {
			// cannot happen for a program within the static bound
			code = 9997
		}
		trace := rc.flat()
		obs = hx.App("ORun", hx.NList(trace), hx.Ni(code), hx.Ni(respCode(qCtx)))
		desc["events"] = len(trace)
		if len(rc.kept) > 0 {
			desc["kept_continuations"] = len(rc.kept)
		}
		desc["err"] = code
		if err != nil {
			desc["err_text"] = err.Error()
		}
		// the error values of the failing plugins this program names
		fl := map[string]string{}
		for _, s := range ss {
			for _, t := range s.rules {
				for _, m := range t.ms {
					if m.id < nMatch && m.id%4 == 2 {
						fl["m"+strconv.Itoa(m.id)] = flavourNames[cur.flavour[500+m.id]]
					}
				}
				if t.kind == "exec" && t.arg < nExec && t.arg%4 == 1 {
					fl["x"+strconv.Itoa(t.arg)] = flavourNames[cur.flavour[600+t.arg]]
				}
				if t.kind == "wrap" && t.arg < nWrap && (t.arg/9)%2 == 1 {
					fl["w"+strconv.Itoa(t.arg)] = flavourNames[cur.flavour[700+t.arg]]
				}
			}
		}
		if len(fl) > 0 {
			desc["errors"] = fl
		}
	}
	for _, s := range built {
		_ = s.Close()
	}
	w.Emit(kind, hx.Case{
		ID:   id,
		Coq:  hx.App("CProg", progCoq(ss), hx.Ni(init), obs),
		Desc: desc,
		FKey: kind,
	})
}

func runParse(w emitter, id string, s string, isMatch bool) {
	if isMatch {
		tag, typ, args, rev := sequence.VerifParseMatch(s)
		w.Emit("parse", hx.Case{
			ID:   id,
			Coq:  hx.App("CParseM", hx.Str(s), hx.Str(tag), hx.Str(typ), hx.Str(args), hx.Bool(rev)),
			Desc: map[string]any{"kind": "parse_match", "text": s},
			FKey: "parse",
		})
		return
	}
	tag, typ, args := sequence.VerifParseExec(s)
	w.Emit("parse", hx.Case{
		ID:   id,
		Coq:  hx.App("CParseE", hx.Str(s), hx.Str(tag), hx.Str(typ), hx.Str(args)),
		Desc: map[string]any{"kind": "parse_exec", "text": s},
		FKey: "parse",
	})
}

// ---------- generators ----------

func genMatchers(r *hx.RNG) []tmatch {
	n := 0
	switch r.Intn(10) {
	case 0, 1, 2, 3:
		n = 0
	case 4, 5, 6:
		n = 1
	case 7, 8:
		n = 2
	default:
		n = 3
	}
	ms := make([]tmatch, n)
	for i := range ms {
		var id int
		neg := false
		j := 4 * r.Intn(4)
		switch r.Intn(20) {
		case 0, 1, 2, 3, 4, 5, 6: // holds
			id = j
		case 7, 8, 9: // holds through '!'
			id, neg = j+1, true
		case 10, 11: // does not hold
			id = j + 1
		case 12: // does not hold through '!'
			id, neg = j, true
		case 13, 14, 15: // depends on the response
			id, neg = j+3, r.Bool()
		case 16: // error, negated or not
			if r.Chance(1, 2) {
				id, neg = j+2, r.Bool()
			} else {
				id = j
			}
		case 17:
			id, neg = 100, r.Chance(1, 4)
		case 18:
			id, neg = 101, r.Chance(3, 4)
		default:
			id, neg = r.Intn(nMatch), r.Bool()
		}
		ms[i] = tmatch{neg, id}
	}
	return ms
}

// names of sequences built so far are drawn from a small alphabet so that
// shadowing happens; earlier = names already built (possibly repeated).
func genAction(r *hx.RNG, earlier []int, wrapBudget *int) (string, int) {
	for {
		switch r.Intn(21) {
		case 0, 1, 2, 3, 4, 5, 6:
			j := 4 * r.Intn(4)
			switch r.Intn(20) {
			case 0:
				return "exec", j + 1 // fails
			case 1, 2:
				return "exec", j + 2 // drops the response
			case 3, 4, 5:
				return "exec", j + 3 // sets a response
			}
			return "exec", j
		case 7, 8, 9:
			if *wrapBudget <= 0 {
				continue
			}
			*wrapBudget--
			wid := r.Intn(nKeep)
			if r.Chance(2, 3) {
				wid %= 9 // does not fail at the end
			}
			if r.Chance(1, 4) {
				wid = r.Range(nKeep, nWrap-1) // keeps its continuation for later
			}
			return "wrap", wid
		case 10:
			return "accept", 0
		case 11:
			switch r.Intn(6) {
			case 0:
				return "reject", -1
			case 1:
				return "reject", hx.Pick(r, []int{0, 5, 4095})
			}
			return "reject", r.Intn(8)
		case 12, 13:
			return "return", 0
		case 14, 15, 16:
			if len(earlier) == 0 {
				continue
			}
			return "jump", hx.Pick(r, earlier)
		case 17, 18:
			if len(earlier) == 0 {
				continue
			}
			return "call", hx.Pick(r, earlier)
		default:
			if len(earlier) == 0 {
				continue
			}
			return "goto", hx.Pick(r, earlier)
		}
	}
}

func genProg(r *hx.RNG) []tseq {
	nseq := r.Range(1, 4)
	if nseq == 1 && r.Chance(1, 2) {
		nseq = r.Range(2, 4)
	}
	var ss []tseq
	var earlier []int
	wrapBudget := 4
	for i := 0; i < nseq; i++ {
		name := i
		if r.Chance(1, 8) {
			name = r.Intn(4)
		}
		nr := r.Range(0, 5)
		entry := i == nseq-1
		if entry {
			nr = r.Range(2, 6)
		}
		if r.Chance(1, 12) {
			nr = r.Intn(2)
		}
		rules := make([]trule, nr)
		for j := range rules {
			k, a := genAction(r, earlier, &wrapBudget)
			if entry && j < nr-1 && (k == "accept" || k == "reject" || k == "return" || k == "goto" || (k == "exec" && a%4 == 1)) {
				// keep the entry sequence going more often than not
				if k2, a2 := genAction(r, earlier, &wrapBudget); k2 != "wrap" {
					k, a = k2, a2
				} else {
					wrapBudget++
				}
			}
			rules[j] = trule{ms: genMatchers(r), kind: k, arg: a}
		}
		ss = append(ss, tseq{name, rules})
		earlier = append(earlier, name)
	}
	return ss
}

// genChain produces the shapes in which "resume after the calling jump" has
// to pass through exhausted sequences: main -> mid... -> inner, 2-3 levels of
// nesting, the jump mostly being the LAST rule of each middle sequence, the
// innermost ending through an executed explicit return (or its end, or a
// wrapper that keeps / re-runs the rest), rules behind the outermost jump;
// also under wrappers, with goto or $seq at a middle level.
func genChain(r *hx.RNG) []tseq {
	okExec := func() trule { return trule{kind: "exec", arg: 4 * r.Intn(4)} }
	holding := func() []tmatch {
		switch r.Intn(4) {
		case 0:
			return []tmatch{{false, 100}}
		case 1:
			return []tmatch{{true, 4*r.Intn(4) + 1}}
		case 2:
			return []tmatch{{false, 4 * r.Intn(4)}, {true, 101}}
		}
		return nil
	}
	wrapper := func() trule {
		w := hx.Pick(r, []int{1, 2, 4, 5, 7, 8, 18, 19, 20, 21, 18, 19})
		return trule{kind: "wrap", arg: w}
	}
	depth := r.Range(2, 3)
	var ss []tseq
	// innermost
	var inner []trule
	for i := r.Intn(3); i > 0; i-- {
		inner = append(inner, okExec())
	}
	if r.Chance(1, 3) {
		inner = append(inner, wrapper())
		if r.Chance(1, 2) {
			inner = append(inner, okExec())
		}
	}
	switch r.Intn(6) {
	case 0: // runs off its end
	case 1:
		inner = append(inner, trule{ms: []tmatch{{false, 4*r.Intn(4) + 1}}, kind: "return"}, okExec())
	default:
		inner = append(inner, trule{ms: holding(), kind: "return"}, trule{kind: "exec", arg: 1})
	}
	ss = append(ss, tseq{0, inner})
	// middle sequences
	for lvl := 1; lvl < depth; lvl++ {
		var mid []trule
		for i := r.Intn(2); i > 0; i-- {
			mid = append(mid, okExec())
		}
		if r.Chance(1, 5) {
			mid = append(mid, wrapper())
		}
		kind := "jump"
		switch r.Intn(10) {
		case 0:
			kind = "goto"
		case 1:
			kind = "call"
		}
		mid = append(mid, trule{ms: holding(), kind: kind, arg: lvl - 1})
		if r.Chance(1, 5) { // not the last rule after all
			mid = append(mid, trule{ms: genMatchers(r), kind: "exec", arg: 4 * r.Intn(4)})
		}
		ss = append(ss, tseq{lvl, mid})
	}
	// main
	var main []trule
	if r.Chance(1, 2) {
		main = append(main, okExec())
	}
	if r.Chance(1, 3) {
		main = append(main, wrapper())
	}
	main = append(main, trule{ms: holding(), kind: "jump", arg: depth - 1})
	for i := r.Range(1, 2); i > 0; i-- {
		main = append(main, trule{ms: holding(), kind: "exec", arg: hx.Pick(r, []int{0, 4, 8, 12, 3, 7})})
	}
	if r.Chance(1, 4) {
		main = append(main, trule{kind: "jump", arg: r.Intn(depth)})
	}
	ss = append(ss, tseq{depth, main})
	return ss
}

// breakProg injects one defect that must make building fail (or, for the
// reference cases, must not).
func breakProg(r *hx.RNG, ss []tseq) []tseq {
	si := r.Intn(len(ss))
	s := &ss[si]
	if len(s.rules) == 0 {
		s.rules = append(s.rules, trule{kind: "accept"})
	}
	t := &s.rules[r.Intn(len(s.rules))]
	switch r.Intn(7) {
	case 0: // reference to itself or to a later sequence
		t.kind, t.arg = hx.Pick(r, []string{"jump", "goto", "call"}), s.name
	case 1:
		t.kind, t.arg = hx.Pick(r, []string{"jump", "goto", "call"}), r.Range(4, 6)
	case 2:
		t.kind, t.arg = "exec", r.Range(nExec, nExec+3)
	case 3:
		t.kind, t.arg = "wrap", r.Range(nWrap, nWrap+3)
	case 4:
		t.ms = append(t.ms, tmatch{r.Bool(), hx.Pick(r, []int{16, 17, 99, 102})})
	case 5:
		t.kind, t.arg = "reject", hx.Pick(r, []int{4095, 4096, 4097, 65536})
	default:
		t.kind, t.arg = hx.Pick(r, []string{"jump", "goto"}), len(ss)
	}
	return ss
}

func genParseText(r *hx.RNG) string {
	if r.Chance(1, 2) {
		// structured: blanks, '!', '$', name, args
		var b strings.Builder
		b.WriteString(hx.Pick(r, []string{"", "", " ", "\t", "  "}))
		if r.Chance(1, 2) {
			b.WriteString("!")
			b.WriteString(hx.Pick(r, []string{"", "", " ", "  ", "\t"}))
		}
		if r.Chance(1, 2) {
			b.WriteString("$")
			if r.Chance(1, 8) {
				b.WriteString(" ")
			}
		}
		b.WriteString(hx.Pick(r, []string{"a", "ab", "qname", "_true", "x1", ""}))
		if r.Chance(1, 2) {
			b.WriteString(hx.Pick(r, []string{" ", "  ", " \t", "\t"}))
			b.WriteString(hx.Pick(r, []string{"b", "a b", "1.2.3.4  c", "$x", "!y", ""}))
		}
		b.WriteString(hx.Pick(r, []string{"", "", " ", "\t ", "\n"}))
		return b.String()
	}
	n := r.Range(0, 9)
	al := []byte{' ', ' ', '\t', '!', '$', 'a', 'b', '1', '\r'}
	b := make([]byte, n)
	for i := range b {
		b[i] = hx.Pick(r, al)
	}
	return string(b)
}

// ---------- catalogue ----------

func mt(ids ...int) []tmatch { // negative = negated (id -1-n)
	var ms []tmatch
	for _, i := range ids {
		if i < 0 {
			ms = append(ms, tmatch{true, -1 - i})
		} else {
			ms = append(ms, tmatch{false, i})
		}
	}
	return ms
}
func neg(id int) int { return -1 - id }

func ru(kind string, arg int, ms ...int) trule { return trule{ms: mt(ms...), kind: kind, arg: arg} }

type catCase struct {
	name string
	init int
	ss   []tseq
}

func catalogue() []catCase {
	x := func(n int) trule { return ru("exec", n) }
	return []catCase{
		{"empty", 0, []tseq{{0, nil}}},
		{"empty-init-resp", 3, []tseq{{0, nil}}},
		{"order", 0, []tseq{{0, []trule{x(0), x(4), x(8), x(12)}}}},
		// sequence_test.go programs
		{"t-exec", 0, []tseq{{0, []trule{x(0), x(3), ru("return", 0), x(1)}}}},
		{"t-match", 0, []tseq{{0, []trule{ru("exec", 1, 0, 1, 2), ru("exec", 1, 1, 2), ru("exec", 3, 0, 4)}}}},
		{"t-goto-return", 0, []tseq{{1, []trule{x(3), ru("return", 0), x(1)}}, {0, []trule{ru("goto", 1), x(1)}}}},
		{"t-jump-return", 0, []tseq{{1, []trule{x(0), ru("return", 0), x(1)}}, {0, []trule{ru("jump", 1), x(3)}}}},
		{"t-jump-accept", 0, []tseq{{1, []trule{x(3), ru("accept", 0), x(1)}}, {0, []trule{ru("jump", 1), x(1)}}}},
		{"t-jump-end", 0, []tseq{{1, []trule{x(0)}}, {0, []trule{ru("jump", 1), x(3)}}}},
		{"t-reject", 0, []tseq{{0, []trule{ru("reject", -1), x(1)}}}},
		// matchers: left to right, stop at the first that does not hold, '!'
		{"m-all-hold", 0, []tseq{{0, []trule{ru("exec", 0, 0, neg(1), 4, neg(5)), x(4)}}}},
		{"m-first-false", 0, []tseq{{0, []trule{ru("exec", 0, 1, 0, 2), x(4)}}}},
		{"m-last-false", 0, []tseq{{0, []trule{ru("exec", 0, 0, 4, 1), x(4)}}}},
		{"m-neg-true-stops", 0, []tseq{{0, []trule{ru("exec", 0, 0, neg(4), 2), x(4)}}}},
		{"m-neg-false-holds", 0, []tseq{{0, []trule{ru("exec", 0, neg(1), neg(5)), x(4)}}}},
		{"m-error-first", 0, []tseq{{0, []trule{ru("exec", 0, 2, 0), x(4)}}}},
		{"m-error-after-true", 0, []tseq{{0, []trule{ru("exec", 0, 0, 6, 0), x(4)}}}},
		{"m-error-negated", 0, []tseq{{0, []trule{ru("exec", 0, neg(2), 0), x(4)}}}},
		{"m-error-negated-true-flag", 0, []tseq{{0, []trule{ru("exec", 0, neg(6), 0), x(4)}}}},
		{"m-error-skipped-after-false", 0, []tseq{{0, []trule{ru("exec", 0, 1, 2), x(4)}}}},
		{"m-builtin", 0, []tseq{{0, []trule{ru("exec", 0, 100, neg(101)), ru("exec", 4, 101), ru("exec", 8, neg(100)), x(12)}}}},
		{"m-has-resp", 0, []tseq{{0, []trule{ru("exec", 0, 3), ru("exec", 7, neg(3)), ru("exec", 4, 3), ru("exec", 2, 7), ru("exec", 8, 3)}}}},
		{"m-has-resp-init", 2, []tseq{{0, []trule{ru("exec", 0, 3), ru("exec", 2), ru("exec", 4, 3)}}}},
		// accept / reject end everything, also below jumps
		{"accept-top", 0, []tseq{{0, []trule{x(0), ru("accept", 0), x(4)}}}},
		{"accept-not-matched", 0, []tseq{{0, []trule{x(0), ru("accept", 0, 1), x(4)}}}},
		{"accept-deep", 0, []tseq{
			{0, []trule{x(0), ru("accept", 0), x(1)}},
			{1, []trule{x(4), ru("jump", 0), x(1)}},
			{2, []trule{x(8), ru("jump", 1), x(1)}}}},
		{"reject-deep", 0, []tseq{
			{0, []trule{x(0), ru("reject", 3), x(1)}},
			{1, []trule{ru("jump", 0), x(1)}},
			{2, []trule{ru("jump", 1), x(1)}}}},
		{"reject-0", 0, []tseq{{0, []trule{ru("reject", 0)}}}},
		{"reject-4095", 0, []tseq{{0, []trule{ru("reject", 4095)}}}},
		{"reject-4096", 0, []tseq{{0, []trule{ru("reject", 4096)}}}},
		{"reject-overrides", 2, []tseq{{0, []trule{ru("reject", 7)}}}},
		// return
		{"return-top", 0, []tseq{{0, []trule{x(0), ru("return", 0), x(4)}}}},
		{"return-not-matched", 0, []tseq{{0, []trule{x(0), ru("return", 0, neg(0)), x(4)}}}},
		{"return-resumes", 0, []tseq{
			{0, []trule{x(0), ru("return", 0), x(1)}},
			{1, []trule{x(4), ru("jump", 0), x(8)}}}},
		{"return-resumes-middle", 0, []tseq{
			{0, []trule{x(0), ru("return", 0), x(1)}},
			{1, []trule{x(4), ru("jump", 0), x(8), ru("return", 0), x(1)}},
			{2, []trule{x(12), ru("jump", 1), x(0)}}}},
		{"jump-twice", 0, []tseq{
			{0, []trule{x(0)}},
			{1, []trule{ru("jump", 0), x(4), ru("jump", 0), x(8)}}}},
		{"jump-empty", 0, []tseq{{0, nil}, {1, []trule{x(0), ru("jump", 0), x(4)}}}},
		{"jump-last-rule", 0, []tseq{{0, []trule{x(0)}}, {1, []trule{x(4), ru("jump", 0)}}, {2, []trule{ru("jump", 1), x(8)}}}},
		// goto never comes back, also inside a jumped sequence
		{"goto-top", 0, []tseq{{0, []trule{x(0)}}, {1, []trule{x(4), ru("goto", 0), x(1)}}}},
		{"goto-inside-jump", 0, []tseq{
			{0, []trule{x(0)}},
			{1, []trule{x(4), ru("goto", 0), x(1)}},
			{2, []trule{x(8), ru("jump", 1), x(1)}}}},
		{"goto-target-returns", 0, []tseq{
			{0, []trule{x(0), ru("return", 0), x(1)}},
			{1, []trule{ru("goto", 0), x(1)}},
			{2, []trule{ru("jump", 1), x(1)}}}},
		{"goto-not-matched", 0, []tseq{{0, []trule{x(1)}}, {1, []trule{ru("goto", 0, 1), x(4)}}}},
		{"jump-inside-goto", 0, []tseq{
			{0, []trule{x(0)}},
			{1, []trule{ru("jump", 0), x(4)}},
			{2, []trule{ru("goto", 1), x(1)}}}},
		// errors abort everything
		{"exec-error", 0, []tseq{{0, []trule{x(0), x(5), x(4)}}}},
		{"exec-error-deep", 0, []tseq{
			{0, []trule{x(0), x(9), x(4)}},
			{1, []trule{ru("jump", 0), x(4)}},
			{2, []trule{ru("jump", 1), x(4)}}}},
		{"match-error-deep", 0, []tseq{
			{0, []trule{ru("exec", 0, 10)}},
			{1, []trule{ru("jump", 0), x(4)}},
			{2, []trule{ru("goto", 1), x(4)}}}},
		// wrapping plugins
		{"wrap-stop", 0, []tseq{{0, []trule{x(0), ru("wrap", 0), x(4)}}}},
		{"wrap-stop-fail", 0, []tseq{{0, []trule{x(0), ru("wrap", 9), x(4)}}}},
		{"wrap-once", 0, []tseq{{0, []trule{x(0), ru("wrap", 1), x(4), x(8)}}}},
		{"wrap-once-postfail", 0, []tseq{{0, []trule{ru("wrap", 10), x(4)}}}},
		{"wrap-twice-same", 0, []tseq{{0, []trule{ru("wrap", 2), ru("exec", 0, 3), ru("exec", 7)}}}},
		{"wrap-twice-copy", 0, []tseq{{0, []trule{ru("wrap", 5), ru("exec", 0, 3), ru("exec", 7)}}}},
		{"wrap-twice-concurrent", 0, []tseq{{0, []trule{ru("wrap", 8), ru("exec", 0, 3), ru("exec", 7), ru("reject", 2)}}}},
		{"wrap-last-rule", 0, []tseq{{0, []trule{x(0), ru("wrap", 2)}}}},
		{"wrap-not-matched", 0, []tseq{{0, []trule{ru("wrap", 2, 1), x(4)}}}},
		{"wrap-gets-pending-returns", 0, []tseq{
			{0, []trule{x(0), ru("wrap", 2), x(4)}},
			{1, []trule{ru("jump", 0), x(8)}},
			{2, []trule{ru("jump", 1), x(12)}}}},
		{"wrap-gets-pending-concurrent", 0, []tseq{
			{0, []trule{x(0), ru("wrap", 8), x(4), ru("return", 0), x(1)}},
			{1, []trule{ru("jump", 0), x(8)}},
			{2, []trule{ru("jump", 1), x(12)}}}},
		{"wrap-after-goto-no-pending", 0, []tseq{
			{0, []trule{ru("wrap", 5), x(4)}},
			{1, []trule{ru("goto", 0), x(1)}},
			{2, []trule{ru("jump", 1), x(1)}}}},
		{"wrap-continuation-fails", 0, []tseq{{0, []trule{ru("wrap", 2), x(0), x(5), x(4)}}}},
		{"wrap-continuation-fails-copy", 0, []tseq{{0, []trule{ru("wrap", 5), x(0), x(5), x(4)}}}},
		{"wrap-continuation-fails-concurrent", 0, []tseq{{0, []trule{ru("wrap", 8), x(0), ru("exec", 0, 2)}}}},
		{"wrap-continuation-accepts", 0, []tseq{
			{0, []trule{ru("wrap", 2), ru("accept", 0), x(1)}},
			{1, []trule{ru("jump", 0), x(1)}}}},
		{"wrap-nested", 0, []tseq{{0, []trule{ru("wrap", 2), x(0), ru("wrap", 5), x(4)}}}},
		{"wrap-reject-on-copy-invisible", 0, []tseq{{0, []trule{ru("wrap", 4), ru("reject", 3)}}}},
		{"wrap-reject-on-same-visible", 0, []tseq{{0, []trule{ru("wrap", 1), ru("reject", 3)}}}},
		// a sequence used as a plain action of another one ($s<n>), with failing elements inside
		{"call-ok", 0, []tseq{{0, []trule{x(0)}}, {1, []trule{x(4), ru("call", 0), x(8)}}}},
		{"call-empty", 0, []tseq{{0, nil}, {1, []trule{x(4), ru("call", 0), x(8)}}}},
		{"call-not-matched", 0, []tseq{{0, []trule{x(5)}}, {1, []trule{ru("call", 0, 1), x(8)}}}},
		{"call-accept-ends-callee-only", 0, []tseq{{0, []trule{x(0), ru("accept", 0), x(1)}}, {1, []trule{ru("call", 0), x(4)}}}},
		{"call-return-ends-callee-only", 0, []tseq{{0, []trule{x(0), ru("return", 0), x(1)}}, {1, []trule{ru("call", 0), x(4)}}}},
		{"call-reject-ends-callee-only", 0, []tseq{{0, []trule{ru("reject", 3), x(1)}}, {1, []trule{ru("call", 0), ru("exec", 4, 3)}}}},
		{"call-goto-ends-callee-only", 0, []tseq{
			{0, []trule{x(0)}},
			{1, []trule{ru("goto", 0), x(1)}},
			{2, []trule{ru("call", 1), x(4)}}}},
		{"call-exec-fails", 0, []tseq{{0, []trule{x(0), x(5), x(4)}}, {1, []trule{x(8), ru("call", 0), x(12)}}}},
		{"call-matcher-fails", 0, []tseq{{0, []trule{ru("exec", 0, 2)}}, {1, []trule{ru("call", 0), x(4)}}}},
		{"call-negated-matcher-fails", 0, []tseq{{0, []trule{ru("exec", 0, 0, neg(6))}}, {1, []trule{ru("call", 0), x(4)}}}},
		{"call-fails-last-rule", 0, []tseq{{0, []trule{x(5)}}, {1, []trule{x(0), ru("call", 0)}}}},
		{"call-fails-depth-2", 0, []tseq{
			{0, []trule{x(9)}},
			{1, []trule{x(0), ru("call", 0), x(4)}},
			{2, []trule{ru("call", 1), x(8)}}}},
		{"call-fails-depth-3", 0, []tseq{
			{0, []trule{ru("exec", 0, 10)}},
			{1, []trule{ru("call", 0), x(4)}},
			{2, []trule{ru("call", 1), x(8)}},
			{3, []trule{x(12), ru("call", 2), x(0)}}}},
		{"call-fails-below-jump-in-callee", 0, []tseq{
			{0, []trule{x(13)}},
			{1, []trule{ru("jump", 0), x(4)}},
			{2, []trule{x(8), ru("call", 1), x(12)}}}},
		{"call-fails-with-pending-returns", 0, []tseq{
			{0, []trule{x(5)}},
			{1, []trule{ru("call", 0), x(4)}},
			{2, []trule{ru("jump", 1), x(8)}},
			{3, []trule{ru("jump", 2), x(12)}}}},
		{"call-fails-below-goto", 0, []tseq{
			{0, []trule{x(5)}},
			{1, []trule{ru("call", 0), x(4)}},
			{2, []trule{ru("goto", 1), x(8)}}}},
		{"call-fails-under-wrapper-same", 0, []tseq{
			{0, []trule{x(0), x(5)}},
			{1, []trule{ru("wrap", 2), x(4), ru("call", 0), x(8)}}}},
		{"call-fails-under-wrapper-copy", 0, []tseq{
			{0, []trule{x(0), x(9)}},
			{1, []trule{ru("wrap", 5), x(4), ru("call", 0), x(8)}}}},
		{"call-fails-under-wrapper-concurrent", 0, []tseq{
			{0, []trule{ru("exec", 0, 14)}},
			{1, []trule{ru("wrap", 8), x(4), ru("call", 0), x(8)}}}},
		{"call-fails-under-wrapper-pending", 0, []tseq{
			{0, []trule{x(5)}},
			{1, []trule{ru("wrap", 1), ru("call", 0), x(4)}},
			{2, []trule{ru("jump", 1), x(8)}}}},
		{"call-wrapper-inside-callee-continuation-fails", 0, []tseq{
			{0, []trule{ru("wrap", 1), x(0), x(5), x(4)}},
			{1, []trule{ru("call", 0), x(8)}}}},
		{"call-wrapper-inside-callee-fails-at-end", 0, []tseq{
			{0, []trule{ru("wrap", 10), x(0)}},
			{1, []trule{ru("call", 0), x(8)}}}},
		{"call-wrapper-in-callee-sees-no-caller-rules", 0, []tseq{
			{0, []trule{ru("wrap", 2), x(0)}},
			{1, []trule{ru("call", 0), x(4)}}}},
		{"call-twice-second-fails", 0, []tseq{
			{0, []trule{ru("exec", 5, 3), x(3)}},
			{1, []trule{ru("call", 0), x(4), ru("call", 0), x(8)}}}},
		{"call-self", 0, []tseq{{0, []trule{ru("call", 0)}}}},
		{"call-forward", 0, []tseq{{0, []trule{ru("call", 1)}}, {1, []trule{x(0)}}}},
		{"wrapper-fails-at-end-top", 0, []tseq{{0, []trule{ru("wrap", 11), x(0)}}}},
		// return through exhausted callers: the jump is the last rule of the middle sequence(s)
		{"ret-one-level", 0, []tseq{
			{0, []trule{x(0), ru("return", 0), x(1)}},
			{2, []trule{x(8), ru("jump", 0), x(12)}}}},
		{"ret-two-levels-middle-has-rule-left", 0, []tseq{
			{0, []trule{x(0), ru("return", 0), x(1)}},
			{1, []trule{x(4), ru("jump", 0), x(4)}},
			{2, []trule{x(8), ru("jump", 1), x(12)}}}},
		{"ret-two-levels-tail-jump", 0, []tseq{
			{0, []trule{x(0), ru("return", 0, 100), x(1)}},
			{1, []trule{x(4), ru("jump", 0)}},
			{2, []trule{x(8), ru("jump", 1), x(12)}}}},
		{"ret-two-levels-middle-unmatched-rule-left", 0, []tseq{
			{0, []trule{x(0), ru("return", 0), x(1)}},
			{1, []trule{x(4), ru("jump", 0), ru("exec", 1, 1)}},
			{2, []trule{x(8), ru("jump", 1), x(12)}}}},
		{"ret-inside-wrapper-middle-only-jump", 0, []tseq{
			{0, []trule{ru("return", 0)}},
			{1, []trule{ru("jump", 0)}},
			{2, []trule{ru("wrap", 1), ru("jump", 1), ru("exec", 12, neg(101))}}}},
		{"ret-three-levels-tail-jumps", 0, []tseq{
			{0, []trule{x(0), ru("return", 0), x(1)}},
			{1, []trule{ru("jump", 0)}},
			{2, []trule{x(4), ru("jump", 1)}},
			{3, []trule{x(8), ru("jump", 2), x(12), x(0)}}}},
		{"ret-tail-jump-twice", 0, []tseq{
			{0, []trule{ru("return", 0, neg(1))}},
			{1, []trule{ru("jump", 0)}},
			{2, []trule{ru("jump", 1), x(4), ru("jump", 1), x(8)}}}},
		{"ret-tail-jump-wrapper-twice", 0, []tseq{
			{0, []trule{x(0), ru("return", 0), x(1)}},
			{1, []trule{ru("jump", 0)}},
			{2, []trule{ru("wrap", 5), ru("jump", 1), x(12)}}}},
		{"ret-tail-jump-wrapper-in-inner", 0, []tseq{
			{0, []trule{ru("wrap", 2), x(0), ru("return", 0), x(1)}},
			{1, []trule{x(4), ru("jump", 0)}},
			{2, []trule{ru("jump", 1), x(12)}}}},
		{"ret-tail-goto-middle", 0, []tseq{
			{0, []trule{x(0), ru("return", 0), x(1)}},
			{1, []trule{ru("goto", 0)}},
			{2, []trule{ru("jump", 1)}},
			{3, []trule{x(8), ru("jump", 2), x(1)}}}},
		{"ret-tail-jump-below-goto", 0, []tseq{
			{0, []trule{x(0), ru("return", 0), x(1)}},
			{1, []trule{ru("jump", 0)}},
			{2, []trule{ru("jump", 1), x(4)}},
			{3, []trule{x(8), ru("goto", 2), x(1)}}}},
		{"ret-tail-jump-in-callee", 0, []tseq{
			{0, []trule{x(0), ru("return", 0), x(1)}},
			{1, []trule{ru("jump", 0)}},
			{2, []trule{ru("jump", 1), x(4)}},
			{3, []trule{x(8), ru("call", 2), x(12)}}}},
		{"end-two-levels-tail-jump", 0, []tseq{
			{0, []trule{x(0)}},
			{1, []trule{x(4), ru("jump", 0)}},
			{2, []trule{x(8), ru("jump", 1), x(12)}}}},
		// continuations kept by a wrapper and run after everything has returned
		{"keep-top", 0, []tseq{{0, []trule{x(0), ru("wrap", 18), x(4), x(8)}}}},
		{"keep-last-rule", 0, []tseq{{0, []trule{x(0), ru("wrap", 19)}}}},
		{"keep-in-jumped", 0, []tseq{
			{0, []trule{ru("wrap", 18), x(0)}},
			{1, []trule{ru("jump", 0), x(4)}}}},
		{"keep-in-jumped-twice-copies", 0, []tseq{
			{0, []trule{ru("wrap", 19), x(0)}},
			{1, []trule{ru("jump", 0), x(4)}}}},
		{"keep-in-jumped-once-snapshot", 0, []tseq{
			{0, []trule{ru("wrap", 20), x(0)}},
			{1, []trule{ru("jump", 0), ru("exec", 7, neg(3)), ru("exec", 4, 3)}}}},
		{"keep-in-jumped-twice-snapshot", 0, []tseq{
			{0, []trule{ru("wrap", 21), x(0)}},
			{1, []trule{ru("jump", 0), ru("exec", 7, neg(3)), ru("exec", 4, 3)}}}},
		{"keep-two-jumps-deep", 0, []tseq{
			{0, []trule{x(0), ru("wrap", 19), x(4)}},
			{1, []trule{ru("jump", 0), x(8)}},
			{2, []trule{x(12), ru("jump", 1), x(0), x(4)}}}},
		{"keep-tail-jumps-return", 0, []tseq{
			{0, []trule{ru("wrap", 19), x(0), ru("return", 0), x(1)}},
			{1, []trule{ru("jump", 0)}},
			{2, []trule{ru("jump", 1), x(12)}}}},
		{"keep-in-each-level", 0, []tseq{
			{0, []trule{ru("wrap", 18), x(0)}},
			{1, []trule{ru("wrap", 20), ru("jump", 0), x(4)}},
			{2, []trule{ru("jump", 1), x(8)}}}},
		{"keep-continuation-fails", 0, []tseq{
			{0, []trule{ru("wrap", 19), x(0)}},
			{1, []trule{ru("jump", 0), x(5), x(4)}}}},
		{"keep-continuation-rejects", 0, []tseq{
			{0, []trule{ru("wrap", 21), ru("exec", 0, 3)}},
			{1, []trule{ru("jump", 0), ru("reject", 2), x(1)}}}},
		{"keep-below-goto", 0, []tseq{
			{0, []trule{ru("wrap", 18), x(0)}},
			{1, []trule{ru("goto", 0), x(1)}},
			{2, []trule{ru("jump", 1), x(1)}}}},
		{"keep-in-callee", 0, []tseq{
			{0, []trule{ru("wrap", 19), x(0)}},
			{1, []trule{ru("jump", 0), x(4)}},
			{2, []trule{ru("call", 1), x(8)}}}},
		{"keep-inside-copy-wrapper", 0, []tseq{
			{0, []trule{ru("wrap", 18), x(0)}},
			{1, []trule{ru("wrap", 5), ru("jump", 0), x(4)}}}},
		{"keep-inside-concurrent-wrapper", 0, []tseq{
			{0, []trule{ru("wrap", 20), x(0)}},
			{1, []trule{ru("wrap", 8), ru("jump", 0), x(4)}}}},
		{"keep-jumped-twice", 0, []tseq{
			{0, []trule{ru("wrap", 18), x(0)}},
			{1, []trule{ru("jump", 0), x(4), ru("jump", 0), x(8)}}}},
		{"keep-not-matched", 0, []tseq{{0, []trule{ru("wrap", 19, 1), x(0)}}}},
		// building
		{"self-jump", 0, []tseq{{0, []trule{ru("jump", 0)}}}},
		{"self-goto", 0, []tseq{{0, []trule{x(0), ru("goto", 0)}}}},
		{"forward-jump", 0, []tseq{{0, []trule{ru("jump", 1)}}, {1, []trule{x(0)}}}},
		{"second-fails", 0, []tseq{{0, []trule{x(0)}}, {1, []trule{ru("jump", 0), ru("goto", 2)}}, {2, nil}}},
		{"unknown-exec", 0, []tseq{{0, []trule{x(16)}}}},
		{"unknown-wrap", 0, []tseq{{0, []trule{ru("wrap", 22)}}}},
		{"unknown-matcher", 0, []tseq{{0, []trule{ru("exec", 0, 0, 16)}}}},
		{"unknown-matcher-negated", 0, []tseq{{0, []trule{ru("exec", 0, neg(102))}}}},
		{"shadow-latest", 0, []tseq{
			{0, []trule{x(0)}},
			{0, []trule{x(4)}},
			{1, []trule{ru("jump", 0), x(8)}}}},
		{"shadow-captured", 0, []tseq{
			{0, []trule{x(0)}},
			{1, []trule{ru("jump", 0), x(8)}},
			{0, []trule{x(4)}},
			{2, []trule{ru("jump", 1), ru("jump", 0)}}}},
		{"redefine-self-reference", 0, []tseq{
			{0, []trule{x(0)}},
			{0, []trule{ru("jump", 0), x(4)}}}},
	}
}

// ---------- supervisor / worker ----------
//
// The cases are produced by a worker process (this binary with C06_WORKER=1)
// that prints them to its stdout; the supervisor copies them to the output. If
// the worker dies in the middle of a case (a fatal stack overflow cannot be
// recovered inside the process), the supervisor reports that case as observed
// "crash" (error 9999, which no model predicts) and starts a new worker behind it.

type emitter interface {
	Begin(kind string, c hx.Case)
	Emit(kind string, c hx.Case)
	Tally(kind string, n int)
}

type wireLine struct {
	Op   string  `json:"op"` // begin | case | tally
	Kind string  `json:"kind"`
	Idx  int     `json:"idx,omitempty"`
	N    int     `json:"n,omitempty"`
	Case hx.Case `json:"case"`
}

type workerOut struct{ enc *json.Encoder }

func (w workerOut) Begin(kind string, c hx.Case) {
	w.enc.Encode(wireLine{Op: "begin", Kind: kind, Idx: caseIdx - 1, Case: c})
}
func (w workerOut) Emit(kind string, c hx.Case) {
	w.enc.Encode(wireLine{Op: "case", Kind: kind, Case: c})
}
func (w workerOut) Tally(kind string, n int) { w.enc.Encode(wireLine{Op: "tally", Kind: kind, N: n}) }

// caseIdx numbers all cases of a run; a restarted worker skips the ones before skipBefore.
var caseIdx, skipBefore int

func want(o *hx.Opts, id string) bool {
	i := caseIdx
	caseIdx++
	return i >= skipBefore && o.Want(id)
}

func supervise(o *hx.Opts) {
	w := hx.NewWriter(o)
	defer w.Close()
	skip := 0
	for restarts := 0; restarts < 200; restarts++ {
		args := []string{"-seed", strconv.FormatUint(o.Seed, 10), "-tier", o.Tier}
		if o.Only != "" {
			args = append(args, "-only", o.Only)
		}
		if o.N > 0 {
			args = append(args, "-n", strconv.Itoa(o.N))
		}
		cmd := exec.Command(os.Args[0], args...)
		cmd.Env = append(os.Environ(), "C06_WORKER=1", "C06_SKIP="+strconv.Itoa(skip))
		out, err := cmd.StdoutPipe()
		if err != nil || cmd.Start() != nil {
			fmt.Fprintln(os.Stderr, "c06: cannot start the worker process")
			os.Exit(2)
		}
		var pending *wireLine
		sc := bufio.NewScanner(out)
		sc.Buffer(make([]byte, 1<<20), 1<<26)
		for sc.Scan() {
			var l wireLine
			if json.Unmarshal(sc.Bytes(), &l) != nil {
				continue
			}
			switch l.Op {
			case "begin":
				l := l
				pending = &l
			case "case":
				pending = nil
				w.Emit(l.Kind, l.Case)
			case "tally":
				pending = nil
				w.Tally(l.Kind, l.N)
			}
		}
		if cmd.Wait() == nil {
			return
		}
		if pending == nil {
			fmt.Fprintln(os.Stderr, "c06: the worker process failed outside a case")
			os.Exit(2)
		}
		w.Emit(pending.Kind, pending.Case)
		w.Tally("worker-crashes", 1)
		skip = pending.Idx + 1
	}
}

func main() {
	o := hx.ParseFlags()
	if os.Getenv("C06_WORKER") == "" {
		supervise(o)
		return
	}
	skipBefore, _ = strconv.Atoi(os.Getenv("C06_SKIP"))
	w := workerOut{json.NewEncoder(os.Stdout)}

	for _, c := range catalogue() {
		// every catalogue program in three seeded renderings (same literal, different rule text)
		for v := 0; v < 3; v++ {
			id := fmt.Sprintf("cat:%s:%d", c.name, v)
			if !want(o, id) {
				continue
			}
			r := hx.NewRNG(o.Seed, id)
			// rendering 0: plain errors, 1: errors of the context.Canceled family, 2: drawn
			runProg(w, id, "catalogue", c.ss, c.init, r, []int{0, 1, -1}[v])
		}
	}
	for i, s := range []string{
		"", " ", "!", "$", "! $", "$a", "!$a", "! $a", " !  $a  b ", "a", "!a", "a b", "a  b  c ", "$a b",
		"$ a", "! a b", "!!a", "$$a", "a\tb c", "$\ta b", "\t!\t$a\tb", "a \t", "jump  s1", " reject 3 ", "_true", "!_false",
	} {
		for mi, isMatch := range []bool{true, false} {
			id := fmt.Sprintf("cat:parse:%d:%d", i, mi)
			if want(o, id) {
				runParse(w, id, s, isMatch)
			}
		}
	}

	n := o.Count(1500, 40000)
	for i := 0; i < n; i++ {
		id := fmt.Sprintf("gen:%d", i)
		if !want(o, id) {
			continue
		}
		r := hx.NewRNG(o.Seed, id)
		var ss []tseq
		kind := "program"
		if i%4 == 3 {
			ss = genChain(r)
			kind = "chain"
		} else {
			ss = genProg(r)
		}
		if kind == "program" && r.Chance(1, 12) {
			ss = breakProg(r, ss)
			kind = "malformed"
		}
		init := 0
		if r.Chance(1, 6) {
			init = 1 + r.Intn(6)
		}
		runProg(w, id, kind, ss, init, r, -1)
	}
	np := o.Count(150, 5000)
	for i := 0; i < np; i++ {
		id := fmt.Sprintf("parse:%d", i)
		if !want(o, id) {
			continue
		}
		r := hx.NewRNG(o.Seed, id)
		runParse(w, id, genParseText(r), r.Bool())
	}
}
