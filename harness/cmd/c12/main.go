// Driver for C12 (domain rules match exactly the names they describe). Runs the
// real matchers, loaders and plugin constructors of /repo on generated rule sets
// and names and prints what they did as Judge.C12.case literals.
package main

import (
	"context"
	"fmt"
	"io"
	"os"
	"path/filepath"
	"regexp"
	"strconv"
	"strings"

	"github.com/IrineSistiana/mosdns/v5/coremain"
	"github.com/IrineSistiana/mosdns/v5/pkg/matcher/domain"
	"github.com/IrineSistiana/mosdns/v5/pkg/query_context"
	"github.com/IrineSistiana/mosdns/v5/plugin/data_provider/domain_set"
	hostsplugin "github.com/IrineSistiana/mosdns/v5/plugin/executable/hosts"
	"github.com/IrineSistiana/mosdns/v5/plugin/executable/redirect"
	"github.com/IrineSistiana/mosdns/v5/plugin/executable/sequence"
	"github.com/IrineSistiana/mosdns/v5/plugin/matcher/qname"
	"github.com/miekg/dns"

	"verifharness/hx"
)

// ---------- the regexp menu (same table as Judge.C12.re_menu) ----------

type menuEntry struct {
	expr  string
	valid bool
}

var menu = []menuEntry{
	{`^a\.`, true}, {`b$`, true}, {`a.b`, true}, {`\.a\.`, true}, {`A`, true}, {`^ab`, true},
	{`b\.a$`, true}, {`(`, false}, {`[a`, false}, {`.`, true}, {`a:?\.`, true}, {`^a.`, true}, {`^b$`, true},
	{`^[a-z.]+$`, true}, // 13: only lower-case letters and dots: notices a name that was not lower-cased
	{`^\D`, true},       // 14: an upper-case escape: the expression itself must not be lower-cased (^\d is the opposite)
}

// caseSensitiveRe: menu entries whose meaning changes when the expression is lower-cased
var caseSensitiveRe = []string{`A`, `^\D`}

var menuRe []*regexp.Regexp

func initMenu() {
	for _, e := range menu {
		re, err := regexp.Compile(e.expr)
		if (err == nil) != e.valid {
			fmt.Fprintf(os.Stderr, "c12: regexp menu entry %q: validity differs from the table\n", e.expr)
			os.Exit(2)
		}
		menuRe = append(menuRe, re)
	}
}

// the driver's own normalisation (not the code's)
func norm(s string) string {
	if strings.HasSuffix(s, ".") {
		s = s[:len(s)-1]
	}
	b := []byte(s)
	for i, c := range b {
		if c >= 'A' && c <= 'Z' {
			b[i] = c + 32
		}
	}
	return string(b)
}

func maskOf(name string) uint64 {
	n := norm(name)
	var m uint64
	for i, re := range menuRe {
		if re != nil && re.MatchString(n) {
			m |= 1 << uint(i)
		}
	}
	return m
}

// ---------- literals ----------

type rule struct {
	s string // as handed to Add / written on a line (type prefix included)
	v []int
}

type irule struct {
	kind int
	pat  string
	v    []int
}

type obs struct {
	ok bool
	v  []int
}

func vv(v []int) string { return hx.NList(v) }

func rulesLit(rs []rule) string {
	it := make([]string, len(rs))
	for i, r := range rs {
		it[i] = hx.Tuple(hx.Str(r.s), vv(r.v))
	}
	return hx.List(it)
}

func irulesLit(rs []irule) string {
	it := make([]string, len(rs))
	for i, r := range rs {
		it[i] = hx.Tuple(hx.Ni(r.kind), hx.Str(r.pat), vv(r.v))
	}
	return hx.List(it)
}

func strsLit(ss []string) string {
	it := make([]string, len(ss))
	for i, s := range ss {
		it[i] = hx.Str(s)
	}
	return hx.List(it)
}

func queriesLit(names []string, os_ []obs) string {
	it := make([]string, len(names))
	for i, n := range names {
		it[i] = hx.App("Q", hx.Str(n), hx.N(maskOf(n)), hx.Opt(os_[i].ok, vv(os_[i].v)))
	}
	return hx.List(it)
}

var panicObs = obs{ok: true, v: []int{999}}

// ---------- running the real code ----------

func errClass(err error) int {
	switch {
	case err == nil:
		return 0
	case err == domain.ErrNodefaultMatcher:
		return 1
	case strings.HasPrefix(err.Error(), "unsupported match type"):
		return 2
	}
	return 3 // regexp.Compile
}

func matchAll(m domain.Matcher[[]int], names []string) []obs {
	out := make([]obs, len(names))
	for i, n := range names {
		n := n
		i := i
		if p := hx.Recover(func() {
			v, ok := m.Match(n)
			out[i] = obs{ok: ok, v: v}
			if !ok {
				out[i].v = nil
			}
		}); p != nil {
			out[i] = panicObs
		}
	}
	return out
}

func runMix(w *hx.Writer, id string, dflt string, rules []rule, names []string) {
	m := domain.NewMixMatcher[[]int]()
	if dflt != "" {
		m.SetDefaultMatcher(dflt)
	}
	errs := make([]int, len(rules))
	for i, r := range rules {
		r := r
		i := i
		if p := hx.Recover(func() { errs[i] = errClass(m.Add(r.s, r.v)) }); p != nil {
			errs[i] = 99
		}
	}
	os_ := matchAll(m, names)
	w.Emit("mix", hx.Case{
		ID:   id,
		Coq:  hx.App("CMix", hx.Str(dflt), rulesLit(rules), hx.NList(errs), queriesLit(names, os_)),
		Desc: map[string]any{"kind": "mix", "default": dflt, "rules": ruleStrings(rules), "names": names},
		FKey: "mix",
	})
}

func ruleStrings(rs []rule) []string {
	out := make([]string, len(rs))
	for i, r := range rs {
		out[i] = fmt.Sprintf("%s=%v", r.s, r.v)
	}
	return out
}

func runSingle(w *hx.Writer, id string, kind int, rules []rule, names []string) {
	var m domain.WriteableMatcher[[]int]
	switch kind {
	case 1:
		m = domain.NewFullMatcher[[]int]()
	case 2:
		m = domain.NewSubDomainMatcher[[]int]()
	case 3:
		m = domain.NewRegexMatcher[[]int]()
	default:
		m = domain.NewKeywordMatcher[[]int]()
	}
	errs := make([]int, len(rules))
	for i, r := range rules {
		r := r
		i := i
		if p := hx.Recover(func() {
			if m.Add(r.s, r.v) != nil {
				errs[i] = 3
			}
		}); p != nil {
			errs[i] = 99
		}
	}
	os_ := matchAll(m, names)
	w.Emit("single", hx.Case{
		ID:   id,
		Coq:  hx.App("CSingle", hx.Ni(kind), rulesLit(rules), hx.NList(errs), queriesLit(names, os_)),
		Desc: map[string]any{"kind": "single", "matcher": kind, "rules": ruleStrings(rules), "names": names},
		FKey: "single",
	})
}

// ---------- loaders and plugin constructors ----------

var workDir string

func writeFile(id, text string) string {
	p := filepath.Join(workDir, strings.NewReplacer(":", "_", "/", "_").Replace(id)+".txt")
	if err := os.WriteFile(p, []byte(text), 0o644); err != nil {
		fmt.Fprintln(os.Stderr, "c12:", err)
		os.Exit(2)
	}
	return p
}

type nameRecorder struct{ seen string }

func (r *nameRecorder) Exec(_ context.Context, qCtx *query_context.Context) error {
	r.seen = qCtx.Q().Question[0].Name
	return nil
}

func lastNumber(s string) int {
	s = strings.TrimSuffix(s, ".")
	i := len(s)
	for i > 0 && s[i-1] >= '0' && s[i-1] <= '9' {
		i--
	}
	n, _ := strconv.Atoi(s[i:])
	return n
}

func question(name string) *dns.Msg {
	q := new(dns.Msg)
	q.Id = 1
	q.RecursionDesired = true
	q.Question = []dns.Question{{Name: name, Qtype: dns.TypeA, Qclass: dns.ClassINET}}
	return q
}

// runLoad: which = 0 raw Load/LoadFromTextReader, 1 domain_set, 2 hosts, 3 redirect, 4 qname matcher (base_domain).
func runLoad(w *hx.Writer, id string, which int, dflt string, entries []string, text string, intended []irule, names []string) {
	failed, qn, os_ := doLoad(id, which, dflt, entries, text, -1, names)
	w.Emit("load", hx.Case{
		ID: id,
		Coq: hx.App("CLoad", hx.Ni(which), hx.Str(dflt), strsLit(entries), hx.Str(text), hx.Bool(failed),
			irulesLit(intended), queriesLit(qn, os_)),
		Desc: map[string]any{"kind": "load", "which": which, "default": dflt, "entries": entries, "text": text, "names": names, "failed": failed},
		FKey: "load",
	})
}

// a rule text with long runs: literal pieces and n copies of one byte (Judge.C12.tseg)
type tseg struct {
	lit string
	b   byte
	n   int
}

func expandSegs(segs []tseg) string {
	var sb strings.Builder
	for _, g := range segs {
		if g.n > 0 {
			sb.WriteString(strings.Repeat(string(g.b), g.n))
		} else {
			sb.WriteString(g.lit)
		}
	}
	return sb.String()
}

// runLoadX: like runLoad on a text with over-long lines; cut >= 0 (which = 0 only): the text is
// read through a reader that delivers its first cut bytes and then fails. intended = ALL rules
// of the entries and of the whole text.
func runLoadX(w *hx.Writer, id string, which int, dflt string, entries []string, segs []tseg, cut int, intended []irule, names []string) {
	text := expandSegs(segs)
	failed, qn, os_ := doLoad(id, which, dflt, entries, text, cut, names)
	sl := make([]string, len(segs))
	var sdesc []string
	for i, g := range segs {
		if g.n > 0 {
			sl[i] = hx.App("TRep", hx.Ni(int(g.b)), hx.Ni(g.n))
			sdesc = append(sdesc, fmt.Sprintf("%q x %d", string(g.b), g.n))
		} else {
			sl[i] = hx.App("TLit", hx.Str(g.lit))
			sdesc = append(sdesc, fmt.Sprintf("%q", g.lit))
		}
	}
	cutLit := "None"
	if cut >= 0 {
		cutLit = hx.Some(hx.Ni(cut))
	}
	w.Emit("loadx", hx.Case{
		ID: id,
		Coq: hx.App("CLoadX", hx.Ni(which), hx.Str(dflt), strsLit(entries), hx.List(sl), cutLit, hx.Bool(failed),
			irulesLit(intended), queriesLit(qn, os_)),
		Desc: map[string]any{"kind": "loadx", "which": which, "default": dflt, "entries": entries, "text": sdesc, "text_len": len(text),
			"reader_fails_after": cut, "names": names, "failed": failed},
		FKey: "loadx",
	})
}

var errReadFault = fmt.Errorf("injected read fault")

// faultReader delivers the first bytes of s and then fails.
type faultReader struct {
	s    string
	pos  int
	upTo int
}

func (f *faultReader) Read(p []byte) (int, error) {
	if f.pos >= f.upTo {
		return 0, errReadFault
	}
	n := copy(p, f.s[f.pos:f.upTo])
	f.pos += n
	return n, nil
}

func doLoad(id string, which int, dflt string, entries []string, text string, cut int, names []string) (bool, []string, []obs) {
	failed := false
	var os_ []obs
	p := hx.Recover(func() {
		switch which {
		case 0:
			m := domain.NewMixMatcher[struct{}]()
			if dflt != "" {
				m.SetDefaultMatcher(dflt)
			}
			for _, e := range entries {
				if err := domain.Load[struct{}](m, e, nil); err != nil {
					failed = true
					break
				}
			}
			if !failed {
				var rd io.Reader = strings.NewReader(text)
				if cut >= 0 {
					rd = &faultReader{s: text, upTo: cut}
				}
				if err := domain.LoadFromTextReader[struct{}](m, rd, nil); err != nil {
					failed = true
				}
			}
			for _, n := range names {
				_, ok := m.Match(n)
				o := obs{ok: ok}
				if ok {
					o.v = []int{}
				}
				os_ = append(os_, o)
			}
		case 1:
			ds, err := domain_set.NewDomainSet(nil, &domain_set.Args{Exps: entries, Files: []string{writeFile(id, text)}})
			if err != nil {
				failed = true
				return
			}
			dm := ds.GetDomainMatcher()
			for _, n := range names {
				_, ok := dm.Match(n)
				o := obs{ok: ok}
				if ok {
					o.v = []int{}
				}
				os_ = append(os_, o)
			}
		case 4:
			// the qname matcher of sequences: quick setup string "exp exp ... &file"
			arg := strings.Join(append(append([]string{}, entries...), "&"+writeFile(id, text)), " ")
			qm, err := qname.QuickSetup(nil, arg)
			if err != nil {
				failed = true
				return
			}
			for _, n := range names {
				ok, err := qm.Match(context.Background(), query_context.NewContext(question(n)))
				if err != nil {
					os_ = append(os_, panicObs)
					continue
				}
				o := obs{ok: ok}
				if ok {
					o.v = []int{}
				}
				os_ = append(os_, o)
			}
		case 2:
			h, err := hostsplugin.NewHosts(&hostsplugin.Args{Entries: entries, Files: []string{writeFile(id, text)}})
			if err != nil {
				failed = true
				return
			}
			for _, n := range names {
				r := h.Response(question(n))
				o := obs{}
				if r != nil {
					o.ok = true
					o.v = []int{}
					for _, rr := range r.Answer {
						if a, ok := rr.(*dns.A); ok {
							o.v = append(o.v, int(a.A.To4()[3]))
						}
					}
				}
				os_ = append(os_, o)
			}
		default:
			rd, err := redirect.NewRedirect(&redirect.Args{Rules: entries, Files: []string{writeFile(id, text)}})
			if err != nil {
				failed = true
				return
			}
			for _, n := range names {
				rec := &nameRecorder{}
				chain := []*sequence.ChainNode{{E: rec}}
				qCtx := query_context.NewContext(question(n))
				if err := rd.Exec(context.Background(), qCtx, sequence.NewChainWalker(chain, nil)); err != nil {
					os_ = append(os_, panicObs)
					continue
				}
				o := obs{}
				if rec.seen != n {
					o.ok = true
					o.v = []int{lastNumber(rec.seen)}
				}
				if qCtx.Q().Question[0].Name != n { // the query name must be restored
					o = panicObs
				}
				os_ = append(os_, o)
			}
		}
	})
	if p != nil {
		failed = false
		os_ = nil
		for range names {
			os_ = append(os_, panicObs)
		}
	}
	qn := names
	if failed && which != 0 {
		qn, os_ = nil, nil
	}
	return failed, qn, os_
}

// ---------- domain sets assembled from members ----------

type setDef struct {
	exps []string
	text string
	refs []int // indices of earlier sets
}

// reachableRules: the rules of the sets reachable from top, each set once, members in
// the order the provider walks them (the driver's own reading of "the rules of the set").
func reachableRules(sets []setDef, meaning [][]irule, top int) []irule {
	seen := map[int]bool{}
	var out []irule
	var walk func(i int)
	walk = func(i int) {
		if seen[i] {
			return
		}
		seen[i] = true
		out = append(out, meaning[i]...)
		for _, j := range sets[i].refs {
			walk(j)
		}
	}
	walk(top)
	return out
}

// runCompose: via = 0 GetDomainMatcher().Match on the set, 1 a qname matcher "$top",
// 2 a qname matcher with its own expressions followed by "$top".
func runCompose(w *hx.Writer, id string, sets []setDef, meaning [][]irule, top, via int, extra []string, extraMeaning []irule, names []string) {
	failed := false
	var os_ []obs
	p := hx.Recover(func() {
		plugins := make(map[string]any)
		mosdns := coremain.NewTestMosdnsWithPlugins(plugins)
		var built []*domain_set.DomainSet
		for i, d := range sets {
			tag := fmt.Sprintf("set%d", i)
			args := &domain_set.Args{Exps: d.exps, Files: []string{writeFile(fmt.Sprintf("%s_%d", id, i), d.text)}}
			for _, j := range d.refs {
				args.Sets = append(args.Sets, fmt.Sprintf("set%d", j))
			}
			ds, err := domain_set.NewDomainSet(coremain.NewBP(tag, mosdns), args)
			if err != nil {
				failed = true
				return
			}
			plugins[tag] = ds
			built = append(built, ds)
		}
		var match func(n string) (bool, error)
		if via == 0 {
			dm := built[top].GetDomainMatcher()
			match = func(n string) (bool, error) { _, ok := dm.Match(n); return ok, nil }
		} else {
			arg := fmt.Sprintf("$set%d", top)
			if via == 2 {
				arg = strings.Join(append(append([]string{}, extra...), arg), " ")
			}
			qm, err := qname.QuickSetup(sequence.NewBQ(mosdns, mosdns.Logger()), arg)
			if err != nil {
				failed = true
				return
			}
			match = func(n string) (bool, error) {
				return qm.Match(context.Background(), query_context.NewContext(question(n)))
			}
		}
		for _, n := range names {
			ok, err := match(n)
			if err != nil {
				os_ = append(os_, panicObs)
				continue
			}
			o := obs{ok: ok}
			if ok {
				o.v = []int{}
			}
			os_ = append(os_, o)
		}
	})
	if p != nil {
		failed = false
		os_ = nil
		for range names {
			os_ = append(os_, panicObs)
		}
	}
	qn := names
	if failed {
		qn, os_ = nil, nil
	}
	sl := make([]string, len(sets))
	var sdesc []string
	for i, d := range sets {
		sl[i] = hx.Tuple(strsLit(d.exps), hx.Str(d.text), hx.NList(d.refs))
		sdesc = append(sdesc, fmt.Sprintf("set%d exps=%q file=%q sets=%v", i, d.exps, d.text, d.refs))
	}
	intended := reachableRules(sets, meaning, top)
	if via == 2 {
		intended = append(intended, extraMeaning...)
	} else {
		extra = nil
	}
	w.Emit("compose", hx.Case{
		ID: id,
		Coq: hx.App("CCompose", hx.List(sl), hx.Ni(top), hx.Ni(via), strsLit(extra), hx.Bool(failed),
			irulesLit(intended), queriesLit(qn, os_)),
		Desc: map[string]any{"kind": "compose", "sets": sdesc, "top": top, "via": via, "extra": extra, "names": names, "failed": failed},
		FKey: "compose",
	})
}

// genCompose: 2..6 sets, each with its own rules of random types and references to earlier
// sets (so references nest), consumed through the last one; one name per reachable member
// derived from that member's rules, plus unrelated names.
func genCompose(w *hx.Writer, id string, r *hx.RNG, maxDepth int) {
	n := r.Range(2, 6)
	distinct := r.Bool() // every member's patterns carry a label of its own
	sets := make([]setDef, n)
	meaning := make([][]irule, n)
	for i := 0; i < n; i++ {
		onlyKind := 0
		if r.Chance(1, 2) {
			onlyKind = r.Range(1, 4)
		}
		k := r.Range(1, 3)
		if i > 0 && r.Chance(1, 5) {
			k = 0 // no rules of its own, only references
		}
		var lines []string
		for j := 0; j < k; j++ {
			s := genRule(r, "domain", onlyKind, 3, false)
			if s == "" || strings.ContainsAny(s, " \t#") {
				continue
			}
			if distinct {
				if m := meaningOf("domain", s, []int{}); m != nil && m.kind != 3 {
					s = strings.TrimSuffix(s, ".")
					if m.kind == 4 {
						s += "q" + strconv.Itoa(i)
					} else {
						s += ".q" + strconv.Itoa(i)
					}
				}
			}
			m := meaningOf("domain", s, []int{})
			if m == nil {
				continue
			}
			meaning[i] = append(meaning[i], *m)
			if r.Bool() {
				sets[i].exps = append(sets[i].exps, s)
			} else {
				lines = append(lines, decorate(r, s))
			}
		}
		// exps are loaded before the file: keep the generator's order of meaning irrelevant (sets are unions)
		sets[i].text = strings.Join(lines, "\n")
		if i > 0 {
			nr := r.Intn(4) // 0..3 references
			if k == 0 && nr == 0 {
				nr = 1
			}
			for _, j := range r.Perm(i) {
				if len(sets[i].refs) < nr {
					sets[i].refs = append(sets[i].refs, j)
				}
			}
		}
	}
	// the top set references at least one other set
	top := n - 1
	if len(sets[top].refs) == 0 {
		sets[top].refs = []int{r.Intn(top)}
	}
	via := r.Intn(3)
	var extra []string
	var extraMeaning []irule
	if via == 2 {
		for j := r.Range(0, 2); j > 0; j-- {
			s := genRule(r, "domain", 0, 3, false)
			if s == "" || strings.ContainsAny(s, " \t#$&") {
				continue
			}
			if m := meaningOf("domain", s, []int{}); m != nil {
				extra = append(extra, s)
				extraMeaning = append(extraMeaning, *m)
			}
		}
	}
	// one name per reachable member, derived from its rules
	var names []string
	seen := map[int]bool{}
	var walk func(i int)
	walk = func(i int) {
		if seen[i] {
			return
		}
		seen[i] = true
		if len(meaning[i]) > 0 {
			names = append(names, genNames(r, meaning[i], 1, maxDepth, false)...)
			if len(names) < 8 && r.Chance(1, 3) {
				names = append(names, genNames(r, meaning[i], 1, maxDepth, false)...)
			}
		}
		for _, j := range sets[i].refs {
			walk(j)
		}
	}
	walk(top)
	names = append(names, genNames(r, nil, 1, maxDepth, false)...)
	if len(names) > 9 {
		names = names[:9]
	}
	runCompose(w, id, sets, meaning, top, via, extra, extraMeaning, names)
}

// ---------- rule texts the scanner cannot finish ----------

const maxToken = 64 * 1024 // bufio.MaxScanTokenSize

// longLine builds one line (without its end of line) of exactly total bytes around an
// optional rule text: variant 0 "#xxxx...", 1 rule + " #xxxx...", 2 "      ...rule", 3 rule + "   ...".
func longLine(variant int, ruleText string, total int) []tseg {
	switch variant {
	case 0:
		return []tseg{{lit: "#"}, {b: 'x', n: total - 1}}
	case 1:
		return []tseg{{lit: ruleText + " #"}, {b: 'c', n: total - len(ruleText) - 2}}
	case 2:
		return []tseg{{b: ' ', n: total - len(ruleText)}, {lit: ruleText}}
	}
	return []tseg{{lit: ruleText}, {b: '\t', n: total - len(ruleText)}}
}

// buildLoadX writes the rules of rs as entries / lines before / the long line / lines after.
// It returns false when the rule set is not usable (too few plain rules).
func buildLoadX(r *hx.RNG, which int, dflt string, rs ruleSet, variant, total int, noFinalEOL bool) (entries []string, segs []tseg, intended []irule, ok bool) {
	type item struct {
		text string
		m    irule
	}
	var items []item
	for _, ru := range rs.rules {
		if ru.s == "" || strings.ContainsAny(ru.s, " \t#") {
			continue
		}
		v := []int{}
		text := ru.s
		switch which {
		case 2:
			v = []int{ru.v[0]}
			text += " 10.0.0." + strconv.Itoa(v[0])
		case 3:
			v = []int{ru.v[0]}
			text += "\tv" + strconv.Itoa(v[0])
		}
		m := meaningOf(dflt, ru.s, v)
		if m == nil {
			continue
		}
		items = append(items, item{text, *m})
	}
	if len(items) < 2 {
		return nil, nil, nil, false
	}
	// the last item always comes after the long line; one item may sit on the long line
	onLine := -1
	if variant != 0 {
		onLine = r.Intn(len(items) - 1)
	}
	nEntries := 0
	if r.Chance(1, 3) && len(items) > 2 && onLine != 0 {
		nEntries = 1
	}
	split := r.Range(nEntries, len(items)-1) // items[split:] come after the long line
	if onLine >= 0 && onLine < nEntries {
		onLine = nEntries
	}
	if onLine >= 0 {
		split = onLine + 1
	}
	var lit strings.Builder
	flush := func() {
		if lit.Len() > 0 {
			segs = append(segs, tseg{lit: lit.String()})
			lit.Reset()
		}
	}
	eol := "\n"
	if r.Chance(1, 4) {
		eol = "\r\n"
	}
	for i, it := range items {
		intended = append(intended, it.m)
		if i < nEntries {
			entries = append(entries, it.text)
			continue
		}
		if i == split && onLine < 0 { // the long line stands alone, before item i
			flush()
			segs = append(segs, longLine(0, "", total-len(eol)+1)...)
			lit.WriteString(eol)
		}
		if i == onLine {
			flush()
			segs = append(segs, longLine(variant, it.text, total-len(eol)+1)...)
			lit.WriteString(eol)
			continue
		}
		lit.WriteString(decorate(r, it.text))
		if i < len(items)-1 || !noFinalEOL {
			lit.WriteString(eol)
		}
	}
	flush()
	return entries, segs, intended, true
}

func loaderDefault(r *hx.RNG, which int) string {
	switch which {
	case 0:
		return hx.Pick(r, []string{"domain", "domain", "full", "keyword"})
	case 1, 4:
		return "domain"
	}
	return "full"
}

// genLoadX: a text with a line around the scanner's limit followed by more rules, through every
// loader; or (raw loader only) an ordinary text read through a reader that fails part-way.
func genLoadX(w *hx.Writer, id string, r *hx.RNG, maxDepth int) {
	which := hx.Pick(r, []int{0, 0, 1, 2, 3, 4})
	dflt := loaderDefault(r, which)
	rs := genRuleSet(r, dflt, 0, 5, maxDepth, false)
	if which == 0 && r.Chance(1, 3) {
		// read fault after k bytes
		entries, segs, intended, ok := buildLoadX(r, which, dflt, rs, 0, 3, r.Bool())
		if !ok {
			return
		}
		text := expandSegs(segs)
		hasRe := false
		for _, m := range intended {
			if m.kind == 3 {
				hasRe = true
			}
		}
		cut := r.Intn(len(text) + 1)
		if hasRe || r.Bool() { // at a line boundary (a cut regexp would not be on the menu)
			var bounds []int
			for i := 0; i < len(text); i++ {
				if text[i] == '\n' {
					bounds = append(bounds, i+1)
				}
			}
			bounds = append(bounds, 0)
			if !hasRe || strings.HasSuffix(text, "\n") {
				bounds = append(bounds, len(text))
			}
			cut = hx.Pick(r, bounds)
		}
		runLoadX(w, id, which, dflt, entries, segs, cut, intended, genNames(r, intended, r.Range(2, 4), maxDepth, false))
		return
	}
	total := hx.Pick(r, []int{maxToken - 1, maxToken - 1, maxToken, maxToken, maxToken + 1, maxToken + 1 + r.Intn(5000), 2*maxToken + r.Intn(100), maxToken - 2 - r.Intn(50)})
	entries, segs, intended, ok := buildLoadX(r, which, dflt, rs, r.Intn(4), total, r.Chance(1, 3))
	if !ok {
		return
	}
	names := genNames(r, intended[len(intended)-1:], 2, maxDepth, false) // names of the rule after the long line
	names = append(names, genNames(r, intended, r.Range(1, 2), maxDepth, false)...)
	if which >= 2 {
		for i := range names {
			if !strings.HasSuffix(names[i], ".") && r.Chance(2, 3) {
				names[i] += "."
			}
		}
	}
	runLoadX(w, id, which, dflt, entries, segs, -1, intended, names)
}

// ---------- generators ----------

var alphabet = []string{"a", "b", "ab"}
var typeNames = []string{"", "full", "domain", "regexp", "keyword"}

// edgeLabels: letters at the ends of the ranges a case test could get wrong, and
// the bytes next to those ranges ('@' 'A'..'Z' '[' and '`' 'a'..'z' '{').
var edgeLabels = []string{"z", "zz", "az", "za", "zb", "m", "y", "a@", "a`", "a[", "a{", "z@", "z[", "@", "`"}

// mixCase flips the case of letters independently of each other; most often a single letter.
func mixCase(r *hx.RNG, s string) string {
	var idx []int
	for i := 0; i < len(s); i++ {
		if s[i] >= 'a' && s[i] <= 'z' {
			idx = append(idx, i)
		}
	}
	if len(idx) == 0 {
		return s
	}
	b := []byte(s)
	switch c := r.Intn(20); {
	case c < 12:
		return s
	case c < 16: // one letter; a boundary letter when there is one
		var edge []int
		for _, i := range idx {
			if b[i] == 'a' || b[i] == 'z' {
				edge = append(edge, i)
			}
		}
		i := hx.Pick(r, idx)
		if len(edge) > 0 && r.Bool() {
			i = hx.Pick(r, edge)
		}
		b[i] -= 32
	case c < 17: // every occurrence of one letter
		l := b[hx.Pick(r, idx)]
		for _, i := range idx {
			if b[i] == l {
				b[i] -= 32
			}
		}
	case c < 19:
		for _, i := range idx {
			if r.Bool() {
				b[i] -= 32
			}
		}
	default:
		for _, i := range idx {
			b[i] -= 32
		}
	}
	return string(b)
}

// confuse swaps the bytes a wrong range test would identify: '@'/'`' and '['/'{'.
func confuse(s string) string {
	return strings.NewReplacer("@", "`", "`", "@", "[", "{", "{", "[").Replace(s)
}

// longLabelBias > 0: one label in longLabelBias is a label at the DNS length limit.
var longLabelBias = 90

// longLabel: a label of 62, 63 (the DNS maximum), 64 or 61 octets over a tiny alphabet.
func longLabel(r *hx.RNG) string {
	n := hx.Pick(r, []int{63, 63, 63, 63, 63, 62, 62, 64, 61})
	return mkLabel(hx.Pick(r, []string{"a", "b", "ab"}), n)
}

func mkLabel(unit string, n int) string {
	return strings.Repeat(unit, n/len(unit)+1)[:n]
}

func pickLabel(r *hx.RNG) string {
	if longLabelBias > 0 && r.Chance(1, longLabelBias) {
		return longLabel(r)
	}
	if r.Chance(1, 7) {
		return hx.Pick(r, edgeLabels)
	}
	return hx.Pick(r, alphabet)
}

// genLongLabels: rule sets and names in which every third label is at the length limit, at every
// position, through the valued mix matcher, the domain matcher and the valued / value-less loaders.
func genLongLabels(w *hx.Writer, id string, r *hx.RNG, maxRules int) {
	old := longLabelBias
	longLabelBias = 3
	defer func() { longLabelBias = old }()
	switch r.Intn(4) {
	case 0:
		var rules []rule
		var ir []irule
		for j := r.Range(1, 4); j > 0; j-- {
			pat := genPattern(r, 2, 4, false)
			if len(rules) > 0 && r.Bool() {
				pat = pickLabel(r) + "." + rules[r.Intn(len(rules))].s
			}
			v := []int{r.Range(1, 9)}
			rules = append(rules, rule{s: pat, v: v})
			ir = append(ir, irule{kind: 2, pat: pat, v: v})
		}
		runSingle(w, id, 2, rules, genNames(r, ir, r.Range(2, 4), 4, false))
	case 1:
		genLoad(w, id, r, 4, 4)
	default:
		rs := genRuleSet(r, genDefault(r, false), 0, 5, 4, false)
		runMix(w, id, rs.dflt, rs.rules, genNames(r, rs.intended, r.Range(2, 4), 4, false))
	}
}

func genLabels(r *hx.RNG, maxDepth int) []string {
	d := 1
	switch r.Intn(8) {
	case 0, 1, 2:
		d = 1
	case 3, 4, 5:
		d = 2
	case 6:
		d = 3
	default:
		d = r.Range(3, maxDepth)
	}
	ls := make([]string, d)
	for i := range ls {
		ls[i] = pickLabel(r)
	}
	return ls
}

// a syntactically valid name (no empty label), possibly mixed case / trailing dot
func genPlainName(r *hx.RNG, maxDepth int) string {
	s := strings.Join(genLabels(r, maxDepth), ".")
	s = mixCase(r, s)
	if r.Chance(1, 4) {
		s += "."
	}
	return s
}

var brokenNames = []string{"", ".", "..", ".a", "a..", "a..b", "..a", "b.a..", ".b.a", "a.b..", "a.."}

func genPattern(r *hx.RNG, kind int, maxDepth int, malformed bool) string {
	switch kind {
	case 3:
		if r.Chance(1, 4) {
			return hx.Pick(r, caseSensitiveRe)
		}
		return menu[r.Intn(len(menu))].expr
	case 4:
		if malformed && r.Chance(1, 3) {
			return hx.Pick(r, []string{"", ".", "..", "a..b"})
		}
		if r.Chance(1, 3) {
			return mixCase(r, hx.Pick(r, []string{"a", "b", "ab", "ba", "b.a", ".a", "a.", "b.", ".ab.", "a.b", "bb", "aa", "a:b", "z", "az", "zz", "z.a", "@", "a`", "["}))
		}
		return genPlainName(r, 2)
	}
	if malformed && r.Chance(1, 2) {
		return hx.Pick(r, brokenNames)
	}
	return genPlainName(r, maxDepth)
}

func kindOfDefault(dflt string) int {
	for i, t := range typeNames {
		if i > 0 && t == dflt {
			return i
		}
	}
	return 0
}

// meaningOf is the driver's own reading of a string handed to MixMatcher.Add
// with default type dflt: nil when it is not a rule (Add must refuse it).
func meaningOf(dflt, s string, v []int) *irule {
	typ, pat, ok := strings.Cut(s, ":")
	if !ok {
		typ, pat = "", s
	}
	if typ == "" {
		typ = dflt
	}
	k := kindOfDefault(typ)
	if k == 0 {
		return nil
	}
	if k == 3 {
		for _, e := range menu {
			if e.expr == pat {
				if !e.valid {
					return nil
				}
				return &irule{kind: k, pat: pat, v: v}
			}
		}
		fmt.Fprintf(os.Stderr, "c12: generator bug: regexp %q is not on the menu\n", pat)
		os.Exit(2)
	}
	return &irule{kind: k, pat: pat, v: v}
}

// genRule returns the text of a rule.
func genRule(r *hx.RNG, dflt string, onlyKind, maxDepth int, malformed bool) string {
	kind := r.Range(1, 4)
	if r.Chance(1, 2) {
		kind = 2
	}
	if onlyKind != 0 {
		kind = onlyKind
	}
	prefix := typeNames[kind] + ":"
	if k := kindOfDefault(dflt); k != 0 && (onlyKind == 0 || onlyKind == k) && r.Chance(1, 3) {
		kind = k
		prefix = hx.Pick(r, []string{"", "", ":"})
	}
	pat := genPattern(r, kind, maxDepth, malformed)
	if prefix == "" && strings.Contains(pat, ":") {
		prefix = ":"
	}
	if malformed && r.Chance(1, 6) {
		// not a rule: unknown type, wrong case
		return hx.Pick(r, []string{"Domain:", "bogus:", "full :", "domain.:", "FULL:"}) + pat
	}
	if malformed && dflt != "regexp" && r.Chance(1, 10) {
		return pat // without prefix, whatever the default is
	}
	return prefix + pat
}

type ruleSet struct {
	dflt     string
	rules    []rule
	intended []irule
}

func genDefault(r *hx.RNG, malformed bool) string {
	switch r.Intn(8) {
	case 0:
		return ""
	case 1:
		return "full"
	case 2:
		return "keyword"
	case 3:
		if malformed {
			return hx.Pick(r, []string{"bogus", "Domain", "regexp"})
		}
		return "regexp"
	}
	return "domain"
}

// genRuleSet: onlyKind != 0 makes every rule a rule of that one type.
func genRuleSet(r *hx.RNG, dflt string, onlyKind, maxRules, maxDepth int, malformed bool) ruleSet {
	rs := ruleSet{dflt: dflt}
	n := r.Range(1, maxRules)
	for i := 0; i < n; i++ {
		var s string
		if i > 0 && r.Chance(1, 4) {
			// a variant of an earlier rule (other case / dot / one more label), other value
			prev := rs.rules[r.Intn(len(rs.rules))].s
			typ, pat, ok := strings.Cut(prev, ":")
			if !ok {
				typ, pat = "", prev
			}
			k := kindOfDefault(typ)
			if typ == "" {
				k = kindOfDefault(dflt)
			}
			if (k == 1 || k == 2) && onlyKind == 0 && r.Chance(2, 5) {
				// the counterpart of the other type covering the same name, other value:
				// full rule at or below a domain rule, domain rule at or above a full rule
				other := 3 - k
				switch r.Intn(3) {
				case 0:
					if other == 1 {
						pat = pickLabel(r) + "." + pat
					} else if i := strings.IndexByte(pat, '.'); i >= 0 && i+1 < len(pat) {
						pat = pat[i+1:]
					}
				case 1:
					pat = mixCase(r, pat)
				}
				typ, ok = typeNames[other], true
				if kindOfDefault(dflt) == other && r.Bool() {
					typ, ok = "", false
					if strings.Contains(pat, ":") {
						typ, ok = "", true
					}
				}
				k = 3 // no further change below
			}
			if k != 3 {
				switch r.Intn(4) {
				case 0:
					pat = strings.ToUpper(pat)
				case 1:
					if !strings.HasSuffix(pat, ".") {
						pat += "."
					}
				case 2:
					if k == 2 || k == 1 {
						pat = pickLabel(r) + "." + pat
					}
				case 3:
					pat = mixCase(r, strings.ToLower(pat))
				}
			}
			if ok {
				s = typ + ":" + pat
			} else {
				s = pat
			}
		} else {
			s = genRule(r, dflt, onlyKind, maxDepth, malformed)
		}
		v := []int{r.Range(1, 9)}
		rs.rules = append(rs.rules, rule{s: s, v: v})
		if ir := meaningOf(dflt, s, v); ir != nil {
			rs.intended = append(rs.intended, *ir)
		}
	}
	return rs
}

// names related to the rule set: the pattern itself, a subdomain, a string
// suffix that is not a label suffix, a parent, plus unrelated names.
func genNames(r *hx.RNG, rs []irule, k, maxDepth int, malformed bool) []string {
	var out []string
	for len(out) < k {
		var n string
		var base string
		if len(rs) > 0 {
			ir := rs[r.Intn(len(rs))]
			if ir.kind != 3 {
				base = strings.TrimSuffix(ir.pat, ".")
			}
		}
		switch c := r.Intn(10); {
		case base != "" && c <= 1:
			n = base
		case base != "" && c == 2:
			n = strings.Join(genLabels(r, 2), ".") + "." + base
		case base != "" && c == 3:
			n = hx.Pick(r, []string{"a", "b", "ab", "a.a", "b.b"}) + base // glued: string suffix only
		case base != "" && c == 4:
			if i := strings.IndexByte(base, '.'); i >= 0 {
				n = base[i+1:] // parent
			} else {
				n = base + "." + hx.Pick(r, alphabet)
			}
		case base != "" && c == 5:
			n = base + hx.Pick(r, []string{"a", "b", ".a", ".ab"})
		default:
			n = genPlainName(r, maxDepth)
		}
		if malformed && r.Chance(1, 5) {
			n = hx.Pick(r, brokenNames)
		}
		if n == "" && !malformed {
			continue
		}
		if r.Bool() {
			n = strings.ToLower(n)
		}
		n = mixCase(r, n)
		if strings.ContainsAny(n, "@`[{") && r.Chance(1, 3) {
			n = confuse(n)
		}
		if r.Chance(1, 5) && !strings.HasSuffix(n, ".") {
			n += "."
		}
		out = append(out, n)
	}
	return out
}

// decorate one rule as a line of a rules file
func decorate(r *hx.RNG, s string) string {
	lead := hx.Pick(r, []string{"", "", "", " ", "\t", "  \t"})
	trail := hx.Pick(r, []string{"", "", "", " ", "\t ", " # c", "#c a.b", "\t#", " #domain:a"})
	return lead + s + trail
}

func genLoad(w *hx.Writer, id string, r *hx.RNG, maxRules, maxDepth int) {
	which := hx.Pick(r, []int{0, 1, 1, 2, 2, 3, 4, 4})
	dflt := "full"
	switch which {
	case 0:
		dflt = hx.Pick(r, []string{"", "domain", "domain", "full", "keyword"})
	case 1, 4:
		dflt = "domain"
	}
	// the providers keep or drop a loaded set as a whole: sets made of one rule type only
	onlyKind := 0
	if r.Chance(1, 2) {
		onlyKind = r.Range(1, 4)
	}
	malformed := r.Chance(1, 8)
	if onlyKind != 0 {
		malformed = r.Chance(1, 16)
	}
	rs := genRuleSet(r, dflt, onlyKind, maxRules, maxDepth, malformed)
	var entries, lines []string
	var intended []irule
	stopped := false // something the loader must refuse has been written
	nEntries := 0
	if len(rs.rules) > 1 && r.Chance(2, 3) {
		nEntries = r.Intn(len(rs.rules))
	}
	for i, ru := range rs.rules {
		// a rule text with white space or '#' cannot be written on a line
		if ru.s == "" || strings.ContainsAny(ru.s, " \t#") {
			continue
		}
		v := []int{}
		text := ru.s
		switch which {
		case 2:
			v = []int{ru.v[0]}
			text += hx.Pick(r, []string{" ", "\t", "   "}) + "10.0.0." + strconv.Itoa(v[0])
			if r.Chance(1, 4) {
				v = append(v, r.Range(1, 9))
				text += hx.Pick(r, []string{" ", "\t "}) + "10.0.0." + strconv.Itoa(v[1])
			}
		case 3:
			v = []int{ru.v[0]}
			text += hx.Pick(r, []string{" ", "\t", "   "}) + "v" + strconv.Itoa(v[0])
		}
		if i < nEntries {
			entries = append(entries, text)
		} else {
			for r.Chance(1, 4) {
				lines = append(lines, hx.Pick(r, []string{"", "   ", "# full:a", "\t# x", "#"}))
			}
			if r.Chance(1, 12) {
				var bad string
				switch which {
				case 0, 1, 4:
					bad = hx.Pick(r, []string{"a b", "domain:a full:b", "bogus:a", "regexp:(", "a\tb"})
				case 2:
					bad = hx.Pick(r, []string{"bogus:a 10.0.0.1", "regexp:( 10.0.0.1"})
				default:
					bad = hx.Pick(r, []string{"a", "a v1 v2", "bogus:a v1", "regexp:[a v1"})
				}
				lines = append(lines, decorate(r, bad))
				stopped = true
			}
			lines = append(lines, decorate(r, text))
		}
		if m := meaningOf(dflt, ru.s, v); m != nil && !stopped {
			intended = append(intended, *m)
		} else {
			stopped = true
		}
	}
	eol := "\n"
	if r.Chance(1, 4) {
		eol = "\r\n"
	}
	text := strings.Join(lines, eol)
	if len(lines) > 0 && r.Chance(2, 3) {
		text += eol
	}
	names := genNames(r, intended, r.Range(2, 4), maxDepth, false)
	if which >= 2 {
		for i := range names { // questions carry fully qualified names
			if !strings.HasSuffix(names[i], ".") && r.Chance(2, 3) {
				names[i] += "."
			}
		}
	}
	runLoad(w, id, which, dflt, entries, text, intended, names)
}

// ---------- catalogue ----------

type catCase struct {
	dflt  string
	rules []rule
	names []string
}

func R(s string, v int) rule { return rule{s: s, v: []int{v}} }

var catalogue = []catCase{
	// label boundary
	{"", []rule{R("domain:b.a", 1)}, []string{"b.a", "ab.a", "xb.a", "a.b.a", "B.A.", "b.a..", ".b.a", "a", "b", "b.a.a", "bb.a", "b.ab"}},
	{"domain", []rule{R("b.a", 1), R("a.b", 2)}, []string{"ab.a", "a.b.a", "b.a.b", "aa.b", "a.b.", "A.B"}},
	// the longest rule wins whatever the insertion order; later adds overwrite
	{"", []rule{R("domain:a", 1), R("domain:b.a", 2), R("domain:ab.b.a", 3)}, []string{"ab.b.a", "a.ab.b.a", "b.b.a", "b.a", "ab.a", "a", "b", "a.b"}},
	{"", []rule{R("domain:ab.b.a", 3), R("domain:b.a", 2), R("domain:a", 1)}, []string{"ab.b.a", "a.ab.b.a", "b.b.a", "b.a", "ab.a", "a"}},
	{"", []rule{R("domain:a", 1), R("domain:A.", 9), R("domain:b.a", 2), R("domain:B.A", 8)}, []string{"a", "x.a", "b.a", "a.b.a"}},
	// a deep rule does not make its ancestors match; a missing child keeps the value found so far
	{"", []rule{R("domain:a.b.ab", 1)}, []string{"ab", "b.ab", "a.b.ab", "b.a.b.ab", "ab.b.ab"}},
	{"", []rule{R("domain:a", 1), R("domain:b.b.a", 2)}, []string{"ab.b.a", "b.a", "a.b.b.a", "b.b.a", "ab.a"}},
	// precedence full > domain > regexp > keyword
	{"", []rule{R("keyword:a", 4), R("regexp:.", 3), R("domain:a.b", 2), R("full:a.b", 1)}, []string{"a.b", "b.a.b", "b", "a", "ab.ab"}},
	{"", []rule{R("keyword:a", 4), R("domain:a.b", 2), R("full:b.a.b", 1)}, []string{"a.b", "b.a.b", "b", "a", "ab.ab", "b.b"}},
	{"", []rule{R("keyword:b", 4), R("regexp:^a\\.", 3)}, []string{"a.b", "b.a", "a", "a.a"}},
	// a full rule and a domain rule covering the same name carry different values: every insertion order
	{"", []rule{R("domain:a.b", 1), R("full:a.b", 2)}, []string{"a.b", "A.B.", "s.a.b", "b"}},
	{"", []rule{R("full:a.b", 2), R("domain:a.b", 1)}, []string{"a.b", "A.B.", "s.a.b", "b"}},
	{"", []rule{R("domain:b", 1), R("full:a.b", 2), R("full:b", 3)}, []string{"a.b", "b", "s.b", "s.a.b"}},
	{"", []rule{R("full:b", 3), R("full:a.b", 2), R("domain:b", 1)}, []string{"a.b", "b", "s.b", "s.a.b"}},
	{"", []rule{R("domain:b", 1), R("domain:a.b", 4), R("full:ab.a.b", 2), R("full:A.B.", 5)}, []string{"ab.a.b", "a.b", "s.a.b", "b"}},
	{"full", []rule{R("domain:a.b", 1), R("a.b", 2), R("ab.a.b", 3), R(":b.a.b", 4)}, []string{"a.b", "ab.a.b", "b.a.b", "s.a.b"}},
	{"full", []rule{R("a.b", 2), R("ab.a.b", 3), R("domain:a.b", 1)}, []string{"a.b", "ab.a.b", "s.a.b"}},
	// full: whole name only, case and dot on both sides, last add wins
	{"", []rule{R("full:A.B.", 1), R("full:b", 2), R("full:B", 3)}, []string{"a.b", "A.b.", "b.a.b", "b", "B.", "ab", "a.b.."}},
	// keyword: any substring, normalised like names
	{"", []rule{R("keyword:B.A.", 1)}, []string{"ab.ab", "b.a", "b.b", "a.b", "AB.AB."}},
	{"", []rule{R("keyword:", 1)}, []string{"a", "b.a"}},
	{"", []rule{R("keyword:a:b", 1), R("keyword:ab", 2)}, []string{"a.b", "ab", "b.ab.a"}},
	// regexp: not normalised, sees the normalised name, split at the first colon, same expression twice
	{"", []rule{R("regexp:A", 1)}, []string{"a", "A"}},
	{"", []rule{R("regexp:^a.", 1)}, []string{"a", "a.", "ab", "A.B"}},
	{"", []rule{R("regexp:a:?\\.", 1)}, []string{"a.b", "a", "b.a"}},
	{"", []rule{R("regexp:b$", 1), R("regexp:b$", 2)}, []string{"b", "a.b", "b.a", "B."}},
	{"", []rule{R("regexp:^b$", 1), R("regexp:(", 2), R("regexp:[a", 3)}, []string{"b", "b.", "B", "a.b"}},
	// type dispatch and default type
	{"", []rule{R("a.b", 1), R(":a.b", 2), R("domain:a.b", 3)}, []string{"a.b", "b.a.b"}},
	{"domain", []rule{R("a.b", 1), R(":b", 2), R("full:a", 3), R("Domain:a", 4), R("bogus:a", 5), R("full :a", 6)}, []string{"a.b", "x.b", "a", "b.a"}},
	{"full", []rule{R("a.b", 1), R("domain:b.a", 2)}, []string{"a.b", "b.a.b", "a.b.a"}},
	{"keyword", []rule{R("a", 1)}, []string{"b.ab", "b"}},
	{"regexp", []rule{R("^ab", 1), R("(", 2)}, []string{"ab.a", "a.ab"}},
	{"bogus", []rule{R("a", 1), R("full:a", 2)}, []string{"a"}},
	// odd patterns: empty, root, empty labels, two trailing dots
	{"", []rule{R("domain:", 1)}, []string{"a", "b.a", ""}},
	{"", []rule{R("domain:.", 1), R("full:", 2), R("full:.", 3)}, []string{"a", "", ".", ".."}},
	{"", []rule{R("domain:a..", 1), R("domain:.b", 2), R("domain:a..b", 3)}, []string{"a", "a.", "a..", "b", "x.b", ".b", "a.b", "a..b", "x.a..b"}},
	{"", []rule{R("full:a..", 1), R("full:a.", 2)}, []string{"a", "a.", "a.."}},
}

func main() {
	o := hx.ParseFlags()
	initMenu()
	base := "/verif/.work/c12"
	if o.Out != "" {
		base = filepath.Dir(o.Out)
	}
	var err error
	if err = os.MkdirAll(base, 0o755); err == nil {
		workDir, err = os.MkdirTemp(base, "c12files")
	}
	if err != nil {
		fmt.Fprintln(os.Stderr, "c12:", err)
		os.Exit(2)
	}
	defer os.RemoveAll(workDir)
	w := hx.NewWriter(o)
	defer w.Close()
	thorough := o.Tier == "thorough"
	maxRules, maxDepth := 7, 5
	if thorough {
		maxRules = 12
	}

	for i, c := range catalogue {
		id := fmt.Sprintf("cat:mix:%d", i)
		if o.Want(id) {
			runMix(w, id, c.dflt, c.rules, c.names)
		}
		// the same patterns through the matcher of their type, when all rules share one
		kind := 0
		var rs []rule
		for _, ru := range c.rules {
			typ, pat, ok := strings.Cut(ru.s, ":")
			k := kindOfDefault(typ)
			if !ok || k == 0 || (kind != 0 && k != kind) {
				kind = -1
				break
			}
			kind = k
			rs = append(rs, rule{s: pat, v: ru.v})
		}
		id = fmt.Sprintf("cat:single:%d", i)
		if kind > 0 && o.Want(id) {
			runSingle(w, id, kind, rs, c.names)
		}
	}
	// case sweep: for every letter, rule and name differ only in the case of that one letter,
	// in both directions, for every rule type; then the bytes next to the letter ranges,
	// which must NOT be identified ('@' with '`', '[' with '{').
	type pair struct{ lo, up string }
	var pairs []pair
	for c := byte('a'); c <= 'z'; c++ {
		pairs = append(pairs, pair{string(c), string(c - 32)})
	}
	pairs = append(pairs, pair{"`", "@"}, pair{"{", "["})
	for i, p := range pairs {
		for dir := 0; dir < 2; dir++ {
			ru, na := p.lo, p.up // rules in lower case, names with the one letter in upper case
			if dir == 1 {
				ru, na = p.up, p.lo
			}
			id := fmt.Sprintf("cat:case:%d:%d", i, dir)
			if o.Want(id) {
				rules := []rule{R("full:f"+ru+".t", 1), R("domain:d"+ru+".t", 2), R("keyword:k"+ru+"k", 4)}
				names := []string{"f" + na + ".t", "s.d" + na + ".t.", "d" + na + ".t", "qk" + na + "k.u", "f" + ru + ".t", "k" + ru + "k"}
				runMix(w, id, "", rules, names)
			}
			id = fmt.Sprintf("cat:case1:%d:%d", i, dir)
			if o.Want(id) {
				k := 1 + (i+dir)%2*3 // full and keyword matchers alternately
				runSingle(w, id, k, []rule{R("w"+ru+"w", 1)}, []string{"w" + na + "w", "w" + ru + "w."})
			}
			id = fmt.Sprintf("cat:case2:%d:%d", i, dir)
			if o.Want(id) {
				runSingle(w, id, 2, []rule{R(ru+"w.u"+ru, 2)}, []string{na + "w.u" + ru, "s." + ru + "w.u" + na + "."})
			}
		}
		// the regexp sees the normalised (lower-cased) name
		id := fmt.Sprintf("cat:case:re:%d", i)
		if o.Want(id) {
			runMix(w, id, "", []rule{R("regexp:^[a-z.]+$", 3)}, []string{"r" + p.up + ".t", "r" + p.lo + ".t."})
		}
		// through the hosts loader (default type full) and the domain_set provider
		id = fmt.Sprintf("cat:case:hosts:%d", i)
		if o.Want(id) && i%3 == 0 {
			runLoad(w, id, 2, "full", []string{"h" + p.up + ".t 10.0.0.1"}, "domain:e"+p.lo+".t 10.0.0.2\n",
				[]irule{{1, "h" + p.up + ".t", []int{1}}, {2, "e" + p.lo + ".t", []int{2}}},
				[]string{"h" + p.lo + ".t.", "x.e" + p.up + ".t."})
		}
		id = fmt.Sprintf("cat:case:set:%d", i)
		if o.Want(id) && i%3 == 1 {
			runLoad(w, id, 1, "domain", []string{"keyword:k" + p.up}, "", []irule{{4, "k" + p.up, []int{}}}, []string{"ak" + p.lo + ".t", "k" + p.up})
		}
	}

	// loader catalogue
	loadCat := []struct {
		which    int
		dflt     string
		entries  []string
		text     string
		intended []irule
		names    []string
	}{
		{0, "domain", nil, "a.b\n#full:b\n\n  full:b.a  # x\r\nkeyword:bb#\n", []irule{{2, "a.b", []int{}}, {1, "b.a", []int{}}, {4, "bb", []int{}}}, []string{"x.a.b", "b", "b.a", "a.b.a", "abb"}},
		{0, "", nil, "domain:a\nb\ndomain:b", []irule{{2, "a", []int{}}}, []string{"a", "b"}},
		{0, "domain", nil, "a\nb a\nb", []irule{{2, "a", []int{}}}, []string{"a", "b"}},
		{0, "domain", []string{"a", "b a", "b"}, "ab", []irule{{2, "a", []int{}}}, []string{"a", "b", "ab"}},
		{0, "domain", nil, "a\r\n\r\nb\r", []irule{{2, "a", []int{}}, {2, "b", []int{}}}, []string{"a", "b"}},
		{0, "domain", nil, "a\rb\nab", nil, []string{"a", "b", "ab"}},
		{0, "full", nil, "\t a.b \t\n", []irule{{1, "a.b", []int{}}}, []string{"a.b", "b"}},
		{1, "domain", []string{"a.b", "full:b"}, "keyword:aa\nregexp:^ab # c\n", []irule{{2, "a.b", []int{}}, {1, "b", []int{}}, {4, "aa", []int{}}, {3, "^ab", []int{}}}, []string{"x.a.b", "b", "a.b.b", "b.aa.b", "ab.a", "a"}},
		{1, "domain", []string{"domain:"}, "", []irule{{2, "", []int{}}}, []string{"a"}},
		{1, "domain", []string{"."}, "full:a", []irule{{2, ".", []int{}}, {1, "a", []int{}}}, []string{"a", "b"}},
		{1, "domain", nil, "a b\n", nil, nil},
		{2, "full", []string{"a.b 10.0.0.1", "domain:b.a\t10.0.0.2  10.0.0.3"}, "a.b 10.0.0.4 # later wins\nkeyword:bb 10.0.0.5\n", []irule{{1, "a.b", []int{1}}, {2, "b.a", []int{2, 3}}, {1, "a.b", []int{4}}, {4, "bb", []int{5}}}, []string{"a.b.", "x.b.a.", "b.a", "abb.", "ab.a."}},
		{2, "full", []string{"bogus:a 10.0.0.1"}, "", nil, nil},
		{3, "full", []string{"a.b v1", "domain:b.a v2"}, "regexp:^ab\tv3\n  keyword:aa v4  #x\n", []irule{{1, "a.b", []int{1}}, {2, "b.a", []int{2}}, {3, "^ab", []int{3}}, {4, "aa", []int{4}}}, []string{"a.b.", "A.B.", "x.b.a.", "ab.b.", "b.aa.", "b.", "ab.a."}},
		{3, "full", []string{"a.b"}, "", nil, nil},
		{3, "full", nil, "a.b v1\na v1 v2\n", nil, nil},
	}
	// the providers (domain_set = 1, qname matcher = 4) keep or drop a loaded set as a whole:
	// sets made of one rule type only, through exps only and through the file only
	for _, which := range []int{1, 4} {
		for _, c := range []struct {
			rule  string
			ir    irule
			names []string
		}{
			{"full:a.b", irule{1, "a.b", []int{}}, []string{"a.b", "A.B.", "b.a.b", "b"}},
			{"a.b", irule{2, "a.b", []int{}}, []string{"a.b", "b.a.b", "aa.b", "b"}},
			{"domain:B.A.", irule{2, "B.A.", []int{}}, []string{"b.a", "a.b.a", "ab.a"}},
			{"regexp:^ab", irule{3, "^ab", []int{}}, []string{"ab.a", "a.ab", "AB"}},
			{"keyword:b", irule{4, "b", []int{}}, []string{"ab.a", "a.B.", "a", "b"}},
			{"keyword:Z.", irule{4, "Z.", []int{}}, []string{"az.a", "a.Z", "a"}},
		} {
			loadCat = append(loadCat, struct {
				which    int
				dflt     string
				entries  []string
				text     string
				intended []irule
				names    []string
			}{which, "domain", []string{c.rule}, "", []irule{c.ir}, c.names})
			loadCat = append(loadCat, struct {
				which    int
				dflt     string
				entries  []string
				text     string
				intended []irule
				names    []string
			}{which, "domain", nil, "# only this\n " + c.rule + " # x\n", []irule{c.ir}, c.names})
			loadCat = append(loadCat, struct {
				which    int
				dflt     string
				entries  []string
				text     string
				intended []irule
				names    []string
			}{which, "domain", []string{c.rule}, c.rule + "\n" + c.rule, []irule{c.ir, c.ir, c.ir}, c.names})
		}
		// nothing loaded at all, and the documented oddity: a set whose only rule is the root domain
		loadCat = append(loadCat, struct {
			which    int
			dflt     string
			entries  []string
			text     string
			intended []irule
			names    []string
		}{which, "domain", nil, "", nil, []string{"a"}})
		loadCat = append(loadCat, struct {
			which    int
			dflt     string
			entries  []string
			text     string
			intended []irule
			names    []string
		}{which, "domain", []string{"domain:."}, "", []irule{{2, ".", []int{}}}, []string{"a", "b.a"}})
	}
	type lc = struct {
		which    int
		dflt     string
		entries  []string
		text     string
		intended []irule
		names    []string
	}
	// what is case sensitive in a rule text: the regexp expression (taken as written) and the
	// type prefix ("FULL:" is no type) -- through every loader
	for which := 0; which <= 4; which++ {
		val := ""
		v := []int{}
		switch which {
		case 2:
			val, v = " 10.0.0.7", []int{7}
		case 3:
			val, v = " v7", []int{7}
		}
		d := "domain"
		if which == 2 || which == 3 {
			d = "full"
		}
		names := []string{"a.b.", "b.", "ab.a", "B.B."}
		for _, re := range caseSensitiveRe {
			loadCat = append(loadCat, lc{which, d, []string{"regexp:" + re + val}, "", []irule{{3, re, v}}, names})
			loadCat = append(loadCat, lc{which, d, nil, " regexp:" + re + val + " # x\n", []irule{{3, re, v}}, names})
		}
		for _, bad := range []string{"FULL:a.b", "Domain:a.b", "REGEXP:^ab", "Keyword:a"} {
			loadCat = append(loadCat, lc{which, d, []string{bad + val}, "", nil, names})
			loadCat = append(loadCat, lc{which, d, nil, bad + val + "\n", nil, names})
		}
	}
	// value precedence through the valued loaders: a full rule and a domain rule cover the same
	// name with different values, in every order, as entries and as file lines
	for _, which := range []int{2, 3} {
		val := func(v int) string {
			if which == 2 {
				return "10.0.0." + strconv.Itoa(v)
			}
			return "v" + strconv.Itoa(v)
		}
		pairs := [][2]irule{
			{{2, "a.b", []int{1}}, {1, "a.b", []int{2}}},
			{{2, "a.b", []int{1}}, {1, "s.a.b", []int{2}}},
			{{2, "B", []int{3}}, {1, "a.b.", []int{4}}},
		}
		names := []string{"a.b.", "A.B.", "s.a.b.", "x.s.a.b.", "b.", "x.b."}
		for _, p := range pairs {
			for order := 0; order < 2; order++ {
				first, second := p[0], p[1]
				if order == 1 {
					first, second = second, first
				}
				line := func(ir irule, explicit bool) string {
					prefix := typeNames[ir.kind] + ":"
					if ir.kind == 1 && !explicit {
						prefix = "" // the loaders' default type is full
					}
					return prefix + ir.pat + " " + val(ir.v[0])
				}
				for variant := 0; variant < 3; variant++ {
					var entries []string
					text := ""
					switch variant {
					case 0: // both as entries
						entries = []string{line(first, true), line(second, false)}
					case 1: // both in the file
						text = line(first, false) + "\n" + line(second, true) + "\n"
					default: // one each
						entries = []string{line(first, false)}
						text = line(second, true)
					}
					loadCat = append(loadCat, lc{which, "full", entries, text, []irule{first, second}, names})
				}
			}
		}
	}
	for i, c := range loadCat {
		id := fmt.Sprintf("cat:load:%d", i)
		if o.Want(id) {
			runLoad(w, id, c.which, c.dflt, c.entries, c.text, c.intended, c.names)
		}
	}

	// sets of sets: own rules + referenced sets, two referenced sets, nested references
	plain := func(d setDef) []irule {
		var out []irule
		for _, e := range append(append([]string{}, d.exps...), strings.Split(d.text, "\n")...) {
			if e == "" {
				continue
			}
			if m := meaningOf("domain", e, []int{}); m != nil {
				out = append(out, *m)
			}
		}
		return out
	}
	composeSets := []setDef{
		{exps: []string{"a.b", "full:x.a"}},               // 0
		{text: "keyword:bb\nregexp:^ab"},                  // 1
		{exps: []string{"full:b"}, refs: []int{0, 1}},     // 2 own + two sets
		{refs: []int{0, 1}},                               // 3 two sets
		{refs: []int{2}},                                  // 4 nested
		{exps: []string{"keyword:zz"}, refs: []int{4, 1}}, // 5 nested + shared member
		{refs: []int{1, 0}},                               // 6 the other order
		{exps: []string{"domain:."}, refs: []int{1}},      // 7 own matcher dropped (Len 0), member kept
	}
	composeMeaning := make([][]irule, len(composeSets))
	for i, d := range composeSets {
		composeMeaning[i] = plain(d)
	}
	composeNames := []string{"a.b", "S.A.B.", "x.a", "s.x.a", "abb.a", "ab.b.", "b", "b.b", "aa.b", "azz"}
	for top := 2; top < len(composeSets); top++ {
		for via := 0; via < 3; via++ {
			id := fmt.Sprintf("cat:compose:%d:%d", top, via)
			if o.Want(id) {
				extra := []string{"full:b.b"}
				runCompose(w, id, composeSets[:top+1], composeMeaning, top, via, extra, []irule{{1, "b.b", []int{}}}, composeNames)
			}
		}
	}

	mixIf := func(w *hx.Writer, cid string, dflt string, rules []rule, names []string) {
		if o.Want(cid) {
			runMix(w, cid, dflt, rules, names)
		}
	}
	singleIf := func(w *hx.Writer, cid string, kind int, rules []rule, names []string) {
		if o.Want(cid) {
			runSingle(w, cid, kind, rules, names)
		}
	}
	loadIf := func(w *hx.Writer, cid string, which int, dflt string, entries []string, text string, intended []irule, names []string) {
		if o.Want(cid) {
			runLoad(w, cid, which, dflt, entries, text, intended, names)
		}
	}
	// label lengths 1, 2, 62, 63 (the DNS maximum), 64 at every position (leftmost, middle, rightmost)
	// of rules and names, and names at the 253 / 255 octet limit
	for _, n := range []int{1, 2, 62, 63, 64} {
		for ui, unit := range []string{"a", "ab"} {
			L := mkLabel(unit, n)
			M := mkLabel("b", n)
			id := fmt.Sprintf("cat:label:%d:%d", n, ui)
			{
				// one domain rule with the long label leftmost / in the middle / rightmost, as a valued set
				mixIf(w, id+":pos", "", []rule{R("domain:"+L+".b.a", 1), R("domain:b."+M+".ab", 2), R("domain:a.b."+L, 3), R("domain:a", 4)},
					[]string{L + ".b.a", "s." + L + ".b.a.", "x.y." + L + ".b.a", "S." + strings.ToUpper(L) + ".B.A", "b.a", "x" + L + ".b.a",
						"s.b." + M + ".ab", "b." + M + ".ab.", M + ".ab", "s.a.b." + L, "a.b." + L, "b." + L, "s.a"})
			}
			{
				// longest-match precedence with a long label in the chain, every insertion order of the chain
				chain := []rule{R("domain:a", 1), R("domain:"+L+".a", 2), R("domain:b."+L+".a", 3), R("domain:"+M+".b."+L+".a", 4)}
				names := []string{"s.a", L + ".a", "s." + L + ".a.", "b." + L + ".a", "s.b." + L + ".a", M + ".b." + L + ".a", "s.t." + M + ".b." + L + ".a", "x" + L + ".a"}
				mixIf(w, id+":longest", "", chain, names)
				mixIf(w, id+":longest:rev", "", []rule{chain[3], chain[2], chain[1], chain[0]}, names)
			}
			{
				mixIf(w, id+":types", "", []rule{R("full:s."+L+".a", 1), R("domain:"+L+".a", 2), R("keyword:"+M, 4)},
					[]string{"s." + L + ".a", "t.s." + L + ".a", "t." + L + ".a.", "s." + M + ".b", "x" + M + "x.b", "s." + M[1:] + ".b"})
				mixIf(w, id+":types:re", "", []rule{R("regexp:b\\.a$", 3), R("regexp:^a\\.", 5), R("keyword:"+L, 4)},
					[]string{"s." + L + ".b.a", "a." + L + ".b", L + ".s", "s." + M + ".b"})
			}
			{
				singleIf(w, id+":single", 2, []rule{R(L+".b.a", 1), R("s."+L+".b.a", 2), R("b."+L, 3)},
					[]string{L + ".b.a", "s." + L + ".b.a", "t.s." + L + ".b.a", "t." + L + ".b.a", "x.b." + L, "b." + L})
				singleIf(w, id+":single:full", 1, []rule{R("s."+L+".a", 1)}, []string{"s." + L + ".a.", "t.s." + L + ".a", L + ".a"})
			}
			if ui == 0 {
				for _, which := range []int{1, 2, 3, 4} {
					val := func(v int) (string, []int) {
						switch which {
						case 2:
							return " 10.0.0." + strconv.Itoa(v), []int{v}
						case 3:
							return " v" + strconv.Itoa(v), []int{v}
						}
						return "", []int{}
					}
					v1, i1 := val(1)
					v2, i2 := val(2)
					v3, i3 := val(3)
					d := "domain"
					if which == 2 || which == 3 {
						d = "full"
					}
					loadIf(w, fmt.Sprintf("%s:load:%d", id, which), which, d, []string{"domain:a" + v1},
						"domain:"+L+".a"+v2+"\ndomain:b."+L+".a"+v3+"\n",
						[]irule{{2, "a", i1}, {2, L + ".a", i2}, {2, "b." + L + ".a", i3}},
						[]string{"s.a.", "s." + L + ".a.", "t.s.b." + L + ".a.", "b." + L + ".a.", "x" + L + ".a."})
				}
			}
		}
	}
	// names of 253 and 255 octets: four labels at or near the limit
	{
		A, B, C := mkLabel("a", 63), mkLabel("b", 63), mkLabel("ab", 63)
		for i, last := range []string{mkLabel("a", 61), mkLabel("b", 63), "a"} {
			id := fmt.Sprintf("cat:label:total:%d", i)
			if o.Want(id) {
				runMix(w, id, "", []rule{R("domain:"+last, 1), R("domain:"+C+"."+last, 2), R("domain:"+B+"."+C+"."+last, 3), R("full:"+A+"."+B+"."+C+"."+last, 4)},
					[]string{A + "." + B + "." + C + "." + last, A + "." + B + "." + C + "." + last + ".", B + "." + B + "." + C + "." + last, A + "." + C + "." + last, A + "." + last, A + "." + B + "." + C})
			}
		}
	}

	// the scanner's 64 KiB line limit, exactly at and around it, through every loader: a rule
	// before, the long line (a comment, or carrying a rule), rules after it
	for which := 0; which <= 4; which++ {
		val := func(v int) (string, []int) {
			switch which {
			case 2:
				return " 10.0.0." + strconv.Itoa(v), []int{v}
			case 3:
				return " v" + strconv.Itoa(v), []int{v}
			}
			return "", []int{}
		}
		d := "domain"
		if which == 2 || which == 3 {
			d = "full"
		}
		v1, i1 := val(1)
		v2, i2 := val(2)
		v3, i3 := val(3)
		intended := []irule{{2, "a.b", i1}, {1, "b.a", i2}, {4, "zz", i3}}
		names := []string{"s.a.b.", "b.a.", "azz.", "b."}
		for li, total := range []int{maxToken - 2, maxToken - 1, maxToken, maxToken + 1, 70000} {
			for variant := 0; variant < 3; variant++ {
				id := fmt.Sprintf("cat:long:%d:%d:%d", which, li, variant)
				if !o.Want(id) || (variant > 0 && (li+which)%2 == 0) {
					continue
				}
				var segs []tseg
				switch variant {
				case 0: // a long comment between the rules
					segs = append([]tseg{{lit: "domain:a.b" + v1 + "\n"}}, longLine(0, "", total)...)
					segs = append(segs, tseg{lit: "\nfull:b.a" + v2 + "\nkeyword:zz" + v3 + "\n"})
				case 1: // the second rule sits on the long line
					segs = append([]tseg{{lit: "domain:a.b" + v1 + "\n"}}, longLine(1, "full:b.a"+v2, total)...)
					segs = append(segs, tseg{lit: "\nkeyword:zz" + v3})
				default: // the long line is the last one and has no end of line
					segs = append([]tseg{{lit: "domain:a.b" + v1 + "\r\nfull:b.a" + v2 + "\r\n"}}, longLine(2, "keyword:zz"+v3, total)...)
				}
				runLoadX(w, id, which, d, nil, segs, -1, intended, names)
			}
		}
	}
	// a reader that fails after k bytes (raw loader)
	for i, cut := range []int{0, 4, 11, 12, 17, 22, 23} {
		id := fmt.Sprintf("cat:fault:%d", i)
		if o.Want(id) {
			runLoadX(w, id, 0, "domain", []string{"full:b"}, []tseg{{lit: "domain:a.b\nfull:b.a\n#c\n"}}, cut,
				[]irule{{1, "b", []int{}}, {2, "a.b", []int{}}, {1, "b.a", []int{}}}, []string{"s.a.b", "b.a", "b", "a", "b.a.b", "s.a"})
		}
	}

	n := o.Count(900, 30000)
	for i := 0; i < n; i++ {
		id := fmt.Sprintf("gen:%d", i)
		if !o.Want(id) {
			continue
		}
		r := hx.NewRNG(o.Seed, id)
		switch c := r.Intn(26); {
		case c < 11: // mix matcher, well-formed
			rs := genRuleSet(r, genDefault(r, false), 0, maxRules, maxDepth, false)
			runMix(w, id, rs.dflt, rs.rules, genNames(r, rs.intended, r.Range(2, 5), maxDepth, false))
		case c < 13: // mix matcher, malformed stream
			rs := genRuleSet(r, genDefault(r, true), 0, maxRules, maxDepth, true)
			runMix(w, id, rs.dflt, rs.rules, genNames(r, rs.intended, r.Range(2, 5), maxDepth, true))
		case c < 16: // one matcher on its own
			kind := r.Range(1, 4)
			malformed := r.Chance(1, 8)
			k := r.Range(1, maxRules)
			var rules []rule
			var ir []irule
			for j := 0; j < k; j++ {
				pat := genPattern(r, kind, maxDepth, malformed)
				if j > 0 && r.Chance(1, 4) {
					pat = rules[r.Intn(len(rules))].s
					if kind != 3 && r.Bool() {
						pat = strings.ToUpper(pat)
					}
					if (kind == 1 || kind == 2) && r.Chance(1, 3) {
						pat = hx.Pick(r, alphabet) + "." + pat
					}
				}
				v := []int{r.Range(1, 9)}
				rules = append(rules, rule{s: pat, v: v})
				ir = append(ir, irule{kind: kind, pat: pat, v: v})
			}
			runSingle(w, id, kind, rules, genNames(r, ir, r.Range(2, 5), maxDepth, malformed))
		case c < 20:
			genLoad(w, id, r, maxRules, maxDepth)
		case c < 21: // over-long lines and read faults
			genLoadX(w, id, r, maxDepth)
		case c < 23: // labels at the DNS length limit
			genLongLabels(w, id, r, maxRules)
		default: // domain sets assembled from members
			genCompose(w, id, r, maxDepth)
		}
	}
}
