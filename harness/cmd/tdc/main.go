// Driver for the scripted schedules on TraditionalDnsConn (C01, C02; C09 and C07 have combined drivers).
package main

import (
	"flag"

	"verifharness/hx"
	"verifharness/tdcx"
)

func main() {
	focus := flag.String("prop", "C01", "which property's catalogue and weights")
	o := hx.ParseFlags()
	w := hx.NewWriter(o)
	defer w.Close()
	tdcx.Drive(w, o, *focus, func(s string) string { return s })
}
