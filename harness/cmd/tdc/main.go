// Driver for the scripted schedules on TraditionalDnsConn (C01, C02, C09, C07 core).
package main

import (
	"flag"
	"fmt"
	"sort"

	"verifharness/hx"
	"verifharness/tdcx"
)

func main() {
	focus := flag.String("prop", "C01", "which property's catalogue and weights")
	o := hx.ParseFlags()
	w := hx.NewWriter(o)
	defer w.Close()

	emit := func(id string, s tdcx.Script, obs []tdcx.Obs, f tdcx.Final) {
		acts := make([]string, len(s.Actions))
		for i, a := range s.Actions {
			acts[i] = a.String()
		}
		fkey := ""
		if f.IdleRearm {
			fkey = "idle-rearm-with-outstanding"
		}
		w.Emit("script", hx.Case{ID: id, FKey: fkey, Coq: tdcx.CaseCoq(s, obs, f),
			Desc: map[string]any{"tcp": s.TCP, "maxcq": s.MaxCq, "nq0": s.Nq0, "actions": acts, "blocked": f.Blocked,
				"reserved": f.Reserved, "queued": f.Queued, "closed": f.Closed}})
		w.Tally("actions", len(s.Actions))
	}

	cat := tdcx.Catalogue()
	names := make([]string, 0, len(cat))
	for n := range cat {
		names = append(names, n)
	}
	sort.Strings(names)
	for _, n := range names {
		id := "cat:" + n
		if !o.Want(id) {
			continue
		}
		reps := 1
		if len(n) > 3 && n[:3] == "c02" {
			reps = o.Count(6, 40) / 2 // Go's select picks randomly among ready cases
		}
		for i := 0; i < reps; i++ {
			s, obs, f := tdcx.RunScript(cat[n])
			emit(id, s, obs, f)
		}
	}
	n := o.Count(700, 12000)
	for i := 0; i < n; i++ {
		id := fmt.Sprintf("gen:%s:%d", *focus, i)
		if !o.Want(id) {
			continue
		}
		r := hx.NewRNG(o.Seed, id)
		s0, next := tdcx.RandomNext(r, *focus, r.Range(8, 40))
		s, obs, f := tdcx.Run(s0, next)
		emit(id, s, obs, f)
	}
}
