// Driver for C11 (the in-memory cache store). Runs the real pkg/cache.Cache of
// /repo (on top of pkg/concurrent_map) and prints what it did as Judge.C11.case
// literals:
//
//	CSeq    one goroutine: Store/Get/Flush/Len/Range/gc over colliding keys,
//	        with the keys every Store evicted (Range before and after)
//	CConc   several goroutines: the invocation/response history ordered by a
//	        global atomic counter
//	CFill   keys 0..n-1 stored into caches of odd sizes: Len afterwards
//	CLenMax concurrent writers and a Len sampler: the largest sample
//
// Times: every expiry is at least an hour away from the wall clock, so the
// clock readings inside Get/Store cannot flip a verdict; gc gets an explicit
// time through VerifGC (build tag verif) and is aimed exactly at expiries.
package main

import (
	"fmt"
	"runtime"
	"sort"
	"sync"
	"sync/atomic"
	"time"

	"github.com/IrineSistiana/mosdns/v5/pkg/cache"
	"github.com/IrineSistiana/mosdns/v5/pkg/concurrent_lru"
	"github.com/IrineSistiana/mosdns/v5/pkg/verifhook"

	"verifharness/hx"
)

type key uint64

func (k key) Sum() uint64 { return uint64(k) }

type kve struct {
	k   uint64
	v   uint64
	exp int64 // seconds relative to base
}

type store struct {
	c    *cache.Cache[key, uint64]
	base time.Time
	unit time.Duration // unit of the relative times in the case (seconds; milliseconds for the expiry cases)
}

func newStore(size int) *store {
	// a long cleaner interval: the background sweep never runs during a case
	return &store{c: cache.New[key, uint64](cache.Opts{Size: size, CleanerInterval: time.Hour}), base: time.Now(), unit: time.Second}
}

func (s *store) at(rel int64) time.Time { return s.base.Add(time.Duration(rel) * s.unit) }
func (s *store) rel(t time.Time) int64  { return int64(t.Sub(s.base) / s.unit) }

func (s *store) rng() []kve {
	var out []kve
	s.c.Range(func(k key, v uint64, exp time.Time) error {
		out = append(out, kve{uint64(k), v, s.rel(exp)})
		return nil
	})
	sort.Slice(out, func(i, j int) bool { return out[i].k < out[j].k })
	return out
}

// ---------- operations ----------

type op struct {
	kind string // get store flush len range gc
	k    uint64
	v    uint64
	t    int64 // expiry (store) or sweep time (gc), relative seconds
}

func (o op) coq() string {
	switch o.kind {
	case "get":
		return hx.App("OGet", hx.N(o.k))
	case "store":
		return hx.App("OStore", hx.N(o.k), hx.N(o.v), hx.Z(o.t))
	case "flush":
		return "OFlush"
	case "len":
		return "OLen"
	case "range":
		return "ORange"
	}
	return hx.App("OGc", hx.Z(o.t))
}

func rangeCoq(l []kve) string {
	it := make([]string, len(l))
	for i, x := range l {
		it[i] = hx.Tuple(hx.N(x.k), hx.N(x.v), hx.Z(x.exp))
	}
	return hx.App("RRange", hx.List(it))
}

// do runs one operation on the real cache and returns the Gallina result.
func (s *store) do(o op) string {
	switch o.kind {
	case "get":
		v, exp, ok := s.c.Get(key(o.k))
		if !ok {
			return "(RGet None)"
		}
		return hx.App("RGet", hx.Some(hx.Tuple(hx.N(v), hx.Z(s.rel(exp)))))
	case "store":
		s.c.Store(key(o.k), o.v, s.at(o.t))
		return "RUnit"
	case "flush":
		s.c.Flush()
		return "RUnit"
	case "len":
		return hx.App("RLen", hx.Ni(s.c.Len()))
	case "range":
		return rangeCoq(s.rng())
	}
	s.c.VerifGC(s.at(o.t))
	return "RUnit"
}

// ---------- sequential cases ----------

func runSeq(w *hx.Writer, id string, size int, ops []op) {
	s := newStore(size)
	defer s.c.Close()
	var opsC, obsC []string
	evictions := 0
	panicked := hx.Recover(func() {
		for _, o := range ops {
			var evs []uint64
			if o.kind == "store" {
				before := s.rng()
				r := s.do(o)
				after := map[uint64]bool{}
				for _, x := range s.rng() {
					after[x.k] = true
				}
				for _, x := range before {
					if !after[x.k] {
						evs = append(evs, x.k)
					}
				}
				obsC = append(obsC, r)
			} else {
				obsC = append(obsC, s.do(o))
			}
			evictions += len(evs)
			opsC = append(opsC, hx.Tuple(o.coq(), hx.NList(evs)))
		}
	})
	if panicked != nil {
		obsC = append(obsC, "(RLen 999999999)") // a panic is never allowed
		opsC = append(opsC, hx.Tuple("OLen", "[]"))
	}
	w.Emit("seq", hx.Case{
		ID:   id,
		Coq:  hx.App("CSeq", hx.Z(int64(size)), hx.List(opsC), hx.List(obsC)),
		Desc: map[string]any{"kind": "seq", "size": size, "ops": len(ops), "evictions": evictions},
		FKey: "seq",
	})
}

// ---------- sequential case with real waiting (expiry inside Get / Store) ----------

type top struct {
	o  op
	at int64 // nominal time of the call, seconds after base
}

// runSeqT performs the script at its nominal times. The case is dropped (never
// reported) when a call ran more than a second late: every emitted clock
// reading is then at least two seconds away from every expiry in the script.
func runSeqT(w *hx.Writer, id string, size int, script []top) {
	s := newStore(size)
	defer s.c.Close()
	var opsC, obsC []string
	for _, x := range script {
		if d := time.Until(s.at(x.at)); d > 0 {
			time.Sleep(d)
		}
		var evs []uint64
		var r string
		if x.o.kind == "store" {
			before := s.rng()
			r = s.do(x.o)
			after := map[uint64]bool{}
			for _, y := range s.rng() {
				after[y.k] = true
			}
			for _, y := range before {
				if !after[y.k] {
					evs = append(evs, y.k)
				}
			}
		} else {
			r = s.do(x.o)
		}
		if late := time.Since(s.at(x.at)); late > time.Second {
			w.Tally("seqt-dropped-late", 1)
			return
		}
		obsC = append(obsC, r)
		opsC = append(opsC, hx.Tuple(x.o.coq(), hx.Z(x.at), hx.NList(evs)))
	}
	w.Emit("seqt", hx.Case{
		ID:   id,
		Coq:  hx.App("CSeqT", hx.Z(int64(size)), hx.List(opsC), hx.List(obsC)),
		Desc: map[string]any{"kind": "seqt", "size": size, "ops": len(script)},
		FKey: "seqt",
	})
}

var sizes = []int{-5, 0, 1, 10, 63, 64, 65, 100, 1000, 1023, 1024, 1025, 1087, 1088, 1100, 1151, 1152, 2000}

func perShard(size int) int {
	if size < 1024 {
		size = 1024
	}
	return size / 64
}

func genSeq(r *hx.RNG) (int, []op) {
	size := hx.Pick(r, sizes)
	per := perShard(size)
	s0 := uint64(r.Intn(64))
	s1 := uint64(r.Intn(64))
	var pool []uint64
	nCollide := per + 3
	if r.Chance(1, 3) {
		nCollide = 4 // no eviction: exact agreement on everything
	}
	for j := 0; j < nCollide; j++ {
		pool = append(pool, s0+64*uint64(j))
	}
	pool = append(pool, s1+64*100, s1+64*101, (1<<40)+s0, ^uint64(0)-uint64(r.Intn(64)))
	n := r.Range(15, 45)
	var ops []op
	var exps []int64
	tag := uint64(1)
	if nCollide > 4 { // fill the shard first so that the random part evicts
		for j := 0; j < per-r.Intn(3); j++ {
			e := int64(3600 + r.Intn(8))
			ops = append(ops, op{kind: "store", k: pool[j], v: tag, t: e})
			exps = append(exps, e)
			tag++
		}
		n = r.Range(12, 30)
	}
	for i := 0; i < n; i++ {
		x := r.Intn(100)
		switch {
		case x < 58:
			e := int64(3600 + r.Intn(8))
			if r.Chance(1, 10) {
				e = -3600 - int64(r.Intn(3))
			}
			k := hx.Pick(r, pool)
			if nCollide > 4 && r.Chance(2, 3) {
				k = pool[r.Intn(nCollide)]
			}
			ops = append(ops, op{kind: "store", k: k, v: tag, t: e})
			exps = append(exps, e)
			tag++
		case x < 78:
			ops = append(ops, op{kind: "get", k: hx.Pick(r, pool)})
		case x < 86:
			ops = append(ops, op{kind: "len"})
		case x < 90:
			ops = append(ops, op{kind: "range"})
		case x < 93:
			ops = append(ops, op{kind: "flush"})
		default:
			t := hx.Pick(r, []int64{-10000, 0, 100000})
			if len(exps) > 0 && r.Chance(3, 4) {
				t = hx.Pick(r, exps) + int64(r.Intn(3)) - 1 // just below, at, just above an expiry
			}
			ops = append(ops, op{kind: "gc", t: t})
		}
	}
	ops = append(ops, op{kind: "len"}, op{kind: "range"})
	return size, ops
}

// ---------- fill ----------

func runFill(w *hx.Writer, id string, size, n int) {
	s := newStore(size)
	defer s.c.Close()
	for j := 0; j < n; j++ {
		s.c.Store(key(j), uint64(j), s.at(3600))
	}
	l := s.c.Len()
	w.Emit("fill", hx.Case{
		ID:   id,
		Coq:  hx.App("CFill", hx.Z(int64(size)), hx.Ni(n), hx.Ni(l)),
		Desc: map[string]any{"kind": "fill", "size": size, "n": n, "len": l},
		FKey: "fill",
	})
}

// ---------- fill scripts: capacity after histories with Flush / gc / Close ----------

type fstep struct {
	kind string // stores flush gc close len
	from int
	n    int
	now  int64
}

func (f fstep) coq() string {
	switch f.kind {
	case "stores":
		return hx.App("FStores", hx.Ni(f.from), hx.Ni(f.n))
	case "flush":
		return "FFlush"
	case "gc":
		return hx.App("FGc", hx.Z(f.now))
	case "close":
		return "FClose"
	}
	return "FLen"
}

func runFillSeq(w *hx.Writer, id string, size int, steps []fstep) {
	s := newStore(size)
	defer s.c.Close()
	var stepsC []string
	var lens []int
	maxLen := 0
	for _, f := range steps {
		switch f.kind {
		case "stores":
			for j := 0; j < f.n; j++ {
				s.c.Store(key(f.from+j), uint64(f.from+j), s.at(3600))
			}
		case "flush":
			s.c.Flush()
		case "gc":
			s.c.VerifGC(s.at(f.now))
		case "close":
			s.c.Close()
		default:
			l := s.c.Len()
			lens = append(lens, l)
			if l > maxLen {
				maxLen = l
			}
		}
		stepsC = append(stepsC, f.coq())
	}
	w.Emit("fillseq", hx.Case{
		ID:   id,
		Coq:  hx.App("CFillSeq", hx.Z(int64(size)), hx.List(stepsC), hx.NList(lens)),
		Desc: map[string]any{"kind": "fillseq", "size": size, "steps": len(steps), "max_len": maxLen},
		FKey: "fillseq",
	})
}

// catFill: fill beyond the capacity, flush, fill beyond it again, sweep everything, fill again,
// close the cleaner, fill again; Len after every step. Every key is stored once.
func catFill(size int) []fstep {
	n := 64*perShard(size) + 70
	L := fstep{kind: "len"}
	st := func(from int) fstep { return fstep{kind: "stores", from: from, n: n} }
	return []fstep{
		st(0), L, {kind: "flush"}, L, st(10000), L, {kind: "flush"}, st(20000), L,
		{kind: "gc", now: 100000}, L, st(30000), L, {kind: "gc", now: 0}, L,
		{kind: "close"}, st(40000), L, {kind: "flush"}, L, st(50000), L,
	}
}

func genFill(r *hx.RNG) (int, []fstep) {
	size := hx.Pick(r, sizes)
	capa := 64 * perShard(size)
	var steps []fstep
	next := 0
	stores := func(n int) {
		steps = append(steps, fstep{kind: "stores", from: next, n: n})
		next += n
	}
	L := fstep{kind: "len"}
	if r.Chance(1, 2) {
		stores(r.Range(0, 60))
	}
	k := r.Range(2, 5)
	closed := false
	for i := 0; i < k; i++ {
		switch x := r.Intn(10); {
		case x < 6:
			steps = append(steps, fstep{kind: "flush"})
		case x < 8:
			steps = append(steps, fstep{kind: "gc", now: hx.Pick(r, []int64{0, 3600, 100000})})
		case x < 9 && !closed:
			steps = append(steps, fstep{kind: "close"})
			closed = true
		}
		if r.Chance(1, 3) {
			steps = append(steps, L)
		}
		// a long run of distinct keys, around or beyond the capacity
		stores(hx.Pick(r, []int{capa - r.Range(1, 40), capa + r.Range(0, 3), capa + r.Range(20, 250)}))
		steps = append(steps, L)
		if r.Chance(1, 3) {
			stores(r.Range(1, 80))
			steps = append(steps, L)
		}
	}
	return size, steps
}

// ---------- expiry a few milliseconds ahead: a lookup after it must miss ----------

type ekey struct {
	k, v uint64
	near bool // expires a few ms after the start; otherwise an hour later
}

// runExpiry stores keys whose expiry lies X+3j ms ahead, checks that every Store really took
// place before the first expiry (otherwise it starts over with twice the X), waits until the
// clock has passed the last near expiry (waiting longer never hurts) and then looks the keys
// up: nothing but time passing lies between Store and Get -- no sweep, no eviction.
// Relative times in the case are milliseconds.
func runExpiry(w *hx.Writer, id string, size int, keys []ekey, gets []int, lookAll bool) {
	x := int64(40)
	for attempt := 0; attempt < 7; attempt, x = attempt+1, x*2 {
		s := newStore(size)
		s.unit = time.Millisecond
		var opsC, obsC []string
		var last int64
		exp := make([]int64, len(keys))
		for j, k := range keys {
			exp[j] = 3600000
			if k.near {
				exp[j] = x + 3*int64(j)
				last = exp[j]
			}
			o := op{kind: "store", k: k.k, v: k.v, t: exp[j]}
			obsC = append(obsC, s.do(o))
			opsC = append(opsC, hx.Tuple(o.coq(), hx.Z(0), "[]"))
		}
		present := len(s.rng()) == len(keys)
		if !present || time.Since(s.base) >= time.Duration(x)*time.Millisecond {
			s.c.Close() // too slow: some Store may have seen its expiry already; start over
			continue
		}
		for time.Since(s.base) <= time.Duration(last+2)*time.Millisecond {
			time.Sleep(time.Duration(last+3)*time.Millisecond - time.Since(s.base))
		}
		run := func(o op) {
			now := int64(time.Since(s.base) / time.Millisecond) // the call's own clock reading comes later
			obsC = append(obsC, s.do(o))
			opsC = append(opsC, hx.Tuple(o.coq(), hx.Z(now), "[]"))
		}
		for _, j := range gets {
			run(op{kind: "get", k: keys[j].k})
		}
		if lookAll { // every expired key was looked up (and thereby removed): Len and Range are exact
			run(op{kind: "len"})
			run(op{kind: "range"})
		}
		s.c.Close()
		w.Emit("expiry", hx.Case{
			ID:   id,
			Coq:  hx.App("CSeqT", hx.Z(int64(size)), hx.List(opsC), hx.List(obsC)),
			Desc: map[string]any{"kind": "expiry", "size": size, "keys": len(keys), "ahead_ms": x, "attempt": attempt},
			FKey: "expiry",
		})
		return
	}
	w.Tally("expiry-dropped-slow", 1)
}

func genExpiry(r *hx.RNG) (int, []ekey, []int, bool) {
	size := hx.Pick(r, sizes)
	n := r.Range(1, 6)
	s0 := uint64(r.Intn(64))
	keys := make([]ekey, n)
	anyNear := false
	for j := range keys {
		k := s0 + 64*uint64(j)
		if r.Chance(1, 3) {
			k = uint64(r.Intn(200))*64 + uint64(r.Intn(64))
		}
		for i := 0; i < j; i++ {
			if keys[i].k == k {
				k += 64 * 300
			}
		}
		keys[j] = ekey{k: k, v: uint64(100 + j), near: r.Chance(2, 3)}
		anyNear = anyNear || keys[j].near
	}
	if !anyNear {
		keys[0].near = true
	}
	var gets []int
	all := true
	for _, j := range r.Perm(n) {
		if r.Chance(5, 6) {
			gets = append(gets, j)
			if r.Chance(1, 3) {
				gets = append(gets, j) // the second lookup finds nothing either
			}
		} else if keys[j].near {
			all = false
		}
	}
	if len(gets) == 0 {
		gets, all = []int{0}, n == 1 || all
	}
	return size, keys, gets, all
}

// ---------- concurrent histories ----------

type event struct {
	ts  int64
	coq string
}

func runConc(w *hx.Writer, id string, r *hx.RNG, size int, g int, scripts [][]op) {
	s := newStore(size)
	defer s.c.Close()
	runConcOn(w, id, "conc", r, size, g, scripts, s.do)
}

// lruDo maps the cache operations onto a ShardedLRU (no expiry: every stored value carries
// the expiry 3600 of its script, gc = a Clean that removes nothing).
func lruDo(c *concurrent_lru.ShardedLRU[key, uint64]) func(op) string {
	return func(o op) string {
		switch o.kind {
		case "get":
			v, ok := c.Get(key(o.k))
			if !ok {
				return "(RGet None)"
			}
			return hx.App("RGet", hx.Some(hx.Tuple(hx.N(v), hx.Z(3600))))
		case "store":
			c.Add(key(o.k), o.v)
		case "flush":
			c.Flush()
		case "len":
			return hx.App("RLen", hx.Ni(c.Len()))
		case "gc":
			c.Clean(func(key, uint64) bool { return false })
		}
		return "RUnit"
	}
}

func runConcOn(w *hx.Writer, id, kind string, r *hx.RNG, size int, g int, scripts [][]op, do func(op) string) {
	var ctr atomic.Int64
	evs := make([][]event, g)
	start := make(chan struct{})
	var wg sync.WaitGroup
	// rounds: before round i every goroutine may wait (spinning) until all have finished
	// round i-1, so that the calls of one round start together and overlap
	rounds := 0
	for t := 0; t < g; t++ {
		if len(scripts[t]) > rounds {
			rounds = len(scripts[t])
		}
	}
	barrier := make([]bool, rounds)
	for i := range barrier {
		barrier[i] = r.Chance(2, 3)
	}
	var arrived atomic.Int64
	yields := make([][]bool, g)
	for t := 0; t < g; t++ {
		yields[t] = make([]bool, rounds)
		for i := range yields[t] {
			yields[t][i] = r.Chance(1, 6)
		}
	}
	var panics atomic.Int64
	for t := 0; t < g; t++ {
		wg.Add(1)
		go func(t int) {
			defer wg.Done()
			defer func() {
				if recover() != nil {
					panics.Add(1)
					arrived.Add(int64(rounds)) // never block the others
				}
			}()
			<-start
			for i := 0; i < rounds; i++ {
				if barrier[i] {
					for spin := 0; arrived.Load() < int64(g*i); spin++ {
						if spin%64 == 63 {
							runtime.Gosched()
						}
					}
				}
				if i >= len(scripts[t]) {
					arrived.Add(1)
					continue
				}
				o := scripts[t][i]
				if yields[t][i] {
					runtime.Gosched()
				}
				inv := ctr.Add(1)
				res := do(o)
				end := ctr.Add(1)
				evs[t] = append(evs[t],
					event{inv, hx.App("Inv", hx.Ni(t+1), o.coq())},
					event{end, hx.App("Res", hx.Ni(t+1), res)})
				arrived.Add(1)
			}
		}(t)
	}
	close(start)
	wg.Wait()
	var all []event
	for t := range evs {
		all = append(all, evs[t]...)
	}
	sort.Slice(all, func(i, j int) bool { return all[i].ts < all[j].ts })
	labels := make([]string, len(all))
	for i, e := range all {
		labels[i] = e.coq
	}
	if panics.Load() > 0 {
		labels = append(labels, "Res 99 RUnit") // ill-formed on purpose: a panic is never allowed
	}
	w.Emit(kind, hx.Case{
		ID:   id,
		Coq:  hx.App("CConc", hx.Z(int64(size)), hx.List(labels)),
		Desc: map[string]any{"kind": kind, "size": size, "goroutines": g, "events": len(all)},
		FKey: kind,
	})
}

// ---------- a lookup parked between reading the map and reading the entry ----------

var (
	raceMu   sync.Mutex
	raceGid  int64 // goroutine whose lookup is to be parked (0 = none)
	raceHit  chan struct{}
	raceRel  chan struct{}
	hookOnce sync.Once
)

func gid() int64 {
	var b [64]byte
	n := runtime.Stack(b[:], false)
	var id int64
	fmt.Sscanf(string(b[:n]), "goroutine %d ", &id)
	return id
}

// runRace: a Get(k1) is held at the schedule point cache.get.loaded (it has the entry, it has not read it yet)
// while the main goroutine runs the operations in mid (a sweep or flush that removes the entry, stores that
// may recycle memory), then the lookup resumes. The history goes to the same linearizability judge as the
// free-running ones: the lookup must return what was stored under k1 (or a miss), never another key's value.
func runRace(w *hx.Writer, id string, size int, pre []op, k1 uint64, mid []op, post []op) {
	hookOnce.Do(func() {
		verifhook.Set(func(name string) {
			if name != "cache.get.loaded" {
				return
			}
			raceMu.Lock()
			mine := raceGid != 0 && raceGid == gid()
			hit, rel := raceHit, raceRel
			if mine {
				raceGid = 0
			}
			raceMu.Unlock()
			if mine {
				close(hit)
				<-rel
			}
		})
	})
	s := newStore(size)
	defer s.c.Close()
	var labels []string
	run := func(t int, o op) {
		labels = append(labels, hx.App("Inv", hx.Ni(t), o.coq()))
		labels = append(labels, hx.App("Res", hx.Ni(t), s.do(o)))
	}
	for _, o := range pre {
		run(2, o)
	}
	get := op{kind: "get", k: k1}
	hit, rel := make(chan struct{}), make(chan struct{})
	done := make(chan string, 1)
	ready := make(chan struct{})
	go func() {
		raceMu.Lock()
		raceGid, raceHit, raceRel = gid(), hit, rel
		raceMu.Unlock()
		close(ready)
		done <- s.do(get)
	}()
	<-ready
	labels = append(labels, hx.App("Inv", "1", get.coq()))
	parked := false
	select {
	case <-hit:
		parked = true
	case res := <-done: // a miss never reaches the point
		labels = append(labels, hx.App("Res", "1", res))
		done <- res
	case <-time.After(3 * time.Second):
	}
	if parked {
		for _, o := range mid {
			run(2, o)
		}
		close(rel)
		select {
		case res := <-done:
			labels = append(labels, hx.App("Res", "1", res))
		case <-time.After(3 * time.Second):
		}
	} else {
		raceMu.Lock()
		raceGid = 0
		raceMu.Unlock()
	}
	for _, o := range post {
		run(2, o)
	}
	w.Emit("race", hx.Case{
		ID:   id,
		Coq:  hx.App("CConc", hx.Z(int64(size)), hx.List(labels)),
		Desc: map[string]any{"kind": "race", "size": size, "parked": parked, "events": len(labels)},
		FKey: "race",
	})
}

func genConc(r *hx.RNG) (int, int, [][]op) {
	size := hx.Pick(r, sizes)
	g := r.Range(2, 4)
	s0 := uint64(r.Intn(64))
	pool := []uint64{s0, s0 + 64, s0 + 1}
	if r.Chance(1, 4) { // enough colliding keys to force evictions under concurrency
		pool = nil
		for j := 0; j < perShard(size)+4; j++ {
			pool = append(pool, s0+64*uint64(j))
		}
	} else if r.Chance(1, 2) {
		pool = pool[:2]
	}
	total := r.Range(12, 36)
	scripts := make([][]op, g)
	for i := 0; i < total; i++ {
		t := r.Intn(g)
		tag := uint64((t+1)*1000 + len(scripts[t]) + 1)
		x := r.Intn(100)
		var o op
		switch {
		case x < 46:
			e := int64(3600 + r.Intn(4))
			if r.Chance(1, 12) {
				e = -3600
			}
			o = op{kind: "store", k: hx.Pick(r, pool), v: tag, t: e}
		case x < 86:
			o = op{kind: "get", k: hx.Pick(r, pool)}
		case x < 90:
			o = op{kind: "flush"}
		case x < 95:
			o = op{kind: "len"}
		case x < 97:
			o = op{kind: "range"}
		default:
			o = op{kind: "gc", t: hx.Pick(r, []int64{-7200, 0, 3601, 7200})}
		}
		scripts[t] = append(scripts[t], o)
	}
	return size, g, scripts
}

// ---------- Len sampled under concurrent writers ----------

// With flusher: a goroutine flushes (and sweeps with a clock reading that removes nothing) when
// writer 0 has done a quarter and a half of its stores, so the bound is checked on stores that
// come after a Flush, concurrently with it.
func runLenMax(w *hx.Writer, id string, size, writers, perWriter int, flusher bool) {
	s := newStore(size)
	defer s.c.Close()
	sig := make(chan struct{}, 4)
	var fw sync.WaitGroup
	flushes := 0
	if flusher {
		fw.Add(1)
		go func() {
			defer fw.Done()
			for range sig {
				s.c.Flush()
				s.c.VerifGC(s.at(0))
				flushes++
			}
		}()
	}
	var maxLen atomic.Int64
	stop := make(chan struct{})
	var sw sync.WaitGroup
	sw.Add(1)
	go func() {
		defer sw.Done()
		for {
			l := int64(s.c.Len())
			if l > maxLen.Load() {
				maxLen.Store(l)
			}
			select {
			case <-stop:
				return
			default:
			}
		}
	}()
	var wg sync.WaitGroup
	for t := 0; t < writers; t++ {
		wg.Add(1)
		go func(t int) {
			defer wg.Done()
			for j := 0; j < perWriter; j++ {
				if flusher && t == 0 && (j == perWriter/4 || j == perWriter/2) {
					sig <- struct{}{}
				}
				s.c.Store(key(t*perWriter+j), uint64(j), s.at(3600))
				if j%97 == 0 {
					s.c.Get(key(j))
				}
			}
		}(t)
	}
	wg.Wait()
	close(sig)
	fw.Wait()
	if flusher { // whatever the timing was: at least one Flush precedes this last overfill
		for j := 0; j < 64*perShard(size)+100; j++ {
			s.c.Store(key(1<<32+j), uint64(j), s.at(3600))
			if j%64 == 0 {
				if l := int64(s.c.Len()); l > maxLen.Load() {
					maxLen.Store(l)
				}
			}
		}
	}
	close(stop)
	sw.Wait()
	if l := int64(s.c.Len()); l > maxLen.Load() {
		maxLen.Store(l)
	}
	w.Emit("lenmax", hx.Case{
		ID:   id,
		Coq:  hx.App("CLenMax", hx.Z(int64(size)), hx.N(uint64(maxLen.Load()))),
		Desc: map[string]any{"kind": "lenmax", "size": size, "writers": writers, "flushes": flushes, "max_len": maxLen.Load()},
		FKey: "lenmax",
	})
}

// ---------- pkg/concurrent_lru + pkg/lru ----------

type lop struct {
	kind string // add get del clean len flush
	k, v uint64
	m, r uint64
}

func (o lop) coq() string {
	switch o.kind {
	case "add":
		return hx.App("LAdd", hx.N(o.k), hx.N(o.v))
	case "get":
		return hx.App("LGet", hx.N(o.k))
	case "del":
		return hx.App("LDel", hx.N(o.k))
	case "clean":
		return hx.App("LClean", hx.N(o.m), hx.N(o.r))
	case "len":
		return "LLen"
	}
	return "LFlush"
}

func runLru(w *hx.Writer, id string, shards, maxper int, ops []lop) {
	var ev []string
	c := concurrent_lru.NewShardedLRU[key, uint64](shards, maxper, func(k key, v uint64) {
		ev = append(ev, hx.Tuple(hx.N(uint64(k)), hx.N(v)))
	})
	var opsC, obsC []string
	evicted := 0
	for _, o := range ops {
		ev = nil
		res := "LRUnit"
		switch o.kind {
		case "add":
			c.Add(key(o.k), o.v)
		case "get":
			v, ok := c.Get(key(o.k))
			res = hx.App("LRGet", hx.Opt(ok, hx.N(v)))
		case "del":
			c.Del(key(o.k))
		case "clean":
			n := c.Clean(func(k key, v uint64) bool { return (uint64(k)+v)%o.m == o.r })
			res = hx.App("LRNum", hx.Ni(n))
		case "len":
			res = hx.App("LRNum", hx.Ni(c.Len()))
		default:
			c.Flush()
		}
		evicted += len(ev)
		opsC = append(opsC, o.coq())
		obsC = append(obsC, hx.Tuple(res, hx.List(ev)))
	}
	w.Emit("lru", hx.Case{
		ID:   id,
		Coq:  hx.App("CLru", hx.Ni(shards), hx.Ni(maxper), hx.List(opsC), hx.List(obsC)),
		Desc: map[string]any{"kind": "lru", "shards": shards, "maxper": maxper, "ops": len(ops), "evicted": evicted},
		FKey: "lru",
	})
}

func genLru(r *hx.RNG) (int, int, []lop) {
	shards := r.Range(1, 4)
	maxper := r.Range(1, 8)
	nk := shards*maxper + r.Range(-1, 3)
	if nk < 2 {
		nk = 2
	}
	if r.Chance(1, 3) {
		nk = r.Range(2, 4) // few keys: mostly overwrites
	}
	n := r.Range(10, 40)
	var ops []lop
	last := uint64(0)
	tag := uint64(1)
	for i := 0; i < n; i++ {
		k := uint64(r.Intn(nk))
		if r.Chance(1, 4) {
			k = last // the key touched last is the newest element of its shard
		}
		x := r.Intn(100)
		switch {
		case x < 50:
			ops = append(ops, lop{kind: "add", k: k, v: tag})
			tag++
			last = k
		case x < 76:
			ops = append(ops, lop{kind: "get", k: k})
			last = k
		case x < 83:
			ops = append(ops, lop{kind: "del", k: k})
		case x < 88:
			m := uint64(r.Range(1, 4))
			ops = append(ops, lop{kind: "clean", m: m, r: uint64(r.Intn(int(m)))})
		case x < 96:
			ops = append(ops, lop{kind: "len"})
		default:
			ops = append(ops, lop{kind: "flush"})
		}
	}
	for k := 0; k < nk && k < 6; k++ {
		ops = append(ops, lop{kind: "get", k: uint64(k)})
	}
	ops = append(ops, lop{kind: "len"})
	return shards, maxper, ops
}

func genConcLru(r *hx.RNG) (int, int, int, [][]op) {
	g := r.Range(2, 4)
	shards := r.Range(1, 2)
	maxper := r.Range(2, 8)
	pool := []uint64{4, 8, 5}[:r.Range(1, 3)]
	total := r.Range(12, 36)
	scripts := make([][]op, g)
	for i := 0; i < total; i++ {
		t := r.Intn(g)
		tag := uint64((t+1)*1000 + len(scripts[t]) + 1)
		var o op
		switch x := r.Intn(100); {
		case x < 48:
			o = op{kind: "store", k: hx.Pick(r, pool), v: tag, t: 3600}
		case x < 90:
			o = op{kind: "get", k: hx.Pick(r, pool)}
		case x < 93:
			o = op{kind: "flush"}
		case x < 97:
			o = op{kind: "len"}
		default:
			o = op{kind: "gc", t: 0}
		}
		scripts[t] = append(scripts[t], o)
	}
	return g, shards, maxper, scripts
}

// ---------- one full shard hammered by overwrites of present keys and stores of absent ones ----------

// runLenHot: every shard is filled to its limit; then the goroutines store keys of ONE shard
// taken from a pool slightly larger than the shard's limit, so that at any moment most of the
// pool is present (overwrites) and a few keys are absent (their insertion evicts a present
// key). Len is read by every goroutine after each of its stores and by a sampler.
func runLenHot(w *hx.Writer, id string, r *hx.RNG, size, workers, perWorker int) {
	s := newStore(size)
	defer s.c.Close()
	per := perShard(size)
	for j := 0; j < 64*(per+1); j++ { // every shard full
		s.c.Store(key(j), uint64(j), s.at(3600))
	}
	s0 := uint64(r.Intn(64))
	extra := r.Range(1, 3)
	pool := make([]uint64, per+extra)
	for j := range pool {
		pool[j] = s0 + 64*uint64(j)
	}
	var maxLen atomic.Int64
	note := func() {
		if l := int64(s.c.Len()); l > maxLen.Load() {
			maxLen.Store(l)
		}
	}
	note()
	stop := make(chan struct{})
	var sw sync.WaitGroup
	sw.Add(1)
	go func() {
		defer sw.Done()
		for {
			note()
			select {
			case <-stop:
				return
			default:
			}
		}
	}()
	seeds := make([]uint64, workers)
	for t := range seeds {
		seeds[t] = r.U64()
	}
	start := make(chan struct{})
	var wg sync.WaitGroup
	for t := 0; t < workers; t++ {
		wg.Add(1)
		go func(t int) {
			defer wg.Done()
			x := seeds[t] | 1
			<-start
			for j := 0; j < perWorker; j++ {
				x ^= x << 13
				x ^= x >> 7
				x ^= x << 17
				s.c.Store(key(pool[x%uint64(len(pool))]), uint64(t*perWorker+j), s.at(3600))
				if j%4 == 0 {
					note()
				}
			}
		}(t)
	}
	close(start)
	wg.Wait()
	close(stop)
	sw.Wait()
	note()
	w.Emit("lenhot", hx.Case{
		ID:   id,
		Coq:  hx.App("CLenMax", hx.Z(int64(size)), hx.N(uint64(maxLen.Load()))),
		Desc: map[string]any{"kind": "lenhot", "size": size, "workers": workers, "stores": workers * perWorker, "max_len": maxLen.Load()},
		FKey: "lenhot",
	})
}

// ---------- main ----------

func main() {
	o := hx.ParseFlags()
	w := hx.NewWriter(o)
	defer w.Close()
	hx.Watchdog(w, 150*time.Second) // a store operation that never returns (a lost lock) must not cost the whole run

	// catalogue: expiry as Get and Store see it (runs in the background, about 6 s)
	var bg sync.WaitGroup
	defer bg.Wait()
	for i, size := range []int{10, 1100} {
		id := fmt.Sprintf("cat:seqt:%d", i)
		if !o.Want(id) {
			continue
		}
		St := func(at int64, k, v uint64, e int64) top { return top{op{kind: "store", k: k, v: v, t: e}, at} }
		Gt := func(at int64, k uint64) top { return top{op{kind: "get", k: k}, at} }
		Lt := func(at int64) top { return top{op{kind: "len"}, at} }
		script := []top{
			St(0, 1, 11, 3), St(0, 65, 12, 3600), St(0, 2, 13, 3), Gt(0, 1), Gt(0, 2), Lt(0),
			Gt(6, 1), Lt(6), // expired: hidden and removed by the lookup
			Gt(6, 65), {op{kind: "range"}, 6}, // key 2 is expired but still stored
			St(6, 3, 14, 3), Gt(6, 3), Lt(6), // storing an expired value is a no-op
			{op{kind: "gc", t: 6}, 6}, Lt(6), Gt(6, 2), {op{kind: "range"}, 6},
		}
		bg.Add(1)
		go func(id string, size int) {
			defer bg.Done()
			runSeqT(w, id, size, script)
		}(id, size)
	}

	// catalogue: fills around the capacity of every size class
	for _, size := range sizes {
		capa := 64 * perShard(size)
		for _, n := range []int{capa - 1, capa + 130} {
			id := fmt.Sprintf("cat:fill:%d:%d", size, n)
			if o.Want(id) {
				runFill(w, id, size, n)
			}
		}
	}
	// catalogue: a lookup parked between reading the map and reading the entry
	{
		St := func(k, v uint64, e int64) op { return op{kind: "store", k: k, v: v, t: e} }
		G := func(k uint64) op { return op{kind: "get", k: k} }
		Gc := func(t int64) op { return op{kind: "gc", t: t} }
		L := op{kind: "len"}
		type rc struct {
			pre  []op
			k    uint64
			mid  []op
			post []op
		}
		races := []rc{
			// the entry is swept away under the parked lookup and other keys are stored (memory may be reused)
			{[]op{St(130, 1301, 100)}, 130, []op{Gc(200), St(131, 1311, 3600), St(132, 1321, 3600)}, []op{G(130), G(131), L}},
			{[]op{St(130, 1301, 100), St(7, 71, 100)}, 130, []op{Gc(200), St(131, 1311, 3600), St(7, 72, 3600), St(130, 1302, 3600)}, []op{G(130), G(7)}},
			// flushed away, then stores
			{[]op{St(5, 51, 3600)}, 5, []op{{kind: "flush"}, St(6, 61, 3600), St(69, 691, 3600)}, []op{G(5), G(6)}},
			// overwritten under the parked lookup: old or new value, nothing else
			{[]op{St(9, 91, 3600)}, 9, []op{St(9, 92, 3600), St(73, 731, 3600)}, []op{G(9)}},
			// control: the sweep finds nothing to delete
			{[]op{St(11, 111, 3600)}, 11, []op{Gc(200), St(12, 121, 3600)}, []op{G(11), G(12)}},
		}
		for i, x := range races {
			for j, size := range []int{1100, 10} {
				id := fmt.Sprintf("cat:race:%d:%d", i, j)
				if o.Want(id) {
					runRace(w, id, size, x.pre, x.k, x.mid, x.post)
				}
			}
		}
	}
	// catalogue: hand-written sequential boundary scripts
	S := func(k, v uint64, e int64) op { return op{kind: "store", k: k, v: v, t: e} }
	G := func(k uint64) op { return op{kind: "get", k: k} }
	GC := func(t int64) op { return op{kind: "gc", t: t} }
	L, R, F := op{kind: "len"}, op{kind: "range"}, op{kind: "flush"}
	full16 := []op{}
	for j := 0; j < 16; j++ {
		full16 = append(full16, S(7+64*uint64(j), uint64(100+j), 3600))
	}
	cat := [][]op{
		{G(1), L, R},
		{S(1, 11, 3600), G(1), S(1, 12, 3601), G(1), L, R},
		{S(1, 11, -3600), G(1), L},                                                          // already expired: Store is a no-op
		{S(1, 11, 3600), S(1, 12, -3600), G(1), L},                                          // ... and does not overwrite
		{S(1, 11, 3600), F, G(1), L, S(1, 12, 3600), G(1)},                                  // flush, store again
		{S(1, 11, 3600), S(65, 12, 3700), GC(3600), G(1), G(65), L},                         // sweep exactly at the expiry: kept
		{S(1, 11, 3600), S(65, 12, 3700), GC(3601), G(1), G(65), L},                         // one second later: removed
		{S(1, 11, 3600), S(65, 12, 3700), GC(100000), L, R},                                 // everything removed
		{S(5, 1, 3600), S(69, 2, 3600), S(133, 3, 3600), G(5), G(69), G(133), G(197), L, R}, // one shard
		{S(5, 1, 3600), S(6, 2, 3600), S(1<<63+5, 3, 3600), G(5), G(6), G(1<<63 + 5), L},
		append(append([]op{}, full16...), L, S(7+64*16, 999, 3600), L, R),  // 17th key of a shard evicts one
		append(append([]op{}, full16...), S(7, 998, 3600), L, G(7), R),     // overwrite in a full shard evicts too
		append(append([]op{}, full16...), S(8, 997, 3600), L, GC(3601), L), // another shard is not affected
	}
	for i, ops := range cat {
		for _, size := range []int{0, 1087, 1088} {
			id := fmt.Sprintf("cat:seq:%d:%d", i, size)
			if o.Want(id) {
				runSeq(w, id, size, ops)
			}
		}
	}
	for i, size := range []int{-1, 10, 1024, 1100} {
		id := fmt.Sprintf("cat:lenmax:%d", i)
		if o.Want(id) {
			runLenMax(w, id, size, 4, 1500, false)
		}
		id = fmt.Sprintf("cat:lenmaxflush:%d", i)
		if o.Want(id) {
			runLenMax(w, id, size, 4, 1500, true)
		}
	}
	// catalogue: a full shard under concurrent overwrites and insertions
	for i, size := range []int{-1, 10, 1024, 1100, 2000} {
		id := fmt.Sprintf("cat:lenhot:%d", i)
		if o.Want(id) {
			runLenHot(w, id, hx.NewRNG(o.Seed, id), size, 8, 12000)
		}
	}
	// catalogue: LRU scripts
	{
		A := func(k, v uint64) lop { return lop{kind: "add", k: k, v: v} }
		G := func(k uint64) lop { return lop{kind: "get", k: k} }
		D := func(k uint64) lop { return lop{kind: "del", k: k} }
		C := func(m, r uint64) lop { return lop{kind: "clean", m: m, r: r} }
		L, F := lop{kind: "len"}, lop{kind: "flush"}
		type lc struct {
			shards, maxper int
			ops            []lop
		}
		lcs := []lc{
			{4, 16, []lop{A(4, 1), A(8, 1), A(4, 2), G(4), A(4, 3), G(4), L}},                           // overwrite an older entry, then the newest one
			{1, 2, []lop{A(1, 1), A(1, 2), G(1), A(2, 1), A(1, 3), G(1), A(3, 1), G(2), G(1), G(3), L}}, // recency decides the victim
			{1, 1, []lop{A(1, 1), A(2, 2), G(1), G(2), A(2, 3), G(2), D(2), G(2), L}},
			{2, 2, []lop{A(0, 1), A(2, 2), A(4, 3), A(1, 4), G(0), G(2), G(4), G(1), L, F, L, G(1)}},
			{1, 4, []lop{A(1, 1), A(2, 2), A(3, 3), A(3, 4), C(2, 0), L, G(1), G(2), G(3), C(1, 0), L}}, // Clean sees the current values
			{3, 2, []lop{A(5, 1), G(5), A(5, 2), D(5), A(5, 3), A(5, 4), G(5), D(7), L}},
		}
		for i, x := range lcs {
			id := fmt.Sprintf("cat:lru:%d", i)
			if o.Want(id) {
				runLru(w, id, x.shards, x.maxper, x.ops)
			}
		}
	}
	// catalogue: fill beyond capacity, flush, fill again, sweep, fill again, close, fill again
	for _, size := range sizes {
		id := fmt.Sprintf("cat:fillseq:%d", size)
		if o.Want(id) {
			runFillSeq(w, id, size, catFill(size))
		}
	}
	// catalogue: expiry a few milliseconds ahead (in the background; no other case is timed)
	{
		N, F := true, false
		type ec struct {
			keys []ekey
			gets []int
			all  bool
		}
		ecs := []ec{
			{[]ekey{{1, 11, N}}, []int{0}, true},
			{[]ekey{{1, 11, N}}, []int{0, 0}, true},
			{[]ekey{{1, 11, N}, {65, 12, F}}, []int{1, 0, 1}, true},
			{[]ekey{{5, 51, N}, {69, 52, N}, {133, 53, N}, {6, 54, F}}, []int{2, 0, 1, 3}, true},
			{[]ekey{{5, 51, N}, {69, 52, N}, {6, 54, F}}, []int{1, 2}, false}, // key 5 stays unlooked
			{[]ekey{{1<<63 + 9, 91, N}, {9, 92, F}, {73, 93, N}}, []int{0, 1, 2, 0, 2}, true},
		}
		for i, x := range ecs {
			for j, size := range []int{10, 1100} {
				id := fmt.Sprintf("cat:expiry:%d:%d", i, j)
				if !o.Want(id) {
					continue
				}
				bg.Add(1)
				go func(id string, size int, x ec) {
					defer bg.Done()
					runExpiry(w, id, size, x.keys, x.gets, x.all)
				}(id, size, x)
			}
		}
	}

	// generated
	n := o.Count(260, 6000)
	for i := 0; i < n; i++ {
		id := fmt.Sprintf("seq:%d", i)
		if !o.Want(id) {
			continue
		}
		r := hx.NewRNG(o.Seed, id)
		size, ops := genSeq(r)
		runSeq(w, id, size, ops)
	}
	nc := o.Count(800, 20000)
	for i := 0; i < nc; i++ {
		id := fmt.Sprintf("conc:%d", i)
		if !o.Want(id) {
			continue
		}
		r := hx.NewRNG(o.Seed, id)
		size, g, scripts := genConc(r)
		runConc(w, id, r, size, g, scripts)
	}
	nlr := o.Count(150, 5000)
	for i := 0; i < nlr; i++ {
		id := fmt.Sprintf("lru:%d", i)
		if !o.Want(id) {
			continue
		}
		r := hx.NewRNG(o.Seed, id)
		shards, maxper, ops := genLru(r)
		runLru(w, id, shards, maxper, ops)
	}
	ncl := o.Count(100, 3000)
	for i := 0; i < ncl; i++ {
		id := fmt.Sprintf("conclru:%d", i)
		if !o.Want(id) {
			continue
		}
		r := hx.NewRNG(o.Seed, id)
		g, shards, maxper, scripts := genConcLru(r)
		c := concurrent_lru.NewShardedLRU[key, uint64](shards, maxper, nil)
		runConcOn(w, id, "conclru", r, 1024, g, scripts, lruDo(c))
	}
	nh := o.Count(6, 100)
	for i := 0; i < nh; i++ {
		id := fmt.Sprintf("lenhot:%d", i)
		if !o.Want(id) {
			continue
		}
		r := hx.NewRNG(o.Seed, id)
		runLenHot(w, id, r, hx.Pick(r, sizes), r.Range(4, 12), r.Range(4000, 12000))
	}
	nf := o.Count(40, 1200)
	for i := 0; i < nf; i++ {
		id := fmt.Sprintf("fillseq:%d", i)
		if !o.Want(id) {
			continue
		}
		r := hx.NewRNG(o.Seed, id)
		size, steps := genFill(r)
		runFillSeq(w, id, size, steps)
	}
	ne := o.Count(24, 600)
	for i := 0; i < ne; i++ {
		id := fmt.Sprintf("expiry:%d", i)
		if !o.Want(id) {
			continue
		}
		r := hx.NewRNG(o.Seed, id)
		size, keys, gets, all := genExpiry(r)
		runExpiry(w, id, size, keys, gets, all)
	}
	nl := o.Count(6, 80)
	for i := 0; i < nl; i++ {
		id := fmt.Sprintf("lenmax:%d", i)
		if !o.Want(id) {
			continue
		}
		r := hx.NewRNG(o.Seed, id)
		runLenMax(w, id, hx.Pick(r, sizes), r.Range(2, 8), r.Range(300, 1200), r.Chance(2, 3))
	}
}
