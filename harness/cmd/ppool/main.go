// Stand-alone driver of the pipeline pool scripts (debug aid; the property drivers c07, c08, c09 embed ppx).
package main

import (
	"verifharness/hx"
	"verifharness/ppx"
)

func main() {
	o := hx.ParseFlags()
	w := hx.NewWriter(o)
	defer w.Close()
	ppx.Drive(w, o, func(s string) string { return s })
}
