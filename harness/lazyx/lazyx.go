// Package lazyx runs scripted schedules against the real lazyDnsConn
// (transport.VerifNewLazyDnsConn) over a dummy real connection with a capacity
// counter, and renders script + observations as a Judge.Lazy.case.
package lazyx

import (
	"bytes"
	"context"
	"errors"
	"fmt"
	"runtime"
	"sort"
	"strconv"
	"strings"
	"sync"
	"time"

	"verifharness/hx"

	"github.com/IrineSistiana/mosdns/v5/pkg/upstream/transport"
	"github.com/IrineSistiana/mosdns/v5/pkg/verifhook"
)

type Kind int

const (
	YReserve Kind = iota
	YReserveBg
	YWithdraw
	YStart
	YCancel
	YDial
	YReRes
	YInnerDone
	YInnerClose
	YClose
)

type Action struct {
	K  Kind
	C  int
	Ok bool
}

func (a Action) Coq() string {
	c := hx.Nat(a.C)
	switch a.K {
	case YReserve:
		return hx.App("YReserve", c)
	case YReserveBg:
		return hx.App("YReserveBg", c)
	case YWithdraw:
		return hx.App("YWithdraw", c)
	case YStart:
		return hx.App("YStart", c)
	case YCancel:
		return hx.App("YCancel", c)
	case YDial:
		return hx.App("YDial", hx.Bool(a.Ok))
	case YReRes:
		return hx.App("YReRes", c)
	case YInnerDone:
		return hx.App("YInnerDone", c, hx.Bool(a.Ok))
	case YInnerClose:
		return "YInnerClose"
	case YClose:
		return "YClose"
	}
	return "?"
}
func (a Action) String() string {
	return strings.NewReplacer("(", "", ")", "", "%nat", "").Replace(a.Coq())
}

type Pair struct{ C, Code int }
type Obs struct {
	Code int
	Ret  []Pair
	Bg   []Pair
}

func pairs(ps []Pair) string {
	it := make([]string, len(ps))
	for i, p := range ps {
		it[i] = hx.Tuple(hx.Nat(p.C), hx.Ni(p.Code))
	}
	return hx.List(it)
}
func (o Obs) Coq() string { return hx.App("mkZObs", hx.Ni(o.Code), pairs(o.Ret), pairs(o.Bg)) }

type Script struct {
	MaxQ, IMax int
	Actions    []Action
}
type Final struct {
	Reserved, Inner int
	Blocked         []int
}

func CaseCoq(s Script, obs []Obs, f Final) string {
	it := make([]string, len(s.Actions))
	for i := range s.Actions {
		it[i] = hx.Tuple(s.Actions[i].Coq(), obs[i].Coq())
	}
	bl := make([]string, len(f.Blocked))
	for i, c := range f.Blocked {
		bl[i] = hx.Nat(c)
	}
	return hx.App("CLazy", hx.Ni(s.MaxQ), hx.Ni(s.IMax), hx.List(it), hx.Ni(f.Reserved), hx.Ni(f.Inner), hx.List(bl))
}

// ---------- the dummy real connection ----------

var errInner = errors.New("lazyx: inner exchange failed")

type dummy struct {
	mu      sync.Mutex
	count   int
	max     int
	closed  bool
	finish  map[int]chan bool
	started chan int
}

type dummyRx struct{ d *dummy }

func (d *dummy) ReserveNewQuery() (transport.ReservedExchanger, bool) {
	d.mu.Lock()
	defer d.mu.Unlock()
	if d.closed {
		return nil, true
	}
	if d.count >= d.max {
		return nil, false
	}
	d.count++
	return &dummyRx{d}, false
}
func (d *dummy) Close() error {
	d.mu.Lock()
	d.closed = true
	d.mu.Unlock()
	return nil
}
func (r *dummyRx) ExchangeReserved(ctx context.Context, q []byte) (*[]byte, error) {
	c, _ := strconv.Atoi(string(q))
	r.d.mu.Lock()
	ch := make(chan bool, 1)
	r.d.finish[c] = ch
	r.d.mu.Unlock()
	r.d.started <- c
	ok := <-ch
	r.d.mu.Lock()
	r.d.count--
	r.d.mu.Unlock()
	if ok {
		b := []byte("ok")
		return &b, nil
	}
	return nil, errInner
}
func (r *dummyRx) WithdrawReserved() {
	r.d.mu.Lock()
	r.d.count--
	r.d.mu.Unlock()
}

// ---------- executor ----------

type cst int

const (
	CNone cst = iota
	CEarly
	CWaitDial
	CAtHook
	CInnerHeld // holds a reservation of the real connection, exchange not started
	CInnerRun
	CDone
	CBg // background reservation still blocked
)

type call struct {
	early     bool
	st        cst
	rx        transport.ReservedExchanger
	cancel    context.CancelFunc
	ctx       context.Context
	done      chan int
	cancelled bool
	release   chan struct{}
	bg        chan bgRes
}
type bgRes struct {
	rx     transport.ReservedExchanger
	closed bool
}

type View struct {
	Early    map[int]bool // the call entered while the connection was dialing
	St       map[int]cst
	Dialing  bool
	DialOk   bool
	Closed   bool
	InnerCls bool
	Steps    int
}

func (v *View) count(s cst) int {
	n := 0
	for _, x := range v.St {
		if x == s {
			n++
		}
	}
	return n
}

// Applicable: what the script may do next. A foreground reservation is only
// issued when it cannot block (no early caller still has to re-reserve).
//
// A late reserver blocked behind early callers holds the connection's mutex
// inside wg.Wait(); every exit of an early caller (and Close) then has to wait
// for that mutex. The model treats those exits as atomic, so the script only
// parks a background reserver when exactly ONE early caller is pending and,
// while it is parked, only takes steps that cannot queue up behind the mutex.
func (v *View) Applicable(a Action) bool {
	pendingEarly := v.count(CEarly) + v.count(CWaitDial) + v.count(CAtHook)
	bg := v.count(CBg) > 0
	switch a.K {
	case YReserve:
		return v.St[a.C] == CNone && !(v.DialOk && pendingEarly > 0) && !bg
	case YReserveBg:
		return v.St[a.C] == CNone && !bg && (!v.DialOk || pendingEarly <= 1)
	case YWithdraw:
		return v.St[a.C] == CEarly
	case YStart:
		return v.St[a.C] == CEarly
	case YCancel:
		return v.St[a.C] == CWaitDial || v.St[a.C] == CAtHook || v.St[a.C] == CInnerRun // not CEarly: a cancelled caller starting after the dial makes the select a coin toss
	case YDial:
		return v.Dialing
	case YReRes:
		return v.St[a.C] == CAtHook
	case YInnerDone:
		return (v.St[a.C] == CInnerRun && !(bg && v.Early[a.C])) || v.St[a.C] == CInnerHeld
	case YInnerClose:
		return v.DialOk && !v.InnerCls
	case YClose:
		return !v.Closed && !bg
	}
	return false
}

var mu sync.Mutex

// Stuck counts scripts in which some step did not complete within the hang timeout.
var Stuck int

const wait = 3 * time.Second

func gid() int64 {
	var b [64]byte
	n := runtime.Stack(b[:], false)
	f := bytes.Fields(b[:n])
	id, _ := strconv.ParseInt(string(f[1]), 10, 64)
	return id
}

func errCode(err error) int {
	switch {
	case err == nil:
		return 0
	case errors.Is(err, context.Canceled):
		return 1
	case errors.Is(err, errDial):
		return 2
	case errors.Is(err, transport.ErrLazyConnCannotReserveQueryExchanger):
		return 4
	case errors.Is(err, errInner):
		return 5
	case strings.Contains(err.Error(), "lazy dial canceled"):
		return 3
	}
	return 8
}

var errDial = errors.New("lazyx: injected dial error")

func Run(s Script, next func(v *View) *Action) (Script, []Obs, Final) {
	mu.Lock()
	defer mu.Unlock()
	s.Actions = nil
	d := &dummy{max: s.IMax, finish: map[int]chan bool{}, started: make(chan int, 64)}
	dialCh := make(chan bool, 1)
	dialing, dialOk, closed, innerClosed := true, false, false, false
	lc := transport.VerifNewLazyDnsConn(func(ctx context.Context) (transport.DnsConn, error) {
		select {
		case ok := <-dialCh:
			if ok {
				return d, nil
			}
			return nil, errDial
		case <-ctx.Done():
			return nil, ctx.Err()
		}
	}, time.Minute, s.MaxQ)

	calls := map[int]*call{}
	var gmu sync.Mutex
	gids := map[int64]int{}
	hookHit := make(chan int, 64)
	dialFinished := make(chan struct{}, 1)
	verifhook.Set(func(name string) {
		if name == "lazy.dial.finished" {
			select {
			case dialFinished <- struct{}{}:
			default:
			}
			return
		}
		if name != "lazy.early.reserve" {
			return
		}
		g := gid()
		gmu.Lock()
		c, ok := gids[g]
		var rel chan struct{}
		if ok {
			rel = calls[c].release
		}
		gmu.Unlock()
		if !ok {
			return
		}
		hookHit <- c
		<-rel
	})
	defer verifhook.Set(nil)

	classify := func(rx transport.ReservedExchanger, cl bool) int {
		if rx != nil {
			if _, ok := rx.(*dummyRx); ok {
				return 1
			}
			return 0
		}
		if cl {
			return 3
		}
		return 2
	}
	settle := func(c int, code int, rx transport.ReservedExchanger) {
		cr := calls[c]
		cr.rx = rx
		switch code {
		case 0:
			cr.st = CEarly
			cr.early = true
		case 1:
			cr.st = CInnerHeld
		default:
			cr.st = CDone
		}
	}
	startExchange := func(c int) {
		cr := calls[c]
		cr.done = make(chan int, 1)
		gmu.Lock()
		cr.release = make(chan struct{})
		gmu.Unlock()
		ready := make(chan struct{})
		go func() {
			g := gid()
			gmu.Lock()
			gids[g] = c
			gmu.Unlock()
			close(ready)
			_, err := cr.rx.ExchangeReserved(cr.ctx, []byte(strconv.Itoa(c)))
			gmu.Lock()
			delete(gids, g)
			gmu.Unlock()
			cr.done <- errCode(err)
		}()
		<-ready
	}
	get := func(c int) *call {
		if calls[c] == nil {
			ctx, cancel := context.WithCancel(context.Background())
			calls[c] = &call{ctx: ctx, cancel: cancel}
		}
		return calls[c]
	}
	// wait for call c to reach the hook, the real exchange, or to return
	progress := func(c int, o *Obs) {
		cr := calls[c]
		select {
		case r := <-cr.done:
			o.Ret = append(o.Ret, Pair{c, r})
			cr.st = CDone
		case h := <-hookHit:
			if h == c {
				cr.st = CAtHook
			}
		case st := <-d.started:
			if st == c {
				cr.st = CInnerRun
			}
		case <-time.After(wait):
		}
	}
	var obs []Obs
	stuck := false
	// guard runs a call of the real code that must not block; a hang marks the script stuck
	guard := func(f func()) {
		done := make(chan struct{})
		go func() { f(); close(done) }()
		select {
		case <-done:
		case <-time.After(wait):
			stuck = true
		}
	}
	view := func() *View {
		v := &View{St: map[int]cst{}, Early: map[int]bool{}, Dialing: dialing, DialOk: dialOk, Closed: closed, InnerCls: innerClosed, Steps: len(s.Actions)}
		for c, cr := range calls {
			v.St[c] = cr.st
			v.Early[c] = cr.early
		}
		return v
	}
	bgOrder := []int{}
	for {
		if stuck {
			break
		}
		v := view()
		ap := next(v)
		if ap == nil {
			// never end a script with a reservation still parked behind an early
			// caller (it holds the connection's mutex): let that caller through
			if v.count(CBg) == 0 {
				break
			}
			var d *Action
			for c, st := range v.St {
				if st == CAtHook {
					d = &Action{K: YReRes, C: c}
				} else if st == CEarly {
					d = &Action{K: YWithdraw, C: c}
				}
			}
			if d == nil {
				break
			}
			ap = d
		}
		a := *ap
		if !v.Applicable(a) {
			continue
		}
		s.Actions = append(s.Actions, a)
		o := Obs{}
		cr := get(a.C)
		switch a.K {
		case YReserve, YReserveBg:
			ch := make(chan bgRes, 1)
			go func() {
				rx, cl := lc.ReserveNewQuery()
				ch <- bgRes{rx, cl}
			}()
			tmo := wait
			if a.K == YReserveBg {
				tmo = 40 * time.Millisecond
			}
			select {
			case r := <-ch:
				o.Code = classify(r.rx, r.closed)
				settle(a.C, o.Code, r.rx)
			case <-time.After(tmo):
				if a.K == YReserve {
					stuck = true
				}
				o.Code = 9
				cr.st = CBg
				cr.bg = ch
				bgOrder = append(bgOrder, a.C)
			}
		case YWithdraw:
			guard(cr.rx.WithdrawReserved)
			cr.st = CDone
		case YStart:
			startExchange(a.C)
			cr.st = CWaitDial
			if !dialing {
				progress(a.C, &o)
			}
		case YCancel:
			cr.cancelled = true
			cr.cancel()
			if cr.st == CWaitDial {
				progress(a.C, &o)
			}
		case YDial:
			dialCh <- a.Ok
			select {
			case <-dialFinished:
			case <-time.After(wait):
			}
			dialing = false
			dialOk = a.Ok
			ids := []int{}
			for c, x := range calls {
				if x.st == CWaitDial {
					ids = append(ids, c)
				}
			}
			sort.Ints(ids)
			pendingN := len(ids)
			// they race to the hook / to their return: collect pendingN events
			for i := 0; i < pendingN; i++ {
				select {
				case h := <-hookHit:
					calls[h].st = CAtHook
				case <-time.After(wait):
				}
				if !a.Ok {
					break
				}
			}
			if !a.Ok {
				for _, c := range ids {
					x := calls[c]
					select {
					case r := <-x.done:
						o.Ret = append(o.Ret, Pair{c, r})
						x.st = CDone
					case <-time.After(wait):
					}
				}
			}
		case YReRes:
			close(cr.release)
			progress(a.C, &o)
		case YInnerDone:
			if cr.st == CInnerHeld {
				startExchange(a.C)
				select {
				case <-d.started:
				case <-time.After(wait):
				}
			}
			d.mu.Lock()
			ch := d.finish[a.C]
			d.mu.Unlock()
			if ch != nil {
				ch <- a.Ok
			}
			select {
			case r := <-cr.done:
				o.Ret = append(o.Ret, Pair{a.C, r})
				cr.st = CDone
			case <-time.After(wait):
			}
		case YInnerClose:
			d.Close()
			innerClosed = true
		case YClose:
			wasDialing := dialing
			guard(func() { lc.Close() })
			closed = true
			if wasDialing {
				dialing = false
				ids := []int{}
				for c, x := range calls {
					if x.st == CWaitDial {
						ids = append(ids, c)
					}
				}
				sort.Ints(ids)
				for _, c := range ids {
					x := calls[c]
					select {
					case r := <-x.done:
						o.Ret = append(o.Ret, Pair{c, r})
						x.st = CDone
					case <-time.After(wait):
					}
				}
			} else if dialOk {
				innerClosed = true
			}
		}
		// background reservations that got through, in the order they were issued
		for progressed := true; progressed && len(bgOrder) > 0; {
			progressed = false
			c := bgOrder[0]
			x := calls[c]
			tmo := 15 * time.Millisecond
			select {
			case r := <-x.bg:
				code := classify(r.rx, r.closed)
				o.Bg = append(o.Bg, Pair{c, code})
				settle(c, code, r.rx)
				bgOrder = bgOrder[1:]
				progressed = true
			case <-time.After(tmo):
			}
		}
		sort.Slice(o.Ret, func(i, j int) bool { return o.Ret[i].C < o.Ret[j].C })
		obs = append(obs, o)
	}
	var fin Final
	// The counter is read under the connection's mutex: a reservation stuck
	// for good inside ReserveNewQuery (it holds that mutex) makes this hang,
	// which is itself an observation (never what the model says).
	rc := make(chan int, 1)
	go func() { rc <- transport.VerifLazyReserved(lc) }()
	select {
	case fin.Reserved = <-rc:
	case <-time.After(wait):
		fin.Reserved = 77777
		stuck = true
	}
	if stuck {
		Stuck++
	}
	d.mu.Lock()
	fin.Inner = d.count
	d.mu.Unlock()
	fin.Blocked = append(fin.Blocked, bgOrder...)
	sort.Ints(fin.Blocked)

	// clean up
	for _, x := range calls {
		x.cancel()
	}
	select {
	case dialCh <- false:
	default:
	}
	for _, x := range calls {
		if x.st == CAtHook {
			close(x.release)
		}
		if x.st == CEarly {
			// an early reservation nobody used: a late reserver (and Close) wait for it
			go x.rx.WithdrawReserved()
		}
	}
	time.Sleep(time.Millisecond)
	d.mu.Lock()
	for _, ch := range d.finish {
		select {
		case ch <- false:
		default:
		}
	}
	d.mu.Unlock()
	closed2 := make(chan struct{})
	go func() { lc.Close(); close(closed2) }()
	select {
	case <-closed2:
	case <-time.After(wait):
	}
	deadline := time.After(wait)
	for _, x := range calls {
		if x.done != nil && x.st != CDone {
			select {
			case <-x.done:
			case <-deadline:
			}
		}
	}
	// a late exchange may still start after the first sweep
	d.mu.Lock()
	for _, ch := range d.finish {
		select {
		case ch <- false:
		default:
		}
	}
	d.mu.Unlock()
	return s, obs, fin
}

// RunScript runs a fixed script, skipping inapplicable actions.
func RunScript(s Script) (Script, []Obs, Final) {
	i := 0
	acts := s.Actions
	return Run(s, func(v *View) *Action {
		for i < len(acts) {
			a := acts[i]
			i++
			if v.Applicable(a) {
				return &a
			}
		}
		return nil
	})
}

func Catalogue() map[string]Script {
	m := map[string]Script{}
	res := func(c int) Action { return Action{K: YReserve, C: c} }
	bg := func(c int) Action { return Action{K: YReserveBg, C: c} }
	wd := func(c int) Action { return Action{K: YWithdraw, C: c} }
	st := func(c int) Action { return Action{K: YStart, C: c} }
	can := func(c int) Action { return Action{K: YCancel, C: c} }
	dial := func(ok bool) Action { return Action{K: YDial, Ok: ok} }
	rr := func(c int) Action { return Action{K: YReRes, C: c} }
	fin := func(c int, ok bool) Action { return Action{K: YInnerDone, C: c, Ok: ok} }
	icl := Action{K: YInnerClose}
	cl := Action{K: YClose}
	mk := func(n string, q, im int, as ...Action) { m[n] = Script{MaxQ: q, IMax: im, Actions: as} }
	mk("queue-limit", 2, 2, res(0), res(1), res(2), wd(0), res(3), res(4))
	mk("equal-limits-all-served", 3, 3, res(0), res(1), res(2), res(3), st(0), st(1), st(2), dial(true), bg(4), rr(2), rr(0), rr(1),
		fin(0, true), fin(1, true), fin(2, false), res(5), fin(4, true))
	mk("smaller-real-limit", 3, 2, res(0), res(1), res(2), st(0), st(1), st(2), dial(true), rr(0), rr(1), rr(2), fin(0, true), fin(1, true))
	mk("late-waits-for-early", 2, 4, res(0), res(1), st(0), dial(true), bg(2), st(1), rr(0), rr(1), fin(0, true), fin(1, true), fin(2, true))
	// with equal limits a newcomer must not overtake a caller that queued while dialing (it would take its slot)
	mk("equal-limits-late-waits-for-early-1", 1, 1, res(0), st(0), dial(true), bg(1), rr(0), fin(0, true), res(2), fin(1, true))
	mk("equal-limits-late-waits-for-early-2", 2, 2, res(0), res(1), st(0), st(1), dial(true), rr(0), bg(2), rr(1), fin(0, true), fin(1, true), fin(2, true))
	mk("late-waits-for-unstarted", 2, 4, res(0), dial(true), bg(1), wd(0), fin(1, true))
	mk("dial-error-wakes-all", 3, 3, res(0), res(1), res(2), st(0), st(1), dial(false), st(2), res(3))
	mk("close-while-dialing", 3, 3, res(0), res(1), st(0), st(1), cl, res(2), wd(1))
	mk("close-after-dial", 3, 3, res(0), st(0), dial(true), cl, rr(0), res(1))
	mk("cancel-while-dialing", 3, 3, res(0), res(1), st(0), st(1), can(0), res(2), dial(true), rr(1), fin(1, true))
	mk("cancel-at-hook", 2, 2, res(0), st(0), dial(true), can(0), rr(0), fin(0, true))
	mk("real-conn-dies", 2, 2, res(0), res(1), st(0), st(1), dial(true), rr(0), icl, rr(1), fin(0, false), res(2))
	mk("no-leak", 2, 2, res(0), res(1), st(0), st(1), dial(true), rr(0), rr(1), fin(0, true), fin(1, true), res(2), res(3), res(4), fin(2, true), fin(3, true))
	return m
}

func RandomNext(r *hx.RNG, maxSteps int) (Script, func(v *View) *Action) {
	s := Script{MaxQ: hx.Pick(r, []int{1, 2, 2, 3, 4}), IMax: hx.Pick(r, []int{1, 2, 3, 4, 4})}
	if r.Chance(1, 2) {
		s.IMax = s.MaxQ
	}
	nextCall := 0
	return s, func(v *View) *Action {
		if v.Steps >= maxSteps {
			return nil
		}
		for try := 0; try < 60; try++ {
			var a Action
			w := []int{26, 6, 4, 16, 5, 8, 14, 12, 1, 2}
			tot := 0
			for _, x := range w {
				tot += x
			}
			k := r.Intn(tot)
			kind := 0
			for k >= w[kind] {
				k -= w[kind]
				kind++
			}
			a.K = Kind(kind)
			switch a.K {
			case YReserve, YReserveBg:
				if nextCall > 12 {
					continue
				}
				a.C = nextCall
			case YDial:
				a.Ok = !r.Chance(1, 5)
			case YInnerDone:
				a.Ok = !r.Chance(1, 4)
				fallthrough
			default:
				if nextCall == 0 {
					continue
				}
				a.C = r.Intn(nextCall)
			}
			if v.Applicable(a) {
				if a.K == YReserve || a.K == YReserveBg {
					nextCall++
				}
				return &a
			}
		}
		return nil
	}
}

var _ = fmt.Sprint
