package lazyx

import (
	"fmt"
	"sort"

	"verifharness/hx"
)

// Drive runs the catalogue and the seeded random schedules on the lazy
// connection; wrap turns the Judge.Lazy.case literal into the caller's case type.
func Drive(w *hx.Writer, o *hx.Opts, wrap func(string) string) {
	emit := func(id string, s Script, obs []Obs, f Final) {
		acts := make([]string, len(s.Actions))
		for i, a := range s.Actions {
			acts[i] = a.String()
		}
		w.Emit("lazy-script", hx.Case{ID: id, Coq: wrap(CaseCoq(s, obs, f)),
			Desc: map[string]any{"maxq": s.MaxQ, "imax": s.IMax, "actions": acts, "reserved": f.Reserved, "inner": f.Inner, "blocked": f.Blocked}})
		w.Tally("lazy-actions", len(s.Actions))
	}
	cat := Catalogue()
	names := make([]string, 0, len(cat))
	for n := range cat {
		names = append(names, n)
	}
	sort.Strings(names)
	for _, n := range names {
		id := "lazy:cat:" + n
		if o.Want(id) && Stuck < 3 {
			s, obs, f := RunScript(cat[n])
			emit(id, s, obs, f)
		}
	}
	n := o.Count(120, 4000)
	for i := 0; i < n; i++ {
		id := fmt.Sprintf("lazy:gen:%d", i)
		if !o.Want(id) {
			continue
		}
		if Stuck >= 3 {
			break // the connection hangs: three witnesses are enough, do not spend the run on timeouts
		}
		r := hx.NewRNG(o.Seed, id)
		s0, next := RandomNext(r, r.Range(6, 30))
		s, obs, f := Run(s0, next)
		emit(id, s, obs, f)
	}
}
