package poolx

import (
	"bytes"
	"fmt"
	"os"
	"runtime"
	"sort"
	"time"

	"verifharness/hx"
)

// BurstResult: what a burst of concurrent queries did to the transport's connections.
type BurstResult struct {
	Pipeline bool
	Limit    int   // per-connection limit (1 for the non-pipelined transport)
	MaxInFl  []int // per connection: the largest number of written, unanswered queries seen at once
	Failed   int   // queries that did not succeed
	Leaked   int   // goroutines still inside pkg/upstream/transport some time after Close
	Blocked  int   // queries that had not returned some time after Close
}

var dumped bool

func transportGoroutines() int {
	buf := make([]byte, 1<<20)
	n := runtime.Stack(buf, true)
	cnt := 0
	for _, g := range bytes.Split(buf[:n], []byte("\n\n")) {
		if bytes.Contains(g, []byte("mosdns/v5/pkg/upstream/transport.")) {
			cnt++
		}
	}
	return cnt
}

// Burst sends n concurrent queries, holds every answer until all of them are written (or queued behind a
// limit), releases, waits for the results, then closes the transport with `late` further queries in flight
// on silent connections and checks that everything is released.
func Burst(pipeline bool, limit, n, late int) BurstResult {
	// goroutines of the transport package that are still around from whatever this process did before (another
	// harness part whose clean-up is not through yet) are not this burst's: wait for them to settle and count
	// from there
	base := transportGoroutines()
	for settle := time.Now().Add(time.Second); base > 0 && time.Now().Before(settle); {
		time.Sleep(5 * time.Millisecond)
		base = transportGoroutines()
	}
	if base > 0 && os.Getenv("VERIF_DUMP_LEAK") != "" && !dumped {
		dumped = true
		buf := make([]byte, 1<<20)
		k := runtime.Stack(buf, true)
		for _, g := range bytes.Split(buf[:k], []byte("\n\n")) {
			if bytes.Contains(g, []byte("mosdns/v5/pkg/upstream/transport.")) {
				fmt.Fprintf(os.Stderr, "LEFTOVER GOROUTINE before burst:\n%s\n\n", g)
			}
		}
	}
	plans := make([]ConnPlan, 0, n+late+2)
	for i := 0; i < n+2; i++ {
		plans = append(plans, ConnPlan{Dial: "ok", Answer: 1 << 20, After: "healthy", HoldAll: true})
	}
	w := NewWorld(plans)
	var t Transport
	if pipeline {
		t = NewPipeline(w, limit, limit)
	} else {
		t = NewReuse(w)
	}
	s := NewSession(pipeline, w, t)
	defer s.End()
	res := BurstResult{Pipeline: pipeline, Limit: limit}
	for i := 0; i < n; i++ {
		s.Start(i)
	}
	for i := 0; i < n; i++ {
		s.WaitWritten(i, 0, 2*time.Second)
	}
	w.Release()
	for i := 0; i < n; i++ {
		if !s.Wait(i, 4*time.Second) {
			res.Failed++
			continue
		}
		if co, final := s.Obs(i, false); final != 0 || co.Tag != i {
			res.Failed++
		}
	}
	// connections dialled from now on are silent
	w.mu.Lock()
	w.plans = append(w.plans[:w.next:w.next], make([]ConnPlan, 0)...)
	for i := 0; i < late+2; i++ {
		w.plans = append(w.plans, ConnPlan{Dial: "ok", Answer: 0, After: "silent"})
	}
	w.mu.Unlock()
	for _, c := range w.Conns {
		c.mu.Lock()
		c.plan.After, c.plan.Answer = "silent", 0
		c.mu.Unlock()
	}
	for i := n; i < n+late; i++ {
		s.Start(i)
	}
	time.Sleep(2 * time.Millisecond)
	t.Close()
	for i := n; i < n+late; i++ {
		if !s.Wait(i, 3*time.Second) {
			res.Blocked++
		}
	}
	deadline := time.Now().Add(10 * time.Second) // only "never" matters; the machine may be busy
	for {
		res.Leaked = transportGoroutines() - base
		if res.Leaked <= 0 || time.Now().After(deadline) {
			break
		}
		time.Sleep(2 * time.Millisecond)
	}
	if res.Leaked < 0 {
		res.Leaked = 0
	}
	w.mu.Lock()
	for _, c := range w.Conns {
		_, m, _ := c.Stats()
		res.MaxInFl = append(res.MaxInFl, m)
	}
	w.mu.Unlock()
	sort.Ints(res.MaxInFl)
	return res
}

func (b BurstResult) Coq() string {
	return hx.App("CBurst", hx.Bool(b.Pipeline), hx.Ni(b.Limit), hx.NList(b.MaxInFl), hx.Ni(b.Failed), hx.Ni(b.Leaked), hx.Ni(b.Blocked))
}

// DriveBursts emits burst cases; wrap adapts the literal to the caller's case type.
func DriveBursts(w *hx.Writer, o *hx.Opts, wrap func(string) string) {
	n := o.Count(24, 400)
	for i := 0; i < n; i++ {
		id := fmt.Sprintf("burst:%d", i)
		if !o.Want(id) {
			continue
		}
		r := hx.NewRNG(o.Seed, id)
		pl := r.Bool()
		limit := 1
		if pl {
			limit = hx.Pick(r, []int{1, 2, 3, 4, 8})
		}
		b := Burst(pl, limit, r.Range(1, 3*limit+4), r.Range(0, 4))
		w.Emit("burst", hx.Case{ID: id, Coq: wrap(b.Coq()), Desc: map[string]any{"pipeline": b.Pipeline, "limit": b.Limit,
			"max_inflight": b.MaxInFl, "failed": b.Failed, "leaked": b.Leaked, "blocked": b.Blocked}})
	}
}
